/-
  FcLemmas/C05.lean — try_join: while no child has failed the slot table mirrors the `Ok` values
  the children answered and no error was seen (`errs t = []`); the first `Err` ends the
  combinator in that very poll.  `slice = true`: array/Vec model (`cnt` = pending count),
  `slice = false`: tuple model (`cnt` = completed count).
-/
import FcLemmas.Seg
import FcLemmas.C04
set_option linter.unusedSimpArgs false
set_option linter.unusedVariables false

namespace Fc
namespace C05
open Mon Fix

/-! ### how `errs`, `okVal`, `sincePoll`, `holds_C05` see the segments the engine appends -/

theorem errs_own (e : Ev) (t : List Ev) (h : isOwnEv e = true) : errs (e :: t) = errs t := by
  cases e <;> simp_all [isOwnEv, errs]

theorem errs_owns (l t : List Ev) (hl : ∀ e ∈ l, isOwnEv e = true) : errs (l ++ t) = errs t :=
  skip_seg errs isOwnEv errs_own l hl t

theorem errs_pollSeg (c slot : Nat) (wk : Wk) (l : List Ev) (r : Res) (evs t : List Ev)
    (hl : ∀ e ∈ l, isFireEv e = true) (he : ∀ e ∈ evs, isOwnEv e = true) :
    errs (pollSeg c slot wk l r evs t) =
      (match r with | .ready false v => v :: errs t | _ => errs t) := by
  unfold pollSeg
  rw [errs_owns evs.reverse _ (fun e h => he e (List.mem_reverse.mp h))]
  cases r with
  | ready ok v => cases ok <;> simp [errs, errs_fires _ _ hl]
  | pend => simp [errs, errs_fires _ _ hl]
  | item v => simp [errs, errs_fires _ _ hl]
  | fin => simp [errs, errs_fires _ _ hl]
  | panic => simp [errs, errs_fires _ _ hl]

theorem okVal_pollSeg (c slot : Nat) (wk : Wk) (l : List Ev) (r : Res) (evs t : List Ev) (j : Nat)
    (hl : ∀ e ∈ l, isFireEv e = true) (he : ∀ e ∈ evs, isOwnEv e = true) :
    okVal (pollSeg c slot wk l r evs t) j =
      if c = j then (match r with | .ready true v => some v | _ => none) else okVal t j := by
  unfold okVal
  rw [lastRes_pollSeg c slot wk l r evs t j hl he]
  by_cases hcj : c = j
  · simp only [hcj, if_true]
    cases r with
    | ready ok v => cases ok <;> rfl
    | pend => rfl
    | item v => rfl
    | fin => rfl
    | panic => rfl
  · simp only [hcj, if_false]

/-- segments without a `pollBegin` stay in the current poll -/
theorem sincePoll_app (l t : List Ev) (hl : ∀ e ∈ l, ∀ w, e ≠ .pollBegin w) :
    sincePoll (l ++ t) = l ++ sincePoll t := by
  induction l with
  | nil => rfl
  | cons e l ih =>
    have he := hl e (List.mem_cons_self ..)
    have := ih (fun e' he' => hl e' (List.mem_cons_of_mem _ he'))
    cases e <;> simp_all [sincePoll]

/-- no error so far, hence none in the current poll -/
theorem errs_sincePoll_nil (t : List Ev) (h : errs t = []) : errs (sincePoll t) = [] := by
  induction t with
  | nil => rfl
  | cons e t ih =>
    cases e with
    | pollBegin w => rfl
    | childEnd c r =>
      cases r with
      | ready ok v =>
        cases ok
        · simp [errs] at h
        · simp only [errs] at h; simp only [sincePoll, errs]; exact ih h
      | pend => simp only [errs] at h; simp only [sincePoll, errs]; exact ih h
      | item v => simp only [errs] at h; simp only [sincePoll, errs]; exact ih h
      | fin => simp only [errs] at h; simp only [sincePoll, errs]; exact ih h
      | panic => simp only [errs] at h; simp only [sincePoll, errs]; exact ih h
    | pollEnd o => simp only [errs] at h; simp only [sincePoll, errs]; exact ih h
    | childBegin c s wk => simp only [errs] at h; simp only [sincePoll, errs]; exact ih h
    | fired c a wk => simp only [errs] at h; simp only [sincePoll, errs]; exact ih h
    | woke w => simp only [errs] at h; simp only [sincePoll, errs]; exact ih h
    | wakePanic => simp only [errs] at h; simp only [sincePoll, errs]; exact ih h
    | childDropped c => simp only [errs] at h; simp only [sincePoll, errs]; exact ih h
    | valDropped v => simp only [errs] at h; simp only [sincePoll, errs]; exact ih h
    | dropBegin => simp only [errs] at h; simp only [sincePoll, errs]; exact ih h
    | dropEnd => simp only [errs] at h; simp only [sincePoll, errs]; exact ih h
    | inserted c k => simp only [errs] at h; simp only [sincePoll, errs]; exact ih h
    | removed k p => simp only [errs] at h; simp only [sincePoll, errs]; exact ih h
    | answer q a => simp only [errs] at h; simp only [sincePoll, errs]; exact ih h

/-- the errors of the current poll after a child failed with `v` -/
theorem errs_since_pollSeg (c slot : Nat) (wk : Wk) (l : List Ev) (v : Nat) (evs t : List Ev)
    (hl : ∀ e ∈ l, isFireEv e = true) (he : ∀ e ∈ evs, isOwnEv e = true) :
    errs (sincePoll (pollSeg c slot wk l (.ready false v) evs t)) = v :: errs (sincePoll t) := by
  unfold pollSeg
  rw [sincePoll_app evs.reverse _ (fun e h w => by
    have := he e (List.mem_reverse.mp h); cases e <;> simp_all [isOwnEv])]
  rw [errs_owns evs.reverse _ (fun e h => he e (List.mem_reverse.mp h))]
  simp only [sincePoll, errs]
  rw [sincePoll_fires _ _ hl, errs_fires _ _ hl]
  simp [sincePoll, errs]

theorem holds_fires (n : Nat) (l t : List Ev) (hl : ∀ e ∈ l, isFireEv e = true) :
    holds_C05 n (l ++ t) = holds_C05 n t :=
  skip_seg (holds_C05 n) isFireEv (fun e t h => by cases e <;> simp_all [isFireEv, holds_C05]) l hl t

theorem holds_owns (n : Nat) (l t : List Ev) (hl : ∀ e ∈ l, isOwnEv e = true) :
    holds_C05 n (l ++ t) = holds_C05 n t :=
  skip_seg (holds_C05 n) isOwnEv (fun e t h => by cases e <;> simp_all [isOwnEv, holds_C05]) l hl t

/-- a child poll is accepted as long as no error has been seen before it -/
theorem holds_seg (n c slot : Nat) (wk : Wk) (l : List Ev) (r : Res) (evs t : List Ev)
    (hl : ∀ e ∈ l, isFireEv e = true) (he : ∀ e ∈ evs, isOwnEv e = true) (herr : errs t = []) :
    holds_C05 n (pollSeg c slot wk l r evs t) = holds_C05 n t := by
  unfold pollSeg
  rw [holds_owns n evs.reverse _ (fun e h => he e (List.mem_reverse.mp h))]
  simp only [holds_C05]
  rw [holds_fires _ _ _ hl]
  simp [holds_C05, herr]

/-! ### the invariant -/

structure Inv (slice : Bool) (n : Nat) (s : Fix) (t : List Ev) : Prop where
  mon : holds_C05 n t = true
  hn : s.n = n
  live : s.dead = false → ∀ i, i < n →
    (s.st i = .pending ∧ okVal t i = none) ∨
    (s.st i = .ready ∧ ∃ v, okVal t i = some v ∧ s.out i = some v)
  noerr : s.dead = false → errs t = []
  zero : n = 0 → errs t = []
  cnt : s.dead = false →
    s.cnt = if slice then cntP (fun i => s.st i = .pending) n else cntP (fun i => s.st i = .ready) n
  lt : s.dead = false → slice = false → 0 < n → s.cnt < n
  dead : s.dead = true → spent false t = true

def J (slice : Bool) (n : Nat) (s : Fix) (t : List Ev) (l : List Nat) : Prop :=
  Inv slice n s t ∧ s.dead = false ∧ (slice = false → 0 < n) ∧ ∀ j ∈ l, j < n

/-- the invariant of a used-up combinator -/
theorem inv_dead {slice : Bool} {n : Nat} {s : Fix} {t : List Ev} (hmon : holds_C05 n t = true)
    (hn : s.n = n) (hdead : s.dead = true) (hz : n = 0 → errs t = [])
    (hsp : spent false t = true) : Inv slice n s t :=
  ⟨hmon, hn, fun hd => absurd hd (by simp [hdead]), fun hd => absurd hd (by simp [hdead]), hz,
    fun hd => absurd hd (by simp [hdead]), fun hd => absurd hd (by simp [hdead]), fun _ => hsp⟩

/-- a wake-up event changes nothing -/
theorem inv_fireEv {slice n s t} (e : Ev) (he : isFireEv e = true) (h : Inv slice n s t) :
    Inv slice n s (e :: t) := by
  have hl : ∀ e' ∈ [e], isFireEv e' = true := by simpa using he
  have e1 := holds_fires n [e] t hl
  have e2 := errs_fires [e] t hl
  have e3 := spent_fires false [e] t hl
  simp only [List.singleton_append] at e1 e2 e3
  refine ⟨by rw [e1]; exact h.mon, h.hn, ?_, fun hd => by rw [e2]; exact h.noerr hd,
    fun h0 => by rw [e2]; exact h.zero h0, h.cnt, h.lt, fun hd => by rw [e3]; exact h.dead hd⟩
  intro hd i hi
  have e4 := okVal_fires [e] t i hl
  simp only [List.singleton_append] at e4
  rw [e4]
  exact h.live hd i hi

/-- not every child has resolved to `Ok` -/
theorem not_all {slice n s t} (h : Inv slice n s t) (hd : s.dead = false) (i : Nat) (hi : i < n)
    (hp : s.st i = .pending) : allOk n t = false := by
  cases hall : allOk n t
  · rfl
  · simp only [allOk, List.all_eq_true, List.mem_range] at hall
    rcases h.live hd i hi with ⟨_, hr⟩ | ⟨hr, _⟩
    · have := hall i hi; simp [hr] at this
    · rw [hp] at hr; cases hr

theorem all_ready {slice n s t} (h : Inv slice n s t) (hd : s.dead = false)
    (hall : ∀ i, i < n → s.st i = .ready) :
    allOk n t = true ∧
    s.outs = (List.range n).map (fun c => (okVal t c).getD 0) := by
  constructor
  · simp only [allOk, List.all_eq_true, List.mem_range]
    intro i hi
    rcases h.live hd i hi with ⟨hp, _⟩ | ⟨_, v, hv, _⟩
    · rw [hall i hi] at hp; cases hp
    · simp [hv]
  · unfold Fix.outs
    rw [h.hn]
    apply List.map_congr_left
    intro i hi
    have hi := List.mem_range.mp hi
    rcases h.live hd i hi with ⟨hp, _⟩ | ⟨_, v, hv, ho⟩
    · rw [hall i hi] at hp; cases hp
    · simp [hv, ho]

/-- `Pending` is the right answer whenever some slot is still pending (and nothing failed) -/
theorem pend_ok {slice n s t} (h : Inv slice n s t) (hd : s.dead = false) (i : Nat) (hi : i < n)
    (hp : s.st i = .pending) : Inv slice n s (.pollEnd .pending :: t) := by
  have he : errs (.pollEnd .pending :: t) = errs t := by simp [errs]
  refine ⟨?_, h.hn, ?_, fun hd' => by rw [he]; exact h.noerr hd', fun h0 => by rw [he]; exact h.zero h0,
    h.cnt, h.lt, fun hd' => absurd hd' (by simp [hd])⟩
  · simp [holds_C05, c05At, h.mon, h.noerr hd, not_all h hd i hi hp]
  · intro hd' j hj
    have : okVal (.pollEnd .pending :: t) j = okVal t j := by simp [okVal, lastRes]
    rw [this]; exact h.live hd' j hj

/-- some slot is pending: from the counters -/
theorem some_pending {slice n s t} (h : Inv slice n s t) (hd : s.dead = false) (hn : 0 < n)
    (hc : slice = true → s.cnt ≠ 0) : ∃ i, i < n ∧ s.st i = .pending := by
  cases hs : slice
  · have hlt := h.lt hd hs hn
    have hcnt := h.cnt hd
    simp only [hs, Bool.false_eq_true, if_false] at hcnt
    rw [hcnt] at hlt
    obtain ⟨i, hi, hp⟩ := cntP_lt _ _ hlt
    refine ⟨i, hi, ?_⟩
    rcases h.live hd i hi with ⟨hp', _⟩ | ⟨hr, _⟩
    · exact hp'
    · simp [hr] at hp
  · have hcnt := h.cnt hd
    simp only [hs, if_true] at hcnt
    have := hc hs
    rw [hcnt] at this
    obtain ⟨i, hi, hp⟩ := cntP_pos _ _ this
    exact ⟨i, hi, by simpa using hp⟩

/-- a child that did not resolve leaves the table as it is -/
theorem keep_ok {slice n s t} (h : Inv slice n s t) (hd : s.dead = false) (i slot : Nat)
    (wk : Wk) (l : List Ev) (r : Res) (hl : ∀ e ∈ l, isFireEv e = true)
    (hr : ∀ ok v, r ≠ .ready ok v) (hp : s.st i = .pending) :
    Inv slice n s (pollSeg i slot wk l r [] t) := by
  have he : ∀ e ∈ ([] : List Ev), isOwnEv e = true := by simp
  have herr : errs (pollSeg i slot wk l r [] t) = errs t := by
    rw [errs_pollSeg i slot wk l r [] t hl he]
    cases r <;> simp_all
  refine ⟨by rw [holds_seg n i slot wk l r [] t hl he (h.noerr hd)]; exact h.mon, h.hn, ?_,
    fun _ => by rw [herr]; exact h.noerr hd, fun h0 => by rw [herr]; exact h.zero h0, h.cnt, h.lt,
    fun hd' => absurd hd' (by simp [hd])⟩
  intro _ j hj
  rw [okVal_pollSeg i slot wk l r [] t j hl he]
  by_cases hij : i = j
  · subst hij
    left
    refine ⟨hp, ?_⟩
    cases r <;> simp_all
  · simp only [hij, if_false]
    exact h.live hd j hj

/-- slot `i` resolves to `Ok v` and the try_join goes on -/
theorem ready_ok {slice n s t} (h : Inv slice n s t) (hd : s.dead = false) (i slot : Nat) (hi : i < n)
    (wk : Wk) (l : List Ev) (v : Nat) (hl : ∀ e ∈ l, isFireEv e = true)
    (hp : s.st i = .pending) (s' : Fix) (hn' : s'.n = s.n) (hst : s'.st = upd s.st i .ready)
    (hout : s'.out = upd s.out i (some v)) (hdead : s'.dead = false)
    (hcnt : s'.cnt = if slice then s.cnt - 1 else s.cnt + 1)
    (hlt : slice = false → s.cnt + 1 < n) :
    Inv slice n s' (pollSeg i slot wk l (.ready true v) [.childDropped i] t) := by
  have he : ∀ e ∈ [Ev.childDropped i], isOwnEv e = true := by simp [isOwnEv]
  have herr : errs (pollSeg i slot wk l (.ready true v) [.childDropped i] t) = errs t := by
    rw [errs_pollSeg i slot wk l _ _ t hl he]
  refine ⟨by rw [holds_seg n i slot wk l _ _ t hl he (h.noerr hd)]; exact h.mon, by rw [hn', h.hn],
    ?_, fun _ => by rw [herr]; exact h.noerr hd, fun h0 => by rw [herr]; exact h.zero h0, ?_, ?_,
    fun hd' => absurd hd' (by simp [hdead])⟩
  · intro _ j hj
    rw [okVal_pollSeg i slot wk l _ _ t j hl he, hst, hout]
    by_cases hij : i = j
    · subst hij
      right
      simp
    · have hji : j ≠ i := fun h => hij h.symm
      simp only [hij, if_false, upd_other _ _ _ _ hji]
      exact h.live hd j hj
  · intro _
    rw [hcnt, hst, h.cnt hd]
    cases slice
    · simp only [Bool.false_eq_true, if_false]
      exact (C04.cnt_ready_upd s.st n i hi hp).symm
    · simp only [if_true]
      have := C04.cnt_pending_upd s.st n i hi hp
      omega
  · intro _ hs _
    rw [hcnt, hs]
    simp only [Bool.false_eq_true, if_false]
    exact hlt hs

/-- slot `i` is the last one to resolve to `Ok` (tuple model): the try_join returns `Ok` -/
theorem last_ok {n s t} (h : Inv false n s t) (hd : s.dead = false) (i slot : Nat) (hi : i < n)
    (wk : Wk) (l : List Ev) (v : Nat) (hl : ∀ e ∈ l, isFireEv e = true)
    (hp : s.st i = .pending) (hc : s.cnt + 1 = n) (s' : Fix) (hn' : s'.n = s.n)
    (hdead : s'.dead = true) :
    Inv false n s' (.pollEnd (.ready true ({ s with out := upd s.out i (some v) }).outs) ::
      pollSeg i slot wk l (.ready true v) [.childDropped i] t) := by
  have he : ∀ e ∈ [Ev.childDropped i], isOwnEv e = true := by simp [isOwnEv]
  have herr : errs (pollSeg i slot wk l (.ready true v) [.childDropped i] t) = [] := by
    rw [errs_pollSeg i slot wk l _ _ t hl he]; exact h.noerr hd
  have hcnt : cntP (fun j => decide (upd s.st i .ready j = .ready)) n = n := by
    rw [C04.cnt_ready_upd s.st n i hi hp]
    have := h.cnt hd
    simp only [Bool.false_eq_true, if_false] at this
    omega
  have hall := cntP_full _ _ hcnt
  have hlive : ∀ j, j < n →
      (∃ w, okVal (pollSeg i slot wk l (.ready true v) [.childDropped i] t) j = some w ∧
        upd s.out i (some v) j = some w) := by
    intro j hj
    rw [okVal_pollSeg i slot wk l _ _ t j hl he]
    by_cases hij : i = j
    · subst hij; exact ⟨v, by simp, by simp⟩
    · have hji : j ≠ i := fun h => hij h.symm
      simp only [hij, if_false, upd_other _ _ _ _ hji]
      have hr := hall j hj
      simp only [upd_other _ _ _ _ hji, decide_eq_true_eq] at hr
      rcases h.live hd j hj with ⟨hpj, _⟩ | ⟨_, w, hw, ho⟩
      · rw [hr] at hpj; cases hpj
      · exact ⟨w, hw, ho⟩
  refine inv_dead ?_ (by rw [hn', h.hn]) hdead (fun h0 => absurd hi (by omega))
    (by simp [spent, finalSeen])
  simp only [holds_C05, c05At, Bool.and_eq_true, beq_iff_eq]
  refine ⟨by rw [holds_seg n i slot wk l _ _ t hl he (h.noerr hd)]; exact h.mon, ⟨?_, ?_⟩, ?_⟩
  · rw [herr]
  · simp only [allOk, List.all_eq_true, List.mem_range]
    intro j hj
    obtain ⟨w, hw, _⟩ := hlive j hj
    simp [hw]
  · unfold Fix.outs
    simp only [h.hn]
    apply List.map_congr_left
    intro j hj
    obtain ⟨w, hw, ho⟩ := hlive j (List.mem_range.mp hj)
    simp [hw, ho]

/-- slot `i` fails with `v`: the try_join returns exactly that error, in this poll -/
theorem err_ok {slice n s t} (h : Inv slice n s t) (hd : s.dead = false) (i slot : Nat) (hi : i < n)
    (wk : Wk) (l : List Ev) (v : Nat) (hl : ∀ e ∈ l, isFireEv e = true) (s' : Fix)
    (hn' : s'.n = s.n) (hdead : s'.dead = true) :
    Inv slice n s' (.pollEnd (.ready false [v]) ::
      pollSeg i slot wk l (.ready false v) [.childDropped i] t) := by
  have he : ∀ e ∈ [Ev.childDropped i], isOwnEv e = true := by simp [isOwnEv]
  have herr : errs (pollSeg i slot wk l (.ready false v) [.childDropped i] t) = [v] := by
    rw [errs_pollSeg i slot wk l _ _ t hl he]; simp [h.noerr hd]
  have hsince : errs (sincePoll (pollSeg i slot wk l (.ready false v) [.childDropped i] t)) = [v] := by
    rw [errs_since_pollSeg i slot wk l v _ t hl he, errs_sincePoll_nil t (h.noerr hd)]
  refine inv_dead ?_ (by rw [hn', h.hn]) hdead (fun h0 => absurd hi (by omega))
    (by simp [spent, finalSeen])
  simp only [holds_C05, c05At, Bool.and_eq_true, beq_iff_eq]
  refine ⟨by rw [holds_seg n i slot wk l _ _ t hl he (h.noerr hd)]; exact h.mon, ⟨?_, ?_⟩, ?_⟩
  · exact herr
  · rfl
  · exact hsince

/-- trace events that are not `pollEnd` and do not touch the observations -/
theorem inv_pb {slice n s t} (w : Nat) (h : Inv slice n s t) : Inv slice n s (.pollBegin w :: t) := by
  have he : errs (.pollBegin w :: t) = errs t := by simp [errs]
  refine ⟨by simpa [holds_C05] using h.mon, h.hn, ?_, fun hd => by rw [he]; exact h.noerr hd,
    fun h0 => by rw [he]; exact h.zero h0, h.cnt, h.lt, fun hd => ?_⟩
  · intro hd j hj
    have : okVal (.pollBegin w :: t) j = okVal t j := by simp [okVal, lastRes]
    rw [this]; exact h.live hd j hj
  · have := h.dead hd
    simpa [spent, finalSeen, alive, panickedSeen] using this

theorem inv_misuse {slice n s t} (w : Nat) (h : Inv slice n s t) (hd : s.dead = true) :
    Inv slice n s (.pollEnd .misuse :: .pollBegin w :: t) := by
  have hb := inv_pb w h
  have hsp := hb.dead hd
  refine inv_dead ?_ h.hn hd (fun h0 => by simpa [errs] using h.zero h0) ?_
  · simp only [holds_C05, c05At, Bool.and_eq_true]
    exact ⟨by simpa [holds_C05] using h.mon, hsp⟩
  · simpa [spent, finalSeen, alive, panickedSeen] using hsp

theorem inv_panic {slice n s t} (h : Inv slice n s t) (hd : s.dead = false) (i slot : Nat) (hi : i < n)
    (wk : Wk) (l : List Ev) (hl : ∀ e ∈ l, isFireEv e = true) (s' : Fix) (hn' : s'.n = s.n)
    (hdead : s'.dead = true) :
    Inv slice n s' (.pollEnd .panicked :: pollSeg i slot wk l .panic [] t) := by
  have he : ∀ e ∈ ([] : List Ev), isOwnEv e = true := by simp
  refine inv_dead ?_ (by rw [hn', h.hn]) hdead (fun h0 => absurd hi (by omega))
    (by simp [spent, panickedSeen])
  simp only [holds_C05, c05At, Bool.and_true]
  rw [holds_seg n i slot wk l _ _ t hl he (h.noerr hd)]; exact h.mon

theorem inv_drop {slice n s t} (h : Inv slice n s t) (evs : List Ev)
    (he : ∀ e ∈ evs, isOwnEv e = true) (s' : Fix) (hn' : s'.n = s.n) (hdead : s'.dead = true) :
    Inv slice n s' (.dropEnd :: (evs.reverse ++ .dropBegin :: t)) := by
  have hev : ∀ e ∈ evs.reverse, isOwnEv e = true := fun e h => he e (List.mem_reverse.mp h)
  refine inv_dead ?_ (by rw [hn', h.hn]) hdead ?_ ?_
  · simp only [holds_C05]
    rw [holds_owns n evs.reverse _ hev]
    simpa [holds_C05] using h.mon
  · intro h0
    simp only [errs]
    rw [errs_owns evs.reverse _ hev]
    simpa [errs] using h.zero h0
  · have : alive (.dropEnd :: (evs.reverse ++ .dropBegin :: t)) = false := by
      simp only [alive]
      rw [skip_seg alive isOwnEv (fun e t h => alive_own e t h) evs.reverse hev]
      rfl
    simp [spent, this]

/-- the scan is over and every slot is ready (array/Vec model): the try_join returns `Ok` -/
theorem done_ok {n s t} (h : Inv true n s t) (hd : s.dead = false) (hc : s.cnt = 0) (s' : Fix)
    (hn' : s'.n = s.n) (hdead : s'.dead = true) :
    Inv true n s' (.pollEnd (.ready true s.outs) :: t) := by
  have hcnt := h.cnt hd
  simp only [if_true] at hcnt
  rw [hc] at hcnt
  have hz := cntP_zero _ _ hcnt.symm
  have hall : ∀ i, i < n → s.st i = .ready := by
    intro i hi
    rcases h.live hd i hi with ⟨hp, _⟩ | ⟨hr, _⟩
    · have := hz i hi; simp [hp] at this
    · exact hr
  obtain ⟨h1, h2⟩ := all_ready h hd hall
  refine inv_dead ?_ (by rw [hn', h.hn]) hdead (fun h0 => by simpa [errs] using h.zero h0)
    (by simp [spent, finalSeen])
  simp only [holds_C05, c05At, Bool.and_eq_true, beq_iff_eq]
  exact ⟨h.mon, ⟨h.noerr hd, h1⟩, h2⟩

/-- arity 0 (tuple model): `Ok(())` at once, whatever happened before -/
theorem inv_unit {s t} (w : Nat) (h : Inv false 0 s t) :
    Inv false 0 s (.pollEnd (.ready true []) :: .pollBegin w :: t) := by
  have he : errs (.pollEnd (.ready true []) :: .pollBegin w :: t) = [] := by
    simpa [errs] using h.zero rfl
  refine ⟨?_, h.hn, fun hd i hi => absurd hi (by omega), fun _ => he, fun _ => he, ?_,
    fun _ _ h0 => absurd h0 (by omega), fun _ => by simp [spent, finalSeen]⟩
  · have hz : errs (.pollBegin w :: t) = [] := by simpa [errs] using h.zero rfl
    simp only [holds_C05, c05At, allOk, List.range_zero, List.all_nil, List.map_nil, hz,
      Bool.and_true, beq_self_eq_true]
    simpa [holds_C05] using h.mon
  · intro hd
    have := h.cnt hd
    simpa [cntP] using this

end C05
end Fc

namespace Fc
namespace C05
open Mon Fix

theorem sim_tryJoinSlice (n : Nat) (m : Mode) :
    Sim tryJoinSlice m Sim.anyRes (Inv true n) (J true n) where
  fireEv := fun s t e he h => inv_fireEv e he h
  pre := by
    intro s t w o hpre h
    simp only [tryJoinSlice, Fix.misuseIfDead] at hpre
    split at hpre
    · cases hpre; exact inv_misuse w h ‹_›
    · cases hpre
  start := by
    intro s t w hpre h
    have hd : s.dead = false := by
      simp only [tryJoinSlice, Fix.misuseIfDead] at hpre
      cases hdd : s.dead <;> simp_all
    refine ⟨inv_pb w h, hd, by simp, ?_⟩
    intro j hj
    simp only [tryJoinSlice] at hj
    rw [← h.hn]; exact List.mem_range.mp hj
  earlyPend := by
    intro s t l _ hor hJ
    obtain ⟨h, hd, _, _⟩ := hJ
    have hc : s.cnt ≠ 0 := by
      rcases hor with h1 | h1
      · simp [tryJoinSlice] at h1
      · simpa [tryJoinSlice] using h1
    have hn : 0 < n := by
      have := h.cnt hd
      simp only [if_true] at this
      cases n with
      | zero => simp [cntP] at this; omega
      | succ k => omega
    obtain ⟨i, hi, hp⟩ := some_pending h hd hn (fun _ => hc)
    exact pend_ok h hd i hi hp
  skip := by
    intro s t i rest _ hJ
    exact ⟨hJ.1, hJ.2.1, hJ.2.2.1, fun j hj => hJ.2.2.2 j (List.mem_cons_of_mem _ hj)⟩
  goOn := by
    intro s t i rest wk l r hJ hel hr _ hl hex
    obtain ⟨h, hd, h0, hlt⟩ := hJ
    have hi : i < n := hlt i (List.mem_cons_self ..)
    have hp : s.st i = .pending := by simpa [tryJoinSlice] using hel
    have hrest : ∀ j ∈ rest, j < n := fun j hj => hlt j (List.mem_cons_of_mem _ hj)
    cases r with
    | ready ok v =>
      cases ok with
      | true =>
        exact ⟨ready_ok h hd i i hi wk l v hl hp _ rfl rfl rfl hd (by simp [tryJoinSlice]) (by simp),
          hd, h0, hrest⟩
      | false => simp [tryJoinSlice] at hex
    | pend => exact ⟨keep_ok h hd i i wk l _ hl (by simp) hp, hd, h0, hrest⟩
    | item v => exact ⟨keep_ok h hd i i wk l _ hl (by simp) hp, hd, h0, hrest⟩
    | fin => exact ⟨keep_ok h hd i i wk l _ hl (by simp) hp, hd, h0, hrest⟩
    | panic => exact absurd rfl hr
  goExit := by
    intro s t i rest wk l r o hJ hel hr _ hl hex
    obtain ⟨h, hd, h0, hlt⟩ := hJ
    have hi : i < n := hlt i (List.mem_cons_self ..)
    cases r with
    | ready ok v =>
      cases ok with
      | true => simp [tryJoinSlice] at hex
      | false =>
        simp only [tryJoinSlice, Option.some.injEq] at hex
        subst hex
        exact err_ok h hd i i hi wk l v hl _ rfl rfl
    | pend => simp [tryJoinSlice, Fix.keep] at hex
    | item v => simp [tryJoinSlice, Fix.keep] at hex
    | fin => simp [tryJoinSlice, Fix.keep] at hex
    | panic => exact absurd rfl hr
  panic := by
    intro s t i rest wk l hJ hel hl
    obtain ⟨h, hd, h0, hlt⟩ := hJ
    exact inv_panic h hd i i (hlt i (List.mem_cons_self ..)) wk l hl _ rfl rfl
  finish := by
    intro s t hJ
    obtain ⟨h, hd, _, _⟩ := hJ
    simp only [tryJoinSlice]
    split
    · rename_i hc
      exact done_ok h hd hc _ rfl rfl
    · rename_i hc
      have hn : 0 < n := by
        have := h.cnt hd
        simp only [if_true] at this
        cases n with
        | zero => simp [cntP] at this; omega
        | succ k => omega
      obtain ⟨i, hi, hp⟩ := some_pending h hd hn (fun _ => hc)
      exact pend_ok h hd i hi hp
  drop := by
    intro s t h
    refine inv_drop h _ ?_ _ rfl rfl
    intro e he
    simp only [tryJoinSlice, Fix.dropStates, List.mem_append, List.mem_map] at he
    rcases he with ⟨_, _, rfl⟩ | ⟨_, _, rfl⟩ <;> rfl

theorem sim_tryJoinTuple (n : Nat) (m : Mode) :
    Sim tryJoinTuple m Sim.anyRes (Inv false n) (J false n) where
  fireEv := fun s t e he h => inv_fireEv e he h
  pre := by
    intro s t w o hpre h
    simp only [tryJoinTuple, Fix.misuseIfDead] at hpre
    split at hpre
    · rename_i hn0
      cases hpre
      have hn : n = 0 := by rw [← h.hn]; exact hn0
      subst hn
      exact inv_unit w h
    · split at hpre
      · cases hpre; exact inv_misuse w h ‹_›
      · cases hpre
  start := by
    intro s t w hpre h
    simp only [tryJoinTuple, Fix.misuseIfDead] at hpre
    have hn0 : s.n ≠ 0 := by
      intro h0; simp [h0] at hpre
    have hd : s.dead = false := by
      cases hdd : s.dead <;> simp_all
    refine ⟨inv_pb w h, hd, fun _ => by rw [← h.hn]; omega, ?_⟩
    intro j hj
    simp only [tryJoinTuple] at hj
    rw [← h.hn]; exact List.mem_range.mp hj
  earlyPend := by
    intro s t l _ _ hJ
    obtain ⟨h, hd, h0, _⟩ := hJ
    obtain ⟨i, hi, hp⟩ := some_pending h hd (h0 rfl) (fun hs => by cases hs)
    exact pend_ok h hd i hi hp
  skip := by
    intro s t i rest _ hJ
    exact ⟨hJ.1, hJ.2.1, hJ.2.2.1, fun j hj => hJ.2.2.2 j (List.mem_cons_of_mem _ hj)⟩
  goOn := by
    intro s t i rest wk l r hJ hel hr _ hl hex
    obtain ⟨h, hd, h0, hlt⟩ := hJ
    have hi : i < n := hlt i (List.mem_cons_self ..)
    have hp : s.st i = .pending := by
      rcases h.live hd i hi with ⟨hp, _⟩ | ⟨hr', _⟩
      · exact hp
      · simp [tryJoinTuple, hr'] at hel
    have hrest : ∀ j ∈ rest, j < n := fun j hj => hlt j (List.mem_cons_of_mem _ hj)
    cases r with
    | ready ok v =>
      cases ok with
      | true =>
        have hne : ¬ s.cnt + 1 = s.n := by
          intro hc; simp [tryJoinTuple, hc] at hex
        have hlt' := h.lt hd rfl (h0 rfl)
        have hmid := ready_ok (slice := false) h hd i i hi wk l v hl hp
          { s with st := upd s.st i .ready, out := upd s.out i (some v), cnt := s.cnt + 1 }
          rfl rfl rfl hd (by simp) (fun _ => by rw [h.hn] at hne; omega)
        refine ⟨?_, ?_, h0, hrest⟩
        · simpa [tryJoinTuple, hne] using hmid
        · simpa [tryJoinTuple, hne] using hd
      | false => simp [tryJoinTuple] at hex
    | pend => exact ⟨keep_ok h hd i i wk l _ hl (by simp) hp, hd, h0, hrest⟩
    | item v => exact ⟨keep_ok h hd i i wk l _ hl (by simp) hp, hd, h0, hrest⟩
    | fin => exact ⟨keep_ok h hd i i wk l _ hl (by simp) hp, hd, h0, hrest⟩
    | panic => exact absurd rfl hr
  goExit := by
    intro s t i rest wk l r o hJ hel hr _ hl hex
    obtain ⟨h, hd, h0, hlt⟩ := hJ
    have hi : i < n := hlt i (List.mem_cons_self ..)
    have hp : s.st i = .pending := by
      rcases h.live hd i hi with ⟨hp, _⟩ | ⟨hr', _⟩
      · exact hp
      · simp [tryJoinTuple, hr'] at hel
    cases r with
    | ready ok v =>
      cases ok with
      | true =>
        by_cases hc : s.cnt + 1 = s.n
        · simp only [tryJoinTuple, hc, if_true, Option.some.injEq] at hex
          subst hex
          have := last_ok h hd i i hi wk l v hl hp (by rw [← h.hn]; exact hc)
            { s with st := fun _ => .none, out := upd s.out i (some v), cnt := s.cnt + 1, dead := true }
            rfl rfl
          simpa [tryJoinTuple, hc] using this
        · simp [tryJoinTuple, hc] at hex
      | false =>
        simp only [tryJoinTuple, Option.some.injEq] at hex
        subst hex
        exact err_ok h hd i i hi wk l v hl _ rfl rfl
    | pend => simp [tryJoinTuple, Fix.keep] at hex
    | item v => simp [tryJoinTuple, Fix.keep] at hex
    | fin => simp [tryJoinTuple, Fix.keep] at hex
    | panic => exact absurd rfl hr
  panic := by
    intro s t i rest wk l hJ hel hl
    obtain ⟨h, hd, h0, hlt⟩ := hJ
    exact inv_panic h hd i i (hlt i (List.mem_cons_self ..)) wk l hl _ rfl rfl
  finish := by
    intro s t hJ
    obtain ⟨h, hd, h0, _⟩ := hJ
    obtain ⟨i, hi, hp⟩ := some_pending h hd (h0 rfl) (fun hs => by cases hs)
    exact pend_ok h hd i hi hp
  drop := by
    intro s t h
    refine inv_drop h _ ?_ _ rfl rfl
    intro e he
    simp only [tryJoinTuple, Fix.dropStates, List.mem_append, List.mem_map] at he
    rcases he with ⟨_, _, rfl⟩ | ⟨_, _, rfl⟩ <;> rfl

/-- the initial state -/
theorem inv_init (slice : Bool) (n : Nat) :
    Inv slice n (Fix.init n (if slice then n else 0)) [] := by
  refine ⟨rfl, rfl, fun _ i hi => Or.inl ⟨rfl, rfl⟩, fun _ => rfl, fun _ => rfl, fun _ => ?_,
    fun _ hs h0 => ?_, fun hd => by cases hd⟩
  · cases slice
    · simp only [Fix.init, Bool.false_eq_true, if_false]
      have : cntP (fun i => decide (PS.pending = PS.ready)) n = 0 := by
        rw [cntP_congr _ (fun _ => false) n (fun i _ => by simp)]
        exact cntP_none n
      exact this.symm
    · simp only [Fix.init, if_true]
      exact (cntP_all _ _ (fun i _ => by simp)).symm
  · subst hs; simpa [Fix.init] using h0

end C05
end Fc
