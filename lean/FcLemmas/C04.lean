/-
  FcLemmas/C04.lean — join: the slot table mirrors what the children answered; the outcome of
  every poll is the one C04 demands.  `slice = true`: array/Vec model (`cnt` = pending count),
  `slice = false`: tuple model (`cnt` = completed count).
-/
import FcLemmas.Seg
set_option linter.unusedSimpArgs false
set_option linter.unusedVariables false

namespace Fc
namespace C04
open Mon Fix

theorem holds_fires (n : Nat) (l t : List Ev) (hl : ∀ e ∈ l, isFireEv e = true) :
    holds_C04 n (l ++ t) = holds_C04 n t :=
  skip_seg (holds_C04 n) isFireEv (fun e t h => by cases e <;> simp_all [isFireEv, holds_C04]) l hl t

structure Inv (slice : Bool) (n : Nat) (s : Fix) (t : List Ev) : Prop where
  mon : holds_C04 n t = true
  hn : s.n = n
  live : s.dead = false → ∀ i, i < n →
    (s.st i = .pending ∧ resolvedVal t i = none) ∨
    (s.st i = .ready ∧ ∃ v, resolvedVal t i = some v ∧ s.out i = some v)
  cnt : s.dead = false →
    s.cnt = if slice then cntP (fun i => s.st i = .pending) n else cntP (fun i => s.st i = .ready) n
  lt : s.dead = false → slice = false → 0 < n → s.cnt < n
  dead : s.dead = true → spent false t = true

def J (slice : Bool) (n : Nat) (s : Fix) (t : List Ev) (l : List Nat) : Prop :=
  Inv slice n s t ∧ s.dead = false ∧ (slice = false → 0 < n) ∧ ∀ j ∈ l, j < n

/-- a wake-up event changes nothing -/
theorem inv_fireEv {slice n s t} (e : Ev) (he : isFireEv e = true) (h : Inv slice n s t) :
    Inv slice n s (e :: t) := by
  have hl : ∀ e' ∈ [e], isFireEv e' = true := by simpa using he
  have e1 := holds_fires n [e] t hl
  have e3 := spent_fires false [e] t hl
  simp only [List.singleton_append] at e1 e3
  refine ⟨by rw [e1]; exact h.mon, h.hn, ?_, h.cnt, h.lt, fun hd => by rw [e3]; exact h.dead hd⟩
  intro hd i hi
  have e2 := resolvedVal_fires [e] t i hl
  simp only [List.singleton_append] at e2
  rw [e2]
  exact h.live hd i hi

/-- not every child has resolved -/
theorem not_all {slice n s t} (h : Inv slice n s t) (hd : s.dead = false) (i : Nat) (hi : i < n)
    (hp : s.st i = .pending) : allResolved n t = false := by
  cases hall : allResolved n t
  · rfl
  · simp only [allResolved, List.all_eq_true, List.mem_range] at hall
    rcases h.live hd i hi with ⟨_, hr⟩ | ⟨hr, _⟩
    · have := hall i hi; simp [hr] at this
    · rw [hp] at hr; cases hr

theorem all_ready {slice n s t} (h : Inv slice n s t) (hd : s.dead = false)
    (hall : ∀ i, i < n → s.st i = .ready) :
    allResolved n t = true ∧
    s.outs = (List.range n).map (fun c => (resolvedVal t c).getD 0) := by
  constructor
  · simp only [allResolved, List.all_eq_true, List.mem_range]
    intro i hi
    rcases h.live hd i hi with ⟨hp, _⟩ | ⟨_, v, hv, _⟩
    · rw [hall i hi] at hp; cases hp
    · simp [hv]
  · unfold Fix.outs
    rw [h.hn]
    apply List.map_congr_left
    intro i hi
    have hi := List.mem_range.mp hi
    rcases h.live hd i hi with ⟨hp, _⟩ | ⟨_, v, hv, ho⟩
    · rw [hall i hi] at hp; cases hp
    · simp [hv, ho]

/-- `Pending` is the right answer whenever some slot is still pending -/
theorem pend_ok {slice n s t} (h : Inv slice n s t) (hd : s.dead = false) (i : Nat) (hi : i < n)
    (hp : s.st i = .pending) : Inv slice n s (.pollEnd .pending :: t) := by
  refine ⟨?_, h.hn, ?_, h.cnt, h.lt, fun hd' => absurd hd' (by simp [hd])⟩
  · simp [holds_C04, c04At, h.mon, not_all h hd i hi hp]
  · intro hd' j hj
    have : resolvedVal (.pollEnd .pending :: t) j = resolvedVal t j := by simp [resolvedVal, lastRes]
    rw [this]; exact h.live hd' j hj

/-- some slot is pending: from the counters -/
theorem some_pending {slice n s t} (h : Inv slice n s t) (hd : s.dead = false) (hn : 0 < n)
    (hc : slice = true → s.cnt ≠ 0) : ∃ i, i < n ∧ s.st i = .pending := by
  cases hs : slice
  · have hlt := h.lt hd hs hn
    have hcnt := h.cnt hd
    simp only [hs, Bool.false_eq_true, if_false] at hcnt
    rw [hcnt] at hlt
    obtain ⟨i, hi, hp⟩ := cntP_lt _ _ hlt
    refine ⟨i, hi, ?_⟩
    rcases h.live hd i hi with ⟨hp', _⟩ | ⟨hr, _⟩
    · exact hp'
    · simp [hr] at hp
  · have hcnt := h.cnt hd
    simp only [hs, if_true] at hcnt
    have := hc hs
    rw [hcnt] at this
    obtain ⟨i, hi, hp⟩ := cntP_pos _ _ this
    exact ⟨i, hi, by simpa using hp⟩

theorem holds_seg (n c slot : Nat) (wk : Wk) (l : List Ev) (r : Res) (evs t : List Ev)
    (hl : ∀ e ∈ l, isFireEv e = true) (he : ∀ e ∈ evs, isOwnEv e = true) :
    holds_C04 n (pollSeg c slot wk l r evs t) = holds_C04 n t := by
  unfold pollSeg
  rw [skip_seg (holds_C04 n) isOwnEv
    (fun e t h => by cases e <;> simp_all [isOwnEv, holds_C04]) evs.reverse
    (fun e h => he e (List.mem_reverse.mp h))]
  simp only [holds_C04]
  rw [holds_fires _ _ _ hl]
  simp [holds_C04]

/-- a child that did not resolve leaves the table as it is -/
theorem keep_ok {slice n s t} (h : Inv slice n s t) (hd : s.dead = false) (i slot : Nat)
    (wk : Wk) (l : List Ev) (r : Res) (hl : ∀ e ∈ l, isFireEv e = true)
    (hr : ∀ ok v, r ≠ .ready ok v) (hp : s.st i = .pending) :
    Inv slice n s (pollSeg i slot wk l r [] t) := by
  have he : ∀ e ∈ ([] : List Ev), isOwnEv e = true := by simp
  refine ⟨by rw [holds_seg n i slot wk l r [] t hl he]; exact h.mon, h.hn, ?_, h.cnt, h.lt,
    fun hd' => absurd hd' (by simp [hd])⟩
  intro _ j hj
  rw [resolvedVal_pollSeg i slot wk l r [] t j hl he]
  by_cases hij : i = j
  · subst hij
    left
    refine ⟨hp, ?_⟩
    cases r <;> simp_all
  · simp only [hij, if_false]
    exact h.live hd j hj


theorem cnt_pending_upd (st : Nat → PS) (n i : Nat) (hi : i < n) (hp : st i = .pending) :
    cntP (fun j => decide (upd st i .ready j = .pending)) n + 1
      = cntP (fun j => decide (st j = .pending)) n := by
  have h := cntP_upd (fun j => decide (st j = .pending)) n i false hi
  simp only [hp, decide_true, if_true, Bool.false_eq_true, if_false, Nat.add_zero] at h
  rw [← h]
  congr 1
  apply cntP_congr
  intro j _
  unfold upd
  split <;> simp_all

theorem cnt_ready_upd (st : Nat → PS) (n i : Nat) (hi : i < n) (hp : st i = .pending) :
    cntP (fun j => decide (upd st i .ready j = .ready)) n
      = cntP (fun j => decide (st j = .ready)) n + 1 := by
  have h := cntP_upd (fun j => decide (st j = .ready)) n i true hi
  simp only [hp, if_true] at h
  have h0 : (if decide (PS.pending = PS.ready) = true then 1 else 0) = 0 := by decide
  rw [h0, Nat.add_zero] at h
  rw [← h]
  apply cntP_congr
  intro j _
  unfold upd
  split <;> simp_all

/-- slot `i` resolves to `v` and the join goes on -/
theorem ready_ok {slice n s t} (h : Inv slice n s t) (hd : s.dead = false) (i slot : Nat) (hi : i < n)
    (wk : Wk) (l : List Ev) (ok : Bool) (v : Nat) (hl : ∀ e ∈ l, isFireEv e = true)
    (hp : s.st i = .pending) (s' : Fix) (hn' : s'.n = s.n) (hst : s'.st = upd s.st i .ready)
    (hout : s'.out = upd s.out i (some v)) (hdead : s'.dead = false)
    (hcnt : s'.cnt = if slice then s.cnt - 1 else s.cnt + 1)
    (hlt : slice = false → s.cnt + 1 < n) :
    Inv slice n s' (pollSeg i slot wk l (.ready ok v) [.childDropped i] t) := by
  have he : ∀ e ∈ [Ev.childDropped i], isOwnEv e = true := by simp [isOwnEv]
  refine ⟨by rw [holds_seg n i slot wk l _ _ t hl he]; exact h.mon, by rw [hn', h.hn], ?_, ?_, ?_,
    fun hd' => absurd hd' (by simp [hdead])⟩
  · intro _ j hj
    rw [resolvedVal_pollSeg i slot wk l _ _ t j hl he, hst, hout]
    by_cases hij : i = j
    · subst hij
      right
      simp
    · have hji : j ≠ i := fun h => hij h.symm
      simp only [hij, if_false, upd_other _ _ _ _ hji]
      exact h.live hd j hj
  · intro _
    rw [hcnt, hst, h.cnt hd]
    cases slice
    · simp only [Bool.false_eq_true, if_false]
      exact (cnt_ready_upd s.st n i hi hp).symm
    · simp only [if_true]
      have := cnt_pending_upd s.st n i hi hp
      omega
  · intro _ hs _
    rw [hcnt, hs]
    simp only [Bool.false_eq_true, if_false]
    exact hlt hs

/-- slot `i` is the last one to resolve (tuple model): the join returns -/
theorem last_ok {n s t} (h : Inv false n s t) (hd : s.dead = false) (i slot : Nat) (hi : i < n)
    (wk : Wk) (l : List Ev) (ok : Bool) (v : Nat) (hl : ∀ e ∈ l, isFireEv e = true)
    (hp : s.st i = .pending) (hc : s.cnt + 1 = n) (s' : Fix) (hn' : s'.n = s.n)
    (hdead : s'.dead = true) :
    Inv false n s' (.pollEnd (.ready true ({ s with out := upd s.out i (some v) }).outs) ::
      pollSeg i slot wk l (.ready ok v) [.childDropped i] t) := by
  have he : ∀ e ∈ [Ev.childDropped i], isOwnEv e = true := by simp [isOwnEv]
  have hcnt : cntP (fun j => decide (upd s.st i .ready j = .ready)) n = n := by
    rw [cnt_ready_upd s.st n i hi hp]
    have := h.cnt hd
    simp only [Bool.false_eq_true, if_false] at this
    omega
  have hall := cntP_full _ _ hcnt
  have hlive : ∀ j, j < n →
      (∃ w, resolvedVal (pollSeg i slot wk l (.ready ok v) [.childDropped i] t) j = some w ∧
        upd s.out i (some v) j = some w) := by
    intro j hj
    rw [resolvedVal_pollSeg i slot wk l _ _ t j hl he]
    by_cases hij : i = j
    · subst hij; exact ⟨v, by simp, by simp⟩
    · have hji : j ≠ i := fun h => hij h.symm
      simp only [hij, if_false, upd_other _ _ _ _ hji]
      have hr := hall j hj
      simp only [upd_other _ _ _ _ hji, decide_eq_true_eq] at hr
      rcases h.live hd j hj with ⟨hpj, _⟩ | ⟨_, w, hw, ho⟩
      · rw [hr] at hpj; cases hpj
      · exact ⟨w, hw, ho⟩
  refine ⟨?_, by rw [hn', h.hn], fun hd' => absurd hd' (by simp [hdead]),
    fun hd' => absurd hd' (by simp [hdead]), fun hd' => absurd hd' (by simp [hdead]),
    fun _ => by simp [spent, finalSeen]⟩
  simp only [holds_C04, c04At, Bool.true_and, Bool.and_eq_true, beq_iff_eq]
  refine ⟨by rw [holds_seg n i slot wk l _ _ t hl he]; exact h.mon, ?_, ?_⟩
  · simp only [allResolved, List.all_eq_true, List.mem_range]
    intro j hj
    obtain ⟨w, hw, _⟩ := hlive j hj
    simp [hw]
  · unfold Fix.outs
    simp only [h.hn]
    apply List.map_congr_left
    intro j hj
    obtain ⟨w, hw, ho⟩ := hlive j (List.mem_range.mp hj)
    simp [hw, ho]

/-- trace events that are not `pollEnd` and do not touch the observations -/
theorem inv_pb {slice n s t} (w : Nat) (h : Inv slice n s t) : Inv slice n s (.pollBegin w :: t) := by
  refine ⟨by simpa [holds_C04] using h.mon, h.hn, ?_, h.cnt, h.lt, fun hd => ?_⟩
  · intro hd j hj
    have : resolvedVal (.pollBegin w :: t) j = resolvedVal t j := by simp [resolvedVal, lastRes]
    rw [this]; exact h.live hd j hj
  · have := h.dead hd
    simpa [spent, finalSeen, alive, panickedSeen] using this

theorem inv_misuse {slice n s t} (w : Nat) (h : Inv slice n s t) (hd : s.dead = true) :
    Inv slice n s (.pollEnd .misuse :: .pollBegin w :: t) := by
  have hsp := (inv_pb w h).dead hd
  refine ⟨?_, h.hn, fun hd' => absurd hd' (by simp [hd]), fun hd' => absurd hd' (by simp [hd]),
    fun hd' => absurd hd' (by simp [hd]), fun _ => ?_⟩
  · simp only [holds_C04, c04At, Bool.and_eq_true]
    exact ⟨by simpa [holds_C04] using h.mon, hsp⟩
  · simpa [spent, finalSeen, alive, panickedSeen] using hsp

theorem inv_panic {slice n s t} (h : Inv slice n s t) (i slot : Nat) (wk : Wk) (l : List Ev)
    (hl : ∀ e ∈ l, isFireEv e = true) (s' : Fix) (hn' : s'.n = s.n) (hdead : s'.dead = true) :
    Inv slice n s' (.pollEnd .panicked :: pollSeg i slot wk l .panic [] t) := by
  have he : ∀ e ∈ ([] : List Ev), isOwnEv e = true := by simp
  refine ⟨?_, by rw [hn', h.hn], fun hd' => absurd hd' (by simp [hdead]),
    fun hd' => absurd hd' (by simp [hdead]), fun hd' => absurd hd' (by simp [hdead]),
    fun _ => by simp [spent, panickedSeen]⟩
  simp only [holds_C04, c04At, Bool.and_true]
  rw [holds_seg n i slot wk l _ _ t hl he]; exact h.mon

theorem inv_drop {slice n s t} (h : Inv slice n s t) (evs : List Ev)
    (he : ∀ e ∈ evs, isOwnEv e = true) (s' : Fix) (hn' : s'.n = s.n) (hdead : s'.dead = true) :
    Inv slice n s' (.dropEnd :: (evs.reverse ++ .dropBegin :: t)) := by
  refine ⟨?_, by rw [hn', h.hn], fun hd' => absurd hd' (by simp [hdead]),
    fun hd' => absurd hd' (by simp [hdead]), fun hd' => absurd hd' (by simp [hdead]),
    fun _ => ?_⟩
  · simp only [holds_C04]
    rw [skip_seg (holds_C04 n) isOwnEv
      (fun e t h => by cases e <;> simp_all [isOwnEv, holds_C04]) evs.reverse
      (fun e h => he e (List.mem_reverse.mp h))]
    simpa [holds_C04] using h.mon
  · have : alive (.dropEnd :: (evs.reverse ++ .dropBegin :: t)) = false := by
      simp only [alive]
      rw [skip_seg alive isOwnEv (fun e t h => alive_own e t h) evs.reverse
        (fun e h => he e (List.mem_reverse.mp h))]
      rfl
    simp [spent, this]

/-- the scan is over and every slot is ready (array/Vec model): the join returns -/
theorem done_ok {n s t} (h : Inv true n s t) (hd : s.dead = false) (hc : s.cnt = 0) (s' : Fix)
    (hn' : s'.n = s.n) (hdead : s'.dead = true) :
    Inv true n s' (.pollEnd (.ready true s.outs) :: t) := by
  have hcnt := h.cnt hd
  simp only [if_true] at hcnt
  rw [hc] at hcnt
  have hz := cntP_zero _ _ hcnt.symm
  have hall : ∀ i, i < n → s.st i = .ready := by
    intro i hi
    rcases h.live hd i hi with ⟨hp, _⟩ | ⟨hr, _⟩
    · have := hz i hi; simp [hp] at this
    · exact hr
  obtain ⟨h1, h2⟩ := all_ready h hd hall
  refine ⟨?_, by rw [hn', h.hn], fun hd' => absurd hd' (by simp [hdead]),
    fun hd' => absurd hd' (by simp [hdead]), fun hd' => absurd hd' (by simp [hdead]),
    fun _ => by simp [spent, finalSeen]⟩
  simp only [holds_C04, c04At, Bool.true_and, Bool.and_eq_true, beq_iff_eq]
  exact ⟨h.mon, h1, h2⟩

end C04
end Fc

namespace Fc
namespace C04
open Mon Fix

theorem sim_joinSlice (n : Nat) (m : Mode) : Sim joinSlice m Sim.anyRes (Inv true n) (J true n) where
  fireEv := fun s t e he h => inv_fireEv e he h
  pre := by
    intro s t w o hpre h
    simp only [joinSlice, Fix.misuseIfDead] at hpre
    split at hpre
    · cases hpre; exact inv_misuse w h ‹_›
    · cases hpre
  start := by
    intro s t w hpre h
    have hd : s.dead = false := by
      simp only [joinSlice, Fix.misuseIfDead] at hpre
      cases hdd : s.dead <;> simp_all
    refine ⟨inv_pb w h, hd, by simp, ?_⟩
    intro j hj
    simp only [joinSlice] at hj
    rw [← h.hn]; exact List.mem_range.mp hj
  earlyPend := by
    intro s t l _ hor hJ
    obtain ⟨h, hd, _, _⟩ := hJ
    have hc : s.cnt ≠ 0 := by
      rcases hor with h1 | h1
      · simp [joinSlice] at h1
      · simpa [joinSlice] using h1
    have hn : 0 < n := by
      have := h.cnt hd
      simp only [if_true] at this
      cases n with
      | zero => simp [cntP] at this; omega
      | succ k => omega
    obtain ⟨i, hi, hp⟩ := some_pending h hd hn (fun _ => hc)
    exact pend_ok h hd i hi hp
  skip := by
    intro s t i rest _ hJ
    exact ⟨hJ.1, hJ.2.1, hJ.2.2.1, fun j hj => hJ.2.2.2 j (List.mem_cons_of_mem _ hj)⟩
  goOn := by
    intro s t i rest wk l r hJ hel hr _ hl hex
    obtain ⟨h, hd, h0, hlt⟩ := hJ
    have hi : i < n := hlt i (List.mem_cons_self ..)
    have hp : s.st i = .pending := by simpa [joinSlice] using hel
    have hrest : ∀ j ∈ rest, j < n := fun j hj => hlt j (List.mem_cons_of_mem _ hj)
    cases r with
    | ready ok v =>
      exact ⟨ready_ok h hd i i hi wk l ok v hl hp _ rfl rfl rfl hd (by simp [joinSlice]) (by simp), hd, h0, hrest⟩
    | pend => exact ⟨keep_ok h hd i i wk l _ hl (by simp) hp, hd, h0, hrest⟩
    | item v => exact ⟨keep_ok h hd i i wk l _ hl (by simp) hp, hd, h0, hrest⟩
    | fin => exact ⟨keep_ok h hd i i wk l _ hl (by simp) hp, hd, h0, hrest⟩
    | panic => exact absurd rfl hr
  goExit := by
    intro s t i rest wk l r o hJ hel hr _ hl hex
    cases r <;> simp [joinSlice, Fix.keep] at hex
  panic := by
    intro s t i rest wk l hJ hel hl
    exact inv_panic hJ.1 i i wk l hl _ rfl rfl
  finish := by
    intro s t hJ
    obtain ⟨h, hd, _, _⟩ := hJ
    simp only [joinSlice]
    split
    · rename_i hc
      exact done_ok h hd hc _ rfl rfl
    · rename_i hc
      have hn : 0 < n := by
        have := h.cnt hd
        simp only [if_true] at this
        cases n with
        | zero => simp [cntP] at this; omega
        | succ k => omega
      obtain ⟨i, hi, hp⟩ := some_pending h hd hn (fun _ => hc)
      exact pend_ok h hd i hi hp
  drop := by
    intro s t h
    refine inv_drop h _ ?_ _ rfl rfl
    intro e he
    simp only [joinSlice, Fix.dropStates, List.mem_append, List.mem_map] at he
    rcases he with ⟨_, _, rfl⟩ | ⟨_, _, rfl⟩ <;> rfl

theorem sim_joinTuple (n : Nat) (m : Mode) : Sim joinTuple m Sim.anyRes (Inv false n) (J false n) where
  fireEv := fun s t e he h => inv_fireEv e he h
  pre := by
    intro s t w o hpre h
    simp only [joinTuple, Fix.misuseIfDead] at hpre
    split at hpre
    · rename_i hn0
      cases hpre
      have hn : n = 0 := by rw [← h.hn]; exact hn0
      subst hn
      have hb := inv_pb w h
      refine ⟨?_, h.hn, fun hd i hi => absurd hi (by omega), ?_, fun _ _ h0 => absurd h0 (by omega),
        fun _ => by simp [spent, finalSeen]⟩
      · simp only [holds_C04, c04At, allResolved, List.range_zero, List.all_nil, List.map_nil,
          Bool.true_and, Bool.and_true, beq_self_eq_true]
        simpa [holds_C04] using h.mon
      · intro hd
        have := h.cnt hd
        simpa [cntP] using this
    · split at hpre
      · cases hpre; exact inv_misuse w h ‹_›
      · cases hpre
  start := by
    intro s t w hpre h
    simp only [joinTuple, Fix.misuseIfDead] at hpre
    have hn0 : s.n ≠ 0 := by
      intro h0; simp [h0] at hpre
    have hd : s.dead = false := by
      cases hdd : s.dead <;> simp_all
    refine ⟨inv_pb w h, hd, fun _ => by rw [← h.hn]; omega, ?_⟩
    intro j hj
    simp only [joinTuple] at hj
    rw [← h.hn]; exact List.mem_range.mp hj
  earlyPend := by
    intro s t l _ _ hJ
    obtain ⟨h, hd, h0, _⟩ := hJ
    obtain ⟨i, hi, hp⟩ := some_pending h hd (h0 rfl) (fun hs => by cases hs)
    exact pend_ok h hd i hi hp
  skip := by
    intro s t i rest _ hJ
    exact ⟨hJ.1, hJ.2.1, hJ.2.2.1, fun j hj => hJ.2.2.2 j (List.mem_cons_of_mem _ hj)⟩
  goOn := by
    intro s t i rest wk l r hJ hel hr _ hl hex
    obtain ⟨h, hd, h0, hlt⟩ := hJ
    have hi : i < n := hlt i (List.mem_cons_self ..)
    have hp : s.st i = .pending := by
      rcases h.live hd i hi with ⟨hp, _⟩ | ⟨hr', _⟩
      · exact hp
      · simp [joinTuple, hr'] at hel
    have hrest : ∀ j ∈ rest, j < n := fun j hj => hlt j (List.mem_cons_of_mem _ hj)
    cases r with
    | ready ok v =>
      have hne : ¬ s.cnt + 1 = s.n := by
        intro hc; simp [joinTuple, hc] at hex
      have hlt' := h.lt hd rfl (h0 rfl)
      have hmid := ready_ok (slice := false) h hd i i hi wk l ok v hl hp
        { s with st := upd s.st i .ready, out := upd s.out i (some v), cnt := s.cnt + 1 }
        rfl rfl rfl hd (by simp) (fun _ => by rw [h.hn] at hne; omega)
      refine ⟨?_, ?_, h0, hrest⟩
      · simpa [joinTuple, hne] using hmid
      · simpa [joinTuple, hne] using hd
    | pend => exact ⟨keep_ok h hd i i wk l _ hl (by simp) hp, hd, h0, hrest⟩
    | item v => exact ⟨keep_ok h hd i i wk l _ hl (by simp) hp, hd, h0, hrest⟩
    | fin => exact ⟨keep_ok h hd i i wk l _ hl (by simp) hp, hd, h0, hrest⟩
    | panic => exact absurd rfl hr
  goExit := by
    intro s t i rest wk l r o hJ hel hr _ hl hex
    obtain ⟨h, hd, h0, hlt⟩ := hJ
    have hi : i < n := hlt i (List.mem_cons_self ..)
    have hp : s.st i = .pending := by
      rcases h.live hd i hi with ⟨hp, _⟩ | ⟨hr', _⟩
      · exact hp
      · simp [joinTuple, hr'] at hel
    cases r with
    | ready ok v =>
      by_cases hc : s.cnt + 1 = s.n
      · simp only [joinTuple, hc, if_true, Option.some.injEq] at hex
        subst hex
        have := last_ok h hd i i hi wk l ok v hl hp (by rw [← h.hn]; exact hc)
          { s with st := fun _ => .none, out := upd s.out i (some v), cnt := s.cnt + 1, dead := true }
          rfl rfl
        simpa [joinTuple, hc] using this
      · simp [joinTuple, hc] at hex
    | pend => simp [joinTuple, Fix.keep] at hex
    | item v => simp [joinTuple, Fix.keep] at hex
    | fin => simp [joinTuple, Fix.keep] at hex
    | panic => exact absurd rfl hr
  panic := by
    intro s t i rest wk l hJ hel hl
    exact inv_panic hJ.1 i i wk l hl _ rfl rfl
  finish := by
    intro s t hJ
    obtain ⟨h, hd, h0, _⟩ := hJ
    obtain ⟨i, hi, hp⟩ := some_pending h hd (h0 rfl) (fun hs => by cases hs)
    exact pend_ok h hd i hi hp
  drop := by
    intro s t h
    refine inv_drop h _ ?_ _ rfl rfl
    intro e he
    simp only [joinTuple, Fix.dropStates, List.mem_append, List.mem_map] at he
    rcases he with ⟨_, _, rfl⟩ | ⟨_, _, rfl⟩ <;> rfl

/-- the initial state -/
theorem inv_init (slice : Bool) (n : Nat) :
    Inv slice n (Fix.init n (if slice then n else 0)) [] := by
  refine ⟨rfl, rfl, fun _ i hi => Or.inl ⟨rfl, rfl⟩, fun _ => ?_, fun _ hs h0 => ?_, fun hd => by cases hd⟩
  · cases slice
    · simp only [Fix.init, Bool.false_eq_true, if_false]
      have : cntP (fun i => decide (PS.pending = PS.ready)) n = 0 := by
        rw [cntP_congr _ (fun _ => false) n (fun i _ => by simp)]
        exact cntP_none n
      exact this.symm
    · simp only [Fix.init, if_true]
      exact (cntP_all _ _ (fun i _ => by simp)).symm
  · subst hs; simpa [Fix.init] using h0

end C04
end Fc
