/-
  FcLemmas/C14Step.lean — inversion of `Co.step`: what an accepted event says about the state
  before it and the state after it.
-/
import FcLemmas.C14Obs

set_option linter.unusedSimpArgs false
set_option linter.unusedVariables false

namespace Fc
namespace CoC14
open Co

theorem step_topBegin {c : Cfg} {s s' : St} (hs : step c s .topBegin = some s') :
    s.inTop = false ∧ s.dropped = false ∧ s.ctrl ≠ .done ∧ s' = { s with inTop := true } := by
  simp only [step] at hs
  split at hs
  · rename_i hc
    simp at hc hs
    exact ⟨hc.1.1, hc.1.2, hc.2, hs.symm⟩
  · simp at hs

theorem step_src {c : Cfg} {s s' : St} {r : Res} (hs : step c s (.src r) = some s') :
    s.inTop = true ∧ s.ctrl = .loop ∧
      ((r = .pend ∧ s' = s) ∨ (r = .fin ∧ s' = { s with srcFin := true, ctrl := .flushing }) ∨
        (∃ v, r = .item v ∧ s' = takeItem c s)) := by
  simp only [step] at hs
  split at hs
  · rename_i hc
    simp at hc
    refine ⟨hc.1.1, hc.1.2, ?_⟩
    cases r <;> simp at hs
    · exact Or.inl ⟨rfl, hs.symm⟩
    · exact Or.inr (Or.inr ⟨_, rfl, hs.symm⟩)
    · exact Or.inr (Or.inl ⟨rfl, hs.symm⟩)
  · simp at hs

theorem step_call {c : Cfg} {s s' : St} {stage j k : Nat} {idx : List Nat}
    (hs : step c s (.call stage j idx k) = some s') :
    s.inTop = true ∧ running s.ctrl = true ∧ ∃ m, m ∈ s.members ∧ m.j = j ∧ m.stage = stage ∧
      m.cur = none ∧ stage < c.stages ∧
      s' = { s with members := setMember s.members m { m with cur := some k },
                    live := k :: s.live } := by
  simp only [step] at hs
  split at hs
  · rename_i hc
    simp at hc
    split at hs
    · rename_i m hm
      split at hs
      · rename_i hc2
        simp at hc2 hs
        have hj := List.find?_some hm
        simp at hj
        exact ⟨hc.1.1.1, hc.1.1.2, m, List.mem_of_find?_eq_some hm, hj, hc2.1.1, hc2.1.2, hc2.2,
          hs.symm⟩
      · simp at hs
    · simp at hs
  · simp at hs

theorem step_work {c : Cfg} {s s' : St} {k : Nat} {r : Res}
    (hs : step c s (.work k r) = some s') :
    s.inTop = true ∧ running s.ctrl = true ∧ ∃ m, m ∈ s.members ∧ m.cur = some k ∧
      ((r = .pend ∧ s' = s) ∨
        ∃ ok v, r = .ready ok v ∧
          (ok = false → m.stage + 1 = c.stages ∧ (c.term = .tryForEach ∨ c.term = .collectRes)) ∧
          ((m.stage + 1 < c.stages ∧
              s' = { s with members := setMember s.members m
                              { m with stage := m.stage + 1, cur := none } }) ∨
            (¬ m.stage + 1 < c.stages ∧ s' = complete c s m ok v))) := by
  simp only [step] at hs
  split at hs
  · rename_i hc
    simp at hc
    split at hs
    · rename_i m hm
      have hk := List.find?_some hm
      simp at hk
      refine ⟨hc.1, hc.2, m, List.mem_of_find?_eq_some hm, hk, ?_⟩
      cases r with
      | pend => simp at hs; exact Or.inl ⟨rfl, hs.symm⟩
      | ready ok v =>
        right
        refine ⟨ok, v, rfl, ?_⟩
        simp only at hs
        split at hs
        · simp at hs
        · rename_i hc2
          refine ⟨?_, ?_⟩
          · intro hok
            subst hok
            simp at hc2
            refine ⟨hc2.1, ?_⟩
            by_cases h : c.term = .tryForEach
            · exact Or.inl h
            · exact Or.inr (hc2.2 h)
          · split at hs
            · rename_i hlt
              simp at hs
              exact Or.inl ⟨hlt, hs.symm⟩
            · rename_i hlt
              simp at hs
              exact Or.inr ⟨hlt, hs.symm⟩
      | item v => simp at hs
      | fin => simp at hs
      | panic => simp at hs
    · simp at hs
  · simp at hs

theorem step_workDrop {c : Cfg} {s s' : St} {k : Nat} (hs : step c s (.workDrop k) = some s') :
    k ∈ s.live ∧
      (running s.ctrl = true → s.dropped = false → ∀ m ∈ s.members, m.cur ≠ some k) ∧
      s' = { s with live := s.live.filter (· != k),
                    members := s.members.filter (fun m => m.cur != some k) } := by
  simp only [step] at hs
  split at hs
  · rename_i hc
    simp at hc
    split at hs
    · simp at hs
    · rename_i hc2
      simp at hs
      refine ⟨hc, ?_, hs.symm⟩
      intro hr hd m hm hk
      apply hc2
      simp [hr, hd]
      exact ⟨m, hm, hk⟩
  · simp at hs

theorem step_dropBegin {c : Cfg} {s s' : St} (hs : step c s .dropBegin = some s') :
    s.inTop = false ∧ s.dropped = false ∧ s' = { s with dropped := true } := by
  simp only [step] at hs
  split at hs
  · rename_i hc
    simp at hc hs
    exact ⟨hc.1, hc.2, hs.symm⟩
  · simp at hs

theorem step_dropEnd {c : Cfg} {s s' : St} (hs : step c s .dropEnd = some s') :
    s.dropped = true ∧ s.live = [] ∧ s' = s := by
  simp only [step] at hs
  split at hs
  · rename_i hc
    simp at hc hs
    exact ⟨hc.1, hc.2, hs.symm⟩
  · simp at hs

/-- the shape of every accepted `topEnd` -/
theorem step_topEnd {c : Cfg} {s s' : St} {o : Out} (hs : step c s (.topEnd o) = some s') :
    s.inTop = true ∧ s'.inTop = false ∧ s'.taken = s.taken ∧ s'.live = s.live ∧
      s'.dropped = s.dropped ∧
      ((s'.ctrl = .done ∧ o ≠ .pending ∧ (s'.members = s.members ∨ s'.members = [])) ∨
        (s'.ctrl = s.ctrl ∧ o = .pending ∧ (∀ e, s.ctrl ≠ .failing e) ∧
          s'.members = s.members)) := by
  simp only [step] at hs
  split at hs
  · rename_i htop
    refine ⟨htop, ?_⟩
    cases o with
    | pending =>
      simp only at hs
      split at hs
      · simp at hs
      · split at hs
        · simp at hs
        · rename_i hnf
          simp at hs
          subst hs
          exact ⟨rfl, rfl, rfl, rfl, Or.inr ⟨rfl, rfl, fun e he => hnf e he, rfl⟩⟩
    | vec items =>
      simp only at hs
      split at hs <;> simp at hs <;> obtain ⟨_, hs⟩ := hs <;> subst hs <;>
        exact ⟨rfl, rfl, rfl, rfl, Or.inl ⟨rfl, by simp, Or.inr rfl⟩⟩
    | _ =>
      simp only at hs
      split at hs
      · simp at hs; subst hs
        exact ⟨rfl, rfl, rfl, rfl, Or.inl ⟨rfl, by simp, Or.inl rfl⟩⟩
      · simp at hs
  · simp at hs

theorem step_topEnd_ok {c : Cfg} {s s' : St} (hs : step c s (.topEnd .ok) = some s') :
    s.inTop = true ∧ s.ctrl = .flushing ∧ s.members = [] := by
  simp only [step] at hs
  split at hs
  · rename_i htop
    split at hs
    · rename_i hc
      simp at hc
      exact ⟨htop, hc.1.2, hc.2⟩
    · simp at hs
  · simp at hs

theorem step_topEnd_resOk {c : Cfg} {s s' : St} {items : List (Nat × List Nat)}
    (hs : step c s (.topEnd (.resOk items)) = some s') :
    s.inTop = true ∧ s.ctrl = .flushing ∧ s.members = [] := by
  simp only [step] at hs
  split at hs
  · rename_i htop
    split at hs
    · rename_i hc
      simp at hc
      exact ⟨htop, hc.1.1.2, hc.1.2⟩
    · simp at hs
  · simp at hs

theorem step_topEnd_err {c : Cfg} {s s' : St} {e : Nat}
    (hs : step c s (.topEnd (.err e)) = some s') : s.ctrl = .failing e := by
  simp only [step] at hs
  split at hs
  · split at hs
    · rename_i hc
      simp at hc
      exact hc.2
    · simp at hs
  · simp at hs

theorem step_topEnd_resErr {c : Cfg} {s s' : St} {e : Nat}
    (hs : step c s (.topEnd (.resErr e)) = some s') : s.ctrl = .failing e := by
  simp only [step] at hs
  split at hs
  · split at hs
    · rename_i hc
      simp at hc
      exact hc.2
    · simp at hs
  · simp at hs

theorem step_topEnd_pending {c : Cfg} {s s' : St}
    (hs : step c s (.topEnd .pending) = some s') : s.inTop = true ∧ ∀ e, s.ctrl ≠ .failing e := by
  obtain ⟨h1, _, _, _, _, h2⟩ := step_topEnd hs
  refine ⟨h1, ?_⟩
  rcases h2 with ⟨_, h2, _⟩ | ⟨_, _, h2, _⟩
  · exact absurd rfl h2
  · exact h2

end CoC14
end Fc
