/-
  FcLemmas/GrpRun.lean — lifting a boundary invariant of the groups over whole operation
  histories in which every member id is inserted at most once (`Case.insertsFresh`).
-/
import FcLemmas.GrpCommon

set_option linter.unusedSimpArgs false
set_option linter.unusedVariables false

namespace Fc
namespace G
open Mon C01 Grp

/-! ### `keyOf` only changes at `inserted` events -/

def notIns : Ev → Bool
  | .inserted _ _ => false
  | _ => true

theorem keyOf_notIns (c : Nat) (e : Ev) (t : List Ev) (h : notIns e = true) :
    keyOf (e :: t) c = keyOf t c := by
  cases e <;> simp_all [notIns, keyOf]

theorem keyOf_seg (c : Nat) (l t : List Ev) (hl : ∀ e ∈ l, notIns e = true) :
    keyOf (l ++ t) c = keyOf t c :=
  skip_seg (fun t => keyOf t c) notIns (fun e t h => keyOf_notIns c e t h) l hl t

theorem fireEv_notIns (e : Ev) (h : isFireEv e = true) : notIns e = true := by
  cases e <;> simp_all [isFireEv, notIns]
theorem ownEv_notIns (e : Ev) (h : isOwnEv e = true) : notIns e = true := by
  cases e <;> simp_all [isOwnEv, notIns]

theorem keyOf_fire (w : World) (c a x : Nat) : keyOf (w.fire c a).trace x = keyOf w.trace x := by
  obtain ⟨l, hl, hp⟩ := World.fire_seg w c a
  rw [hl]; exact keyOf_seg x l _ (fun e he => fireEv_notIns e (hp e he))

theorem keyOf_pollChild (w : World) (c k x : Nat) :
    keyOf (w.pollChild c k).trace x = keyOf w.trace x := by
  obtain ⟨l, hl, hp⟩ := World.pollChild_seg w c k
  rw [hl, keyOf_notIns _ _ _ rfl, keyOf_seg x l _ (fun e he => fireEv_notIns e (hp e he)),
    keyOf_notIns _ _ _ rfl]

theorem keyOf_emits_own (w : World) (l : List Ev) (hl : ∀ e ∈ l, isOwnEv e = true) (x : Nat) :
    keyOf (w.emits l).trace x = keyOf w.trace x := by
  simp only [World.emits_trace]
  exact keyOf_seg x _ _ (fun e he => ownEv_notIns e (hl e (List.mem_reverse.mp he)))

theorem handle_evs_own (s : Grp) (k : Nat) (r : Res) : ∀ ev ∈ (group.handle s k r).evs, isOwnEv ev = true := by
  cases r
  · rw [handle_pend]; simp
  · rw [handle_ready]; simp [isOwnEv]
  · rw [handle_item]; simp
  · rw [handle_fin]; simp [isOwnEv]
  · intro ev hev
    have : group.handle s k .panic = { s := s, evs := [], kop := .nop, exit := none } := rfl
    rw [this] at hev; simp at hev

theorem keyOf_visit (e : Eng Grp) (k x : Nat) :
    keyOf (Eng.visit group e k).1.w.trace x = keyOf e.w.trace x := by
  refine Eng.visit_ind group e k (fun r => keyOf r.1.w.trace x = keyOf e.w.trace x) ?_ ?_ ?_ ?_
  · intro _ _; rfl
  · intro _ _; simp
  · intro _ _ _
    rw [group_panicEvs]; simp only [World.emits_nil]
    rw [keyOf_pollChild]; simp
  · intro _ _ _
    simp only [Eng.applyH_w, World.kop_trace]
    rw [keyOf_emits_own _ _ (handle_evs_own _ _ _), keyOf_pollChild]; simp

theorem keyOf_scan (x : Nat) : ∀ (l : List Nat) (e : Eng Grp),
    keyOf (Eng.scan group l e).1.w.trace x = keyOf e.w.trace x := by
  intro l
  induction l with
  | nil => intro e; rfl
  | cons i rest ih =>
    intro e
    unfold Eng.scan
    cases (Eng.visit group e i).2 with
    | some o => exact keyOf_visit e i x
    | none => simp only; rw [ih, keyOf_visit]

theorem keyOf_poll (e : Eng Grp) (wid x : Nat) :
    keyOf (Eng.poll group e wid).w.trace x = keyOf e.w.trace x := by
  unfold Eng.poll
  split
  · simp [keyOf]
  · unfold Eng.body
    split
    · simp [keyOf]
    · unfold Eng.close
      split
      · simp only [Eng.emit_w, World.emit_trace, keyOf]
        rw [keyOf_scan]; simp [keyOf]
      · rw [finish_eq]
        simp only [Eng.emit_w, World.emit_trace, keyOf, Eng.applyH_w, World.kop_trace,
          World.emits_nil]
        rw [keyOf_scan]; simp [keyOf]

theorem keyOf_drop (e : Eng Grp) (x : Nat) :
    keyOf (Eng.drop group e).w.trace x = keyOf e.w.trace x := by
  unfold Eng.drop
  simp only [World.emit_trace, World.emits_trace, keyOf]
  rw [keyOf_seg x _ _ (fun ev he => ownEv_notIns ev (dropEvs_own e.s ev (List.mem_reverse.mp he)))]
  simp [keyOf]

theorem reserve_trace (e : Eng Grp) (a : Nat) : (GEng.reserve e a).w.trace = e.w.trace :=
  GEng.reserve_trace e a

theorem keyOf_insertAt (e : Eng Grp) (c : Nat) (b : Bool) (x : Nat) (hx : x ≠ c) :
    keyOf (GEng.insertAt (GEng.grow e) c b).w.trace x = keyOf e.w.trace x := by
  rw [insertAt_w]
  simp only [World.emit_trace, World.setReady_trace, keyOf, grow_trace]
  have : ¬ c = x := fun h => hx h.symm
  simp only [this, if_false]

theorem keyOf_remove (e : Eng Grp) (j x : Nat) :
    keyOf (GEng.remove e j).w.trace x = keyOf e.w.trace x := by
  unfold GEng.remove
  split
  · rfl
  · split <;> simp [keyOf]

theorem insertAt_dead (e : Eng Grp) (c : Nat) (b : Bool) :
    (GEng.insertAt e c b).s.dead = e.s.dead := by rw [insertAt_s, insSt_dead]

theorem grow_dead (e : Eng Grp) : (GEng.grow e).s.dead = e.s.dead := by
  unfold GEng.grow; split
  · exact reserve_dead _ _
  · rfl

/-- a boundary invariant that every group operation preserves -/
structure Steps (B : Eng Grp → Prop) : Prop where
  poll : ∀ e w, B e → B (Eng.poll group e w)
  fire : ∀ e c a, B e → B (e.fire c a)
  drop : ∀ e, B e → B (Eng.drop group e)
  ins  : ∀ e c b, B e → e.s.dead = false → keyOf e.w.trace c = none →
           B (GEng.insertAt (GEng.grow e) c b)
  rem  : ∀ e j, B e → e.s.dead = false → B (GEng.remove e j)
  res  : ∀ e a, B e → B (GEng.reserve e a)
  qry  : ∀ e q a, B e → B (GEng.query e q a)

theorem extend_fold {B : Eng Grp → Prop} (S : Steps B) : ∀ (cs : List Nat) (e : Eng Grp), B e →
    e.s.dead = false → cs.Nodup → (∀ c ∈ cs, keyOf e.w.trace c = none) →
    B (cs.foldl (fun e c => GEng.insertAt (GEng.grow e) c false) e) ∧
    (∀ x, x ∉ cs → keyOf (cs.foldl (fun e c => GEng.insertAt (GEng.grow e) c false) e).w.trace x
        = keyOf e.w.trace x) := by
  intro cs
  induction cs with
  | nil => intro e h _ _ _; exact ⟨h, fun _ _ => rfl⟩
  | cons c cs ih =>
    intro e h hd hnd hf
    simp only [List.foldl_cons]
    have hnd' := List.nodup_cons.mp hnd
    have h1 := S.ins e c false h hd (hf c (List.mem_cons_self ..))
    have := ih _ h1 (by rw [insertAt_dead, grow_dead]; exact hd) hnd'.2 (fun x hx => by
      have hxc : x ≠ c := by intro hh; subst hh; exact hnd'.1 hx
      rw [keyOf_insertAt _ _ _ _ hxc]
      exact hf x (List.mem_cons_of_mem _ hx))
    refine ⟨this.1, fun x hx => ?_⟩
    simp only [List.mem_cons, not_or] at hx
    rw [this.2 x hx.2, keyOf_insertAt _ _ _ _ hx.1]

theorem step_fresh {B : Eng Grp → Prop} (S : Steps B) (e : Eng Grp) (op : Op) (h : B e)
    (hnd : (insertedIds op).Nodup) (hf : ∀ c ∈ insertedIds op, keyOf e.w.trace c = none) :
    B (GEng.step e op) ∧
    (∀ x, x ∉ insertedIds op → keyOf (GEng.step e op).w.trace x = keyOf e.w.trace x) := by
  cases op with
  | poll w => exact ⟨S.poll e w h, fun x _ => keyOf_poll e w x⟩
  | fire c a => exact ⟨S.fire e c a h, fun x _ => keyOf_fire e.w c a x⟩
  | drop => exact ⟨S.drop e h, fun x _ => keyOf_drop e x⟩
  | insert c =>
    simp only [GEng.step]
    cases hd : e.s.dead with
    | true => exact ⟨by simpa using h, fun _ _ => by simp⟩
    | false =>
      simp only [Bool.false_eq_true, if_false, GEng.insert]
      refine ⟨S.ins e c true h hd (hf c (by simp [insertedIds])), fun x hx => ?_⟩
      exact keyOf_insertAt e c true x (by simpa [insertedIds] using hx)
  | remove j =>
    simp only [GEng.step]
    cases hd : e.s.dead with
    | true => exact ⟨by simpa using h, fun _ _ => by simp⟩
    | false =>
      simp only [Bool.false_eq_true, if_false]
      exact ⟨S.rem e j h hd, fun x _ => keyOf_remove e j x⟩
  | reserve k =>
    simp only [GEng.step]
    cases hd : e.s.dead with
    | true => exact ⟨by simpa using h, fun _ _ => by simp⟩
    | false =>
      simp only [Bool.false_eq_true, if_false]
      exact ⟨S.res e k h, fun x _ => by rw [reserve_trace]⟩
  | extend cs =>
    simp only [GEng.step]
    cases hd : e.s.dead with
    | true => exact ⟨by simpa using h, fun _ _ => by simp⟩
    | false =>
      simp only [Bool.false_eq_true, if_false, GEng.extend]
      have := extend_fold S cs (GEng.reserve e cs.length) (S.res e _ h)
        (by rw [reserve_dead]; exact hd) (by simpa [insertedIds] using hnd)
        (fun c hc => by rw [reserve_trace]; exact hf c (by simpa [insertedIds] using hc))
      refine ⟨this.1, fun x hx => ?_⟩
      rw [this.2 x (by simpa [insertedIds] using hx), reserve_trace]
  | qLen =>
    simp only [GEng.step]; split
    · exact ⟨h, fun _ _ => rfl⟩
    · exact ⟨S.qry e _ _ h, fun x _ => by simp [GEng.query, keyOf]⟩
  | qIsEmpty =>
    simp only [GEng.step]; split
    · exact ⟨h, fun _ _ => rfl⟩
    · exact ⟨S.qry e _ _ h, fun x _ => by simp [GEng.query, keyOf]⟩
  | qContains j =>
    simp only [GEng.step]; split
    · exact ⟨h, fun _ _ => rfl⟩
    · split
      · exact ⟨h, fun _ _ => rfl⟩
      · exact ⟨S.qry e _ _ h, fun x _ => by simp [GEng.query, keyOf]⟩
  | qCapacity =>
    simp only [GEng.step]; split
    · exact ⟨h, fun _ _ => rfl⟩
    · exact ⟨S.qry e _ _ h, fun x _ => by simp [GEng.query, keyOf]⟩

theorem run_fresh {B : Eng Grp → Prop} (S : Steps B) : ∀ (ops : List Op) (e : Eng Grp), B e →
    (ops.flatMap insertedIds).Nodup → (∀ c ∈ ops.flatMap insertedIds, keyOf e.w.trace c = none) →
    B (ops.foldl GEng.step e) := by
  intro ops
  induction ops with
  | nil => intro e h _ _; exact h
  | cons op ops ih =>
    intro e h hnd hf
    simp only [List.foldl_cons]
    simp only [List.flatMap_cons] at hnd hf
    rw [List.nodup_append] at hnd
    obtain ⟨hn1, hn2, hdis⟩ := hnd
    have hs := step_fresh S e op h hn1 (fun c hc => hf c (List.mem_append_left _ hc))
    refine ih _ hs.1 hn2 (fun c hc => ?_)
    rw [hs.2 c (fun hh => hdis c hh c hc rfl)]
    exact hf c (List.mem_append_right _ hc)

end G
end Fc
