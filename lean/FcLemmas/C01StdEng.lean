/-
  FcLemmas/C01StdEng.lean — no lost wake-ups, std mode: the invariant across the poll skeleton,
  for every lawful policy that scans all of its children and never leaves the loop with
  `Pending` (join, try_join, merge, zip — and race / race_ok, which use the direct mode).
-/
import FcLemmas.C01Std
import FcLemmas.C16
import FcLemmas.C20

namespace Fc

namespace C01
open Mon

abbrev R1 (P : Policy Fix) (e : Eng Fix) : Prop := C20.R1 P e

/-- events that are neither `pollBegin` nor `pollEnd` -/
def midPoll : Ev → Bool
  | .pollBegin _ | .pollEnd _ => false
  | _ => true

theorem mb_mid (n : Nat) (e : Ev) (t : List Ev) (hin : inPoll t = true) :
    c01Boundaries n (e :: t) = c01Boundaries n t := by
  simp [c01Boundaries, hin]

theorem inPoll_mid (e : Ev) (t : List Ev) (hm : midPoll e = true) : inPoll (e :: t) = inPoll t := by
  cases e <;> simp_all [midPoll, inPoll]

theorem mb_seg (n : Nat) (l t : List Ev) (hl : ∀ e ∈ l, midPoll e = true) (hin : inPoll t = true) :
    c01Boundaries n (l ++ t) = c01Boundaries n t ∧ inPoll (l ++ t) = true := by
  induction l with
  | nil => exact ⟨rfl, hin⟩
  | cons e l ih =>
    have ih' := ih (fun e' he' => hl e' (List.mem_cons_of_mem _ he'))
    rw [List.cons_append, mb_mid n e _ ih'.2, inPoll_mid e _ (hl e (List.mem_cons_self ..))]
    exact ih'

theorem fireEv_mid (e : Ev) (h : isFireEv e = true) : midPoll e = true := by
  cases e <;> simp_all [isFireEv, midPoll]

theorem ownEv_mid (e : Ev) (h : isOwnEv e = true) : midPoll e = true := by
  cases e <;> simp_all [isOwnEv, midPoll]

/-- the invariant inside a poll, after `vis` has been scanned -/
structure PInv (P : Policy Fix) (n : Nat) (e : Eng Fix) (V : Nat → Prop) : Prop where
  ks  : KS e.w none
  js  : JS e.w none V
  inp : inPoll e.w.trace = true
  mb  : c01Boundaries n e.w.trace = true
  cap : e.w.cap = e.s.n
  r1  : R1 P e

/-- the state in which the loop is left with outcome `o` (just before `pollEnd o`) -/
structure XInv (P : Policy Fix) (n : Nat) (o : Outcome) (e : Eng Fix) : Prop where
  ks  : KS e.w none
  inp : inPoll e.w.trace = true
  mb  : c01Boundaries n e.w.trace = true
  cap : e.w.cap = e.s.n
  r1  : R1 P e
  pend : o = .pending → JS e.w none (fun _ => True)
  pan : o = .panicked → panicSince e.w.trace = true

variable {P : Policy Fix} {n : Nat}

theorem js_all_of_count_zero {w : World} {V : Nat → Prop} (hk : KS w none) (h : JS w none V)
    (h0 : w.count = 0) : JS w none (fun _ => True) :=
  ⟨h.pw, fun c _ hb _ => by rw [count_zero_bits hk h0 c] at hb; exact Bool.noConfusion hb⟩

theorem anyReady_false_count {w : World} (hm : w.mode = .std) (h : w.anyReady = false) :
    w.count = 0 := by
  unfold World.anyReady at h
  rw [hm] at h
  simp only [decide_eq_false_iff_not] at h
  omega

theorem panicSince_own (l : List Ev) (t : List Ev) (hl : ∀ e ∈ l, isOwnEv e = true)
    (h : panicSince t = true) : panicSince (l ++ t) = true := by
  induction l with
  | nil => exact h
  | cons e l ih =>
    have := ih (fun e' he' => hl e' (List.mem_cons_of_mem _ he'))
    have he := hl e (List.mem_cons_self ..)
    cases e <;> simp_all [isOwnEv, panicSince]

theorem pollChild_inp_mb (n : Nat) (w : World) (c sl : Nat) (hin : inPoll w.trace = true)
    (hmb : c01Boundaries n w.trace = true) :
    c01Boundaries n (w.pollChild c sl).trace = true ∧ inPoll (w.pollChild c sl).trace = true := by
  obtain ⟨l, hl, hp⟩ := World.pollChild_seg w c sl
  rw [hl]
  have h1 : c01Boundaries n (Ev.childBegin c sl (w.wakerFor sl) :: w.trace) = true ∧
      inPoll (Ev.childBegin c sl (w.wakerFor sl) :: w.trace) = true := by
    rw [mb_mid n _ _ hin, inPoll_mid _ _ rfl]; exact ⟨hmb, hin⟩
  have h2 := mb_seg n l _ (fun e he => fireEv_mid e (hp e he)) h1.2
  rw [mb_mid n _ _ h2.2, inPoll_mid _ _ rfl, h2.1]
  exact ⟨h1.1, h2.2⟩

theorem emits_own_inp_mb (n : Nat) (w : World) (l : List Ev) (hl : ∀ e ∈ l, isOwnEv e = true)
    (hin : inPoll w.trace = true) (hmb : c01Boundaries n w.trace = true) :
    c01Boundaries n (w.emits l).trace = true ∧ inPoll (w.emits l).trace = true := by
  simp only [World.emits_trace]
  have := mb_seg n l.reverse w.trace
    (fun e he => ownEv_mid e (hl e (List.mem_reverse.mp he))) hin
  rw [this.1]; exact ⟨hmb, this.2⟩

theorem panicSince_pollChild (w : World) (c sl : Nat) (h : w.resOf c = .panic) :
    panicSince (w.pollChild c sl).trace = true := by
  obtain ⟨l, hl, _⟩ := World.pollChild_seg w c sl
  rw [hl, h]; simp [panicSince]

/-- one loop iteration -/
theorem pinv_visit (C : Conc P) (e : Eng Fix) (i : Nat) (V : Nat → Prop) (hi : i < e.s.n)
    (h : PInv P n e V) (hl : P.pre e.s = none) :
    ((Eng.visit P e i).2 = none →
        PInv P n (Eng.visit P e i).1 (fun c => V c ∨ c = i) ∧ P.pre (Eng.visit P e i).1.s = none) ∧
    (∀ o, (Eng.visit P e i).2 = some o → XInv P n o (Eng.visit P e i).1) := by
  have L := C.law
  have hic : i < e.w.cap := by rw [h.cap]; exact hi
  refine Eng.visit_ind P e i
    (fun r => (r.2 = none → PInv P n r.1 (fun c => V c ∨ c = i) ∧ P.pre r.1.s = none) ∧
      (∀ o, r.2 = some o → XInv P n o r.1)) ?_ ?_ ?_ ?_
  · -- `!any_ready` inside the loop
    intro _ hany
    refine ⟨fun hn => by simp at hn, ?_⟩
    intro o ho
    simp only [Option.some.injEq] at ho
    subst ho
    exact ⟨h.ks, h.inp, h.mb, h.cap, h.r1,
      fun _ => js_all_of_count_zero h.ks h.js (anyReady_false_count h.ks.std hany),
      fun hh => by simp at hh⟩
  · -- slot skipped
    intro _ hg
    refine ⟨fun _ => ⟨?_, hl⟩, fun o ho => by simp at ho⟩
    have hgate : KS (Eng.gateW P e i) none ∧ JS (Eng.gateW P e i) none (fun c => V c ∨ c = i) := by
      unfold Eng.gateGo at hg
      unfold Eng.gateW
      by_cases hcf : (P.clearFirst || P.eligible e.s i) = true
      · simp only [hcf, if_true]
        constructor
        · refine ks_clearReady i h.ks ?_
          intro hb
          -- the bit is set, so the slot was not eligible
          have hne : P.eligible e.s i = false := by
            cases hel : P.eligible e.s i with
            | false => rfl
            | true =>
              have : e.w.isSet i = true := by simp [World.isSet, h.ks.std, hb]
              simp [hel, this] at hg
          left
          intro hp
          have := h.r1 hl i hp
          rw [hne] at this
          exact Bool.noConfusion this
        · refine ⟨by simpa using h.js.pw, ?_⟩
          intro c hv hb hlr
          rw [World.clearReady_bits_std _ _ h.ks.std] at hb
          simp only [World.clearReady_trace] at hlr ⊢
          by_cases hci : c = i
          · subst hci; simp at hb
          · rw [upd_other _ _ _ _ hci] at hb
            rcases hv with hv | hv
            · exact h.js.j c hv hb hlr
            · exact absurd hv hci
      · simp only [hcf]
        refine ⟨h.ks, ⟨h.js.pw, ?_⟩⟩
        intro c hv hb hlr
        rcases hv with hv | hv
        · exact h.js.j c hv hb hlr
        · subst hv
          -- not eligible, so not waiting
          have hne : P.eligible e.s c = false := by
            cases hel : P.eligible e.s c with
            | false => rfl
            | true => simp [hel] at hcf
          rcases hlr with hlr | hlr
          · have := h.r1 hl c hlr
            rw [hne] at this
            exact Bool.noConfusion this
          · simp at hlr
    exact ⟨hgate.1, hgate.2, by simpa using h.inp, by simpa using h.mb, by simpa using h.cap,
      fun hp j hj => h.r1 hp j (by simpa using hj)⟩
  · -- the child's poll panicked
    intro _ hg hp
    rw [L.child_id] at hp ⊢
    refine ⟨fun hn => by simp at hn, ?_⟩
    intro o ho
    simp only [Option.some.injEq] at ho
    subst ho
    have hel : P.eligible e.s i = true := by
      unfold Eng.gateGo at hg; simp only [Bool.and_eq_true] at hg; exact hg.1
    have hgw : Eng.gateW P e i = e.w.clearReady i := by
      unfold Eng.gateW; simp [hel]
    have hkw : KSw (Eng.gateW P e i) i := by rw [hgw]; exact ksw_clearReady i h.ks
    obtain ⟨p, hpp, _⟩ := h.js.pw
    have hks := ks_pollChild i (by simpa using hic) hkw (by simp [hpp])
    have him := pollChild_inp_mb n (Eng.gateW P e i) i i (by simpa using h.inp) (by simpa using h.mb)
    have him2 := emits_own_inp_mb n _ _ (L.evs_panic e.s) him.2 him.1
    refine ⟨ks_emits_own _ (L.evs_panic e.s) hks, him2.2, him2.1, by simp [h.cap, L.n_panic],
      fun hpre => absurd hpre (L.panic_dead _), fun hh => by simp at hh, fun _ => ?_⟩
    simp only [World.emits_trace]
    refine panicSince_own _ _ (fun e' he' => L.evs_panic e.s e' (List.mem_reverse.mp he')) ?_
    exact panicSince_pollChild _ _ _ (by rw [C16.gateW_resOf]; exact hp)
  · -- the child was polled and its result handled
    intro _ hg hp
    rw [L.child_id] at hp ⊢
    have hel : P.eligible e.s i = true := by
      unfold Eng.gateGo at hg; simp only [Bool.and_eq_true] at hg; exact hg.1
    have hgw : Eng.gateW P e i = e.w.clearReady i := by
      unfold Eng.gateW; simp [hel]
    have hkw : KSw (Eng.gateW P e i) i := by rw [hgw]; exact ksw_clearReady i h.ks
    have hclr : (Eng.gateW P e i).bits i = false := C16.bits_gateW_std e i h.ks.std hg
    obtain ⟨p, hpp, _⟩ := h.js.pw
    have hks := ks_pollChild i (by simpa using hic) hkw (by simp [hpp])
    have hjs := js_pollChild (V := V) i (by simpa using hic) hkw
      (by rw [hgw]; exact js_clearReady i h.ks.std h.js) hclr
    have him := pollChild_inp_mb n (Eng.gateW P e i) i i (by simpa using h.inp) (by simpa using h.mb)
    generalize hr : e.w.resOf i = r at hp ⊢
    have hevs := L.evs_handle e.s i r
    have him2 := emits_own_inp_mb n _ _ hevs him.2 him.1
    have hks2 := ks_emits_own _ hevs hks
    have hjs2 := js_emits_own _ hevs hjs
    have hlr : ∀ j, lastRes (((Eng.gateW P e i).pollChild i i).emits (P.handle e.s i r).evs).trace j
        = if i = j then some r else lastRes e.w.trace j := by
      intro j
      rw [C16.lastRes_emits_own _ _ hevs, C16.lastRes_pollChild, C16.gateW_resOf, hr]
      simp
    -- the state after the re-arm
    have hcapw : (((Eng.gateW P e i).pollChild i i).emits (P.handle e.s i r).evs).cap = e.w.cap := by
      simp
    have hK : KS ((((Eng.gateW P e i).pollChild i i).emits (P.handle e.s i r).evs).kop
        (P.handle e.s i r).kop) none ∧
        JS ((((Eng.gateW P e i).pollChild i i).emits (P.handle e.s i r).evs).kop
        (P.handle e.s i r).kop) none (fun c => V c ∨ c = i) := by
      cases hk : (P.handle e.s i r).kop with
      | nop => exact ⟨hks2, hjs2⟩
      | arm j =>
        obtain ⟨rfl, hne⟩ := L.arm _ _ _ _ hk
        simp only [World.kop]
        refine ⟨ks_setReady j (by rw [hcapw]; exact hic) hks2, js_setReady j hks2.std hjs2 ?_⟩
        left
        refine ⟨?_, by simp⟩
        rw [hlr]; simpa using hne
      | armAll =>
        obtain ⟨hne, hall⟩ := L.armAll _ _ _ hk
        simp only [World.kop]
        refine ⟨ks_setAllReady hks2, js_setAllReady hks2.std hjs2 ?_⟩
        intro j hj
        rw [hlr]
        by_cases hij : i = j
        · subst hij; simpa using hne
        · simp only [hij, if_false]
          intro hpend
          have := h.r1 hl j hpend
          rw [hall j (fun hh => hij hh.symm) (by rw [hcapw, h.cap] at hj; exact hj)] at this
          exact Bool.noConfusion this
    have hR1 : R1 P (Eng.applyH { e with w := (Eng.gateW P e i).pollChild i i } (P.handle e.s i r)) := by
      intro hpre j hj
      simp only [Eng.applyH_w, World.kop_trace, Eng.applyH_s] at hj hpre ⊢
      rw [hlr] at hj
      by_cases hij : i = j
      · subst hij
        simp only [if_true, Option.some.injEq] at hj
        subst hj
        rw [L.pend_elig]; exact hel
      · simp only [hij, if_false] at hj
        exact L.mono _ _ _ _ (fun hh => hij hh.symm) hpre (h.r1 hl j hj)
    constructor
    · intro hex
      refine ⟨⟨hK.1, hK.2, by simpa using him2.2, by simpa using him2.1,
        by simp [h.cap, L.n_handle], hR1⟩, ?_⟩
      simp only [Eng.applyH_s]
      by_cases hd : P.pre (P.handle e.s i r).s = none
      · exact hd
      · exact absurd hex (L.dead_exit _ _ _ hl hd)
    · intro o ho
      refine ⟨hK.1, by simpa using him2.2, by simpa using him2.1, by simp [h.cap, L.n_handle], hR1,
        fun hh => ?_, fun hh => ?_⟩
      · subst hh; exact absurd ho (C.no_pend_exit _ _ _).1
      · subst hh; exact absurd ho (C.no_pend_exit _ _ _).2

end C01
end Fc

namespace Fc
namespace C01
open Mon

variable {P : Policy Fix} {n : Nat}

theorem visit_n (L : Lawful P) (e : Eng Fix) (i : Nat) : (Eng.visit P e i).1.s.n = e.s.n := by
  refine Eng.visit_ind P e i (fun r => r.1.s.n = e.s.n) ?_ ?_ ?_ ?_
  · intro _ _; rfl
  · intro _ _; rfl
  · intro _ _ _; exact L.n_panic _
  · intro _ _ _; exact L.n_handle _ _ _

theorem pinv_mono {e : Eng Fix} {V V' : Nat → Prop} (hv : ∀ c, V' c → V c) (h : PInv P n e V) :
    PInv P n e V' :=
  ⟨h.ks, js_mono hv h.js, h.inp, h.mb, h.cap, h.r1⟩

theorem pinv_scan (C : Conc P) : ∀ (l : List Nat) (e : Eng Fix) (V : Nat → Prop),
    (∀ i ∈ l, i < e.s.n) → PInv P n e V → P.pre e.s = none →
    ((Eng.scan P l e).2 = none →
        PInv P n (Eng.scan P l e).1 (fun c => V c ∨ c ∈ l) ∧ P.pre (Eng.scan P l e).1.s = none) ∧
    (∀ o, (Eng.scan P l e).2 = some o → XInv P n o (Eng.scan P l e).1) := by
  intro l
  induction l with
  | nil =>
    intro e V _ h hl
    refine ⟨fun _ => ⟨pinv_mono (fun c hc => by simpa using hc) h, hl⟩, fun o ho => by simp [Eng.scan] at ho⟩
  | cons i rest ih =>
    intro e V hlt h hl
    have hv := pinv_visit C e i V (hlt i (List.mem_cons_self ..)) h hl
    unfold Eng.scan
    cases hvis : (Eng.visit P e i).2 with
    | some o =>
      simp only
      exact ⟨fun hn => by simp at hn, fun o' ho' => by
        simp only [Option.some.injEq] at ho'; subst ho'; exact hv.2 o hvis⟩
    | none =>
      simp only
      have h1 := hv.1 hvis
      have hn := visit_n C.law e i
      have := ih (Eng.visit P e i).1 (fun c => V c ∨ c = i)
        (fun j hj => by rw [hn]; exact hlt j (List.mem_cons_of_mem _ hj)) h1.1 h1.2
      refine ⟨fun hs => ?_, this.2⟩
      have h2 := this.1 hs
      refine ⟨pinv_mono ?_ h2.1, h2.2⟩
      intro c hc
      simp only [List.mem_cons] at hc
      rcases hc with hc | hc | hc
      · exact Or.inl (Or.inl hc)
      · exact Or.inl (Or.inr hc)
      · exact Or.inr hc

/-- the invariant between operations -/
structure BInv (P : Policy Fix) (n : Nat) (e : Eng Fix) : Prop where
  ks  : KS e.w none
  cap : e.w.cap = e.s.n
  r1  : R1 P e
  out : inPoll e.w.trace = false
  mb  : c01Boundaries n e.w.trace = true
  js  : alive e.w.trace = true → lastOut e.w.trace = some .pending → JS e.w none (fun _ => True)

theorem ks_pollEnd {w : World} (o : Outcome) (h : KS w none)
    (hp : o = .panicked → panicSince w.trace = true) : KS (w.emit (.pollEnd o)) none := by
  by_cases ho : o = .panicked
  · subst ho
    refine ⟨h.std, by simpa [nset] using h.cnt, h.hi, h.hand, ?_, h.par, ?_, ?_⟩
    · intro c wk hw; exact h.lwk c wk (by simpa [lastWk] using hw)
    · intro c ho' hl
      exact h.i2 c (by simpa [owes] using ho') (by simpa [lastRes] using hl)
    · simp [c01NoPanic, h.nowp, hp rfl]
  · refine ks_emit _ ?_ h
    cases o <;> simp_all [ksNeutral]

/-- emitting `pollEnd o` from an exit state gives a boundary state -/
theorem binv_of_xinv (o : Outcome) (e : Eng Fix) (h : XInv P n o e) :
    BInv P n (e.emit (.pollEnd o)) := by
  refine ⟨ks_pollEnd o h.ks h.pan, by simpa using h.cap, ?_, by simp [inPoll], ?_, ?_⟩
  · intro hp j hj; exact h.r1 hp j (by simpa [lastRes] using hj)
  · simp only [Eng.emit_w, World.emit_trace]
    rw [mb_mid n _ _ h.inp]; exact h.mb
  · intro _ hlo
    simp only [Eng.emit_w, World.emit_trace, lastOut, Option.some.injEq] at hlo
    exact js_emit _ rfl (h.pend hlo)

theorem binv_close (C : Conc P) (ord : List Nat) (e0 : Eng Fix) (r : Eng Fix × Option Outcome)
    (hx : ∀ o, r.2 = some o → XInv P n o r.1)
    (hc : r.2 = none → PInv P n r.1 (fun c => c ∈ ord) ∧ P.pre r.1.s = none)
    (hord : ∀ c, c < r.1.s.n → c ∈ ord) :
    BInv P n (Eng.close P r) := by
  have L := C.law
  unfold Eng.close
  split
  · rename_i o ho; exact binv_of_xinv o _ (hx o ho)
  · rename_i hn
    obtain ⟨hp, hlive⟩ := hc hn
    obtain ⟨o, ho⟩ : ∃ o, (P.finish r.1.s).exit = some o := by
      cases hf : (P.finish r.1.s).exit with
      | none => exact absurd hf (C.fin_ok _).2
      | some o => exact ⟨o, rfl⟩
    rw [ho]
    simp only [Option.getD_some]
    refine binv_of_xinv o _ ?_
    have hevs := L.evs_finish r.1.s
    have him := emits_own_inp_mb n _ _ hevs hp.inp hp.mb
    refine ⟨?_, by simpa [L.finish_kop, World.kop] using him.2,
      by simpa [L.finish_kop, World.kop] using him.1, by simp [hp.cap, L.n_finish], ?_, ?_, ?_⟩
    · simp only [Eng.applyH_w, L.finish_kop, World.kop]
      exact ks_emits_own _ hevs hp.ks
    · intro hpre j hj
      simp only [Eng.applyH_s] at hpre ⊢
      simp only [Eng.applyH_w, World.kop_trace] at hj
      rw [C16.lastRes_emits_own _ _ hevs] at hj
      rw [L.finish_elig _ _ hpre]
      exact hp.r1 hlive j hj
    · intro _
      simp only [Eng.applyH_w, L.finish_kop, World.kop]
      refine js_emits_own _ hevs ⟨hp.js.pw, ?_⟩
      intro c _ hb hl
      refine hp.js.j c (hord c ?_) hb hl
      by_cases hh : r.1.w.cap ≤ c
      · rw [hp.ks.hi c hh] at hb; exact Bool.noConfusion hb
      · rw [← hp.cap]; omega
    · intro hh
      subst hh
      exact absurd ho (C.fin_ok _).1

theorem scan_n (L : Lawful P) : ∀ (l : List Nat) (e : Eng Fix), (Eng.scan P l e).1.s.n = e.s.n := by
  intro l
  induction l with
  | nil => intro e; rfl
  | cons i rest ih =>
    intro e
    unfold Eng.scan
    cases (Eng.visit P e i).2 with
    | some o => exact visit_n L e i
    | none => simp only; rw [ih, visit_n L e i]

theorem binv_body (C : Conc P) (e : Eng Fix) (h : PInv P n e (fun _ => False))
    (hl : P.pre e.s = none) : BInv P n (Eng.body P e) := by
  have L := C.law
  have hstart : PInv P n { e with s := P.start e.s } (fun _ => False) := by
    refine ⟨h.ks, h.js, h.inp, h.mb, by simp [h.cap, L.n_start], ?_⟩
    intro _ j hj
    simp only [L.start_elig]
    exact h.r1 hl j hj
  unfold Eng.body
  split
  · rename_i hc
    simp only [Bool.and_eq_true, Bool.not_eq_true'] at hc
    refine binv_of_xinv .pending _ ⟨hstart.ks, hstart.inp, hstart.mb, hstart.cap, hstart.r1, ?_,
      fun hh => by simp at hh⟩
    intro _
    exact js_all_of_count_zero hstart.ks hstart.js (anyReady_false_count hstart.ks.std hc.2)
  · have hs := pinv_scan (n := n) C (P.order e.s) { e with s := P.start e.s } (fun _ => False)
      (fun i hi => by simp only [L.n_start]; exact L.order_lt _ _ hi) hstart (L.start_live _ hl)
    refine binv_close C (P.order e.s) e _ hs.2 ?_ ?_
    · intro hn
      have := hs.1 hn
      exact ⟨pinv_mono (fun c hc => Or.inr hc) this.1, this.2⟩
    · intro c hc
      rw [scan_n L] at hc
      simp only [L.n_start] at hc
      exact C.order_all _ _ hl hc

theorem quiet_of_binv (e : Eng Fix) (h : BInv P n e) : quiet n e.w.trace = true := by
  unfold quiet
  cases ha : alive e.w.trace with
  | false => simp
  | true =>
    by_cases hlo : lastOut e.w.trace = some .pending
    · have hjs := h.js ha hlo
      simp only [hlo, beq_self_eq_true, Bool.and_self, Bool.not_true, Bool.false_or,
        List.all_eq_true, List.mem_range]
      intro c _
      cases hw : wokeSince e.w.trace with
      | true => simp
      | false =>
        simp only [Bool.or_false, Bool.not_eq_true', Bool.and_eq_false_imp, Bool.and_eq_true,
          beq_iff_eq, Bool.not_eq_true', and_imp]
        intro hp _
        cases ho : owes e.w.trace c with
        | false => rfl
        | true =>
          have hb := h.ks.i2 c ho (Or.inl hp)
          have := hjs.j c trivial hb (Or.inl hp)
          rw [hw] at this
          exact Bool.noConfusion this
    · have : (lastOut e.w.trace == some Outcome.pending) = false := by simpa using hlo
      simp [this]

theorem binv_holds (e : Eng Fix) (h : BInv P n e) : holds_C01 n e.w.trace = true := by
  unfold holds_C01
  simp [h.mb, quiet_of_binv e h, h.ks.nowp]

end C01
end Fc

namespace Fc
namespace C01
open Mon

variable {P : Policy Fix} {n : Nat}

theorem quiet_dead (n : Nat) (t : List Ev) (h : alive t = false) : quiet n t = true := by
  simp [quiet, h]

theorem mb_startsOp (n : Nat) (e : Ev) (t : List Ev) (hmb : c01Boundaries n t = true)
    (hq : quiet n t = true) : c01Boundaries n (e :: t) = true := by
  simp [c01Boundaries, hmb, hq]

theorem mb_notOp (n : Nat) (e : Ev) (t : List Ev) (hmb : c01Boundaries n t = true)
    (hs : startsOp e = false) : c01Boundaries n (e :: t) = true := by
  simp [c01Boundaries, hmb, hs]

theorem mb_fire (n : Nat) (w : World) (c a : Nat) (hmb : c01Boundaries n w.trace = true)
    (hq : quiet n w.trace = true) (hout : inPoll w.trace = false) :
    c01Boundaries n (w.fire c a).trace = true ∧ inPoll (w.fire c a).trace = false := by
  unfold World.fire
  split
  · exact ⟨mb_startsOp n _ _ hmb hq, by simpa [inPoll] using hout⟩
  · rename_i wk _
    have h1 : c01Boundaries n (w.emit (.fired c a (some wk))).trace = true := mb_startsOp n _ _ hmb hq
    have h2 : inPoll (w.emit (.fired c a (some wk))).trace = false := by simpa [inPoll] using hout
    cases wk with
    | par p =>
      exact ⟨mb_notOp n _ _ h1 rfl, by simpa [World.fireWk, inPoll] using h2⟩
    | sub s =>
      unfold World.fireWk
      cases hm : (w.emit (.fired c a (some (.sub s)))).mode with
      | direct => exact ⟨h1, h2⟩
      | std =>
        simp only
        cases hb : (w.emit (.fired c a (some (.sub s)))).bits s with
        | true => simp only [if_true]; exact ⟨h1, h2⟩
        | false =>
          simp only [Bool.false_eq_true, if_false]
          cases (w.emit (.fired c a (some (.sub s)))).parent with
          | some p =>
            simp only [World.emit_trace, World.setReady_trace]
            exact ⟨mb_notOp n _ _ (by simpa using h1) rfl, by simpa [inPoll] using h2⟩
          | none =>
            simp only [World.emit_trace, World.setReady_trace]
            exact ⟨mb_notOp n _ _ (by simpa using h1) rfl, by simpa [inPoll] using h2⟩

theorem alive_fire (w : World) (c a : Nat) : alive (w.fire c a).trace = alive w.trace := by
  obtain ⟨l, hl, hp⟩ := World.fire_seg w c a
  rw [hl]; exact skip_seg alive isFireEv alive_fireEv l hp _

theorem lastOut_fire (w : World) (c a : Nat) : lastOut (w.fire c a).trace = lastOut w.trace := by
  obtain ⟨l, hl, hp⟩ := World.fire_seg w c a
  rw [hl]; exact skip_seg lastOut isFireEv lastOut_fireEv l hp _

theorem binv_fire (e : Eng Fix) (c a : Nat) (h : BInv P n e) : BInv P n (e.fire c a) := by
  have hm := mb_fire n e.w c a h.mb (quiet_of_binv e h) h.out
  refine ⟨ks_fire c a h.ks, by simpa using h.cap, ?_, hm.2, hm.1, ?_⟩
  · intro hp j hj
    simp only [Eng.fire_w, C16.lastRes_fire] at hj
    exact h.r1 hp j hj
  · intro ha hlo
    simp only [Eng.fire_w, alive_fire, lastOut_fire] at ha hlo
    exact js_fire c a h.ks (h.js ha hlo)

theorem mb_own_dead (n : Nat) (l : List Ev) (t : List Ev) (hl : ∀ e ∈ l, isOwnEv e = true)
    (hd : alive t = false) (hmb : c01Boundaries n t = true) :
    c01Boundaries n (l ++ t) = true ∧ alive (l ++ t) = false := by
  induction l with
  | nil => exact ⟨hmb, hd⟩
  | cons e l ih =>
    have ih' := ih (fun e' he' => hl e' (List.mem_cons_of_mem _ he'))
    rw [List.cons_append]
    refine ⟨mb_startsOp n _ _ ih'.1 (quiet_dead n _ ih'.2), ?_⟩
    rw [alive_own _ _ (hl e (List.mem_cons_self ..))]; exact ih'.2

theorem inPoll_own_seg (l t : List Ev) (hl : ∀ e ∈ l, isOwnEv e = true) :
    inPoll (l ++ t) = inPoll t :=
  skip_seg inPoll isOwnEv inPoll_own l hl t

theorem binv_drop (L : Lawful P) (e : Eng Fix) (h : BInv P n e) : BInv P n (Eng.drop P e) := by
  unfold Eng.drop
  have hevs := L.evs_drop e.s
  have hq := quiet_of_binv e h
  have h1 : c01Boundaries n (Ev.dropBegin :: e.w.trace) = true := mb_startsOp n _ _ h.mb hq
  have h2 := mb_own_dead n (P.dropEvs e.s).reverse (Ev.dropBegin :: e.w.trace)
    (fun e' he' => hevs e' (List.mem_reverse.mp he')) rfl h1
  refine ⟨?_, by simp [h.cap, L.n_drop], fun hp => absurd hp (L.drop_dead _), ?_, ?_, ?_⟩
  · exact ks_emit _ rfl (ks_emits_own _ hevs (ks_emit _ rfl h.ks))
  · simp only [World.emit_trace, World.emits_trace, inPoll]
    rw [inPoll_own_seg _ _ (fun e' he' => hevs e' (List.mem_reverse.mp he'))]
    simpa [inPoll] using h.out
  · simp only [World.emit_trace, World.emits_trace]
    exact mb_notOp n _ _ h2.1 rfl
  · intro ha
    simp only [World.emit_trace, World.emits_trace, alive] at ha
    rw [h2.2] at ha; exact Bool.noConfusion ha

theorem binv_poll (C : Conc P) (e : Eng Fix) (wid : Nat) (h : BInv P n e) :
    BInv P n (Eng.poll P e wid) := by
  have hq := quiet_of_binv e h
  have hmb1 : c01Boundaries n (Ev.pollBegin wid :: e.w.trace) = true := mb_startsOp n _ _ h.mb hq
  unfold Eng.poll
  split
  · rename_i o ho
    have hne := C.pre_ok e.s
    rw [ho] at hne
    refine ⟨ks_pollEnd o (ks_emit _ rfl h.ks) (fun hh => absurd (by rw [hh]) hne.2),
      by simpa using h.cap, ?_, by simp [inPoll], ?_, ?_⟩
    · intro hp j hj; exact h.r1 hp j (by simpa [lastRes] using hj)
    · exact mb_notOp n _ _ hmb1 rfl
    · intro _ hlo
      simp only [Eng.emit_w, World.emit_trace, lastOut, Option.some.injEq] at hlo
      exact absurd (by rw [hlo]) hne.1
  · rename_i hp
    refine binv_body C _ ?_ hp
    refine ⟨ks_setWaker wid (ks_emit _ rfl h.ks), ⟨⟨wid, by simp, by simp [cur]⟩, ?_⟩,
      by simp [inPoll], by simpa using hmb1, by simpa using h.cap, ?_⟩
    · intro c hv; exact absurd hv (by simp)
    · intro hp' j hj; exact h.r1 hp' j (by simpa [lastRes] using hj)

theorem binv_step (C : Conc P) (e : Eng Fix) (op : Op) (h : BInv P n e) :
    BInv P n (FEng.step P e op) := by
  cases op <;> simp only [FEng.step]
  · exact binv_poll C _ _ h
  · exact binv_fire _ _ _ h
  · exact binv_drop C.law _ h
  all_goals exact h

theorem binv_run (C : Conc P) (ops : List Op) (e : Eng Fix) (h : BInv P n e) :
    BInv P n (ops.foldl (FEng.step P) e) := by
  induction ops generalizing e with
  | nil => exact h
  | cons op ops ih => exact ih _ (binv_step C e op h)

theorem binv_init (f : Fam) (k : Nat) (scripts : Nat → List Step) (m : Mode)
    (hm : f.modeOf m = .std) : BInv f.policy n (FEng.init f m k scripts) := by
  refine ⟨⟨hm, ?_, ?_, ?_, ?_, ?_, ?_, rfl⟩, rfl, ?_, rfl, rfl, ?_⟩
  · simp only [FEng.init, World.init, nset]; rw [filter_all_true]
  · intro i hi; simpa [FEng.init, World.init] using hi
  · intro c wk hw; simp [FEng.init, World.init] at hw
  · intro c wk hw; simp [FEng.init, World.init, lastWk] at hw
  · intro ⟨c, hc⟩; simp [FEng.init, World.init] at hc
  · intro c ho; simp [FEng.init, World.init, owes] at ho
  · intro _ j hj; simp [FEng.init, World.init, lastRes] at hj
  · intro _ hlo; simp [FEng.init, World.init, lastOut] at hlo

end C01
end Fc
