/-
  FcLemmas/LiveNAnyInst.lean — the run invariants of the nest (`LiveN.LBN` for nests of future
  combinators, `LiveN.SBN` for nests of stream combinators) as instances of `LiveNAny.ProgN`, and the
  resulting liveness statements for EVERY environment schedule and every list of extra wake-ups.

  No new fact about any policy or about the nest is needed: `lbn_fire` / `sbn_fire` / `mu_fire` /
  `muS_fire` hold for every `(id, age)`, `lbn_poll` / `sbn_poll` do not mention the environment, and
  `lbn_prod` / `sbn_prod` are stated for any id with `LiveN.Waiting`.
-/
import FcLemmas.LiveNAny
import FcLemmas.LiveNInst
import FcLemmas.LiveNSInst
set_option linter.unusedSimpArgs false
set_option linter.unusedVariables false

namespace Fc
namespace LiveNAny
open Mon Live Live3 Nest LiveN

/-- nests of future combinators -/
theorem prog_lbn {nc : NCase} (F : FNest nc) (hwf : ExecN.wellFormed nc = true) :
    ProgN nc (LBN nc F) (mu nc)
      (fun o => ∃ ok vals, o = some (.ready ok vals) ∧ F.Fino ok vals) where
  lo := by
    intro s h
    rcases lbn_lo h with h | h
    · exact Or.inl h
    · exact Or.inr (Or.inl h)
  poll := by
    intro s wid h
    rcases lbn_poll h wid with hv | ⟨h', hlo', hle, hD, hE⟩
    · exact Or.inl hv
    · exact Or.inr ⟨h', hle, Or.inr ⟨hlo', hD, hE⟩⟩
  fire := fun s id a h => lbn_fire h id a
  mfire := fun s id a => mu_fire nc s id a
  waiting := fun s h hlo => waiting_some h hwf hlo
  mpos := fun s id hw => mu_pos_of_waiting hw
  prod := by
    intro s id h hlo hw
    obtain ⟨_, _, h3, h4⟩ := lbn_prod h hlo hw
    exact ⟨h3, h4⟩

/-- nests of stream combinators -/
theorem prog_sbn {nc : NCase} (F : SNest nc) (hwf : ExecN.wellFormed nc = true) :
    ProgN nc (SBN nc F) (muS nc) (fun o => o = some .none) where
  lo := fun s h => sbn_lo h
  poll := fun s wid h => sbn_poll h wid
  fire := fun s id a h => sbn_fire h id a
  mfire := fun s id a => muS_fire nc s id a
  waiting := fun s h hlo => waiting_someS h hwf hlo
  mpos := fun s id hw => muS_pos_of_waiting hw
  prod := by
    intro s id h hlo hw
    obtain ⟨_, _, h3, h4⟩ := sbn_prod h hlo hw
    exact ⟨h3, h4⟩

/-- **liveness of a nest of future combinators, any schedule, any extra wake-ups** -/
theorem nest_fut_resolvesB (pick : Nat → St → Nat) (pre post : Nat → St → List (Nat × Nat))
    (r : Nat) (nc : NCase) (ho : ExecN.futFam nc.outer nc.n = true)
    (hi : ∀ c fam k, nc.inner c = some (fam, k) → ExecN.futFam fam k = true)
    (hwf : ExecN.wellFormed nc = true) (hs : ExecN.futScripts nc = true) :
    ∃ k, k ≤ 3 * ExecN.stepsLeft nc (init nc) + 1 ∧
      ∃ ok vals, lastOut (ExecNAny.runForB nc pick pre post k r (init nc)).out.w.trace
          = some (.ready ok vals) ∧ futFin nc.outer ok vals := by
  have h := endsB_of_prog (prog_lbn (mkF nc ho hi) hwf) hwf pick pre post r (init nc)
    (lbn_init nc ho hi hs) rfl
  rw [mu_init] at h
  exact h

/-- **liveness of a nest of stream combinators, any schedule, any extra wake-ups** -/
theorem nest_str_endsB (pick : Nat → St → Nat) (pre post : Nat → St → List (Nat × Nat))
    (r : Nat) (nc : NCase) (ho : ExecN.strFam nc.outer nc.n = true)
    (hi : ∀ c fam k, nc.inner c = some (fam, k) → ExecN.strFam fam k = true)
    (hwf : ExecN.wellFormed nc = true) (hs : strScripts nc = true) :
    ∃ k, k ≤ 3 * ExecN.stepsLeft nc (init nc) + 1 ∧
      lastOut (ExecNAny.runForB nc pick pre post k r (init nc)).out.w.trace = some .none := by
  have h := endsB_of_prog (prog_sbn (mkS nc ho hi) hwf) hwf pick pre post r (init nc)
    (sbn_init nc ho hi hs) rfl
  rw [muS_init] at h
  exact h

end LiveNAny
end Fc
