/-
  FcLemmas/LiveObs.lean — ingredients of the liveness argument (C01, second sentence):
  facts about `Exec.futureScript`, sums of remaining script lengths, and how the ghost observations
  `lastWk`, `gone`, `panicSince`, `owes` see the segments the kernel appends.
-/
import FcLemmas.C04
import FcLemmas.C20Modes
import FcLemmas.Conc
import Fc.Exec
set_option linter.unusedSimpArgs false
set_option linter.unusedVariables false

namespace Fc
namespace Live
open Mon

/-! ### well-behaved future scripts -/

theorem fs_nil : Exec.futureScript [] = false := rfl

theorem fs_cons (s : Step) (rest : List Step) (h : Exec.futureScript (s :: rest) = true) :
    (rest = [] ∧ ∃ ok v, s.res = .ready ok v) ∨
    (rest ≠ [] ∧ s.res = .pend ∧ Exec.futureScript rest = true) := by
  unfold Exec.futureScript at h ⊢
  rw [List.reverse_cons] at h
  cases hr : rest.reverse with
  | nil =>
    have hnil : rest = [] := by simpa using hr
    left
    rw [hr] at h
    simp only [List.nil_append, List.all_nil, Bool.and_true] at h
    refine ⟨hnil, ?_⟩
    cases hres : s.res <;> simp_all
  | cons last init =>
    right
    rw [hr] at h
    simp only [List.cons_append, List.all_append, List.all_cons, List.all_nil, Bool.and_true,
      Bool.and_eq_true, beq_iff_eq] at h
    refine ⟨fun hn => by simp [hn] at hr, h.2.2, ?_⟩
    simp only [Bool.and_eq_true]
    exact ⟨h.1, h.2.1⟩

theorem fs_ne_nil (l : List Step) (h : Exec.futureScript l = true) : l ≠ [] := by
  intro hn; rw [hn] at h; exact Bool.noConfusion h

/-- the value a well-behaved future's script resolves to (its last step) -/
def finalVal (l : List Step) : Nat :=
  match l.getLast? with
  | some st => (match st.res with | .ready _ v => v | _ => 0)
  | none => 0

theorem finalVal_single (s : Step) (ok : Bool) (v : Nat) (h : s.res = .ready ok v) :
    finalVal [s] = v := by
  simp [finalVal, h]

theorem finalVal_cons (s : Step) (rest : List Step) (h : rest ≠ []) :
    finalVal (s :: rest) = finalVal rest := by
  cases rest with
  | nil => exact absurd rfl h
  | cons b l => simp [finalVal, List.getLast?_cons_cons]

/-! ### sums of script lengths -/

def total (f : Nat → Nat) (n : Nat) : Nat := ((List.range n).map f).sum

theorem total_succ (f : Nat → Nat) (n : Nat) : total f (n + 1) = total f n + f n := by
  simp [total, List.range_succ]

theorem total_le (f g : Nat → Nat) (n : Nat) (h : ∀ c, c < n → f c ≤ g c) : total f n ≤ total g n := by
  induction n with
  | zero => simp [total]
  | succ k ih =>
    rw [total_succ, total_succ]
    have := ih (fun c hc => h c (by omega))
    have := h k (by omega)
    omega

theorem total_lt (f g : Nat → Nat) (n : Nat) (h : ∀ c, c < n → f c ≤ g c) (c : Nat) (hc : c < n)
    (hlt : f c < g c) : total f n < total g n := by
  induction n with
  | zero => omega
  | succ k ih =>
    rw [total_succ, total_succ]
    have hle := total_le f g k (fun c hc => h c (by omega))
    have hk := h k (by omega)
    by_cases hck : c = k
    · subst hck; omega
    · have := ih (fun c hc => h c (by omega)) (by omega); omega

theorem le_total (f : Nat → Nat) (n c : Nat) (hc : c < n) : f c ≤ total f n := by
  induction n with
  | zero => omega
  | succ k ih =>
    rw [total_succ]
    by_cases hck : c = k
    · subst hck; omega
    · have := ih (by omega); omega

theorem stepsLeft_eq (n : Nat) (e : Eng Fix) :
    Exec.stepsLeft n e = total (fun c => (e.w.scripts c).length) n := rfl

/-! ### observations across kernel steps -/

theorem pollChild_scripts (w : World) (c s : Nat) :
    (w.pollChild c s).scripts = upd w.scripts c (w.scripts c).tail := by simp [World.pollChild]

theorem pollChild_handed (w : World) (c s : Nat) :
    (w.pollChild c s).handed = upd w.handed c (w.wakerFor s :: w.handed c) := by
  simp [World.pollChild]

theorem kop_handed (w : World) (k : KOp) : (w.kop k).handed = w.handed := by
  cases k with
  | nop => rfl
  | arm i => simp [World.kop]
  | armAll => simp only [World.kop, World.setAllReady]; cases w.mode <;> rfl

theorem gateW_handed {P : Policy Fix} (e : Eng Fix) (i : Nat) :
    (Eng.gateW P e i).handed = e.w.handed := by
  unfold Eng.gateW; split <;> simp

theorem lastWk_pollChild (w : World) (c s j : Nat) :
    lastWk (w.pollChild c s).trace j = if c = j then some (w.wakerFor s) else lastWk w.trace j := by
  obtain ⟨l, hl, hp⟩ := World.pollChild_seg w c s
  rw [hl]
  simp only [lastWk]
  rw [skip_seg (fun t => lastWk t j) isFireEv (fun e t h => lastWk_fireEv j e t h) l hp]
  simp [lastWk]

theorem lastWk_emits_own (w : World) (l : List Ev) (hl : ∀ e ∈ l, isOwnEv e = true) (j : Nat) :
    lastWk (w.emits l).trace j = lastWk w.trace j :=
  emits_own_skip (fun t => lastWk t j) (fun e t h => lastWk_own j e t h) w l hl

theorem gone_fireEv' (c : Nat) : ∀ e t, isFireEv e = true → gone (e :: t) c = gone t c :=
  fun e t h => gone_fireEv c e t h

theorem gone_pollChild (w : World) (c s j : Nat) :
    gone (w.pollChild c s).trace j = gone w.trace j := by
  obtain ⟨l, hl, hp⟩ := World.pollChild_seg w c s
  rw [hl]
  simp only [gone]
  rw [skip_seg (fun t => gone t j) isFireEv (gone_fireEv' j) l hp]
  simp [gone]

theorem gone_append_not_mem (l t : List Ev) (c : Nat) (h : Ev.childDropped c ∉ l) :
    gone (l ++ t) c = gone t c := by
  induction l with
  | nil => rfl
  | cons e l ih =>
    have h1 : Ev.childDropped c ∉ l := fun hm => h (List.mem_cons_of_mem _ hm)
    have h2 : e ≠ Ev.childDropped c := fun he => h (by rw [he]; exact List.mem_cons_self ..)
    rw [List.cons_append]
    cases e <;> simp_all [gone]

theorem gone_emits_not_mem (w : World) (l : List Ev) (c : Nat) (h : Ev.childDropped c ∉ l) :
    gone (w.emits l).trace c = gone w.trace c := by
  simp only [World.emits_trace]
  exact gone_append_not_mem _ _ _ (fun hm => h (List.mem_reverse.mp hm))

theorem panicSince_fireEv (e : Ev) (t : List Ev) (h : isFireEv e = true) :
    panicSince (e :: t) = panicSince t := by
  cases e <;> simp_all [isFireEv, panicSince]

theorem panicSince_own (e : Ev) (t : List Ev) (h : isOwnEv e = true) :
    panicSince (e :: t) = panicSince t := by
  cases e <;> simp_all [isOwnEv, panicSince]

theorem panicSince_pollChild (w : World) (c s : Nat) (h : w.resOf c ≠ .panic) :
    panicSince (w.pollChild c s).trace = panicSince w.trace := by
  obtain ⟨l, hl, hp⟩ := World.pollChild_seg w c s
  rw [hl]
  have h1 : panicSince (Ev.childEnd c (w.resOf c) :: (l ++ Ev.childBegin c s (w.wakerFor s) :: w.trace))
      = panicSince (l ++ Ev.childBegin c s (w.wakerFor s) :: w.trace) := by
    cases hr : w.resOf c <;> simp_all [panicSince]
  rw [h1, skip_seg panicSince isFireEv panicSince_fireEv l hp]
  simp [panicSince]

theorem panicSince_emits_own (w : World) (l : List Ev) (hl : ∀ e ∈ l, isOwnEv e = true) :
    panicSince (w.emits l).trace = panicSince w.trace :=
  emits_own_skip panicSince panicSince_own w l hl

theorem spent_pollChild_emits (w : World) (c s : Nat) (evs : List Ev)
    (he : ∀ e ∈ evs, isOwnEv e = true) :
    spent false ((w.pollChild c s).emits evs).trace = spent false w.trace := by
  obtain ⟨l, hl, hp⟩ := World.pollChild_seg w c s
  simp only [World.emits_trace, hl]
  exact spent_pollSeg false c s (w.wakerFor s) l (w.resOf c) evs w.trace hp he

theorem wokeSince_pollBegin (w : Nat) (t : List Ev) : wokeSince (.pollBegin w :: t) = false := rfl

/-- a wake-up already owed stays owed across wake-up events -/
theorem owes_fireEv_mono (c : Nat) (e : Ev) (t : List Ev) (he : isFireEv e = true)
    (h : owes t c = true) : owes (e :: t) c = true := by
  cases e <;> simp_all [isFireEv, owes]
  rename_i wk
  cases wk <;> simp_all [owes]

theorem owes_fires_mono (c : Nat) (l t : List Ev) (hl : ∀ e ∈ l, isFireEv e = true)
    (h : owes t c = true) : owes (l ++ t) c = true := by
  induction l with
  | nil => exact h
  | cons e l ih =>
    rw [List.cons_append]
    exact owes_fireEv_mono c e _ (hl e (List.mem_cons_self ..))
      (ih (fun e' he' => hl e' (List.mem_cons_of_mem _ he')))

end Live
end Fc
