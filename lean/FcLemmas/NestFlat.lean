/-
  FcLemmas/NestFlat.lean — the flat C01 boundary invariants (std / direct / sequential) packaged
  as one predicate `Flat P e` on an engine instance, preserved by every engine operation and by
  replacing the scripts (the flat invariants quantify over all scripts).
-/
import FcLemmas.NestEng
set_option linter.unusedSimpArgs false
set_option linter.unusedVariables false

namespace Fc
open Mon

/-- the flat C01 invariant of one engine instance, whichever proof applies to its family/mode -/
def Flat (P : Policy Fix) (e : Eng Fix) : Prop :=
  (Conc P ∧ ∀ n, C01.BInv P n e) ∨ (Conc P ∧ ∀ n, C01D.BInv P n e) ∨ (Seq P ∧ ∀ n, C01S.BS P n e)

namespace Flat
variable {P : Policy Fix}

theorem law {e : Eng Fix} (h : Flat P e) : Lawful P := by
  rcases h with ⟨C, _⟩ | ⟨C, _⟩ | ⟨S, _⟩
  · exact C.law
  · exact C.law
  · exact S.law

theorem poll {e : Eng Fix} (h : Flat P e) (wid : Nat) : Flat P (Eng.poll P e wid) := by
  rcases h with ⟨C, h⟩ | ⟨C, h⟩ | ⟨S, h⟩
  · exact Or.inl ⟨C, fun n => C01.binv_poll C e wid (h n)⟩
  · exact Or.inr (Or.inl ⟨C, fun n => C01D.binv_poll C e wid (h n)⟩)
  · exact Or.inr (Or.inr ⟨S, fun n => C01S.bs_poll S e wid (h n)⟩)

theorem fire {e : Eng Fix} (h : Flat P e) (c a : Nat) : Flat P (e.fire c a) := by
  rcases h with ⟨C, h⟩ | ⟨C, h⟩ | ⟨S, h⟩
  · exact Or.inl ⟨C, fun n => C01.binv_fire e c a (h n)⟩
  · exact Or.inr (Or.inl ⟨C, fun n => C01D.binv_fire e c a (h n)⟩)
  · exact Or.inr (Or.inr ⟨S, fun n => C01S.bs_fire e c a (h n)⟩)

theorem drop {e : Eng Fix} (h : Flat P e) : Flat P (Eng.drop P e) := by
  rcases h with ⟨C, h⟩ | ⟨C, h⟩ | ⟨S, h⟩
  · exact Or.inl ⟨C, fun n => C01.binv_drop C.law e (h n)⟩
  · exact Or.inr (Or.inl ⟨C, fun n => C01D.binv_drop C.law e (h n)⟩)
  · exact Or.inr (Or.inr ⟨S, fun n => C01S.bs_drop S.law e (h n)⟩)

/-- the flat invariants do not look at the scripts -/
theorem scripts {e : Eng Fix} (h : Flat P e) (f : Nat → List Step) :
    Flat P { e with w := { e.w with scripts := f } } := by
  rcases h with ⟨C, h⟩ | ⟨C, h⟩ | ⟨S, h⟩
  · refine Or.inl ⟨C, fun n => ?_⟩
    have b := h n
    exact ⟨⟨b.ks.std, b.ks.cnt, b.ks.hi, b.ks.hand, b.ks.lwk, b.ks.par, b.ks.i2, b.ks.nowp⟩,
      b.cap, b.r1, b.out, b.mb, fun ha hl => ⟨(b.js ha hl).pw, (b.js ha hl).j⟩⟩
  · refine Or.inr (Or.inl ⟨C, fun n => ?_⟩)
    have b := h n
    exact ⟨⟨b.kd.dir, b.kd.hand, b.kd.lp, b.kd.nowp⟩, b.cap, b.r1, b.out, b.mb,
      fun ha hl => ⟨(b.jd ha hl).pw, (b.jd ha hl).wk, (b.jd ha hl).o, (b.jd ha hl).d⟩⟩
  · refine Or.inr (Or.inr ⟨S, fun n => ?_⟩)
    have b := (h n).b
    exact ⟨⟨⟨b.kd.dir, b.kd.hand, b.kd.lp, b.kd.nowp⟩, b.cap, b.r1, b.out, b.mb,
      fun ha hl => ⟨(b.jd ha hl).pw, (b.jd ha hl).wk, (b.jd ha hl).o, (b.jd ha hl).d⟩⟩, (h n).rs⟩

theorem fires {e : Eng Fix} (h : Flat P e) (l : List (Nat × Nat)) :
    Flat P (l.foldl (fun o p => o.fire p.1 p.2) e) := by
  induction l generalizing e with
  | nil => exact h
  | cons p l ih => exact ih (h.fire p.1 p.2)

theorem nowp {e : Eng Fix} (h : Flat P e) : c01NoPanic e.w.trace = true := by
  rcases h with ⟨_, h⟩ | ⟨_, h⟩ | ⟨_, h⟩
  · exact (h 0).ks.nowp
  · exact (h 0).kd.nowp
  · exact (h 0).b.kd.nowp

/-- C01's `quiet`, pointwise: an owed wake-up of a waiting child has reached the task -/
theorem quiet_pt {e : Eng Fix} (h : Flat P e) (c : Nat) (ha : alive e.w.trace = true)
    (hlo : lastOut e.w.trace = some .pending) (hp : lastRes e.w.trace c = some .pend)
    (ho : owes e.w.trace c = true) : wokeSince e.w.trace = true := by
  rcases h with ⟨_, h⟩ | ⟨_, h⟩ | ⟨_, h⟩
  · have b := h 0
    exact (b.js ha hlo).j c trivial (b.ks.i2 c ho (Or.inl hp)) (Or.inl hp)
  · have b := h 0
    exact (b.jd ha hlo).o c ((b.jd ha hlo).d c trivial (Or.inl hp)) ho
  · have b := (h 0).b
    exact (b.jd ha hlo).o c ((b.jd ha hlo).d c trivial (Or.inl hp)) ho

theorem init (f : Fam) (hf : f.isConc = true ∨ f.isSeq = true) (m : Mode) (k : Nat)
    (scripts : Nat → List Step) : Flat f.policy (FEng.init f m k scripts) := by
  rcases hf with hf | hf
  · cases hm : f.modeOf m with
    | std => exact Or.inl ⟨conc_policy f hf, fun n => C01.binv_init f k scripts m hm⟩
    | direct => exact Or.inr (Or.inl ⟨conc_policy f hf, fun n => C01D.binv_init f k scripts m hm⟩)
  · exact Or.inr (Or.inr ⟨seq_policy f hf, fun n => C01S.bs_init f k scripts m (seq_direct f hf m)⟩)

end Flat

/-! ### the scan order never repeats a slot -/

theorem rot_nodup (s : Fix) : s.rot.Nodup := by
  unfold Fix.rot
  rw [List.Nodup, List.pairwise_map]
  refine List.Pairwise.imp_of_mem ?_ (List.pairwise_lt_range (n := s.n))
  intro a b ha hb hab heq
  simp only [List.mem_range] at ha hb
  have h1 : (b + s.off - (a + s.off)) % s.n = 0 :=
    Nat.sub_mod_eq_zero_of_mod_eq heq.symm
  have h2 : b + s.off - (a + s.off) = b - a := by omega
  rw [h2, Nat.mod_eq_of_lt (by omega)] at h1
  omega

theorem order_nodup (f : Fam) (hf : f.isConc = true ∨ f.isSeq = true) (s : Fix) :
    (f.policy.order s).Nodup := by
  cases f <;> simp [Fam.isConc, Fam.isSeq] at hf <;>
    simp only [Fam.policy, joinSlice, joinTuple, tryJoinSlice, tryJoinTuple, race, raceOk, merge, zip,
      chain, waitUntilF, waitUntilS, Bool.false_eq_true, if_false, if_true] <;>
    first
      | exact List.nodup_range
      | exact rot_nodup s
      | exact List.nodup_range'
      | (refine List.Nodup.sublist List.filter_sublist ?_; split <;> decide)

end Fc
