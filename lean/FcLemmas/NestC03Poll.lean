/-
  FcLemmas/NestC03Poll.lean — one poll of the OUTER instance, seen from a nested child `c` whose
  script is the single step `[st]`, for the C03 / C02 statements of a nest: the child is polled at
  most once; if it is not polled nothing about it changes; if it is polled, its answer is `st.res`,
  its poll count went up by one, and — provided the monitor `holds_C03` accepts the outer trace —
  at the start of the poll `c` was neither finished nor released and the outer instance was alive.
-/
import FcLemmas.NestC03Obs
set_option linter.unusedSimpArgs false
set_option linter.unusedVariables false

namespace Fc
open Mon

namespace Nest

theorem holds_suffix (g : Bool) (l t : List Ev) (h : holds_C03 g (l ++ t) = true) :
    holds_C03 g t = true := by
  induction l with
  | nil => exact h
  | cons e l ih =>
    rw [List.cons_append] at h
    cases e <;> simp_all [holds_C03]

theorem cntCB_neutral (l t : List Ev) (c : Nat) (hl : ∀ e ∈ l, neutralEv e = true) :
    cntCB (l ++ t) c = cntCB t c :=
  cntCB_notCB l t c (fun e h => by have := hl e h; cases e <;> simp_all [neutralEv, C03.notCB])

theorem cntCB_pollChild (w : World) (i s c : Nat) :
    cntCB (w.pollChild i s).trace c = cntCB w.trace c + (if i = c then 1 else 0) := by
  obtain ⟨l, hl, hp⟩ := World.pollChild_seg w i s
  rw [hl]
  simp only [cntCB]
  rw [cntCB_fires l _ c hp]
  simp [cntCB]

/-- child `c` has not been polled by the poll in progress; `t0` = the outer trace before the poll -/
structure M1 (c : Nat) (st : Step) (t0 : List Ev) (w : World) : Prop where
  ps : polledSince w.trace c = false
  sc : w.scripts c = [st]
  lr : lastRes w.trace c = lastRes t0 c
  cb : cntCB w.trace c = cntCB t0 c

/-- child `c` has been polled (once) by the poll in progress -/
structure M2 (c : Nat) (st : Step) (t0 : List Ev) (w : World) : Prop where
  ps : polledSince w.trace c = true
  lr : lastRes w.trace c = some st.res
  cb : cntCB w.trace c = cntCB t0 c + 1
  ck : holds_C03 false w.trace = true →
        finished t0 c = false ∧ gone t0 c = false ∧ alive t0 = true

/-- the poll in progress has appended `seg` after its `pollBegin` -/
def SegQ (wid : Nat) (t0 : List Ev) (w : World) : Prop :=
  ∃ seg, w.trace = seg ++ .pollBegin wid :: t0 ∧ ∀ ev ∈ seg, segEv ev = true

def MQ (c : Nat) (st : Step) (wid : Nat) (t0 : List Ev) (w : World) (l : List Nat) : Prop :=
  SegQ wid t0 w ∧ (M1 c st t0 w ∨ M2 c st t0 w) ∧ (polledSince w.trace c = true → c ∉ l) ∧ l.Nodup

theorem segQ_neutral {wid : Nat} {t0 : List Ev} {w w' : World} (hn : Neutral w w')
    (h : SegQ wid t0 w) : SegQ wid t0 w' := by
  obtain ⟨seg, hs, ps⟩ := h
  obtain ⟨l2, e2, p2⟩ := hn.tr
  refine ⟨l2 ++ seg, by rw [e2, hs, List.append_assoc], ?_⟩
  intro ev hev
  simp only [List.mem_append] at hev
  rcases hev with hev | hev
  · exact segEv_of_neutral ev (p2 ev hev)
  · exact ps ev hev

theorem segQ_pollChild {wid : Nat} {t0 : List Ev} {w : World} (i : Nat)
    (h : SegQ wid t0 w) : SegQ wid t0 (w.pollChild i i) := by
  obtain ⟨seg, hs, ps⟩ := h
  obtain ⟨l2, e2, p2⟩ := World.pollChild_seg w i i
  refine ⟨.childEnd i (w.resOf i) :: (l2 ++ .childBegin i i (w.wakerFor i) :: seg), ?_, ?_⟩
  · rw [e2, hs]; simp
  · intro ev hev
    simp only [List.mem_cons, List.mem_append] at hev
    rcases hev with rfl | hev | rfl | hev
    · rfl
    · exact segEv_of_fire ev (p2 ev hev)
    · rfl
    · exact ps ev hev

theorem m1_neutral {c : Nat} {st : Step} {t0 : List Ev} {w w' : World} (hn : Neutral w w')
    (h : M1 c st t0 w) : M1 c st t0 w' := by
  obtain ⟨l, hl, hp⟩ := hn.tr
  refine ⟨?_, by rw [hn.sc]; exact h.sc, ?_, ?_⟩
  · rw [hl, polledSince_neutral l _ c hp]; exact h.ps
  · rw [hl, lastRes_neutral l _ c hp]; exact h.lr
  · rw [hl, cntCB_neutral l _ c hp]; exact h.cb

theorem m2_neutral {c : Nat} {st : Step} {t0 : List Ev} {w w' : World} (hn : Neutral w w')
    (h : M2 c st t0 w) : M2 c st t0 w' := by
  obtain ⟨l, hl, hp⟩ := hn.tr
  refine ⟨?_, ?_, ?_, ?_⟩
  · rw [hl, polledSince_neutral l _ c hp]; exact h.ps
  · rw [hl, lastRes_neutral l _ c hp]; exact h.lr
  · rw [hl, cntCB_neutral l _ c hp]; exact h.cb
  · intro hh; rw [hl] at hh; exact h.ck (holds_suffix _ l _ hh)

theorem pollChild_suffix (w : World) (i s : Nat) : ∃ l, (w.pollChild i s).trace = l ++ w.trace := by
  obtain ⟨l, hl, _⟩ := World.pollChild_seg w i s
  exact ⟨.childEnd i (w.resOf i) :: (l ++ [.childBegin i s (w.wakerFor s)]), by rw [hl]; simp⟩

theorem m1_pollChild_other {c : Nat} {st : Step} {t0 : List Ev} {w : World} (i : Nat) (h : c ≠ i)
    (hp : M1 c st t0 w) : M1 c st t0 (w.pollChild i i) := by
  have hne : ¬ i = c := fun hh => h hh.symm
  refine ⟨?_, ?_, ?_, ?_⟩
  · rw [polledSince_pollChild]; simp [hne, hp.ps]
  · rw [pollChild_scripts_other _ _ _ _ h]; exact hp.sc
  · rw [C16.lastRes_pollChild]; simp [hne, hp.lr]
  · rw [cntCB_pollChild]; simp [hne, hp.cb]

theorem m2_pollChild_other {c : Nat} {st : Step} {t0 : List Ev} {w : World} (i : Nat) (h : c ≠ i)
    (hp : M2 c st t0 w) : M2 c st t0 (w.pollChild i i) := by
  have hne : ¬ i = c := fun hh => h hh.symm
  refine ⟨?_, ?_, ?_, ?_⟩
  · rw [polledSince_pollChild]; simp [hp.ps]
  · rw [C16.lastRes_pollChild]; simp [hne, hp.lr]
  · rw [cntCB_pollChild]; simp [hne, hp.cb]
  · intro hh
    obtain ⟨l, hl⟩ := pollChild_suffix w i i
    rw [hl] at hh
    exact hp.ck (holds_suffix _ l _ hh)

theorem finished_of_lastRes (t t' : List Ev) (c : Nat) (h : lastRes t c = lastRes t' c) :
    finished t c = finished t' c := by
  simp [finished, h]

theorem m2_pollChild_same {c : Nat} {st : Step} {wid : Nat} {t0 : List Ev} {w : World}
    (hs : SegQ wid t0 w) (hp : M1 c st t0 w) : M2 c st t0 (w.pollChild c c) := by
  have hstep : w.stepOf c = st := by simp [World.stepOf, hp.sc]
  refine ⟨?_, ?_, ?_, ?_⟩
  · rw [polledSince_pollChild]; simp
  · rw [C16.lastRes_pollChild]; simp [World.resOf, hstep]
  · rw [cntCB_pollChild]; simp [hp.cb]
  · intro hh
    obtain ⟨l, hl, hf⟩ := World.pollChild_seg w c c
    rw [hl] at hh
    have h2 : holds_C03 false (.childBegin c c (w.wakerFor c) :: w.trace) = true :=
      holds_suffix false (.childEnd c (w.resOf c) :: l) _ (by simpa using hh)
    simp only [holds_C03, Bool.and_eq_true, Bool.not_eq_true'] at h2
    obtain ⟨⟨⟨⟨⟨_, hfin⟩, _⟩, _⟩, hgone⟩, halive⟩ := h2
    obtain ⟨seg, hseg, pseg⟩ := hs
    refine ⟨?_, ?_, ?_⟩
    · rw [← finished_of_lastRes _ _ c hp.lr]; exact hfin
    · cases hg : gone t0 c with
      | false => rfl
      | true =>
        have : gone w.trace c = true := by
          rw [hseg]; exact gone_mono seg _ c (by simpa [gone] using hg)
        rw [this] at hgone; exact Bool.noConfusion hgone
    · rw [hseg, alive_pollSegment seg t0 wid pseg] at halive; exact halive

/-- one poll of the outer instance, seen from child `c` with script `[st]` -/
theorem poll_m {P : Policy Fix} (L : Lawful P) (hnd : ∀ s, (P.order s).Nodup) (e : Eng Fix)
    (wid c : Nat) (st : Step) (hsc : e.w.scripts c = [st]) :
    SegQ wid e.w.trace (Eng.poll P e wid).w ∧
      (M1 c st e.w.trace (Eng.poll P e wid).w ∨ M2 c st e.w.trace (Eng.poll P e wid).w) := by
  have := Eng.poll_ind L (MQ c st wid e.w.trace) ?_ ?_ ?_ e wid ?_
  · obtain ⟨_, h1, h2, _⟩ := this; exact ⟨h1, h2⟩
  · intro w w' l hn ⟨hs, h, hps, hnd'⟩
    obtain ⟨l2, e2, p2⟩ := hn.tr
    refine ⟨segQ_neutral hn hs, ?_, ?_, hnd'⟩
    · rcases h with h | h
      · exact Or.inl (m1_neutral hn h)
      · exact Or.inr (m2_neutral hn h)
    · rw [e2, polledSince_neutral l2 _ c p2]; exact hps
  · intro w i rest ⟨hs, h, hps, hnd'⟩
    exact ⟨hs, h, fun hp hm => hps hp (List.mem_cons_of_mem _ hm), (List.nodup_cons.mp hnd').2⟩
  · intro w i rest ⟨hs, h, hps, hnd'⟩
    have hnd2 := List.nodup_cons.mp hnd'
    by_cases hci : c = i
    · subst hci
      have hps0 : polledSince w.trace c = false := by
        cases hh : polledSince w.trace c with
        | false => rfl
        | true => exact absurd (List.mem_cons_self ..) (hps hh)
      rcases h with h | h
      · exact ⟨segQ_pollChild c hs, Or.inr (m2_pollChild_same hs h), fun _ => hnd2.1, hnd2.2⟩
      · rw [h.ps] at hps0; exact Bool.noConfusion hps0
    · have hne : ¬ i = c := fun hh => hci hh.symm
      refine ⟨segQ_pollChild i hs, ?_, ?_, hnd2.2⟩
      · rcases h with h | h
        · exact Or.inl (m1_pollChild_other i hci h)
        · exact Or.inr (m2_pollChild_other i hci h)
      · intro hp hm
        rw [polledSince_pollChild] at hp
        simp only [hne, decide_false, Bool.false_or] at hp
        exact hps hp (List.mem_cons_of_mem _ hm)
  · refine ⟨⟨[], rfl, by simp⟩, Or.inl ⟨by simp [polledSince], hsc, by simp [lastRes], by simp [cntCB]⟩,
      fun hp => by simp [polledSince] at hp, hnd _⟩

end Nest
end Fc
