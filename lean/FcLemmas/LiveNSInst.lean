/-
  FcLemmas/LiveNSInst.lean — merge, zip and chain as instances of `LiveN.SNest`, the run invariant
  at `Nest.init`, and the resulting liveness statement for nests of stream combinators.
-/
import FcLemmas.LiveNSRun
import FcLemmas.LiveNInst
set_option linter.unusedSimpArgs false
set_option linter.unusedVariables false

namespace Fc
namespace LiveN
open Mon Live Live3 Nest

/-- the flat run invariant of a stream family over `k` inputs (`m` = the build's waker strategy) -/
def strInv : Fam → Mode → Nat → Eng Fix → Prop
  | .merge, _, 0 => MergeZ
  | .merge, m, k + 1 => LBS merge C08.Inv m (k + 1)
  | .zip, m, k => LBS zip C09.Inv m k
  | .chain, _, k => LBC k
  | _, _, _ => fun _ => False

theorem slive_fam (fam : Fam) (m : Mode) (k : Nat) (h : ExecN.strFam fam k = true) :
    SLive fam.policy k (strInv fam m k) := by
  cases fam <;> simp [ExecN.strFam] at h
  · cases k with
    | zero => exact slive_mergeZ
    | succ k =>
      exact slive_lbs streamLike_merge yields_merge (order_nodup .merge (Or.inl rfl)) m (k + 1)
  · exact slive_lbs streamLike_zip yields_zip (order_nodup .zip (Or.inl rfl)) m k
  · exact slive_lbc k

theorem strInv_init (fam : Fam) (m : Mode) (k : Nat) (scripts : Nat → List Step)
    (h : ExecN.strFam fam k = true) (hs : ∀ c, c < k → streamScript (scripts c) = true) :
    strInv fam m k (FEng.init fam m k scripts) := by
  cases fam <;> simp [ExecN.strFam] at h
  · cases k with
    | zero => exact ⟨rfl, fun _ => rfl, by intro ev hev; cases hev⟩
    | succ k => exact lbs_init_merge m (k + 1) (Nat.succ_pos k) scripts hs
  · exact lbs_init_zip m k h scripts hs
  · exact lbc_init m k scripts hs

theorem conc_or_seq_of_strFam (fam : Fam) (k : Nat) (h : ExecN.strFam fam k = true) :
    fam.isConc = true ∨ fam.isSeq = true := by
  cases fam <;> simp [ExecN.strFam] at h
  · exact Or.inl rfl
  · exact Or.inl rfl
  · exact Or.inr rfl

/-- every plain child and every leaf of the nest is a well-behaved stream (`streamScript`) -/
def strScripts (nc : NCase) : Bool :=
  (List.range nc.n).all (fun c => match nc.inner c with
    | none => streamScript (nc.scripts c)
    | some (_, k) => (List.range k).all (fun g => streamScript (nc.scripts (leafId c g))))

/-- the virtual scripts of the outer instance before the first poll -/
def finitS (nc : NCase) : Nat → List Step := fun c =>
  if (nc.inner c).isSome then [⟨.fin, []⟩] else nc.scripts c

def mkS (nc : NCase) (ho : ExecN.strFam nc.outer nc.n = true)
    (hi : ∀ c fam k, nc.inner c = some (fam, k) → ExecN.strFam fam k = true) : SNest nc where
  InvO := strInv nc.outer nc.mode nc.n
  InvI := fun c => strInv (innFam nc c).1 nc.mode (innFam nc c).2
  so := slive_fam nc.outer nc.mode nc.n ho
  si := by
    intro c fam k hin
    simp only [innFam_eq hin]
    exact slive_fam fam nc.mode k (hi c fam k hin)

theorem streamScript_map (l : List Step) (g : Step → Step) (hg : ∀ st, (g st).res = st.res) :
    streamScript (l.map g) = streamScript l := by
  unfold streamScript
  rw [← List.map_reverse]
  cases l.reverse with
  | nil => rfl
  | cons last init =>
    simp [List.all_map, Function.comp_def, hg]

theorem strScripts_plain {nc : NCase} (h : strScripts nc = true) {c : Nat} (hc : c < nc.n)
    (hin : nc.inner c = none) : streamScript (nc.scripts c) = true := by
  simp only [strScripts, List.all_eq_true, List.mem_range] at h
  have := h c hc
  simpa [hin] using this

theorem strScripts_leaf {nc : NCase} (h : strScripts nc = true) {c : Nat} {fam : Fam} {k g : Nat}
    (hc : c < nc.n) (hin : nc.inner c = some (fam, k)) (hg : g < k) :
    streamScript (nc.scripts (leafId c g)) = true := by
  simp only [strScripts, List.all_eq_true, List.mem_range] at h
  have := h c hc
  simp only [hin, List.all_eq_true, List.mem_range] at this
  exact this g hg

/-- the run invariant holds before the first poll -/
theorem sbn_init (nc : NCase) (ho : ExecN.strFam nc.outer nc.n = true)
    (hi : ∀ c fam k, nc.inner c = some (fam, k) → ExecN.strFam fam k = true)
    (hs : strScripts nc = true) : SBN nc (mkS nc ho hi) (init nc) := by
  refine ⟨ninv_init nc (conc_or_seq_of_strFam _ _ ho)
    (fun c fam k hin => conc_or_seq_of_strFam _ _ (hi c fam k hin)), ⟨finitS nc, ?_, ?_⟩, ?_⟩
  · intro c hin
    simp [finitS, init, FEng.init, World.init, hin]
  · have := strInv_init nc.outer nc.mode nc.n (finitS nc) ho (by
      intro c hc
      cases hin : nc.inner c with
      | none => simpa [finitS, hin] using strScripts_plain hs hc hin
      | some fk => simp [finitS, hin, streamScript])
    exact this
  · intro c fam k hc hin _
    refine ⟨?_, rfl⟩
    show strInv (innFam nc c).1 nc.mode (innFam nc c).2 (innerInit nc c)
    rw [innFam_eq hin, innerInit_eq hin]
    exact strInv_init fam nc.mode k _ (hi c fam k hin) (by
      intro g hg
      show streamScript ((nc.scripts (leafId c g)).map _) = true
      rw [streamScript_map (nc.scripts (leafId c g))
        (fun st => { st with fires := st.fires.map (fun p => (p.1 % 100, p.2)) }) (fun _ => rfl)]
      exact strScripts_leaf hs hc hin hg)

/-- before the first poll the measure is the number of scripted steps -/
theorem muS_init (nc : NCase) : muS nc (init nc) = ExecN.stepsLeft nc (init nc) := by
  unfold muS ExecN.stepsLeft total
  congr 1

/-- **liveness of a nest of stream combinators** -/
theorem nest_str_ends (nc : NCase) (ho : ExecN.strFam nc.outer nc.n = true)
    (hi : ∀ c fam k, nc.inner c = some (fam, k) → ExecN.strFam fam k = true)
    (hwf : ExecN.wellFormed nc = true) (hs : strScripts nc = true) :
    ∃ k, k ≤ 3 * ExecN.stepsLeft nc (init nc) + 1 ∧
      lastOut (ExecN.runFor nc k (init nc)).out.w.trace = some .none := by
  have h := ends_of_sbn hwf (sbn_init nc ho hi hs) rfl
  rw [muS_init] at h
  exact h

end LiveN
end Fc
