/-
  FcLemmas/KTieZipADEnv.lean — no_std / alloc-only flavour of FcLemmas/KTieZipAEnv.lean (for the `[S; N]::zip()` tie of
  FcGen/KSrcArr4D.lean): the environment of a translated poll function (Fc/RustEnv.lean) with the flavour's child-poll
  wake function (`fun _ r => some (r, [], ())`: no sub-wakers exist, the readiness set has no flags) refines the
  hand-written kernel in `direct` mode.  The combined world of a readiness set `r` and an environment `env` is
  `TieDir.absA r env`; the readiness set is never changed by a child's poll.
-/
import FcProps.KTieDir
import Fc.RustEnv
import FcLemmas.World
import FcLemmas.KTieMergeEnv

set_option linter.unusedSimpArgs false
set_option linter.unusedVariables false

namespace Fc
open Rs Src

namespace TieZipAD
open DirArr TieDir

@[simp] theorem zad_abs_scripts (r : ReadinessArray) (b : World) : (absA r b).scripts = b.scripts := rfl
@[simp] theorem zad_abs_handed (r : ReadinessArray) (b : World) : (absA r b).handed = b.handed := rfl
@[simp] theorem zad_abs_trace (r : ReadinessArray) (b : World) : (absA r b).trace = b.trace := rfl
@[simp] theorem zad_abs_mode (r : ReadinessArray) (b : World) : (absA r b).mode = .direct := rfl
@[simp] theorem zad_abs_parent (r : ReadinessArray) (b : World) : (absA r b).parent = r.roleParent := rfl
theorem zad_abs_emitM (r : ReadinessArray) (b : World) (e : Ev) : absA r (b.emit e) = (absA r b).emit e := rfl
@[simp] theorem zad_abs_stepOf (r : ReadinessArray) (b : World) (c : Nat) : (absA r b).stepOf c = b.stepOf c := rfl
@[simp] theorem zad_abs_resOf (r : ReadinessArray) (b : World) (c : Nat) : (absA r b).resOf c = b.resOf c := rfl
@[simp] theorem zad_abs_anyReady (r : ReadinessArray) (b : World) : (absA r b).anyReady = true := rfl
@[simp] theorem zad_abs_isSet (r : ReadinessArray) (b : World) (i : Nat) : (absA r b).isSet i = true := rfl
@[simp] theorem zad_abs_clearReady (r : ReadinessArray) (b : World) (i : Nat) : (absA r b).clearReady i = absA r b := rfl
@[simp] theorem zad_abs_setAllReady (r : ReadinessArray) (b : World) : (absA r b).setAllReady = absA r b := rfl

theorem zad_abs_wakerFor (r : ReadinessArray) (b : World) (i p : Nat) (hp : r.roleParent = some p) :
    (absA r b).wakerFor i = .par p := by
  simp [World.wakerFor, hp]

/-- the wake function the flavour's translated source passes to a child's poll -/
abbrev zad_wakeD : Nat → ReadinessArray → Option (ReadinessArray × List Nat × Unit) :=
  fun _ r => some (r, [], ())

/-- the fields of the environment that translated code never touches (they are unused in `direct` mode, but `absA`
    copies them) -/
def zad_Frame (a b : World) : Prop := a.cap = b.cap ∧ a.bits = b.bits ∧ a.count = b.count

theorem zad_Frame.refl (a : World) : zad_Frame a a := ⟨rfl, rfl, rfl⟩

theorem zad_Frame.trans {a b c : World} (h1 : zad_Frame a b) (h2 : zad_Frame b c) : zad_Frame a c :=
  ⟨h1.1.trans h2.1, h1.2.1.trans h2.2.1, h1.2.2.trans h2.2.2⟩

theorem zad_emits_nil (w : World) : w.emits [] = w := by
  simp [World.emits]

theorem zad_fire_tieM (r : ReadinessArray) (env : World) (c age : Nat) :
    ∃ env', Rs.fire zad_wakeD r env c age = some (r, env') ∧ absA r env' = (absA r env).fire c age ∧
      env'.handed = env.handed ∧ zad_Frame env' env := by
  unfold Rs.fire World.fire
  simp only [zad_abs_handed]
  cases hg : (env.handed c)[age]? with
  | none => exact ⟨_, rfl, rfl, rfl, rfl, rfl, rfl⟩
  | some wk =>
    cases wk with
    | par p => exact ⟨_, rfl, rfl, rfl, rfl, rfl, rfl⟩
    | sub i =>
      refine ⟨env.emit (.fired c age (some (.sub i))), ?_, rfl, rfl, rfl, rfl, rfl⟩
      simp only [Rs.fireWk, zad_wakeD, List.map_nil, zad_emits_nil]

theorem zad_fires_tieM (l : List (Nat × Nat)) : ∀ (r : ReadinessArray) (env : World),
    ∃ env', Rs.fires zad_wakeD r env l = some (r, env') ∧ absA r env' = (absA r env).fires l ∧
      env'.handed = env.handed ∧ zad_Frame env' env := by
  induction l with
  | nil => intro r env; exact ⟨env, rfl, rfl, rfl, zad_Frame.refl _⟩
  | cons p l ih =>
    intro r env
    obtain ⟨env1, e1, a1, h1, f1⟩ := zad_fire_tieM r env p.1 p.2
    obtain ⟨env2, e2, a2, h2, f2⟩ := ih r env1
    refine ⟨env2, ?_, ?_, by rw [h2, h1], f2.trans f1⟩
    · simp only [Rs.fires, e1, e2]
    · rw [a2, a1, World.fires_cons]

/-- one poll of child `c` with the caller's own waker, which the flavour's `WakerArray::get` hands out -/
theorem zad_pollChild_tieM (N : Nat) (r : ReadinessArray) (env : World) (c p : Nat)
    (hp : r.roleParent = some p) (hh : HandedIn N env) :
    ∃ env', Rs.pollChild zad_wakeD r env c (.par p) = some (r, env', env.resOf c) ∧
      absA r env' = (absA r env).pollChild c c ∧ HandedIn N env' ∧
      env'.scripts = upd env.scripts c (env.scripts c).tail ∧ zad_Frame env' env := by
  have hh0 : HandedIn N
      { env with
        scripts := upd env.scripts c (env.scripts c).tail,
        handed := upd env.handed c (Wk.par p :: env.handed c),
        trace := .childBegin c c (.par p) :: env.trace } := by
    intro c' j hm
    by_cases hc : c' = c
    · subst hc
      simp at hm
      exact hh _ _ hm
    · simp [upd, hc] at hm
      exact hh _ _ hm
  obtain ⟨env', e1, a1, h1, f1⟩ := zad_fires_tieM (env.stepOf c).fires r
      { env with
        scripts := upd env.scripts c (env.scripts c).tail,
        handed := upd env.handed c (Wk.par p :: env.handed c),
        trace := .childBegin c c (.par p) :: env.trace }
  refine ⟨env'.emit (.childEnd c (env.resOf c)), ?_, ?_, ?_, ?_, f1⟩
  · simp only [Rs.pollChild, Rs.slotOf, e1]
  · rw [zad_abs_emitM, a1]
    simp only [World.pollChild, zad_abs_wakerFor r env c p hp]
    rfl
  · intro c' j; simp only [World.emit_handed]; rw [h1]; exact hh0 c' j
  · have := congrArg World.scripts a1
    simp at this
    simp only [World.emit_scripts]; rw [this]

end TieZipAD
end Fc

