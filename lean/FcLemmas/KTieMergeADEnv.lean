/-
  FcLemmas/KTieMergeADEnv.lean — array merge, no_std / alloc-only flavour (the counterpart of FcLemmas/KTieMergeAEnv.lean
  for `DirArr.ReadinessArray`): the environment of a translated poll function (Fc/RustEnv.lean) whose children are handed
  the caller's own waker and whose child-poll wake function does nothing (no sub-wakers exist) refines the hand-written
  kernel in `direct` mode: `Rs.fire` = `World.fire`, `Rs.fires` = `World.fires`, `Rs.pollChild` with the stored parent
  waker = `World.pollChild`.  The combined world of a readiness set `r` and an environment `env` is `TieDir.absA r env`.
  The readiness set is never changed by a child's poll, and NO hypothesis on the handed-out wakers is needed (a stale
  sub-waker does nothing in both the translated code and the model).
  Everything lives in the namespace `TieMergeAD` with the prefix `mad_`.
-/
import FcProps.KTieDir
import Fc.RustEnv
import FcLemmas.World
import FcLemmas.KTieMergeEnv

set_option linter.unusedSimpArgs false
set_option linter.unusedVariables false

namespace Fc
open Rs Src

namespace TieMergeAD
open DirArr TieDir

@[simp] theorem mad_abs_scripts (r : ReadinessArray) (b : World) : (absA r b).scripts = b.scripts := rfl
@[simp] theorem mad_abs_handed (r : ReadinessArray) (b : World) : (absA r b).handed = b.handed := rfl
@[simp] theorem mad_abs_trace (r : ReadinessArray) (b : World) : (absA r b).trace = b.trace := rfl
@[simp] theorem mad_abs_mode (r : ReadinessArray) (b : World) : (absA r b).mode = .direct := rfl
@[simp] theorem mad_abs_parent (r : ReadinessArray) (b : World) : (absA r b).parent = r.roleParent := rfl
theorem mad_abs_emitM (r : ReadinessArray) (b : World) (e : Ev) : absA r (b.emit e) = (absA r b).emit e := rfl
theorem mad_abs_emitsM (r : ReadinessArray) (b : World) (l : List Ev) : absA r (b.emits l) = (absA r b).emits l := rfl
@[simp] theorem mad_abs_stepOf (r : ReadinessArray) (b : World) (c : Nat) : (absA r b).stepOf c = b.stepOf c := rfl
@[simp] theorem mad_abs_resOf (r : ReadinessArray) (b : World) (c : Nat) : (absA r b).resOf c = b.resOf c := rfl
@[simp] theorem mad_abs_anyReady (r : ReadinessArray) (b : World) : (absA r b).anyReady = true := rfl
@[simp] theorem mad_abs_isSet (r : ReadinessArray) (b : World) (i : Nat) : (absA r b).isSet i = true := rfl
@[simp] theorem mad_abs_clearReady (r : ReadinessArray) (b : World) (i : Nat) : (absA r b).clearReady i = absA r b := rfl
@[simp] theorem mad_abs_setReady (r : ReadinessArray) (b : World) (i : Nat) : (absA r b).setReady i = absA r b := rfl
theorem mad_abs_wakerFor (r : ReadinessArray) (b : World) (i p : Nat) (hp : r.roleParent = some p) :
    (absA r b).wakerFor i = .par p := by
  simp [World.wakerFor, hp]

/-- the wake function the translated code passes to its children's polls in this flavour: no sub-wakers exist -/
abbrev mad_wake : Nat → ReadinessArray → Option (ReadinessArray × List Nat × Unit) := fun _ r => some (r, [], ())

/-- the flag fields of the environment (not used by the translated code: `absA` reads them from the environment since
    the flag-less readiness set has none) are those of `b` -/
def SameFlags (b env : World) : Prop := env.cap = b.cap ∧ env.bits = b.bits ∧ env.count = b.count

theorem SameFlags.refl (b : World) : SameFlags b b := ⟨rfl, rfl, rfl⟩
theorem SameFlags.trans {a b c : World} (h1 : SameFlags a b) (h2 : SameFlags b c) : SameFlags a c :=
  ⟨h2.1.trans h1.1, h2.2.1.trans h1.2.1, h2.2.2.trans h1.2.2⟩

theorem mad_fire_tie (r : ReadinessArray) (env : World) (c age : Nat) :
    ∃ env', Rs.fire mad_wake r env c age = some (r, env') ∧ absA r env' = (absA r env).fire c age ∧
      SameFlags env env' := by
  unfold Rs.fire World.fire
  simp only [mad_abs_handed]
  cases hg : (env.handed c)[age]? with
  | none => exact ⟨_, rfl, rfl, rfl, rfl, rfl⟩
  | some wk =>
    cases wk with
    | par p => exact ⟨_, rfl, rfl, rfl, rfl, rfl⟩
    | sub i => exact ⟨_, rfl, rfl, rfl, rfl, rfl⟩

theorem mad_fires_tie (l : List (Nat × Nat)) : ∀ (r : ReadinessArray) (env : World),
    ∃ env', Rs.fires mad_wake r env l = some (r, env') ∧ absA r env' = (absA r env).fires l ∧
      SameFlags env env' := by
  induction l with
  | nil => intro r env; exact ⟨env, rfl, rfl, SameFlags.refl _⟩
  | cons p l ih =>
    intro r env
    obtain ⟨env1, e1, a1, f1⟩ := mad_fire_tie r env p.1 p.2
    obtain ⟨env2, e2, a2, f2⟩ := ih r env1
    refine ⟨env2, ?_, ?_, f1.trans f2⟩
    · simp only [Rs.fires, e1, e2]
    · rw [a2, a1, World.fires_cons]

/-- one poll of child `c` (in the slot of its position) with the stored parent waker; the readiness set is untouched -/
theorem mad_pollChild_tie (N : Nat) (r : ReadinessArray) (env : World) (c p : Nat) (hp : r.roleParent = some p) :
    ∃ env', Rs.pollChild mad_wake r env c (.par p) = some (r, env', env.resOf c) ∧
      absA r env' = (absA r env).pollChild c c ∧ (HandedIn N env → HandedIn N env') ∧
      env'.scripts = upd env.scripts c (env.scripts c).tail ∧ SameFlags env env' := by
  obtain ⟨env', e1, a1, f1⟩ := mad_fires_tie (env.stepOf c).fires r
      { env with
        scripts := upd env.scripts c (env.scripts c).tail,
        handed := upd env.handed c (Wk.par p :: env.handed c),
        trace := .childBegin c c (.par p) :: env.trace }
  refine ⟨env'.emit (.childEnd c (env.resOf c)), ?_, ?_, ?_, ?_, f1⟩
  · simp only [Rs.pollChild, Rs.slotOf, e1]
  · rw [mad_abs_emitM, a1]
    simp only [World.pollChild, mad_abs_wakerFor r env c p hp]
    rfl
  · intro hh
    have := congrArg World.handed a1
    simp at this
    intro c' j; simp only [World.emit_handed]; rw [this]
    intro hm
    by_cases hc : c' = c
    · subst hc
      simp at hm
      exact hh _ _ hm
    · simp [upd, hc] at hm
      exact hh _ _ hm
  · have := congrArg World.scripts a1
    simp at this
    simp only [World.emit_scripts]; rw [this]

end TieMergeAD
end Fc
