/-
  FcLemmas/KTieLoopCore.lean — the loop rule shared by the tie proofs: a `Rs.forCtl` loop whose iterations are `Eng.visit`s
  of the model's scan (`TieLoop.forCtl_scan`), and `bind_spec`.  Imports nothing generated, so that the families that use it
  do not depend on each other's source (or on the Indexer's).
-/
import Fc.Engine
import Fc.Families
import Fc.RustPrims

set_option linter.unusedSimpArgs false
set_option linter.unusedVariables false

namespace Fc
open Rs

namespace TieLoop

theorem bind_spec {α γ : Type} (x : Option α) (k : α → Option γ) (R : α → Prop) (Q : γ → Prop)
    (hx : ∃ a, x = some a ∧ R a) (hk : ∀ a, R a → ∃ y, k a = some y ∧ Q y) :
    ∃ y, x.bind k = some y ∧ Q y := by
  obtain ⟨a, ha, hR⟩ := hx
  subst ha
  exact hk a hR

/-! ### the loop -/

/-- what the loop establishes: it ran through (`none`) and the model's scan did too, with the loop invariant;
    or an iteration returned `v` and the model's scan left with `out v`, with the exit relation -/
def LoopPost {σ β : Type} (P : Policy Fix) (out : β → Outcome) (Inv : σ → Eng Fix → Prop)
    (Fin : β → σ → Eng Fix → Prop) (l : List Nat) (e : Eng Fix) (a : σ × Option β) : Prop :=
  (a.2 = none ∧ (Eng.scan P l e).2 = none ∧ Inv a.1 (Eng.scan P l e).1) ∨
  (∃ v, a.2 = some v ∧ (Eng.scan P l e).2 = some (out v) ∧ Fin v a.1 (Eng.scan P l e).1)

/-- one iteration refines one `visit` -/
def StepOk {σ β : Type} (P : Policy Fix) (out : β → Outcome) (Inv : σ → Eng Fix → Prop)
    (Fin : β → σ → Eng Fix → Prop) (M : Nat → Prop) (f : σ → Nat → Option (σ × Ctl β)) : Prop :=
  ∀ s e i, M i → Inv s e → ∃ s' c, f s i = some (s', c) ∧
    ((c = .next ∧ (Eng.visit P e i).2 = none ∧ Inv s' (Eng.visit P e i).1) ∨
     (∃ v, c = .ret v ∧ (Eng.visit P e i).2 = some (out v) ∧ Fin v s' (Eng.visit P e i).1))

theorem forCtl_scan {σ β : Type} (P : Policy Fix) (out : β → Outcome) (Inv : σ → Eng Fix → Prop)
    (Fin : β → σ → Eng Fix → Prop) (M : Nat → Prop) (f : σ → Nat → Option (σ × Ctl β))
    (hstep : StepOk P out Inv Fin M f) (l : List Nat) (hl : ∀ i ∈ l, M i) (s : σ) (e : Eng Fix) (h : Inv s e) :
    ∃ a, Rs.forCtl l s f = some a ∧ LoopPost P out Inv Fin l e a := by
  induction l generalizing s e with
  | nil => exact ⟨(s, none), rfl, Or.inl ⟨rfl, rfl, h⟩⟩
  | cons i rest ih =>
    obtain ⟨s', c, hf, hc⟩ := hstep s e i (hl i List.mem_cons_self) h
    rcases hc with ⟨hc, hv, hinv⟩ | ⟨v, hc, hv, hfin⟩
    · subst hc
      obtain ⟨a, ha, hpost⟩ := ih (fun j hj => hl j (List.mem_cons_of_mem _ hj)) s' _ hinv
      refine ⟨a, ?_, ?_⟩
      · simp only [Rs.forCtl, hf]; exact ha
      · unfold LoopPost at hpost ⊢
        simp only [Eng.scan, hv]
        exact hpost
    · subst hc
      refine ⟨(s', some v), ?_, Or.inr ⟨v, rfl, ?_, ?_⟩⟩
      · simp only [Rs.forCtl, hf]
      · simp only [Eng.scan, hv]
      · simp only [Eng.scan, hv]; exact hfin

end TieLoop

end Fc
