/-
  FcLemmas/KTieMergeVDMain.lean — Vec merge, no_std / alloc-only flavour: the translated `Merge::poll_next`
  (FcGen/KSrcFamD.lean) refines `Eng.poll merge` in `direct` mode.  Same structure as FcLemmas/KTieMergeMain.lean
  (the std flavour); the model side (`TieMergeV.visit_*`, `poll_unfold`, `close_*`), the index list
  (`TieIdx.iter_collect`) and the loop rule (`TieLoop.forCtl_scan`) are those of the std / generic proofs.
  The loop body is taken from the generated definition by unification; the proofs use the role abbreviations only.
-/
import FcProps.KTieMergeDir
import FcLemmas.KTieMergeVDEnv
import FcLemmas.KTieMergeModel
import FcLemmas.KTieMergeMain
import FcLemmas.KTieFamLoop
import FcLemmas.KTieSteps

set_option linter.unusedSimpArgs false
set_option linter.unusedVariables false

namespace Fc
open Rs Src

namespace TieMergeVD
open MergeVD

local macro "unroles" : tactic =>
  `(tactic| try simp only [Merge.roleKids, Merge.roleIndexer, Merge.roleCount, Merge.roleWakers, Merge.roleStates,
      Merge.roleDone] at *)

/-- every sub-waker that was handed to a child belongs to one of the `n` slots (never used by this flavour: the
    hypothesis of the statement is carried along only so that the next poll finds it again) -/
def HandedInD (n : Nat) (w : World) : Prop := ∀ c i, Wk.sub i ∈ w.handed c → i < n

/-- the translated combinator `g` with the environment `env` is read as the model state `e` -/
structure Rel (n : Nat) (bw : World) (e : Eng Fix) (g : Merge) (env : World) : Prop where
  ew : e.w = TieDir.absV g.roleWakers.readiness env
  en : e.s.n = n
  kids : g.roleKids.len = n
  st : e.s.st = fun i => TiePS.abs (g.roleStates.get i)
  cnt : e.s.cnt = g.roleCount
  off : e.s.off = g.roleIndexer.roleOffset
  sl : g.roleStates.len = n
  mx : g.roleIndexer.roleMax = n
  par : g.roleWakers.readiness.roleParent ≠ none
  fr : SameRd bw env
  hin : HandedInD n bw → HandedInD n env
  sok : StreamStepsF env

/-- re-establishing `Rel` after a step that leaves the children, the indexer and the table sizes alone -/
theorem Rel.update {n : Nat} {bw : World} {e : Eng Fix} {g : Merge} {env : World} (hR : Rel n bw e g env)
    (e' : Eng Fix) (g' : Merge) (env' : World)
    (hw : e'.w = TieDir.absV g'.roleWakers.readiness env')
    (hn : e'.s.n = e.s.n) (hk : g'.roleKids = g.roleKids)
    (hst : e'.s.st = fun i => TiePS.abs (g'.roleStates.get i))
    (hcnt : e'.s.cnt = g'.roleCount)
    (hoff : e'.s.off = e.s.off) (hix : g'.roleIndexer = g.roleIndexer)
    (hsl : g'.roleStates.len = g.roleStates.len)
    (hpar : g'.roleWakers.readiness.roleParent ≠ none)
    (hfr : SameRd env env') (hin : HandedInD n env → HandedInD n env') (hsok : StreamStepsF env') : Rel n bw e' g' env' where
  ew := hw
  en := by rw [hn, hR.en]
  kids := by rw [hk, hR.kids]
  st := hst
  cnt := hcnt
  off := by rw [hoff, hR.off, hix]
  sl := by rw [hsl, hR.sl]
  mx := by rw [hix, hR.mx]
  par := hpar
  fr := hR.fr.trans hfr
  hin := fun h => hin (hR.hin h)
  sok := hsok

/-- what `Rel` at the end of the scan says about the model state after the closing `pollEnd` -/
theorem post_of_rel {n : Nat} {X : Eng Fix} {g' : Merge} {env' : World} (b : Eng Fix) (hR : Rel n b.w X g' env')
    (o : Outcome) :
    fcore (absM g' b) = fcore (X.emit (.pollEnd o)) ∧ env'.scripts = (X.emit (.pollEnd o)).w.scripts ∧
      env'.handed = (X.emit (.pollEnd o)).w.handed ∧ (X.emit (.pollEnd o)).w.trace = .pollEnd o :: env'.trace := by
  obtain ⟨hw, hen, hk, hst, hcnt, hoff, hsl, hmx, hpar, ⟨hf1, hf2, hf3⟩, hhin, hsok⟩ := hR
  refine ⟨?_, ?_, ?_, ?_⟩
  · simp only [fcore, absM, Eng.emit, World.emit, hw, hen, hk, hst, hcnt, hoff, TieDir.absV, hf1, hf2, hf3]
  · simp only [Eng.emit, World.emit, hw]; rfl
  · simp only [Eng.emit, World.emit, hw]; rfl
  · simp only [Eng.emit, World.emit, hw]; rfl

abbrev Body := Merge × World → Nat → Option ((Merge × World) × Rs.Ctl (Rs.Poll (Option Nat)))

/-- the loop invariant / exit relation handed to `TieLoop.forCtl_scan` -/
def Inv (n : Nat) (bw : World) (s : Merge × World) (e : Eng Fix) : Prop := Rel n bw e s.1 s.2 ∧ s.1.roleCount < n
def Fin (n : Nat) (bw : World) (v : Rs.Poll (Option Nat)) (s : Merge × World) (e : Eng Fix) : Prop :=
  Rel n bw e s.1 s.2 ∧ (v ≠ .ready none → s.1.roleCount < n)

open TieLoop in
/-- the loop followed by the code after it (`K`): it is enough to run `K` on what `Eng.scan merge` describes -/
theorem loop_bind (n : Nat) (bw : World) (F : Body)
    (hF : StepOk merge outcomeOfStream (Inv n bw) (Fin n bw) (fun i => i < n) F)
    (l : List Nat) (e : Eng Fix) (g : Merge) (env : World)
    (hR : Rel n bw e g env) (hc : g.roleCount < n) (hl : ∀ i ∈ l, i < n)
    (K : (Merge × World) × Option (Rs.Poll (Option Nat)) → Option (Merge × World × Rs.Poll (Option Nat)))
    (Ψ : Merge → World → Rs.Poll (Option Nat) → Prop)
    (hK : ∀ g' env' r, Rel n bw (Eng.scan merge l e).1 g' env' →
      ((r = none ∧ (Eng.scan merge l e).2 = none ∧ g'.roleCount < n) ∨
       (∃ v, r = some v ∧ (Eng.scan merge l e).2 = some (outcomeOfStream v) ∧
          (v ≠ .ready none → g'.roleCount < n))) →
      ∃ a b c, K ((g', env'), r) = some (a, b, c) ∧ Ψ a b c) :
    ∃ a b c, (Rs.forCtl l (g, env) F).bind K = some (a, b, c) ∧ Ψ a b c := by
  obtain ⟨⟨⟨g', env'⟩, r⟩, h1, hpost⟩ :=
    forCtl_scan merge outcomeOfStream (Inv n bw) (Fin n bw) (fun i => i < n) F hF l hl (g, env) e ⟨hR, hc⟩
  rw [h1, Option.bind_some]
  rcases hpost with ⟨h2, h3, h4, h5⟩ | ⟨v, h2, h3, h4, h5⟩
  · exact hK g' env' r h4 (Or.inl ⟨h2, h3, h5⟩)
  · exact hK g' env' r h4 (Or.inr ⟨v, h2, h3, h5⟩)

/-- the refinement, together with the facts about the environment that the next poll needs again -/
theorem poll_tie_core (g : Merge) (b : Eng Fix) (w : Nat) (hW : WfM g) (hS : StreamStepsF b.w)
    (hd : b.s.dead = false) :
    ∃ g' env' ret,
      Merge.poll_next g w ((absM g b).w.emit (.pollBegin w)) = some (g', env', ret) ∧
      (ret ≠ .ready none ∨ g.roleKids.len = 0 → WfM g') ∧
      (fcore (absM g' b) = fcore (Eng.poll merge (absM g b) w) ∧
       env'.scripts = (Eng.poll merge (absM g b) w).w.scripts ∧
       env'.handed = (Eng.poll merge (absM g b) w).w.handed ∧
       (Eng.poll merge (absM g b) w).w.trace = .pollEnd (outcomeOfStream ret) :: env'.trace) ∧
      g'.roleKids.len = g.roleKids.len ∧ (HandedInD g.roleKids.len b.w → HandedInD g.roleKids.len env') ∧
      StreamStepsF env' := by
  by_cases hn : g.roleKids.len = 0
  · -- no children: the early return
    refine ⟨g, (absM g b).w.emit (.pollBegin w), .ready none, ?_, fun _ => hW, ?_, rfl,
      fun h c i hm => h c i hm, hS⟩
    · unfold Merge.poll_next
      unroles
      simp [hn]
    · have hp : Eng.poll merge (absM g b) w = ((absM g b).emit (.pollBegin w)).emit (.pollEnd .none) := by
        simp [Eng.poll, merge, absM, hn]
      rw [hp]
      exact ⟨rfl, rfl, rfl, rfl⟩
  · suffices h : ∃ g' env' ret, Merge.poll_next g w ((absM g b).w.emit (.pollBegin w)) = some (g', env', ret) ∧
        ∃ X, Rel g.roleKids.len b.w X g' env' ∧ (ret ≠ .ready none → g'.roleCount < g.roleKids.len) ∧
          Eng.poll merge (absM g b) w = X.emit (.pollEnd (outcomeOfStream ret)) by
      obtain ⟨g', env', ret, h1, X, hR, hc, hp⟩ := h
      refine ⟨g', env', ret, h1, ?_, ?_, hR.kids, hR.hin, hR.sok⟩
      · intro hh
        rcases hh with hh | hh
        · exact ⟨by rw [hR.kids]; exact hR.sl, by rw [hR.kids]; exact hR.mx,
            Or.inl (by rw [hR.kids]; exact hc hh)⟩
        · exact absurd hh hn
      · rw [hp]; exact post_of_rel b hR _
    have hpoll := TieMergeV.poll_unfold (absM g b) w hn hd
    obtain ⟨hsl, hmx, hcn⟩ := hW
    have hcn' : g.roleCount < g.roleKids.len := by omega
    obtain ⟨r1, hs1, hs3⟩ := (TieDir.vec_tie g.roleWakers.readiness
      ((absM g b).w.emit (.pollBegin w)) 0 w 0).2.2.2.2.2.2.2.2.1
    have hparent : r1.roleParent ≠ none := by
      have := congrArg World.parent hs3
      simp [TieDir.absV] at this
      rw [this]; simp
    have hfuel : g.roleIndexer.roleMax ≤ Idx.Indexer.fuel g.roleIndexer := by
      unfold Idx.Indexer.fuel
      simp only [Idx.Indexer.roleMax]
      omega
    obtain ⟨ix, it, hi1, hi2, hi3, hi4⟩ := TieIdx.iter_collect g.roleIndexer (Idx.Indexer.fuel g.roleIndexer)
      (by omega) hfuel
    rw [hmx] at hi2 hi3 hi4
    have hl : ∀ i ∈ (List.range g.roleKids.len).map (fun k => (k + g.roleIndexer.roleOffset) % g.roleKids.len),
        i < g.roleKids.len := by
      intro i hi
      simp only [List.mem_map] at hi
      obtain ⟨k, _, rfl⟩ := hi
      exact Nat.mod_lt _ (by omega)
    unfold Merge.poll_next
    unroles
    simp only [hs1, hi1, hi4, beq_iff_eq, hn, Option.bind_eq_bind, Option.bind_some, Option.pure_def, ↓reduceIte]
    refine loop_bind g.roleKids.len b.w _ ?hF _
      { w := ((absM g b).w.emit (.pollBegin w)).setWaker w, s := (absM g b).s.bump } _ _ ?hR ?hc hl _ _ ?hK
    case hF =>
      clear hs1 hs3 hi1 hi2 hi3 hi4 hsl hmx hcn hcn' hS hd hpoll hl hparent hfuel
      generalize g.roleKids.len = n at *
      clear hn g
      intro ⟨g, env⟩ e i hi ⟨hR, hc⟩
      dsimp only at hR hc ⊢
      have hR0 := hR
      obtain ⟨hw, hen, hk, hst, hcnt, hoff, hsl, hmx, hpar, hfr, hhin, hsok⟩ := hR
      obtain ⟨-, hc1, -, hr1, -, -, -, ha, -, hpw, -⟩ := TieDir.vec_tie g.roleWakers.readiness env i 0 0
      obtain ⟨p, hp⟩ := Option.ne_none_iff_exists'.mp hpar
      have hwd : e.w = dw (some p) env := by rw [hw, absV_eq, hp]
      have hidx : Rs.PVec.idx g.roleStates i = some (g.roleStates.get i) := by
        simp [Rs.PVec.idx, hsl, hi]
      have hisn := (TiePS.tie (g.roleStates.get i)).1
      have hkid : Rs.Kids.get g.roleKids i = some i := by simp [Rs.Kids.get, hk, hi]
      have hget : WakerVecD.get g.roleWakers i = some (.par p) := by
        simp only [WakerVecD.get, hpw, absV_eq, hp, dw_parent, Option.bind_eq_bind, Option.bind_some, Option.map_some]
      obtain ⟨env3, hp1, hp4, hp6, hfr3, hin3⟩ := pollChild_tieD g.roleWakers.readiness p env i
      have hsok3 := hsok.tail i hp6
      have hany' : e.w.anyReady = true := by rw [hwd]; rfl
      have hset' : e.w.isSet i = true := by rw [hwd]; rfl
      have hclr : e.w.clearReady i = e.w := by rw [hwd]; rfl
      have hw3 : (e.w.clearReady i).pollChild i i = TieDir.absV g.roleWakers.readiness env3 := by
        rw [hclr, hwd, ← hp4, absV_eq, hp]
      have hw4 : ((e.w.clearReady i).pollChild i i).setReady i = TieDir.absV g.roleWakers.readiness env3 := by
        rw [hw3]; rfl
      rw [absV_eq] at ha hc1
      rw [dw_anyReady] at ha
      rw [dw_isSet] at hc1
      by_cases hsn : TiePS.abs (g.roleStates.get i) = .none
      · -- the slot's stream has ended
        have hv := TieMergeV.visit_skip e i hany' (Or.inr (by rw [hst]; exact hsn))
        unroles
        simp only [ha, hc1, hidx, hisn, hsn, decide_true, Option.bind_some, Bool.not_false, Bool.not_true,
          Bool.false_eq_true, ↓reduceIte]
        refine ⟨_, _, rfl, Or.inl ⟨rfl, ?_, ?_, ?_⟩⟩
        · rw [hv]
        · rw [hv]
          refine hR0.update _ _ _ ?_ rfl rfl hst hcnt rfl rfl rfl hpar (SameRd.refl _) id hsok
          unroles
          rw [hclr, hw]
        · exact hc
      · -- the child is polled
        have hsn' : e.s.st i ≠ .none := by rw [hst]; exact hsn
        have hres' : e.w.resOf i = env.resOf i := by rw [hw]; rfl
        unroles
        simp only [ha, hc1, hidx, hisn, hsn, decide_false, Option.bind_some, Bool.not_false, Bool.not_true,
          Bool.false_eq_true, ↓reduceIte, hget, hkid, Rs.expect, Rs.pollStream, hp1]
        rcases hsok.resOf i with hres | hres | ⟨v, hres⟩
        · -- Pending
          have hv := TieMergeV.visit_pend e i hany' hset' hsn' (by rw [hres', hres])
          simp only [hres, Option.bind_some]
          refine ⟨_, _, rfl, Or.inl ⟨rfl, ?_, ?_, ?_⟩⟩
          · rw [hv]
          · rw [hv]
            exact hR0.update _ _ _ hw3 rfl rfl hst hcnt rfl rfl rfl hpar hfr3 (hin3 n) hsok3
          · exact hc
        · -- the stream ended
          obtain ⟨q, hq1, hq2⟩ := (TiePS.tie (g.roleStates.get i)).2.2.2.1
          have hset2 : Rs.PVec.set g.roleStates i q
              = some ⟨g.roleStates.len, fun j => if j = i then q else g.roleStates.get j⟩ := by
            simp [Rs.PVec.set, hsl, hi]
          unroles
          simp only [hres, Option.bind_some, Rs.uadd, hq1, hset2]
          by_cases hlast : g.roleCount + 1 = g.roleKids.len <;> unroles
          · have hv := TieMergeV.visit_fin_last e i hany' hset' hsn' (by rw [hres', hres])
              (by rw [hcnt, hen, ← hk]; exact hlast)
            simp only [hlast, ↓reduceIte]
            refine ⟨_, _, rfl, Or.inr ⟨_, rfl, ?_, ?_, ?_⟩⟩
            · rw [hv]; rfl
            · rw [hv]
              refine hR0.update _ _ _ hw3 rfl rfl ?_ ?_ rfl rfl rfl hpar hfr3 (hin3 n) hsok3
              · unroles
                funext j
                by_cases hj : j = i <;> simp [upd, hj, hq2, hst]
              · unroles
                simp only [hcnt]
                exact hlast
            · intro hne; exact absurd rfl hne
          · have hv := TieMergeV.visit_fin_more e i hany' hset' hsn' (by rw [hres', hres])
              (by rw [hcnt, hen, ← hk]; exact hlast)
            simp only [hlast, ↓reduceIte]
            refine ⟨_, _, rfl, Or.inl ⟨rfl, ?_, ?_, ?_⟩⟩
            · rw [hv]
            · rw [hv]
              refine hR0.update _ _ _ hw3 rfl rfl ?_ ?_ rfl rfl rfl hpar hfr3 (hin3 n) hsok3
              · unroles
                funext j
                by_cases hj : j = i <;> simp [upd, hj, hq2, hst]
              · unroles
                simp only [hcnt]
            · unroles; omega
        · -- an item
          have hv := TieMergeV.visit_item e i v hany' hset' hsn' (by rw [hres', hres])
          simp only [hres, Option.bind_some, hr1]
          refine ⟨_, _, rfl, Or.inr ⟨_, rfl, ?_, ?_, ?_⟩⟩
          · rw [hv]; rfl
          · rw [hv]
            exact hR0.update _ _ _ hw4 rfl rfl hst hcnt rfl rfl rfl hpar hfr3 (hin3 n) hsok3
          · intro _; exact hc
    case hc => exact hcn'
    case hR =>
      refine ⟨?_, rfl, rfl, rfl, rfl, ?_, hsl, hi2, hparent, ⟨rfl, rfl, rfl⟩, ?_, hS⟩
      · unroles
        rw [hs3]; rfl
      · unroles
        simp only [Fix.bump, absM, hi3]
      · intro h c i hm; exact h c i hm
    case hK =>
      intro g' env' r hR' hcase
      rcases hcase with ⟨rfl, hx, hc'⟩ | ⟨v, rfl, hx, hc'⟩
      · refine ⟨_, _, _, rfl, _, hR', fun _ => hc', ?_⟩
        rw [hpoll]
        exact TieMergeV.close_none _ hx
      · refine ⟨_, _, _, rfl, _, hR', hc', ?_⟩
        rw [hpoll]
        exact TieMergeV.close_some _ _ hx

end TieMergeVD
end Fc
