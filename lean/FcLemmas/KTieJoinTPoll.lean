/-
  FcLemmas/KTieJoinTPoll.lean — tuple join (`(A, B, …).join()`): the translated `Join::poll` (FcGen/KSrcTup1.lean) refines
  `Eng.poll joinTuple`.  Unlike the array / Vec join the loop is a `Rs.forCtl` that can be left by `return`: an iteration
  is one `Eng.visit joinTuple` (`any_ready` tested first — `Pending` from inside the loop; the flag of the slot cleared
  before the state is looked at; the poll of the LAST outstanding child moves the outputs out and returns them), the loop
  is `Eng.scan joinTuple` by the shared loop rule `TieLoop.forCtl_scan` (FcLemmas/KTieLoopCore.lean), and the code after the
  loop is `Eng.close joinTuple`.  The loop body is taken from the generated definition by unification, the proofs use the
  role abbreviations only (`unroles`) and let `simp` compute through the translated code.
-/
import FcLemmas.KTieJoinTDefs
set_option linter.unusedSimpArgs false
set_option linter.unusedVariables false
namespace Fc
open Rs Src
namespace TieJoinT
open JoinT
open TieJoinV (doneAgree)

local macro "unroles" : tactic =>
  `(tactic| try simp only [Join.roleKids, Join.roleCount, Join.roleWakers, Join.roleStates, Join.roleItems] at *)

/-- what is shown of a call that returned `a = (g', env', ret)` -/
def PostT (N : Nat) (g : Join) (b : Eng Fix) (w : Nat) (a : Join × World × Rs.Poll (List Nat)) : Prop :=
  ∃ X : Eng Fix, Eng.poll joinTuple (absJ N g b) w = X.emit (.pollEnd (outcomeOfJoin a.2.2)) ∧
    X.w = TieArr.abs a.1.roleWakers.readiness a.2.1 ∧
    (a.2.2 = .pending → RelT N b.s.off X a.1 a.2.1) ∧
    (a.2.2 ≠ .pending → DoneT N b X a.1 a.2.1)

/-- the call does not panic; the loop is the model's scan, the code after it the model's `close` -/
theorem poll_coreT (N : Nat) (g : Join) (b : Eng Fix) (w : Nat) (hW : WfJ N g) (hS : FutStepsF b.w)
    (hH : HandedIn N b.w) (hlt : g.roleCount < N) :
    ∃ a, Join.poll N g w ((absJ N g b).w.emit (.pollBegin w)) = some a ∧ PostT N g b w a := by
  obtain ⟨hpos, hkn, hrd, hsl, hic, hpc, hrs⟩ := hW
  obtain ⟨r1, hs1, hs2, hs3⟩ := TieArr.set_waker_tie N g.roleWakers.readiness
    ((absJ N g b).w.emit (.pollBegin w)) w hrd
  have hparent : r1.roleParent ≠ none := by
    have := congrArg World.parent hs3
    simp at this
    rw [this]; simp
  have hdead : (absJ N g b).s.dead = false := by
    simp only [absJ, decide_eq_false_iff_not]; omega
  have hw1 : TieArr.abs r1 ((absJ N g b).w.emit (.pollBegin w)) = ((absJ N g b).w.emit (.pollBegin w)).setWaker w := by
    rw [hs3]; rfl
  have hl : ∀ i ∈ List.range N, i < N := fun i hi => List.mem_range.mp hi
  have hne : (N == g.roleCount) = false := by
    rw [beq_eq_false_iff_ne]; omega
  have hpoll : Eng.poll joinTuple (absJ N g b) w
      = Eng.close joinTuple (Eng.scan joinTuple (List.range N)
          { w := ((absJ N g b).w.emit (.pollBegin w)).setWaker w, s := (absJ N g b).s }) := by
    have := poll_loopT (absJ N g b) w (by simp only [absJ]; omega) hdead
    rw [this]
    simp only [absJ, hkn]
  unfold Join.poll
  unroles
  simp only [hne, hs1, Bool.not_false, ↓reduceIte, Option.bind_eq_bind, Option.bind_some, Option.pure_def]
  refine TieLoop.bind_spec _ _
    (TieLoop.LoopPost joinTuple outcomeOfJoin (fun (s : Join × World) e => RelT N b.s.off e s.1 s.2)
      (fun v (s : Join × World) e => (v = .pending → RelT N b.s.off e s.1 s.2) ∧ (v ≠ .pending → DoneT N b e s.1 s.2))
      (List.range N) { w := ((absJ N g b).w.emit (.pollBegin w)).setWaker w, s := (absJ N g b).s }) _
    (TieLoop.forCtl_scan joinTuple outcomeOfJoin _ _ (fun i => i < N) _ ?hF (List.range N) hl _ _ ?hR) ?hK
  case hR =>
    exact ⟨hw1.symm, hkn, hkn, rfl, rfl, rfl, rfl, hdead, hlt, hs2, hsl, hic, hpc, hrs, hparent,
      fun c i hm => hH c i hm, hS⟩
  case hK =>
    rintro ⟨⟨g', env'⟩, r⟩ hpost
    rcases hpost with ⟨hr, hx, hR'⟩ | ⟨v, hr, hx, hpe, hdn⟩
    · dsimp only at hr hR' ⊢
      subst hr
      refine ⟨_, rfl, _, ?_, hR'.ew, fun _ => hR', fun h => absurd rfl h⟩
      rw [hpoll, close_pendT _ hx]
      rfl
    · dsimp only at hr hpe hdn ⊢
      subst hr
      refine ⟨_, rfl, _, ?_, ?_, hpe, hdn⟩
      · rw [hpoll, close_retT _ _ hx]
      · by_cases hv : v = .pending
        · exact (hpe hv).ew
        · exact (hdn hv).ew
  case hF =>
    clear hs1 hs2 hs3 hkn hrd hsl hic hpc hrs hH hS hlt hpoll hl hparent hdead hw1 hne
    clear g
    rintro ⟨g, env⟩ e i hi hR
    dsimp only at hi hR ⊢
    have hR0 := hR
    obtain ⟨hw, hen, hk, hst, hout, hcnt, hoff, hdead, hlt, hrd, hsl, hic, hpc, hrs, hpar, hhin, hsok⟩ := hR
    have hany := TieArr.any_ready_tie N g.roleWakers.readiness env
    obtain ⟨r2, hc1, hc2, hc3⟩ := TieArr.clear_ready_tie N g.roleWakers.readiness env i hrd hi
    have hpar2 : r2.roleParent ≠ none := by
      have := congrArg World.parent hc3
      simp at this
      rw [this]; exact hpar
    have hidx : Rs.PVec.idx g.roleStates i = some (g.roleStates.get i) := by
      simp [Rs.PVec.idx, hsl, hi]
    have hisr := (TiePS.tie (g.roleStates.get i)).2.2.1
    have hkid : Rs.Kids.get g.roleKids i = some i := by simp [Rs.Kids.get, hk, hi]
    obtain ⟨r3, env3, hp1, hp2, hp3, hp4, hp5, hp6⟩ := Env.pollChild_tieM N r2 env i i hc2 hpar2 hhin hi
    have hsok3 : FutStepsF env3 := hsok.tailJ i hp6
    try simp only [Env.wakeA] at hp1
    cases ha : (TieArr.abs g.roleWakers.readiness env).anyReady
    · -- nothing is ready: `Pending` from inside the loop
      have hv := visit_idleT e i (by rw [hw]; exact ha)
      rw [ha] at hany
      unroles
      simp only [hany, Option.bind_some, Bool.not_false, ↓reduceIte]
      refine ⟨_, _, rfl, Or.inr ⟨.pending, rfl, ?_, ?_, fun h => absurd rfl h⟩⟩
      · rw [hv]; rfl
      · intro _; rw [hv]; exact hR0
    · have ha' : e.w.anyReady = true := by rw [hw]; exact ha
      rw [ha] at hany
      cases hset : (TieArr.abs g.roleWakers.readiness env).isSet i
      · -- the flag of the slot is clear
        have hv := visit_skipT e i ha' (Or.inl (by rw [hw]; exact hset))
        rw [hset] at hc1
        unroles
        simp only [hany, hc1, Option.bind_some, Bool.not_true, Bool.not_false, Bool.false_eq_true, ↓reduceIte]
        refine ⟨_, _, rfl, Or.inl ⟨rfl, ?_, ?_⟩⟩
        · rw [hv]
        · rw [hv]
          refine ⟨?_, hen, hk, hst, hout, hcnt, hoff, hdead, hlt, hc2, hsl, hic, hpc, hrs, hpar2, hhin, hsok⟩
          unroles
          rw [hc3, hw]
      · have hset' : e.w.isSet i = true := by rw [hw]; exact hset
        have hres' : e.w.resOf i = env.resOf i := by rw [hw]; rfl
        rw [hset] at hc1
        by_cases hsp : TiePS.abs (g.roleStates.get i) = .ready
        · -- the slot's child has completed already: the stale flag is cleared
          have hv := visit_skipT e i ha' (Or.inr (by rw [hst]; exact hsp))
          unroles
          simp only [hany, hc1, hidx, hisr, hsp, decide_true, Option.bind_some, Bool.not_true, Bool.false_eq_true,
            ↓reduceIte]
          refine ⟨_, _, rfl, Or.inl ⟨rfl, ?_, ?_⟩⟩
          · rw [hv]
          · rw [hv]
            refine ⟨?_, hen, hk, hst, hout, hcnt, hoff, hdead, hlt, hc2, hsl, hic, hpc, hrs, hpar2, hhin, hsok⟩
            unroles
            rw [hc3, hw]
        · have hsp' : e.s.st i ≠ .ready := by rw [hst]; exact hsp
          have hgp : g.roleStates.get i ≠ PS.PollState.ready := fun h => hsp ((TiePS.abs_readyJ _).mpr h)
          have hne : (N == g.roleCount) = false := by rw [beq_eq_false_iff_ne]; omega
          unroles
          simp only [hany, hc1, hidx, hisr, hsp, decide_false, Option.bind_some, Bool.not_true, Bool.false_eq_true,
            ↓reduceIte, WakerArray.get, hi, Rs.expect, hkid, decide_true, Rs.pollFut, hp1]
          rcases hsok.resOfJ i with hres | ⟨ok, v, hres⟩
          · -- Pending
            have hv := visit_pendT e i ha' hsp' hset' (by rw [hres', hres])
            simp only [hres, Option.bind_some, hne, Bool.false_eq_true, ↓reduceIte]
            refine ⟨_, _, rfl, Or.inl ⟨rfl, ?_, ?_⟩⟩
            · rw [hv]
            · rw [hv]
              refine ⟨?_, hen, hk, hst, hout, hcnt, hoff, hdead, hlt, hp2, hsl, hic, hpc, hrs, hp3, hp5, hsok3⟩
              unroles
              rw [hp4, hc3, hw]
          · -- Ready: the output is stored, the counter incremented, the state set, the child released
            obtain ⟨q, hq1, hq2⟩ := (TiePS.tie (g.roleStates.get i)).2.2.2.2.2
            have hqr : q = PS.PollState.ready := (TiePS.abs_readyJ _).mp hq2
            have hwrite : Rs.OutVec.write g.roleItems i v
                = some ⟨g.roleItems.cap, fun j => if j = i then some v else g.roleItems.get j⟩ := by
              simp [Rs.OutVec.write, hic, hi]
            have hset2 : Rs.PVec.set g.roleStates i q
                = some ⟨g.roleStates.len, fun j => if j = i then q else g.roleStates.get j⟩ := by
              simp [Rs.PVec.set, hsl, hi]
            have hflip := filter_flip_lengthJ
              (fun j => decide ((if j = i then q else g.roleStates.get j) = PS.PollState.ready))
              (fun j => decide (g.roleStates.get j = PS.PollState.ready)) i
              (List.range N) List.nodup_range (List.mem_range.mpr hi) (by simp [hqr]) (by simp [hgp])
              (fun j hj => by simp [hj])
            unroles
            simp only [hres, Option.bind_some, hwrite, hidx, hq1, hset2, Rs.uadd]
            by_cases hlast : g.roleCount + 1 = N
            · -- the LAST child: the outputs are moved out, the poll returns from inside the loop
              have hv := visit_lastT e i ok v ha' hsp' hset' (by rw [hres', hres]) (by rw [hcnt, hen]; exact hlast)
              have hall : ∀ j, j < N → ∃ x, (if j = i then some v else g.roleItems.get j) = some x := by
                intro j hj
                by_cases hji : j = i
                · exact ⟨v, by simp [hji]⟩
                · have hlen : ((List.range N).filter (fun j =>
                      decide ((if j = i then q else g.roleStates.get j) = PS.PollState.ready))).length
                      = (List.range N).length := by
                    unroles
                    rw [List.length_range]; omega
                  have := List.length_filter_eq_length_iff.mp hlen j (List.mem_range.mpr hj)
                  simp only [hji, if_false, decide_eq_true_eq] at this ⊢
                  rcases hrs j hj with h | h
                  · unroles
                    rw [h] at this; cases this
                  · exact h.2
              have htake := take_allJ ⟨g.roleItems.cap, fun j => if j = i then some v else g.roleItems.get j⟩
                (fun j hj => hall j (by rw [← hic]; exact hj))
              have heq2 : (N == g.roleCount + 1) = true := by rw [beq_iff_eq]; omega
              unroles
              simp only [heq2, ↓reduceIte, htake, Option.bind_some]
              refine ⟨_, _, rfl, Or.inr ⟨_, rfl, ?_, (fun h => by cases h), fun _ => ?_⟩⟩
              · rw [hv]
                simp only [outcomeOfJoin, hen, hic, hout, upd]
              · rw [hv]
                refine ⟨?_, ⟨?_, ?_, ?_, rfl, ?_⟩, hk, ?_, hp5, hsok3⟩
                · unroles
                  rw [Env.abs_emitM, hp4, hc3, hw]
                · have hW3 : (((TieArr.abs g.roleWakers.readiness env).clearReady i).pollChild i i).emit
                      (.childDropped i) = TieArr.abs r3 (env3.emit (.childDropped i)) := by
                    rw [Env.abs_emitM, hp4, hc3]
                  simp only [fcore, absJ, hen, hcnt, hoff, hw, hW3]
                  unroles
                  simp only [hk]
                  rfl
                · intro j _
                  simp only [absJ]
                  unroles
                  rfl
                · simp only [absJ]
                  unroles
                  simp only [decide_eq_true_eq]
                  omega
                · intro j
                  simp only [absJ]
                · unroles
                  omega
            · have hv := visit_readyT e i ok v ha' hsp' hset' (by rw [hres', hres]) (by rw [hcnt, hen]; exact hlast)
              have hne2 : (N == g.roleCount + 1) = false := by rw [beq_eq_false_iff_ne]; omega
              unroles
              simp only [hne2, Bool.false_eq_true, ↓reduceIte]
              refine ⟨_, _, rfl, Or.inl ⟨rfl, ?_, ?_⟩⟩
              · rw [hv]
              · rw [hv]
                refine ⟨?_, hen, hk, ?_, ?_, ?_, hoff, hdead, ?_, hp2, hsl, hic, ?_, ?_, hp3, hp5, hsok3⟩
                · unroles
                  rw [Env.abs_emitM, hp4, hc3, hw]
                · unroles
                  funext j
                  by_cases hj : j = i <;> simp [upd, hj, hq2, hst]
                · unroles
                  funext j
                  by_cases hj : j = i <;> simp [upd, hj, hout]
                · unroles
                  simp only [hcnt]
                · unroles
                  omega
                · unroles
                  omega
                · intro j hj
                  unroles
                  by_cases hji : j = i
                  · subst hji
                    right
                    simp [hqr]
                  · simp only [hji, if_false]
                    exact hrs j hj
/-- the refinement, together with the facts about the environment that the next poll (or the drop) needs again -/
theorem poll_tie_strongT (N : Nat) (g : Join) (b : Eng Fix) (w : Nat) (hW : WfJ N g) (hS : FutStepsF b.w)
    (hH : HandedIn N b.w) (hlt : g.roleCount < N) :
    ∃ g' env' ret,
      Join.poll N g w ((absJ N g b).w.emit (.pollBegin w)) = some (g', env', ret) ∧
      (ret = .pending → WfJ N g' ∧ g'.roleCount < N) ∧
      (ret = .pending → jcore (absJ N g' b) = jcore (Eng.poll joinTuple (absJ N g b) w)) ∧
      (ret ≠ .pending → doneAgree (absJ N g' b) (Eng.poll joinTuple (absJ N g b) w)) ∧
      (env'.scripts = (Eng.poll joinTuple (absJ N g b) w).w.scripts ∧
       env'.handed = (Eng.poll joinTuple (absJ N g b) w).w.handed ∧
       (Eng.poll joinTuple (absJ N g b) w).w.trace = .pollEnd (outcomeOfJoin ret) :: env'.trace) ∧
      g'.roleKids.len = N ∧ HandedIn N env' ∧ FutStepsF env' ∧
      (g'.roleCount < N ↔ ret = .pending) := by
  obtain ⟨⟨g', env', ret⟩, h1, X, hp, hXw, hpend, hdone⟩ := poll_coreT N g b w hW hS hH hlt
  dsimp only at hp hXw hpend hdone
  refine ⟨g', env', ret, h1, ?_, ?_, ?_, ?_, ?_⟩
  · intro hr
    have hR := hpend hr
    exact ⟨⟨hW.pos, hR.kids, hR.rd, hR.sl, hR.ic, hR.pc, hR.rs⟩, hR.lt⟩
  · intro hr
    obtain ⟨hw, hen, hk, hst, hout, hcnt, hoff, hdead', hlt', hrd', hsl', hic', hpc', hrs', hpar, hhin, hsok⟩ :=
      hpend hr
    have hdd : decide (g'.roleCount = N) = false := by
      rw [decide_eq_false_iff_not]; omega
    rw [hp]
    simp only [jcore, fcore, absJ, Eng.emit, World.emit, hw, hen, hk, hst, hout, hcnt, hoff, hdead', hdd,
      TieArr.abs, World.withStd]
  · intro hr
    rw [hp]
    exact (hdone hr).agree
  · rw [hp]
    simp only [Eng.emit, World.emit, hXw]
    exact ⟨rfl, rfl, rfl⟩
  · cases ret with
    | pending =>
      have hR := hpend rfl
      exact ⟨hR.kids, hR.hin, hR.sok, fun _ => rfl, fun _ => hR.lt⟩
    | ready vs =>
      have hD := hdone (by simp)
      refine ⟨hD.kids, hD.hin, hD.sok, fun h => ?_, fun h => by cases h⟩
      have := hD.cnt
      omega

theorem poll_tie_mainT : poll_tie_statement := by
  intro N g b w hW hS hH hlt
  obtain ⟨g', env', ret, h1, h2, h3, h4, ⟨h5, h6, h7⟩, _⟩ := poll_tie_strongT N g b w hW hS hH hlt
  exact ⟨g', env', ret, h1, h2, h3, h4, h5, h6, h7⟩

end TieJoinT
end Fc
