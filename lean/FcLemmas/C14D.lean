/-
  FcLemmas/C14D.lean — the "every taken item is processed" bookkeeping of the concurrent-stream
  acceptor (Fc/CoSpec.lean): `DInv` relates `(ctrl, taken, members, dropped)` to the closure calls
  and work-future results observed in the trace, and is preserved by every bookkeeping action
  (`takeItem`, `push`, call, stage advance, completion, cancellation).
-/
import FcLemmas.C14Obs

set_option linter.unusedSimpArgs false
set_option linter.unusedVariables false

namespace Fc
namespace CoC14
open Co

/-- what the trace says about one member of the bag -/
structure MemOK (c : Cfg) (t : List CoEv) (m : Member) : Prop where
  below : ∀ s, s < m.stage → stageDone t s m.j = true
  above : ∀ s, m.stage < s → calls t s m.j = 0
  idle  : m.cur = none → calls t m.stage m.j = 0
  busy  : ∀ k, m.cur = some k →
            calls t m.stage m.j = 1 ∧ futOf t m.stage m.j = some k ∧ m.stage < c.stages

structure DInv (c : Cfg) (ctrl : Ctrl) (taken : Nat) (ms : List Member) (dropped : Bool)
    (t : List CoEv) : Prop where
  inj   : ∀ x ∈ ms, ∀ y ∈ ms, x.j = y.j → x = y
  bound : ∀ x ∈ ms, x.j < taken
  ok    : ∀ x ∈ ms, MemOK c t x
  fresh : ∀ j, taken ≤ j → ∀ s, calls t s j = 0
  send  : ∀ j, ctrl = .sending j → j < taken ∧ (∀ x ∈ ms, x.j ≠ j) ∧ ∀ s, calls t s j = 0
  done  : running ctrl = true → dropped = false → ∀ j, j < taken → (∀ x ∈ ms, x.j ≠ j) →
            ctrl ≠ .sending j → ∀ s, s < c.stages → stageDone t s j = true

theorem DInv_init (c : Cfg) (ctrl : Ctrl) (h : ∀ j, ctrl ≠ .sending j) :
    DInv c ctrl 0 [] false [] := by
  refine ⟨by simp, by simp, by simp, ?_, ?_, ?_⟩
  · intro j _ s; rfl
  · intro j hj; exact absurd hj (h j)
  · intro _ _ j hj; omega

/-- the trace grows by an event that calls nothing and only resolves futures -/
theorem DInv_mono {c : Cfg} {ctrl : Ctrl} {taken : Nat} {ms : List Member} {dr : Bool}
    {t t' : List CoEv} (hc : calls t' = calls t) (hf : futOf t' = futOf t)
    (hs : ∀ s j, stageDone t s j = true → stageDone t' s j = true)
    (h : DInv c ctrl taken ms dr t) : DInv c ctrl taken ms dr t' := by
  refine ⟨h.inj, h.bound, ?_, ?_, ?_, ?_⟩
  · intro x hx
    have := h.ok x hx
    refine ⟨fun s hs' => hs _ _ (this.below s hs'), ?_, ?_, ?_⟩
    · rw [hc]; exact this.above
    · rw [hc]; exact this.idle
    · rw [hc, hf]; exact this.busy
  · rw [hc]; exact h.fresh
  · rw [hc]; exact h.send
  · intro hr hd j hj hm hsnd s hs'
    exact hs _ _ (h.done hr hd j hj hm hsnd s hs')

theorem DInv_quiet {c : Cfg} {ctrl : Ctrl} {taken : Nat} {ms : List Member} {dr : Bool}
    {t : List CoEv} {ev : CoEv} (hq : quiet ev = true)
    (h : DInv c ctrl taken ms dr t) : DInv c ctrl taken ms dr (ev :: t) :=
  DInv_mono (calls_quiet hq t) (futOf_quiet hq t) (by rw [stageDone_quiet hq]; intros; assumption) h

theorem DInv_work {c : Cfg} {ctrl : Ctrl} {taken : Nat} {ms : List Member} {dr : Bool}
    {t : List CoEv} (k : Nat) (r : Res)
    (h : DInv c ctrl taken ms dr t) : DInv c ctrl taken ms dr (.work k r :: t) :=
  DInv_mono (calls_work k r t) (futOf_work k r t) (fun s j => stageDone_work k r t s j) h

/-- change of the control state / the dropped flag -/
theorem DInv_ctrl {c : Cfg} {ctrl ctrl' : Ctrl} {taken : Nat} {ms : List Member} {dr dr' : Bool}
    {t : List CoEv}
    (h1 : ∀ j, ctrl' = .sending j → ctrl = .sending j)
    (h2 : running ctrl' = true → dr' = false →
            running ctrl = true ∧ dr = false ∧ ∀ j, ctrl = .sending j → ctrl' = .sending j)
    (h : DInv c ctrl taken ms dr t) : DInv c ctrl' taken ms dr' t := by
  refine ⟨h.inj, h.bound, h.ok, h.fresh, ?_, ?_⟩
  · intro j hj; exact h.send j (h1 j hj)
  · intro hr hd j hj hm hsnd s hs
    obtain ⟨a, b, e⟩ := h2 hr hd
    exact h.done a b j hj hm (fun hh => hsnd (e j hh)) s hs

/-- members disappear (cancellation; only while not running or already dropped) -/
theorem DInv_sub {c : Cfg} {ctrl : Ctrl} {taken : Nat} {ms ms' : List Member} {dr : Bool}
    {t : List CoEv}
    (h1 : ∀ x ∈ ms', x ∈ ms)
    (h2 : running ctrl = true → dr = false → ∀ x ∈ ms, x ∈ ms')
    (h : DInv c ctrl taken ms dr t) : DInv c ctrl taken ms' dr t := by
  refine ⟨fun x hx y hy => h.inj x (h1 x hx) y (h1 y hy), fun x hx => h.bound x (h1 x hx),
    fun x hx => h.ok x (h1 x hx), h.fresh, ?_, ?_⟩
  · intro j hj
    obtain ⟨a, b, e⟩ := h.send j hj
    exact ⟨a, fun x hx => b x (h1 x hx), e⟩
  · intro hr hd j hj hm hsnd s hs
    exact h.done hr hd j hj (fun x hx => hm x (h2 hr hd x hx)) hsnd s hs

/-- the source delivers item number `taken` and `send` starts waiting with it -/
theorem DInv_take {c : Cfg} {taken : Nat} {ms : List Member} {dr : Bool} {t : List CoEv}
    (h : DInv c .loop taken ms dr t) : DInv c (.sending taken) (taken + 1) ms dr t := by
  refine ⟨h.inj, fun x hx => Nat.lt_succ_of_lt (h.bound x hx), h.ok,
    fun j hj => h.fresh j (by omega), ?_, ?_⟩
  · intro j hj
    injection hj with hj
    subst hj
    refine ⟨by omega, fun x hx => ?_, h.fresh _ (Nat.le_refl _)⟩
    have := h.bound x hx
    omega
  · intro hr hd j hj hm hsnd s hs
    have hne : j ≠ taken := fun e => hsnd (by rw [e])
    exact h.done rfl hd j (by omega) hm (by simp) s hs

/-- the waiting item is pushed into the bag -/
theorem DInv_push {c : Cfg} {ctrl' : Ctrl} {j taken : Nat} {ms : List Member} {dr : Bool}
    {t : List CoEv} (hc : ∀ j', ctrl' ≠ .sending j') (hr : running ctrl' = true)
    (h : DInv c (.sending j) taken ms dr t) :
    DInv c ctrl' taken (ms ++ [{ j := j, stage := 0, cur := none }]) dr t := by
  obtain ⟨hj, hnm, hcl⟩ := h.send j rfl
  refine ⟨?_, ?_, ?_, h.fresh, ?_, ?_⟩
  · intro x hx y hy hxy
    rw [List.mem_append, List.mem_singleton] at hx hy
    rcases hx with hx | hx <;> rcases hy with hy | hy
    · exact h.inj x hx y hy hxy
    · subst hy; exact absurd hxy (hnm x hx)
    · subst hx; exact absurd hxy.symm (hnm y hy)
    · rw [hx, hy]
  · intro x hx
    rw [List.mem_append, List.mem_singleton] at hx
    rcases hx with hx | hx
    · exact h.bound x hx
    · subst hx; exact hj
  · intro x hx
    rw [List.mem_append, List.mem_singleton] at hx
    rcases hx with hx | hx
    · exact h.ok x hx
    · subst hx
      exact ⟨fun s hs => absurd hs (Nat.not_lt_zero s), fun s _ => hcl s, fun _ => hcl 0,
        fun k hk => by simp at hk⟩
  · intro j' hj'; exact absurd hj' (hc j')
  · intro _ hd j' hj' hm _ s hs
    have hne : j' ≠ j := by
      intro e
      exact hm { j := j, stage := 0, cur := none } (by simp) e.symm
    exact h.done rfl hd j' hj' (fun x hx => hm x (by simp [hx]))
      (by intro e; injection e with e; exact hne e.symm) s hs

/-- the closure of member `m`'s stage is called and returns work future `k` -/
theorem DInv_call {c : Cfg} {ctrl : Ctrl} {taken : Nat} {ms : List Member} {dr : Bool}
    {t : List CoEv} {m : Member} (idx : List Nat) (k : Nat)
    (hm : m ∈ ms) (hcur : m.cur = none) (hst : m.stage < c.stages)
    (h : DInv c ctrl taken ms dr t) :
    DInv c ctrl taken (setMember ms m { m with cur := some k }) dr
      (.call m.stage m.j idx k :: t) := by
  have hmok := h.ok m hm
  -- facts about items other than `m.j`
  have hcalls : ∀ s j, j ≠ m.j → calls (.call m.stage m.j idx k :: t) s j = calls t s j := by
    intro s j hne
    rw [calls_call]
    have : ¬ (m.stage = s ∧ m.j = j) := fun e => hne e.2.symm
    simp [this]
  have hsd : ∀ s j, ¬ (m.stage = s ∧ m.j = j) →
      stageDone (.call m.stage m.j idx k :: t) s j = stageDone t s j :=
    fun s j hne => stageDone_call_other _ _ _ _ _ _ _ hne
  have hothers : ∀ x ∈ ms, x ≠ m → x.j ≠ m.j := fun x hx hne e => hne (h.inj x hx m hm e)
  refine ⟨?_, ?_, ?_, ?_, ?_, ?_⟩
  · intro x hx y hy hxy
    rcases mem_setMember hx with ⟨hx, _⟩ | ⟨hx, hxm⟩ <;>
      rcases mem_setMember hy with ⟨hy, _⟩ | ⟨hy, hym⟩
    · rw [hx, hy]
    · subst hx; exact absurd hxy.symm (hothers y hy hym)
    · subst hy; exact absurd hxy (hothers x hx hxm)
    · exact h.inj x hx y hy hxy
  · intro x hx
    rcases mem_setMember hx with ⟨hx, _⟩ | ⟨hx, hxm⟩
    · subst hx; exact h.bound m hm
    · exact h.bound x hx
  · intro x hx
    rcases mem_setMember hx with ⟨hx, _⟩ | ⟨hx, hxm⟩
    · subst hx
      refine ⟨?_, ?_, ?_, ?_⟩
      · intro s hs
        show stageDone _ s m.j = true
        rw [hsd s m.j (by intro e; have := e.1; simp at hs; omega)]
        exact hmok.below s hs
      · intro s hs
        show calls _ s m.j = 0
        rw [calls_call]
        have hs' : m.stage < s := hs
        have : m.stage ≠ s := by omega
        simp only [this, false_and, if_false, Nat.add_zero]
        exact hmok.above s hs
      · intro hk; simp at hk
      · intro k' hk'
        simp at hk'
        subst hk'
        refine ⟨?_, ?_, hst⟩
        · show calls _ m.stage m.j = 1
          rw [calls_call, hmok.idle hcur]; simp
        · show futOf _ m.stage m.j = some k
          rw [futOf_call]; simp
    · have hxok := h.ok x hx
      have hne := hothers x hx hxm
      refine ⟨?_, ?_, ?_, ?_⟩
      · intro s hs
        rw [hsd s x.j (fun e => hne e.2.symm)]
        exact hxok.below s hs
      · intro s hs; rw [hcalls s x.j hne]; exact hxok.above s hs
      · intro hc; rw [hcalls _ x.j hne]; exact hxok.idle hc
      · intro k' hk'
        rw [hcalls _ x.j hne, futOf_call]
        have : ¬ (m.stage = x.stage ∧ m.j = x.j) := fun e => hne e.2.symm
        simp only [this, if_false]
        exact hxok.busy k' hk'
  · intro j hj s
    have := h.bound m hm
    rw [hcalls s j (by omega)]
    exact h.fresh j hj s
  · intro j hj
    obtain ⟨a, b, e⟩ := h.send j hj
    have hne : j ≠ m.j := fun e' => b m hm e'.symm
    refine ⟨a, ?_, fun s => by rw [hcalls s j hne]; exact e s⟩
    intro x hx
    rcases mem_setMember hx with ⟨hx, _⟩ | ⟨hx, hxm⟩
    · subst hx; exact fun e' => hne e'.symm
    · exact b x hx
  · intro hr hd j hj hnm hsnd s hs
    have hne : j ≠ m.j := by
      intro e
      exact hnm _ (setMember_mem_self hm) e.symm
    rw [hsd s j (fun e => hne e.2.symm)]
    refine h.done hr hd j hj ?_ hsnd s hs
    intro x hx
    by_cases hxm : x = m
    · subst hxm; exact fun e => hne e.symm
    · exact hnm x (setMember_mem_other hx hxm)

/-- member `m` moves on to its next stage -/
theorem DInv_advance {c : Cfg} {ctrl : Ctrl} {taken : Nat} {ms : List Member} {dr : Bool}
    {t : List CoEv} {m : Member}
    (hm : m ∈ ms) (hdone : stageDone t m.stage m.j = true)
    (h : DInv c ctrl taken ms dr t) :
    DInv c ctrl taken (setMember ms m { m with stage := m.stage + 1, cur := none }) dr t := by
  have hmok := h.ok m hm
  have hothers : ∀ x ∈ ms, x ≠ m → x.j ≠ m.j := fun x hx hne e => hne (h.inj x hx m hm e)
  refine ⟨?_, ?_, ?_, h.fresh, ?_, ?_⟩
  · intro x hx y hy hxy
    rcases mem_setMember hx with ⟨hx, _⟩ | ⟨hx, hxm⟩ <;>
      rcases mem_setMember hy with ⟨hy, _⟩ | ⟨hy, hym⟩
    · rw [hx, hy]
    · subst hx; exact absurd hxy.symm (hothers y hy hym)
    · subst hy; exact absurd hxy (hothers x hx hxm)
    · exact h.inj x hx y hy hxy
  · intro x hx
    rcases mem_setMember hx with ⟨hx, _⟩ | ⟨hx, hxm⟩
    · subst hx; exact h.bound m hm
    · exact h.bound x hx
  · intro x hx
    rcases mem_setMember hx with ⟨hx, _⟩ | ⟨hx, hxm⟩
    · subst hx
      refine ⟨?_, ?_, ?_, ?_⟩
      · intro s hs
        show stageDone t s m.j = true
        have hs' : s < m.stage + 1 := hs
        by_cases e : s = m.stage
        · subst e; exact hdone
        · exact hmok.below s (by omega)
      · intro s hs
        have hs' : m.stage + 1 < s := hs
        exact hmok.above s (by omega)
      · intro _
        exact hmok.above (m.stage + 1) (by omega)
      · intro k' hk'; simp at hk'
    · exact h.ok x hx
  · intro j hj
    obtain ⟨a, b, e⟩ := h.send j hj
    refine ⟨a, ?_, e⟩
    intro x hx
    rcases mem_setMember hx with ⟨hx, _⟩ | ⟨hx, hxm⟩
    · subst hx; exact b m hm
    · exact b x hx
  · intro hr hd j hj hnm hsnd s hs
    have hne : j ≠ m.j := by
      intro e
      exact hnm _ (setMember_mem_self hm) e.symm
    refine h.done hr hd j hj ?_ hsnd s hs
    intro x hx
    by_cases hxm : x = m
    · subst hxm; exact fun e => hne e.symm
    · exact hnm x (setMember_mem_other hx hxm)

/-- member `m` has finished all its stages and leaves the bag -/
theorem DInv_remove {c : Cfg} {ctrl : Ctrl} {taken : Nat} {ms : List Member} {dr : Bool}
    {t : List CoEv} {m : Member}
    (hm : m ∈ ms) (hall : ∀ s, s < c.stages → stageDone t s m.j = true)
    (h : DInv c ctrl taken ms dr t) :
    DInv c ctrl taken (ms.filter (· != m)) dr t := by
  have hsub : ∀ x ∈ ms.filter (· != m), x ∈ ms := fun x hx => (List.mem_filter.mp hx).1
  refine ⟨fun x hx y hy => h.inj x (hsub x hx) y (hsub y hy), fun x hx => h.bound x (hsub x hx),
    fun x hx => h.ok x (hsub x hx), h.fresh, ?_, ?_⟩
  · intro j hj
    obtain ⟨a, b, e⟩ := h.send j hj
    exact ⟨a, fun x hx => b x (hsub x hx), e⟩
  · intro hr hd j hj hnm hsnd s hs
    by_cases e : j = m.j
    · subst e; exact hall s hs
    · refine h.done hr hd j hj ?_ hsnd s hs
      intro x hx
      by_cases hxm : x = m
      · subst hxm; exact fun e' => e e'.symm
      · exact hnm x (List.mem_filter.mpr ⟨hx, by simpa using hxm⟩)

end CoC14
end Fc
