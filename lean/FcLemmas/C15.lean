/-
  FcLemmas/C15.lean — every event the acceptor of Fc/CoSpec.lean accepts preserves the invariant
  `InvA` (FcLemmas/C15Inv.lean) and satisfies the clause of `holds_C15` for that event; hence every
  accepted trace satisfies `holds_C15`.
-/
import FcLemmas.C15Inv

set_option linter.unusedSimpArgs false
set_option linter.unusedVariables false

namespace Fc
namespace CoC15
open Co

variable {c : Cfg} {s : St} {t : List CoEv}

theorem InvA.finish (h : InvA c s t) : InvA c { s with inTop := false, ctrl := .done } t :=
  ((h.ctrlStop .done rfl).setTop false (fun e => by simp at e)).congr _ rfl rfl rfl rfl rfl rfl rfl

theorem InvA.finishClear (h : InvA c s t) :
    InvA c { s with inTop := false, ctrl := .done, members := [] } t :=
  (((h.ctrlStop .done rfl).clear rfl).setTop false (fun e => by simp at e)).congr _
    rfl rfl rfl rfl rfl rfl rfl

/-! ### the invariant is preserved by every accepted event -/

theorem inv_step (h : InvA c s t) (ev : CoEv) (s' : St) (hs : step c s ev = some s') :
    InvA c s' (ev :: t) := by
  cases ev with
  | topBegin =>
    have h1 := h.cons .topBegin (by intros; simp) (by intros; simp)
    simp only [step] at hs
    split at hs
    · rename_i hc
      obtain rfl := Option.some.inj hs
      simp at hc
      exact h1.setTop true (fun _ => hc.1.2)
    · cases hs
  | src r =>
    simp only [step] at hs
    split at hs
    · rename_i hc
      simp at hc
      cases r with
      | pend =>
        obtain rfl := Option.some.inj hs
        exact h.cons _ (by intros; simp) (by intros; simp)
      | fin =>
        obtain rfl := Option.some.inj hs
        exact (h.cons (.src .fin) (by intros; simp) (by intros; simp)).srcFin hc.1.2
          (by simp [srcEnded])
      | item v =>
        obtain rfl := Option.some.inj hs
        exact h.takeItem hc.1.2 v
      | ready ok v => cases hs
      | panic => cases hs
    · cases hs
  | call stage j idx k =>
    simp only [step] at hs
    split at hs
    · split at hs
      · rename_i m hf
        split at hs
        · rename_i hc2
          obtain rfl := Option.some.inj hs
          have hm := List.mem_of_find?_eq_some hf
          have hj := List.find?_some hf
          simp at hj hc2
          obtain ⟨⟨e1, e2⟩, e3⟩ := hc2
          subst hj; subst e1
          exact h.call m hm e2 idx k _
        · cases hs
      · cases hs
    · cases hs
  | work k r =>
    simp only [step] at hs
    split at hs
    · split at hs
      · rename_i m hf
        have hm := List.mem_of_find?_eq_some hf
        have hk : m.cur = some k := by simpa using List.find?_some hf
        cases r with
        | pend =>
          obtain rfl := Option.some.inj hs
          exact h.cons _ (by intros; simp) (by intros; simp)
        | ready ok v =>
          dsimp only at hs
          split at hs
          · cases hs
          · split at hs
            · obtain rfl := Option.some.inj hs
              exact h.advance m hm k hk ok v
            · rename_i hlast
              obtain rfl := Option.some.inj hs
              have h1 := h.cons (.work k (.ready ok v)) (by intros; simp) (by intros; simp)
              apply h1.complete m hm
              intro st hst
              have hmo := h.memOk m hm
              by_cases e : st = m.stage
              · subst e
                exact stageDone_work ok v (hmo.busy k hk).1 (hmo.busy k hk).2
              · exact stageDone_cons (fun _ _ _ _ e => by simp at e) (hmo.before st (by omega))
        | item v => cases hs
        | fin => cases hs
        | panic => cases hs
      · cases hs
    · cases hs
  | workDrop k =>
    have h1 := h.cons (.workDrop k) (by intros; simp) (by intros; simp)
    simp only [step] at hs
    split at hs
    · split at hs
      · cases hs
      · rename_i hc
        obtain rfl := Option.some.inj hs
        refine (h1.filter (fun m => m.cur != some k) ?_).congr _ rfl rfl rfl rfl rfl rfl rfl
        intro hr hd _ m hm
        simp [hr, hd] at hc
        simpa using hc m hm
    · cases hs
  | valDrop v =>
    obtain rfl := Option.some.inj hs
    exact h.cons _ (by intros; simp) (by intros; simp)
  | srcDrop =>
    obtain rfl := Option.some.inj hs
    exact h.cons _ (by intros; simp) (by intros; simp)
  | dropBegin =>
    have h1 := h.cons .dropBegin (by intros; simp) (by intros; simp)
    simp only [step] at hs
    split at hs
    · rename_i hc
      obtain rfl := Option.some.inj hs
      simp at hc
      exact h1.setDropped hc.1
    · cases hs
  | dropEnd =>
    have h1 := h.cons .dropEnd (by intros; simp) (by intros; simp)
    simp only [step] at hs
    split at hs
    · obtain rfl := Option.some.inj hs
      exact h1
    · cases hs
  | topEnd o =>
    have h1 := h.cons (.topEnd o) (by intros; simp) (by intros; simp)
    simp only [step] at hs
    split at hs
    · cases o with
      | pending =>
        dsimp only at hs
        split at hs
        · cases hs
        · split at hs
          · cases hs
          · obtain rfl := Option.some.inj hs
            exact h1.setTop false (fun e => by simp at e)
      | unit =>
        dsimp only at hs
        split at hs
        · obtain rfl := Option.some.inj hs; exact h1.finish
        · cases hs
      | ok =>
        dsimp only at hs
        split at hs
        · obtain rfl := Option.some.inj hs; exact h1.finish
        · cases hs
      | err e =>
        dsimp only at hs
        split at hs
        · obtain rfl := Option.some.inj hs; exact h1.finish
        · cases hs
      | vec items =>
        dsimp only at hs
        split at hs <;> split at hs <;>
          first | (obtain rfl := Option.some.inj hs; exact h1.finishClear) | cases hs
      | resOk items =>
        dsimp only at hs
        split at hs
        · obtain rfl := Option.some.inj hs; exact h1.finish
        · cases hs
      | resErr e =>
        dsimp only at hs
        split at hs
        · obtain rfl := Option.some.inj hs; exact h1.finish
        · cases hs
    · cases hs

/-! ### what the invariant says when the operation returns -/

theorem InvA.drained (h : InvA c s t) (hf : s.ctrl = .flushing) : drained c t = true := by
  unfold Co.drained
  rcases h.flush hf with h1 | h2
  · simp [h.fin h1]
  · rw [← h.taken, h2]; simp

theorem InvA.final (h : InvA c s t) (hf : s.ctrl = .flushing) (hd : s.dropped = false)
    (hc : Collects c) (hq : s.members = [] ∨ c.stages = 0) :
    allProcessed c t = true ∧
      (s.out ++ silent c s).Perm
        ((List.range (takenItems t)).map (fun j => (j, c.idxAt c.stages j))) := by
  have hcov := h.cover (by simp [hf, running]) hd hc
  constructor
  · simp only [allProcessed, List.all_eq_true, List.mem_range]
    intro j hj st hst
    rw [← h.taken] at hj
    rcases hq with hq | hq
    · rcases hcov j hj with ⟨m, hm, _⟩ | h2 | ⟨p, hp, e⟩
      · simp [hq] at hm
      · simp [hf] at h2
      · rw [← e]; exact h.outOk p hp st hst
    · omega
  · rw [← h.taken]
    have hsil : ∀ p, p ∈ silent c s ↔ c.stages = 0 ∧ ∃ m ∈ s.members, p = (m.j, c.idxAt c.stages m.j) := by
      intro p
      unfold silent
      by_cases h0 : c.stages = 0
      · simp [h0, eq_comm]
      · simp [h0]
    apply perm_range_of_cover
    · rw [List.pairwise_append]
      refine ⟨h.outNodup, ?_, ?_⟩
      · unfold silent
        split
        · rw [List.pairwise_map]; exact h.nodup
        · simp
      · intro a ha b hb
        obtain ⟨_, m, hm, rfl⟩ := (hsil b).1 hb
        exact fun e => (h.outB a ha).2.2.2 m hm e.symm
    · intro p hp
      rcases List.mem_append.1 hp with hp | hp
      · exact ⟨(h.outB p hp).1, (h.outB p hp).2.1⟩
      · obtain ⟨_, m, hm, rfl⟩ := (hsil p).1 hp
        exact ⟨rfl, (h.memB m hm).1⟩
    · intro j hj
      rcases hcov j hj with ⟨m, hm, e⟩ | h2 | ⟨p, hp, e⟩
      · rcases hq with hq | hq
        · simp [hq] at hm
        · exact ⟨_, List.mem_append.2 (Or.inr ((hsil _).2 ⟨hq, m, hm, rfl⟩)), e⟩
      · simp [hf] at h2
      · exact ⟨p, List.mem_append.2 (Or.inl hp), e⟩

theorem InvA.vec_ok (h : InvA c s t) (hmon : holds_C15 c t = true) (hd : s.dropped = false)
    (hc : Collects c) (hfl : s.ctrl = .flushing) (hq : s.members = [] ∨ c.stages = 0)
    {items : List (Nat × List Nat)} (hp : items.Perm (s.out ++ silent c s)) :
    holds_C15 c (.topEnd (.vec items) :: t) = true := by
  obtain ⟨hall, hperm⟩ := h.final hfl hd hc hq
  simp only [holds_C15, hmon, hall, h.drained hfl, Bool.true_and]
  exact List.isPerm_iff.2 (hp.trans hperm)

theorem InvA.resOk_ok (h : InvA c s t) (hmon : holds_C15 c t = true) (hd : s.dropped = false)
    (hc : Collects c) (hfl : s.ctrl = .flushing) (hq : s.members = [] ∨ c.stages = 0)
    {items : List (Nat × List Nat)} (hp : items.Perm (s.out ++ silent c s)) :
    holds_C15 c (.topEnd (.resOk items) :: t) = true := by
  obtain ⟨hall, hperm⟩ := h.final hfl hd hc hq
  simp only [holds_C15, hmon, hall, h.drained hfl, Bool.true_and]
  exact List.isPerm_iff.2 (hp.trans hperm)

/-! ### every accepted event satisfies its clause of the monitor -/

theorem mon_step (h : InvA c s t) (hmon : holds_C15 c t = true) (ev : CoEv) (s' : St)
    (hs : step c s ev = some s') : holds_C15 c (ev :: t) = true := by
  cases ev with
  | src r =>
    cases r with
    | item v =>
      simp only [step] at hs
      split at hs
      · rename_i hc
        simp at hc
        have hb := h.loop hc.1.2
        simp only [holds_C15, hmon, Bool.true_and, List.all_eq_true, decide_eq_true_eq]
        intro n hn
        simp only [Cfg.breakAt, List.any_eq_false, decide_eq_true_eq] at hb
        have := hb n hn
        rw [← h.taken]
        omega
      · cases hs
    | _ => simpa [holds_C15] using hmon
  | call stage j idx k =>
    simp only [step] at hs
    split at hs
    · rename_i hc
      split at hs
      · rename_i m hf
        split at hs
        · rename_i hc2
          have hm := List.mem_of_find?_eq_some hf
          have hj := List.find?_some hf
          simp at hj hc2 hc
          obtain ⟨⟨e1, e2⟩, e3⟩ := hc2
          subst hj; subst e1
          have h0 := (h.memOk m hm).idle e2
          have hlt := (h.memB m hm).1
          rw [h.taken] at hlt
          simp [holds_C15, hmon, h0, hlt, hc.2]
        · cases hs
      · cases hs
    · cases hs
  | topEnd o =>
    simp only [step] at hs
    split at hs
    · rename_i hin
      have hd := h.top hin
      cases o with
      | pending => simpa [holds_C15] using hmon
      | err e => simpa [holds_C15] using hmon
      | resErr e => simpa [holds_C15] using hmon
      | unit =>
        dsimp only at hs
        split at hs
        · rename_i hc
          simp at hc
          simp [holds_C15, hmon, h.drained hc.1.2]
        · cases hs
      | ok =>
        dsimp only at hs
        split at hs
        · rename_i hc
          simp at hc
          simp [holds_C15, hmon, h.drained hc.1.2]
        · cases hs
      | vec items =>
        dsimp only at hs
        by_cases h0 : c.stages = 0
        · rw [if_pos h0] at hs
          split at hs
          · rename_i hc
            simp only [Bool.and_eq_true, decide_eq_true_eq, quiescent, Bool.or_eq_true,
              List.isEmpty_iff] at hc
            obtain ⟨⟨hterm, hfl, hq⟩, hit⟩ := hc
            exact h.vec_ok hmon hd (Or.inl hterm) hfl hq (List.isPerm_iff.1 hit)
          · cases hs
        · rw [if_neg h0] at hs
          split at hs
          · rename_i hc
            simp only [Bool.and_eq_true, decide_eq_true_eq, quiescent, Bool.or_eq_true,
              List.isEmpty_iff] at hc
            obtain ⟨⟨hterm, hfl, hq⟩, hit⟩ := hc
            exact h.vec_ok hmon hd (Or.inl hterm) hfl hq (by simp [hit, silent, h0])
          · cases hs
      | resOk items =>
        dsimp only at hs
        split at hs
        · rename_i hc
          simp only [Bool.and_eq_true, decide_eq_true_eq, List.isEmpty_iff] at hc
          obtain ⟨⟨⟨hterm, hfl⟩, hq⟩, hit⟩ := hc
          exact h.resOk_ok hmon hd (Or.inr hterm) hfl (Or.inl hq) (by simp [hit, silent, hq])
        · cases hs
    · cases hs
  | _ => simpa [holds_C15] using hmon

/-! ### induction over the trace -/

theorem run_inv (c : Cfg) (t : List CoEv) :
    ∀ s, run c t = some s → InvA c s t ∧ holds_C15 c t = true := by
  induction t with
  | nil =>
    intro s hs
    obtain rfl := Option.some.inj hs
    exact ⟨inv_init c, rfl⟩
  | cons ev t ih =>
    intro s' hs
    simp only [run] at hs
    split at hs
    · rename_i s hrun
      obtain ⟨hinv, hmon⟩ := ih s hrun
      exact ⟨inv_step hinv ev s' hs, mon_step hinv hmon ev s' hs⟩
    · cases hs

theorem accepts_holds (c : Cfg) (t : List CoEv) (h : accepts c t = true) :
    holds_C15 c t = true := by
  unfold accepts at h
  cases hr : run c t with
  | none => simp [hr] at h
  | some s => exact (run_inv c t s hr).2

end CoC15
end Fc
