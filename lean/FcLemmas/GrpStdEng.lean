/-
  FcLemmas/GrpStdEng.lean — C01 and C20 for the groups, std mode: the invariant across the poll
  skeleton of the `group` policy and across the group operations.
-/
import FcLemmas.GrpStd
import FcLemmas.GrpCommon
import FcLemmas.GrpRun

set_option linter.unusedSimpArgs false
set_option linter.unusedVariables false

namespace Fc
namespace G
open Mon C01 Grp

/-- inside a poll, `V` = slots already scanned -/
structure SP (w : World) (mem : Nat → Option Nat) (V : Nat → Prop) : Prop where
  gk : GK w mem none
  gj : GJ w mem none V
  /-- members of scanned slots have been polled at least once -/
  av : ∀ k c, V k → mem k = some c → everPolled w.trace c = true
  /-- a member that was owed a poll when this poll began: polled, or still ahead with its bit set -/
  bv : ∀ k c, mem k = some c → lastRes (atPollBegin w.trace) c = some .pend →
         owes (atPollBegin w.trace) c = true →
         polledSince w.trace c = true ∨ (¬ V k ∧ w.bits k = true)

theorem sp_mono {w : World} {mem : Nat → Option Nat} {V V' : Nat → Prop}
    (hv : ∀ k, V' k → V k) (h : SP w mem V) : SP w mem V' :=
  ⟨h.gk, gj_mono hv (fun _ _ hm => hm) h.gj, fun k c hk => h.av k c (hv k hk), fun k c hm h1 h2 => by
    rcases h.bv k c hm h1 h2 with hb | hb
    · exact Or.inl hb
    · exact Or.inr ⟨fun hk => hb.1 (hv k hk), hb.2⟩⟩

theorem sp_sub {w : World} {mem mem' : Nat → Option Nat} {V : Nat → Prop}
    (hm : ∀ k c, mem' k = some c → mem k = some c) (h : SP w mem V) : SP w mem' V :=
  ⟨gk_mono hm h.gk, gj_mono (fun _ hk => hk) hm h.gj, fun k c hk hmk => h.av k c hk (hm k c hmk),
    fun k c hmk => h.bv k c (hm k c hmk)⟩

theorem sp_emits_own {w : World} {mem : Nat → Option Nat} {V : Nat → Prop} (l : List Ev)
    (hl : ∀ e ∈ l, isOwnEv e = true) (h : SP w mem V) : SP (w.emits l) mem V := by
  refine ⟨gk_emits_own l hl h.gk, gj_emits_own l hl h.gj, ?_, ?_⟩
  · intro k c hk hm; rw [everPolled_emits_own _ _ hl]; exact h.av k c hk hm
  · intro k c hm h1 h2
    rw [atPollBegin_emits_own _ _ hl] at h1 h2
    rw [polledSince_emits_own _ _ hl]
    exact h.bv k c hm h1 h2

/-- a vacant slot is skipped -/
theorem sp_skip_vacant {w : World} {mem : Nat → Option Nat} {V : Nat → Prop} (k : Nat)
    (hv : mem k = none) (h : SP w mem V) : SP w mem (fun j => V j ∨ j = k) := by
  refine ⟨h.gk, ⟨h.gj.pw, ?_⟩, ?_, ?_⟩
  · intro k' c hk hm hb hl
    rcases hk with hk | hk
    · exact h.gj.j k' c hk hm hb hl
    · subst hk; rw [hv] at hm; simp at hm
  · intro k' c hk hm
    rcases hk with hk | hk
    · exact h.av k' c hk hm
    · subst hk; rw [hv] at hm; simp at hm
  · intro k' c hm h1 h2
    rcases h.bv k' c hm h1 h2 with hb | hb
    · exact Or.inl hb
    · refine Or.inr ⟨?_, hb.2⟩
      rintro (hk | hk)
      · exact hb.1 hk
      · subst hk; rw [hv] at hm; simp at hm

/-- an occupied slot whose bit is clear is skipped -/
theorem sp_skip_clear {w : World} {mem : Nat → Option Nat} {V : Nat → Prop} (k : Nat)
    (hb : w.bits k = false) (h : SP w mem V) : SP w mem (fun j => V j ∨ j = k) := by
  refine ⟨h.gk, ⟨h.gj.pw, ?_⟩, ?_, ?_⟩
  · intro k' c hk hm hb' hl
    rcases hk with hk | hk
    · exact h.gj.j k' c hk hm hb' hl
    · subst hk; rw [hb] at hb'; exact Bool.noConfusion hb'
  · intro k' c hk hm
    rcases hk with hk | hk
    · exact h.av k' c hk hm
    · subst hk
      cases hep : everPolled w.trace c with
      | true => rfl
      | false => have := h.gk.nv k' c hm hep; rw [hb] at this; exact Bool.noConfusion this
  · intro k' c hm h1 h2
    rcases h.bv k' c hm h1 h2 with hb' | hb'
    · exact Or.inl hb'
    · refine Or.inr ⟨?_, hb'.2⟩
      rintro (hk | hk)
      · exact hb'.1 hk
      · subst hk; rw [hb] at hb'; exact Bool.noConfusion hb'.2

theorem clearReady_noop (w : World) (k : Nat) (hm : w.mode = .std) (hb : w.bits k = false) :
    w.clearReady k = w := by
  unfold World.clearReady; rw [hm]; simp [hb]

/-- the member of slot `k` is polled (after its bit was cleared) -/
theorem sp_polled {w : World} {mem : Nat → Option Nat} {V : Nat → Prop} (c k : Nat)
    (hk : k < w.cap) (hm : mem k = some c) (inj : ∀ k', mem k' = some c → k' = k)
    (h : SP w mem V) : SP ((w.clearReady k).pollChild c k) mem (fun j => V j ∨ j = k) := by
  have hstd := h.gk.bc.std
  have hkw := gkw_clearReady k h.gk
  obtain ⟨p, hp, _⟩ := h.gj.pw
  have hclr : (w.clearReady k).bits k = false := by
    rw [World.clearReady_bits_std _ _ hstd]; simp
  have hmono : ∀ k', k' ≠ k → w.bits k' = true → ((w.clearReady k).pollChild c k).bits k' = true := by
    intro k' hkk hb
    have h1 : (w.clearReady k).isSet k' = true := by
      rw [World.isSet_clearReady_other _ _ _ hkk, World.isSet_std _ _ hstd]; exact hb
    have h2 := World.isSet_pollChild_mono (w.clearReady k) c k k' h1
    rwa [World.isSet_std _ _ (by simpa using hstd)] at h2
  refine ⟨gk_pollChild c k (by simpa using hk) hm inj hkw (by simp [hp]),
    gj_pollChild c k (by simpa using hk) hm inj hkw (gj_clearReady k hstd h.gj) hclr, ?_, ?_⟩
  · intro k' c' hv hm'
    rw [everPolled_pollChild]
    rcases hv with hv | hv
    · simp [h.av k' c' hv hm']
    · subst hv; rw [hm] at hm'; simp [Option.some.inj hm']
  · intro k' c' hm' h1 h2
    rw [atPollBegin_pollChild] at h1 h2
    simp only [World.clearReady_trace] at h1 h2
    rw [polledSince_pollChild]
    by_cases hkk : k' = k
    · subst hkk; rw [hm] at hm'; left; simp [Option.some.inj hm']
    · rcases h.bv k' c' hm' h1 h2 with hb | hb
      · left; simp only [World.clearReady_trace]; simp [hb]
      · right
        exact ⟨fun hh => by rcases hh with hh | hh; exact hb.1 hh; exact hkk hh, hmono k' hkk hb.2⟩

/-- leaving the loop with outcome `o` (just before `pollEnd o`) -/
structure SX (n : Nat) (o : Outcome) (e : Eng Grp) : Prop where
  gk : GK e.w e.s.member none
  pend : o = .pending → GJ e.w e.s.member none (fun _ => True) ∧ c20At false n e.w.trace = true
  pan : o = .panicked → panicSince e.w.trace = true

/-- `c20At` from the loop invariant, when no bit is set or after a complete scan -/
theorem c20At_sp (n : Nat) {s : Grp} {w : World} {V : Nat → Prop} (hl : Link s w.trace)
    (h : SP w s.member V)
    (hc : (∀ k, w.bits k = false) ∨ (∀ k c, s.member k = some c → V k)) :
    c20At false n w.trace = true := by
  unfold c20At
  simp only [List.all_eq_true, List.mem_range]
  intro c _
  cases hown : owned false n w.trace c with
  | false => simp
  | true =>
    simp only [owned, Bool.false_eq_true, if_false, Bool.and_eq_true, Bool.not_eq_true',
      Option.isSome_iff_exists] at hown
    obtain ⟨⟨k, hk⟩, hg⟩ := hown
    have hm := hl.f4 c k hk hg
    have hep : everPolled w.trace c = true := by
      rcases hc with hc | hc
      · cases hh : everPolled w.trace c with
        | true => rfl
        | false => have := h.gk.nv k c hm hh; rw [hc k] at this; exact Bool.noConfusion this
      · exact h.av k c (hc k c hm) hm
    simp only [Bool.not_true, Bool.false_or, hep, Bool.true_and]
    cases hps : polledSince w.trace c with
    | true => simp
    | false =>
      simp only [Bool.or_false, Bool.not_eq_true', Bool.and_eq_false_imp, beq_iff_eq]
      intro hp
      cases ho : owes (atPollBegin w.trace) c with
      | false => rfl
      | true =>
        rcases h.bv k c hm hp ho with hb | hb
        · rw [hps] at hb; exact Bool.noConfusion hb
        · rcases hc with hc | hc
          · rw [hc k] at hb; exact Bool.noConfusion hb.2
          · exact absurd (hc k c hm) hb.1

variable {n : Nat}

theorem bits_of_isSet_false {w : World} (hm : w.mode = .std) {k : Nat} (h : w.isSet k = false) :
    w.bits k = false := by rwa [World.isSet_std _ _ hm] at h

/-- one loop iteration -/
theorem sp_visit (e : Eng Grp) (k : Nat) (ord : List Nat) (V : Nat → Prop) (hc : CI n e ord)
    (h : SP e.w e.s.member V) :
    ((Eng.visit group e k).2 = none →
        SP (Eng.visit group e k).1.w (Eng.visit group e k).1.s.member (fun j => V j ∨ j = k)) ∧
    (∀ o, (Eng.visit group e k).2 = some o → SX n o (Eng.visit group e k).1) := by
  have hstd := h.gk.bc.std
  refine Eng.visit_ind group e k
    (fun r => (r.2 = none → SP r.1.w r.1.s.member (fun j => V j ∨ j = k)) ∧
      (∀ o, r.2 = some o → SX n o r.1)) ?_ ?_ ?_ ?_
  · intro hl _; rw [group_loopAny] at hl; exact Bool.noConfusion hl
  · -- skipped
    intro _ hg
    refine ⟨fun _ => ?_, fun o ho => by simp at ho⟩
    rw [gateGo_eq] at hg
    rw [gateW_eq]
    by_cases hel : e.s.st k = .pending
    · simp only [hel, if_true]
      have hb : e.w.bits k = false := by
        simp only [hel, decide_true, Bool.true_and] at hg
        exact bits_of_isSet_false hstd hg
      rw [clearReady_noop _ _ hstd hb]
      exact sp_skip_clear k hb h
    · simp only [hel, if_false]
      have hv : e.s.member k = none := by
        cases hm : e.s.member k with
        | none => rfl
        | some c => exact absurd ((hc.slab.stm k).mpr (by rw [hm]; simp)) hel
      exact sp_skip_vacant k hv h
  · -- the member's poll panicked
    intro _ hg hp
    have hel := elig_of_go hg
    obtain ⟨c, hmk⟩ := member_of_elig hc.slab k hel
    have hcc : group.child e.s k = c := by rw [group_child, hmk]; rfl
    rw [hcc] at hp ⊢
    refine ⟨fun hn => by simp at hn, ?_⟩
    intro o ho
    simp only [Option.some.injEq] at ho
    subst ho
    rw [group_panicEvs, group_onPanic, gateW_eq]
    simp only [hel, if_true]
    have hkc : k < e.w.cap := by
      rw [← hc.cap]; exact hc.slab.lt_cap k (by rw [hmk]; simp)
    have hsp := sp_polled c k hkc hmk (fun k' hk' => hc.link.inj hk' hmk) h
    refine ⟨hsp.gk, fun hh => by simp at hh, fun _ => ?_⟩
    simp only [World.emits_nil]
    exact panicSince_pollChild _ _ _ (by simpa [World.resOf, World.stepOf] using hp)
  · -- the member was polled and its result handled
    intro _ hg hp
    have hel := elig_of_go hg
    obtain ⟨c, hmk⟩ := member_of_elig hc.slab k hel
    have hcc : group.child e.s k = c := by rw [group_child, hmk]; rfl
    rw [hcc] at hp ⊢
    have hkc : k < e.w.cap := by
      rw [← hc.cap]; exact hc.slab.lt_cap k (by rw [hmk]; simp)
    have hsp := sp_polled c k hkc hmk (fun k' hk' => hc.link.inj hk' hmk) h
    have hgw : Eng.gateW group e k = e.w.clearReady k := by rw [gateW_eq]; simp [hel]
    rw [hgw]
    have hgd : (e.s.member k).getD 0 = c := by rw [hmk]; rfl
    have hsub : ∀ k' c', upd e.s.member k none k' = some c' → e.s.member k' = some c' := by
      intro k' c' hh
      by_cases hkk : k' = k
      · subst hkk; simp at hh
      · rwa [upd_other _ _ _ _ hkk] at hh
    have hevs : ∀ ev ∈ [Ev.childDropped c], isOwnEv ev = true := by simp [isOwnEv]
    generalize hr : e.w.resOf c = r at hp ⊢
    cases r with
    | panic => exact absurd rfl hp
    | pend =>
      rw [handle_pend]
      exact ⟨fun _ => by simpa [World.kop] using hsp, fun o ho => by simp at ho⟩
    | ready ok v =>
      rw [handle_ready, hgd]
      refine ⟨fun hn => by simp at hn, fun o ho => ?_⟩
      simp only [Option.some.injEq] at ho
      subst ho
      refine ⟨?_, fun hh => by simp at hh, fun hh => by simp at hh⟩
      simp only [Eng.applyH_w, Eng.applyH_s, World.kop, remSt_member]
      exact gk_emits_own _ hevs (gk_mono hsub hsp.gk)
    | item v =>
      rw [handle_item]
      refine ⟨fun hn => by simp at hn, fun o ho => ?_⟩
      simp only [Option.some.injEq] at ho
      subst ho
      refine ⟨?_, fun hh => by simp at hh, fun hh => by simp at hh⟩
      simp only [Eng.applyH_w, Eng.applyH_s, World.kop, flush_member, World.emits_nil]
      exact gk_setReady k (by simpa using hkc) hsp.gk
    | fin =>
      rw [handle_fin, hgd]
      refine ⟨fun _ => ?_, fun o ho => by simp at ho⟩
      simp only [Eng.applyH_w, Eng.applyH_s, World.kop, finSt_member]
      exact sp_emits_own _ hevs (sp_sub hsub hsp)

theorem sp_scan (ord : List Nat) : ∀ (l : List Nat) (e : Eng Grp) (V : Nat → Prop),
    CI n e ord → e.s.dead = false → SP e.w e.s.member V →
    ((Eng.scan group l e).2 = none →
        SP (Eng.scan group l e).1.w (Eng.scan group l e).1.s.member (fun j => V j ∨ j ∈ l)) ∧
    (∀ o, (Eng.scan group l e).2 = some o → SX n o (Eng.scan group l e).1) := by
  intro l
  induction l with
  | nil =>
    intro e V _ _ h
    exact ⟨fun _ => sp_mono (fun k hk => by simpa using hk) h, fun o ho => by simp [Eng.scan] at ho⟩
  | cons i rest ih =>
    intro e V hc hd h
    have hv1 := ci_visit e i ord hc hd
    have hv2 := sp_visit e i ord V hc h
    unfold Eng.scan
    cases hvis : (Eng.visit group e i).2 with
    | some o =>
      simp only
      exact ⟨fun hn => by simp at hn, fun o' ho' => by
        simp only [Option.some.injEq] at ho'; subst ho'; exact hv2.2 o hvis⟩
    | none =>
      simp only
      have := ih (Eng.visit group e i).1 (fun j => V j ∨ j = i) (hv1.1 hvis).1 (hv1.1 hvis).2
        (hv2.1 hvis)
      refine ⟨fun hs => sp_mono ?_ (this.1 hs), this.2⟩
      intro j hj
      simp only [List.mem_cons] at hj
      rcases hj with hj | hj | hj
      · exact Or.inl (Or.inl hj)
      · exact Or.inl (Or.inr hj)
      · exact Or.inr hj

/-- the invariant between operations -/
structure SB (n : Nat) (e : Eng Grp) : Prop where
  cb : CB n e
  gk : GK e.w e.s.member none
  mb : c01Boundaries n e.w.trace = true
  gj : alive e.w.trace = true → lastOut e.w.trace = some .pending →
         GJ e.w e.s.member none (fun _ => True)

theorem sb_of_exit (o : Outcome) {e : Eng Grp} (hcx : CX n e) (hsx : SX n o e) :
    SB n (e.emit (.pollEnd o)) := by
  refine ⟨cb_of_cx o hcx (fun ho => (hsx.pend ho).2), gk_pollEnd o hsx.gk hsx.pan, ?_, ?_⟩
  · simp only [Eng.emit_w, World.emit_trace]
    rw [mb_mid n _ _ hcx.inp]; exact hcx.mb
  · intro _ hlo
    simp only [Eng.emit_w, World.emit_trace, lastOut, Option.some.injEq] at hlo
    exact gj_emit _ rfl (hsx.pend hlo).1

theorem group_preAny (s : Grp) : group.preAny s = true := rfl

theorem sb_body (e : Eng Grp) (hc : CI n { e with s := group.start e.s } (group.order e.s))
    (hd : e.s.dead = false) (hq : e.s.queue = []) (h : SP e.w e.s.member (fun _ => False)) :
    SB n (Eng.body group e) := by
  have hstd := h.gk.bc.std
  unfold Eng.body
  split
  · rename_i hcnd
    simp only [group_preAny, Bool.true_and, Bool.not_eq_true'] at hcnd
    have h0 := anyReady_false_count hstd hcnd
    have hz := bc_count_zero h.gk.bc h0
    refine sb_of_exit .pending ⟨hc.slab, hc.link, hc.cap, hc.ok, hc.inp, hc.mb, hc.m20, fun _ => hq⟩
      ⟨h.gk, fun _ => ⟨gj_all_of_count_zero h.gk.bc h.gj h0, ?_⟩, fun hh => by simp at hh⟩
    exact c20At_sp n (s := group.start e.s) hc.link h (Or.inl hz)
  · have hs1 := ci_scan (group.order e.s) (group.order e.s) _ hc hd
    have hs2 := sp_scan (group.order e.s) (group.order e.s) { e with s := group.start e.s }
      (fun _ => False) hc hd h
    unfold Eng.close
    split
    · rename_i o ho; exact sb_of_exit o (hs1.2 o ho) (hs2.2 o ho)
    · rename_i hn
      obtain ⟨hci, _⟩ := hs1.1 hn
      have hsp := hs2.1 hn
      rw [finish_eq]
      simp only [Option.getD_some]
      refine sb_of_exit _ (by rw [← finish_eq]; exact cx_finish hci) ⟨?_, fun _ => ⟨?_, ?_⟩, ?_⟩
      · simpa [World.kop] using hsp.gk
      · simp only [Eng.applyH_w, Eng.applyH_s, World.kop, flush_member, World.emits_nil]
        refine ⟨hsp.gj.pw, fun k c _ hm => hsp.gj.j k c (Or.inr (hci.cov k (by rw [hm]; simp))) hm⟩
      · simp only [Eng.applyH_w, World.kop, World.emits_nil]
        exact c20At_sp n hci.link hsp (Or.inr (fun k c hm => Or.inr (hci.cov k (by rw [hm]; simp))))
      · intro hh; split at hh <;> simp at hh

theorem quiet_of_sb (e : Eng Grp) (h : SB n e) : quiet n e.w.trace = true := by
  unfold quiet
  cases ha : alive e.w.trace with
  | false => simp
  | true =>
    by_cases hlo : lastOut e.w.trace = some .pending
    · have hjs := h.gj ha hlo
      simp only [hlo, beq_self_eq_true, Bool.and_self, Bool.not_true, Bool.false_or,
        List.all_eq_true, List.mem_range]
      intro c _
      cases hw : wokeSince e.w.trace with
      | true => simp
      | false =>
        simp only [Bool.or_false, Bool.not_eq_true', Bool.and_eq_false_imp, Bool.and_eq_true,
          beq_iff_eq, Bool.not_eq_true', and_imp]
        intro hp hg
        cases ho : owes e.w.trace c with
        | false => rfl
        | true =>
          obtain ⟨k, hm⟩ := h.cb.link.f3 c (by rw [hp]; simp) hg
          have hb := h.gk.i2 k c hm ho (Or.inl hp)
          have := hjs.j k c trivial hm hb (Or.inl hp)
          rw [hw] at this
          exact Bool.noConfusion this
    · have : (lastOut e.w.trace == some Outcome.pending) = false := by simpa using hlo
      simp [this]

theorem sb_holds (e : Eng Grp) (h : SB n e) :
    holds_C01 n e.w.trace = true ∧ holds_C20 false n e.w.trace = true := by
  refine ⟨?_, h.cb.m20⟩
  unfold holds_C01
  simp [h.mb, quiet_of_sb e h, h.gk.nowp]

theorem sb_poll (e : Eng Grp) (wid : Nat) (h : SB n e) : SB n (Eng.poll group e wid) := by
  have hq := quiet_of_sb e h
  have hmb1 : c01Boundaries n (Ev.pollBegin wid :: e.w.trace) = true := mb_startsOp n _ _ h.mb hq
  unfold Eng.poll
  split
  · rename_i o ho
    have hne : o ≠ .pending ∧ o ≠ .panicked := by
      rw [pre_eq] at ho
      split at ho
      · simp only [Option.some.injEq] at ho; subst ho; simp
      · split at ho
        · simp only [Option.some.injEq] at ho; subst ho; simp
        · simp at ho
    refine ⟨cb_pre e wid o hne.1 h.cb, gk_pollEnd o (gk_emit _ rfl h.gk) (fun hh => absurd hh hne.2),
      mb_notOp n _ _ hmb1 rfl, ?_⟩
    intro _ hlo
    simp only [Eng.emit_w, World.emit_trace, lastOut, Option.some.injEq] at hlo
    exact absurd hlo hne.1
  · rename_i hp
    have hd := pre_none_live hp
    refine sb_body _ (ci_begin e wid h.cb hmb1) hd (h.cb.qe hd) ?_
    refine ⟨gk_setWaker wid (gk_emit _ rfl h.gk), ⟨⟨wid, by simp, by simp [cur]⟩, ?_⟩, ?_, ?_⟩
    · intro k c hv; exact absurd hv (by simp)
    · intro k c hv; exact absurd hv (by simp)
    · intro k c hm h1 h2
      simp only [World.setWaker_trace, World.emit_trace, atPollBegin] at h1 h2
      right
      exact ⟨by simp, h.gk.i2 k c hm h2 (Or.inl h1)⟩

/-! ### operations between polls -/

/-- an operation that only logs an event -/
theorem sb_emit (e : Eng Grp) (ev : Ev) (hn : opNeutral ev = true) (hd : ev ≠ .dropBegin)
    (h : SB n e) : SB n { e with w := e.w.emit ev } := by
  have hq := quiet_of_sb e h
  refine ⟨cb_emit e ev hn h.cb,
    gk_emit ev (by cases ev <;> simp_all [opNeutral, ksNeutral]) h.gk, mb_startsOp n _ _ h.mb hq, ?_⟩
  intro ha hlo
  simp only [World.emit_trace, alive_opNeutral ev _ hn hd, lastOut_opNeutral ev _ hn] at ha hlo
  exact gj_emit ev (by cases ev <;> simp_all [opNeutral, jsNeutral]) (h.gj ha hlo)

theorem sb_fire (e : Eng Grp) (c a : Nat) (h : SB n e) : SB n (e.fire c a) := by
  have hm := mb_fire n e.w c a h.mb (quiet_of_sb e h) h.cb.out
  refine ⟨cb_fire e c a h.cb, gk_fire c a h.gk, hm.1, ?_⟩
  intro ha hlo
  simp only [Eng.fire_w, alive_fire, lastOut_fire] at ha hlo
  exact gj_fire c a h.gk (h.gj ha hlo)

theorem sb_drop (e : Eng Grp) (h : SB n e) : SB n (Eng.drop group e) := by
  have hcb := cb_drop e h.cb
  unfold Eng.drop at hcb ⊢
  have hevs := dropEvs_own e.s
  have hq := quiet_of_sb e h
  have h1 : c01Boundaries n (Ev.dropBegin :: e.w.trace) = true := mb_startsOp n _ _ h.mb hq
  have h2 := mb_own_dead n (group.dropEvs e.s).reverse (Ev.dropBegin :: e.w.trace)
    (fun e' he' => hevs e' (List.mem_reverse.mp he')) rfl h1
  refine ⟨hcb, ?_, ?_, ?_⟩
  · exact gk_emit _ rfl (gk_emits_own _ hevs (gk_emit _ rfl h.gk))
  · simp only [World.emit_trace, World.emits_trace]
    exact mb_notOp n _ _ h2.1 rfl
  · intro ha
    simp only [World.emit_trace, World.emits_trace, alive] at ha
    rw [h2.2] at ha; exact Bool.noConfusion ha

theorem sb_reserve (e : Eng Grp) (a : Nat) (h : SB n e) : SB n (GEng.reserve e a) := by
  have hcb := cb_reserve e a h.cb
  unfold GEng.reserve at hcb ⊢
  split
  · exact h
  · rename_i hc
    simp only [hc, if_false] at hcb
    have ht := GEng.resize_trace e.w (e.s.capacity + a)
    refine ⟨hcb, gk_resize _ h.gk, by rw [ht]; exact h.mb, ?_⟩
    intro ha hlo
    rw [ht] at ha hlo
    refine gj_resize _ ?_ (h.gj ha hlo)
    intro k c hm
    rw [← h.cb.cap]; exact h.cb.slab.lt_cap k (by rw [hm]; simp)

theorem sb_grow (e : Eng Grp) (h : SB n e) : SB n (GEng.grow e) := by
  unfold GEng.grow; split
  · exact sb_reserve e _ h
  · exact h

theorem sb_insertAt (e : Eng Grp) (c : Nat) (b : Bool) (h : SB n e) (hd : e.s.dead = false)
    (hl : e.s.len < e.s.capacity) (hf : keyOf e.w.trace c = none) : SB n (GEng.insertAt e c b) := by
  have hcb := cb_insertAt e c b h.cb hd hl hf
  have hnc : e.s.next < e.w.cap := by rw [← h.cb.cap]; exact h.cb.slab.next_ok.2 hl
  have hvac := h.cb.slab.next_ok.1
  have hstd := h.gk.bc.std
  have hlw : lastWk e.w.trace c = none := by
    cases hh : lastWk e.w.trace c with
    | none => rfl
    | some wk => exact absurd hf (h.cb.link.fw c (by rw [hh]; simp))
  have hlr : lastRes e.w.trace c = none := by
    cases hh : lastRes e.w.trace c with
    | none => rfl
    | some r => exact absurd hf (h.cb.link.fr c (by rw [hh]; simp))
  have hnm : ∀ k', e.s.member k' ≠ some c := by
    intro k' hk'; have := h.cb.link.f1 k' c hk'; rw [hf] at this; simp at this
  have hq := quiet_of_sb e h
  refine ⟨hcb, ?_, ?_, ?_⟩
  · rw [insertAt_s, insertAt_w, insSt_member]
    refine gk_emit _ rfl (gk_add e.s.next c ?_ (by simpa using hlw) hnm (gk_setReady _ hnc h.gk))
    rw [World.setReady_bits_std _ _ hstd]; simp
  · rw [insertAt_w]
    simp only [World.emit_trace, World.setReady_trace]
    exact mb_startsOp n _ _ h.mb hq
  · intro ha hlo
    rw [insertAt_w] at ha hlo
    simp only [World.emit_trace, World.setReady_trace, alive, lastOut] at ha hlo
    rw [insertAt_s, insertAt_w, insSt_member]
    refine gj_emit _ rfl (gj_add e.s.next c (by simpa using hlr) (gj_setReady _ hstd (h.gj ha hlo) ?_))
    left
    intro c' hc'; rw [hvac] at hc'; simp at hc'

theorem sb_remove (e : Eng Grp) (j : Nat) (h : SB n e) (hd : e.s.dead = false) :
    SB n (GEng.remove e j) := by
  rcases remove_cases e j h.cb.slab (h.cb.qe hd) with h1 | ⟨k, h1⟩ | ⟨k, c, hm, h1⟩
  · rw [h1]; exact h
  · rw [h1]; exact sb_emit e _ rfl (by simp) h
  · rw [h1]
    have hq := quiet_of_sb e h
    have hsub : ∀ k' c', upd e.s.member k none k' = some c' → e.s.member k' = some c' := by
      intro k' c' hh
      by_cases hkk : k' = k
      · subst hkk; simp at hh
      · rwa [upd_other _ _ _ _ hkk] at hh
    refine ⟨cb_removed e k c hm h.cb, ?_, ?_, ?_⟩
    · simp only [remSt_member]
      exact gk_emit _ rfl (gk_emit _ rfl (gk_mono hsub h.gk))
    · simp only [World.emit_trace]
      exact mb_startsOp n _ _ (mb_startsOp n _ _ h.mb hq) (quiet_childDropped n c _ hq)
    · intro ha hlo
      simp only [World.emit_trace, alive, lastOut] at ha hlo
      simp only [remSt_member]
      exact gj_emit _ rfl (gj_emit _ rfl (gj_mono (fun _ hk => hk) hsub (h.gj ha hlo)))

theorem sb_steps : Steps (SB n) where
  poll := sb_poll
  fire := sb_fire
  drop := sb_drop
  ins := by
    intro e c b h hd hf
    have hg := cb_grow e h.cb
    exact sb_insertAt _ c b (sb_grow e h) (by rw [hg.2.2]; exact hd) hg.2.1 (by rw [grow_trace]; exact hf)
  rem := sb_remove
  res := sb_reserve
  qry := by intro e q a h; exact sb_emit e _ rfl (by simp) h

theorem sb_init (n : Nat) (a b : Bool) (scripts : Nat → List Step)
    (hk : ScriptsOk (fun _ r => r.fits a = true) (World.init .std 0 scripts)) :
    SB n (GEng.init a b .std scripts) := by
  refine ⟨⟨slab_init a b, link_init a b, rfl, hk, rfl, rfl, fun _ => rfl⟩,
    ⟨⟨rfl, rfl, fun i _ => by simp [GEng.init, World.init]⟩, ?_, ?_, ?_, ?_, ?_, rfl⟩, rfl, ?_⟩
  · intro c wk hw; simp [GEng.init, World.init] at hw
  · intro ⟨c, hc⟩; simp [GEng.init, World.init] at hc
  · intro k c hm; simp [GEng.init, Grp.init] at hm
  · intro k c hm; simp [GEng.init, Grp.init] at hm
  · intro k c hm; simp [GEng.init, Grp.init] at hm
  · intro _ hlo; simp [GEng.init, World.init, lastOut] at hlo

end G
end Fc
