/-
  FcLemmas/KTieZipTMain.lean — tuple zip (`(A, B, …).zip()`), ported from FcLemmas/KTieZipAMain.lean: the translated
  `Zip::poll_next` (FcGen/KSrcTup4.lean) refines `Eng.poll zip`.  The loop body is taken from the generated definition by
  unification (`refine zt_loop_bind …`); the proofs use the role abbreviations only (`unroles`) and let `simp` compute
  through the translated code, which is why the three places where the tuple text differs from the array text need no
  separate argument: the gate written as two nested `if`s (`is_ready`, then `clear_ready`) reduces with the same facts
  (`hisr`, `hc1`); `assert!(index < N)` before the child poll is discharged by the loop bound `hi : i < n` in the simp
  set; and the continuation `if all_ready { … }` duplicated into the `Pending` arm (with `all_ready := false`) is dead
  code that `↓reduceIte` removes.
-/
import FcLemmas.KTieZipTLoop
import FcLemmas.KTieSteps

set_option linter.unusedSimpArgs false
set_option linter.unusedVariables false

namespace Fc
open Rs Src

namespace TieZipT
open ZipT

local macro "unroles" : tactic =>
  `(tactic| try simp only [Zip.roleKids, Zip.roleItems, Zip.roleWakers, Zip.roleStates,
      Zip.roleDone] at *)

/-- re-establishing `zt_Rel` after a step that leaves the children and the table sizes alone -/
theorem zt_Rel.update {n k o : Nat} {e : Eng Fix} {g : Zip} {env : World} (hR : zt_Rel n k o e g env)
    (e' : Eng Fix) (g' : Zip) (env' : World)
    (hw : e'.w = TieArr.abs g'.roleWakers.readiness env')
    (hn : e'.s.n = e.s.n) (hk : g'.roleKids = g.roleKids)
    (hst : e'.s.st = fun i => TiePS.abs (g'.roleStates.get i))
    (hout : e'.s.out = g'.roleItems.get)
    (hcnt : e'.s.cnt = e.s.cnt) (hoff : e'.s.off = e.s.off)
    (hdead : e'.s.dead = g'.roleDone)
    (hrd : TieArr.Wf n g'.roleWakers.readiness)
    (hsl : g'.roleStates.len = g.roleStates.len)
    (hic : g'.roleItems.cap = n)
    (hpar : g'.roleWakers.readiness.roleParent ≠ none)
    (hin : HandedIn n env') (hsok : StreamStepsF env')
    (hrs : ∀ i, i < n → ((g'.roleStates.get i = PS.PollState.pending ∧ g'.roleItems.get i = none) ∨
        (g'.roleStates.get i = PS.PollState.ready ∧ ∃ v, g'.roleItems.get i = some v))) :
    zt_Rel n k o e' g' env' where
  ew := hw
  en := by rw [hn, hR.en]
  kids := by rw [hk, hR.kids]
  st := hst
  out := hout
  cnt := by rw [hcnt, hR.cnt]
  off := by rw [hoff, hR.off]
  dead := hdead
  rd := hrd
  sl := by rw [hsl, hR.sl]
  ic := hic
  par := hpar
  hin := hin
  sok := hsok
  rs := hrs

/-- what `zt_Rel` at the end of the scan says about the model state after the closing `pollEnd` -/
theorem zt_post_of_rel {n : Nat} {X : Eng Fix} {g' : Zip} {env' : World} {b : Eng Fix}
    (hR : zt_Rel n b.s.cnt b.s.off X g' env') (o : Outcome) :
    jcore (absZ g' b) = jcore (X.emit (.pollEnd o)) ∧ env'.scripts = (X.emit (.pollEnd o)).w.scripts ∧
      env'.handed = (X.emit (.pollEnd o)).w.handed ∧ (X.emit (.pollEnd o)).w.trace = .pollEnd o :: env'.trace := by
  obtain ⟨hw, hen, hk, hst, hout, hcnt, hoff, hdead, hrd, hsl, hic, hpar, hhin, hsok, hrs⟩ := hR
  refine ⟨?_, ?_, ?_, ?_⟩
  · simp only [jcore, fcore, absZ, Eng.emit, World.emit, hw, hen, hk, hst, hout, hcnt, hoff, hdead]
    rfl
  · simp only [Eng.emit, World.emit, hw]; rfl
  · simp only [Eng.emit, World.emit, hw]; rfl
  · simp only [Eng.emit, World.emit, hw]; rfl

theorem zt_wfz_of_rel {n k o : Nat} {X : Eng Fix} {g' : Zip} {env' : World} (hR : zt_Rel n k o X g' env') (hn : 0 < n) :
    WfZ n g' := by
  obtain ⟨hw, hen, hk, hst, hout, hcnt, hoff, hdead, hrd, hsl, hic, hpar, hhin, hsok, hrs⟩ := hR
  exact ⟨hk, hrd, hsl, hic, hn, hrs⟩

/-- the refinement, together with the facts about the environment that the next poll needs again -/
theorem zt_poll_tie_core (N : Nat) (g : Zip) (b : Eng Fix) (w : Nat) (hW : WfZ N g) (hS : StreamStepsF b.w)
    (hH : HandedIn N b.w) (hd : g.roleDone = false) :
    ∃ g' env' ret,
      Zip.poll_next N g w ((absZ g b).w.emit (.pollBegin w)) = some (g', env', ret) ∧
      WfZ N g' ∧
      (jcore (absZ g' b) = jcore (Eng.poll zip (absZ g b) w) ∧
       env'.scripts = (Eng.poll zip (absZ g b) w).w.scripts ∧
       env'.handed = (Eng.poll zip (absZ g b) w).w.handed ∧
       (Eng.poll zip (absZ g b) w).w.trace = .pollEnd (outcomeOfZip ret) :: env'.trace) ∧
      g'.roleKids.len = N ∧ HandedIn N env' ∧ StreamStepsF env' := by
  obtain ⟨hkn, hrd, hsl, hic, hpos, hrs⟩ := hW
  subst hkn
  suffices h : ∃ g' env' ret, Zip.poll_next g.roleKids.len g w ((absZ g b).w.emit (.pollBegin w)) = some (g', env', ret) ∧
      ∃ X, zt_Rel g.roleKids.len b.s.cnt b.s.off X g' env' ∧
        Eng.poll zip (absZ g b) w = X.emit (.pollEnd (outcomeOfZip ret)) by
    obtain ⟨g', env', ret, h1, X, hR, hp⟩ := h
    refine ⟨g', env', ret, h1, zt_wfz_of_rel hR hpos, ?_, hR.kids, hR.hin, hR.sok⟩
    rw [hp]; exact zt_post_of_rel hR _
  have hpoll := TieZipV.zp_poll_unfold (absZ g b) w hd
  obtain ⟨r1, hs1, hs2, hs3⟩ := TieArr.set_waker_tie g.roleKids.len g.roleWakers.readiness
    ((absZ g b).w.emit (.pollBegin w)) w hrd
  have hparent : r1.roleParent ≠ none := by
    have := congrArg World.parent hs3
    simp at this
    rw [this]; simp
  have hl : ∀ i ∈ List.range g.roleKids.len, i < g.roleKids.len := fun i hi => List.mem_range.mp hi
  unfold Zip.poll_next
  unroles
  simp only [hd, hs1, Bool.not_false, Option.bind_eq_bind, Option.bind_some, Option.pure_def, ↓reduceIte]
  refine zt_loop_bind g.roleKids.len b.s.cnt b.s.off _ ?hF _
    { w := ((absZ g b).w.emit (.pollBegin w)).setWaker w, s := (absZ g b).s } _ _ ?hR hl _ _ ?hK
  case hF =>
    clear hs1 hs2 hs3 hrd hsl hic hpos hrs hH hS hd hpoll hl hparent
    generalize g.roleKids.len = n at *
    generalize b.s.cnt = k at *
    generalize b.s.off = o at *
    clear g
    intro e g env i hR hi
    dsimp only
    have hR0 := hR
    obtain ⟨hw, hen, hk, hst, hout, hcnt, hoff, hdead, hrd, hsl, hic, hpar, hhin, hsok, hrs⟩ := hR
    have ha := TieArr.any_ready_tie n g.roleWakers.readiness env
    obtain ⟨r2, hc1, hc2, hc3⟩ := TieArr.clear_ready_tie n g.roleWakers.readiness env i hrd hi
    have hpar2 : r2.roleParent ≠ none := by
      have := congrArg World.parent hc3
      simp at this
      rw [this]; exact hpar
    have hidx : Rs.PVec.idx g.roleStates i = some (g.roleStates.get i) := by
      simp [Rs.PVec.idx, hsl, hi]
    have hisr := (TiePS.tie (g.roleStates.get i)).2.2.1
    have hkid : Rs.Kids.get g.roleKids i = some i := by simp [Rs.Kids.get, hk, hi]
    obtain ⟨r3, env3, hp1, hp2, hp3, hp4, hp5, hp6⟩ := TieZipA.za_pollChild_tieM n r2 env i i hc2 hpar2 hhin hi
    have hsok3 := hsok.tail i hp6
    try simp only [TieZipA.za_wakeA] at hp1
    cases hany : (TieArr.abs g.roleWakers.readiness env).anyReady
    · -- nothing is ready
      have hv := TieZipV.zp_visit_noReady e i (by rw [hw]; exact hany)
      unroles
      simp only [ha, hany, Option.bind_some, Bool.not_false, ↓reduceIte]
      refine ⟨_, _, _, rfl, ?_, Or.inr ⟨_, rfl, ?_⟩⟩
      · rw [hv]; exact hR0
      · rw [hv]; rfl
    · have hany' : e.w.anyReady = true := by rw [hw]; exact hany
      by_cases hsr : TiePS.abs (g.roleStates.get i) = .ready
      · -- the slot already buffers an item
        have hv := TieZipV.zp_visit_ready e i hany' (by rw [hst]; exact hsr)
        unroles
        simp only [ha, hany, hidx, hisr, hsr, decide_true, Option.bind_some, Bool.not_false, Bool.not_true,
          Bool.false_eq_true, ↓reduceIte]
        refine ⟨_, _, _, rfl, ?_, Or.inl ⟨rfl, ?_⟩⟩
        · rw [hv]; exact hR0
        · rw [hv]
      · have hsr' : e.s.st i ≠ .ready := by rw [hst]; exact hsr
        cases hset : (TieArr.abs g.roleWakers.readiness env).isSet i
        · -- the flag of the slot is clear
          have hv := TieZipV.zp_visit_clear e i hany' hsr' (by rw [hw]; exact hset)
          rw [hset] at hc1
          unroles
          simp only [ha, hany, hidx, hisr, hsr, hc1, decide_false, Option.bind_some, Bool.not_false, Bool.not_true,
            Bool.false_eq_true, ↓reduceIte]
          refine ⟨_, _, _, rfl, ?_, Or.inl ⟨rfl, ?_⟩⟩
          · rw [hv]
            refine hR0.update _ _ _ ?_ rfl rfl hst hout rfl rfl hdead hc2 rfl hic hpar2 hhin hsok hrs
            unroles
            rw [hc3, hw]
          · rw [hv]
        · -- the child is polled
          have hset' : e.w.isSet i = true := by rw [hw]; exact hset
          rw [hset] at hc1
          have hres' : e.w.resOf i = env.resOf i := by rw [hw]; rfl
          unroles
          simp only [ha, hany, hidx, hisr, hsr, hc1, decide_false, Option.bind_some, Bool.not_false, Bool.not_true,
            Bool.false_eq_true, ↓reduceIte, WakerArray.get, hi, hkid, Rs.expect, Rs.pollStream, hp1]
          rcases hsok.resOf i with hres | hres | ⟨v, hres⟩
          · -- Pending
            have hv := TieZipV.zp_visit_pend e i hany' hsr' hset' (by rw [hres', hres])
            simp only [hres, Option.bind_some]
            refine ⟨_, _, _, rfl, ?_, Or.inl ⟨rfl, ?_⟩⟩
            · rw [hv]
              refine hR0.update _ _ _ ?_ rfl rfl hst hout rfl rfl hdead hp2 rfl hic hp3 hp5 hsok3 hrs
              unroles
              rw [hp4, hc3, hw]
            · rw [hv]
          · -- the stream ended
            have hv := TieZipV.zp_visit_fin e i hany' hsr' hset' (by rw [hres', hres])
            simp only [hres, Option.bind_some]
            refine ⟨_, _, _, rfl, ?_, Or.inr ⟨_, rfl, ?_⟩⟩
            · rw [hv]
              refine hR0.update _ _ _ ?_ rfl rfl hst hout rfl rfl rfl hp2 rfl hic hp3 hp5 hsok3 hrs
              unroles
              rw [hp4, hc3, hw]
            · rw [hv]; rfl
          · -- an item
            obtain ⟨q, hq1, hq2⟩ := (TiePS.tie (g.roleStates.get i)).2.2.2.2.2
            have hwr : Rs.OutVec.write g.roleItems i v
                = some ⟨g.roleItems.cap, fun j => if j = i then some v else g.roleItems.get j⟩ := by
              simp [Rs.OutVec.write, hic, hi]
            have hset2 : Rs.PVec.set g.roleStates i q
                = some ⟨g.roleStates.len, fun j => if j = i then q else g.roleStates.get j⟩ := by
              simp [Rs.PVec.set, hsl, hi]
            have hisrf : (fun s => PS.PollState.is_ready s) = fun s => some (decide (TiePS.abs s = .ready)) := by
              funext s; exact (TiePS.tie s).2.2.1
            have hall : Rs.PVec.allOf (⟨g.roleStates.len, fun j => if j = i then q else g.roleStates.get j⟩ :
                  Rs.PVec PS.PollState) (fun s => PS.PollState.is_ready s)
                = some (({ e.s with st := upd e.s.st i .ready } : Fix).allReady) := by
              rw [hisrf, TieZipV.zp_allOf]
              simp only [Fix.allReady, hen, hsl, hst]
              congr 1
              apply List.all_congr rfl
              intro j
              by_cases hj : j = i <;> simp [upd, hj, hq2]
            unroles
            simp only [hres, Option.bind_some, hwr, hidx, hq1, hset2, hall]
            cases hB : ({ e.s with st := upd e.s.st i .ready } : Fix).allReady
            · -- the row is not complete yet
              have hv := TieZipV.zp_visit_item_more e i v hany' hsr' hset' (by rw [hres', hres]) hB
              simp only [Bool.false_eq_true, ↓reduceIte]
              refine ⟨_, _, _, rfl, ?_, Or.inl ⟨rfl, ?_⟩⟩
              · rw [hv]
                refine hR0.update _ _ _ ?_ rfl rfl ?_ ?_ rfl rfl hdead hp2 rfl hic hp3 hp5 hsok3 ?_
                · unroles
                  rw [hp4, hc3, hw]
                · unroles
                  funext j
                  by_cases hj : j = i <;> simp [upd, hj, hq2, hst]
                · unroles
                  funext j
                  by_cases hj : j = i <;> simp [upd, hj, hout]
                · intro j hj
                  unroles
                  by_cases hji : j = i
                  · subst hji
                    right
                    refine ⟨?_, v, by simp⟩
                    cases q <;> simp [TiePS.abs] at hq2 ⊢
                  · simp only [hji, ↓reduceIte]
                    exact hrs j hj
              · rw [hv]
            · -- the row is complete: hand it out, re-arm every slot
              have hv := TieZipV.zp_visit_item_all e i v hany' hsr' hset' (by rw [hres', hres]) hB
              obtain ⟨r4, ha1, ha2, ha3⟩ := TieArr.set_all_ready_tie n r3 env3 hp2
              have hpar4 : r4.roleParent ≠ none := by
                have := congrArg World.parent ha3
                simp at this
                rw [this]; exact hp3
              have hfull : ∀ j, j < g.roleItems.cap →
                  ∃ v', (if j = i then some v else g.roleItems.get j) = some v' := by
                intro j hj
                by_cases hji : j = i
                · exact ⟨v, by simp [hji]⟩
                · simp only [hji, ↓reduceIte]
                  have hj' : j < n := by rw [← hic]; exact hj
                  have hBj := (List.all_eq_true.mp hB) j (List.mem_range.mpr (by rw [hen]; exact hj'))
                  simp [upd, hji, hst] at hBj
                  rcases hrs j hj' with ⟨h1, _⟩ | ⟨_, h2⟩
                  · rw [h1] at hBj; simp [TiePS.abs] at hBj
                  · exact h2
              have hai := TieZipV.zp_assumeInit
                ⟨g.roleItems.cap, fun j => if j = i then some v else g.roleItems.get j⟩ hfull
              unroles
              simp only [ha1, hai, Option.bind_some, ↓reduceIte]
              refine ⟨_, _, _, rfl, ?_, Or.inr ⟨_, rfl, ?_⟩⟩
              · rw [hv]
                refine hR0.update _ _ _ ?_ rfl rfl rfl rfl rfl rfl hdead ha2 rfl rfl hpar4 hp5 hsok3 ?_
                · unroles
                  rw [ha3, hp4, hc3, hw]
                · intro j hj
                  exact Or.inl ⟨rfl, rfl⟩
              · rw [hv]
                simp only [outcomeOfZip, Fix.outs, hen, hic, hout]
                rfl
  case hR =>
    refine ⟨?_, rfl, rfl, rfl, rfl, rfl, rfl, hd, hs2, hsl, hic, hparent, ?_, hS, hrs⟩
    · unroles
      rw [hs3]; rfl
    · intro c i hm; exact hH c i hm
  case hK =>
    intro g' env' r hR' hcase
    rcases hcase with ⟨rfl, hx⟩ | ⟨v, rfl, hx⟩
    · refine ⟨_, _, _, rfl, _, hR', ?_⟩
      rw [hpoll]
      exact TieZipV.zp_close_none _ hx
    · refine ⟨_, _, _, rfl, _, hR', ?_⟩
      rw [hpoll]
      exact TieZipV.zp_close_some _ _ hx

theorem zt_poll_tie_main : poll_tie_statement := by
  intro N g b w hW hS hH hd
  obtain ⟨g', env', ret, h1, h2, ⟨h3, h4, h5, h6⟩, _⟩ := zt_poll_tie_core N g b w hW hS hH hd
  exact ⟨g', env', ret, h1, fun _ => h2, h3, h4, h5, h6⟩

end TieZipT
end Fc
