/-
  FcLemmas/C19.lean — wait_until (future and stream): the phase counter `cnt` mirrors whether the
  deadline's latest answer was `Ready`; the inner child is only polled in phase 1, the deadline
  only in phase 0, and every outcome in phase 1 is the inner child's answer of the same poll.
-/
import FcLemmas.Seg
set_option linter.unusedSimpArgs false
set_option linter.unusedVariables false

namespace Fc
namespace C19
open Mon Fix

/-! ### the observations of C19 across the segments the engine appends -/

theorem holds_fireEv (e : Ev) (t : List Ev) (h : isFireEv e = true) :
    holds_C19 (e :: t) = holds_C19 t := by
  cases e <;> simp_all [isFireEv, holds_C19]

theorem holds_own (e : Ev) (t : List Ev) (h : isOwnEv e = true) :
    holds_C19 (e :: t) = holds_C19 t := by
  cases e <;> simp_all [isOwnEv, holds_C19]

theorem holds_fires (l t : List Ev) (hl : ∀ e ∈ l, isFireEv e = true) :
    holds_C19 (l ++ t) = holds_C19 t :=
  skip_seg holds_C19 isFireEv holds_fireEv l hl t

theorem holds_owns (l t : List Ev) (hl : ∀ e ∈ l, isOwnEv e = true) :
    holds_C19 (l ++ t) = holds_C19 t :=
  skip_seg holds_C19 isOwnEv holds_own l hl t

theorem inPoll_owns (l t : List Ev) (hl : ∀ e ∈ l, isOwnEv e = true) :
    inPoll (l ++ t) = inPoll t :=
  skip_seg inPoll isOwnEv inPoll_own l hl t

theorem everPolled_owns (l t : List Ev) (c : Nat) (hl : ∀ e ∈ l, isOwnEv e = true) :
    everPolled (l ++ t) c = everPolled t c :=
  skip_seg (fun t => everPolled t c) isOwnEv (fun e t h => everPolled_own c e t h) l hl t

theorem polledSince_owns (l t : List Ev) (c : Nat) (hl : ∀ e ∈ l, isOwnEv e = true) :
    polledSince (l ++ t) c = polledSince t c :=
  skip_seg (fun t => polledSince t c) isOwnEv (fun e t h => polledSince_own c e t h) l hl t

theorem deadlineDone_fires (l t : List Ev) (hl : ∀ e ∈ l, isFireEv e = true) :
    deadlineDone (l ++ t) = deadlineDone t := by
  simp [deadlineDone, resolvedVal_fires l t 0 hl]

theorem rev_own {evs : List Ev} (he : ∀ e ∈ evs, isOwnEv e = true) :
    ∀ e ∈ evs.reverse, isOwnEv e = true := fun e h => he e (List.mem_reverse.mp h)

/-- the monitor across one child poll: the clause of `childBegin` -/
theorem holds_pollSeg (c slot : Nat) (wk : Wk) (l : List Ev) (r : Res) (evs t : List Ev)
    (hl : ∀ e ∈ l, isFireEv e = true) (he : ∀ e ∈ evs, isOwnEv e = true) :
    holds_C19 (pollSeg c slot wk l r evs t) =
      (holds_C19 t && (if c = 0 then !deadlineDone t else deadlineDone t) && inPoll t) := by
  unfold pollSeg
  rw [holds_owns _ _ (rev_own he)]
  simp only [holds_C19]
  rw [holds_fires _ _ hl]
  simp only [holds_C19]

theorem inPoll_pollSeg (c slot : Nat) (wk : Wk) (l : List Ev) (r : Res) (evs t : List Ev)
    (hl : ∀ e ∈ l, isFireEv e = true) (he : ∀ e ∈ evs, isOwnEv e = true) :
    inPoll (pollSeg c slot wk l r evs t) = inPoll t := by
  unfold pollSeg
  rw [inPoll_owns _ _ (rev_own he)]
  simp only [inPoll]
  rw [inPoll_fires _ _ hl]
  simp only [inPoll]

theorem everPolled_pollSeg (c slot : Nat) (wk : Wk) (l : List Ev) (r : Res) (evs t : List Ev)
    (j : Nat) (hl : ∀ e ∈ l, isFireEv e = true) (he : ∀ e ∈ evs, isOwnEv e = true) :
    everPolled (pollSeg c slot wk l r evs t) j = (decide (c = j) || everPolled t j) := by
  unfold pollSeg
  rw [everPolled_owns _ _ _ (rev_own he)]
  simp only [everPolled]
  rw [everPolled_fires _ _ _ hl]
  simp only [everPolled]

theorem polledSince_pollSeg (c slot : Nat) (wk : Wk) (l : List Ev) (r : Res) (evs t : List Ev)
    (j : Nat) (hl : ∀ e ∈ l, isFireEv e = true) (he : ∀ e ∈ evs, isOwnEv e = true) :
    polledSince (pollSeg c slot wk l r evs t) j = (decide (c = j) || polledSince t j) := by
  unfold pollSeg
  rw [polledSince_owns _ _ _ (rev_own he)]
  simp only [polledSince]
  rw [polledSince_fires _ _ _ hl]
  simp only [polledSince]

/-- is this answer `Ready`? -/
def isReady : Res → Bool
  | .ready _ _ => true
  | _ => false

theorem deadlineDone_pollSeg (c slot : Nat) (wk : Wk) (l : List Ev) (r : Res) (evs t : List Ev)
    (hl : ∀ e ∈ l, isFireEv e = true) (he : ∀ e ∈ evs, isOwnEv e = true) :
    deadlineDone (pollSeg c slot wk l r evs t) = if c = 0 then isReady r else deadlineDone t := by
  unfold deadlineDone
  rw [resolvedVal_pollSeg c slot wk l r evs t 0 hl he]
  split
  · cases r <;> rfl
  · rfl

/-- what an answer of the inner child means for the caller (`innerOutcome` on one answer) -/
def resOut : Res → Option Outcome
  | .pend => some .pending
  | .ready _ v => some (.ready true [v])
  | .item v => some (.some 0 [v])
  | .fin => some .none
  | .panic => none

theorem innerOutcome_pollSeg (slot : Nat) (wk : Wk) (l : List Ev) (r : Res) (evs t : List Ev)
    (hl : ∀ e ∈ l, isFireEv e = true) (he : ∀ e ∈ evs, isOwnEv e = true) :
    innerOutcome (pollSeg 1 slot wk l r evs t) = resOut r := by
  unfold innerOutcome
  rw [lastRes_pollSeg 1 slot wk l r evs t 1 hl he]
  cases r <;> rfl

/-- observations that look through a `pollEnd` / `pollBegin` -/
theorem deadlineDone_pe (o : Outcome) (t : List Ev) :
    deadlineDone (.pollEnd o :: t) = deadlineDone t := by
  simp [deadlineDone, resolvedVal, lastRes]

theorem deadlineDone_pb (w : Nat) (t : List Ev) :
    deadlineDone (.pollBegin w :: t) = deadlineDone t := by
  simp [deadlineDone, resolvedVal, lastRes]

theorem spent_pb (w : Nat) (t : List Ev) : spent false (.pollBegin w :: t) = spent false t := by
  simp [spent, finalSeen, alive, panickedSeen]

/-! ### the invariants -/

/-- between operations -/
structure Inv (s : Fix) (t : List Ev) : Prop where
  mon : holds_C19 t = true
  hn : s.n = 2
  np : inPoll t = false
  live : s.dead = false →
    (s.cnt = 0 ∧ deadlineDone t = false ∧ everPolled t 1 = false) ∨
    (s.cnt = 1 ∧ deadlineDone t = true)
  dead : s.dead = true → spent false t = true

/-- inside a poll, `l` = the slots still to be scanned: `[0, 1]` while the deadline is pending
    (phase 0), `[1]` once it has resolved (phase 1).  The scan never falls through. -/
def J (s : Fix) (t : List Ev) (l : List Nat) : Prop :=
  holds_C19 t = true ∧ s.n = 2 ∧ inPoll t = true ∧ s.dead = false ∧
  ((l = [0, 1] ∧ s.cnt = 0 ∧ deadlineDone t = false ∧ everPolled t 1 = false) ∨
   (l = [1] ∧ s.cnt = 1 ∧ deadlineDone t = true))

theorem inv_fireEv {s t} (e : Ev) (he : isFireEv e = true) (h : Inv s t) : Inv s (e :: t) := by
  have hl : ∀ e' ∈ [e], isFireEv e' = true := by simpa using he
  have e1 := holds_fires [e] t hl
  have e2 := inPoll_fires [e] t hl
  have e3 := spent_fires false [e] t hl
  have e4 := deadlineDone_fires [e] t hl
  have e5 := everPolled_fires [e] t 1 hl
  simp only [List.singleton_append] at e1 e2 e3 e4 e5
  exact ⟨by rw [e1]; exact h.mon, h.hn, by rw [e2]; exact h.np,
    fun hd => by rw [e4, e5]; exact h.live hd, fun hd => by rw [e3]; exact h.dead hd⟩

/-- polling a used-up combinator -/
theorem inv_misuse {s t} (w : Nat) (h : Inv s t) (hd : s.dead = true) :
    Inv s (.pollEnd .misuse :: .pollBegin w :: t) := by
  have hsp : spent false (.pollBegin w :: t) = true := by rw [spent_pb]; exact h.dead hd
  refine ⟨?_, h.hn, rfl, fun hd' => absurd hd' (by simp [hd]), fun _ => ?_⟩
  · simp only [holds_C19, c19At, Bool.and_eq_true]
    exact ⟨h.mon, hsp⟩
  · simpa [spent, finalSeen, alive, panickedSeen] using hsp

/-- a poll begins -/
theorem j_start {s t} (w : Nat) (h : Inv s t) (hd : s.dead = false) :
    J s (.pollBegin w :: t) ((if s.cnt = 0 then [0, 1] else [1]).filter (· < s.n)) := by
  refine ⟨by simpa [holds_C19] using h.mon, h.hn, rfl, hd, ?_⟩
  rw [deadlineDone_pb]
  have hep : everPolled (.pollBegin w :: t) 1 = everPolled t 1 := rfl
  rw [hep, h.hn]
  rcases h.live hd with ⟨hc, h1, h2⟩ | ⟨hc, h1⟩
  · left; simp [hc, h1, h2]
  · right; simp [hc, h1]

/-- the deadline resolves: phase 1, the inner child is next in this very poll -/
theorem dl_ready {s t} (rest : List Nat) (slot : Nat) (wk : Wk) (l : List Ev) (ok : Bool) (v : Nat)
    (evs : List Ev) (hJ : J s t (0 :: rest)) (hl : ∀ e ∈ l, isFireEv e = true)
    (he : ∀ e ∈ evs, isOwnEv e = true) (s' : Fix) (hn' : s'.n = s.n) (hc' : s'.cnt = 1)
    (hd' : s'.dead = s.dead) :
    J s' (pollSeg 0 slot wk l (.ready ok v) evs t) rest := by
  obtain ⟨hm, hn, hip, hd, hor⟩ := hJ
  rcases hor with ⟨hl0, hc, hdd, hep⟩ | ⟨hl0, _⟩
  · have hrest : rest = [1] := by simpa using hl0
    refine ⟨?_, by rw [hn', hn], ?_, by rw [hd', hd], Or.inr ⟨hrest, hc', ?_⟩⟩
    · rw [holds_pollSeg 0 slot wk l _ evs t hl he]; simp [hm, hdd, hip]
    · rw [inPoll_pollSeg 0 slot wk l _ evs t hl he]; exact hip
    · rw [deadlineDone_pollSeg 0 slot wk l _ evs t hl he]; rfl
  · simp at hl0

/-- the deadline is still pending: so is the combinator; the inner child stays untouched -/
theorem dl_pend {s t} (rest : List Nat) (slot : Nat) (wk : Wk) (l : List Ev) (evs : List Ev)
    (hJ : J s t (0 :: rest)) (hl : ∀ e ∈ l, isFireEv e = true)
    (he : ∀ e ∈ evs, isOwnEv e = true) (s' : Fix) (hn' : s'.n = s.n) (hc' : s'.cnt = s.cnt)
    (hd' : s'.dead = s.dead) :
    Inv s' (.pollEnd .pending :: pollSeg 0 slot wk l .pend evs t) := by
  obtain ⟨hm, hn, hip, hd, hor⟩ := hJ
  rcases hor with ⟨hl0, hc, hdd, hep⟩ | ⟨hl0, _⟩
  · have h1 : holds_C19 (pollSeg 0 slot wk l .pend evs t) = true := by
      rw [holds_pollSeg 0 slot wk l _ evs t hl he]; simp [hm, hdd, hip]
    have h2 : deadlineDone (pollSeg 0 slot wk l .pend evs t) = false := by
      rw [deadlineDone_pollSeg 0 slot wk l _ evs t hl he]; rfl
    have h3 : everPolled (pollSeg 0 slot wk l .pend evs t) 1 = false := by
      rw [everPolled_pollSeg 0 slot wk l _ evs t 1 hl he]; simp [hep]
    refine ⟨?_, by rw [hn', hn], rfl, fun _ => Or.inl ⟨by rw [hc', hc], ?_, ?_⟩,
      fun hdead => absurd hdead (by simp [hd', hd])⟩
    · simp [holds_C19, c19At, h1, h2, h3]
    · rw [deadlineDone_pe]; exact h2
    · exact h3
  · simp at hl0

/-- the verdict in phase 1: the outcome is the inner child's answer of this poll -/
theorem c19At_inner (t : List Ev) (r : Res) (o : Outcome) (hdd : deadlineDone t = true)
    (hp : polledSince t 1 = true) (hi : innerOutcome t = resOut r) (hro : resOut r = some o) :
    c19At t o = true := by
  cases r <;> simp [resOut] at hro <;> subst hro <;> simp [c19At, hdd, hp, hi, resOut]

/-- the inner child is polled (phase 1) and its answer is passed on -/
theorem inner_exit {s t} (rest : List Nat) (slot : Nat) (wk : Wk) (l : List Ev) (r : Res)
    (o : Outcome) (evs : List Ev) (hJ : J s t (1 :: rest)) (hl : ∀ e ∈ l, isFireEv e = true)
    (he : ∀ e ∈ evs, isOwnEv e = true) (hro : resOut r = some o) (s' : Fix) (hn' : s'.n = s.n)
    (hc' : s'.dead = false → s'.cnt = s.cnt)
    (hfin : s'.dead = true → finalSeen false (.pollEnd o :: pollSeg 1 slot wk l r evs t) = true) :
    Inv s' (.pollEnd o :: pollSeg 1 slot wk l r evs t) := by
  obtain ⟨hm, hn, hip, hd, hor⟩ := hJ
  rcases hor with ⟨hl0, _⟩ | ⟨hl0, hc, hdd⟩
  · simp at hl0
  · have h1 : holds_C19 (pollSeg 1 slot wk l r evs t) = true := by
      rw [holds_pollSeg 1 slot wk l _ evs t hl he]; simp [hm, hdd, hip]
    have h2 : deadlineDone (pollSeg 1 slot wk l r evs t) = true := by
      rw [deadlineDone_pollSeg 1 slot wk l _ evs t hl he]; simpa using hdd
    have h3 : polledSince (pollSeg 1 slot wk l r evs t) 1 = true := by
      rw [polledSince_pollSeg 1 slot wk l _ evs t 1 hl he]; simp
    have h4 := innerOutcome_pollSeg slot wk l r evs t hl he
    refine ⟨?_, by rw [hn', hn], rfl, fun hdead => Or.inr ⟨by rw [hc' hdead, hc], ?_⟩,
      fun hdead => ?_⟩
    · simp only [holds_C19, Bool.and_eq_true]
      exact ⟨h1, c19At_inner _ r o h2 h3 h4 hro⟩
    · rw [deadlineDone_pe]; exact h2
    · simp [spent, hfin hdead]

/-- a child panics: the poll unwinds -/
theorem inv_panic {s t} (i : Nat) (rest : List Nat) (slot : Nat) (wk : Wk) (l : List Ev)
    (evs : List Ev) (hJ : J s t (i :: rest)) (hl : ∀ e ∈ l, isFireEv e = true)
    (he : ∀ e ∈ evs, isOwnEv e = true) (s' : Fix) (hn' : s'.n = s.n) (hdead : s'.dead = true) :
    Inv s' (.pollEnd .panicked :: pollSeg i slot wk l .panic evs t) := by
  obtain ⟨hm, hn, hip, hd, hor⟩ := hJ
  have h1 : holds_C19 (pollSeg i slot wk l .panic evs t) = true := by
    rw [holds_pollSeg i slot wk l _ evs t hl he]
    rcases hor with ⟨hl0, hc, hdd, hep⟩ | ⟨hl0, hc, hdd⟩
    · have hi : i = 0 := by simp at hl0; exact hl0.1
      simp [hi, hm, hdd, hip]
    · have hi : i = 1 := by simp at hl0; exact hl0.1
      simp [hi, hm, hdd, hip]
  refine ⟨?_, by rw [hn', hn], rfl, fun hd' => absurd hd' (by simp [hdead]),
    fun _ => by simp [spent, panickedSeen]⟩
  simp [holds_C19, c19At, h1]

theorem inv_drop {s t} (h : Inv s t) (s' : Fix) (hn' : s'.n = s.n) (hdead : s'.dead = true) :
    Inv s' (.dropEnd :: ([Ev.childDropped 1, .childDropped 0].reverse ++ .dropBegin :: t)) := by
  refine ⟨by simpa [holds_C19] using h.mon, by rw [hn', h.hn], by simpa [inPoll] using h.np,
    fun hd' => absurd hd' (by simp [hdead]), fun _ => by simp [spent, alive]⟩

theorem inv_init : Inv (Fix.init 2 0) [] :=
  ⟨rfl, rfl, rfl, fun _ => Or.inl ⟨rfl, rfl, rfl⟩, fun hd => by cases hd⟩

/-! ### the two policies -/

theorem bufEvs_own (s : Fix) : ∀ e ∈ s.bufEvs, isOwnEv e = true := by
  intro e he
  unfold Fix.bufEvs at he
  split at he
  · simp at he; subst he; rfl
  · simp at he

theorem nil_own : ∀ e ∈ ([] : List Ev), isOwnEv e = true := by simp

theorem sim_waitF : Sim waitUntilF .direct (Sim.kindRes .waitF) Inv J where
  fireEv := fun s t e he h => inv_fireEv e he h
  pre := by
    intro s t w o hpre h
    simp only [waitUntilF, Fix.misuseIfDead] at hpre
    split at hpre
    · cases hpre; exact inv_misuse w h ‹_›
    · cases hpre
  start := by
    intro s t w hpre h
    have hd : s.dead = false := by
      simp only [waitUntilF, Fix.misuseIfDead] at hpre
      cases hdd : s.dead <;> simp_all
    exact j_start w h hd
  earlyPend := by
    intro s t l hm _ _
    cases hm
  skip := by
    intro s t i rest hel _
    have := hel rfl
    simp [waitUntilF] at this
  goOn := by
    intro s t i rest wk l r hJ hel hr hk hl hex
    have hi : i = 0 ∨ i = 1 := by
      obtain ⟨_, _, _, _, hor⟩ := hJ
      rcases hor with ⟨hl0, _⟩ | ⟨hl0, _⟩ <;> simp at hl0 <;> simp [hl0.1]
    rcases hi with hi | hi
    · subst hi
      cases r with
      | ready ok v =>
        exact dl_ready rest 0 wk l ok v _ hJ hl (by simp [waitUntilF, isOwnEv]) _ rfl rfl rfl
      | pend => simp [waitUntilF] at hex
      | item v => simp [waitUntilF] at hex
      | fin => simp [waitUntilF] at hex
      | panic => exact absurd rfl hr
    · subst hi
      cases r <;> simp [waitUntilF] at hex
  goExit := by
    intro s t i rest wk l r o hJ hel hr hk hl hex
    have hi : i = 0 ∨ i = 1 := by
      obtain ⟨_, _, _, _, hor⟩ := hJ
      rcases hor with ⟨hl0, _⟩ | ⟨hl0, _⟩ <;> simp at hl0 <;> simp [hl0.1]
    rcases hi with hi | hi
    · subst hi
      cases r with
      | ready ok v => simp [waitUntilF] at hex
      | pend =>
        simp only [waitUntilF, Option.some.injEq] at hex
        subst hex
        exact dl_pend rest 0 wk l [] hJ hl nil_own _ rfl rfl rfl
      | item v => simp [Sim.kindRes, waitUntilF, Fam.childIsStream, Res.fits] at hk
      | fin => simp [Sim.kindRes, waitUntilF, Fam.childIsStream, Res.fits] at hk
      | panic => exact absurd rfl hr
    · subst hi
      cases r with
      | ready ok v =>
        simp [waitUntilF] at hex
        subst hex
        exact inner_exit rest 1 wk l _ _ [] hJ hl nil_own rfl _ rfl
          (fun hd => by simp [waitUntilF, waitUntilS, Fix.kill, Fix.unbuf] at hd) (fun _ => by simp [finalSeen])
      | pend =>
        simp only [waitUntilF, Option.some.injEq] at hex
        subst hex
        exact inner_exit rest 1 wk l _ _ [] hJ hl nil_own rfl _ rfl (fun _ => rfl)
          (fun hd => by simp [waitUntilF, hJ.2.2.2.1] at hd)
      | item v => simp [Sim.kindRes, waitUntilF, Fam.childIsStream, Res.fits] at hk
      | fin => simp [Sim.kindRes, waitUntilF, Fam.childIsStream, Res.fits] at hk
      | panic => exact absurd rfl hr
  panic := by
    intro s t i rest wk l hJ hel hl
    exact inv_panic i rest i wk l [] hJ hl nil_own _ rfl rfl
  finish := by
    intro s t hJ
    obtain ⟨_, _, _, _, hor⟩ := hJ
    rcases hor with ⟨hl0, _⟩ | ⟨hl0, _⟩ <;> simp at hl0
  drop := by
    intro s t h
    exact inv_drop h _ rfl rfl

theorem sim_waitS : Sim waitUntilS .direct (Sim.kindRes .waitS) Inv J where
  fireEv := fun s t e he h => inv_fireEv e he h
  pre := by
    intro s t w o hpre h
    simp only [waitUntilS, Fix.misuseIfDead] at hpre
    split at hpre
    · cases hpre; exact inv_misuse w h ‹_›
    · cases hpre
  start := by
    intro s t w hpre h
    have hd : s.dead = false := by
      simp only [waitUntilS, Fix.misuseIfDead] at hpre
      cases hdd : s.dead <;> simp_all
    exact j_start w h hd
  earlyPend := by
    intro s t l hm _ _
    cases hm
  skip := by
    intro s t i rest hel _
    have := hel rfl
    simp [waitUntilS] at this
  goOn := by
    intro s t i rest wk l r hJ hel hr hk hl hex
    have hi : i = 0 ∨ i = 1 := by
      obtain ⟨_, _, _, _, hor⟩ := hJ
      rcases hor with ⟨hl0, _⟩ | ⟨hl0, _⟩ <;> simp at hl0 <;> simp [hl0.1]
    rcases hi with hi | hi
    · subst hi
      cases r with
      | ready ok v =>
        exact dl_ready rest 0 wk l ok v _ hJ hl (by simp [waitUntilS]) _ rfl rfl rfl
      | pend => simp [waitUntilS] at hex
      | item v => simp [waitUntilS] at hex
      | fin => simp [waitUntilS] at hex
      | panic => exact absurd rfl hr
    · subst hi
      cases r <;> simp [waitUntilS] at hex
  goExit := by
    intro s t i rest wk l r o hJ hel hr hk hl hex
    have hi : i = 0 ∨ i = 1 := by
      obtain ⟨_, _, _, _, hor⟩ := hJ
      rcases hor with ⟨hl0, _⟩ | ⟨hl0, _⟩ <;> simp at hl0 <;> simp [hl0.1]
    rcases hi with hi | hi
    · subst hi
      cases r with
      | ready ok v => simp [waitUntilS] at hex
      | pend =>
        simp only [waitUntilS, Option.some.injEq] at hex
        subst hex
        exact dl_pend rest 0 wk l _ hJ hl (bufEvs_own s) _ rfl rfl rfl
      | item v => simp [Sim.kindRes, waitUntilS, Fam.childIsStream, Res.fits] at hk
      | fin => simp [Sim.kindRes, waitUntilS, Fam.childIsStream, Res.fits] at hk
      | panic => exact absurd rfl hr
    · subst hi
      cases r with
      | ready ok v => simp [Sim.kindRes, waitUntilS, Fam.childIsStream, Res.fits] at hk
      | pend =>
        simp only [waitUntilS, Option.some.injEq] at hex
        subst hex
        exact inner_exit rest 1 wk l _ _ _ hJ hl (bufEvs_own s) rfl _ rfl (fun _ => rfl)
          (fun hd => by simp [waitUntilS, Fix.unbuf, hJ.2.2.2.1] at hd)
      | item v =>
        simp only [waitUntilS, Option.some.injEq] at hex
        subst hex
        exact inner_exit rest 1 wk l _ _ _ hJ hl (bufEvs_own s) rfl _ rfl (fun _ => rfl)
          (fun hd => by simp [waitUntilS, Fix.unbuf, hJ.2.2.2.1] at hd)
      | fin =>
        simp only [waitUntilS, Option.some.injEq] at hex
        subst hex
        exact inner_exit rest 1 wk l _ _ _ hJ hl (bufEvs_own s) rfl _ rfl
          (fun hd => by simp [waitUntilF, waitUntilS, Fix.kill, Fix.unbuf] at hd) (fun _ => by simp [finalSeen])
      | panic => exact absurd rfl hr
  panic := by
    intro s t i rest wk l hJ hel hl
    exact inv_panic i rest i wk l _ hJ hl (bufEvs_own s) _ rfl rfl
  finish := by
    intro s t hJ
    obtain ⟨_, _, _, _, hor⟩ := hJ
    rcases hor with ⟨hl0, _⟩ | ⟨hl0, _⟩ <;> simp at hl0
  drop := by
    intro s t h
    exact inv_drop h _ rfl rfl

end C19
end Fc
