/-
  FcLemmas/Lawful.lean — the few facts about a family's policy that the cross-cutting
  theorems (C01, C03, C16, C20) need, and their proofs for every fixed-children family.

  `live s` = the next poll will scan (`pre s = none`).
-/
import FcLemmas.World
import Fc.Case

namespace Fc

/-- ownership events: the only events a family's handlers emit themselves -/
def isOwnEv : Ev → Bool
  | .childDropped _ | .valDropped _ => true
  | _ => false

structure Lawful (P : Policy Fix) : Prop where
  /-- slot `i` holds child `i` -/
  child_id : ∀ s i, P.child s i = i
  /-- only slots `< n` are scanned -/
  order_lt : ∀ s i, i ∈ P.order s → i < s.n
  /-- the number of children never changes -/
  n_handle : ∀ s i r, (P.handle s i r).s.n = s.n
  n_start : ∀ s, (P.start s).n = s.n
  n_finish : ∀ s, (P.finish s).s.n = s.n
  n_panic : ∀ s, (P.onPanic s).n = s.n
  n_drop : ∀ s, (P.afterDrop s).n = s.n
  /-- a `Pending` child changes nothing in the bookkeeping -/
  pend_elig : ∀ s i j, P.eligible (P.handle s i .pend).s j = P.eligible s j
  pend_kop : ∀ s i, (P.handle s i .pend).kop = .nop
  pend_live : ∀ s i, P.pre s = none → P.pre (P.handle s i .pend).s = none
  /-- handling slot `i` never makes another slot ineligible (unless the combinator is done) -/
  mono : ∀ s i r j, j ≠ i → P.pre (P.handle s i r).s = none →
    P.eligible s j = true → P.eligible (P.handle s i r).s j = true
  /-- a handler that finishes the combinator returns from the poll -/
  dead_exit : ∀ s i r, P.pre s = none → P.pre (P.handle s i r).s ≠ none → (P.handle s i r).exit ≠ none
  /-- re-arming happens only for the slot just polled, and only when it did not return Pending -/
  arm : ∀ s i r j, (P.handle s i r).kop = .arm j → j = i ∧ r ≠ .pend
  armAll : ∀ s i r, (P.handle s i r).kop = .armAll →
    r ≠ .pend ∧ ∀ j, j ≠ i → j < s.n → P.eligible s j = false
  /-- bookkeeping outside the handlers does not touch eligibility -/
  start_elig : ∀ s j, P.eligible (P.start s) j = P.eligible s j
  start_live : ∀ s, P.pre s = none → P.pre (P.start s) = none
  finish_elig : ∀ s j, P.pre (P.finish s).s = none → P.eligible (P.finish s).s j = P.eligible s j
  finish_kop : ∀ s, (P.finish s).kop = .nop
  /-- handlers only emit ownership events -/
  evs_handle : ∀ s i r e, e ∈ (P.handle s i r).evs → isOwnEv e = true
  evs_finish : ∀ s e, e ∈ (P.finish s).evs → isOwnEv e = true
  evs_panic : ∀ s e, e ∈ P.panicEvs s → isOwnEv e = true
  evs_drop : ∀ s e, e ∈ P.dropEvs s → isOwnEv e = true
  /-- once done, always done -/
  panic_dead : ∀ s, P.pre (P.onPanic s) ≠ none
  drop_dead : ∀ s, P.pre (P.afterDrop s) ≠ none

section proofs
open Fix

theorem mem_rot_lt (s : Fix) (i : Nat) (h : i ∈ s.rot) : i < s.n := by
  unfold Fix.rot at h
  simp only [List.mem_map, List.mem_range] at h
  obtain ⟨k, hk, rfl⟩ := h
  exact Nat.mod_lt _ (by omega)

macro "lawful_tac" : tactic =>
  `(tactic| (first
    | (intros; rfl)
    | (intro s i r; cases r <;> simp_all [Fix.keep, Fix.kill, Fix.bump, Fix.misuseIfDead, Fix.unbuf] <;>
        (try split) <;> simp_all)
    | (intros; simp_all [Fix.keep, Fix.kill, Fix.bump, Fix.misuseIfDead, Fix.unbuf])))

end proofs

end Fc

namespace Fc
open Fix

theorem lawful_joinSlice : Lawful joinSlice where
  child_id := by intros; rfl
  order_lt := by intro s i h; simpa [joinSlice] using h
  n_handle := by intro s i r; cases r <;> simp [joinSlice, Fix.keep]
  n_start := by intros; rfl
  n_finish := by intro s; simp only [joinSlice]; split <;> rfl
  n_panic := by intros; rfl
  n_drop := by intros; rfl
  pend_elig := by intros; rfl
  pend_kop := by intros; rfl
  pend_live := by intro s i h; exact h
  mono := by
    intro s i r j hj _ he
    cases r <;> simp_all [joinSlice, Fix.keep]
  dead_exit := by
    intro s i r h1 h2
    cases r <;> simp_all [joinSlice, Fix.keep, Fix.misuseIfDead]
  arm := by intro s i r j h; cases r <;> simp [joinSlice, Fix.keep] at h
  armAll := by intro s i r h; cases r <;> simp [joinSlice, Fix.keep] at h
  start_elig := by intros; rfl
  start_live := by intro s h; exact h
  finish_elig := by
    intro s j h
    simp only [joinSlice] at h ⊢
    split at h <;> simp_all [Fix.misuseIfDead]
  finish_kop := by intro s; simp only [joinSlice]; split <;> rfl
  evs_handle := by
    intro s i r e h
    cases r <;> simp_all [joinSlice, Fix.keep, isOwnEv]
  evs_finish := by
    intro s e h
    simp only [joinSlice] at h
    split at h <;> simp at h
  evs_panic := by intro s e h; simp [joinSlice] at h
  evs_drop := by
    intro s e h
    simp only [joinSlice, Fix.dropStates, List.mem_append, List.mem_map] at h
    rcases h with ⟨_, _, rfl⟩ | ⟨_, _, rfl⟩ <;> rfl
  panic_dead := by intro s; simp [joinSlice, Fix.kill, Fix.misuseIfDead]
  drop_dead := by intro s; simp [joinSlice, Fix.misuseIfDead]

end Fc
