/-
  FcLemmas/Live4.lean — liveness of `wait_until` (over a future and over a stream) under the
  wake-only executor (Fc/Exec.lean).

  Both families are strictly sequential and hand the caller's waker to their children (direct mode):
  every poll of a live `wait_until` polls the child it is at (phase 0: the deadline, and — if the
  deadline resolves — the inner child in the same poll; phase 1: the inner child), so EVERY poll
  consumes a scripted step, and it returns `Pending` exactly when the child it polled last answered
  `Pending` — which is then the one waiting child the environment prods (C01, sequential invariant
  `C01S.BS` ⇒ `quiet` ⇒ the prod wakes the task).

  Because no poll is wasted the progress measure is simpler than for join / merge: a poll costs one
  round and at least one step, a prod costs one round and is followed by a poll.  `ends_of_progS`
  turns this into the bound `2 * stepsLeft - 1` (stated as `k + 1 ≤ 2 * stepsLeft`).

  The children are of mixed kinds (wait_until over a stream: child 0 a future, child 1 a stream), so
  the World-aware invariant `WI` is stated per child kind (`Kid`: `Live.Fut` or `Live3.Str`).
-/
import FcLemmas.Live3Run
import FcLemmas.C01Seq
set_option linter.unusedSimpArgs false
set_option linter.unusedVariables false

namespace Fc
namespace Live4
open Mon Live Live3

/-! ### the abstract argument: every poll consumes a step -/

/-- what the induction needs from a run invariant `Inv` (states that are not final); `Done` is the
    goal (the final outcome has been returned) -/
structure ProgS (P : Policy Fix) (n : Nat) (Inv Done : Eng Fix → Prop) : Prop where
  lo : ∀ e, Inv e → lastOut e.w.trace = none ∨ lastOut e.w.trace = some .pending ∨
    ∃ k vs, lastOut e.w.trace = some (.some k vs)
  poll : ∀ e wid, Inv e →
    Exec.stepsLeft n (Eng.poll P e wid) < Exec.stepsLeft n e ∧
      (Done (Eng.poll P e wid) ∨ Inv (Eng.poll P e wid))
  fire : ∀ e c, Inv e → Inv (e.fire c 0)
  waiting : ∀ e, Inv e → lastOut e.w.trace = some .pending →
    ∃ c, c < n ∧ lastRes e.w.trace c = some .pend ∧ e.w.scripts c ≠ []
  woke : ∀ e c, Inv e → lastOut e.w.trace = some .pending → c < n →
    lastRes e.w.trace c = some .pend → wokeSince (e.fire c 0).w.trace = true

variable {P : Policy Fix} {n : Nat} {Inv Done : Eng Fix → Prop}

/-- the two phases of a run that has not finished, with the number of rounds they still allow:
    about to poll; not woken (a child will be prodded) -/
def Cond2 (n : Nat) (e : Eng Fix) (N : Nat) : Prop :=
  (Exec.shouldPoll e.w.trace = true ∧ 2 * Exec.stepsLeft n e ≤ N + 1) ∨
  (Exec.shouldPoll e.w.trace = false ∧ 2 * Exec.stepsLeft n e ≤ N)

theorem round_pollS (G : ProgS P n Inv Done) (e : Eng Fix) (h : Inv e)
    (hsp : Exec.shouldPoll e.w.trace = true) :
    Exec.round P n e = some (Eng.poll P e (Exec.pollCount e.w.trace + 1)) := by
  unfold Exec.round; rw [finalOut_lo3 (G.lo e h), hsp]; simp

theorem round_fireS (G : ProgS P n Inv Done) (e : Eng Fix) (h : Inv e)
    (hsp : Exec.shouldPoll e.w.trace = false)
    (c : Nat) (hfw : Exec.firstWaiting n e = some c) : Exec.round P n e = some (e.fire c 0) := by
  unfold Exec.round; rw [finalOut_lo3 (G.lo e h), hsp, hfw]; simp

/-- after a `Pending` poll some child is waiting and can be prodded -/
theorem firstWaiting_someS (G : ProgS P n Inv Done) (e : Eng Fix) (h : Inv e)
    (hlo : lastOut e.w.trace = some .pending) :
    ∃ c, Exec.firstWaiting n e = some c ∧ c < n ∧ lastRes e.w.trace c = some .pend ∧
      e.w.scripts c ≠ [] := by
  obtain ⟨c, hc, hlr, hne⟩ := G.waiting e h hlo
  have hsome : (Exec.firstWaiting n e).isSome = true := by
    unfold Exec.firstWaiting
    rw [List.find?_isSome]
    refine ⟨c, List.mem_range.mpr hc, ?_⟩
    simp [hlr, hne]
  cases hfw : Exec.firstWaiting n e with
  | none => rw [hfw] at hsome; exact Bool.noConfusion hsome
  | some c0 =>
    unfold Exec.firstWaiting at hfw
    have hp := List.find?_some hfw
    have hm := List.mem_range.mp (List.mem_of_find?_eq_some hfw)
    simp only [Bool.and_eq_true, beq_iff_eq, Bool.not_eq_true', List.isEmpty_eq_false_iff] at hp
    exact ⟨c0, rfl, hm, hp.1, hp.2⟩

/-- the induction on the number of rounds allowed -/
theorem ends_auxS (G : ProgS P n Inv Done) : ∀ (N : Nat) (e : Eng Fix), Inv e → Cond2 n e N →
    ∃ k, k ≤ N ∧ Done (Exec.runFor P n k e) := by
  intro N
  induction N with
  | zero =>
    intro e h hc
    rcases hc with ⟨_, h1⟩ | ⟨hsp, h1⟩
    · have := (G.poll e 0 h).1
      omega
    · obtain ⟨hlo, _⟩ := shouldPoll_false_pending3 (G.lo e h) hsp
      obtain ⟨c, _, hc, _, hne⟩ := firstWaiting_someS G e h hlo
      have h3 := le_total (fun c => (e.w.scripts c).length) n c hc
      have h4 := length_pos_of_ne_nil' _ hne
      rw [stepsLeft_eq] at h1
      omega
  | succ N ih =>
    intro e h hc
    rcases hc with ⟨hsp, h1⟩ | ⟨hsp, h1⟩
    · have hr := round_pollS G e h hsp
      obtain ⟨hlt, hD | h'⟩ := G.poll e (Exec.pollCount e.w.trace + 1) h
      · exact ⟨1, by omega, by simp only [Exec.runFor, hr]; exact hD⟩
      · have hcond : Cond2 n (Eng.poll P e (Exec.pollCount e.w.trace + 1)) N := by
          cases hs : Exec.shouldPoll (Eng.poll P e (Exec.pollCount e.w.trace + 1)).w.trace with
          | true => left; exact ⟨hs, by omega⟩
          | false => right; exact ⟨hs, by omega⟩
        obtain ⟨k, hk, hv⟩ := ih _ h' hcond
        exact ⟨k + 1, by omega, by simp only [Exec.runFor, hr]; exact hv⟩
    · obtain ⟨hlo, _⟩ := shouldPoll_false_pending3 (G.lo e h) hsp
      obtain ⟨c, hfw, hc, hlr, hne⟩ := firstWaiting_someS G e h hlo
      have hr := round_fireS G e h hsp c hfw
      have h' := G.fire e c h
      have hw := G.woke e c h hlo hc hlr
      have hlo' : lastOut (e.fire c 0).w.trace = some .pending := by
        rw [show lastOut (e.fire c 0).w.trace = lastOut e.w.trace from C01.lastOut_fire e.w c 0]
        exact hlo
      have hcond : Cond2 n (e.fire c 0) N := by
        left
        refine ⟨by rw [shouldPoll_pending hlo', hw], ?_⟩
        rw [stepsLeft_fire]; omega
      obtain ⟨k, hk, hv⟩ := ih _ h' hcond
      exact ⟨k + 1, by omega, by simp only [Exec.runFor, hr]; exact hv⟩

/-- every run from a state satisfying the invariant ends within `2 * stepsLeft - 1` rounds -/
theorem ends_of_progS (G : ProgS P n Inv Done) (e : Eng Fix) (h : Inv e)
    (hsp : Exec.shouldPoll e.w.trace = true) :
    ∃ k, k + 1 ≤ 2 * Exec.stepsLeft n e ∧ Done (Exec.runFor P n k e) := by
  have hpos : 0 < Exec.stepsLeft n e := by
    have := (G.poll e 0 h).1
    omega
  obtain ⟨k, hk, hv⟩ := ends_auxS G (2 * Exec.stepsLeft n e - 1) e h (Or.inl ⟨hsp, by omega⟩)
  exact ⟨k, by omega, hv⟩

/-! ### the World-aware invariant for children of mixed kinds -/

/-- child `c` is a well-behaved child of its kind (`str c`: a stream, otherwise a future) -/
def Kid (str : Nat → Bool) (fv : Nat → Nat) (w : World) (c : Nat) : Prop :=
  (str c = true ∧ Str w c) ∨ (str c = false ∧ Fut fv w c)

/-- child `c` has not given its final answer -/
def NT (t : List Ev) (c : Nat) : Prop :=
  (∀ ok v, lastRes t c ≠ some (.ready ok v)) ∧ lastRes t c ≠ some .fin

structure WI (str : Nat → Bool) (fv : Nat → Nat) (n : Nat) (w : World) : Prop where
  kid : ∀ c, c < n → Kid str fv w c
  hw  : ∀ c, (w.handed c).head? = lastWk w.trace c
  lw  : ∀ c, lastRes w.trace c ≠ none → lastWk w.trace c ≠ none

/-- inside a poll that began with script lengths `len0` -/
structure PI (str : Nat → Bool) (fv : Nat → Nat) (n : Nat) (len0 : Nat → Nat) (w : World) : Prop where
  wi : WI str fv n w
  le : ∀ c, (w.scripts c).length ≤ len0 c
  ps : ∀ c, polledSince w.trace c = true → c < n ∧ (w.scripts c).length < len0 c
  sp : spent false w.trace = false

variable {str : Nat → Bool} {fv : Nat → Nat} {len0 : Nat → Nat}

/-- the answers a child of its kind gives (never a panic) -/
def KindRes (str : Nat → Bool) (fv : Nat → Nat) (i : Nat) (r : Res) : Prop :=
  (str i = true ∧ (r = .pend ∨ (∃ v, r = .item v) ∨ r = .fin)) ∨
  (str i = false ∧ (r = .pend ∨ ∃ ok, r = .ready ok (fv i)))

/-- a waiting child has steps left -/
theorem kid_waiting {w : World} {c : Nat} (h : Kid str fv w c) (hlr : lastRes w.trace c = some .pend) :
    w.scripts c ≠ [] ∧ gone w.trace c = false := by
  rcases h with ⟨_, hs | hs⟩ | ⟨_, hf | ⟨ok, hf⟩⟩
  · exact ⟨ss_ne_nil _ hs.1, hs.2.2⟩
  · rw [hlr] at hs; cases hs
  · exact ⟨fs_ne_nil _ hf.1, hf.2.2.1⟩
  · rw [hlr] at hf; cases hf

/-- one child poll (with the ownership events of its handler, which release no child) -/
theorem pi_pollChild (w : World) (i : Nat) (hi : i < n) (h : PI str fv n len0 w)
    (hnt : NT w.trace i) (evs : List Ev) (hevs : ∀ e ∈ evs, isOwnEv e = true)
    (hnd : ∀ c, Ev.childDropped c ∉ evs) :
    KindRes str fv i (w.resOf i) ∧ PI str fv n len0 ((w.pollChild i i).emits evs) ∧
    (∀ c, lastRes ((w.pollChild i i).emits evs).trace c
        = if i = c then some (w.resOf i) else lastRes w.trace c) ∧
    polledSince ((w.pollChild i i).emits evs).trace i = true := by
  -- observations of the new world
  have hS : ∀ c, ((w.pollChild i i).emits evs).scripts c
      = if c = i then (w.scripts i).tail else w.scripts c := by
    intro c
    rw [emits_scripts, pollChild_scripts]
    by_cases hci : c = i
    · subst hci; simp
    · simp [upd_other _ _ _ _ hci, hci]
  have hLR : ∀ c, lastRes ((w.pollChild i i).emits evs).trace c
      = if i = c then some (w.resOf i) else lastRes w.trace c := by
    intro c; rw [C16.lastRes_emits_own _ _ hevs, C16.lastRes_pollChild]
  have hLW : ∀ c, lastWk ((w.pollChild i i).emits evs).trace c
      = if i = c then some (w.wakerFor i) else lastWk w.trace c := by
    intro c; rw [lastWk_emits_own _ _ hevs, lastWk_pollChild]
  have hPS : ∀ c, polledSince ((w.pollChild i i).emits evs).trace c
      = (decide (i = c) || polledSince w.trace c) := by
    intro c; rw [polledSince_emits_own _ _ hevs, polledSince_pollChild]
  have hG : ∀ c, gone ((w.pollChild i i).emits evs).trace c = gone w.trace c := by
    intro c; rw [gone_emits_not_mem _ _ _ (hnd c), gone_pollChild]
  -- the child polled: its answer, its remaining script
  have hkid : KindRes str fv i (w.resOf i) ∧ w.scripts i ≠ [] ∧
      Kid str fv ((w.pollChild i i).emits evs) i := by
    rcases h.wi.kid i hi with ⟨hst, hs | hs⟩ | ⟨hst, hf | ⟨ok, hf⟩⟩
    · obtain ⟨h1, _, h3⟩ := hs
      refine ⟨?_, ss_ne_nil _ h1, Or.inl ⟨hst, ?_⟩⟩
      · rcases str_resOf w i h1 with ⟨_, hr⟩ | ⟨_, hr | hr, _⟩
        · exact Or.inl ⟨hst, Or.inr (Or.inr hr)⟩
        · exact Or.inl ⟨hst, Or.inl hr⟩
        · exact Or.inl ⟨hst, Or.inr (Or.inl hr)⟩
      · rcases str_resOf w i h1 with ⟨_, hr⟩ | ⟨_, hr, hf⟩
        · right; rw [hLR, hr]; simp
        · left
          refine ⟨by rw [hS]; simpa using hf, ?_, by rw [hG]; exact h3⟩
          rw [hLR]
          simp only [if_true]
          rcases hr with hr | ⟨v, hr⟩
          · exact Or.inr (Or.inl (by rw [hr]))
          · exact Or.inr (Or.inr ⟨v, by rw [hr]⟩)
    · exact absurd hs hnt.2
    · obtain ⟨h1, _, h3, h4⟩ := hf
      refine ⟨?_, fs_ne_nil _ h1, Or.inr ⟨hst, ?_⟩⟩
      · rcases fut_resOf w i h1 with ⟨_, ok, hr⟩ | ⟨_, hr, _⟩
        · exact Or.inr ⟨hst, Or.inr ⟨ok, by rw [hr, h4]⟩⟩
        · exact Or.inr ⟨hst, Or.inl hr⟩
      · rcases fut_resOf w i h1 with ⟨_, ok, hr⟩ | ⟨_, hr, hf, hfv⟩
        · right; exact ⟨ok, by rw [hLR, hr, h4]; simp⟩
        · left
          exact ⟨by rw [hS]; simpa using hf, Or.inr (by rw [hLR, hr]; simp), by rw [hG]; exact h3,
            by rw [hS]; simpa [hfv] using h4⟩
    · exact absurd hf (hnt.1 ok _)
  obtain ⟨hkind, hne, hkid'⟩ := hkid
  have hlen : (w.scripts i).tail.length < (w.scripts i).length := by
    cases hs : w.scripts i with
    | nil => exact absurd hs hne
    | cons s rest => simp
  refine ⟨hkind, ⟨⟨?_, ?_, ?_⟩, ?_, ?_, ?_⟩, hLR, by rw [hPS]; simp⟩
  · intro c hc
    by_cases hci : c = i
    · subst hci; exact hkid'
    · have hic : ¬ i = c := fun hh => hci hh.symm
      have := h.wi.kid c hc
      unfold Kid Str Fut at this ⊢
      rw [hS, hLR, hG]
      simp only [hci, hic, if_false]
      exact this
  · intro c
    rw [hLW]
    have : ((w.pollChild i i).emits evs).handed = upd w.handed i (w.wakerFor i :: w.handed i) := by
      rw [← pollChild_handed]; rfl
    rw [this]
    by_cases hic : i = c
    · subst hic; simp
    · have hci : c ≠ i := fun hh => hic hh.symm
      simp only [hic, if_false, upd_other _ _ _ _ hci]
      exact h.wi.hw c
  · intro c hc
    rw [hLR] at hc
    rw [hLW]
    by_cases hic : i = c
    · simp [hic]
    · simp only [hic, if_false] at hc ⊢
      exact h.wi.lw c hc
  · intro c
    rw [hS]
    by_cases hci : c = i
    · subst hci; simp only [if_true]; have := h.le c; omega
    · simp only [hci, if_false]; exact h.le c
  · intro c hc
    rw [hPS] at hc
    rw [hS]
    by_cases hci : c = i
    · subst hci; simp only [if_true]; have := h.le c; exact ⟨hi, by omega⟩
    · have hic : ¬ i = c := fun hh => hci hh.symm
      simp only [hic, decide_false, Bool.false_or] at hc
      simp only [hci, if_false]
      exact h.ps c hc
  · rw [spent_pollChild_emits _ _ _ _ hevs]; exact h.sp

/-! ### the poll skeleton in direct mode, for a policy that gates nothing -/

/-- one loop iteration -/
theorem visit_direct (L : Lawful P) (hla : P.loopAny = false) (hel : ∀ s i, P.eligible s i = true)
    (e : Eng Fix) (i : Nat) (hm : e.w.mode = .direct) (hnp : e.w.resOf i ≠ .panic) :
    Eng.visit P e i =
      ({ w := (e.w.pollChild i i).emits (P.handle e.s i (e.w.resOf i)).evs,
         s := (P.handle e.s i (e.w.resOf i)).s }, (P.handle e.s i (e.w.resOf i)).exit) := by
  have hg : Eng.gateGo P e i = true := by
    unfold Eng.gateGo; rw [hel, World.isSet_direct _ _ hm]; rfl
  unfold Eng.visit
  rw [L.child_id]
  simp only [hla, hg, Bool.false_and, Bool.not_true, if_false, hnp, Bool.false_eq_true]
  unfold Eng.applyH
  simp only [C01D.gateW_direct (P := P) e i hm]
  rw [C01D.kop_direct _ _ (by simp [hm])]

theorem scan_one_exit (e : Eng Fix) (i : Nat) (rest : List Nat) (o : Outcome)
    (h : (Eng.visit P e i).2 = some o) :
    Eng.scan P (i :: rest) e = ((Eng.visit P e i).1, some o) := by
  simp [Eng.scan, h]

theorem scan_one_go (e : Eng Fix) (i : Nat) (rest : List Nat) (h : (Eng.visit P e i).2 = none) :
    Eng.scan P (i :: rest) e = Eng.scan P rest (Eng.visit P e i).1 := by
  simp [Eng.scan, h]

/-! ### `wait_until` -/

/-- what the argument needs to know about the policy (both `wait_until` models satisfy it);
    `str` = kinds of the two children -/
structure WL (P : Policy Fix) (str : Nat → Bool) : Prop where
  seq : Seq P
  loopAny : P.loopAny = false
  preAny : ∀ s, P.preAny s = false
  start : ∀ s, P.start s = s
  pre : ∀ s, s.dead = false → P.pre s = none
  order : ∀ s, P.order s = (if s.cnt = 0 then [0, 1] else [1]).filter (· < s.n)
  nodrop : ∀ s i r c, Ev.childDropped c ∉ (P.handle s i r).evs
  str0 : str 0 = false
  /-- a `Pending` child: so is the combinator; the phase stays -/
  pend : ∀ s i, (P.handle s i .pend).exit = some .pending ∧ (P.handle s i .pend).s.cnt = s.cnt ∧
    (P.handle s i .pend).s.dead = s.dead
  /-- the deadline resolves: phase 1, the loop goes on -/
  dl_ready : ∀ s ok v, (P.handle s 0 (.ready ok v)).exit = none ∧
    (P.handle s 0 (.ready ok v)).s.cnt = 1 ∧ (P.handle s 0 (.ready ok v)).s.dead = s.dead
  /-- the inner child's answer is passed on -/
  in_ready : str 1 = false → ∀ s ok v, (P.handle s 1 (.ready ok v)).exit = some (.ready true [v])
  in_item : str 1 = true → ∀ s v, (P.handle s 1 (.item v)).exit = some (.some 0 [v]) ∧
    (P.handle s 1 (.item v)).s.cnt = s.cnt ∧ (P.handle s 1 (.item v)).s.dead = s.dead
  in_fin : str 1 = true → ∀ s, (P.handle s 1 .fin).exit = some .none

/-- the final outcome: the inner future's value, resp. the end of the inner stream -/
def Fin (str : Nat → Bool) (fv : Nat → Nat) (o : Outcome) : Prop :=
  (str 1 = false ∧ o = .ready true [fv 1]) ∨ (str 1 = true ∧ o = .none)

/-- the bookkeeping of a live `wait_until` against the trace: in phase 0 the deadline has not
    resolved; the inner child has not given its final answer -/
structure FI (s : Fix) (t : List Ev) : Prop where
  n2 : s.n = 2
  live : s.dead = false
  dl : s.cnt = 0 → NT t 0
  inn : NT t 1

/-- what is known when the loop is left with outcome `o` -/
structure Res4 (str : Nat → Bool) (fv : Nat → Nat) (len0 : Nat → Nat) (o : Outcome) (e : Eng Fix) :
    Prop where
  pi : PI str fv 2 len0 e.w
  ps : ∃ c, polledSince e.w.trace c = true
  out : Fin str fv o ∨
    ((o = .pending ∨ ∃ k vs, o = .some k vs) ∧ FI e.s e.w.trace ∧
      (o = .pending → ∃ c, c < 2 ∧ lastRes e.w.trace c = some .pend))

variable {P : Policy Fix} {str : Nat → Bool} {fv : Nat → Nat} {len0 : Nat → Nat}

theorem kindRes_np {i : Nat} {r : Res} (h : KindRes str fv i r) : r ≠ .panic := by
  rcases h with ⟨_, h | ⟨v, h⟩ | h⟩ | ⟨_, h | ⟨ok, h⟩⟩ <;> rw [h] <;> simp

theorem nt_of_ne {t t' : List Ev} {c : Nat} (h : lastRes t' c = lastRes t c) (hn : NT t c) : NT t' c := by
  unfold NT; rw [h]; exact hn

/-- the inner child is polled and its answer passed on -/
theorem inner_visit (W : WL P str) (e : Eng Fix) (hm : e.w.mode = .direct)
    (hpi : PI str fv 2 len0 e.w) (hf : FI e.s e.w.trace) :
    ∃ o, (Eng.visit P e 1).2 = some o ∧ Res4 str fv len0 o (Eng.visit P e 1).1 := by
  have L := W.seq.law
  obtain ⟨hk, hpi', hlr, hps⟩ := pi_pollChild e.w 1 (by omega) hpi hf.inn
    (P.handle e.s 1 (e.w.resOf 1)).evs (L.evs_handle _ _ _) (W.nodrop _ _ _)
  have hv := visit_direct L W.loopAny W.seq.elig e 1 hm (kindRes_np hk)
  rw [hv]
  simp only
  have hdl : ∀ s' : Fix, s'.cnt = e.s.cnt → (s'.cnt = 0 →
      NT ((e.w.pollChild 1 1).emits (P.handle e.s 1 (e.w.resOf 1)).evs).trace 0) := by
    intro s' hc h0
    exact nt_of_ne (by rw [hlr]; simp) (hf.dl (by rw [← hc]; exact h0))
  generalize hr : e.w.resOf 1 = r at hk hpi' hlr hps hdl
  have hn' : (P.handle e.s 1 r).s.n = 2 := by rw [L.n_handle]; exact hf.n2
  rcases hk with ⟨hst, hr | ⟨v, hr⟩ | hr⟩ | ⟨hst, hr | ⟨ok, hr⟩⟩
  · subst hr
    obtain ⟨h1, h2, h3⟩ := W.pend e.s 1
    refine ⟨.pending, h1, hpi', ⟨1, hps⟩, Or.inr ⟨Or.inl rfl, ⟨hn', by rw [h3]; exact hf.live,
      hdl _ h2, ?_⟩, fun _ => ⟨1, by omega, by rw [hlr]; simp⟩⟩⟩
    unfold NT; rw [hlr]; simp
  · subst hr
    obtain ⟨h1, h2, h3⟩ := W.in_item hst e.s v
    refine ⟨_, h1, hpi', ⟨1, hps⟩, Or.inr ⟨Or.inr ⟨0, [v], rfl⟩, ⟨hn', by rw [h3]; exact hf.live,
      hdl _ h2, ?_⟩, fun h => by cases h⟩⟩
    unfold NT; rw [hlr]; simp
  · subst hr
    exact ⟨_, W.in_fin hst e.s, hpi', ⟨1, hps⟩, Or.inl (Or.inr ⟨hst, rfl⟩)⟩
  · subst hr
    obtain ⟨h1, h2, h3⟩ := W.pend e.s 1
    refine ⟨.pending, h1, hpi', ⟨1, hps⟩, Or.inr ⟨Or.inl rfl, ⟨hn', by rw [h3]; exact hf.live,
      hdl _ h2, ?_⟩, fun _ => ⟨1, by omega, by rw [hlr]; simp⟩⟩⟩
    unfold NT; rw [hlr]; simp
  · subst hr
    exact ⟨_, W.in_ready hst e.s ok _, hpi', ⟨1, hps⟩, Or.inl (Or.inl ⟨hst, rfl⟩)⟩

/-- the deadline is polled: still pending (so is the combinator), or it resolves and the loop goes
    on with the inner child -/
theorem deadline_visit (W : WL P str) (e : Eng Fix) (hm : e.w.mode = .direct)
    (hpi : PI str fv 2 len0 e.w) (hf : FI e.s e.w.trace) (hc : e.s.cnt = 0) :
    ((Eng.visit P e 0).2 = some .pending ∧ Res4 str fv len0 .pending (Eng.visit P e 0).1) ∨
    ((Eng.visit P e 0).2 = none ∧ (Eng.visit P e 0).1.w.mode = .direct ∧
      PI str fv 2 len0 (Eng.visit P e 0).1.w ∧ FI (Eng.visit P e 0).1.s (Eng.visit P e 0).1.w.trace) := by
  have L := W.seq.law
  obtain ⟨hk, hpi', hlr, hps⟩ := pi_pollChild e.w 0 (by omega) hpi (hf.dl hc)
    (P.handle e.s 0 (e.w.resOf 0)).evs (L.evs_handle _ _ _) (W.nodrop _ _ _)
  have hv := visit_direct L W.loopAny W.seq.elig e 0 hm (kindRes_np hk)
  rw [hv]
  simp only
  have hin : NT ((e.w.pollChild 0 0).emits (P.handle e.s 0 (e.w.resOf 0)).evs).trace 1 :=
    nt_of_ne (by rw [hlr]; simp) hf.inn
  generalize hr : e.w.resOf 0 = r at hk hpi' hlr hps hin
  have hn' : (P.handle e.s 0 r).s.n = 2 := by rw [L.n_handle]; exact hf.n2
  rcases hk with ⟨hst, _⟩ | ⟨hst, hr | ⟨ok, hr⟩⟩
  · rw [W.str0] at hst; cases hst
  · subst hr
    obtain ⟨h1, h2, h3⟩ := W.pend e.s 0
    left
    refine ⟨h1, hpi', ⟨0, hps⟩, Or.inr ⟨Or.inl rfl, ⟨hn', by rw [h3]; exact hf.live, fun _ => ?_,
      hin⟩, fun _ => ⟨0, by omega, by rw [hlr]; simp⟩⟩⟩
    unfold NT; rw [hlr]; simp
  · subst hr
    obtain ⟨h1, h2, h3⟩ := W.dl_ready e.s ok (fv 0)
    right
    refine ⟨h1, by simp [hm], hpi', hn', by rw [h3]; exact hf.live, fun h0 => ?_, hin⟩
    rw [h2] at h0; cases h0

/-- `WI` only looks at the scripts, the waker lists and three observations of the trace -/
theorem wi_of_eq {n : Nat} {w w' : World} (hs : w'.scripts = w.scripts) (hh : w'.handed = w.handed)
    (hr : ∀ c, lastRes w'.trace c = lastRes w.trace c) (hg : ∀ c, gone w'.trace c = gone w.trace c)
    (hk : ∀ c, lastWk w'.trace c = lastWk w.trace c) (h : WI str fv n w) : WI str fv n w' := by
  refine ⟨?_, ?_, ?_⟩
  · intro c hc
    have := h.kid c hc
    unfold Kid Str Fut at this ⊢
    rw [hs, hr, hg]; exact this
  · intro c; rw [hh, hk]; exact h.hw c
  · intro c; rw [hr, hk]; exact h.lw c

theorem pi_begin {n : Nat} {w : World} (wid : Nat) (hw : WI str fv n w)
    (hsp : spent false w.trace = false) :
    PI str fv n (fun c => (w.scripts c).length) ((w.emit (.pollBegin wid)).setWaker wid) := by
  refine ⟨wi_of_eq (w := w) rfl rfl (fun c => by simp [lastRes]) (fun c => by simp [gone])
    (fun c => by simp [lastWk]) hw, fun c => Nat.le_refl _, ?_, ?_⟩
  · intro c hc; simp [polledSince] at hc
  · simpa [spent, finalSeen, alive, panickedSeen] using hsp

theorem poll_eq (W : WL P str) (e : Eng Fix) (wid : Nat) (hd : e.s.dead = false) :
    Eng.poll P e wid = Eng.close P (Eng.scan P (P.order e.s)
      { w := (e.w.emit (.pollBegin wid)).setWaker wid, s := e.s }) := by
  unfold Eng.poll
  rw [W.pre _ hd]
  simp only [Eng.body, W.preAny, W.start, Bool.false_and, Bool.false_eq_true, if_false]

/-- the run invariant -/
structure LB4 (P : Policy Fix) (str : Nat → Bool) (fv : Nat → Nat) (e : Eng Fix) : Prop where
  bs : C01S.BS P 2 e
  fi : FI e.s e.w.trace
  wi : WI str fv 2 e.w
  sp : spent false e.w.trace = false
  lo : lastOut e.w.trace = none ∨ lastOut e.w.trace = some .pending ∨
    ∃ k vs, lastOut e.w.trace = some (.some k vs)
  pc : lastOut e.w.trace = some .pending → ∃ c, c < 2 ∧ lastRes e.w.trace c = some .pend

/-- the final outcome has been returned -/
def Done4 (str : Nat → Bool) (fv : Nat → Nat) (e : Eng Fix) : Prop :=
  ∃ o, lastOut e.w.trace = some o ∧ Fin str fv o

/-- the loop of one poll -/
theorem wait_scan (W : WL P str) (e : Eng Fix) (hm : e.w.mode = .direct)
    (hpi : PI str fv 2 len0 e.w) (hf : FI e.s e.w.trace) :
    ∃ o e', Eng.scan P (P.order e.s) e = (e', some o) ∧ Res4 str fv len0 o e' := by
  by_cases hc : e.s.cnt = 0
  · have ho : P.order e.s = [0, 1] := by rw [W.order, hf.n2, hc]; decide
    rw [ho]
    rcases deadline_visit W e hm hpi hf hc with ⟨hx, hr⟩ | ⟨hx, hm', hpi', hf'⟩
    · exact ⟨_, _, scan_one_exit e 0 [1] _ hx, hr⟩
    · obtain ⟨o, hx', hr⟩ := inner_visit W _ hm' hpi' hf'
      exact ⟨o, _, by rw [scan_one_go e 0 [1] hx]; exact scan_one_exit _ 1 [] o hx', hr⟩
  · have ho : P.order e.s = [1] := by rw [W.order, hf.n2]; simp [hc]
    rw [ho]
    obtain ⟨o, hx, hr⟩ := inner_visit W e hm hpi hf
    exact ⟨o, _, scan_one_exit e 1 [] o hx, hr⟩

/-- one top-level poll: it consumes a scripted step, and returns the final outcome or keeps the
    invariant -/
theorem lb4_poll (W : WL P str) (e : Eng Fix) (wid : Nat) (h : LB4 P str fv e) :
    Exec.stepsLeft 2 (Eng.poll P e wid) < Exec.stepsLeft 2 e ∧
      (Done4 str fv (Eng.poll P e wid) ∨ LB4 P str fv (Eng.poll P e wid)) := by
  have hm : e.w.mode = .direct := h.bs.b.kd.dir
  have hbs := C01S.bs_poll W.seq e wid h.bs
  have hf0 : FI e.s ((e.w.emit (.pollBegin wid)).setWaker wid).trace :=
    ⟨h.fi.n2, h.fi.live, fun hc => nt_of_ne (by simp [lastRes]) (h.fi.dl hc),
      nt_of_ne (by simp [lastRes]) h.fi.inn⟩
  obtain ⟨o, e', hs, hr⟩ := wait_scan W
    { w := (e.w.emit (.pollBegin wid)).setWaker wid, s := e.s } (by simpa using hm)
    (pi_begin wid h.wi h.sp) hf0
  have hpe : Eng.poll P e wid = e'.emit (.pollEnd o) := by
    rw [poll_eq W e wid h.fi.live]
    simp only at hs
    rw [hs]; rfl
  rw [hpe] at hbs ⊢
  constructor
  · obtain ⟨c, hc⟩ := hr.ps
    have := hr.pi.ps c hc
    exact total_lt _ _ 2 (fun c _ => hr.pi.le c) c this.1 this.2
  · rcases hr.out with hfin | ⟨ho, hf, hp⟩
    · left; exact ⟨o, rfl, hfin⟩
    · right
      refine ⟨hbs, ⟨hf.n2, hf.live, fun hc => nt_of_ne (by simp [lastRes]) (hf.dl hc),
          nt_of_ne (by simp [lastRes]) hf.inn⟩,
        wi_of_eq (w := e'.w) rfl rfl (fun c => by simp [lastRes]) (fun c => by simp [gone])
          (fun c => by simp [lastWk]) hr.pi.wi, ?_, ?_, ?_⟩
      · have := hr.pi.sp
        rcases ho with ho | ⟨k, vs, ho⟩ <;> subst ho <;>
          simpa [spent, finalSeen, alive, panickedSeen] using this
      · rcases ho with ho | ⟨k, vs, ho⟩ <;> subst ho
        · exact Or.inr (Or.inl rfl)
        · exact Or.inr (Or.inr ⟨k, vs, rfl⟩)
      · intro hlo
        simp only [Eng.emit_w, World.emit_trace, lastOut, Option.some.injEq] at hlo
        obtain ⟨c, hc, hl⟩ := hp hlo
        exact ⟨c, hc, by simpa [lastRes] using hl⟩

/-! ### one wake-up between polls -/

theorem wi_fire {n : Nat} (w : World) (c a : Nat) (h : WI str fv n w) : WI str fv n (w.fire c a) := by
  obtain ⟨l, hl, hp⟩ := World.fire_seg w c a
  refine wi_of_eq (w := w) (by simp) (by simp) (C16.lastRes_fire w c a) ?_ ?_ h
  · intro j; rw [hl]; exact gone_fires l _ j hp
  · intro j; rw [hl]
    exact skip_seg (fun t => lastWk t j) isFireEv (fun e t h => lastWk_fireEv j e t h) l hp _

theorem lb4_fire (e : Eng Fix) (c a : Nat) (h : LB4 P str fv e) : LB4 P str fv (e.fire c a) := by
  obtain ⟨l, hl, hp⟩ := World.fire_seg e.w c a
  have hlo : lastOut (e.fire c a).w.trace = lastOut e.w.trace := C01.lastOut_fire e.w c a
  have hlr : ∀ j, lastRes (e.fire c a).w.trace j = lastRes e.w.trace j := C16.lastRes_fire e.w c a
  refine ⟨C01S.bs_fire e c a h.bs, ⟨h.fi.n2, h.fi.live, fun hc => nt_of_ne (hlr 0) (h.fi.dl hc),
    nt_of_ne (hlr 1) h.fi.inn⟩, wi_fire e.w c a h.wi, ?_, by rw [hlo]; exact h.lo, ?_⟩
  · simp only [Eng.fire_w, hl]
    rw [spent_fires false l _ hp]; exact h.sp
  · intro hp'
    rw [hlo] at hp'
    obtain ⟨j, hj, hj'⟩ := h.pc hp'
    exact ⟨j, hj, by rw [hlr]; exact hj'⟩

/-- prodding a waiting child: its wake-up is owed afterwards, hence (C01 `quiet`) the task has
    been woken -/
theorem fire_woke4 {n : Nat} (w : World) (c : Nat) (hwi : WI str fv n w)
    (hq : quiet n (w.fire c 0).trace = true) (hsp : spent false w.trace = false)
    (hlo : lastOut w.trace = some .pending) (hc : c < n) (hlr : lastRes w.trace c = some .pend) :
    wokeSince (w.fire c 0).trace = true := by
  have hLR : lastRes (w.fire c 0).trace c = some .pend := by
    rw [C16.lastRes_fire]; exact hlr
  obtain ⟨wk, hwk⟩ : ∃ wk, lastWk w.trace c = some wk := by
    cases hh : lastWk w.trace c with
    | none => exact absurd hh (hwi.lw c (by rw [hlr]; simp))
    | some wk => exact ⟨wk, rfl⟩
  have hget : (w.handed c)[0]? = some wk := by
    rw [← List.head?_eq_getElem?, hwi.hw c, hwk]
  have howes : owes (w.fire c 0).trace c = true := by
    unfold World.fire
    rw [hget]
    simp only
    obtain ⟨l, hl, hp⟩ := World.fireWk_seg (w.emit (.fired c 0 (some wk))) wk
    rw [hl]
    refine owes_fires_mono c l _ hp ?_
    simp [owes, hwk]
  obtain ⟨l, hl, hp⟩ := World.fire_seg w c 0
  have hlo' : lastOut (w.fire c 0).trace = some .pending := by
    rw [C01.lastOut_fire]; exact hlo
  have halive : alive (w.fire c 0).trace = true := by
    rw [C01.alive_fire]
    simp only [spent, Bool.or_eq_false_iff, Bool.not_eq_false'] at hsp
    exact hsp.1.2
  have hgone : gone (w.fire c 0).trace c = false := by
    rw [hl, gone_fires l _ c hp]
    exact (kid_waiting (hwi.kid c hc) hlr).2
  simp only [quiet, halive, hlo', beq_self_eq_true, Bool.and_self, Bool.not_true, Bool.false_or,
    List.all_eq_true, List.mem_range] at hq
  have := hq c hc
  simpa [hLR, hgone, howes] using this

theorem prog_lb4 (W : WL P str) : ProgS P 2 (LB4 P str fv) (Done4 str fv) where
  lo := fun e h => h.lo
  poll := fun e wid h => lb4_poll W e wid h
  fire := fun e c h => lb4_fire e c 0 h
  waiting := by
    intro e h hlo
    obtain ⟨c, hc, hlr⟩ := h.pc hlo
    exact ⟨c, hc, hlr, (kid_waiting (h.wi.kid c hc) hlr).1⟩
  woke := by
    intro e c h hlo hc hlr
    have h' := lb4_fire (P := P) e c 0 h
    exact fire_woke4 e.w c h.wi (C01D.quiet_of_binv _ h'.bs.b) h.sp hlo hc hlr

/-! ### the two policies -/

open Fix

theorem wl_waitF : WL waitUntilF (fun _ => false) where
  seq := seq_waitUntilF
  loopAny := rfl
  preAny := fun _ => rfl
  start := fun _ => rfl
  pre := by intro s hd; simp [waitUntilF, Fix.misuseIfDead, hd]
  order := fun _ => rfl
  nodrop := by
    intro s i r c
    cases r <;> simp [waitUntilF] <;> split <;> simp
  str0 := rfl
  pend := fun s i => ⟨rfl, rfl, rfl⟩
  dl_ready := fun s ok v => ⟨rfl, rfl, rfl⟩
  in_ready := fun _ s ok v => rfl
  in_item := by intro h; cases h
  in_fin := by intro h; cases h

theorem wl_waitS : WL waitUntilS (fun c => c != 0) where
  seq := seq_waitUntilS
  loopAny := rfl
  preAny := fun _ => rfl
  start := fun _ => rfl
  pre := by intro s hd; simp [waitUntilS, Fix.misuseIfDead, hd]
  order := fun _ => rfl
  nodrop := by
    intro s i r c
    cases r <;> simp [waitUntilS, Fix.bufEvs] <;> split <;> simp <;> split <;> simp
  str0 := rfl
  pend := fun s i => ⟨rfl, rfl, rfl⟩
  dl_ready := fun s ok v => ⟨rfl, rfl, rfl⟩
  in_ready := by intro h; cases h
  in_item := fun _ s v => ⟨rfl, rfl, rfl⟩
  in_fin := fun _ s => rfl

/-! ### the initial states and the theorems -/

theorem nt_nil (c : Nat) : NT [] c := by
  constructor
  · intro ok v h; cases h
  · intro h; cases h

theorem fi_init : FI (Fix.init 2 0) [] := ⟨rfl, rfl, fun _ => nt_nil 0, nt_nil 1⟩

theorem lb4_init_F (m : Mode) (scripts : Nat → List Step)
    (hs : ∀ c, c < 2 → Exec.futureScript (scripts c) = true) :
    LB4 waitUntilF (fun _ => false) (fun c => finalVal (scripts c)) (FEng.init .waitF m 2 scripts) := by
  refine ⟨C01S.bs_init .waitF 2 scripts m rfl, fi_init, ⟨?_, fun c => rfl, ?_⟩, rfl, Or.inl rfl, ?_⟩
  · intro c hc
    exact Or.inr ⟨rfl, Or.inl ⟨hs c hc, Or.inl rfl, rfl, rfl⟩⟩
  · intro c hc; exact absurd rfl hc
  · intro hc; simp [FEng.init, World.init, lastOut] at hc

theorem lb4_init_S (m : Mode) (scripts : Nat → List Step)
    (h0 : Exec.futureScript (scripts 0) = true) (h1 : streamScript (scripts 1) = true) :
    LB4 waitUntilS (fun c => c != 0) (fun c => finalVal (scripts c)) (FEng.init .waitS m 2 scripts) := by
  refine ⟨C01S.bs_init .waitS 2 scripts m rfl, fi_init, ⟨?_, fun c => rfl, ?_⟩, rfl, Or.inl rfl, ?_⟩
  · intro c hc
    have hc01 : c = 0 ∨ c = 1 := by omega
    rcases hc01 with hc0 | hc1
    · subst hc0
      exact Or.inr ⟨rfl, Or.inl ⟨h0, Or.inl rfl, rfl, rfl⟩⟩
    · subst hc1
      exact Or.inl ⟨rfl, Or.inl ⟨h1, Or.inl rfl, rfl⟩⟩
  · intro c hc; exact absurd rfl hc
  · intro hc; simp [FEng.init, World.init, lastOut] at hc

/-- `wait_until` over a future resolves — to the inner future's value — within
    `2 * stepsLeft - 1` rounds -/
theorem wait_f_resolves (m : Mode) (scripts : Nat → List Step)
    (hs : ∀ c, c < 2 → Exec.futureScript (scripts c) = true) :
    ∃ k, k + 1 ≤ 2 * Exec.stepsLeft 2 (FEng.init .waitF m 2 scripts) ∧
      lastOut (Exec.runFor Fc.waitUntilF 2 k (FEng.init .waitF m 2 scripts)).w.trace
        = some (.ready true [finalVal (scripts 1)]) := by
  obtain ⟨k, hk, o, hlo, hfin⟩ :=
    ends_of_progS (prog_lb4 wl_waitF) _ (lb4_init_F m scripts hs) rfl
  refine ⟨k, hk, ?_⟩
  rcases hfin with ⟨_, ho⟩ | ⟨hst, _⟩
  · rw [hlo, ho]
  · cases hst

/-- `wait_until` over a stream ends within `2 * stepsLeft - 1` rounds -/
theorem wait_s_ends (m : Mode) (scripts : Nat → List Step)
    (h0 : Exec.futureScript (scripts 0) = true) (h1 : streamScript (scripts 1) = true) :
    ∃ k, k + 1 ≤ 2 * Exec.stepsLeft 2 (FEng.init .waitS m 2 scripts) ∧
      lastOut (Exec.runFor Fc.waitUntilS 2 k (FEng.init .waitS m 2 scripts)).w.trace = some .none := by
  obtain ⟨k, hk, o, hlo, hfin⟩ :=
    ends_of_progS (prog_lb4 wl_waitS) _ (lb4_init_S m scripts h0 h1) rfl
  refine ⟨k, hk, ?_⟩
  rcases hfin with ⟨hst, _⟩ | ⟨_, ho⟩
  · cases hst
  · rw [hlo, ho]

end Live4
end Fc
