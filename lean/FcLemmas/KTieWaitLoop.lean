/-
  Kernel tie, `WaitUntil::poll` of src/future/wait_until.rs — the translated `loop` over the `State` enum
  (`Rs.loopFuel` with fuel 4) refines `Eng.close waitUntilF ∘ Eng.scan waitUntilF` over `[0, 1]` (state 0) resp. `[1]`
  (state 1).

  `BodySpec cx body` is what the proof needs to know about one turn of the loop, by cases on where the state machine
  stands (`State.toNat`) and what the polled child answers; it is stated through the role abbreviations only.  The main
  theorem (FcProps/KTieWait.lean) takes the body from the generated definition by unification and discharges `BodySpec`
  by unfolding.  The loop makes at most two turns (deadline resolves, then the inner future is polled).
-/
import FcLemmas.KTieWaitEnv
import FcProps.KTieWaitUntil

set_option linter.unusedSimpArgs false
set_option linter.unusedVariables false

namespace Fc
open Rs Src

namespace TieWaitF
open WaitF TieDirect TieWaitEnv

local macro "unroles" : tactic =>
  `(tactic| try simp only [WaitUntil.roleInner, WaitUntil.roleDeadline, WaitUntil.roleState] at *)

theorem state_lt (s : State) : s.toNat < 3 := by
  cases s <;> decide

abbrev LoopSt := WaitUntil × World
abbrev LoopRet := Rs.Poll Nat

/-- one turn of the translated loop -/
structure BodySpec (cx : Nat) (body : LoopSt → Option (LoopSt × Rs.Ctl LoopRet)) : Prop where
  /-- waiting for the deadline, which is pending: `ready!` returns `Pending` -/
  dpend : ∀ (g : WaitUntil) (env env' : World), g.roleState.toNat = 0 →
    Rs.pollFut dummy () env g.roleDeadline (.par cx) = some ((), env', .pending) →
    body (g, env) = some ((g, env'), .ret .pending)
  /-- the deadline resolved: its output is dropped at the end of the statement, the state moves on, go round again -/
  dready : ∀ (g : WaitUntil) (env env' : World) (v : Nat), g.roleState.toNat = 0 →
    Rs.pollFut dummy () env g.roleDeadline (.par cx) = some ((), env', .ready v) →
    ∃ g', body (g, env) = some ((g', env'.emit (.valDropped v)), .next) ∧ g'.roleState.toNat = 1 ∧
      g'.roleDeadline = g.roleDeadline ∧ g'.roleInner = g.roleInner
  /-- the inner future is pending -/
  ipend : ∀ (g : WaitUntil) (env env' : World), g.roleState.toNat = 1 →
    Rs.pollFut dummy () env g.roleInner (.par cx) = some ((), env', .pending) →
    body (g, env) = some ((g, env'), .ret .pending)
  /-- the inner future resolved: completed, its value is returned -/
  iready : ∀ (g : WaitUntil) (env env' : World) (v : Nat), g.roleState.toNat = 1 →
    Rs.pollFut dummy () env g.roleInner (.par cx) = some ((), env', .ready v) →
    ∃ g', body (g, env) = some ((g', env'), .ret (.ready v)) ∧ g'.roleState.toNat = 2 ∧
      g'.roleDeadline = g.roleDeadline ∧ g'.roleInner = g.roleInner
  /-- completed: `panic!("future polled after completing")` -/
  completed : ∀ (g : WaitUntil) (env : World), g.roleState.toNat = 2 → body (g, env) = none

/-- what the loop establishes against the closed model run `E` -/
def Post (E : Eng Fix) (a : LoopSt × Option LoopRet) : Prop :=
  ∃ v, a.2 = some v ∧ WfW a.1.1 ∧
    E.s.cnt = (if a.1.1.roleState.toNat = 0 then 0 else 1) ∧
    E.s.dead = decide (a.1.1.roleState.toNat = 2) ∧
    a.1.2.scripts = E.w.scripts ∧ a.1.2.handed = E.w.handed ∧
    E.w.trace = .pollEnd (outcomeOfRace v) :: a.1.2.trace ∧
    FutStepsF a.1.2

/-- the loop, started at the inner future (state 1) -/
theorem wf_loop_inner (cx : Nat) (body : LoopSt → Option (LoopSt × Rs.Ctl LoopRet)) (hb : BodySpec cx body)
    (g : WaitUntil) (env : World) (e : Eng Fix) (fuel : Nat) (hf : 0 < fuel)
    (hwf : WfW g) (hst : g.roleState.toNat = 1)
    (hw : e.w = env) (hc : e.s.cnt = 1) (hd : e.s.dead = false)
    (hm : env.mode = .direct) (hp : env.parent = some cx) (hs : FutStepsF env) :
    ∃ a, Rs.loopFuel fuel (g, env) body = some a ∧
      Post (Eng.close waitUntilF (Eng.scan waitUntilF [1] e)) a := by
  obtain ⟨f, rfl⟩ : ∃ f, fuel = f + 1 := ⟨fuel - 1, by omega⟩
  obtain ⟨ew, es⟩ := e
  simp only at hw hc hd
  subst hw
  have hme : ({ w := ew, s := es } : Eng Fix).w.mode = .direct := hm
  obtain ⟨hdl, hin⟩ := hwf
  simp only [Eng.scan]
  rcases futSteps_resOf ew hs 1 with hr | ⟨ok, v, hr⟩
  · have hbody := hb.ipend g ew _ hst (by rw [hin]; exact (pollFut_tie ew 1 cx hm hp).1 hr)
    refine ⟨((g, ew.pollChild 1 1), some .pending), ?_, ?_⟩
    · simp only [Rs.loopFuel, hbody]
    · rw [wf_visit_pend _ _ hme hr]
      simp only [wf_close_some]
      exact ⟨_, rfl, ⟨hdl, hin⟩, by simp [hst, hc, Eng.emit], by simp [hst, hd, Eng.emit], rfl, rfl, rfl,
        futStepsF_pollChild _ hs _ _⟩
  · obtain ⟨g', hbody, hst', hdl', hin'⟩ :=
      hb.iready g ew _ v hst (by rw [hin]; exact (pollFut_tie ew 1 cx hm hp).2 ok v hr)
    refine ⟨((g', ew.pollChild 1 1), some (.ready v)), ?_, ?_⟩
    · simp only [Rs.loopFuel, hbody]
    · rw [wf_visit_inner _ ok v hme hr]
      simp only [wf_close_some]
      exact ⟨_, rfl, ⟨hdl'.trans hdl, hin'.trans hin⟩, by simp [hst', hc, Fix.kill, Eng.emit],
        by simp [hst', Fix.kill, Eng.emit], rfl, rfl, rfl, futStepsF_pollChild _ hs _ _⟩

/-- the loop, started at the deadline (state 0) -/
theorem wf_loop_deadline (cx : Nat) (body : LoopSt → Option (LoopSt × Rs.Ctl LoopRet)) (hb : BodySpec cx body)
    (g : WaitUntil) (env : World) (e : Eng Fix) (fuel : Nat) (hf : 1 < fuel)
    (hwf : WfW g) (hst : g.roleState.toNat = 0)
    (hw : e.w = env) (hc : e.s.cnt = 0) (hd : e.s.dead = false)
    (hm : env.mode = .direct) (hp : env.parent = some cx) (hs : FutStepsF env) :
    ∃ a, Rs.loopFuel fuel (g, env) body = some a ∧
      Post (Eng.close waitUntilF (Eng.scan waitUntilF [0, 1] e)) a := by
  obtain ⟨f, rfl⟩ : ∃ f, fuel = f + 1 := ⟨fuel - 1, by omega⟩
  obtain ⟨ew, es⟩ := e
  simp only at hw hc hd
  subst hw
  have hme : ({ w := ew, s := es } : Eng Fix).w.mode = .direct := hm
  obtain ⟨hdl, hin⟩ := hwf
  rw [Eng.scan]
  rcases futSteps_resOf ew hs 0 with hr | ⟨ok, v, hr⟩
  · have hbody := hb.dpend g ew _ hst (by rw [hdl]; exact (pollFut_tie ew 0 cx hm hp).1 hr)
    refine ⟨((g, ew.pollChild 0 0), some .pending), ?_, ?_⟩
    · simp only [Rs.loopFuel, hbody]
    · rw [wf_visit_pend _ _ hme hr]
      simp only [wf_close_some]
      exact ⟨_, rfl, ⟨hdl, hin⟩, by simp [hst, hc, Eng.emit], by simp [hst, hd, Eng.emit], rfl, rfl, rfl,
        futStepsF_pollChild _ hs _ _⟩
  · obtain ⟨g', hbody, hst', hdl', hin'⟩ :=
      hb.dready g ew _ v hst (by rw [hdl]; exact (pollFut_tie ew 0 cx hm hp).2 ok v hr)
    rw [wf_visit_deadline _ ok v hme hr]
    simp only
    obtain ⟨a, ha, hpost⟩ := wf_loop_inner cx body hb g' ((ew.pollChild 0 0).emit (.valDropped v))
      { w := (ew.pollChild 0 0).emit (.valDropped v), s := { es with cnt := 1 } } f (by omega)
      ⟨hdl'.trans hdl, hin'.trans hin⟩ hst' rfl rfl hd
      (by show (ew.pollChild 0 0).mode = _; rw [pollChild_mode]; exact hm)
      (by show (ew.pollChild 0 0).parent = _; rw [pollChild_parent]; exact hp)
      (futStepsF_emit _ (futStepsF_pollChild _ hs _ _) _)
    refine ⟨a, ?_, hpost⟩
    simp only [Rs.loopFuel, hbody]
    exact ha

/-- the loop from either live state, against the scan order the model picks from its `cnt` -/
theorem wf_loop (cx : Nat) (body : LoopSt → Option (LoopSt × Rs.Ctl LoopRet)) (hb : BodySpec cx body)
    (g : WaitUntil) (env : World) (e : Eng Fix) (fuel : Nat) (hf : 1 < fuel)
    (hwf : WfW g) (hst : g.roleState.toNat ≠ 2)
    (hw : e.w = env) (hc : e.s.cnt = if g.roleState.toNat = 0 then 0 else 1) (hd : e.s.dead = false)
    (hm : env.mode = .direct) (hp : env.parent = some cx) (hs : FutStepsF env) :
    ∃ a, Rs.loopFuel fuel (g, env) body = some a ∧
      Post (Eng.close waitUntilF (Eng.scan waitUntilF (if e.s.cnt = 0 then [0, 1] else [1]) e)) a := by
  have hlt := state_lt g.roleState
  by_cases h0 : g.roleState.toNat = 0
  · have hc' : e.s.cnt = 0 := by rw [hc]; simp [h0]
    simp only [hc', if_true]
    exact wf_loop_deadline cx body hb g env e fuel hf hwf h0 hw hc' hd hm hp hs
  · have h1 : g.roleState.toNat = 1 := by omega
    have hc' : e.s.cnt = 1 := by rw [hc]; simp [h0]
    simp only [hc', if_false, Nat.one_ne_zero]
    exact wf_loop_inner cx body hb g env e fuel (by omega) hwf h1 hw hc' hd hm hp hs

end TieWaitF

end Fc
