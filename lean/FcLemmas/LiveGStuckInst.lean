/-
  FcLemmas/LiveGStuckInst.lean — the run invariants of a group with never-completing members driven
  by the wake-only executor (every schedule, busy environment), and the instance of the abstract
  argument (`LiveGStuck.ProgGS`).

  `LGWS` / `LGAS` are `LiveGAny.LGW` / `LGA` with the member invariant `WG` replaced by the weakened
  `WGS` (FcLemmas/LiveGStuckObs.lean); the safety invariants (C01g: `SB` / `DB`, C11 / C12:
  `G11.InvE`) are used unchanged — they only ask the scripts to be of the group's kind, which a
  `Pending`-only script is.  `OwedS`: some waiting member THAT HAS A STEP LEFT is owed a wake-up.

  What the states at the end of a run say about delivery: `delivered_of` (a well-behaved id whose
  group has no scripted step left was released and everything it ever answers was yielded),
  `stuck_member` (an id that is not well-behaved is still a member).
-/
import FcLemmas.LiveGStuckLoop
import FcLemmas.LiveGStuckRun
set_option linter.unusedSimpArgs false
set_option linter.unusedVariables false

namespace Fc
namespace LiveGStuck
open Mon Live Live3 G Grp C01 LiveG LiveGAny

/-- the group may be polled -/
structure LGWS (stream keyed : Bool) (m : Mode) (n : Nat) (sc0 : Nat → List Step) (e : Eng Grp) :
    Prop where
  mode : e.w.mode = m
  std : m = .std → SB n e
  dir : m = .direct → DB n e
  g11 : ∃ U, G11.InvE stream keyed n U e ∧ ∀ c ∈ U, keyOf e.w.trace c ≠ none
  dead : e.s.dead = false
  al : alive e.w.trace = true
  bnd : ∀ c, keyOf e.w.trace c ≠ none → c < n
  wg : WGS stream sc0 e.s.member e.w
  ib : ∀ k c, e.s.member k = some c → Needy (lastRes e.w.trace c) → e.w.isSet k = true
  nk : ∀ c, gone e.w.trace c = true → keyOf e.w.trace c ≠ none

/-- … and the run has not ended -/
structure LGAS (stream keyed : Bool) (m : Mode) (n : Nat) (sc0 : Nat → List Step) (e : Eng Grp) :
    Prop where
  w : LGWS stream keyed m n sc0 e
  pa : lastOut e.w.trace = some .pending →
    ∀ k c, e.s.member k = some c → lastRes e.w.trace c = some .pend
  ne : lastOut e.w.trace = some .pending → ∃ k c, e.s.member k = some c
  lo : Lo3 e

/-- some waiting member that has a scripted step left is owed a wake-up -/
def OwedS (e : Eng Grp) : Prop :=
  ∃ k c, e.s.member k = some c ∧ lastRes e.w.trace c = some .pend ∧ e.w.scripts c ≠ [] ∧
    owes e.w.trace c = true

variable {stream keyed : Bool} {m : Mode} {n : Nat} {sc0 : Nat → List Step}

theorem lgws_cb (e : Eng Grp) (h : LGWS stream keyed m n sc0 e) : CB n e := by
  cases m with
  | std => exact (h.std rfl).cb
  | direct => exact (h.dir rfl).cb

theorem lgws_quiet (e : Eng Grp) (h : LGWS stream keyed m n sc0 e) : quiet n e.w.trace = true := by
  cases m with
  | std => exact quiet_of_sb e (h.std rfl)
  | direct => exact quiet_of_db e (h.dir rfl)

theorem lgws_mb (e : Eng Grp) (h : LGWS stream keyed m n sc0 e) :
    c01Boundaries n e.w.trace = true := by
  cases m with
  | std => exact (h.std rfl).mb
  | direct => exact (h.dir rfl).mb

theorem lgws_noneSet (e : Eng Grp) (h : LGWS stream keyed m n sc0 e) :
    e.w.anyReady = false → ∀ k, e.w.isSet k = false := by
  intro ha k
  cases m with
  | std =>
    have hbc := (h.std rfl).gk.bc
    rw [World.isSet_std _ _ hbc.std]
    exact bc_count_zero hbc (anyReady_false_count hbc.std ha) k
  | direct =>
    simp [World.anyReady, h.mode] at ha

theorem lgws_kind (e : Eng Grp) (h : LGWS stream keyed m n sc0 e) :
    ScriptsOk (G11.kindG stream) e.w := by
  obtain ⟨U, hU, _⟩ := h.g11
  have hs : e.s.stream = stream := (hU.live h.dead).1.hs
  have := (lgws_cb e h).ok
  unfold KOk at this
  rw [hs] at this
  exact this

/-- members sit in slots of the key set -/
theorem mem_membersS (e : Eng Grp) (h : LGWS stream keyed m n sc0 e) (k c : Nat)
    (hk : e.s.member k = some c) : c ∈ ExecGAny.members e := by
  unfold ExecGAny.members
  rw [List.mem_filterMap]
  exact ⟨k, (lgws_cb e h).slab.kmem k (by rw [hk]; simp), hk⟩

/-! ### one top-level poll -/

theorem lgws_poll (e : Eng Grp) (wid : Nat) (h : LGWS stream keyed m n sc0 e) :
    (lastOut (Eng.poll group e wid).w.trace = some .none ∧
      LGWS stream keyed m n sc0 (Eng.poll group e wid) ∧
      ∀ k, (Eng.poll group e wid).s.member k = none) ∨
    (LGAS stream keyed m n sc0 (Eng.poll group e wid) ∧ mu n (Eng.poll group e wid) ≤ mu n e ∧
      ((lastOut (Eng.poll group e wid).w.trace ≠ some .pending ∧
          mu n (Eng.poll group e wid) < mu n e) ∨
       (lastOut (Eng.poll group e wid).w.trace = some .pending ∧
          (mu n (Eng.poll group e wid) < mu n e ∨ wokeSince (Eng.poll group e wid).w.trace = false) ∧
          (OwedS e → mu n (Eng.poll group e wid) < mu n e)))) := by
  have hcb := lgws_cb e h
  have hmb1 : c01Boundaries n (Ev.pollBegin wid :: e.w.trace) = true :=
    mb_startsOp n _ _ (lgws_mb e h) (lgws_quiet e h)
  have hci := ci_begin e wid hcb hmb1
  have hstd : m = .std → SB n (Eng.poll group e wid) := fun hm => sb_poll e wid (h.std hm)
  have hdir : m = .direct → DB n (Eng.poll group e wid) := fun hm => db_poll e wid (h.dir hm)
  obtain ⟨U, hU, hUk⟩ := h.g11
  have hU' : G11.InvE stream keyed n U (Eng.poll group e wid) :=
    (G11.pollG (G11.sim_group stream keyed n U m)
      (fun s t w hpre hI => G11.early_ok s t w hpre hI) e wid h.mode (lgws_kind e h) hU).2.2
  have hkey : ∀ c, keyOf (Eng.poll group e wid).w.trace c = keyOf e.w.trace c :=
    fun c => keyOf_poll e wid c
  have hpe := pjs_poll (stream := stream) (sc0 := sc0) e wid hci h.wg h.ib h.dead h.al
    (lgws_noneSet e h)
  have hmode : (Eng.poll group e wid).w.mode = m := by
    cases m with
    | std => exact (hstd rfl).gk.bc.std
    | direct => exact (hdir rfl).gd.dir
  have hlgw : LGWS stream keyed m n sc0 (Eng.poll group e wid) := by
    refine ⟨hmode, hstd, hdir, ⟨U, hU', fun c hc => by rw [hkey]; exact hUk c hc⟩, hpe.dead, hpe.al,
      fun c hc => h.bnd c (by rwa [hkey] at hc), hpe.wg, hpe.a, ?_⟩
    intro c hc
    rw [hkey]
    rcases hpe.gp c hc with h1 | h1
    · exact h.nk c h1
    · have := (hpe.ps c h1).1; rwa [hkey] at this
  obtain ⟨o, t, ht, ho⟩ := hpe.shape
  have hlo : lastOut (Eng.poll group e wid).w.trace = some o := by rw [ht]; rfl
  rcases ho with ho | ho
  · left
    subst ho
    exact ⟨hlo, hlgw, no_member_of_none _ t hU' hpe.dead ht⟩
  · right
    have hlga : LGAS stream keyed m n sc0 (Eng.poll group e wid) := by
      refine ⟨hlgw, hpe.pa, ?_, ?_⟩
      · intro hp
        rw [hlo] at hp
        simp only [Option.some.injEq] at hp
        subst hp
        exact member_of_pending _ t hU' hpe.dead ht
      · unfold Lo3
        rw [hlo]
        rcases ho with ho | ⟨key, vs, ho⟩
        · exact Or.inr (Or.inl (by rw [ho]))
        · exact Or.inr (Or.inr ⟨key, vs, by rw [ho]⟩)
    -- the measure
    have hLe : ∀ c, c < n →
        (if (keyOf (Eng.poll group e wid).w.trace c).isSome then
          ((Eng.poll group e wid).w.scripts c).length else 0)
        ≤ (if (keyOf e.w.trace c).isSome then (e.w.scripts c).length else 0) := by
      intro c _
      rw [hkey]
      split
      · exact hpe.le c
      · exact Nat.le_refl _
    have hle : mu n (Eng.poll group e wid) ≤ mu n e := total_le _ _ n hLe
    -- a polled member that has consumed a step
    have hlt' : ∀ c, polledSince (Eng.poll group e wid).w.trace c = true →
        ((Eng.poll group e wid).w.scripts c).length < (e.w.scripts c).length →
        mu n (Eng.poll group e wid) < mu n e := by
      intro c hc hl
      obtain ⟨hk, _⟩ := hpe.ps c hc
      have hcn : c < n := h.bnd c (by rwa [hkey] at hk)
      refine total_lt _ _ n hLe c hcn ?_
      rw [hkey] at hk ⊢
      have : (keyOf e.w.trace c).isSome = true := by
        cases hh : keyOf e.w.trace c with
        | none => exact absurd hh hk
        | some x => rfl
      simp only [this, if_true]
      exact hl
    -- a polled member that had a step
    have hlt : ∀ c, polledSince (Eng.poll group e wid).w.trace c = true → e.w.scripts c ≠ [] →
        mu n (Eng.poll group e wid) < mu n e := by
      intro c hc hne
      refine hlt' c hc ((hpe.ps c hc).2 ?_)
      have := length_pos_of_ne_nil'' _ hne
      omega
    refine ⟨hlga, hle, ?_⟩
    rcases ho with ho | ⟨key, vs, ho⟩
    · -- `Pending`
      subst ho
      right
      refine ⟨hlo, ?_, ?_⟩
      · cases hw : wokeSince (Eng.poll group e wid).w.trace with
        | false => exact Or.inr rfl
        | true =>
          obtain ⟨c, hc, hl⟩ := hpe.wk hw
          exact Or.inl (hlt' c hc hl)
      · -- C20: the owed waiting member was polled in this poll
        rintro ⟨k, c, hkc, hlr, hne, how⟩
        refine hlt c ?_ hne
        have hcn : c < n := h.bnd c (by rw [hcb.link.f1 k c hkc]; simp)
        have hab : atPollBegin t = e.w.trace := by
          have := hpe.ab; rw [ht] at this; simpa [atPollBegin] using this
        have hps : polledSince (Eng.poll group e wid).w.trace c = polledSince t c := by
          rw [ht]; simp [polledSince]
        rw [hps]
        cases hg : gone t c with
        | true =>
          rcases hpe.gp c (by rw [ht]; simpa [gone] using hg) with h1 | h1
          · rw [(h.wg.mem k c hkc).2.2] at h1; exact Bool.noConfusion h1
          · rw [← hps]; exact h1
        | false =>
          have hm20 := (lgws_cb _ hlgw).m20
          rw [ht] at hm20
          simp only [holds_C20, Bool.and_eq_true] at hm20
          have h20 := hm20.2
          simp only [c20At, List.all_eq_true, List.mem_range] at h20
          have hcc := h20 c hcn
          have hkt : keyOf t c = some k := by
            have := hkey c; rw [ht] at this
            simp only [keyOf] at this
            rw [this]; exact hcb.link.f1 k c hkc
          rw [hab] at hcc
          simp only [owned, Bool.false_eq_true, if_false, hkt, Option.isSome_some, hg, Bool.not_false,
            Bool.and_self, Bool.not_true, Bool.false_or, hlr, how, beq_self_eq_true,
            Bool.and_eq_true] at hcc
          exact hcc.2
    · -- an item / an output
      subst ho
      left
      refine ⟨by rw [hlo]; simp, ?_⟩
      obtain ⟨c, hc, hl⟩ := hpe.sm key vs hlo
      exact hlt' c hc hl

/-! ### one wake-up between polls: any id, any age -/

theorem lgws_fire (e : Eng Grp) (c a : Nat) (h : LGWS stream keyed m n sc0 e) :
    LGWS stream keyed m n sc0 (e.fire c a) := by
  obtain ⟨U, hU, hUk⟩ := h.g11
  refine ⟨by simpa using h.mode, fun hm => sb_fire e c a (h.std hm), fun hm => db_fire e c a (h.dir hm),
    ⟨U, (Sim.fireT (G11.sim_group stream keyed n U m) e c a h.mode (lgws_kind e h) hU).2.2, ?_⟩,
    h.dead, ?_, ?_, wgs_fire e.w c a h.wg, ?_, ?_⟩
  · intro j hj
    simp only [Eng.fire_w, keyOf_fire]
    exact hUk j hj
  · simp only [Eng.fire_w, C01.alive_fire]; exact h.al
  · intro j hj
    simp only [Eng.fire_w, keyOf_fire] at hj
    exact h.bnd j hj
  · intro k j hk hn
    simp only [Eng.fire_w, Eng.fire_s, C16.lastRes_fire] at hk hn ⊢
    exact World.isSet_fire_mono _ _ _ _ (h.ib k j hk hn)
  · intro j hj
    obtain ⟨l, hl, hp⟩ := World.fire_seg e.w c a
    simp only [Eng.fire_w, keyOf_fire]
    simp only [Eng.fire_w, hl, gone_fires l _ j hp] at hj
    exact h.nk j hj

theorem lgas_fire (e : Eng Grp) (c a : Nat) (h : LGAS stream keyed m n sc0 e) :
    LGAS stream keyed m n sc0 (e.fire c a) := by
  have hlo : lastOut (e.fire c a).w.trace = lastOut e.w.trace := C01.lastOut_fire e.w c a
  refine ⟨lgws_fire e c a h.w, ?_, ?_, ?_⟩
  · intro hp k j hk
    rw [hlo] at hp
    simp only [Eng.fire_w, Eng.fire_s, C16.lastRes_fire] at hk ⊢
    exact h.pa hp k j hk
  · intro hp
    rw [hlo] at hp
    exact h.ne hp
  · unfold Lo3; rw [hlo]; exact h.lo

theorem owedS_fire (e : Eng Grp) (c a : Nat) (h : OwedS e) : OwedS (e.fire c a) := by
  obtain ⟨k, j, hk, hlr, hne, how⟩ := h
  refine ⟨k, j, hk, ?_, ?_, ?_⟩
  · simp only [Eng.fire_w, C16.lastRes_fire]; exact hlr
  · simp only [Eng.fire_w, World.fire_scripts]; exact hne
  · obtain ⟨l, hl, hp⟩ := World.fire_seg e.w c a
    simp only [Eng.fire_w, hl]
    exact owes_fires_mono j l _ hp how

/-- prodding a waiting member: its wake-up is owed afterwards, hence (C01 `quiet`) the task has been
    woken -/
theorem fire_wokeS (e : Eng Grp) (k c : Nat) (h : LGWS stream keyed m n sc0 e)
    (hlo : lastOut e.w.trace = some .pending) (hkc : e.s.member k = some c)
    (hlr : lastRes e.w.trace c = some .pend) (hne : e.w.scripts c ≠ []) :
    OwedS (e.fire c 0) ∧ wokeSince (e.fire c 0).w.trace = true := by
  have hwi := h.wg
  have hcn : c < n := h.bnd c (by rw [(lgws_cb e h).link.f1 k c hkc]; simp)
  have hLR : lastRes (e.w.fire c 0).trace c = some .pend := by
    rw [C16.lastRes_fire]; exact hlr
  obtain ⟨wk, hwk⟩ : ∃ wk, lastWk e.w.trace c = some wk := by
    cases hh : lastWk e.w.trace c with
    | none => exact absurd hh (hwi.lw c (by rw [hlr]; simp))
    | some wk => exact ⟨wk, rfl⟩
  have hget : (e.w.handed c)[0]? = some wk := by
    rw [← List.head?_eq_getElem?, hwi.hw c, hwk]
  have howes : owes (e.w.fire c 0).trace c = true := by
    unfold World.fire
    rw [hget]
    simp only
    obtain ⟨l, hl, hp⟩ := World.fireWk_seg (e.w.emit (.fired c 0 (some wk))) wk
    rw [hl]
    refine owes_fires_mono c l _ hp ?_
    simp [owes, hwk]
  obtain ⟨l, hl, hp⟩ := World.fire_seg e.w c 0
  have hlo' : lastOut (e.w.fire c 0).trace = some .pending := by
    rw [C01.lastOut_fire]; exact hlo
  have halive : alive (e.w.fire c 0).trace = true := by
    rw [C01.alive_fire]; exact h.al
  have hgone : gone (e.w.fire c 0).trace c = false := by
    rw [hl, gone_fires l _ c hp]
    exact (hwi.mem k c hkc).2.2
  have hq := lgws_quiet _ (lgws_fire e c 0 h)
  refine ⟨⟨k, c, hkc, hLR, by simpa using hne, howes⟩, ?_⟩
  simp only [Eng.fire_w, quiet, halive, hlo', beq_self_eq_true, Bool.and_self, Bool.not_true,
    Bool.false_or, List.all_eq_true, List.mem_range] at hq
  have := hq c hcn
  simpa [hLR, hgone, howes] using this

/-! ### no step left -/

/-- an inserted id is a member or was released -/
theorem member_or_gone (e : Eng Grp) (h : LGWS stream keyed m n sc0 e) (c k : Nat)
    (hk : keyOf e.w.trace c = some k) : e.s.member k = some c ∨ gone e.w.trace c = true := by
  cases hg : gone e.w.trace c with
  | true => exact Or.inr rfl
  | false => exact Or.inl ((lgws_cb e h).link.f4 c k hk hg)

/-- the measure vanishes iff no member has a step left -/
theorem mu_zero_of (e : Eng Grp) (h : LGWS stream keyed m n sc0 e)
    (hz : ∀ k c, e.s.member k = some c → e.w.scripts c = []) : mu n e = 0 := by
  unfold mu
  apply LiveStuck.total_zero_of
  intro c _
  cases hk : keyOf e.w.trace c with
  | none => simp
  | some k =>
    simp only [Option.isSome_some, if_true]
    rcases member_or_gone e h c k hk with hm | hg
    · rw [hz k c hm]; rfl
    · rw [(h.wg.lf c hg).1]; rfl

theorem scripts_nil_of_mu (e : Eng Grp) (h : LGWS stream keyed m n sc0 e) (hz : mu n e = 0)
    (k c : Nat) (hkc : e.s.member k = some c) : e.w.scripts c = [] := by
  have hkey : keyOf e.w.trace c = some k := (lgws_cb e h).link.f1 k c hkc
  have hcn : c < n := h.bnd c (by rw [hkey]; simp)
  have h3 := le_total (fun c => if (keyOf e.w.trace c).isSome then (e.w.scripts c).length else 0)
    n c hcn
  simp only [hkey, Option.isSome_some, if_true] at h3
  unfold mu at hz
  exact List.eq_nil_of_length_eq_zero (by omega)

/-- after a `Pending` poll some member is waiting, or no step is left -/
theorem waitingS (e : Eng Grp) (h : LGAS stream keyed m n sc0 e)
    (hlo : lastOut e.w.trace = some .pending) :
    (∃ c, c ∈ ExecGAny.members e ∧ ExecGAny.isWaiting e c = true) ∨ mu n e = 0 := by
  by_cases hex : ∃ k c, e.s.member k = some c ∧ e.w.scripts c ≠ []
  · obtain ⟨k, c, hkc, hne⟩ := hex
    have hlr := h.pa hlo k c hkc
    exact Or.inl ⟨c, mem_membersS e h.w k c hkc, by simp [ExecGAny.isWaiting, hlr, hne]⟩
  · right
    refine mu_zero_of e h.w ?_
    intro k c hkc
    cases hs : e.w.scripts c with
    | nil => rfl
    | cons s rest => exact absurd ⟨k, c, hkc, by rw [hs]; simp⟩ hex

/-- the instance of the abstract argument -/
theorem prog_lgas : ProgGS (LGWS stream keyed m n sc0) (LGAS stream keyed m n sc0)
    (fun e => ∀ k, e.s.member k = none) (mu n) OwedS where
  weak := fun e h => h.w
  lo := fun e h => h.lo
  poll := by
    intro e wid h
    rcases lgws_poll e wid h with h1 | h1
    · exact Or.inl h1
    · exact Or.inr h1
  fire := fun e c a h => lgas_fire e c a h
  mfire := fun e c a => mu_fire e c a
  wfire := fun e c a h => owedS_fire e c a h
  waiting := fun e h hlo => waitingS e h hlo
  woke := by
    intro e c h hlo hc hw
    obtain ⟨k, hkc⟩ := members_mem e c hc
    simp only [ExecGAny.isWaiting, Bool.and_eq_true, beq_iff_eq, Bool.not_eq_true',
      List.isEmpty_eq_false_iff] at hw
    obtain ⟨hO, hW⟩ := fire_wokeS e k c h.w hlo hkc hw.1 hw.2
    refine ⟨hO, hW, ?_⟩
    have hkey : keyOf e.w.trace c = some k := (lgws_cb e h.w).link.f1 k c hkc
    have hcn : c < n := h.w.bnd c (by rw [hkey]; simp)
    have h3 := le_total (fun c => if (keyOf e.w.trace c).isSome then (e.w.scripts c).length else 0)
      n c hcn
    have h4 := length_pos_of_ne_nil'' _ hw.2
    simp only [hkey, Option.isSome_some, if_true] at h3
    unfold mu
    omega

/-! ### delivery -/

/-- once no member has a step left: a well-behaved id was released, is no longer a member, and
    everything its script holds was yielded, in order -/
theorem delivered_of (e : Eng Grp) (h : LGWS stream keyed m n sc0 e)
    (hz : ∀ k c, e.s.member k = some c → e.w.scripts c = [])
    (c : Nat) (hk : keyOf e.w.trace c ≠ none) (hwb : wbScript stream (sc0 c) = true) :
    gone e.w.trace c = true ∧ (∀ k, e.s.member k ≠ some c) ∧ e.w.scripts c = [] ∧
    (Exec.scriptVals (sc0 c)).reverse.Sublist (yielded e.w.trace) := by
  obtain ⟨k, hkk⟩ : ∃ k, keyOf e.w.trace c = some k := by
    cases hh : keyOf e.w.trace c with
    | none => exact absurd hh hk
    | some k => exact ⟨k, rfl⟩
  have hg : gone e.w.trace c = true := by
    rcases member_or_gone e h c k hkk with hm | hg
    · obtain ⟨hcls, _, _⟩ := h.wg.mem k c hm
      rcases hcls with ⟨h1, _⟩ | ⟨_, h2⟩
      · rw [hz k c hm, wb_nil] at h1; exact Bool.noConfusion h1
      · rw [hwb] at h2; exact Bool.noConfusion h2
    · exact hg
  have hsc := (h.wg.lf c hg).1
  refine ⟨hg, ?_, hsc, ?_⟩
  · intro k' hk'
    have := (h.wg.mem k' c hk').2.2
    rw [hg] at this; exact Bool.noConfusion this
  · have hdl := h.wg.dl c
    rw [hsc] at hdl
    simp only [Exec.scriptVals, List.flatMap_nil, List.append_nil] at hdl
    obtain ⟨U, hU, _⟩ := h.g11
    have hyp : yielded e.w.trace = producedVals e.w.trace := hU.yp
    rw [hyp]
    have : (Exec.scriptVals (sc0 c)).reverse = valsOf c e.w.trace := by
      rw [show Exec.scriptVals (sc0 c) = (valsOf c e.w.trace).reverse from hdl.symm]; simp
    rw [this]
    exact valsOf_sublist c _

/-- an inserted id that is not well-behaved is still a member -/
theorem stuck_member (e : Eng Grp) (h : LGWS stream keyed m n sc0 e)
    (c : Nat) (hk : keyOf e.w.trace c ≠ none) (hwb : wbScript stream (sc0 c) = false) :
    ∃ k, e.s.member k = some c ∧ gone e.w.trace c = false := by
  obtain ⟨k, hkk⟩ : ∃ k, keyOf e.w.trace c = some k := by
    cases hh : keyOf e.w.trace c with
    | none => exact absurd hh hk
    | some k => exact ⟨k, rfl⟩
  rcases member_or_gone e h c k hkk with hm | hg
  · exact ⟨k, hm, (h.wg.mem k c hm).2.2⟩
  · rw [(h.wg.lf c hg).2] at hwb; exact Bool.noConfusion hwb

/-- a member of a group without a scripted step left is not well-behaved -/
theorem member_never (e : Eng Grp) (h : LGWS stream keyed m n sc0 e)
    (hz : ∀ k c, e.s.member k = some c → e.w.scripts c = [])
    (k c : Nat) (hkc : e.s.member k = some c) : wbScript stream (sc0 c) = false := by
  obtain ⟨hcls, _, _⟩ := h.wg.mem k c hkc
  rcases hcls with ⟨h1, _⟩ | ⟨_, h2⟩
  · rw [hz k c hkc, wb_nil] at h1; exact Bool.noConfusion h1
  · exact h2

end LiveGStuck
end Fc
