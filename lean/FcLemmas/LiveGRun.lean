/-
  FcLemmas/LiveGRun.lean — liveness of FutureGroup / StreamGroup under the wake-only executor
  (Fc/ExecG.lean): the induction on the round budget, stated once for an abstract run invariant
  `Inv`, an abstract progress measure `M` (the number of scripted steps left) and an abstract
  predicate `W` ("some waiting member is owed a wake-up").  Same argument as
  `FcLemmas/Live3Run.lean` (`Prog` / `ends_aux`), restated for `Eng Grp`.
-/
import FcLemmas.LiveRun
import Fc.ExecG
set_option linter.unusedSimpArgs false
set_option linter.unusedVariables false

namespace Fc
namespace LiveG
open Mon Live

/-- what the induction needs from a run invariant `Inv` (states that are not final) -/
structure ProgG (Inv : Eng Grp → Prop) (M : Eng Grp → Nat) (W : Eng Grp → Prop) : Prop where
  lo : ∀ e, Inv e → lastOut e.w.trace = none ∨ lastOut e.w.trace = some .pending ∨
    ∃ k vs, lastOut e.w.trace = some (.some k vs)
  poll : ∀ e wid, Inv e →
    lastOut (Eng.poll group e wid).w.trace = some .none ∨
    (Inv (Eng.poll group e wid) ∧ M (Eng.poll group e wid) ≤ M e ∧
      ((lastOut (Eng.poll group e wid).w.trace ≠ some .pending ∧ M (Eng.poll group e wid) < M e) ∨
       (lastOut (Eng.poll group e wid).w.trace = some .pending ∧
          (M (Eng.poll group e wid) < M e ∨ wokeSince (Eng.poll group e wid).w.trace = false) ∧
          (W e → M (Eng.poll group e wid) < M e))))
  /-- a pending group that was not woken: some member can be prodded; afterwards the task has been
      woken and that member is owed a poll -/
  fire : ∀ e, Inv e → lastOut e.w.trace = some .pending → wokeSince e.w.trace = false →
    ∃ c, ExecG.firstWaiting e = some c ∧ Inv (e.fire c 0) ∧ M (e.fire c 0) = M e ∧ 1 ≤ M e ∧
      W (e.fire c 0) ∧ wokeSince (e.fire c 0).w.trace = true

variable {Inv : Eng Grp → Prop} {M : Eng Grp → Nat} {W : Eng Grp → Prop}

theorem finalOut_lo3 {t : List Ev} (h : lastOut t = none ∨ lastOut t = some .pending ∨
    ∃ k vs, lastOut t = some (.some k vs)) : Exec.finalOut (lastOut t) = false := by
  rcases h with h | h | ⟨k, vs, h⟩ <;> rw [h] <;> rfl

theorem shouldPoll_not_pending {t : List Ev} (h : lastOut t = none ∨ lastOut t = some .pending ∨
    ∃ k vs, lastOut t = some (.some k vs)) (hp : lastOut t ≠ some .pending) :
    Exec.shouldPoll t = true := by
  unfold Exec.shouldPoll
  rcases h with h | h | ⟨k, vs, h⟩
  · rw [h]
  · exact absurd h hp
  · rw [h]

theorem shouldPoll_false_pending3 {t : List Ev} (hlo : lastOut t = none ∨ lastOut t = some .pending ∨
    ∃ k vs, lastOut t = some (.some k vs)) (h : Exec.shouldPoll t = false) :
    lastOut t = some .pending ∧ wokeSince t = false := by
  rcases hlo with h1 | h1 | ⟨k, vs, h1⟩
  · unfold Exec.shouldPoll at h; rw [h1] at h; exact Bool.noConfusion h
  · exact ⟨h1, by rw [shouldPoll_pending h1] at h; exact h⟩
  · unfold Exec.shouldPoll at h; rw [h1] at h; exact Bool.noConfusion h

theorem round_poll (G : ProgG Inv M W) (e : Eng Grp) (h : Inv e)
    (hsp : Exec.shouldPoll e.w.trace = true) :
    ExecG.round e = some (Eng.poll group e (Exec.pollCount e.w.trace + 1)) := by
  unfold ExecG.round; rw [finalOut_lo3 (G.lo e h), hsp]; simp

theorem round_fire (G : ProgG Inv M W) (e : Eng Grp) (h : Inv e)
    (hsp : Exec.shouldPoll e.w.trace = false)
    (c : Nat) (hfw : ExecG.firstWaiting e = some c) : ExecG.round e = some (e.fire c 0) := by
  unfold ExecG.round; rw [finalOut_lo3 (G.lo e h), hsp, hfw]; simp

/-- the three phases of a run that has not finished, with the number of rounds they still allow:
    about to poll; not woken (a member will be prodded); about to poll with a prodded member -/
def CondG (M : Eng Grp → Nat) (W : Eng Grp → Prop) (e : Eng Grp) (N : Nat) : Prop :=
  (Exec.shouldPoll e.w.trace = true ∧ 3 * M e + 1 ≤ N) ∨
  (Exec.shouldPoll e.w.trace = false ∧ 3 * M e ≤ N) ∨
  (Exec.shouldPoll e.w.trace = true ∧ W e ∧ 1 ≤ M e ∧ 3 * M e ≤ N + 1)

theorem poll_round (G : ProgG Inv M W) {N : Nat}
    (ih : ∀ e, Inv e → CondG M W e N →
      ∃ k, k ≤ N ∧ lastOut (ExecG.runFor k e).w.trace = some .none)
    (e : Eng Grp) (h : Inv e) (hsp : Exec.shouldPoll e.w.trace = true)
    (hE : (W e ∧ 3 * M e ≤ N + 2) ∨ 3 * M e ≤ N) :
    ∃ k, k ≤ N + 1 ∧ lastOut (ExecG.runFor k e).w.trace = some .none := by
  have hr := round_poll G e h hsp
  rcases G.poll e (Exec.pollCount e.w.trace + 1) h with hv | ⟨h', hle, hcase⟩
  · exact ⟨1, by omega, by simp only [ExecG.runFor, hr]; exact hv⟩
  · have hcond : CondG M W (Eng.poll group e (Exec.pollCount e.w.trace + 1)) N := by
      rcases hcase with ⟨hnp, hlt⟩ | ⟨hlo', hD, hEE⟩
      · left
        refine ⟨shouldPoll_not_pending (G.lo _ h') hnp, ?_⟩
        rcases hE with ⟨_, hb⟩ | hb <;> omega
      · have hsp' := shouldPoll_pending hlo'
        cases hw : wokeSince (Eng.poll group e (Exec.pollCount e.w.trace + 1)).w.trace with
        | true =>
          left
          refine ⟨by rw [hsp', hw], ?_⟩
          rcases hE with ⟨hW, hb⟩ | hb
          · have := hEE hW; omega
          · rcases hD with hD | hD
            · omega
            · rw [hw] at hD; exact Bool.noConfusion hD
        | false =>
          right; left
          refine ⟨by rw [hsp', hw], ?_⟩
          rcases hE with ⟨hW, hb⟩ | hb
          · have := hEE hW; omega
          · omega
    obtain ⟨k, hk, hv⟩ := ih _ h' hcond
    exact ⟨k + 1, by omega, by simp only [ExecG.runFor, hr]; exact hv⟩

/-- the induction on the number of rounds allowed -/
theorem ends_aux (G : ProgG Inv M W) : ∀ (N : Nat) (e : Eng Grp), Inv e → CondG M W e N →
    ∃ k, k ≤ N ∧ lastOut (ExecG.runFor k e).w.trace = some .none := by
  intro N
  induction N with
  | zero =>
    intro e h hc
    rcases hc with ⟨_, h1⟩ | ⟨hsp, h1⟩ | ⟨_, _, h1, h2⟩
    · omega
    · obtain ⟨hlo, hw⟩ := shouldPoll_false_pending3 (G.lo e h) hsp
      obtain ⟨c, _, _, _, h4, _⟩ := G.fire e h hlo hw
      omega
    · omega
  | succ N ih =>
    intro e h hc
    rcases hc with ⟨hsp, h1⟩ | ⟨hsp, h1⟩ | ⟨hsp, hwit, h1, h2⟩
    · exact poll_round G ih e h hsp (Or.inr (by omega))
    · obtain ⟨hlo, hw⟩ := shouldPoll_false_pending3 (G.lo e h) hsp
      obtain ⟨c, hfw, h', hM, h4, hW, hwk⟩ := G.fire e h hlo hw
      have hr := round_fire G e h hsp c hfw
      have hlo' : lastOut (e.fire c 0).w.trace = some .pending := by
        rw [show lastOut (e.fire c 0).w.trace = lastOut e.w.trace from C01.lastOut_fire e.w c 0]
        exact hlo
      have hcond : CondG M W (e.fire c 0) N := by
        right; right
        exact ⟨by rw [shouldPoll_pending hlo', hwk], hW, by omega, by omega⟩
      obtain ⟨k, hk, hv⟩ := ih _ h' hcond
      exact ⟨k + 1, by omega, by simp only [ExecG.runFor, hr]; exact hv⟩
    · exact poll_round G ih e h hsp (Or.inl ⟨hwit, by omega⟩)

/-- every run from a state satisfying the invariant ends within `3 * M + 1` rounds -/
theorem ends_of_prog (G : ProgG Inv M W) (e : Eng Grp) (h : Inv e)
    (hsp : Exec.shouldPoll e.w.trace = true) :
    ∃ k, k ≤ 3 * M e + 1 ∧ lastOut (ExecG.runFor k e).w.trace = some .none :=
  ends_aux G _ e h (Or.inl ⟨hsp, Nat.le_refl _⟩)

end LiveG
end Fc
