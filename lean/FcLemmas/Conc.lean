/-
  FcLemmas/Conc.lean — the concurrently evaluating families satisfy `Conc`.
-/
import FcLemmas.C01StdEng
import FcLemmas.Lawful2
set_option linter.unusedSimpArgs false
set_option linter.unusedVariables false

namespace Fc
open Fix

theorem mem_rot (s : Fix) (c : Nat) (h : c < s.n) : c ∈ s.rot := by
  unfold Fix.rot
  simp only [List.mem_map, List.mem_range]
  have hn : 0 < s.n := by omega
  refine ⟨(c + s.n - s.off % s.n) % s.n, Nat.mod_lt _ hn, ?_⟩
  rw [Nat.mod_add_mod]
  have ho : s.off % s.n < s.n := Nat.mod_lt _ hn
  have hd := Nat.div_add_mod s.off s.n
  generalize hm : s.n * (s.off / s.n) = m at hd
  have : c + s.n - s.off % s.n + s.off = c + s.n * (s.off / s.n + 1) := by
    rw [Nat.mul_add, Nat.mul_one, hm]; omega
  rw [this, Nat.add_mul_mod_self_left]
  exact Nat.mod_eq_of_lt h

macro "conc_tac" pol:ident law:ident : tactic =>
  `(tactic| (
    refine ⟨$law, ?_, ?_, ?_, ?_, ?_⟩
    · intro s c hp hc
      simp only [$pol:ident, Bool.false_eq_true, if_false, if_true]
      first
        | exact List.mem_range.mpr hc
        | exact mem_rot s c hc
    · intro s i r
      rcases r with _ | ⟨ok, v⟩ | v | _ | _ <;> (try cases ok) <;>
        simp [$pol:ident, Fix.keep, Fix.kill] <;> (try split) <;> simp
    · intro s
      simp only [$pol:ident, Fix.misuseIfDead]
      (try split) <;> (try split) <;> simp
    · intro s
      simp only [$pol:ident]
      (try split) <;> simp
    · intro n k c
      simp [$pol:ident, Fix.init]))

theorem conc_joinSlice : Conc joinSlice := by conc_tac joinSlice lawful_joinSlice
theorem conc_joinTuple : Conc joinTuple := by conc_tac joinTuple lawful_joinTuple
theorem conc_tryJoinSlice : Conc tryJoinSlice := by conc_tac tryJoinSlice lawful_tryJoinSlice
theorem conc_tryJoinTuple : Conc tryJoinTuple := by conc_tac tryJoinTuple lawful_tryJoinTuple
theorem conc_race : Conc race := by conc_tac race lawful_race
theorem conc_merge : Conc merge := by conc_tac merge lawful_merge
theorem conc_zip : Conc zip := by conc_tac zip lawful_zip
theorem conc_raceOkArr : Conc (raceOk false false) := by conc_tac raceOk lawful_raceOkArr
theorem conc_raceOkVec : Conc (raceOk false true) := by conc_tac raceOk lawful_raceOkVec
theorem conc_raceOkTup : Conc (raceOk true false) := by conc_tac raceOk lawful_raceOkTup

/-- families whose children are all polled by every poll that returns `Pending` -/
def Fam.isConc : Fam → Bool
  | .joinSlice | .joinTuple | .tryJoinSlice | .tryJoinTuple | .race | .raceOkArr | .raceOkVec
  | .raceOkTup | .merge | .zip => true
  | _ => false

theorem conc_policy (f : Fam) (h : f.isConc = true) : Conc f.policy := by
  cases f <;> simp only [Fam.policy] <;> first
    | exact conc_joinSlice | exact conc_joinTuple | exact conc_tryJoinSlice
    | exact conc_tryJoinTuple | exact conc_race | exact conc_raceOkArr
    | exact conc_raceOkVec | exact conc_raceOkTup | exact conc_merge | exact conc_zip
    | (simp [Fam.isConc] at h)

end Fc
