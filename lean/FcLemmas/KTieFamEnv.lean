/-
  Kernel tie, fixed families — environment lemmas for the DIRECT strategy (race): the translated code's
  `Rs.fires` / `Rs.pollChild` / `Rs.pollFut` with the dummy wake function (race has no readiness set) compute exactly
  `World.fires` / `World.pollChild` of the model when the world is in `direct` mode.
-/
import Fc.RustEnv
import Fc.Kernel

set_option linter.unusedSimpArgs false
set_option linter.unusedVariables false

namespace Fc
open Rs

namespace TieDirect

/-- the wake function race passes to its children's polls: there is no readiness set to act on -/
abbrev dummy : Nat → Unit → Option (Unit × List Nat × Unit) := fun _ (r : Unit) => some (r, [], ())

theorem emits_nil (w : World) : w.emits [] = w := by
  simp [World.emits]

/-! ### frame facts of `World.fire` / `World.fires` -/

theorem fireWk_mode (w : World) (wk : Wk) : (w.fireWk wk).mode = w.mode := by
  cases wk with
  | par p => rfl
  | sub i =>
    simp only [World.fireWk]
    cases hm : w.mode with
    | direct => simp [hm]
    | std =>
      by_cases hb : w.bits i = true
      · simp [hb, hm]
      · cases hp : w.parent <;> simp [hb, hp, World.setReady, World.emit, hm]

theorem fireWk_parent (w : World) (wk : Wk) : (w.fireWk wk).parent = w.parent := by
  cases wk with
  | par p => rfl
  | sub i =>
    simp only [World.fireWk]
    cases hm : w.mode with
    | direct => simp
    | std =>
      by_cases hb : w.bits i = true
      · simp [hb]
      · cases hp : w.parent <;> simp [hb, hp, World.setReady, World.emit, hm]

theorem fireWk_scripts (w : World) (wk : Wk) : (w.fireWk wk).scripts = w.scripts := by
  cases wk with
  | par p => rfl
  | sub i =>
    simp only [World.fireWk]
    cases hm : w.mode with
    | direct => simp
    | std =>
      by_cases hb : w.bits i = true
      · simp [hb]
      · cases hp : w.parent <;> simp [hb, hp, World.setReady, World.emit, hm]

theorem fire_mode (w : World) (c a : Nat) : (w.fire c a).mode = w.mode := by
  unfold World.fire
  cases h : (w.handed c)[a]? with
  | none => rfl
  | some wk => simp only [fireWk_mode]; rfl

theorem fire_parent (w : World) (c a : Nat) : (w.fire c a).parent = w.parent := by
  unfold World.fire
  cases h : (w.handed c)[a]? with
  | none => rfl
  | some wk => simp only [fireWk_parent]; rfl

theorem fire_scripts (w : World) (c a : Nat) : (w.fire c a).scripts = w.scripts := by
  unfold World.fire
  cases h : (w.handed c)[a]? with
  | none => rfl
  | some wk => simp only [fireWk_scripts]; rfl

theorem fires_mode (w : World) (l : List (Nat × Nat)) : (w.fires l).mode = w.mode := by
  induction l generalizing w with
  | nil => rfl
  | cons p l ih => simp only [World.fires, List.foldl_cons] at ih ⊢; rw [ih, fire_mode]

theorem fires_parent (w : World) (l : List (Nat × Nat)) : (w.fires l).parent = w.parent := by
  induction l generalizing w with
  | nil => rfl
  | cons p l ih => simp only [World.fires, List.foldl_cons] at ih ⊢; rw [ih, fire_parent]

theorem fires_scripts (w : World) (l : List (Nat × Nat)) : (w.fires l).scripts = w.scripts := by
  induction l generalizing w with
  | nil => rfl
  | cons p l ih => simp only [World.fires, List.foldl_cons] at ih ⊢; rw [ih, fire_scripts]

theorem pollChild_mode (w : World) (c s : Nat) : (w.pollChild c s).mode = w.mode := by
  simp only [World.pollChild, World.emit, fires_mode]

theorem pollChild_parent (w : World) (c s : Nat) : (w.pollChild c s).parent = w.parent := by
  simp only [World.pollChild, World.emit, fires_parent]

theorem pollChild_scripts (w : World) (c s : Nat) :
    (w.pollChild c s).scripts = upd w.scripts c (w.scripts c).tail := by
  simp only [World.pollChild, World.emit, fires_scripts]

/-! ### (a) the translated `fires` with the dummy wake = `World.fires` in direct mode -/

theorem fireWk_tie (env : World) (wk : Wk) (hm : env.mode = .direct) :
    Rs.fireWk dummy () env wk = some ((), env.fireWk wk) := by
  cases wk with
  | par p => rfl
  | sub i => simp [Rs.fireWk, World.fireWk, hm, emits_nil]

theorem fire_tie (env : World) (c a : Nat) (hm : env.mode = .direct) :
    Rs.fire dummy () env c a = some ((), env.fire c a) := by
  unfold Rs.fire World.fire
  cases h : (env.handed c)[a]? with
  | none => rfl
  | some wk => exact fireWk_tie _ wk hm

theorem fires_tie (env : World) (l : List (Nat × Nat)) (hm : env.mode = .direct) :
    Rs.fires dummy () env l = some ((), env.fires l) := by
  induction l generalizing env with
  | nil => rfl
  | cons p l ih =>
    simp only [Rs.fires, fire_tie env p.1 p.2 hm]
    rw [ih _ (by rw [fire_mode]; exact hm)]
    simp [World.fires]

/-! ### (b) the translated child poll with the caller's own waker = `World.pollChild` in direct mode -/

theorem pollChild_tie (env : World) (c p : Nat) (hm : env.mode = .direct) (hp : env.parent = some p) :
    Rs.pollChild dummy () env c (.par p) = some ((), env.pollChild c c, env.resOf c) := by
  have hw : env.wakerFor c = .par p := by simp [World.wakerFor, hm, hp]
  unfold Rs.pollChild World.pollChild
  rw [hw]
  have := fires_tie
    { env with scripts := upd env.scripts c (env.scripts c).tail,
               handed := upd env.handed c (Wk.par p :: env.handed c),
               trace := Ev.childBegin c (slotOf (Wk.par p) c) (Wk.par p) :: env.trace }
    (env.stepOf c).fires hm
  rw [this]
  rfl

/-- `Future::poll` on a scripted future that never answers like a stream and never panics -/
theorem pollFut_tie (env : World) (c p : Nat) (hm : env.mode = .direct) (hp : env.parent = some p) :
    (env.resOf c = .pend → Rs.pollFut dummy () env c (.par p) = some ((), env.pollChild c c, .pending)) ∧
    (∀ ok v, env.resOf c = .ready ok v →
      Rs.pollFut dummy () env c (.par p) = some ((), env.pollChild c c, .ready v)) := by
  refine ⟨?_, ?_⟩
  · intro h; simp [Rs.pollFut, pollChild_tie env c p hm hp, h]
  · intro ok v h; simp [Rs.pollFut, pollChild_tie env c p hm hp, h]

/-! ### scripted futures stay scripted futures -/

def FutSteps (w : World) : Prop :=
  ∀ c st, st ∈ w.scripts c → st.res = .pend ∨ ∃ ok v, st.res = .ready ok v

theorem futSteps_resOf (w : World) (h : FutSteps w) (c : Nat) :
    w.resOf c = .pend ∨ ∃ ok v, w.resOf c = .ready ok v := by
  unfold World.resOf World.stepOf
  cases hs : w.scripts c with
  | nil => left; rfl
  | cons s t => exact h c s (by rw [hs]; exact List.mem_cons_self)

theorem futSteps_pollChild (w : World) (h : FutSteps w) (c s : Nat) : FutSteps (w.pollChild c s) := by
  intro c' st hst
  rw [pollChild_scripts] at hst
  by_cases hc : c' = c
  · subst hc
    rw [upd_same] at hst
    exact h c' st (List.mem_of_mem_tail hst)
  · rw [upd_other _ _ _ _ hc] at hst
    exact h c' st hst

end TieDirect

end Fc
