/-
  FcLemmas/KTieRaceOkAModel.lean — `[Fut; N]::race_ok()`: the model side (`Eng.visit (raceOk false false)` in the cases the
  translated loop body distinguishes, `Eng.poll` / `Eng.close` unfolded for the direct strategy), the loop invariant `Inv`
  and the exit relation `Fin` of the translated `for` loop, and the list facts about counting the `Ready` slots.
-/
import FcProps.KTieRaceOkArr
import FcLemmas.KTieFamEnv
import FcLemmas.KTieLoopCore
import FcLemmas.KTieListFacts

set_option linter.unusedSimpArgs false
set_option linter.unusedVariables false

namespace Fc
open Rs Src

namespace TieRaceOkA
open RaceOkA TieDirect TieLoop

abbrev P : Policy Fix := raceOk false false

/-! ### the model's `visit` for race_ok (array), direct strategy -/

theorem rk_visit_skip (e : Eng Fix) (i : Nat) (h : e.s.st i = .ready) :
    Eng.visit P e i = (e, none) := by
  simp [Eng.visit, raceOk, Eng.gateGo, Eng.gateW, h]

theorem rk_visit_pend (e : Eng Fix) (i : Nat) (hm : e.w.mode = .direct) (h : e.s.st i ≠ .ready)
    (hr : e.w.resOf i = .pend) :
    Eng.visit P e i = ({ e with w := e.w.pollChild i i }, none) := by
  simp [Eng.visit, raceOk, Eng.gateGo, Eng.gateW, World.isSet, World.clearReady, hm, hr, h, Eng.applyH, Fix.keep,
    emits_nil, World.kop]

theorem rk_visit_ok (e : Eng Fix) (i v : Nat) (hm : e.w.mode = .direct) (h : e.s.st i ≠ .ready)
    (hr : e.w.resOf i = .ready true v) :
    Eng.visit P e i = ({ w := e.w.pollChild i i, s := { e.s with dead := true } }, some (.ready true [v])) := by
  simp [Eng.visit, raceOk, Eng.gateGo, Eng.gateW, World.isSet, World.clearReady, hm, hr, h, Eng.applyH,
    emits_nil, World.kop]

theorem rk_visit_err (e : Eng Fix) (i v : Nat) (hm : e.w.mode = .direct) (h : e.s.st i ≠ .ready)
    (hr : e.w.resOf i = .ready false v) :
    Eng.visit P e i =
      ({ w := e.w.pollChild i i,
         s := { e.s with st := upd e.s.st i .ready, out := upd e.s.out i (some v), cnt := e.s.cnt + 1 } }, none) := by
  simp [Eng.visit, raceOk, Eng.gateGo, Eng.gateW, World.isSet, World.clearReady, hm, hr, h, Eng.applyH,
    emits_nil, World.kop]

/-- `Eng.poll` on a live race_ok: scan the slots in order, close -/
theorem rk_poll_live (e : Eng Fix) (w : Nat) (hd : e.s.dead = false) :
    Eng.poll P e w =
      Eng.close P (Eng.scan P (List.range e.s.n) { e with w := (e.w.emit (.pollBegin w)).setWaker w }) := by
  simp [Eng.poll, Eng.body, raceOk, Fix.misuseIfDead, hd]

theorem rk_close_some (r : Eng Fix) (o : Outcome) :
    Eng.close P (r, some o) = r.emit (.pollEnd o) := rfl

theorem rk_close_pending (r : Eng Fix) (h : r.s.cnt ≠ r.s.n) :
    Eng.close P (r, none) = r.emit (.pollEnd .pending) := by
  simp [Eng.close, raceOk, Eng.applyH, emits_nil, World.kop, Eng.emit, h]

theorem rk_close_done (r : Eng Fix) (h : r.s.cnt = r.s.n) :
    Eng.close P (r, none) =
      ({ w := r.w, s := { r.s with dead := true, st := fun _ => .none } } : Eng Fix).emit
        (.pollEnd (.ready false r.s.outs)) := by
  simp [Eng.close, raceOk, Eng.applyH, emits_nil, World.kop, Eng.emit, h]

/-! ### `PollState` -/

theorem rk_abs_ready {p : PS.PollState} : TiePS.abs p = .ready ↔ p = PS.PollState.ready := by
  cases p <;> simp [TiePS.abs]

/-! ### counting the `Ready` slots -/

/-- a slot that becomes `Ready` raises the number of `Ready` slots by one -/
theorem rk_count_set (st : Nat → PS.PollState) (i n : Nat) (hi : i < n) (hp : st i ≠ PS.PollState.ready) :
    ((List.range n).filter (fun j => (if j = i then PS.PollState.ready else st j) = PS.PollState.ready)).length
      = ((List.range n).filter (fun j => st j = PS.PollState.ready)).length + 1 := by
  have := TieTryJoinV.tj_filter_dec
    (fun j => decide ((if j = i then PS.PollState.ready else st j) = PS.PollState.ready))
    (fun j => decide (st j = PS.PollState.ready)) i n hi (by simp) (by simp [hp])
    (by intro j hj; simp [hj])
  omega

/-- all `n` slots counted: every slot passes the test -/
theorem rk_filter_full (p : Nat → Bool) (n : Nat) (h : ((List.range n).filter p).length = n) :
    ∀ i, i < n → p i = true := by
  intro i hi
  have h2 : ((List.range n).filter p).length = (List.range n).length := by rw [h, List.length_range]
  have := List.length_filter_eq_length_iff.mp h2
  exact this i (List.mem_range.mpr hi)

/-! ### the loop invariant: the carried `(self, env)` is the model state -/

abbrev Ret := Rs.Poll (Rs.ResultE Nat (List Nat))

/-- between iterations: same world; the model's tables are the abstraction of the crate's; the bookkeeping is intact -/
def Inv (N cx : Nat) (s : RaceOk × World) (e : Eng Fix) : Prop :=
  e.w = s.2 ∧ e.s.n = N ∧ e.s.st = (fun i => TiePS.abs (s.1.roleStates.get i)) ∧ e.s.out = s.1.roleItems.get ∧
  e.s.cnt = s.1.roleCount ∧ e.s.dead = false ∧ WfK N s.1 ∧
  s.2.mode = .direct ∧ s.2.parent = some cx ∧ FutSteps s.2

/-- after the iteration that returned `Ok`: as `Inv`, but the model is `dead` -/
def Fin (N : Nat) (v : Ret) (s : RaceOk × World) (e : Eng Fix) : Prop :=
  (∃ ok, v = .ready (.ok ok)) ∧
  e.w = s.2 ∧ e.s.n = N ∧ e.s.st = (fun i => TiePS.abs (s.1.roleStates.get i)) ∧ e.s.out = s.1.roleItems.get ∧
  e.s.cnt = s.1.roleCount ∧ e.s.dead = true ∧ WfK N s.1 ∧ FutSteps s.2

end TieRaceOkA
end Fc
