/-
  FcLemmas/KTieGrpPollDefs.lean — the vocabulary of the poll tie (FcProps/KTieGrpPoll.lean): the outcome a returned
  `Poll` value stands for, the assumptions on the scripted members, and C11's structural invariant of the key set.
-/
import FcLemmas.KTieGrpPollBase

namespace Fc
open Rs Src

/-- the model outcome a returned `Poll` value stands for (`keyed`: the `Keyed` view keeps the key) -/
def outcomeOf (keyed : Bool) : Rs.Poll (Option (Nat × Nat)) → Outcome
  | .pending => .pending
  | .ready none => .none
  | .ready (some (k, v)) => .some (if keyed then k else 0) [v]

/-- every scripted step answers like a future and does not panic -/
def FutSteps (w : World) : Prop :=
  ∀ c st, st ∈ w.scripts c → st.res = .pend ∨ ∃ ok v, st.res = .ready ok v

/-- every scripted step answers like a stream and does not panic -/
def StreamSteps (w : World) : Prop :=
  ∀ c st, st ∈ w.scripts c → st.res = .pend ∨ st.res = .fin ∨ ∃ v, st.res = .item v

namespace TieGrpF
open GrpF

/-- the keys are pairwise distinct occupied slab entries below the capacity (C11's structural invariant) -/
structure GoodKeys (g : FutureGroup) : Prop where
  nodup : g.roleKeys.elems.Nodup
  occ : ∀ k ∈ g.roleKeys.elems, k < g.roleCapacity ∧ k < g.roleSlab.entries ∧ ∃ c, g.roleSlab.member k = some c
  /-- `len` counts the occupied entries: the group is empty exactly when it has no key -/
  emp : g.roleSlab.len = 0 ↔ g.roleKeys.elems = []
  /-- `len` is the number of keys -/
  cnt : g.roleSlab.len = g.roleKeys.elems.length

end TieGrpF

namespace TieGrpS
open GrpS

structure GoodKeys (g : StreamGroup) : Prop where
  nodup : g.roleKeys.elems.Nodup
  occ : ∀ k ∈ g.roleKeys.elems, k < g.roleCapacity ∧ k < g.roleSlab.entries ∧ ∃ c, g.roleSlab.member k = some c
  emp : g.roleSlab.len = 0 ↔ g.roleKeys.elems = []
  /-- `len` is the number of keys (what makes `done_count == stream_count` mean "every member ended") -/
  cnt : g.roleSlab.len = g.roleKeys.elems.length
  /-- between polls the removal queue is empty -/
  q : g.roleQueue = []

end TieGrpS

end Fc
