/-
  FcLemmas/KTieRaceOkVDrop.lean — `Vec<Fut>::race_ok()`: the struct's drop glue (slot by slot, in index order) releases
  every stored error and every running child exactly once — a permutation of the model's `dropEvs` (stored errors first,
  then the running children); the constructor builds a well-formed struct.
-/
import FcLemmas.KTieRaceOkVModel

set_option linter.unusedSimpArgs false
set_option linter.unusedVariables false

namespace Fc
open Rs Src

namespace TieRaceOkV
open RaceOkV TieDirect TieLoop

local macro "unroles" : tactic => `(tactic| try simp only [RaceOk.roleElems] at *)

/-- what releasing slot `i` emits: the stored error, or the child -/
def slotEv (g : RaceOk) (i : Nat) : Ev :=
  if slotSt (g.roleElems.get i).view = .ready then .valDropped ((slotOut (g.roleElems.get i).view).getD 0)
  else .childDropped i

theorem rv_drop_slot {N : Nat} (g : RaceOk) (hW : WfK N g) (i : Nat) (hi : i < N) (env : World) :
    MaybeDone.dropGlue (g.roleElems.get i) env = env.emit (slotEv g i) := by
  rcases hW.rs i hi with h | ⟨e, h⟩
  · rw [md_drop_child _ i env h]; simp [slotEv, h, slotSt]
  · rw [md_drop_err _ e env h]; simp [slotEv, h, slotSt, slotOut]

theorem rv_drop_fold {N : Nat} (g : RaceOk) (hW : WfK N g) : ∀ (l : List Nat) (env : World), (∀ i ∈ l, i < N) →
    l.foldl (fun s i => MaybeDone.dropGlue (g.roleElems.get i) s) env =
      { env with trace := (l.map (slotEv g)).reverse ++ env.trace } := by
  intro l
  induction l with
  | nil => intro env _; rfl
  | cons x l ih =>
    intro env h
    simp only [List.foldl_cons, rv_drop_slot g hW x (h x (List.mem_cons_self ..))]
    rw [ih _ (fun i hi => h i (List.mem_cons_of_mem _ hi))]
    simp [World.emit]

/-- a list split by a two-valued test, each part mapped by its own function, is a permutation of the list mapped by the
    function that chooses by the test -/
theorem rv_split_perm {β : Type} (p q : Nat → Bool) (f f1 f2 : Nat → β) : ∀ (l : List Nat),
    (∀ i ∈ l, (p i = true ∧ q i = false ∧ f i = f1 i) ∨ (p i = false ∧ q i = true ∧ f i = f2 i)) →
    (l.map f).Perm ((l.filter p).map f1 ++ (l.filter q).map f2) := by
  intro l
  induction l with
  | nil => intro _; exact List.Perm.refl _
  | cons x l ih =>
    intro h
    have ih' := ih (fun i hi => h i (List.mem_cons_of_mem _ hi))
    rcases h x (List.mem_cons_self ..) with ⟨hp, hq, hf⟩ | ⟨hp, hq, hf⟩
    · simp only [List.map_cons, List.filter_cons, hp, hq, ↓reduceIte, Bool.false_eq_true, List.cons_append, hf]
      exact List.Perm.cons _ ih'
    · simp only [List.map_cons, List.filter_cons, hp, hq, ↓reduceIte, Bool.false_eq_true, hf]
      exact (List.Perm.cons _ ih').trans List.perm_middle.symm

theorem rv_drop_core (N : Nat) (g : RaceOk) (s0 : Fix) (env : World) (hW : WfK N g) :
    ∃ evs, RaceOk.dropGlue g env = { env with trace := evs ++ env.trace } ∧
      evs.Perm ((raceOk false true).dropEvs (absS g s0)).reverse := by
  refine ⟨((List.range N).map (slotEv g)).reverse, ?_, ?_⟩
  · have := rv_drop_fold g hW (List.range N) env (fun i hi => List.mem_range.mp hi)
    unfold RaceOk.dropGlue Rs.PVec.foldEach
    have hkn := hW.kn
    unroles
    simp only [hkn]
    exact this
  · refine (List.reverse_perm _).trans (List.Perm.trans ?_ (List.reverse_perm _).symm)
    have hkn := hW.kn
    simp only [raceOk, absS, hkn, ↓reduceIte]
    apply rv_split_perm
    intro i hi
    have hi' := List.mem_range.mp hi
    rcases hW.rs i hi' with h | ⟨e, h⟩
    · right; simp [slotEv, h, slotSt]
    · left; simp [slotEv, h, slotSt, slotOut]

theorem rv_new_wf (kids : Rs.Kids) : ∃ g, RaceOk.race_ok kids = some g ∧ WfK kids.len g ∧
    (absS g (Fix.init kids.len 0)).n = kids.len ∧
    (absS g (Fix.init kids.len 0)).cnt = 0 ∧
    (∀ i, i < kids.len → (absS g (Fix.init kids.len 0)).st i = .pending) ∧
    (∀ i, i < kids.len → (absS g (Fix.init kids.len 0)).out i = none) := by
  have hmap : (List.range kids.len).mapM (fun fut => (MaybeDone.new fut).bind fun t1 => some t1) =
      some ((List.range kids.len).map (fun i => MaybeDone.ofView (some (.inl i)))) := by
    apply rv_mapM_some
    intro i _
    rfl
  have hmap2 : (List.range kids.len).mapM (fun fut => MaybeDone.new fut) =
      some ((List.range kids.len).map (fun i => MaybeDone.ofView (some (.inl i)))) := by
    apply rv_mapM_some
    intro i _
    rfl
  have hview : ∀ i, i < kids.len →
      (((List.range kids.len).map (fun i => MaybeDone.ofView (some (.inl i))))[i]?.getD (MaybeDone.ofView none)).view
        = some (.inl i) := by
    intro i hi
    simp [hi, md_view_ofView]
  refine ⟨⟨⟨kids.len, fun i =>
    ((List.range kids.len).map (fun i => MaybeDone.ofView (some (.inl i))))[i]?.getD (MaybeDone.ofView none)⟩⟩, ?_, ?_, ?_, ?_, ?_, ?_⟩
  · unfold RaceOk.race_ok Rs.Kids.collect
    simp only [Option.pure_def, Option.bind_eq_bind, hmap, hmap2, Option.map_some, Option.bind_some]
    rfl
  · exact ⟨rfl, fun i hi => Or.inl (hview i hi)⟩
  · rfl
  · simp only [absS, RaceOk.roleElems]
    rw [List.length_eq_zero_iff, List.filter_eq_nil_iff]
    intro i hi
    rw [hview i (List.mem_range.mp hi)]
    simp [slotSt]
  · intro i hi
    simp only [absS, RaceOk.roleElems]
    rw [hview i hi]; rfl
  · intro i hi
    simp only [absS, RaceOk.roleElems]
    rw [hview i hi]; rfl

end TieRaceOkV
end Fc
