/-
  FcLemmas/KTieZipModel.lean — the model side of the Vec zip tie: what one `Eng.visit zip` does in each of the cases
  the translated loop body distinguishes; `Eng.poll zip` / `Eng.close zip` unfolded; list facts about
  `OutVec.assumeInit` (= `Fix.outs` when every slot is written) and `PVec.allOf` (= `Fix.allReady`).
-/
import Fc.Families
import Fc.RustPrims
import FcLemmas.World

set_option linter.unusedSimpArgs false
set_option linter.unusedVariables false

namespace Fc
open Rs

namespace TieZipV

theorem zp_visit_noReady (e : Eng Fix) (i : Nat) (h : e.w.anyReady = false) :
    Eng.visit zip e i = (e, some .pending) := by
  simp [Eng.visit, zip, h]

theorem zp_visit_ready (e : Eng Fix) (i : Nat) (h : e.w.anyReady = true) (h2 : e.s.st i = .ready) :
    Eng.visit zip e i = (e, none) := by
  simp [Eng.visit, zip, h, h2, Eng.gateGo, Eng.gateW]

theorem zp_visit_clear (e : Eng Fix) (i : Nat) (h : e.w.anyReady = true) (h2 : e.s.st i ≠ .ready)
    (h3 : e.w.isSet i = false) :
    Eng.visit zip e i = ({ e with w := e.w.clearReady i }, none) := by
  simp [Eng.visit, zip, h, h2, h3, Eng.gateGo, Eng.gateW]

theorem zp_visit_pend (e : Eng Fix) (i : Nat) (h : e.w.anyReady = true) (h2 : e.s.st i ≠ .ready)
    (h3 : e.w.isSet i = true) (h4 : e.w.resOf i = .pend) :
    Eng.visit zip e i = ({ e with w := (e.w.clearReady i).pollChild i i }, none) := by
  simp [Eng.visit, zip, h, h2, h3, h4, Eng.gateGo, Eng.gateW, Eng.applyH, Fix.keep, World.kop]

theorem zp_visit_fin (e : Eng Fix) (i : Nat) (h : e.w.anyReady = true) (h2 : e.s.st i ≠ .ready)
    (h3 : e.w.isSet i = true) (h4 : e.w.resOf i = .fin) :
    Eng.visit zip e i = ({ w := (e.w.clearReady i).pollChild i i, s := e.s.kill }, some .none) := by
  simp [Eng.visit, zip, h, h2, h3, h4, Eng.gateGo, Eng.gateW, Eng.applyH, Fix.keep, World.kop]

theorem zp_visit_item_more (e : Eng Fix) (i v : Nat) (h : e.w.anyReady = true) (h2 : e.s.st i ≠ .ready)
    (h3 : e.w.isSet i = true) (h4 : e.w.resOf i = .item v)
    (h5 : ({ e.s with st := upd e.s.st i .ready } : Fix).allReady = false) :
    Eng.visit zip e i =
      ({ w := (e.w.clearReady i).pollChild i i,
         s := { e.s with st := upd e.s.st i .ready, out := upd e.s.out i (some v) } }, none) := by
  simp [Eng.visit, zip, h, h2, h3, h4, h5, Eng.gateGo, Eng.gateW, Eng.applyH, Fix.keep, World.kop]

theorem zp_visit_item_all (e : Eng Fix) (i v : Nat) (h : e.w.anyReady = true) (h2 : e.s.st i ≠ .ready)
    (h3 : e.w.isSet i = true) (h4 : e.w.resOf i = .item v)
    (h5 : ({ e.s with st := upd e.s.st i .ready } : Fix).allReady = true) :
    Eng.visit zip e i =
      ({ w := ((e.w.clearReady i).pollChild i i).setAllReady,
         s := { e.s with st := fun _ => .pending, out := fun _ => none } },
       some (.some 0 ({ e.s with out := upd e.s.out i (some v) } : Fix).outs)) := by
  simp [Eng.visit, zip, h, h2, h3, h4, h5, Eng.gateGo, Eng.gateW, Eng.applyH, Fix.keep, World.kop]

theorem zp_poll_unfold (e : Eng Fix) (w : Nat) (hd : e.s.dead = false) :
    Eng.poll zip e w = Eng.close zip (Eng.scan zip (List.range e.s.n)
      { w := (e.w.emit (.pollBegin w)).setWaker w, s := e.s }) := by
  simp [Eng.poll, Eng.body, zip, hd, Fix.misuseIfDead]

theorem zp_close_none (X : Eng Fix × Option Outcome) (h : X.2 = none) :
    Eng.close zip X = X.1.emit (.pollEnd .pending) := by
  simp [Eng.close, h, zip, Eng.applyH, World.kop]

theorem zp_close_some (X : Eng Fix × Option Outcome) (o : Outcome) (h : X.2 = some o) :
    Eng.close zip X = X.1.emit (.pollEnd o) := by
  simp [Eng.close, h]

/-! ### list facts -/

theorem zp_mapM_some {α : Type} (f : Nat → α) (l : List Nat) :
    l.mapM (fun i => (some (f i) : Option α)) = some (l.map f) := by
  induction l with
  | nil => rfl
  | cons a l ih => simp [List.mapM_cons, ih]

theorem zp_mapM_getD (out : Nat → Option Nat) (l : List Nat) (h : ∀ j ∈ l, ∃ v, out j = some v) :
    l.mapM out = some (l.map (fun i => (out i).getD 0)) := by
  induction l with
  | nil => rfl
  | cons a l ih =>
    obtain ⟨v, hv⟩ := h a (List.mem_cons_self ..)
    have := ih (fun j hj => h j (List.mem_cons_of_mem _ hj))
    simp [List.mapM_cons, hv, this]

/-- `vec_assume_init` on a fully written `OutputVec` -/
theorem zp_assumeInit (o : OutVec) (h : ∀ j, j < o.cap → ∃ v, o.get j = some v) :
    OutVec.assumeInit o = some ((List.range o.cap).map (fun i => (o.get i).getD 0)) := by
  unfold OutVec.assumeInit
  exact zp_mapM_getD _ _ (fun j hj => h j (List.mem_range.mp hj))

/-- `iter().all(..)` with a total test -/
theorem zp_allOf {α : Type} (a : PVec α) (t : α → Bool) :
    PVec.allOf a (fun s => some (t s)) = some ((List.range a.len).all (fun i => t (a.get i))) := by
  unfold PVec.allOf
  rw [zp_mapM_some (fun i => t (a.get i))]
  simp [List.all_map]

end TieZipV
end Fc
