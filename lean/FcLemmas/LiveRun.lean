/-
  FcLemmas/LiveRun.lean — liveness of join under the wake-only executor (Fc/Exec.lean).

  `LB` is the joint invariant at the operation boundaries of an executor run that has not produced
  its final result yet: the C01 boundary invariant of the waker strategy in use (⇒ `quiet`), the
  C20 invariant (⇒ `c20At` at every `Pending`), the C04 invariant (⇒ `Pending` iff some child has
  not resolved), and `WInv` (children are well-behaved futures).  `lb_poll` / `lb_fire` carry it
  across one executor round; `resolves_aux` is the induction on the progress measure.
-/
import FcLemmas.LiveLoop
set_option linter.unusedSimpArgs false
set_option linter.unusedVariables false

namespace Fc
namespace Live
open Mon

/-- what the argument needs to know about the policy (both join models satisfy it) -/
structure JoinLike (P : Policy Fix) (slice : Bool) : Prop where
  conc : Conc P
  hdrop : ∀ s i r c, Ev.childDropped c ∈ (P.handle s i r).evs → c = i ∧ ∃ ok v, r = .ready ok v
  hfin : ∀ s, (P.finish s).evs = []
  sim : ∀ n m, Sim P m Sim.anyRes (C04.Inv slice n) (C04.J slice n)
  helig : ∀ s i, P.eligible s i = true → s.st i ≠ .ready

theorem joinLike_slice : JoinLike joinSlice true where
  conc := conc_joinSlice
  hdrop := by
    intro s i r c h
    cases r <;> simp_all [joinSlice, Fix.keep]
  hfin := by intro s; simp only [joinSlice]; split <;> rfl
  sim := fun n m => C04.sim_joinSlice n m
  helig := by intro s i h; simp_all [joinSlice]

theorem joinLike_tuple : JoinLike joinTuple false where
  conc := conc_joinTuple
  hdrop := by
    intro s i r c h
    cases r <;> simp_all [joinTuple, Fix.keep]
    split at h <;> simp_all
  hfin := by intro s; rfl
  sim := fun n m => C04.sim_joinTuple n m
  helig := by intro s i h; simpa [joinTuple] using h

structure LB (P : Policy Fix) (slice : Bool) (m : Mode) (fv : Nat → Nat) (n : Nat) (e : Eng Fix) : Prop where
  mode : e.w.mode = m
  std : m = .std → C01.BInv P n e
  dir : m = .direct → C01D.BInv P n e
  b20 : C20.B20 P e
  c04 : C04.Inv slice n e.s e.w.trace
  wi : WInv fv n e.w
  sp : spent false e.w.trace = false
  lo : lastOut e.w.trace = none ∨ lastOut e.w.trace = some .pending
  pf : lastOut e.w.trace = some .pending →
        (∀ c, c < n → everPolled e.w.trace c = true) ∧ ∃ c, c < n ∧ resolvedVal e.w.trace c = none

variable {P : Policy Fix} {slice : Bool} {m : Mode} {fv : Nat → Nat} {n : Nat}

theorem lb_quiet (e : Eng Fix) (h : LB P slice m fv n e) : quiet n e.w.trace = true := by
  cases m with
  | std => exact C01.quiet_of_binv e (h.std rfl)
  | direct => exact C01D.quiet_of_binv e (h.dir rfl)

theorem lb_nowp (e : Eng Fix) (h : LB P slice m fv n e) : c01NoPanic e.w.trace = true := by
  cases m with
  | std => exact (h.std rfl).ks.nowp
  | direct => exact (h.dir rfl).kd.nowp

/-- an unresolved child is a waiting future with steps left -/
theorem fut_unresolved {w : World} {c : Nat} (hf : Fut fv w c) (hr : resolvedVal w.trace c = none) :
    Exec.futureScript (w.scripts c) = true ∧
      (lastRes w.trace c = none ∨ lastRes w.trace c = some .pend) ∧ gone w.trace c = false := by
  rcases hf with hf | ⟨ok, hf⟩
  · exact ⟨hf.1, hf.2.1, hf.2.2.1⟩
  · simp [resolvedVal, hf] at hr

/-! ### one top-level poll -/

theorem lb_poll (JL : JoinLike P slice) (e : Eng Fix) (wid : Nat) (h : LB P slice m fv n e) :
    (lastOut (Eng.poll P e wid).w.trace = some (.ready true ((List.range n).map fv))) ∨
    (LB P slice m fv n (Eng.poll P e wid) ∧ lastOut (Eng.poll P e wid).w.trace = some .pending ∧
      Exec.stepsLeft n (Eng.poll P e wid) ≤ Exec.stepsLeft n e ∧
      (Exec.stepsLeft n (Eng.poll P e wid) < Exec.stepsLeft n e ∨
        wokeSince (Eng.poll P e wid).w.trace = false) ∧
      (∀ c, c < n → lastRes e.w.trace c = some .pend → owes e.w.trace c = true →
        Exec.stepsLeft n (Eng.poll P e wid) < Exec.stepsLeft n e)) := by
  have hP := pend_poll JL.conc.law JL.hdrop JL.hfin (JL.sim n m) JL.helig e wid h.mode h.c04 h.wi h.sp
  have hT := Sim.pollT (JL.sim n m) e wid h.mode (Sim.scriptsOk_any _) h.c04
  have hstd : m = .std → C01.BInv P n (Eng.poll P e wid) :=
    fun hm => C01.binv_poll JL.conc e wid (h.std hm)
  have hdir : m = .direct → C01D.BInv P n (Eng.poll P e wid) :=
    fun hm => C01D.binv_poll JL.conc e wid (h.dir hm)
  have hb20 : C20.B20 P (Eng.poll P e wid) := by
    cases m with
    | std => exact C20S.poll20 (n := n) JL.conc e wid (h.std rfl) h.b20
    | direct => exact C20D.poll20 (n := n) JL.conc e wid (h.dir rfl) h.b20
  have hnowp : c01NoPanic (Eng.poll P e wid).w.trace = true := by
    cases m with
    | std => exact (hstd rfl).ks.nowp
    | direct => exact (hdir rfl).kd.nowp
  have hm20 := hb20.m20
  rw [hT.2.2.hn] at hm20
  have hmon := hT.2.2.mon
  have hab := hP.ab
  obtain ⟨o, t, ht, hspt, hpnt⟩ := hP.shape
  rw [ht] at hmon hnowp hm20 hab
  simp only [holds_C04, Bool.and_eq_true] at hmon
  have hc04 := hmon.2
  simp only [atPollBegin] at hab
  have hLe : ∀ c, c < n → ((Eng.poll P e wid).w.scripts c).length ≤ (e.w.scripts c).length :=
    fun c _ => hP.le c
  cases o with
  | pending =>
    right
    -- C04: some child has not resolved
    have hunres : ∃ c, c < n ∧ resolvedVal t c = none := by
      simp only [c04At, allResolved, Bool.not_eq_true', List.all_eq_false, List.mem_range] at hc04
      obtain ⟨c, hc, hn⟩ := hc04
      refine ⟨c, hc, ?_⟩
      cases hrv : resolvedVal t c with
      | none => rfl
      | some v => simp [hrv] at hn
    -- C20: every child has been polled; an owed waiting child was polled in this poll
    have hc20 : ∀ c, c < n → everPolled t c = true ∧
        (lastRes e.w.trace c = some .pend → owes e.w.trace c = true → polledSince t c = true) := by
      simp only [holds_C20, Bool.and_eq_true] at hm20
      have := hm20.2
      simp only [c20At, List.all_eq_true, List.mem_range] at this
      intro c hc
      have hcc := this c hc
      rw [hab] at hcc
      simp only [owned, hc, decide_true, if_true, Bool.not_true, Bool.false_or, Bool.and_eq_true,
        Bool.or_eq_true, Bool.not_eq_true', Bool.and_eq_false_imp, beq_iff_eq] at hcc
      refine ⟨hcc.1, fun h1 h2 => ?_⟩
      rcases hcc.2 with h3 | h3
      · have := h3 h1; rw [h2] at this; exact Bool.noConfusion this
      · exact h3
    have hps : ∀ c, polledSince (Eng.poll P e wid).w.trace c = polledSince t c := by
      intro c; rw [ht]; simp [polledSince]
    refine ⟨⟨hT.1, hstd, hdir, hb20, hT.2.2, hP.wi, ?_, Or.inr (by rw [ht]; rfl), ?_⟩,
      by rw [ht]; rfl, ?_, ?_, ?_⟩
    · rw [ht]; simpa [spent, finalSeen, alive, panickedSeen] using hspt
    · intro _
      rw [ht]
      refine ⟨fun c hc => by simpa [everPolled] using (hc20 c hc).1, ?_⟩
      obtain ⟨c, hc, hr⟩ := hunres
      exact ⟨c, hc, by simpa [resolvedVal, lastRes] using hr⟩
    · exact total_le _ _ n hLe
    · cases hw : wokeSince (Eng.poll P e wid).w.trace with
      | false => right; rfl
      | true =>
        left
        obtain ⟨c, hc⟩ := hP.wk hw
        have := hP.ps c hc
        exact total_lt _ _ n hLe c this.1 this.2
    · intro c hc h1 h2
      have h3 := (hc20 c hc).2 h1 h2
      rw [← hps] at h3
      exact total_lt _ _ n hLe c hc (hP.ps c h3).2
  | ready ok vals =>
    left
    simp only [c04At, Bool.and_eq_true, beq_iff_eq] at hc04
    have hvals : vals = (List.range n).map fv := by
      rw [hc04.2]
      apply List.map_congr_left
      intro c hc
      have hcn := List.mem_range.mp hc
      have hall := hc04.1.2
      simp only [allResolved, List.all_eq_true, List.mem_range] at hall
      have hsome := hall c hcn
      rcases hP.wi.fut c hcn with hf | ⟨ok', hf⟩
      · rw [ht] at hf
        simp only [lastRes] at hf
        rcases hf.2.1 with h1 | h1 <;> simp [resolvedVal, h1] at hsome
      · rw [ht] at hf
        simp only [lastRes] at hf
        simp [resolvedVal, hf]
    rw [ht, hc04.1.1, hvals]; rfl
  | some k vals => simp [c04At] at hc04
  | none => simp [c04At] at hc04
  | panicked =>
    simp only [c01NoPanic, Bool.and_eq_true] at hnowp
    rw [hpnt] at hnowp; exact absurd hnowp.2 (by simp)
  | misuse =>
    simp only [c04At] at hc04
    rw [hspt] at hc04; exact Bool.noConfusion hc04

/-! ### one wake-up between polls -/

theorem winv_fire (w : World) (c a : Nat) (h : WInv fv n w) : WInv fv n (w.fire c a) := by
  obtain ⟨l, hl, hp⟩ := World.fire_seg w c a
  have hLR : ∀ j, lastRes (w.fire c a).trace j = lastRes w.trace j := C16.lastRes_fire w c a
  have hLW : ∀ j, lastWk (w.fire c a).trace j = lastWk w.trace j := by
    intro j; rw [hl]
    exact skip_seg (fun t => lastWk t j) isFireEv (fun e t h => lastWk_fireEv j e t h) l hp _
  refine ⟨?_, ?_, ?_, ?_⟩
  · intro j hj
    have := h.fut j hj
    unfold Fut at this ⊢
    rw [hLR, World.fire_scripts]
    have hg : gone (w.fire c a).trace j = gone w.trace j := by rw [hl]; exact gone_fires l _ j hp
    rw [hg]; exact this
  · intro j; rw [hLW, World.fire_handed]; exact h.hw j
  · intro j; rw [hLR, hLW]; exact h.lw j
  · intro j; rw [hLR, everPolled_fire]; exact h.ep j

theorem lb_fire (JL : JoinLike P slice) (e : Eng Fix) (c a : Nat) (h : LB P slice m fv n e) :
    LB P slice m fv n (e.fire c a) := by
  obtain ⟨l, hl, hp⟩ := World.fire_seg e.w c a
  have hlo : lastOut (e.fire c a).w.trace = lastOut e.w.trace := C01.lastOut_fire e.w c a
  refine ⟨by simpa using h.mode, fun hm => C01.binv_fire e c a (h.std hm),
    fun hm => C01D.binv_fire e c a (h.dir hm), C20.b20_fire e c a h.b20,
    (Sim.fireT (JL.sim n m) e c a h.mode (Sim.scriptsOk_any _) h.c04).2.2,
    winv_fire e.w c a h.wi, ?_, by rw [hlo]; exact h.lo, ?_⟩
  · simp only [Eng.fire_w, hl]
    rw [spent_fires false l _ hp]; exact h.sp
  · intro hp'
    rw [hlo] at hp'
    obtain ⟨h1, c', hc', hr⟩ := h.pf hp'
    refine ⟨fun j hj => by simpa [everPolled_fire] using h1 j hj, c', hc', ?_⟩
    simp only [Eng.fire_w, hl]
    rw [resolvedVal_fires l _ c' hp]; exact hr

theorem stepsLeft_fire (e : Eng Fix) (c a : Nat) :
    Exec.stepsLeft n (e.fire c a) = Exec.stepsLeft n e := by
  simp [Exec.stepsLeft]

/-- prodding a waiting child: its wake-up is owed afterwards, hence (C01) the task has been woken -/
theorem lb_fire_woke (JL : JoinLike P slice) (e : Eng Fix) (c : Nat) (h : LB P slice m fv n e)
    (hlo : lastOut e.w.trace = some .pending) (hc : c < n) (hlr : lastRes e.w.trace c = some .pend) :
    owes (e.fire c 0).w.trace c = true ∧ lastRes (e.fire c 0).w.trace c = some .pend ∧
      wokeSince (e.fire c 0).w.trace = true := by
  have hLR : lastRes (e.fire c 0).w.trace c = some .pend := by
    simp only [Eng.fire_w]; rw [C16.lastRes_fire]; exact hlr
  -- the waker handed to `c` most recently is the one the ghost remembers
  obtain ⟨wk, hwk⟩ : ∃ wk, lastWk e.w.trace c = some wk := by
    cases hh : lastWk e.w.trace c with
    | none => exact absurd hh (h.wi.lw c (by rw [hlr]; simp))
    | some wk => exact ⟨wk, rfl⟩
  have hget : (e.w.handed c)[0]? = some wk := by
    rw [← List.head?_eq_getElem?, h.wi.hw c, hwk]
  have howes : owes (e.fire c 0).w.trace c = true := by
    simp only [Eng.fire_w]
    unfold World.fire
    rw [hget]
    simp only
    obtain ⟨l, hl, hp⟩ := World.fireWk_seg (e.w.emit (.fired c 0 (some wk))) wk
    rw [hl]
    refine owes_fires_mono c l _ hp ?_
    simp [owes, hwk]
  have h' := lb_fire JL e c 0 h
  have hq := lb_quiet _ h'
  have hlo' : lastOut (e.fire c 0).w.trace = some .pending := by
    rw [show lastOut (e.fire c 0).w.trace = lastOut e.w.trace from C01.lastOut_fire e.w c 0]; exact hlo
  have halive : alive (e.fire c 0).w.trace = true := by
    have := h'.sp
    simp only [spent, Bool.or_eq_false_iff, Bool.not_eq_false'] at this
    exact this.1.2
  have hgone : gone (e.fire c 0).w.trace c = false := by
    rcases h'.wi.fut c hc with hf | ⟨ok, hf⟩
    · exact hf.2.2.1
    · rw [hLR] at hf; cases hf
  refine ⟨howes, hLR, ?_⟩
  simp only [quiet, halive, hlo', beq_self_eq_true, Bool.and_self, Bool.not_true, Bool.false_or,
    List.all_eq_true, List.mem_range] at hq
  have := hq c hc
  simp only [Eng.fire_w] at hLR hgone howes this
  simpa [hLR, hgone, howes] using this


/-! ### executor rounds -/

theorem finalOut_lo {t : List Ev} (h : lastOut t = none ∨ lastOut t = some .pending) :
    Exec.finalOut (lastOut t) = false := by
  rcases h with h | h <;> rw [h] <;> rfl

theorem shouldPoll_pending {t : List Ev} (h : lastOut t = some .pending) :
    Exec.shouldPoll t = wokeSince t := by
  unfold Exec.shouldPoll; rw [h]

theorem shouldPoll_false_pending {t : List Ev}
    (hlo : lastOut t = none ∨ lastOut t = some .pending) (h : Exec.shouldPoll t = false) :
    lastOut t = some .pending ∧ wokeSince t = false := by
  rcases hlo with h1 | h1
  · unfold Exec.shouldPoll at h; rw [h1] at h; exact Bool.noConfusion h
  · exact ⟨h1, by rw [shouldPoll_pending h1] at h; exact h⟩

theorem round_poll (e : Eng Fix) (h : LB P slice m fv n e) (hsp : Exec.shouldPoll e.w.trace = true) :
    Exec.round P n e = some (Eng.poll P e (Exec.pollCount e.w.trace + 1)) := by
  unfold Exec.round; rw [finalOut_lo h.lo, hsp]; simp

theorem round_fire (e : Eng Fix) (h : LB P slice m fv n e) (hsp : Exec.shouldPoll e.w.trace = false)
    (c : Nat) (hfw : Exec.firstWaiting n e = some c) : Exec.round P n e = some (e.fire c 0) := by
  unfold Exec.round; rw [finalOut_lo h.lo, hsp, hfw]; simp

theorem length_pos_of_ne_nil' {α : Type} (l : List α) (h : l ≠ []) : 0 < l.length := by
  cases l with
  | nil => exact absurd rfl h
  | cons a l => simp

/-- after a `Pending` poll some child is waiting and can be prodded -/
theorem firstWaiting_some (e : Eng Fix) (h : LB P slice m fv n e)
    (hlo : lastOut e.w.trace = some .pending) :
    ∃ c, Exec.firstWaiting n e = some c ∧ c < n ∧ lastRes e.w.trace c = some .pend ∧
      e.w.scripts c ≠ [] := by
  obtain ⟨hep, c, hc, hr⟩ := h.pf hlo
  obtain ⟨hfs, hl, _⟩ := fut_unresolved (h.wi.fut c hc) hr
  have hlr : lastRes e.w.trace c = some .pend := by
    rcases hl with hl | hl
    · exact absurd hl (h.wi.ep c (hep c hc))
    · exact hl
  have hne := fs_ne_nil _ hfs
  have hsome : (Exec.firstWaiting n e).isSome = true := by
    unfold Exec.firstWaiting
    rw [List.find?_isSome]
    refine ⟨c, List.mem_range.mpr hc, ?_⟩
    simp [hlr, hne]
  cases hfw : Exec.firstWaiting n e with
  | none => rw [hfw] at hsome; exact Bool.noConfusion hsome
  | some c0 =>
    unfold Exec.firstWaiting at hfw
    have hp := List.find?_some hfw
    have hm := List.mem_range.mp (List.mem_of_find?_eq_some hfw)
    simp only [Bool.and_eq_true, beq_iff_eq, Bool.not_eq_true', List.isEmpty_eq_false_iff] at hp
    exact ⟨c0, rfl, hm, hp.1, hp.2⟩

/-- the three phases of a run that has not finished, with the number of rounds they still allow:
    about to poll; not woken (a child will be prodded); about to poll with a prodded child -/
def Cond (n : Nat) (e : Eng Fix) (N : Nat) : Prop :=
  (Exec.shouldPoll e.w.trace = true ∧ 3 * Exec.stepsLeft n e + 1 ≤ N) ∨
  (Exec.shouldPoll e.w.trace = false ∧ 3 * Exec.stepsLeft n e ≤ N) ∨
  (Exec.shouldPoll e.w.trace = true ∧
    (∃ c, c < n ∧ lastRes e.w.trace c = some .pend ∧ owes e.w.trace c = true) ∧
    1 ≤ Exec.stepsLeft n e ∧ 3 * Exec.stepsLeft n e ≤ N + 1)

theorem poll_round (JL : JoinLike P slice) {N : Nat}
    (ih : ∀ e, LB P slice m fv n e → Cond n e N →
      ∃ k, k ≤ N ∧ lastOut (Exec.runFor P n k e).w.trace = some (.ready true ((List.range n).map fv)))
    (e : Eng Fix) (h : LB P slice m fv n e) (hsp : Exec.shouldPoll e.w.trace = true)
    (hE : ((∃ c, c < n ∧ lastRes e.w.trace c = some .pend ∧ owes e.w.trace c = true) ∧
            3 * Exec.stepsLeft n e ≤ N + 2) ∨ 3 * Exec.stepsLeft n e ≤ N) :
    ∃ k, k ≤ N + 1 ∧ lastOut (Exec.runFor P n k e).w.trace = some (.ready true ((List.range n).map fv)) := by
  have hr := round_poll e h hsp
  rcases lb_poll JL e (Exec.pollCount e.w.trace + 1) h with hv | ⟨h', hlo', hle, hD, hEE⟩
  · exact ⟨1, by omega, by simp only [Exec.runFor, hr]; exact hv⟩
  · have hsp' := shouldPoll_pending hlo'
    have hcond : Cond n (Eng.poll P e (Exec.pollCount e.w.trace + 1)) N := by
      cases hw : wokeSince (Eng.poll P e (Exec.pollCount e.w.trace + 1)).w.trace with
      | true =>
        left
        refine ⟨by rw [hsp', hw], ?_⟩
        rcases hE with ⟨⟨c, hc, h1, h2⟩, hb⟩ | hb
        · have := hEE c hc h1 h2; omega
        · rcases hD with hD | hD
          · omega
          · rw [hw] at hD; exact Bool.noConfusion hD
      | false =>
        right; left
        refine ⟨by rw [hsp', hw], ?_⟩
        rcases hE with ⟨⟨c, hc, h1, h2⟩, hb⟩ | hb
        · have := hEE c hc h1 h2; omega
        · omega
    obtain ⟨k, hk, hv⟩ := ih _ h' hcond
    exact ⟨k + 1, by omega, by simp only [Exec.runFor, hr]; exact hv⟩

/-- the induction on the number of rounds allowed -/
theorem resolves_aux (JL : JoinLike P slice) : ∀ (N : Nat) (e : Eng Fix), LB P slice m fv n e →
    Cond n e N →
    ∃ k, k ≤ N ∧ lastOut (Exec.runFor P n k e).w.trace = some (.ready true ((List.range n).map fv)) := by
  intro N
  induction N with
  | zero =>
    intro e h hc
    rcases hc with ⟨_, h1⟩ | ⟨hsp, h1⟩ | ⟨_, _, h1, h2⟩
    · omega
    · obtain ⟨hlo, _⟩ := shouldPoll_false_pending h.lo hsp
      obtain ⟨c, _, hc, _, hne⟩ := firstWaiting_some e h hlo
      have h3 := le_total (fun c => (e.w.scripts c).length) n c hc
      have h4 := length_pos_of_ne_nil' _ hne
      rw [stepsLeft_eq] at h1
      omega
    · omega
  | succ N ih =>
    intro e h hc
    rcases hc with ⟨hsp, h1⟩ | ⟨hsp, h1⟩ | ⟨hsp, hwit, h1, h2⟩
    · exact poll_round JL ih e h hsp (Or.inr (by omega))
    · obtain ⟨hlo, _⟩ := shouldPoll_false_pending h.lo hsp
      obtain ⟨c, hfw, hc, hlr, hne⟩ := firstWaiting_some e h hlo
      have hr := round_fire e h hsp c hfw
      have h' := lb_fire JL e c 0 h
      obtain ⟨ho, hlr', hw⟩ := lb_fire_woke JL e c h hlo hc hlr
      have hlo' : lastOut (e.fire c 0).w.trace = some .pending := by
        rw [show lastOut (e.fire c 0).w.trace = lastOut e.w.trace from C01.lastOut_fire e.w c 0]
        exact hlo
      have h3 := le_total (fun c => (e.w.scripts c).length) n c hc
      have h4 := length_pos_of_ne_nil' _ hne
      have hcond : Cond n (e.fire c 0) N := by
        right; right
        refine ⟨by rw [shouldPoll_pending hlo', hw], ⟨c, hc, hlr', ho⟩, ?_, ?_⟩
        · rw [stepsLeft_fire, stepsLeft_eq]; omega
        · rw [stepsLeft_fire]; omega
      obtain ⟨k, hk, hv⟩ := ih _ h' hcond
      exact ⟨k + 1, by omega, by simp only [Exec.runFor, hr]; exact hv⟩
    · exact poll_round JL ih e h hsp (Or.inl ⟨hwit, by omega⟩)

/-! ### the initial state -/

theorem winv_init (mode : Mode) (n : Nat) (scripts : Nat → List Step)
    (hs : ∀ c, c < n → Exec.futureScript (scripts c) = true) :
    WInv (fun c => finalVal (scripts c)) n (World.init mode n scripts) := by
  refine ⟨fun c hc => Or.inl ⟨hs c hc, Or.inl rfl, rfl, rfl⟩, fun c => rfl, ?_, ?_⟩
  · intro c hc; exact absurd rfl hc
  · intro c hc; simp [World.init, everPolled] at hc

theorem lb_init_slice (m : Mode) (n : Nat) (scripts : Nat → List Step)
    (hs : ∀ c, c < n → Exec.futureScript (scripts c) = true) :
    LB joinSlice true m (fun c => finalVal (scripts c)) n (FEng.init .joinSlice m n scripts) := by
  refine ⟨rfl, fun hm => C01.binv_init .joinSlice n scripts m (by rw [← hm]; rfl),
    fun hm => C01D.binv_init .joinSlice n scripts m (by rw [← hm]; rfl),
    C20.b20_init .joinSlice conc_joinSlice n scripts m, ?_, winv_init _ n scripts hs, rfl,
    Or.inl rfl, ?_⟩
  · simpa [FEng.init, Fam.initCnt, World.init] using C04.inv_init true n
  · intro hc; simp [FEng.init, World.init, lastOut] at hc

theorem lb_init_tuple (m : Mode) (n : Nat) (scripts : Nat → List Step)
    (hs : ∀ c, c < n → Exec.futureScript (scripts c) = true) :
    LB joinTuple false m (fun c => finalVal (scripts c)) n (FEng.init .joinTuple m n scripts) := by
  refine ⟨rfl, fun hm => C01.binv_init .joinTuple n scripts m (by rw [← hm]; rfl),
    fun hm => C01D.binv_init .joinTuple n scripts m (by rw [← hm]; rfl),
    C20.b20_init .joinTuple conc_joinTuple n scripts m, ?_, winv_init _ n scripts hs, rfl,
    Or.inl rfl, ?_⟩
  · simpa [FEng.init, Fam.initCnt, World.init] using C04.inv_init false n
  · intro hc; simp [FEng.init, World.init, lastOut] at hc

/-- every run from a state satisfying the invariant resolves within `3 * stepsLeft + 1` rounds -/
theorem resolves_of_lb (JL : JoinLike P slice) (e : Eng Fix) (h : LB P slice m fv n e)
    (hsp : Exec.shouldPoll e.w.trace = true) :
    ∃ k, k ≤ 3 * Exec.stepsLeft n e + 1 ∧
      lastOut (Exec.runFor P n k e).w.trace = some (.ready true ((List.range n).map fv)) :=
  resolves_aux JL _ e h (Or.inl ⟨hsp, Nat.le_refl _⟩)

end Live
end Fc
