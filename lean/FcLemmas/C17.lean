/-
  FcLemmas/C17.lean — merge fairness: a merge-specific invariant over `Eng Fix` (it talks about
  the readiness bits, so the World-free `Sim` framework does not apply).

  Boundary invariant `Bd` (between operations), for every input `a` that so far answered every
  poll with an item:   a is armed (`isSet`) and live (`st a ≠ none`) and
        miss a + dist a ≤ n - 1
  where `miss a` = number of most recent items not from `a`, `dist a = (a + n - off) % n` = number
  of slots the next poll scans before `a`.  Loop invariant `Lp` (inside a poll): the same with the
  pre-bump offset `i₀`, plus "after the first iteration no always-item input sits in slot `i₀`".
-/
import FcLemmas.C01Std
import FcLemmas.Frame
import Fc.MonFun
set_option linter.unusedSimpArgs false
set_option linter.unusedVariables false

namespace Fc
namespace C17
open Mon C01

/-! ### `miss`: how many of the most recent items did not come from `a` -/

def miss (a : Nat) : List Nat → Nat
  | [] => 0
  | c :: l => if c = a then 0 else miss a l + 1

theorem miss_take (a : Nat) : ∀ (l : List Nat) (n : Nat), miss a l < n →
    l.length < n ∨ (l.take n).contains a = true := by
  intro l
  induction l with
  | nil => intro n h; left; simpa [miss] using h
  | cons c l ih =>
    intro n h
    by_cases hc : c = a
    · right
      cases n with
      | zero => omega
      | succ m => simp [List.take, hc]
    · simp only [miss, hc, if_false] at h
      cases n with
      | zero => omega
      | succ m =>
        rcases ih m (by omega) with h1 | h1
        · left; simp only [List.length_cons]; omega
        · right
          simp only [List.take_succ_cons, List.contains_cons, h1, Bool.or_true]

/-- the fairness verdict follows from `miss a < n` for the always-item inputs -/
theorem c17At_of_miss (n : Nat) (t : List Ev)
    (h : ∀ a, a < n → alwaysItem t a = true → miss a (srcs t) < n) : c17At n t = true := by
  unfold c17At
  rw [List.all_eq_true]
  intro a ha
  simp only [List.mem_range] at ha
  cases hal : alwaysItem t a with
  | false => simp
  | true =>
    rcases miss_take a (srcs t) n (h a ha hal) with h1 | h1
    · simp [h1]
    · rw [h1]; simp

/-! ### arithmetic of the rotating offset -/

theorem mod_sub_of_lt (x n : Nat) (h1 : n ≤ x) (h2 : x < n + n) : x % n = x - n := by
  rw [Nat.mod_eq_sub_mod h1]
  exact Nat.mod_eq_of_lt (by omega)

/-- an input that is not in the first slot of this poll's rotation moves one slot closer -/
theorem dist_bump (n a i : Nat) (ha : a < n) (hi : i < n) (hne : a ≠ i) :
    (a + n - (i + 1) % n) % n + 1 = (a + n - i) % n := by
  by_cases hlast : i + 1 = n
  · rw [hlast, Nat.mod_self, Nat.sub_zero, Nat.add_mod_right, Nat.mod_eq_of_lt ha]
    have : a + n - i = a + 1 := by omega
    rw [this, Nat.mod_eq_of_lt (by omega)]
  · rw [Nat.mod_eq_of_lt (show i + 1 < n by omega)]
    by_cases hlt : a < i
    · rw [Nat.mod_eq_of_lt (show a + n - (i + 1) < n by omega),
        Nat.mod_eq_of_lt (show a + n - i < n by omega)]
      omega
    · rw [mod_sub_of_lt (a + n - (i + 1)) n (by omega) (by omega),
        mod_sub_of_lt (a + n - i) n (by omega) (by omega)]
      omega

/-! ### the cached ready count never under-counts the set bits -/

theorem filter_upd_true_le (f : Nat → Bool) (i n : Nat) :
    ((List.range n).filter (fun j => upd f i true j)).length
      ≤ ((List.range n).filter (fun j => f j)).length + 1 := by
  by_cases hi : i < n
  · cases hf : f i with
    | false => rw [filter_upd_true f i n hi hf]; omega
    | true =>
      have : upd f i true = f := by
        funext j; unfold upd; split
        · rename_i hj; rw [hj, hf]
        · rfl
      rw [this]; omega
  · have : (List.range n).filter (fun j => upd f i true j) = (List.range n).filter (fun j => f j) := by
      apply List.filter_congr
      intro j hj
      simp only [List.mem_range] at hj
      rw [upd_other _ _ _ _ (by omega)]
    rw [this]; omega

/-- `nset w ≤ w.count` -/
def NC (w : World) : Prop := nset w ≤ w.count

theorem nc_emit (w : World) (e : Ev) (h : NC w) : NC (w.emit e) := h
theorem nc_emits (w : World) (l : List Ev) (h : NC w) : NC (w.emits l) := h
theorem nc_setWaker (w : World) (p : Nat) (h : NC w) : NC (w.setWaker p) := h

theorem nc_setReady (w : World) (i : Nat) (h : NC w) : NC (w.setReady i) := by
  cases hm : w.mode with
  | direct =>
    have : w.setReady i = w := by simp [World.setReady, hm]
    rw [this]; exact h
  | std =>
    unfold NC at h ⊢
    rw [setReady_count w i hm]
    simp only [nset, World.setReady_cap, World.setReady_bits_std w i hm]
    have hle := filter_upd_true_le w.bits i w.cap
    unfold nset at h
    cases hb : w.bits i with
    | true =>
      have : upd w.bits i true = w.bits := by
        funext j; unfold upd; split
        · rename_i hj; rw [hj, hb]
        · rfl
      simp only [this, if_true]; exact h
    | false =>
      simp only [Bool.false_eq_true, if_false]
      omega

theorem nc_clearReady (w : World) (i : Nat) (hi : i < w.cap) (h : NC w) : NC (w.clearReady i) := by
  cases hm : w.mode with
  | direct =>
    have : w.clearReady i = w := by simp [World.clearReady, hm]
    rw [this]; exact h
  | std =>
    unfold NC at h ⊢
    rw [clearReady_count w i hm]
    simp only [nset, World.clearReady_cap, World.clearReady_bits_std w i hm]
    unfold nset at h
    cases hb : w.bits i with
    | true =>
      simp only [if_true]
      have := filter_upd_false w.bits i w.cap hi hb
      omega
    | false =>
      have : upd w.bits i false = w.bits := by
        funext j; unfold upd; split
        · rename_i hj; rw [hj, hb]
        · rfl
      simp only [this, Bool.false_eq_true, if_false]; exact h

theorem nc_fireWk (w : World) (wk : Wk) (h : NC w) : NC (w.fireWk wk) := by
  cases wk with
  | par p => exact h
  | sub s =>
    unfold World.fireWk
    cases hm : w.mode with
    | direct => exact h
    | std =>
      simp only
      cases hb : w.bits s with
      | true => simpa using h
      | false =>
        simp only [Bool.false_eq_true, if_false]
        cases w.parent with
        | some p => exact nc_emit _ _ (nc_setReady w s h)
        | none => exact nc_emit _ _ (nc_setReady w s h)

theorem nc_fire (w : World) (c a : Nat) (h : NC w) : NC (w.fire c a) := by
  unfold World.fire
  split
  · exact h
  · exact nc_fireWk _ _ (nc_emit _ _ h)

theorem nc_fires (w : World) (l : List (Nat × Nat)) (h : NC w) : NC (w.fires l) := by
  induction l generalizing w with
  | nil => exact h
  | cons p l ih => rw [World.fires_cons]; exact ih _ (nc_fire w p.1 p.2 h)

theorem nc_pollChild (w : World) (c s : Nat) (h : NC w) : NC (w.pollChild c s) := by
  unfold World.pollChild
  exact nc_emit _ _ (nc_fires _ _ h)

/-- an armed input makes `any_ready` true -/
theorem anyReady_of_isSet (w : World) (a : Nat) (h : NC w) (ha : a < w.cap)
    (hs : w.isSet a = true) : w.anyReady = true := by
  cases hm : w.mode with
  | direct => simp [World.anyReady, hm]
  | std =>
    rw [World.isSet_std w a hm] at hs
    have hmem : a ∈ (List.range w.cap).filter (fun i => w.bits i) := by
      simp only [List.mem_filter, List.mem_range]; exact ⟨ha, hs⟩
    have hpos : 0 < ((List.range w.cap).filter (fun i => w.bits i)).length :=
      List.length_pos_of_mem hmem
    unfold NC nset at h
    simp only [World.anyReady, hm, decide_eq_true_eq]
    omega

theorem isSet_setReady_self (w : World) (i : Nat) : (w.setReady i).isSet i = true := by
  cases hm : w.mode with
  | direct => exact World.isSet_direct _ _ (by simp [hm])
  | std =>
    rw [World.isSet_std _ _ (by simp [hm]), World.setReady_bits_std w i hm]; simp

/-! ### the observations of the monitor across the segments the engine appends -/

/-- events none of `alwaysItem`, `srcs`, `holds_C17` looks at -/
def neutral : Ev → Bool
  | .childEnd _ _ | .pollEnd _ => false
  | _ => true

theorem alwaysItem_neutral (a : Nat) (e : Ev) (t : List Ev) (h : neutral e = true) :
    alwaysItem (e :: t) a = alwaysItem t a := by
  cases e <;> simp_all [neutral, alwaysItem]

theorem srcs_neutral (e : Ev) (t : List Ev) (h : neutral e = true) : srcs (e :: t) = srcs t := by
  cases e <;> simp_all [neutral, srcs]

theorem holds_neutral (n : Nat) (e : Ev) (t : List Ev) (h : neutral e = true) :
    holds_C17 n (e :: t) = holds_C17 n t := by
  cases e <;> simp_all [neutral, holds_C17]

theorem fire_neutral (e : Ev) (h : isFireEv e = true) : neutral e = true := by
  cases e <;> simp_all [isFireEv, neutral]

theorem own_neutral (e : Ev) (h : isOwnEv e = true) : neutral e = true := by
  cases e <;> simp_all [isOwnEv, neutral]

/-- the three observations, packaged: equal on two traces -/
structure Same (n : Nat) (t' t : List Ev) : Prop where
  ai : ∀ a, alwaysItem t' a = alwaysItem t a
  sr : srcs t' = srcs t
  mon : holds_C17 n t' = holds_C17 n t

theorem same_refl (n : Nat) (t : List Ev) : Same n t t := ⟨fun _ => rfl, rfl, rfl⟩

theorem same_trans {n : Nat} {t1 t2 t3 : List Ev} (h1 : Same n t1 t2) (h2 : Same n t2 t3) :
    Same n t1 t3 :=
  ⟨fun a => (h1.ai a).trans (h2.ai a), h1.sr.trans h2.sr, h1.mon.trans h2.mon⟩

theorem same_cons (n : Nat) (e : Ev) (t : List Ev) (h : neutral e = true) : Same n (e :: t) t :=
  ⟨fun a => alwaysItem_neutral a e t h, srcs_neutral e t h, holds_neutral n e t h⟩

theorem same_seg (n : Nat) (l t : List Ev) (hl : ∀ e ∈ l, neutral e = true) : Same n (l ++ t) t := by
  induction l with
  | nil => exact same_refl n t
  | cons e l ih =>
    rw [List.cons_append]
    exact same_trans (same_cons n e _ (hl e (List.mem_cons_self ..)))
      (ih (fun e' he' => hl e' (List.mem_cons_of_mem _ he')))

theorem same_fire (n : Nat) (w : World) (c a : Nat) : Same n (w.fire c a).trace w.trace := by
  obtain ⟨l, hl, hp⟩ := World.fire_seg w c a
  rw [hl]; exact same_seg n l _ (fun e he => fire_neutral e (hp e he))

theorem same_emits_own (n : Nat) (w : World) (l : List Ev) (hl : ∀ e ∈ l, isOwnEv e = true) :
    Same n (w.emits l).trace w.trace := by
  simp only [World.emits_trace]
  exact same_seg n _ _ (fun e he => own_neutral e (hl e (List.mem_reverse.mp he)))

/-- one child poll, as seen by the observations: only its `childEnd` counts -/
theorem alwaysItem_pollChild (w : World) (c s a : Nat) :
    alwaysItem (w.pollChild c s).trace a = alwaysItem (.childEnd c (w.resOf c) :: w.trace) a := by
  obtain ⟨l, hl, hp⟩ := World.pollChild_seg w c s
  rw [hl]
  simp only [alwaysItem]
  rw [(same_seg 0 l _ (fun e he => fire_neutral e (hp e he))).ai a]
  simp [alwaysItem]

theorem srcs_pollChild (w : World) (c s : Nat) :
    srcs (w.pollChild c s).trace = srcs (.childEnd c (w.resOf c) :: w.trace) := by
  obtain ⟨l, hl, hp⟩ := World.pollChild_seg w c s
  rw [hl]
  have h1 : srcs (l ++ .childBegin c s (w.wakerFor s) :: w.trace) = srcs w.trace := by
    rw [(same_seg 0 l _ (fun e he => fire_neutral e (hp e he))).sr]; simp [srcs]
  cases hr : w.resOf c <;> simp [srcs, h1]

theorem holds_pollChild (n : Nat) (w : World) (c s : Nat) :
    holds_C17 n (w.pollChild c s).trace = holds_C17 n w.trace := by
  obtain ⟨l, hl, hp⟩ := World.pollChild_seg w c s
  rw [hl]
  simp only [holds_C17]
  rw [(same_seg n l _ (fun e he => fire_neutral e (hp e he))).mon]
  simp [holds_C17]

/-! ### the invariants -/

/-- boundary invariant (between operations) -/
structure Bd (n : Nat) (e : Eng Fix) : Prop where
  hn : e.s.n = n
  cap : e.w.cap = n
  nc : NC e.w
  mon : holds_C17 n e.w.trace = true
  off : 0 < n → e.s.off < n
  fair : e.s.dead = true ∨ ∀ a, a < n → alwaysItem e.w.trace a = true →
    e.w.isSet a = true ∧ e.s.st a ≠ .none ∧
      miss a (srcs e.w.trace) + (a + n - e.s.off) % n ≤ n - 1

/-- loop invariant: `i₀` = the offset this poll's rotation started from; `b` = no slot has been
    visited yet in this poll -/
structure Lp (n i₀ : Nat) (b : Bool) (e : Eng Fix) : Prop where
  hn : e.s.n = n
  cap : e.w.cap = n
  nc : NC e.w
  mon : holds_C17 n e.w.trace = true
  hi₀ : i₀ < n
  off : e.s.off = (i₀ + 1) % n
  live : e.s.dead = false
  fair : ∀ a, a < n → alwaysItem e.w.trace a = true →
    e.w.isSet a = true ∧ e.s.st a ≠ .none ∧
      miss a (srcs e.w.trace) + (a + n - i₀) % n ≤ n - 1 ∧ (b = false → a ≠ i₀)

/-- when the loop is left with outcome `o` (before the `pollEnd` is logged) -/
structure Ex (n : Nat) (e : Eng Fix) (o : Outcome) : Prop where
  bd : Bd n e
  c17 : ∀ k vs, o = .some k vs → c17At n e.w.trace = true

theorem gateW_merge (e : Eng Fix) (i : Nat) : Eng.gateW merge e i = e.w.clearReady i := by
  simp [Eng.gateW, merge]

theorem handle_item (s : Fix) (i v : Nat) :
    merge.handle s i (.item v) = ⟨s, [], .arm i, some (.some 0 [v])⟩ := rfl
theorem handle_pend (s : Fix) (i : Nat) : merge.handle s i .pend = ⟨s, [], .nop, none⟩ := rfl
theorem handle_ready (s : Fix) (i : Nat) (ok : Bool) (v : Nat) :
    merge.handle s i (.ready ok v) = ⟨s, [], .nop, none⟩ := rfl
theorem handle_fin (s : Fix) (i : Nat) :
    merge.handle s i .fin =
      if s.cnt + 1 = s.n then
        ⟨{ s with st := upd s.st i .none, cnt := s.cnt + 1, dead := true }, [], .nop, some .none⟩
      else ⟨{ s with st := upd s.st i .none, cnt := s.cnt + 1 }, [], .nop, none⟩ := rfl

theorem clearReady_resOf (w : World) (i c : Nat) : (w.clearReady i).resOf c = w.resOf c := by
  simp [World.resOf, World.stepOf]

/-- polling child `i` in slot `i` after clearing its bit -/
theorem pc_facts (n : Nat) (w : World) (i : Nat) (hi : i < w.cap) (hnc : NC w) :
    NC ((w.clearReady i).pollChild i i) ∧
    ((w.clearReady i).pollChild i i).cap = w.cap ∧
    (∀ a, a ≠ i → w.isSet a = true → ((w.clearReady i).pollChild i i).isSet a = true) ∧
    (∀ a, alwaysItem ((w.clearReady i).pollChild i i).trace a
        = alwaysItem (.childEnd i (w.resOf i) :: w.trace) a) ∧
    srcs ((w.clearReady i).pollChild i i).trace = srcs (.childEnd i (w.resOf i) :: w.trace) ∧
    holds_C17 n ((w.clearReady i).pollChild i i).trace = holds_C17 n w.trace := by
  refine ⟨nc_pollChild _ _ _ (nc_clearReady _ _ hi hnc), by simp, ?_, ?_, ?_, ?_⟩
  · intro a hai h
    exact World.isSet_pollChild_mono _ _ _ _ (by rw [World.isSet_clearReady_other _ _ _ hai]; exact h)
  · intro a; rw [alwaysItem_pollChild, clearReady_resOf, World.clearReady_trace]
  · rw [srcs_pollChild, clearReady_resOf, World.clearReady_trace]
  · rw [holds_pollChild, World.clearReady_trace]

/-- one loop iteration -/
theorem lp_visit (n i₀ : Nat) (b : Bool) (e : Eng Fix) (i : Nat) (hi : i < n)
    (hb : b = true → i = i₀) (h : Lp n i₀ b e) :
    ((Eng.visit merge e i).2 = none → Lp n i₀ false (Eng.visit merge e i).1) ∧
    (∀ o, (Eng.visit merge e i).2 = some o → Ex n (Eng.visit merge e i).1 o) := by
  have hn0 : 0 < n := by omega
  have hicap : i < e.w.cap := by rw [h.cap]; exact hi
  have hofflt : e.s.off < n := by rw [h.off]; exact Nat.mod_lt _ hn0
  -- an always-item input other than the one being visited is not in slot i₀
  have hne0 : ∀ a, a < n → alwaysItem e.w.trace a = true → a ≠ i → a ≠ i₀ := by
    intro a ha hal hai
    cases b with
    | true => rw [← hb rfl]; exact hai
    | false => exact (h.fair a ha hal).2.2.2 rfl
  have hpc := pc_facts n e.w i hicap h.nc
  refine Eng.visit_ind merge e i
    (fun r => (r.2 = none → Lp n i₀ false r.1) ∧ (∀ o, r.2 = some o → Ex n r.1 o)) ?_ ?_ ?_ ?_
  · -- `!any_ready`: impossible while an always-item input is armed
    intro _ hany
    refine ⟨fun hn => by simp at hn, fun o ho => ?_⟩
    refine ⟨⟨h.hn, h.cap, h.nc, h.mon, fun _ => hofflt, Or.inr ?_⟩, ?_⟩
    · intro a ha hal
      have := anyReady_of_isSet e.w a h.nc (by rw [h.cap]; exact ha) (h.fair a ha hal).1
      rw [hany] at this; exact Bool.noConfusion this
    · intro k vs hk
      simp only [Option.some.injEq] at ho
      subst ho; simp at hk
  · -- slot skipped: it is not an always-item input
    intro _ hg
    refine ⟨fun _ => ?_, fun o ho => by simp at ho⟩
    rw [gateW_merge]
    refine ⟨h.hn, by simpa using h.cap, nc_clearReady _ _ hicap h.nc, by simpa using h.mon,
      h.hi₀, h.off, h.live, ?_⟩
    intro a ha hal
    simp only [World.clearReady_trace] at hal ⊢
    obtain ⟨h1, h2, h3, _⟩ := h.fair a ha hal
    have hai : a ≠ i := by
      intro hh; subst hh
      simp [Eng.gateGo, merge, h1, h2] at hg
    exact ⟨by rw [World.isSet_clearReady_other _ _ _ hai]; exact h1, h2, h3,
      fun _ => hne0 a ha hal hai⟩
  · -- the child panics: the merge is dead
    intro _ hg hp
    refine ⟨fun hn => by simp at hn, fun o ho => ?_⟩
    rw [gateW_merge]
    have hc : merge.child e.s i = i := rfl
    have hpe : merge.panicEvs e.s = [] := rfl
    rw [hc, hpe, World.emits_nil]
    refine ⟨⟨h.hn, ?_, hpc.1, ?_, fun _ => hofflt, Or.inl rfl⟩, ?_⟩
    · show ((e.w.clearReady i).pollChild i i).cap = n
      rw [hpc.2.1]; exact h.cap
    · show holds_C17 n ((e.w.clearReady i).pollChild i i).trace = true
      rw [hpc.2.2.2.2.2]; exact h.mon
    · intro k vs hk
      simp only [Option.some.injEq] at ho
      subst ho; simp at hk
  · -- the child answers
    intro _ hg hp
    rw [gateW_merge]
    have hc : merge.child e.s i = i := rfl
    rw [hc] at hp ⊢
    have hsti : e.s.st i ≠ .none := by
      simp [Eng.gateGo, merge] at hg; exact hg.1
    obtain ⟨pnc, pcap, pset, pai, psr, pmon⟩ := hpc
    generalize hr : e.w.resOf i = r at hp pai psr ⊢
    -- facts shared by the answers that are not items
    have hnoitem : (∀ v, r ≠ .item v) → ∀ (st' : Nat → PS), (∀ a, a ≠ i → st' a = e.s.st a) →
        ∀ a, a < n → alwaysItem ((e.w.clearReady i).pollChild i i).trace a = true →
        ((e.w.clearReady i).pollChild i i).isSet a = true ∧ st' a ≠ .none ∧
          miss a (srcs ((e.w.clearReady i).pollChild i i).trace) + (a + n - i₀) % n ≤ n - 1 ∧
          ((false : Bool) = false → a ≠ i₀) := by
      intro hni st' hst a ha hal
      rw [pai] at hal
      have hai : a ≠ i := by
        intro hh; subst hh
        cases r <;> simp_all [alwaysItem]
      have hal' : alwaysItem e.w.trace a = true := by
        cases r <;> simp_all [alwaysItem]
      obtain ⟨h1, h2, h3, _⟩ := h.fair a ha hal'
      have hs : srcs ((e.w.clearReady i).pollChild i i).trace = srcs e.w.trace := by
        rw [psr]; cases r <;> simp_all [srcs]
      exact ⟨pset a hai h1, by rw [hst a hai]; exact h2, by rw [hs]; exact h3,
        fun _ => hne0 a ha hal' hai⟩
    cases r with
    | panic => exact absurd rfl hp
    | pend =>
      rw [handle_pend]
      refine ⟨fun _ => ?_, fun o ho => by simp at ho⟩
      refine ⟨h.hn, ?_, ?_, ?_, h.hi₀, h.off, h.live, ?_⟩
      · simp only [Eng.applyH_w, World.emits_nil, World.kop]; rw [pcap]; exact h.cap
      · simpa only [Eng.applyH_w, World.emits_nil, World.kop] using pnc
      · simp only [Eng.applyH_w, World.emits_nil, World.kop]; rw [pmon]; exact h.mon
      · intro a ha hal
        have := hnoitem (by intro v; simp) e.s.st (fun _ _ => rfl) a ha hal
        exact ⟨this.1, this.2.1, this.2.2.1, fun _ => this.2.2.2 rfl⟩
    | ready ok v =>
      rw [handle_ready]
      refine ⟨fun _ => ?_, fun o ho => by simp at ho⟩
      refine ⟨h.hn, ?_, ?_, ?_, h.hi₀, h.off, h.live, ?_⟩
      · simp only [Eng.applyH_w, World.emits_nil, World.kop]; rw [pcap]; exact h.cap
      · simpa only [Eng.applyH_w, World.emits_nil, World.kop] using pnc
      · simp only [Eng.applyH_w, World.emits_nil, World.kop]; rw [pmon]; exact h.mon
      · intro a ha hal
        have := hnoitem (by intro v; simp) e.s.st (fun _ _ => rfl) a ha hal
        exact ⟨this.1, this.2.1, this.2.2.1, fun _ => this.2.2.2 rfl⟩
    | fin =>
      rw [handle_fin]
      by_cases hlast : e.s.cnt + 1 = e.s.n
      · -- the last input ended: the merge is done
        simp only [hlast, if_true]
        refine ⟨fun hn => by simp at hn, fun o ho => ?_⟩
        refine ⟨⟨h.hn, ?_, ?_, ?_, fun _ => hofflt, Or.inl rfl⟩, ?_⟩
        · simp only [Eng.applyH_w, World.emits_nil, World.kop]; rw [pcap]; exact h.cap
        · simpa only [Eng.applyH_w, World.emits_nil, World.kop] using pnc
        · simp only [Eng.applyH_w, World.emits_nil, World.kop]; rw [pmon]; exact h.mon
        · intro k vs hk
          simp only [Option.some.injEq] at ho
          subst ho; simp at hk
      · simp only [hlast, if_false]
        refine ⟨fun _ => ?_, fun o ho => by simp at ho⟩
        refine ⟨h.hn, ?_, ?_, ?_, h.hi₀, h.off, h.live, ?_⟩
        · simp only [Eng.applyH_w, World.emits_nil, World.kop]; rw [pcap]; exact h.cap
        · simpa only [Eng.applyH_w, World.emits_nil, World.kop] using pnc
        · simp only [Eng.applyH_w, World.emits_nil, World.kop]; rw [pmon]; exact h.mon
        · intro a ha hal
          have := hnoitem (by intro v; simp) (upd e.s.st i .none)
            (fun a hai => upd_other _ _ _ _ hai) a ha hal
          exact ⟨this.1, this.2.1, this.2.2.1, fun _ => this.2.2.2 rfl⟩
    | item v =>
      -- slot `i` wins this poll
      rw [handle_item]
      have hfair : ∀ a, a < n →
          alwaysItem (((e.w.clearReady i).pollChild i i).setReady i).trace a = true →
          (((e.w.clearReady i).pollChild i i).setReady i).isSet a = true ∧ e.s.st a ≠ .none ∧
            miss a (srcs (((e.w.clearReady i).pollChild i i).setReady i).trace)
              + (a + n - e.s.off) % n ≤ n - 1 := by
        intro a ha hal
        simp only [World.setReady_trace] at hal ⊢
        rw [psr]
        rw [pai] at hal
        by_cases hai : a = i
        · subst hai
          refine ⟨isSet_setReady_self _ _, hsti, ?_⟩
          have := Nat.mod_lt (a + n - e.s.off) hn0
          simp only [srcs, miss, if_true]
          omega
        · have hal' : alwaysItem e.w.trace a = true := by simp_all [alwaysItem]
          obtain ⟨h1, h2, h3, _⟩ := h.fair a ha hal'
          refine ⟨World.isSet_setReady_mono _ _ _ (pset a hai h1), h2, ?_⟩
          have hd := dist_bump n a i₀ ha h.hi₀ (hne0 a ha hal' hai)
          rw [h.off]
          have hia : ¬ i = a := fun hh => hai hh.symm
          simp only [srcs, miss, hia, if_false]
          omega
      refine ⟨fun hn => by simp at hn, fun o ho => ?_⟩
      refine ⟨⟨h.hn, ?_, ?_, ?_, fun _ => hofflt, Or.inr ?_⟩, ?_⟩
      · simp only [Eng.applyH_w, World.emits_nil, World.kop, World.setReady_cap]
        rw [pcap]; exact h.cap
      · simp only [Eng.applyH_w, World.emits_nil, World.kop]; exact nc_setReady _ _ pnc
      · simp only [Eng.applyH_w, World.emits_nil, World.kop, World.setReady_trace]
        rw [pmon]; exact h.mon
      · simp only [Eng.applyH_w, World.emits_nil, World.kop, Eng.applyH_s]
        exact hfair
      · intro k vs _
        simp only [Eng.applyH_w, World.emits_nil, World.kop]
        refine c17At_of_miss n _ (fun a ha hal => ?_)
        have := (hfair a ha hal).2.2
        omega

/-! ### the loop -/

/-- loop principle with membership in the scanned list and the outcome at the exit -/
theorem scan_mem (P : Policy Fix) (Qc : Eng Fix → Prop) (Qx : Eng Fix → Outcome → Prop) :
    ∀ (l : List Nat), (∀ e i, i ∈ l → Qc e →
      ((Eng.visit P e i).2 = none → Qc (Eng.visit P e i).1) ∧
      (∀ o, (Eng.visit P e i).2 = some o → Qx (Eng.visit P e i).1 o)) →
    ∀ e, Qc e → ((Eng.scan P l e).2 = none → Qc (Eng.scan P l e).1) ∧
      (∀ o, (Eng.scan P l e).2 = some o → Qx (Eng.scan P l e).1 o) := by
  intro l
  induction l with
  | nil => intro _ e h; exact ⟨fun _ => h, fun o ho => by simp [Eng.scan] at ho⟩
  | cons i rest ih =>
    intro hv e h
    unfold Eng.scan
    cases hvis : (Eng.visit P e i).2 with
    | some o =>
      simp only
      refine ⟨fun hn => by simp at hn, fun o' ho' => ?_⟩
      simp only [Option.some.injEq] at ho'
      subst ho'
      exact (hv e i (List.mem_cons_self ..) h).2 o hvis
    | none =>
      simp only
      exact ih (fun e' j hj => hv e' j (List.mem_cons_of_mem _ hj)) _
        ((hv e i (List.mem_cons_self ..) h).1 hvis)

/-- a whole scan that starts with slot `i₀` -/
theorem lp_scan (n i₀ : Nat) (tl : List Nat) (hl : ∀ i ∈ i₀ :: tl, i < n) (e : Eng Fix)
    (h : Lp n i₀ true e) :
    ((Eng.scan merge (i₀ :: tl) e).2 = none → Lp n i₀ false (Eng.scan merge (i₀ :: tl) e).1) ∧
    (∀ o, (Eng.scan merge (i₀ :: tl) e).2 = some o → Ex n (Eng.scan merge (i₀ :: tl) e).1 o) := by
  have hv := lp_visit n i₀ true e i₀ (hl i₀ (List.mem_cons_self ..)) (fun _ => rfl) h
  unfold Eng.scan
  cases hvis : (Eng.visit merge e i₀).2 with
  | some o =>
    simp only
    refine ⟨fun hn => by simp at hn, fun o' ho' => ?_⟩
    simp only [Option.some.injEq] at ho'
    subst ho'
    exact hv.2 o hvis
  | none =>
    simp only
    exact scan_mem merge (Lp n i₀ false) (Ex n) tl
      (fun e' j hj hq =>
        lp_visit n i₀ false e' j (hl j (List.mem_cons_of_mem _ hj)) (fun hb => Bool.noConfusion hb) hq)
      _ (hv.1 hvis)

theorem rot_cons (s : Fix) (h : 0 < s.n) : ∃ tl, s.rot = (s.off % s.n) :: tl := by
  have hr : List.range s.n = 0 :: (List.range (s.n - 1)).map Nat.succ := by
    have : s.n = (s.n - 1) + 1 := by omega
    rw [this, List.range_succ_eq_map]; simp
  unfold Fix.rot
  rw [hr, List.map_cons, Nat.zero_add]
  exact ⟨_, rfl⟩

/-! ### poll, fire, drop -/

theorem bd_pollEnd (n : Nat) (e : Eng Fix) (o : Outcome) (h : Ex n e o) :
    Bd n (e.emit (.pollEnd o)) := by
  refine ⟨h.bd.hn, h.bd.cap, h.bd.nc, ?_, h.bd.off, ?_⟩
  · show holds_C17 n (.pollEnd o :: e.w.trace) = true
    cases o with
    | some k vs => simp only [holds_C17, h.bd.mon, h.c17 k vs rfl, Bool.and_self]
    | _ => simp only [holds_C17, h.bd.mon]
  · rcases h.bd.fair with hd | hf
    · exact Or.inl hd
    · right
      intro a ha hal
      exact hf a ha hal

/-- the world changes without touching the observations, clearing no bit -/
theorem bd_world (n : Nat) (e : Eng Fix) (w' : World) (h : Bd n e)
    (hs : Same n w'.trace e.w.trace) (hcap : w'.cap = e.w.cap) (hnc : NC w')
    (hset : ∀ a, e.w.isSet a = true → w'.isSet a = true) : Bd n { e with w := w' } := by
  refine ⟨h.hn, by rw [← h.cap]; exact hcap, hnc, by show holds_C17 n w'.trace = true; rw [hs.mon]; exact h.mon,
    h.off, ?_⟩
  rcases h.fair with hd | hf
  · exact Or.inl hd
  · right
    intro a ha hal
    have hal' : alwaysItem e.w.trace a = true := by rw [← hs.ai a]; exact hal
    obtain ⟨h1, h2, h3⟩ := hf a ha hal'
    exact ⟨hset a h1, h2, by show miss a (srcs w'.trace) + _ ≤ _; rw [hs.sr]; exact h3⟩

theorem lp_bd (n i₀ : Nat) (e : Eng Fix) (h : Lp n i₀ false e) : Bd n e := by
  have hn0 : 0 < n := by have := h.hi₀; omega
  refine ⟨h.hn, h.cap, h.nc, h.mon, fun _ => by rw [h.off]; exact Nat.mod_lt _ hn0, Or.inr ?_⟩
  intro a ha hal
  obtain ⟨h1, h2, h3, h4⟩ := h.fair a ha hal
  refine ⟨h1, h2, ?_⟩
  rw [h.off]
  have := dist_bump n a i₀ ha h.hi₀ (h4 rfl)
  omega

theorem bd_close (n i₀ : Nat) (r : Eng Fix × Option Outcome)
    (h1 : r.2 = none → Lp n i₀ false r.1) (h2 : ∀ o, r.2 = some o → Ex n r.1 o) :
    Bd n (Eng.close merge r) := by
  unfold Eng.close
  split
  · rename_i o ho
    exact bd_pollEnd n _ _ (h2 o ho)
  · rename_i hn
    have hfin : r.1.applyH (merge.finish r.1.s) = r.1 := rfl
    have hex : (merge.finish r.1.s).exit.getD .pending = .pending := rfl
    rw [hfin, hex]
    exact bd_pollEnd n _ _ ⟨lp_bd n i₀ _ (h1 hn), fun k vs hk => by simp at hk⟩

theorem bd_body (n : Nat) (e : Eng Fix) (h : Bd n e) (hn0 : 0 < n) (hlive : e.s.dead = false) :
    Bd n (Eng.body merge e) := by
  unfold Eng.body
  have hpa : merge.preAny (merge.start e.s) = false := rfl
  have hord : merge.order e.s = e.s.rot := rfl
  have hst : merge.start e.s = e.s.bump := rfl
  rw [hpa, hord, hst]
  simp only [Bool.false_and, Bool.false_eq_true, if_false]
  obtain ⟨tl, htl⟩ := rot_cons e.s (by rw [h.hn]; exact hn0)
  have hoff := h.off hn0
  have hmod : e.s.off % e.s.n = e.s.off := Nat.mod_eq_of_lt (by rw [h.hn]; exact hoff)
  rw [hmod] at htl
  have hmem : ∀ i ∈ e.s.off :: tl, i < n := by
    intro i hi
    rw [← htl] at hi
    have := mem_rot_lt e.s i hi
    rw [h.hn] at this; exact this
  have hlp : Lp n e.s.off true { e with s := e.s.bump } := by
    refine ⟨h.hn, h.cap, h.nc, h.mon, hoff, by simp [Fix.bump, h.hn], hlive, ?_⟩
    rcases h.fair with hd | hf
    · rw [hlive] at hd; exact Bool.noConfusion hd
    · intro a ha hal
      obtain ⟨h1, h2, h3⟩ := hf a ha hal
      exact ⟨h1, h2, h3, fun hb => Bool.noConfusion hb⟩
  rw [htl]
  have hs := lp_scan n e.s.off tl hmem _ hlp
  exact bd_close n e.s.off _ hs.1 hs.2

theorem bd_emit (n : Nat) (e : Eng Fix) (ev : Ev) (hn : neutral ev = true) (h : Bd n e) :
    Bd n (e.emit ev) :=
  bd_world n e (e.w.emit ev) h (same_cons n ev _ hn) rfl (nc_emit _ _ h.nc) (fun _ ha => ha)

theorem bd_poll (n : Nat) (e : Eng Fix) (wid : Nat) (h : Bd n e) : Bd n (Eng.poll merge e wid) := by
  unfold Eng.poll
  split
  · rename_i o hp
    have hno : ∀ k vs, o ≠ .some k vs := by
      intro k vs hh
      subst hh
      simp only [merge, Fix.misuseIfDead] at hp
      split at hp
      · simp at hp
      · split at hp <;> simp at hp
    exact bd_pollEnd n _ _ ⟨bd_emit n e (.pollBegin wid) rfl h, fun k vs hk => absurd hk (hno k vs)⟩
  · rename_i hp
    have hp2 : e.s.n ≠ 0 ∧ e.s.dead = false := by
      simp only [merge, Fix.misuseIfDead] at hp
      split at hp
      · simp at hp
      · rename_i hn
        refine ⟨hn, ?_⟩
        cases hd : e.s.dead with
        | false => rfl
        | true => simp [hd] at hp
    refine bd_body n _ ?_ (by have := h.hn; omega) hp2.2
    exact bd_world n e _ h (same_cons n (.pollBegin wid) _ rfl) rfl
      (nc_setWaker _ _ (nc_emit _ _ h.nc)) (fun _ ha => ha)

theorem bd_fire (n : Nat) (e : Eng Fix) (c a : Nat) (h : Bd n e) : Bd n (e.fire c a) :=
  bd_world n e (e.w.fire c a) h (same_fire n e.w c a) (by simp) (nc_fire _ _ _ h.nc)
    (fun j hj => World.isSet_fire_mono _ _ _ _ hj)

theorem bd_drop (n : Nat) (e : Eng Fix) (h : Bd n e) : Bd n (Eng.drop merge e) := by
  unfold Eng.drop
  have hown : ∀ ev ∈ merge.dropEvs e.s, isOwnEv ev = true := by
    intro ev hev
    simp only [merge, List.mem_map] at hev
    obtain ⟨_, _, rfl⟩ := hev
    rfl
  refine ⟨h.hn, h.cap, nc_emit _ _ (nc_emits _ _ (nc_emit _ _ h.nc)), ?_, h.off, Or.inl rfl⟩
  show holds_C17 n (.dropEnd :: ((e.w.emit .dropBegin).emits (merge.dropEvs e.s)).trace) = true
  rw [holds_neutral n _ _ rfl, (same_emits_own n _ _ hown).mon]
  show holds_C17 n (.dropBegin :: e.w.trace) = true
  rw [holds_neutral n _ _ rfl]; exact h.mon

theorem bd_step (n : Nat) (e : Eng Fix) (op : Op) (h : Bd n e) : Bd n (FEng.step merge e op) := by
  cases op <;> simp only [FEng.step]
  · exact bd_poll n _ _ h
  · exact bd_fire n _ _ _ h
  · exact bd_drop n _ h
  all_goals exact h

theorem bd_run (n : Nat) (ops : List Op) (e : Eng Fix) (h : Bd n e) :
    Bd n (ops.foldl (FEng.step merge) e) := by
  induction ops generalizing e with
  | nil => exact h
  | cons op ops ih => exact ih _ (bd_step n e op h)

theorem bd_init (m : Mode) (n : Nat) (scripts : Nat → List Step) :
    Bd n (FEng.init .merge m n scripts) := by
  refine ⟨rfl, rfl, ?_, rfl, fun h => h, Or.inr ?_⟩
  · show nset (World.init _ n scripts) ≤ n
    simp only [nset, World.init]
    rw [filter_all_true]; exact Nat.le_refl _
  · intro a ha _
    refine ⟨?_, by simp [FEng.init, Fix.init], ?_⟩
    · cases m <;> simp [FEng.init, World.init, World.isSet, Fam.modeOf, Fam.passThrough, ha]
    · show miss a (srcs []) + (a + n - 0) % n ≤ n - 1
      simp only [srcs, miss, Nat.sub_zero, Nat.add_mod_right, Nat.mod_eq_of_lt ha]
      omega

end C17
end Fc
