/-
  FcLemmas/KTieRaceOkTMain.lean — `(A, B, …).race_ok()` (tuple): what the statement says about the returned combinator and
  environment (`Post`), and how it follows from the relation the loop maintains: for `Pending` / `Ready(Ok)` the returned
  combinator is the one the loop left (`rt_post_of_rel`); for the aggregate the code after the loop moves the stored errors
  out (`vec_assume_init` of a full row = the model's `outs`), resets the tables and sets `done` (`rt_post_done`).
-/
import FcLemmas.KTieRaceOkTModel

set_option linter.unusedSimpArgs false
set_option linter.unusedVariables false

namespace Fc
open Rs Src

namespace TieRaceOkT
open RaceOkT TieDirect TieLoop
open TieRaceOkA (rk_filter_full rk_abs_ready rk_count_set)

local macro "unroles" : tactic =>
  `(tactic| try simp only [RaceOk.roleKids, RaceOk.roleItems, RaceOk.roleStates, RaceOk.roleCount, RaceOk.roleDone,
      RaceOk.roleIndexer] at *)

/-- the conclusion of `poll_tie_statement` (`M` = the model after the poll), plus what the next poll needs again -/
def Post (N : Nat) (b M : Eng Fix) (g' : RaceOk) (env' : World) (ret : Ret) : Prop :=
  (ret = .pending → WfK N g') ∧
  (absK g' b).s.n = M.s.n ∧
  ((∀ v, ret ≠ .ready (.ok v)) → (absK g' b).s.cnt = M.s.cnt) ∧
  (absK g' b).s.off = M.s.off ∧
  (absK g' b).s.dead = M.s.dead ∧
  (∀ i, i < N → (absK g' b).s.st i = M.s.st i) ∧
  ((∀ es, ret ≠ .ready (.err es)) → (absK g' b).s.out = M.s.out) ∧
  ((∃ es, ret = .ready (.err es)) → ∀ i, (absK g' b).s.out i = none) ∧
  (M.s.dead = true ↔ ret ≠ .pending) ∧
  env'.scripts = M.w.scripts ∧
  env'.handed = M.w.handed ∧
  M.w.trace = .pollEnd (outcomeOfRaceOk ret) :: env'.trace ∧
  -- what the next call needs again
  (FutStepsF env' ∧ FutStepsF M.w ∧ g'.roleKids.len = N) ∧
  -- `completed` also counts the winner
  ((∃ v, ret = .ready (.ok v)) → (absK g' b).s.cnt = M.s.cnt + 1) ∧
  -- the aggregate leaves the combinator in the state `drop_failed_tie_statement` is about
  ((∃ es, ret = .ready (.err es)) → WfFailed N g')

/-- `Pending` / `Ready(Ok)`: the returned combinator is the one the loop left -/
theorem rt_post_of_rel {N : Nat} (b X : Eng Fix) (g' : RaceOk) (env' : World) (ret : Ret)
    (hw : X.w = env') (hn : X.s.n = N) (hkn : g'.roleKids.len = N)
    (hst : X.s.st = fun i => TiePS.abs (g'.roleStates.get i))
    (hout : X.s.out = g'.roleItems.get)
    (hcnt : (∀ v, ret ≠ .ready (.ok v)) → X.s.cnt = g'.roleCount)
    (hcnt' : (∃ v, ret = .ready (.ok v)) → X.s.cnt + 1 = g'.roleCount)
    (hoff : X.s.off = g'.roleIndexer.roleOffset) (hdn : X.s.dead = g'.roleDone)
    (hwf : ret = .pending → WfK N g') (hf : FutSteps env')
    (hno : ∀ es, ret ≠ .ready (.err es)) (hdead : X.s.dead = true ↔ ret ≠ .pending) :
    Post N b (X.emit (.pollEnd (outcomeOfRaceOk ret))) g' env' ret := by
  subst hw
  refine ⟨hwf, ?_, ?_, ?_, ?_, ?_, ?_, fun ⟨es, h⟩ => absurd h (hno es), hdead, rfl, rfl, rfl, ⟨hf, hf, hkn⟩, ?_,
    fun ⟨es, h⟩ => absurd h (hno es)⟩
  · simp only [absK, Eng.emit, hn, hkn]
  · intro h
    simp only [absK, Eng.emit, hcnt h]
  · simp only [absK, Eng.emit, hoff]
  · simp only [absK, Eng.emit, hdn]
  · intro i _
    simp only [absK, Eng.emit, hst]
  · intro _
    simp only [absK, Eng.emit, hout]
  · intro h
    simp only [absK, Eng.emit, ← hcnt' h]

/-- the aggregate: the code after the loop on a combinator whose `completed` counter reached `N` — every slot holds an
    error, `vec_assume_init` reads them in order (the model's `outs`), the tables are reset, `done` is set -/
theorem rt_post_done {N : Nat} (b X : Eng Fix) (g1 : RaceOk) (env' : World)
    (hw : X.w = env') (hn : X.s.n = N) (hout : X.s.out = g1.roleItems.get) (hcnt : X.s.cnt = g1.roleCount)
    (hoff : X.s.off = g1.roleIndexer.roleOffset)
    (hwf : WfK N g1) (hf : FutSteps env') (hz : g1.roleCount = N) :
    Rs.OutVec.assumeInit g1.roleItems = some X.s.outs ∧
    ∀ g' : RaceOk, g'.roleKids = g1.roleKids → g'.roleCount = g1.roleCount → g'.roleIndexer = g1.roleIndexer →
      g'.roleDone = true →
      g'.roleStates = Rs.PVec.replicate g1.roleStates.len PS.PollState.none_ → g'.roleItems = Rs.OutVec.uninit N →
      Post N b (({ w := X.w, s := { X.s with dead := true, st := fun _ => .none } } : Eng Fix).emit
        (.pollEnd (.ready false X.s.outs))) g' env' (.ready (.err X.s.outs)) := by
  subst hw
  obtain ⟨hkn, hsl, hic, hmx, hpos, hpc, hrs⟩ := hwf
  have hall := rk_filter_full _ N (by rw [← hpc]; exact hz)
  have hready : ∀ i, i < N → g1.roleStates.get i = PS.PollState.ready := by
    intro i hi
    simpa using hall i hi
  refine ⟨?_, ?_⟩
  · unfold Rs.OutVec.assumeInit
    rw [TieTryJoinV.tj_mapM_some]
    · simp only [Fix.outs, hn, hic, hout]
    · intro i hi
      have hi' : i < N := by rw [← hic]; exact List.mem_range.mp hi
      rcases hrs i hi' with ⟨h, _⟩ | ⟨_, h⟩
      · rw [hready i hi'] at h; cases h
      · exact h
  · intro g' e1 e2 e5 e6 e3 e4
    refine ⟨fun h => (by cases h), ?_, ?_, ?_, ?_, ?_, fun h => absurd rfl (h _), ?_, ?_, rfl, rfl, rfl,
      ⟨hf, hf, (congrArg Rs.Kids.len e1).trans hkn⟩, fun ⟨v, h⟩ => (by cases h),
      fun _ => ⟨(congrArg Rs.Kids.len e1).trans hkn, ?_, ?_, ?_⟩⟩
    · simp only [absK, Eng.emit, hn, e1, hkn]
    · intro _
      simp only [absK, Eng.emit, hcnt, e2]
    · simp only [absK, Eng.emit, hoff, e5]
    · simp only [absK, Eng.emit, e6]
    · intro i _
      simp only [absK, Eng.emit, e3, Rs.PVec.replicate, TiePS.abs]
    · intro _ i
      simp only [absK, e4, Rs.OutVec.uninit]
    · simp [Eng.emit]
    · rw [e3]; exact hsl
    · rw [e4]; rfl
    · intro i _; rw [e3]; rfl

end TieRaceOkT
end Fc
