/-
  FcLemmas/CoVal.lean — every trace the value-ownership acceptor accepts satisfies `holds_C02co`.
  Invariant: for every value, (occurrences among the live values) + (times dropped or returned)
  = (times created).
-/
import Fc.CoVal

namespace Fc
namespace Co

theorem takeAll_count : ∀ (vs l l' : List Nat), takeAll l vs = some l' →
    ∀ v, l'.count v + vs.count v = l.count v
  | [], l, l', h, v => by simp [takeAll] at h; subst h; simp
  | x :: vs, l, l', h, v => by
    simp only [takeAll] at h
    split at h
    · rename_i hx
      have ih := takeAll_count vs (l.erase x) l' h v
      by_cases hxv : x = v
      · subst hxv
        have hc : 0 < l.count x := List.count_pos_iff.mpr hx
        have := List.count_erase_self (a := x) (l := l)
        simp only [List.count_cons_self]
        omega
      · have hne : (x == v) = false := by simp [hxv]
        have := List.count_erase_of_ne (l := l) (a := v) (b := x) (by simpa using Ne.symm hxv)
        simp only [List.count_cons, hne]
        simp at *
        omega
    · exact absurd h (by simp)

def VInv (pre : List Nat) (t : List CoEv) (s : VSt) : Prop :=
  ∀ v, s.live.count v + goneV t v = createdV pre t v

theorem vinv_init (pre : List Nat) : VInv pre [] (vinit pre) := by
  intro v; simp [vinit, goneV, createdV]

theorem create_inv (pre : List Nat) (t : List CoEv) (s s' : VSt) (x : Nat) (h : VInv pre t s)
    (hc : create s x = some s') : ∀ v, s'.live.count v + goneV t v = createdV pre t v + (if x = v then 1 else 0) := by
  intro v
  unfold create at hc
  split at hc
  · exact absurd hc (by simp)
  · simp at hc; subst hc
    have := h v
    by_cases hx : x = v
    · subst hx; simp; omega
    · have hne : (x == v) = false := by simp [hx]
      simp [List.count_cons, hne, hx]; omega

theorem vstep_inv (pre : List Nat) (t : List CoEv) (s s' : VSt) (e : CoEv) (h : VInv pre t s)
    (hs : vstep pre s e = some s') : VInv pre (e :: t) s' := by
  cases e with
  | src r =>
    cases r with
    | item x =>
      simp only [vstep] at hs
      split at hs
      · rename_i hp
        simp at hs; subst hs
        intro v; simp [goneV, createdV, hp]; exact h v
      · rename_i hp
        intro v
        have := create_inv pre t s s' x h hs v
        simp [goneV, createdV, hp]; omega
    | pend => simp [vstep] at hs; subst hs; intro v; simp [goneV, createdV]; exact h v
    | ready ok x => simp [vstep] at hs; subst hs; intro v; simp [goneV, createdV]; exact h v
    | fin => simp [vstep] at hs; subst hs; intro v; simp [goneV, createdV]; exact h v
    | panic => simp [vstep] at hs; subst hs; intro v; simp [goneV, createdV]; exact h v
  | work k r =>
    cases r with
    | ready ok x =>
      cases ok with
      | false =>
        simp only [vstep] at hs
        intro v
        have := create_inv pre t s s' x h hs v
        simp [goneV, createdV]; omega
      | true => simp [vstep] at hs; subst hs; intro v; simp [goneV, createdV]; exact h v
    | pend => simp [vstep] at hs; subst hs; intro v; simp [goneV, createdV]; exact h v
    | item x => simp [vstep] at hs; subst hs; intro v; simp [goneV, createdV]; exact h v
    | fin => simp [vstep] at hs; subst hs; intro v; simp [goneV, createdV]; exact h v
    | panic => simp [vstep] at hs; subst hs; intro v; simp [goneV, createdV]; exact h v
  | valDrop x =>
    simp only [vstep] at hs
    split at hs
    · rename_i hx
      simp at hs; subst hs
      intro v
      have := h v
      by_cases hxv : x = v
      · subst hxv
        have hc : 0 < s.live.count x := List.count_pos_iff.mpr hx
        have := List.count_erase_self (a := x) (l := s.live)
        simp [goneV, createdV]; omega
      · have := List.count_erase_of_ne (l := s.live) (a := v) (b := x) (by simpa using Ne.symm hxv)
        simp [goneV, createdV, hxv]; omega
    · exact absurd hs (by simp)
  | topEnd o =>
    simp only [vstep, Option.map_eq_some_iff] at hs
    obtain ⟨l, hl, hs⟩ := hs
    subst hs
    intro v
    have := takeAll_count (retVals o) s.live l hl v
    have := h v
    simp [goneV, createdV]; omega
  | dropEnd =>
    simp only [vstep] at hs
    split at hs
    · simp at hs; subst hs; intro v; simp [goneV, createdV]; exact h v
    · exact absurd hs (by simp)
  | topBegin => simp [vstep] at hs; subst hs; intro v; simp [goneV, createdV]; exact h v
  | call a b c d => simp [vstep] at hs; subst hs; intro v; simp [goneV, createdV]; exact h v
  | workDrop k => simp [vstep] at hs; subst hs; intro v; simp [goneV, createdV]; exact h v
  | srcDrop => simp [vstep] at hs; subst hs; intro v; simp [goneV, createdV]; exact h v
  | dropBegin => simp [vstep] at hs; subst hs; intro v; simp [goneV, createdV]; exact h v

theorem vrun_inv (pre : List Nat) : ∀ (t : List CoEv) (s : VSt), vrun pre t = some s → VInv pre t s
  | [], s, h => by simp [vrun] at h; subst h; exact vinv_init pre
  | e :: t, s, h => by
    simp only [vrun] at h
    split at h
    · rename_i s0 h0
      exact vstep_inv pre t s0 s e (vrun_inv pre t s0 h0) h
    · exact absurd h (by simp)

theorem vaccepts_holds (pre : List Nat) : ∀ (t : List CoEv), vaccepts pre t = true → holds_C02co pre t = true
  | [], _ => rfl
  | e :: t, h => by
    have hrun : ∃ s, vrun pre (e :: t) = some s := by
      simpa [vaccepts, Option.isSome_iff_exists] using h
    obtain ⟨s', hs'⟩ := hrun
    simp only [vrun] at hs'
    split at hs'
    · rename_i s0 h0
      have hprev : vaccepts pre t = true := by simp [vaccepts, h0]
      have ih := vaccepts_holds pre t hprev
      have hinv := vrun_inv pre t s0 h0
      cases e with
      | valDrop x =>
        simp only [vstep] at hs'
        split at hs'
        · rename_i hx
          have hc : 0 < s0.live.count x := List.count_pos_iff.mpr hx
          have := hinv x
          simp [holds_C02co, ih]; omega
        · exact absurd hs' (by simp)
      | topEnd o =>
        simp only [vstep, Option.map_eq_some_iff] at hs'
        obtain ⟨l, hl, _⟩ := hs'
        simp only [holds_C02co, ih, Bool.true_and, List.all_eq_true, decide_eq_true_eq]
        intro v _
        have := takeAll_count (retVals o) s0.live l hl v
        have := hinv v
        simp [goneV]; omega
      | dropEnd =>
        simp only [vstep] at hs'
        split at hs'
        · rename_i hem
          simp only [holds_C02co, ih, Bool.true_and, List.all_eq_true, beq_iff_eq]
          intro v _
          have := hinv v
          have hnil : s0.live = [] := by simpa using hem
          simp [hnil] at this
          exact this
        · exact absurd hs' (by simp)
      | src r => simpa [holds_C02co] using ih
      | work k r => simpa [holds_C02co] using ih
      | topBegin => simpa [holds_C02co] using ih
      | call a b c d => simpa [holds_C02co] using ih
      | workDrop k => simpa [holds_C02co] using ih
      | srcDrop => simpa [holds_C02co] using ih
      | dropBegin => simpa [holds_C02co] using ih
    · exact absurd hs' (by simp)

end Co
end Fc
