/-
  FcLemmas/KTieZipADMain.lean — array zip (`[S; N]::zip()`), no_std / alloc-only flavour (FcGen/KSrcArr4D.lean), ported
  from FcLemmas/KTieZipAMain.lean: the translated `Zip::poll_next` refines `Eng.poll zip` on a world in `direct` mode.
  The loop body is taken from the generated definition by unification (`refine zad_loop_bind …`); the proofs use the
  role abbreviations only (`unroles`).  Against the std proof the cases "nothing is ready" and "the flag of the slot is
  clear" are gone (`any_ready` and `clear_ready` answer `true`), and a child's poll leaves the readiness set alone.
-/
import FcLemmas.KTieZipADLoop
import FcLemmas.KTieSteps

set_option linter.unusedSimpArgs false
set_option linter.unusedVariables false

namespace Fc
open Rs Src

namespace TieZipAD
open ZipAD

local macro "unroles" : tactic =>
  `(tactic| try simp only [Zip.roleKids, Zip.roleItems, Zip.roleWakers, Zip.roleStates,
      Zip.roleDone] at *)

/-- re-establishing `zad_Rel` after a step that leaves the children and the table sizes alone -/
theorem zad_Rel.update {n k o : Nat} {b0 : World} {e : Eng Fix} {g : Zip} {env : World} (hR : zad_Rel n k o b0 e g env)
    (e' : Eng Fix) (g' : Zip) (env' : World)
    (hw : e'.w = TieDir.absA g'.roleWakers.readiness env')
    (hn : e'.s.n = e.s.n) (hk : g'.roleKids = g.roleKids)
    (hst : e'.s.st = fun i => TiePS.abs (g'.roleStates.get i))
    (hout : e'.s.out = g'.roleItems.get)
    (hcnt : e'.s.cnt = e.s.cnt) (hoff : e'.s.off = e.s.off)
    (hdead : e'.s.dead = g'.roleDone)
    (hsl : g'.roleStates.len = g.roleStates.len)
    (hic : g'.roleItems.cap = n)
    (hpar : g'.roleWakers.readiness.roleParent ≠ none)
    (hin : HandedIn n env') (hfr : zad_Frame env' b0) (hsok : StreamStepsF env')
    (hrs : ∀ i, i < n → ((g'.roleStates.get i = PS.PollState.pending ∧ g'.roleItems.get i = none) ∨
        (g'.roleStates.get i = PS.PollState.ready ∧ ∃ v, g'.roleItems.get i = some v))) :
    zad_Rel n k o b0 e' g' env' where
  ew := hw
  en := by rw [hn, hR.en]
  kids := by rw [hk, hR.kids]
  st := hst
  out := hout
  cnt := by rw [hcnt, hR.cnt]
  off := by rw [hoff, hR.off]
  dead := hdead
  sl := by rw [hsl, hR.sl]
  ic := hic
  par := hpar
  hin := hin
  fr := hfr
  sok := hsok
  rs := hrs

/-- what `zad_Rel` at the end of the scan says about the model state after the closing `pollEnd` -/
theorem zad_post_of_rel {n : Nat} {X : Eng Fix} {g' : Zip} {env' : World} {b : Eng Fix}
    (hR : zad_Rel n b.s.cnt b.s.off b.w X g' env') (o : Outcome) :
    jcore (absZ g' b) = jcore (X.emit (.pollEnd o)) ∧ env'.scripts = (X.emit (.pollEnd o)).w.scripts ∧
      env'.handed = (X.emit (.pollEnd o)).w.handed ∧ (X.emit (.pollEnd o)).w.trace = .pollEnd o :: env'.trace := by
  obtain ⟨hw, hen, hk, hst, hout, hcnt, hoff, hdead, hsl, hic, hpar, hhin, hfr, hsok, hrs⟩ := hR
  refine ⟨?_, ?_, ?_, ?_⟩
  · obtain ⟨f1, f2, f3⟩ := hfr
    simp only [jcore, fcore, absZ, Eng.emit, World.emit, hw, hen, hk, hst, hout, hcnt, hoff, hdead, TieDir.absA,
      f1, f2, f3]
  · simp only [Eng.emit, World.emit, hw]; rfl
  · simp only [Eng.emit, World.emit, hw]; rfl
  · simp only [Eng.emit, World.emit, hw]; rfl

theorem zad_wfz_of_rel {n k o : Nat} {b0 : World} {X : Eng Fix} {g' : Zip} {env' : World} (hR : zad_Rel n k o b0 X g' env') (hn : 0 < n) :
    WfZ n g' := by
  obtain ⟨hw, hen, hk, hst, hout, hcnt, hoff, hdead, hsl, hic, hpar, hhin, hfr, hsok, hrs⟩ := hR
  exact ⟨hk, hsl, hic, hn, hrs⟩

/-- the refinement, together with the facts about the environment that the next poll needs again -/
theorem zad_poll_tie_core (N : Nat) (g : Zip) (b : Eng Fix) (w : Nat) (hW : WfZ N g) (hS : StreamStepsF b.w)
    (hH : HandedIn N b.w) (hd : g.roleDone = false) :
    ∃ g' env' ret,
      Zip.poll_next N g w ((absZ g b).w.emit (.pollBegin w)) = some (g', env', ret) ∧
      WfZ N g' ∧
      (jcore (absZ g' b) = jcore (Eng.poll zip (absZ g b) w) ∧
       env'.scripts = (Eng.poll zip (absZ g b) w).w.scripts ∧
       env'.handed = (Eng.poll zip (absZ g b) w).w.handed ∧
       (Eng.poll zip (absZ g b) w).w.trace = .pollEnd (outcomeOfZip ret) :: env'.trace) ∧
      g'.roleKids.len = N ∧ HandedIn N env' ∧ StreamStepsF env' := by
  obtain ⟨hkn, hsl, hic, hpos, hrs⟩ := hW
  subst hkn
  suffices h : ∃ g' env' ret, Zip.poll_next g.roleKids.len g w ((absZ g b).w.emit (.pollBegin w)) = some (g', env', ret) ∧
      ∃ X, zad_Rel g.roleKids.len b.s.cnt b.s.off b.w X g' env' ∧
        Eng.poll zip (absZ g b) w = X.emit (.pollEnd (outcomeOfZip ret)) by
    obtain ⟨g', env', ret, h1, X, hR, hp⟩ := h
    refine ⟨g', env', ret, h1, zad_wfz_of_rel hR hpos, ?_, hR.kids, hR.hin, hR.sok⟩
    rw [hp]; exact zad_post_of_rel hR _
  have hpoll := TieZipV.zp_poll_unfold (absZ g b) w hd
  obtain ⟨-, -, -, -, -, -, -, -, ⟨r1, hs1, hs3⟩, -⟩ := TieDir.arr_tie g.roleKids.len g.roleWakers.readiness
    ((absZ g b).w.emit (.pollBegin w)) 0 w
  have hparent : r1.roleParent ≠ none := by
    have := congrArg World.parent hs3
    simp at this
    rw [this]; simp [World.setWaker]
  have hl : ∀ i ∈ List.range g.roleKids.len, i < g.roleKids.len := fun i hi => List.mem_range.mp hi
  unfold Zip.poll_next
  unroles
  simp only [hd, hs1, Bool.not_false, Option.bind_eq_bind, Option.bind_some, Option.pure_def, ↓reduceIte]
  refine zad_loop_bind g.roleKids.len b.s.cnt b.s.off b.w _ ?hF _
    { w := ((absZ g b).w.emit (.pollBegin w)).setWaker w, s := (absZ g b).s } _ _ ?hR hl _ _ ?hK
  case hF =>
    clear hs1 hs3 hsl hic hpos hrs hH hS hd hpoll hl hparent
    generalize g.roleKids.len = n at *
    generalize b.s.cnt = k at *
    generalize b.s.off = o at *
    generalize b.w = b0 at *
    clear g
    intro e g env i hR hi
    dsimp only
    have hR0 := hR
    obtain ⟨hw, hen, hk, hst, hout, hcnt, hoff, hdead, hsl, hic, hpar, hhin, hfr, hsok, hrs⟩ := hR
    obtain ⟨-, hc1, -, -, -, ha1, -, ha, -, hpw⟩ := TieDir.arr_tie n g.roleWakers.readiness env i 0
    simp only [zad_abs_isSet, zad_abs_anyReady, zad_abs_parent] at hc1 ha hpw
    obtain ⟨p, hp⟩ := Option.ne_none_iff_exists'.mp hpar
    have hget : WakerArrayD.get n g.roleWakers i = some (.par p) := by
      simp [WakerArrayD.get, hpw, hp]
    have hidx : Rs.PVec.idx g.roleStates i = some (g.roleStates.get i) := by
      simp [Rs.PVec.idx, hsl, hi]
    have hisr := (TiePS.tie (g.roleStates.get i)).2.2.1
    have hkid : Rs.Kids.get g.roleKids i = some i := by simp [Rs.Kids.get, hk, hi]
    obtain ⟨env3, hp1, hp4, hp5, hp6, hp7⟩ := zad_pollChild_tieM n g.roleWakers.readiness env i p hp hhin
    have hsok3 := hsok.tail i hp6
    try simp only [zad_wakeD] at hp1
    have hany' : e.w.anyReady = true := by rw [hw]; rfl
    by_cases hsr : TiePS.abs (g.roleStates.get i) = .ready
    · -- the slot already buffers an item
      have hv := TieZipV.zp_visit_ready e i hany' (by rw [hst]; exact hsr)
      unroles
      simp only [ha, hidx, hisr, hsr, decide_true, Option.bind_some, Bool.not_false, Bool.not_true,
        Bool.false_eq_true, ↓reduceIte]
      refine ⟨_, _, _, rfl, ?_, Or.inl ⟨rfl, ?_⟩⟩
      · rw [hv]; exact hR0
      · rw [hv]
    · -- the child is polled
      have hsr' : e.s.st i ≠ .ready := by rw [hst]; exact hsr
      have hset' : e.w.isSet i = true := by rw [hw]; rfl
      have hres' : e.w.resOf i = env.resOf i := by rw [hw]; rfl
      unroles
      simp only [ha, hidx, hisr, hsr, hc1, decide_false, Option.bind_some, Bool.not_false, Bool.not_true,
        Bool.false_eq_true, ↓reduceIte, hget, hkid, Rs.expect, Rs.pollStream, hp1]
      rcases hsok.resOf i with hres | hres | ⟨v, hres⟩
      · -- Pending
        have hv := TieZipV.zp_visit_pend e i hany' hsr' hset' (by rw [hres', hres])
        simp only [hres, Option.bind_some]
        refine ⟨_, _, _, rfl, ?_, Or.inl ⟨rfl, ?_⟩⟩
        · rw [hv]
          refine hR0.update _ _ _ ?_ rfl rfl hst hout rfl rfl hdead rfl hic hpar hp5 (hp7.trans hfr) hsok3 hrs
          unroles
          rw [hp4, hw]; rfl
        · rw [hv]
      · -- the stream ended
        have hv := TieZipV.zp_visit_fin e i hany' hsr' hset' (by rw [hres', hres])
        simp only [hres, Option.bind_some]
        refine ⟨_, _, _, rfl, ?_, Or.inr ⟨_, rfl, ?_⟩⟩
        · rw [hv]
          refine hR0.update _ _ _ ?_ rfl rfl hst hout rfl rfl rfl rfl hic hpar hp5 (hp7.trans hfr) hsok3 hrs
          unroles
          rw [hp4, hw]; rfl
        · rw [hv]; rfl
      · -- an item
        obtain ⟨q, hq1, hq2⟩ := (TiePS.tie (g.roleStates.get i)).2.2.2.2.2
        have hwr : Rs.OutVec.write g.roleItems i v
            = some ⟨g.roleItems.cap, fun j => if j = i then some v else g.roleItems.get j⟩ := by
          simp [Rs.OutVec.write, hic, hi]
        have hset2 : Rs.PVec.set g.roleStates i q
            = some ⟨g.roleStates.len, fun j => if j = i then q else g.roleStates.get j⟩ := by
          simp [Rs.PVec.set, hsl, hi]
        have hisrf : (fun s => PS.PollState.is_ready s) = fun s => some (decide (TiePS.abs s = .ready)) := by
          funext s; exact (TiePS.tie s).2.2.1
        have hall : Rs.PVec.allOf (⟨g.roleStates.len, fun j => if j = i then q else g.roleStates.get j⟩ :
              Rs.PVec PS.PollState) (fun s => PS.PollState.is_ready s)
            = some (({ e.s with st := upd e.s.st i .ready } : Fix).allReady) := by
          rw [hisrf, TieZipV.zp_allOf]
          simp only [Fix.allReady, hen, hsl, hst]
          congr 1
          apply List.all_congr rfl
          intro j
          by_cases hj : j = i <;> simp [upd, hj, hq2]
        unroles
        simp only [hres, Option.bind_some, hwr, hidx, hq1, hset2, hall]
        cases hB : ({ e.s with st := upd e.s.st i .ready } : Fix).allReady
        · -- the row is not complete yet
          have hv := TieZipV.zp_visit_item_more e i v hany' hsr' hset' (by rw [hres', hres]) hB
          simp only [Bool.false_eq_true, ↓reduceIte]
          refine ⟨_, _, _, rfl, ?_, Or.inl ⟨rfl, ?_⟩⟩
          · rw [hv]
            refine hR0.update _ _ _ ?_ rfl rfl ?_ ?_ rfl rfl hdead rfl hic hpar hp5 (hp7.trans hfr) hsok3 ?_
            · unroles
              rw [hp4, hw]; rfl
            · unroles
              funext j
              by_cases hj : j = i <;> simp [upd, hj, hq2, hst]
            · unroles
              funext j
              by_cases hj : j = i <;> simp [upd, hj, hout]
            · intro j hj
              unroles
              by_cases hji : j = i
              · subst hji
                right
                refine ⟨?_, v, by simp⟩
                cases q <;> simp [TiePS.abs] at hq2 ⊢
              · simp only [hji, ↓reduceIte]
                exact hrs j hj
          · rw [hv]
        · -- the row is complete: hand it out, re-arm every slot
          have hv := TieZipV.zp_visit_item_all e i v hany' hsr' hset' (by rw [hres', hres]) hB
          have hfull : ∀ j, j < g.roleItems.cap →
              ∃ v', (if j = i then some v else g.roleItems.get j) = some v' := by
            intro j hj
            by_cases hji : j = i
            · exact ⟨v, by simp [hji]⟩
            · simp only [hji, ↓reduceIte]
              have hj' : j < n := by rw [← hic]; exact hj
              have hBj := (List.all_eq_true.mp hB) j (List.mem_range.mpr (by rw [hen]; exact hj'))
              simp [upd, hji, hst] at hBj
              rcases hrs j hj' with ⟨h1, _⟩ | ⟨_, h2⟩
              · rw [h1] at hBj; simp [TiePS.abs] at hBj
              · exact h2
          have hai := TieZipV.zp_assumeInit
            ⟨g.roleItems.cap, fun j => if j = i then some v else g.roleItems.get j⟩ hfull
          unroles
          simp only [ha1, hai, Option.bind_some, ↓reduceIte]
          refine ⟨_, _, _, rfl, ?_, Or.inr ⟨_, rfl, ?_⟩⟩
          · rw [hv]
            refine hR0.update _ _ _ ?_ rfl rfl rfl rfl rfl rfl hdead rfl rfl hpar hp5 (hp7.trans hfr) hsok3 ?_
            · unroles
              rw [hw, zad_abs_clearReady, ← hp4, zad_abs_setAllReady]
            · intro j hj
              exact Or.inl ⟨rfl, rfl⟩
          · rw [hv]
            simp only [outcomeOfZip, Fix.outs, hen, hic, hout]
            rfl
  case hR =>
    refine ⟨?_, rfl, rfl, rfl, rfl, rfl, rfl, hd, hsl, hic, hparent, ?_, zad_Frame.refl _, hS, hrs⟩
    · unroles
      rw [hs3]; rfl
    · intro c i hm; exact hH c i hm
  case hK =>
    intro g' env' r hR' hcase
    rcases hcase with ⟨rfl, hx⟩ | ⟨v, rfl, hx⟩
    · refine ⟨_, _, _, rfl, _, hR', ?_⟩
      rw [hpoll]
      exact TieZipV.zp_close_none _ hx
    · refine ⟨_, _, _, rfl, _, hR', ?_⟩
      rw [hpoll]
      exact TieZipV.zp_close_some _ _ hx

theorem zad_poll_tie_main : poll_tie_statement := by
  intro N g b w hW hS hH hd
  obtain ⟨g', env', ret, h1, h2, ⟨h3, h4, h5, h6⟩, _⟩ := zad_poll_tie_core N g b w hW hS hH hd
  exact ⟨g', env', ret, h1, fun _ => h2, h3, h4, h5, h6⟩

end TieZipAD
end Fc
