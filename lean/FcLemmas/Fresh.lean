/-
  FcLemmas/Fresh.lean — every future / stream handed to a group is a new object: the child ids
  given to `Op.insert` / `Op.extend` of a history are pairwise distinct.
-/
import Fc.Case

namespace Fc

/-- the member ids an operation inserts -/
def insertedIds : Op → List Nat
  | .insert c => [c]
  | .extend cs => cs
  | _ => []

/-- no child id is inserted twice in the history -/
def Case.insertsFresh (c : Case) : Prop := (c.ops.flatMap insertedIds).Nodup

instance (c : Case) : Decidable c.insertsFresh := by
  unfold Case.insertsFresh; infer_instance

end Fc
