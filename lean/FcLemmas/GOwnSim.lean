/-
  FcLemmas/GOwnSim.lean — the boundary / loop invariants of the group model for C02 and C03 and
  their `SimL` instance (poll / fire / drop).

  `GI F s t` (between operations):
    * the C03 monitor accepted `t`, no poll is open, no final result was seen;
    * `F c → keyOf t c = none`: the ids in `F` (those the rest of the history will insert) are new;
    * before the first drop (`nd t = 0`): `Pre` — the group is alive in the trace, the structural
      invariant `StrA` holds against the trace's observations, the removal queue is empty unless
      the group is dead (a panic leaves it unflushed), values are accounted for;
    * after it (`nd t ≠ 0`): the state is dead; at `nd t = 1` the C02 monitor's demands (`Post`).
  `GJ str F s t l` (inside a poll): the same before the drop, with an arbitrary removal queue for a
  StreamGroup (`str = true`) and an empty one for a FutureGroup.
-/
import FcLemmas.GOwn
set_option linter.unusedSimpArgs false
set_option linter.unusedVariables false

namespace Fc
namespace GOwn
open Mon Grp

/-- every produced value was returned or released -/
def Acc (t : List Ev) : Prop :=
  ∀ v, (returnedVals t).count v + (droppedVals t).count v = (producedVals t).count v

/-- `StrA` against the observations of trace `t` -/
abbrev Obs (s : Grp) (t : List Ev) : Prop := StrA s (keyOf t) (dcnt t) (finished t)

structure Pre (s : Grp) (t : List Ev) : Prop where
  al : alive t = true
  sa : Obs s t
  q : s.dead = false → s.queue = []
  acc : Acc t

structure Post (t : List Ev) : Prop where
  quiet : quietAfterDrop t = true
  dc : ∀ c, dcnt t c = if (keyOf t c).isSome then 1 else 0
  acc : Acc t

/-- the part of the boundary invariant that does not mention `inPoll` -/
structure GC (F : Nat → Prop) (s : Grp) (t : List Ev) : Prop where
  c03 : holds_C03 true t = true
  fs : finalSeen true t = false
  fresh : ∀ c, F c → keyOf t c = none
  pre : C02b.nd t = 0 → Pre s t
  dd : C02b.nd t ≠ 0 → s.dead = true
  post : C02b.nd t = 1 → Post t

def GI (F : Nat → Prop) (s : Grp) (t : List Ev) : Prop := inPoll t = false ∧ GC F s t

structure GJ (str : Bool) (F : Nat → Prop) (s : Grp) (t : List Ev) (l : List Nat) : Prop where
  c03 : holds_C03 true t = true
  ip : inPoll t = true
  fs : finalSeen true t = false
  fresh : ∀ c, F c → keyOf t c = none
  nd0 : C02b.nd t = 0
  al : alive t = true
  live : s.dead = false
  sa : Obs s t
  q : str = false → s.queue = []
  acc : Acc t

/-- what a child of a FutureGroup (`str = false`) / StreamGroup (`str = true`) can answer -/
def KG (str : Bool) : Nat → Res → Prop := fun _ r => r.fits str = true

/-! ### quiet events -/

theorem Acc.quiet {t : List Ev} (h : Acc t) (e : Ev) (hq : quietEv e = true) (hr : evRet e = []) :
    Acc (e :: t) := by
  intro v
  rw [ret_quiet e t hq, hr, dv_quiet e t hq, prod_quiet e t hq]
  exact h v

theorem Obs.quiet {s : Grp} {t : List Ev} (h : Obs s t) (e : Ev) (hq : quietEv e = true) :
    Obs s (e :: t) :=
  h.same rfl rfl rfl rfl rfl rfl rfl (fun x => keyOf_quiet e t hq x) (fun x => dcnt_quiet e t hq x)
    (fun x hx => by rw [finished_quiet e t hq]; exact hx)

theorem Pre.step {s : Grp} {t : List Ev} (h : Pre s t) (e : Ev) (hq : quietEv e = true)
    (ha : Acc (e :: t)) : Pre s (e :: t) :=
  ⟨by rw [alive_quiet e t hq]; exact h.al, h.sa.quiet e hq, h.q, ha⟩

theorem Post.step {t : List Ev} (h : Post t) (e : Ev) (hq : quietEv e = true) (hr : evRet e = []) :
    Post (e :: t) :=
  ⟨by rw [qad_quiet e t hq]; exact h.quiet,
   fun c => by rw [dcnt_quiet e t hq, keyOf_quiet e t hq]; exact h.dc c, h.acc.quiet e hq hr⟩

/-- the group's bookkeeping outside the slab / key set / queue / poll states -/
theorem Pre.same {s s' : Grp} {t : List Ev} (h : Pre s t) (hm : s'.member = s.member)
    (hv : s'.vac = s.vac) (he : s'.entries = s.entries) (hn : s'.next = s.next) (hst : s'.st = s.st)
    (hkeys : s'.keys = s.keys) (hq : s'.queue = s.queue) (hd : s'.dead = false → s.dead = false) :
    Pre s' t :=
  ⟨h.al, h.sa.same hm hv he hn hst hkeys hq (fun _ => rfl) (fun _ => rfl) (fun _ hx => hx),
   fun hd' => by rw [hq]; exact h.q (hd hd'), h.acc⟩

theorem GC.quiet {F : Nat → Prop} {s : Grp} {t : List Ev} (h : GC F s t) (e : Ev)
    (hq : quietEv e = true) (hr : evRet e = []) : GC F s (e :: t) := by
  have hnd := nd_quiet e t hq
  exact ⟨by rw [c03_quiet e t hq]; exact h.c03, by rw [fs_quiet e t hq]; exact h.fs,
    fun c hc => by rw [keyOf_quiet e t hq]; exact h.fresh c hc,
    fun h0 => (h.pre (hnd ▸ h0)).step e hq ((h.pre (hnd ▸ h0)).acc.quiet e hq hr),
    fun h0 => h.dd (hnd ▸ h0), fun h1 => (h.post (hnd ▸ h1)).step e hq hr⟩

/-- a boundary state before the drop -/
theorem GC.ofPre {F : Nat → Prop} {s : Grp} {t : List Ev} (c03 : holds_C03 true t = true)
    (fs : finalSeen true t = false) (fresh : ∀ c, F c → keyOf t c = none) (nd0 : C02b.nd t = 0)
    (p : Pre s t) : GC F s t :=
  ⟨c03, fs, fresh, fun _ => p, fun h => absurd nd0 h, fun h => by rw [nd0] at h; cases h⟩

/-- a state that is not dead has not been dropped -/
theorem GC.nd0 {F : Nat → Prop} {s : Grp} {t : List Ev} (h : GC F s t) (hd : s.dead = false) :
    C02b.nd t = 0 := by
  cases hn : C02b.nd t with
  | zero => rfl
  | succ k => have := h.dd (by omega); rw [hd] at this; cases this

theorem GC.weaken {F F' : Nat → Prop} {s : Grp} {t : List Ev} (h : GC F s t)
    (hF : ∀ c, F' c → F c) : GC F' s t :=
  ⟨h.c03, h.fs, fun c hc => h.fresh c (hF c hc), h.pre, h.dd, h.post⟩

/-! ### one child poll -/

theorem holds_pollSegT (c slot : Nat) (wk : Wk) (l : List Ev) (r : Res) (evs t : List Ev)
    (hl : ∀ e ∈ l, isFireEv e = true) (he : ∀ e ∈ evs, isOwnEv e = true) :
    holds_C03 true (pollSeg c slot wk l r evs t) =
      (holds_C03 true t && !finished t c && inPoll t && !finalSeen true t && !gone t c && alive t) := by
  unfold pollSeg
  rw [C03.holds_seg true evs.reverse _ (fun e h => C03.own_notCB e (he e (List.mem_reverse.mp h))),
    C03.holds_notCB true _ _ rfl, C03.holds_seg true l _ (fun e h => C03.fire_notCB e (hl e h))]
  simp [holds_C03]

theorem dcnt_pollSeg (c slot : Nat) (wk : Wk) (l : List Ev) (r : Res) (evs t : List Ev) (x : Nat)
    (hl : ∀ e ∈ l, isFireEv e = true) :
    dcnt (pollSeg c slot wk l r evs t) x = (droppedChildren evs.reverse).count x + dcnt t x := by
  simp only [dcnt]
  rw [C02b.dc_pollSeg c slot wk l r evs t hl, List.count_append]

structure SegBasic (F : Nat → Prop) (t' : List Ev) : Prop where
  c03 : holds_C03 true t' = true
  ip : inPoll t' = true
  fs : finalSeen true t' = false
  fresh : ∀ x, F x → keyOf t' x = none
  nd0 : C02b.nd t' = 0
  al : alive t' = true

/-- the trace side of polling live member `c` under key `i` -/
theorem seg_basic {str : Bool} {F : Nat → Prop} {s : Grp} {t : List Ev} {l0 : List Nat}
    (hJ : GJ str F s t l0) {i c : Nat} (hc : s.member i = some c) (wk : Wk) (l : List Ev) (r : Res)
    (evs : List Ev) (hl : ∀ e ∈ l, isFireEv e = true) (he : ∀ e ∈ evs, isOwnEv e = true) :
    SegBasic F (pollSeg c i wk l r evs t) := by
  obtain ⟨_, m2, m3⟩ := hJ.sa.mem i c hc
  refine ⟨?_, ?_, ?_, ?_, ?_, ?_⟩
  · rw [holds_pollSegT c i wk l r evs t hl he]
    simp [hJ.c03, hJ.ip, hJ.fs, hJ.al, m3, gone_of_dcnt m2]
  · rw [C03.inPoll_pollSeg c i wk l r evs t hl he]; exact hJ.ip
  · rw [C03.finalSeen_pollSeg true c i wk l r evs t hl he]; exact hJ.fs
  · intro x hx; rw [keyOf_pollSeg c i wk l r evs t x hl he]; exact hJ.fresh x hx
  · rw [C02b.nd_pollSeg c i wk l r evs t hl he]; exact hJ.nd0
  · rw [C03.alive_pollSeg c i wk l r evs t hl he]; exact hJ.al

/-- values across a child poll whose handler releases no value -/
theorem acc_pollSeg {t : List Ev} (h : Acc t) (c slot : Nat) (wk : Wk) (l : List Ev) (r : Res)
    (evs : List Ev) (hl : ∀ e ∈ l, isFireEv e = true) (he : ∀ e ∈ evs, isOwnEv e = true)
    (hv : droppedVals evs.reverse = []) (o : List Nat) (ho : ∀ v, o.count v = (C02b.rvals r).count v) :
    ∀ v, (o ++ returnedVals (pollSeg c slot wk l r evs t)).count v
        + (droppedVals (pollSeg c slot wk l r evs t)).count v
      = (producedVals (pollSeg c slot wk l r evs t)).count v := by
  intro v
  rw [C02b.ret_pollSeg c slot wk l r evs t hl he, C02b.dv_pollSeg c slot wk l r evs t hl, hv,
    C02b.prod_pollSeg c slot wk l r evs t hl he, List.count_append, List.count_append,
    List.count_append]
  have := h v
  have := ho v
  simp only [List.count_nil]
  omega

/-! ### the drop glue -/

/-- the members `dropEvs` releases, in key order -/
def liveList (s : Grp) : List Nat :=
  (s.keys.filter (fun k => (s.member k).isSome)).map (fun k => (s.member k).getD 0)

theorem dropEvs_eq (s : Grp) : group.dropEvs s = (liveList s).map Ev.childDropped := by
  simp [group, liveList, List.map_map, Function.comp_def]

theorem dc_mapDropped (L : List Nat) :
    droppedChildren ((L.map Ev.childDropped).reverse) = L.reverse := by
  rw [← List.map_reverse]
  induction L.reverse with
  | nil => rfl
  | cons a l ih => simp [droppedChildren, ih]

theorem dv_mapDropped (L : List Nat) : droppedVals ((L.map Ev.childDropped).reverse) = [] := by
  rw [← List.map_reverse]
  induction L.reverse with
  | nil => rfl
  | cons a l ih => simp [droppedVals, ih]

theorem own_mapDropped (L : List Nat) : ∀ e ∈ L.map Ev.childDropped, isOwnEv e = true := by
  intro e he
  simp only [List.mem_map] at he
  obtain ⟨_, _, rfl⟩ := he
  rfl

theorem mem_liveList {s : Grp} {c : Nat} : c ∈ liveList s ↔ ∃ k, k ∈ s.keys ∧ s.member k = some c := by
  simp only [liveList, List.mem_map, List.mem_filter]
  constructor
  · rintro ⟨k, ⟨hk, hs⟩, hg⟩
    refine ⟨k, hk, ?_⟩
    cases hm : s.member k with
    | none => simp [hm] at hs
    | some c' => simp [hm] at hg; rw [hg]
  · rintro ⟨k, hk, hm⟩
    exact ⟨k, ⟨hk, by simp [hm]⟩, by simp [hm]⟩

theorem liveList_count {s : Grp} {ko : Nat → Option Nat} {dc : Nat → Nat} {fn : Nat → Bool}
    (h : StrA s ko dc fn) (c : Nat) :
    ((∃ k, s.member k = some c) → (liveList s).count c = 1) ∧
    ((∀ k, s.member k ≠ some c) → (liveList s).count c = 0) := by
  constructor
  · rintro ⟨k, hk⟩
    have hnd : (liveList s).Nodup := by
      unfold liveList
      rw [List.Nodup, List.pairwise_map]
      refine List.Pairwise.imp_of_mem ?_ (List.Pairwise.filter _ h.sorted)
      intro a b ha hb hab heq
      simp only [List.mem_filter] at ha hb
      cases hma : s.member a with
      | none => simp [hma] at ha
      | some ca =>
        cases hmb : s.member b with
        | none => simp [hmb] at hb
        | some cb =>
          simp only [hma, hmb, Option.getD_some] at heq
          subst heq
          have := h.inj hma hmb
          omega
    rw [hnd.count]
    have : c ∈ liveList s := mem_liveList.mpr ⟨k, h.live k (by rw [hk]; simp), hk⟩
    simp [this]
  · intro hall
    refine List.count_eq_zero.mpr (fun hin => ?_)
    obtain ⟨k, _, hk⟩ := mem_liveList.mp hin
    exact hall k hk

/-- dropping the group: every live member exactly once, nothing else -/
theorem post_drop {s : Grp} {t : List Ev} (p : Pre s t) :
    Post (.dropEnd :: ((group.dropEvs s).reverse ++ .dropBegin :: t)) := by
  rw [dropEvs_eq]
  have he := own_mapDropped (liveList s)
  have her := C02b.own_rev _ he
  refine ⟨rfl, fun c => ?_, fun v => ?_⟩
  · have hk : keyOf (.dropEnd :: (((liveList s).map Ev.childDropped).reverse ++ .dropBegin :: t)) c
        = keyOf t c := by
      rw [keyOf_notIns c _ _ rfl, keyOf_seg c _ _ (fun e h => own_notIns e (her e h)),
        keyOf_notIns c _ _ rfl]
    have hd : dcnt (.dropEnd :: (((liveList s).map Ev.childDropped).reverse ++ .dropBegin :: t)) c
        = (liveList s).count c + dcnt t c := by
      simp only [dcnt, droppedChildren, C02b.dc_append, dc_mapDropped, List.count_append,
        List.count_reverse]
    rw [hk, hd]
    have hcnt := liveList_count p.sa c
    by_cases hex : ∃ k, s.member k = some c
    · obtain ⟨k, hk'⟩ := hex
      obtain ⟨m1, m2, _⟩ := p.sa.mem k c hk'
      rw [hcnt.1 ⟨k, hk'⟩, m2, m1]; rfl
    · have hall : ∀ k, s.member k ≠ some c := fun k hk' => hex ⟨k, hk'⟩
      rw [hcnt.2 hall]
      cases hko : keyOf t c with
      | none => rw [(p.sa.unk c hko).1]; rfl
      | some k => rw [p.sa.rel c (by rw [hko]; simp) hall]; rfl
  · have := p.acc v
    simp only [returnedVals, droppedVals, producedVals, C02b.dv_append, dv_mapDropped,
      List.nil_append, C02b.ret_own _ _ her, C02b.prod_own _ _ her]
    simpa using this

/-! ### the simulation -/

theorem GC.same {F : Nat → Prop} {s s' : Grp} {t : List Ev} (h : GC F s t)
    (hm : s'.member = s.member) (hv : s'.vac = s.vac) (he : s'.entries = s.entries)
    (hn : s'.next = s.next) (hst : s'.st = s.st) (hkeys : s'.keys = s.keys)
    (hq : s'.queue = s.queue) (hd : s'.dead = s.dead) : GC F s' t :=
  ⟨h.c03, h.fs, h.fresh,
   fun h0 => (h.pre h0).same hm hv he hn hst hkeys hq (fun hd' => by rw [← hd]; exact hd'),
   fun h0 => by rw [hd]; exact h.dd h0, h.post⟩

theorem GJ.relist {str : Bool} {F : Nat → Prop} {s : Grp} {t : List Ev} {l : List Nat}
    (h : GJ str F s t l) (l' : List Nat) : GJ str F s t l' :=
  ⟨h.c03, h.ip, h.fs, h.fresh, h.nd0, h.al, h.live, h.sa, h.q, h.acc⟩

/-- the slot the gate lets through holds a live member, and that member is what gets polled -/
theorem elig_member {s : Grp} {ko : Nat → Option Nat} {dc : Nat → Nat} {fn : Nat → Bool}
    (h : StrA s ko dc fn) {i : Nat} (hel : group.eligible s i = true) :
    ∃ c, s.member i = some c ∧ group.child s i = c := by
  have hst : s.st i = .pending := by simpa [group] using hel
  have := (h.pend i).mp hst
  cases hm : s.member i with
  | none => exact absurd hm this
  | some c => exact ⟨c, rfl, by simp [group, hm]⟩

theorem dcnt_one (c x : Nat) :
    (droppedChildren [Ev.childDropped c].reverse).count x = if x = c then 1 else 0 := by
  by_cases h : x = c
  · subst h; simp [droppedChildren]
  · have : ¬ c = x := fun h' => h h'.symm
    simp [droppedChildren, h, this]

theorem own_one (c : Nat) : ∀ e ∈ [Ev.childDropped c], isOwnEv e = true := by
  intro e he
  simp only [List.mem_singleton] at he
  subst he; rfl

theorem own_nil : ∀ e ∈ ([] : List Ev), isOwnEv e = true := by
  intro e he; cases he

end GOwn
end Fc
