/-
  FcLemmas/C02b.lean — exactly-once ownership (C02) for the families that own their children as
  plain fields and buffer (almost) nothing: race, merge, chain, wait_until (future and stream).

  Ghost `nd t` = number of completed drops in the trace.  Boundary invariant `Inv`:
    * `nd t = 0`: no child dropped yet, and for every value `v`
        #returned v + #valDropped v + #buffered v = #produced v          (`Live`)
      with nothing buffered at a boundary (wait_until over a stream buffers the deadline's output
      in `out 0` only inside a poll, until the inner stream's poll returns);
    * `nd t = 1`: the conjuncts of the monitor outright (`Post`), and the state is dead, so only
      `pollBegin`/`pollEnd misuse`/wake-up events can follow;
    * `nd t ≥ 2`: nothing (a second `drop` of the same value is outside the property; the top
      theorem assumes at most one `Op.drop`).
-/
import FcLemmas.Seg
import FcLemmas.Lawful2
set_option linter.unusedSimpArgs false
set_option linter.unusedVariables false

namespace Fc
namespace C02b
open Mon Fix

/-! ### trace observations -/

/-- number of completed drops -/
def nd : List Ev → Nat
  | [] => 0
  | .dropEnd :: t => nd t + 1
  | _ :: t => nd t

/-- the value a child result hands to the combinator -/
def rvals : Res → List Nat
  | .ready _ v => [v]
  | .item v => [v]
  | _ => []

/-- the values a poll outcome hands to the caller -/
def ovals : Outcome → List Nat
  | .ready _ vs => vs
  | .some _ vs => vs
  | _ => []

/-- events that touch none of the C02 observations -/
def inert : Ev → Bool
  | .pollBegin _ | .fired _ _ _ | .woke _ | .wakePanic | .childBegin _ _ _ | .dropBegin => true
  | .pollEnd o => ovals o == []
  | .childEnd _ r => rvals r == []
  | _ => false

theorem fire_inert (e : Ev) (h : isFireEv e = true) : inert e = true := by
  cases e <;> simp_all [isFireEv, inert]

theorem nd_inert (e : Ev) (t : List Ev) (h : inert e = true) : nd (e :: t) = nd t := by
  cases e <;> simp_all [inert, nd]

theorem prod_inert (e : Ev) (t : List Ev) (h : inert e = true) :
    producedVals (e :: t) = producedVals t := by
  cases e with
  | childEnd c r => cases r <;> simp_all [inert, producedVals, rvals]
  | _ => simp_all [inert, producedVals]

theorem ret_inert (e : Ev) (t : List Ev) (h : inert e = true) :
    returnedVals (e :: t) = returnedVals t := by
  cases e with
  | pollEnd o => cases o <;> simp_all [inert, returnedVals, ovals]
  | _ => simp_all [inert, returnedVals]

theorem dv_inert (e : Ev) (t : List Ev) (h : inert e = true) :
    droppedVals (e :: t) = droppedVals t := by
  cases e <;> simp_all [inert, droppedVals]

theorem dc_inert (e : Ev) (t : List Ev) (h : inert e = true) :
    droppedChildren (e :: t) = droppedChildren t := by
  cases e <;> simp_all [inert, droppedChildren]

theorem quiet_inert (e : Ev) (t : List Ev) (h : inert e = true) :
    quietAfterDrop (e :: t) = quietAfterDrop t := by
  cases e <;> simp_all [inert, quietAfterDrop]

/-- a segment of wake-up events -/
theorem nd_fires (l t : List Ev) (hl : ∀ e ∈ l, isFireEv e = true) : nd (l ++ t) = nd t :=
  skip_seg nd isFireEv (fun e t h => nd_inert e t (fire_inert e h)) l hl t
theorem prod_fires (l t : List Ev) (hl : ∀ e ∈ l, isFireEv e = true) :
    producedVals (l ++ t) = producedVals t :=
  skip_seg producedVals isFireEv (fun e t h => prod_inert e t (fire_inert e h)) l hl t
theorem ret_fires (l t : List Ev) (hl : ∀ e ∈ l, isFireEv e = true) :
    returnedVals (l ++ t) = returnedVals t :=
  skip_seg returnedVals isFireEv (fun e t h => ret_inert e t (fire_inert e h)) l hl t
theorem dv_fires (l t : List Ev) (hl : ∀ e ∈ l, isFireEv e = true) :
    droppedVals (l ++ t) = droppedVals t :=
  skip_seg droppedVals isFireEv (fun e t h => dv_inert e t (fire_inert e h)) l hl t
theorem dc_fires (l t : List Ev) (hl : ∀ e ∈ l, isFireEv e = true) :
    droppedChildren (l ++ t) = droppedChildren t :=
  skip_seg droppedChildren isFireEv (fun e t h => dc_inert e t (fire_inert e h)) l hl t

/-- a segment of ownership events -/
theorem nd_own (l t : List Ev) (hl : ∀ e ∈ l, isOwnEv e = true) : nd (l ++ t) = nd t :=
  skip_seg nd isOwnEv (fun e t h => by cases e <;> simp_all [isOwnEv, nd]) l hl t
theorem prod_own (l t : List Ev) (hl : ∀ e ∈ l, isOwnEv e = true) :
    producedVals (l ++ t) = producedVals t :=
  skip_seg producedVals isOwnEv (fun e t h => by cases e <;> simp_all [isOwnEv, producedVals]) l hl t
theorem ret_own (l t : List Ev) (hl : ∀ e ∈ l, isOwnEv e = true) :
    returnedVals (l ++ t) = returnedVals t :=
  skip_seg returnedVals isOwnEv (fun e t h => by cases e <;> simp_all [isOwnEv, returnedVals]) l hl t

theorem dv_append (a b : List Ev) : droppedVals (a ++ b) = droppedVals a ++ droppedVals b := by
  induction a with
  | nil => rfl
  | cons e a ih => cases e <;> simp [droppedVals, ih]

theorem dc_append (a b : List Ev) :
    droppedChildren (a ++ b) = droppedChildren a ++ droppedChildren b := by
  induction a with
  | nil => rfl
  | cons e a ih => cases e <;> simp [droppedChildren, ih]

theorem prod_childEnd (c : Nat) (r : Res) (t : List Ev) :
    producedVals (.childEnd c r :: t) = rvals r ++ producedVals t := by
  cases r <;> simp [producedVals, rvals]

theorem ret_pollEnd (o : Outcome) (t : List Ev) :
    returnedVals (.pollEnd o :: t) = ovals o ++ returnedVals t := by
  cases o <;> simp [returnedVals, ovals]

/-! ### one child poll -/

section seg
variable (c slot : Nat) (wk : Wk) (l : List Ev) (r : Res) (evs t : List Ev)

theorem own_rev (he : ∀ e ∈ evs, isOwnEv e = true) : ∀ e ∈ evs.reverse, isOwnEv e = true :=
  fun e h => he e (List.mem_reverse.mp h)

theorem nd_pollSeg (hl : ∀ e ∈ l, isFireEv e = true) (he : ∀ e ∈ evs, isOwnEv e = true) :
    nd (pollSeg c slot wk l r evs t) = nd t := by
  unfold pollSeg
  rw [nd_own _ _ (own_rev evs he)]
  simp only [nd]
  rw [nd_fires _ _ hl]
  simp [nd]

theorem prod_pollSeg (hl : ∀ e ∈ l, isFireEv e = true) (he : ∀ e ∈ evs, isOwnEv e = true) :
    producedVals (pollSeg c slot wk l r evs t) = rvals r ++ producedVals t := by
  unfold pollSeg
  rw [prod_own _ _ (own_rev evs he), prod_childEnd, prod_fires _ _ hl]
  simp [producedVals]

theorem ret_pollSeg (hl : ∀ e ∈ l, isFireEv e = true) (he : ∀ e ∈ evs, isOwnEv e = true) :
    returnedVals (pollSeg c slot wk l r evs t) = returnedVals t := by
  unfold pollSeg
  rw [ret_own _ _ (own_rev evs he)]
  simp only [returnedVals]
  rw [ret_fires _ _ hl]
  simp [returnedVals]

theorem dv_pollSeg (hl : ∀ e ∈ l, isFireEv e = true) :
    droppedVals (pollSeg c slot wk l r evs t) = droppedVals evs.reverse ++ droppedVals t := by
  unfold pollSeg
  rw [dv_append]
  simp only [droppedVals]
  rw [dv_fires _ _ hl]
  simp [droppedVals]

theorem dc_pollSeg (hl : ∀ e ∈ l, isFireEv e = true) :
    droppedChildren (pollSeg c slot wk l r evs t)
      = droppedChildren evs.reverse ++ droppedChildren t := by
  unfold pollSeg
  rw [dc_append]
  simp only [droppedChildren]
  rw [dc_fires _ _ hl]
  simp [droppedChildren]

end seg

/-! ### the accounting invariant -/

/-- before the drop: no child released yet; every produced value is returned, released, or in
    the buffer `b` -/
structure Live (b : List Nat) (t : List Ev) : Prop where
  nd0 : nd t = 0
  dc : droppedChildren t = []
  acc : ∀ v, (returnedVals t).count v + (droppedVals t).count v + b.count v
    = (producedVals t).count v

/-- after the drop: what the monitor demands -/
structure Post (n : Nat) (t : List Ev) : Prop where
  quiet : quietAfterDrop t = true
  dc : ∀ c, c < n → (droppedChildren t).count c = 1
  acc : ∀ v, (returnedVals t).count v + (droppedVals t).count v = (producedVals t).count v

theorem Live.inert {b t} (h : Live b t) (e : Ev) (he : inert e = true) : Live b (e :: t) :=
  ⟨by rw [nd_inert e t he]; exact h.nd0, by rw [dc_inert e t he]; exact h.dc,
   by rw [ret_inert e t he, dv_inert e t he, prod_inert e t he]; exact h.acc⟩

theorem Post.inert {n t} (h : Post n t) (e : Ev) (he : inert e = true) : Post n (e :: t) :=
  ⟨by rw [quiet_inert e t he]; exact h.quiet, by rw [dc_inert e t he]; exact h.dc,
   by rw [ret_inert e t he, dv_inert e t he, prod_inert e t he]; exact h.acc⟩

/-- a child poll: the result's value enters the buffer, the handler releases `evs` -/
theorem Live.seg {b b' t} (h : Live b t) (c slot : Nat) (wk : Wk) (l : List Ev) (r : Res)
    (evs : List Ev) (hl : ∀ e ∈ l, isFireEv e = true) (he : ∀ e ∈ evs, isOwnEv e = true)
    (hc : droppedChildren evs.reverse = [])
    (hb : ∀ v, (droppedVals evs.reverse).count v + b'.count v = b.count v + (rvals r).count v) :
    Live b' (pollSeg c slot wk l r evs t) := by
  refine ⟨by rw [nd_pollSeg c slot wk l r evs t hl he]; exact h.nd0,
    by rw [dc_pollSeg c slot wk l r evs t hl, hc, h.dc]; rfl, fun v => ?_⟩
  rw [ret_pollSeg c slot wk l r evs t hl he, dv_pollSeg c slot wk l r evs t hl,
    prod_pollSeg c slot wk l r evs t hl he, List.count_append, List.count_append]
  have := h.acc v
  have := hb v
  omega

/-- the end of a poll: the outcome's values leave the buffer -/
theorem Live.pollEnd {b b' t} (h : Live b t) (o : Outcome)
    (hb : ∀ v, (ovals o).count v + b'.count v = b.count v) : Live b' (.pollEnd o :: t) := by
  refine ⟨by simpa [nd] using h.nd0, by simpa [droppedChildren] using h.dc, fun v => ?_⟩
  rw [ret_pollEnd, List.count_append]
  have := h.acc v
  have := hb v
  simp only [droppedVals, producedVals]
  omega

/-- the drop -/
theorem Live.drop {t} (h : Live [] t) (n : Nat) (evs : List Ev)
    (hv : droppedVals evs.reverse = [])
    (hc : ∀ c, c < n → (droppedChildren evs.reverse).count c = 1)
    (he : ∀ e ∈ evs, isOwnEv e = true) :
    Post n (.dropEnd :: (evs.reverse ++ .dropBegin :: t)) := by
  refine ⟨rfl, fun c hc' => ?_, fun v => ?_⟩
  · simp only [droppedChildren, dc_append, List.count_append, h.dc, List.count_nil, Nat.add_zero]
    exact hc c hc'
  · have := h.acc v
    simp only [returnedVals, droppedVals, producedVals, dv_append, hv, List.nil_append,
      ret_own _ _ (own_rev evs he), prod_own _ _ (own_rev evs he)]
    simpa using this

theorem nd_drop (evs t : List Ev) (he : ∀ e ∈ evs, isOwnEv e = true) :
    nd (.dropEnd :: (evs.reverse ++ .dropBegin :: t)) = nd t + 1 := by
  simp only [nd]
  rw [nd_own _ _ (own_rev evs he)]
  simp [nd]

/-- the children of `(List.range n).map childDropped`, each once -/
theorem dc_range (n : Nat) :
    droppedChildren ((List.range n).map (fun i => Ev.childDropped i)).reverse
      = (List.range n).reverse := by
  rw [← List.map_reverse]
  induction (List.range n).reverse with
  | nil => rfl
  | cons a l ih => simp [droppedChildren, ih]

theorem dv_range (n : Nat) :
    droppedVals ((List.range n).map (fun i => Ev.childDropped i)).reverse = [] := by
  rw [← List.map_reverse]
  induction (List.range n).reverse with
  | nil => rfl
  | cons a l ih => simp [droppedVals, ih]

theorem own_range (n : Nat) :
    ∀ e ∈ (List.range n).map (fun i => Ev.childDropped i), isOwnEv e = true := by
  intro e he
  simp only [List.mem_map] at he
  obtain ⟨_, _, rfl⟩ := he
  rfl

/-! ### the boundary and loop invariants

  `ws = true` for wait_until over a stream, whose `out 0` is a buffer inside a poll. -/

def buf (ws : Bool) (s : Fix) : List Nat := if ws then (s.out 0).toList else []

structure Inv (ws : Bool) (n : Nat) (s : Fix) (t : List Ev) : Prop where
  hn : s.n = n
  live : nd t = 0 → Live [] t ∧ (ws = true → s.out 0 = none)
  dd : nd t ≠ 0 → s.dead = true
  post : nd t = 1 → Post n t

def J (ws : Bool) (n : Nat) (s : Fix) (t : List Ev) (l : List Nat) : Prop :=
  s.n = n ∧ Live (buf ws s) t ∧
  (ws = true → (l = [0, 1] ∧ s.out 0 = none) ∨ l = [1] ∨ (l = [] ∧ s.out 0 = none))

theorem Inv.inert {ws n s t} (h : Inv ws n s t) (e : Ev) (he : inert e = true) :
    Inv ws n s (e :: t) := by
  have hnd := nd_inert e t he
  exact ⟨h.hn, fun h0 => ⟨(h.live (hnd ▸ h0)).1.inert e he, (h.live (hnd ▸ h0)).2⟩,
    fun h0 => h.dd (hnd ▸ h0), fun h1 => (h.post (hnd ▸ h1)).inert e he⟩

/-- a boundary state before the drop -/
theorem Inv.ofLive {ws n s t} (hn : s.n = n) (h : Live [] t) (ho : ws = true → s.out 0 = none) :
    Inv ws n s t :=
  ⟨hn, fun _ => ⟨h, ho⟩, fun h0 => absurd h.nd0 h0, fun h1 => by rw [h.nd0] at h1; cases h1⟩

/-- a poll answered before the scan -/
theorem Inv.pre {ws n s t} (h : Inv ws n s t) (w : Nat) (o : Outcome) (ho : ovals o = []) :
    Inv ws n s (.pollEnd o :: .pollBegin w :: t) :=
  (h.inert (.pollBegin w) rfl).inert (.pollEnd o) (by simp [C02b.inert, ho])

/-- a live state starts scanning -/
theorem Inv.start {ws n s t} (h : Inv ws n s t) (hd : s.dead = false) (w : Nat) :
    Live [] (.pollBegin w :: t) ∧ (ws = true → s.out 0 = none) := by
  have h0 : nd t = 0 := by
    cases hnd : nd t with
    | zero => rfl
    | succ k => have := h.dd (by omega); simp [hd] at this
  exact ⟨(h.live h0).1.inert _ rfl, (h.live h0).2⟩

theorem Inv.drop {ws n s t} (h : Inv ws n s t) (s' : Fix) (hn' : s'.n = s.n)
    (hdead : s'.dead = true) (evs : List Ev)
    (hv : droppedVals evs.reverse = [])
    (hc : ∀ c, c < n → (droppedChildren evs.reverse).count c = 1)
    (he : ∀ e ∈ evs, isOwnEv e = true) :
    Inv ws n s' (.dropEnd :: (evs.reverse ++ .dropBegin :: t)) := by
  have hnd := nd_drop evs t he
  refine ⟨by rw [hn', h.hn], fun h0 => by omega, fun _ => hdead, fun h1 => ?_⟩
  exact (h.live (by omega)).1.drop n evs hv hc he

/-- the drop glue of race / merge / chain: every child, in field order -/
theorem Inv.drop_range {ws n s t} (h : Inv ws n s t) (s' : Fix) (hn' : s'.n = s.n)
    (hdead : s'.dead = true) :
    Inv ws n s' (.dropEnd ::
      (((List.range s.n).map (fun i => Ev.childDropped i)).reverse ++ .dropBegin :: t)) :=
  h.drop s' hn' hdead _ (dv_range _)
    (by intro c hc; rw [dc_range, List.count_reverse, List.count_range, h.hn]; simp [hc])
    (own_range _)

/-- the drop glue of wait_until: the inner future/stream, then the deadline -/
theorem Inv.drop_two {ws s t} (h : Inv ws 2 s t) (s' : Fix) (hn' : s'.n = s.n)
    (hdead : s'.dead = true) :
    Inv ws 2 s' (.dropEnd :: ([Ev.childDropped 1, Ev.childDropped 0].reverse ++ .dropBegin :: t)) :=
  h.drop s' hn' hdead _ rfl
    (by
      intro c hc
      have : c = 0 ∨ c = 1 := by omega
      rcases this with rfl | rfl <;> simp [droppedChildren])
    (by intro e he; simp at he; rcases he with rfl | rfl <;> rfl)

/-! ### generic steps of the scan -/

section steps
variable {P : Policy Fix} {ws : Bool} {n : Nat} {s : Fix} {t : List Ev}

/-- a handler that goes on -/
theorem go_ok (L : Lawful P) {i : Nat} {rest : List Nat} (hJ : J ws n s t (i :: rest))
    (wk : Wk) (l : List Ev) (r : Res) (hl : ∀ e ∈ l, isFireEv e = true)
    (hc : droppedChildren (P.handle s i r).evs.reverse = [])
    (hb : ∀ v, (droppedVals (P.handle s i r).evs.reverse).count v
        + (buf ws (P.handle s i r).s).count v = (buf ws s).count v + (rvals r).count v)
    (hs : ws = true → (rest = [0, 1] ∧ (P.handle s i r).s.out 0 = none) ∨ rest = [1] ∨
      (rest = [] ∧ (P.handle s i r).s.out 0 = none)) :
    J ws n (P.handle s i r).s (pollSeg (P.child s i) i wk l r (P.handle s i r).evs t) rest :=
  ⟨by rw [L.n_handle]; exact hJ.1,
   hJ.2.1.seg _ _ wk l r _ hl (L.evs_handle s i r) hc hb, hs⟩

/-- a handler that returns `o` -/
theorem exit_ok (L : Lawful P) {i : Nat} {rest : List Nat} (hJ : J ws n s t (i :: rest))
    (wk : Wk) (l : List Ev) (r : Res) (o : Outcome) (hl : ∀ e ∈ l, isFireEv e = true)
    (hc : droppedChildren (P.handle s i r).evs.reverse = [])
    (hb : ∀ v, (droppedVals (P.handle s i r).evs.reverse).count v + (ovals o).count v
        = (buf ws s).count v + (rvals r).count v)
    (ho : ws = true → (P.handle s i r).s.out 0 = none) :
    Inv ws n (P.handle s i r).s
      (.pollEnd o :: pollSeg (P.child s i) i wk l r (P.handle s i r).evs t) :=
  Inv.ofLive (by rw [L.n_handle]; exact hJ.1)
    ((hJ.2.1.seg (b' := ovals o) _ _ wk l r _ hl (L.evs_handle s i r) hc hb).pollEnd o (by simp)) ho

/-- a child's poll panicked -/
theorem panic_ok (L : Lawful P) {i : Nat} {rest : List Nat} (hJ : J ws n s t (i :: rest))
    (wk : Wk) (l : List Ev) (hl : ∀ e ∈ l, isFireEv e = true)
    (hc : droppedChildren (P.panicEvs s).reverse = [])
    (hb : ∀ v, (droppedVals (P.panicEvs s).reverse).count v = (buf ws s).count v)
    (ho : ws = true → (P.onPanic s).out 0 = none) :
    Inv ws n (P.onPanic s)
      (.pollEnd .panicked :: pollSeg (P.child s i) i wk l .panic (P.panicEvs s) t) :=
  Inv.ofLive (by rw [L.n_panic]; exact hJ.1)
    ((hJ.2.1.seg (b' := []) _ _ wk l .panic _ hl (L.evs_panic s) hc
      (by intro v; simp [rvals, hb v])).pollEnd .panicked (by simp [ovals])) ho

/-- the scan ends without a child poll deciding -/
theorem fin_ok {l0 : List Nat} (hJ : J ws n s t l0) (hb : buf ws s = []) (s' : Fix)
    (hn' : s'.n = s.n) (ho : ws = true → s'.out 0 = none) (o : Outcome) (hov : ovals o = []) :
    Inv ws n s' (.pollEnd o :: t) :=
  Inv.ofLive (by rw [hn']; exact hJ.1)
    ((hb ▸ hJ.2.1).pollEnd (b' := []) o (by simp [hov])) ho

end steps

/-! ### the number of completed drops of a run -/

def isDrop : Op → Bool
  | .drop => true
  | _ => false

section run
variable {P : Policy Fix}

theorem nd_emits (w : World) (l : List Ev) (hl : ∀ e ∈ l, isOwnEv e = true) :
    nd (w.emits l).trace = nd w.trace := by
  simp only [World.emits_trace]
  exact nd_own _ _ (own_rev l hl)

theorem nd_pollChild (w : World) (c s : Nat) : nd (w.pollChild c s).trace = nd w.trace := by
  obtain ⟨l, hl, hf⟩ := World.pollChild_seg w c s
  rw [hl]
  simp only [nd]
  rw [nd_fires _ _ hf]
  simp [nd]

theorem nd_visit (L : Lawful P) (e : Eng Fix) (i : Nat) :
    nd (Eng.visit P e i).1.w.trace = nd e.w.trace := by
  refine Eng.visit_ind P e i (fun r => nd r.1.w.trace = nd e.w.trace) ?_ ?_ ?_ ?_
  · intro _ _; rfl
  · intro _ _; simp only [Sim.gateW_trace]
  · intro _ _ _
    simp only
    rw [nd_emits _ _ (L.evs_panic _), nd_pollChild, Sim.gateW_trace]
  · intro _ _ _
    simp only [Eng.applyH_w, World.kop_trace]
    rw [nd_emits _ _ (L.evs_handle _ _ _), nd_pollChild, Sim.gateW_trace]

theorem nd_scan (L : Lawful P) (l : List Nat) (e : Eng Fix) :
    nd (Eng.scan P l e).1.w.trace = nd e.w.trace := by
  induction l generalizing e with
  | nil => rfl
  | cons i rest ih =>
    unfold Eng.scan
    cases hv : (Eng.visit P e i).2 with
    | some o => simp only; exact nd_visit L e i
    | none => simp only; rw [ih]; exact nd_visit L e i

theorem nd_poll (L : Lawful P) (e : Eng Fix) (w : Nat) :
    nd (Eng.poll P e w).w.trace = nd e.w.trace := by
  unfold Eng.poll
  split
  · simp [nd]
  · unfold Eng.body
    simp only
    split
    · simp [nd]
    · unfold Eng.close
      split
      · simp only [Eng.emit_w, World.emit_trace, nd]
        rw [nd_scan L]
        simp [nd]
      · simp only [Eng.emit_w, Eng.applyH_w, World.emit_trace, World.kop_trace, nd]
        rw [nd_emits _ _ (L.evs_finish _), nd_scan L]
        simp [nd]

theorem nd_fire (e : Eng Fix) (c a : Nat) : nd (e.fire c a).w.trace = nd e.w.trace := by
  obtain ⟨l, hl, hf⟩ := World.fire_seg e.w c a
  simp only [Eng.fire_w, hl]
  exact nd_fires _ _ hf

theorem nd_run (L : Lawful P) (ops : List Op) (e : Eng Fix) :
    nd (ops.foldl (FEng.step P) e).w.trace = nd e.w.trace + (ops.filter isDrop).length := by
  induction ops generalizing e with
  | nil => rfl
  | cons op ops ih =>
    simp only [List.foldl_cons]
    rw [ih]
    cases op <;> simp only [FEng.step, isDrop, List.filter_cons, Bool.false_eq_true, if_false,
      if_true, List.length_cons]
    · rw [nd_poll L]
    · rw [nd_fire]
    · simp only [Eng.drop, World.emit_trace, World.emits_trace]
      rw [nd_drop _ _ (L.evs_drop _)]
      omega

end run

/-! ### from the invariant to the monitor -/

theorem dropCompleted_nd (t : List Ev) : dropCompleted t = decide (nd t ≠ 0) := by
  unfold dropCompleted
  induction t with
  | nil => rfl
  | cons e t ih =>
    rw [List.any_cons, ih]
    cases e <;> first | (simp [nd]; done) | (simp only [nd]; rfl)

theorem holds_of_inv {ws n s t} (h : Inv ws n s t) (h1 : nd t ≤ 1) : holds_C02 true n t = true := by
  unfold holds_C02
  rw [dropCompleted_nd]
  by_cases h0 : nd t = 0
  · simp [h0]
  · have hp := h.post (by omega)
    have hmem : ∀ v, 0 < (producedVals t).count v → (producedVals t).contains v = true := by
      intro v hv
      rw [List.contains_iff_mem]
      exact List.count_pos_iff.mp hv
    simp only [Bool.or_eq_true, Bool.and_eq_true, List.all_eq_true, decide_eq_true_eq,
      Bool.true_or, if_true, List.mem_range]
    right
    refine ⟨⟨⟨⟨hp.quiet, hp.dc⟩, fun v _ => hp.acc v⟩, fun v hv => hmem v ?_⟩, fun v hv => hmem v ?_⟩
    · have := List.count_pos_iff.mpr hv
      have := hp.acc v
      omega
    · have := List.count_pos_iff.mpr hv
      have := hp.acc v
      omega

end C02b
end Fc
