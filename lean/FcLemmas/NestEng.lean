/-
  FcLemmas/NestEng.lean — a generic induction principle for world-level facts across one
  `Eng.poll` (for every lawful policy), and the shape of the trace segment a poll appends.
-/
import FcLemmas.C01Seq
import FcLemmas.Conc
import FcLemmas.Sim
set_option linter.unusedSimpArgs false
set_option linter.unusedVariables false

namespace Fc
open Mon

/-- events the engine emits itself between child polls -/
def neutralEv : Ev → Bool
  | .pollEnd _ | .childDropped _ | .valDropped _ => true
  | _ => false

theorem neutral_of_own (e : Ev) (h : isOwnEv e = true) : neutralEv e = true := by
  cases e <;> simp_all [isOwnEv, neutralEv]

/-- a step of the engine that neither polls a child nor invokes a waker -/
structure Neutral (w w' : World) : Prop where
  sc : w'.scripts = w.scripts
  hd : w'.handed = w.handed
  tr : ∃ l, w'.trace = l ++ w.trace ∧ ∀ e ∈ l, neutralEv e = true

namespace Neutral

theorem refl (w : World) : Neutral w w := ⟨rfl, rfl, [], rfl, by simp⟩

theorem trans {w1 w2 w3 : World} (h1 : Neutral w1 w2) (h2 : Neutral w2 w3) : Neutral w1 w3 := by
  obtain ⟨l1, e1, p1⟩ := h1.tr
  obtain ⟨l2, e2, p2⟩ := h2.tr
  refine ⟨h2.sc.trans h1.sc, h2.hd.trans h1.hd, l2 ++ l1, by rw [e2, e1, List.append_assoc], ?_⟩
  intro e he
  simp only [List.mem_append] at he
  rcases he with he | he
  · exact p2 e he
  · exact p1 e he

theorem emit (w : World) (e : Ev) (h : neutralEv e = true) : Neutral w (w.emit e) :=
  ⟨rfl, rfl, [e], rfl, by simpa using h⟩

theorem emits (w : World) (l : List Ev) (h : ∀ e ∈ l, isOwnEv e = true) : Neutral w (w.emits l) :=
  ⟨rfl, rfl, l.reverse, rfl, fun e he => neutral_of_own e (h e (List.mem_reverse.mp he))⟩

theorem setWaker (w : World) (p : Nat) : Neutral w (w.setWaker p) := ⟨rfl, rfl, [], rfl, by simp⟩

theorem clearReady (w : World) (i : Nat) : Neutral w (w.clearReady i) :=
  ⟨by simp, by simp, [], by simp, by simp⟩

theorem kop (w : World) (k : KOp) : Neutral w (w.kop k) := by
  refine ⟨kop_scripts w k, ?_, [], by simp, by simp⟩
  cases k with
  | nop => rfl
  | arm i => simp [World.kop]
  | armAll => simp only [World.kop, World.setAllReady]; cases w.mode <;> rfl

theorem gateW {P : Policy Fix} (e : Eng Fix) (i : Nat) : Neutral e.w (Eng.gateW P e i) := by
  unfold Eng.gateW
  split
  · exact clearReady _ _
  · exact refl _

end Neutral

/-- Induction over one `Eng.poll`: `Q w l` is a fact about the world with `l` the slots the loop
    has still to look at.  It has to survive the engine's own steps (`Neutral`), a child poll of
    the head slot, and skipping the head slot. -/
theorem Eng.poll_ind {P : Policy Fix} (L : Lawful P) (Q : World → List Nat → Prop)
    (hneu : ∀ w w' l, Neutral w w' → Q w l → Q w' l)
    (hskip : ∀ w i rest, Q w (i :: rest) → Q w rest)
    (hchild : ∀ w i rest, Q w (i :: rest) → Q (w.pollChild i i) rest)
    (e : Eng Fix) (wid : Nat)
    (h0 : Q (e.w.emit (.pollBegin wid)) (P.order e.s)) :
    ∃ l, Q (Eng.poll P e wid).w l := by
  -- one iteration
  have hvisit : ∀ (e : Eng Fix) (i : Nat) (rest : List Nat), Q e.w (i :: rest) →
      ((Eng.visit P e i).2 = none → Q (Eng.visit P e i).1.w rest) ∧
      (∀ o, (Eng.visit P e i).2 = some o → ∃ l, Q (Eng.visit P e i).1.w l) := by
    intro e i rest h
    refine Eng.visit_ind P e i
      (fun r => (r.2 = none → Q r.1.w rest) ∧ (∀ o, r.2 = some o → ∃ l, Q r.1.w l)) ?_ ?_ ?_ ?_
    · intro _ _
      exact ⟨fun hn => by simp at hn, fun o _ => ⟨_, h⟩⟩
    · intro _ _
      exact ⟨fun _ => hskip _ _ _ (hneu _ _ _ (Neutral.gateW e i) h), fun o ho => by simp at ho⟩
    · intro _ _ _
      rw [L.child_id]
      refine ⟨fun hn => by simp at hn, fun o _ => ⟨rest, ?_⟩⟩
      exact hneu _ _ _ (Neutral.emits _ _ (L.evs_panic e.s))
        (hchild _ _ _ (hneu _ _ _ (Neutral.gateW e i) h))
    · intro _ _ _
      rw [L.child_id]
      have hq : Q (Eng.applyH { e with w := (Eng.gateW P e i).pollChild i i }
          (P.handle e.s i (e.w.resOf i))).w rest := by
        simp only [Eng.applyH_w]
        exact hneu _ _ _ ((Neutral.emits _ _ (L.evs_handle e.s i _)).trans (Neutral.kop _ _))
          (hchild _ _ _ (hneu _ _ _ (Neutral.gateW e i) h))
      exact ⟨fun _ => hq, fun o _ => ⟨rest, hq⟩⟩
  -- the loop
  have hscan : ∀ (l : List Nat) (e : Eng Fix), Q e.w l →
      ((Eng.scan P l e).2 = none → Q (Eng.scan P l e).1.w []) ∧
      (∀ o, (Eng.scan P l e).2 = some o → ∃ l', Q (Eng.scan P l e).1.w l') := by
    intro l
    induction l with
    | nil => intro e h; exact ⟨fun _ => h, fun o ho => by simp [Eng.scan] at ho⟩
    | cons i rest ih =>
      intro e h
      have hv := hvisit e i rest h
      unfold Eng.scan
      cases hvis : (Eng.visit P e i).2 with
      | some o =>
        simp only
        exact ⟨fun hn => by simp at hn, fun o' _ => hv.2 o hvis⟩
      | none =>
        simp only
        exact ih _ (hv.1 hvis)
  -- leaving the loop
  have hclose : ∀ (r : Eng Fix × Option Outcome), (r.2 = none → Q r.1.w []) →
      (∀ o, r.2 = some o → ∃ l', Q r.1.w l') → ∃ l', Q (Eng.close P r).w l' := by
    intro r h1 h2
    unfold Eng.close
    split
    · rename_i o ho
      obtain ⟨l', hl'⟩ := h2 o ho
      exact ⟨l', hneu _ _ _ (Neutral.emit _ _ rfl) hl'⟩
    · rename_i hn
      refine ⟨[], ?_⟩
      simp only [Eng.emit_w, Eng.applyH_w]
      exact hneu _ _ _ (((Neutral.emits _ _ (L.evs_finish r.1.s)).trans (Neutral.kop _ _)).trans
        (Neutral.emit _ _ rfl)) (h1 hn)
  unfold Eng.poll
  split
  · exact ⟨_, hneu _ _ _ (Neutral.emit _ _ rfl) h0⟩
  · unfold Eng.body
    split
    · exact ⟨_, hneu _ _ _ ((Neutral.setWaker _ _).trans (Neutral.emit _ _ rfl)) h0⟩
    · have hs := hscan (P.order e.s)
        { w := (e.w.emit (.pollBegin wid)).setWaker wid, s := P.start e.s }
        (hneu _ _ _ (Neutral.setWaker _ _) h0)
      exact hclose _ hs.1 hs.2

/-! ### the segment a poll appends -/

/-- events that occur inside a top-level poll -/
def segEv : Ev → Bool
  | .pollBegin _ | .dropBegin | .dropEnd => false
  | _ => true

theorem segEv_of_fire (e : Ev) (h : isFireEv e = true) : segEv e = true := by
  cases e <;> simp_all [isFireEv, segEv]

theorem segEv_of_neutral (e : Ev) (h : neutralEv e = true) : segEv e = true := by
  cases e <;> simp_all [neutralEv, segEv]

theorem Eng.poll_seg {P : Policy Fix} (L : Lawful P) (e : Eng Fix) (wid : Nat) :
    ∃ l, (Eng.poll P e wid).w.trace = l ++ .pollBegin wid :: e.w.trace ∧
      ∀ ev ∈ l, segEv ev = true := by
  have := Eng.poll_ind L
    (fun w _ => ∃ l, w.trace = l ++ .pollBegin wid :: e.w.trace ∧ ∀ ev ∈ l, segEv ev = true)
    ?_ ?_ ?_ e wid ⟨[], rfl, by simp⟩
  · obtain ⟨_, h⟩ := this; exact h
  · intro w w' _ hn ⟨l, hl, hp⟩
    obtain ⟨l2, e2, p2⟩ := hn.tr
    refine ⟨l2 ++ l, by rw [e2, hl, List.append_assoc], ?_⟩
    intro ev hev
    simp only [List.mem_append] at hev
    rcases hev with hev | hev
    · exact segEv_of_neutral ev (p2 ev hev)
    · exact hp ev hev
  · intro w i rest h; exact h
  · intro w i rest ⟨l, hl, hp⟩
    obtain ⟨l2, e2, p2⟩ := World.pollChild_seg w i i
    refine ⟨.childEnd i (w.resOf i) :: (l2 ++ .childBegin i i (w.wakerFor i) :: l), ?_, ?_⟩
    · rw [e2, hl]; simp
    · intro ev hev
      simp only [List.mem_cons, List.mem_append] at hev
      rcases hev with rfl | hev | rfl | hev
      · rfl
      · exact segEv_of_fire ev (p2 ev hev)
      · rfl
      · exact hp ev hev

/-- a poll always ends with its `pollEnd` -/
theorem Eng.poll_head (P : Policy Fix) (e : Eng Fix) (wid : Nat) :
    ∃ o t, (Eng.poll P e wid).w.trace = .pollEnd o :: t := by
  unfold Eng.poll
  split
  · exact ⟨_, _, rfl⟩
  · unfold Eng.body
    split
    · exact ⟨_, _, rfl⟩
    · unfold Eng.close
      split
      · exact ⟨_, _, rfl⟩
      · exact ⟨_, _, rfl⟩

/-! ### observations across a poll segment -/

theorem cur_seg (l t : List Ev) (hl : ∀ e ∈ l, segEv e = true) : cur (l ++ t) = cur t :=
  skip_seg cur segEv (fun e t h => by cases e <;> simp_all [segEv, cur]) l hl t

theorem alive_seg (l t : List Ev) (hl : ∀ e ∈ l, segEv e = true) : alive (l ++ t) = alive t :=
  skip_seg alive segEv (fun e t h => by cases e <;> simp_all [segEv, alive]) l hl t

theorem gone_mono (l t : List Ev) (c : Nat) (h : gone t c = true) : gone (l ++ t) c = true := by
  induction l with
  | nil => exact h
  | cons e l ih => cases e <;> simp_all [gone]

end Fc
