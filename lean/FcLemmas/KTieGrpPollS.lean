/-
  FcLemmas/KTieGrpPollS.lean — `StreamGroup::poll_next_inner` (translated, FcGen/KSrcGrp.lean) refines
  `Eng.poll group` (steps (c)–(e) of the plan; (a), (b), (d) are in FcLemmas/KTieGrpPollBase.lean).

  `RelS` is the loop invariant: the carried group / environment / `done_count` read as the model state, `ret` still
  `Pending`, the key set `K` is untouched during the scan, the keys still to be visited are distinct keys that are
  not in the removal queue, every key outside the queue is an occupied slab entry, `len` counts the keys outside
  the queue, `done_count + remaining ≤ stream_count` (what makes `done_count == stream_count` false after an item).
  `FinS`: the state after the iteration that `break`s with an item (the model flushes the queue at once, the code
  after the loop).  The second loop (`key_removal_queue` → `keys.remove`) is `forBreak_inv`.
-/
import FcLemmas.KTieGrpPollDefs
set_option linter.unusedSimpArgs false
set_option linter.unusedVariables false
namespace Fc
open Rs Src
namespace TieGrpS
open GrpS

theorem StreamSteps_res (env : World) (h : StreamSteps env) (c : Nat) :
    env.resOf c = .pend ∨ env.resOf c = .fin ∨ ∃ v, env.resOf c = .item v := by
  rcases resOf_mem env c with h1 | ⟨st, hm, h1⟩
  · exact Or.inl h1
  · rw [h1]; exact h c st hm

theorem ite_some_triple {α β γ : Type} (c : Prop) [Decidable c] (a : α) (b : β) (x y : γ) :
    (if c then some (a, b, x) else some (a, b, y)) = some (a, b, if c then x else y) := by
  split <;> rfl

abbrev LoopS := StreamGroup × World × Rs.Poll (Option (Nat × Nat)) × Nat

def Occ (g : StreamGroup) (k : Nat) : Prop :=
  k < g.roleCapacity ∧ k < g.roleSlab.entries ∧ ∃ c, g.roleSlab.member k = some c

/-- the loop invariant: `K` the key set (unchanged during the scan), `s0` what the crate does not store -/
def RelS (s0 : Grp) (K : List Nat) (l : List Nat) (x : LoopS) (e : Eng Grp) : Prop :=
  x.2.2.1 = .pending ∧ WfG x.1 ∧ x.1.roleWakers.readiness.roleParent ≠ none ∧
  HandedOk x.1.roleCapacity x.2.1 ∧ StreamSteps x.2.1 ∧
  x.1.roleKeys.elems = K ∧ l.Nodup ∧ (∀ k ∈ l, k ∈ K ∧ k ∉ x.1.roleQueue) ∧
  (∀ k ∈ K, k ∉ x.1.roleQueue → Occ x.1 k) ∧
  x.1.roleSlab.len = (K.filter (fun y => !x.1.roleQueue.contains y)).length ∧
  x.2.2.2 + l.length ≤ s0.total ∧
  e = absS x.1 ⟨x.2.1, { s0 with doneCnt := x.2.2.2 }⟩

/-- after the iteration that found an item of member `k` -/
def FinS (s0 : Grp) (K : List Nat) (x : LoopS) (e : Eng Grp) (o : Outcome) : Prop :=
  ∃ k v, x.2.2.1 = .ready (some (k, v)) ∧ o = .some (s0.outKey k) [v] ∧ WfG x.1 ∧
    HandedOk x.1.roleCapacity x.2.1 ∧
    x.1.roleKeys.elems = K ∧
    (∀ k ∈ K, k ∉ x.1.roleQueue → Occ x.1 k) ∧
    x.1.roleSlab.len = (K.filter (fun y => !x.1.roleQueue.contains y)).length ∧
    x.2.2.2 < s0.total ∧
    e = { w := TieVec.abs x.1.roleWakers.readiness x.2.1,
          s := (absS x.1 ⟨x.2.1, { s0 with doneCnt := x.2.2.2 }⟩).s.flushQueue }

theorem poll_tie_main (g : StreamGroup) (b : Eng Grp) (w : Nat)
    (hw : WfG g) (hk : GoodKeys g) (hf : StreamSteps b.w) (hh : HandedOk g.roleCapacity b.w)
    (hst : b.s.stream = true) (hd : b.s.dead = false) :
    ∃ g' env' ret,
      StreamGroup.poll_next_inner g w ((absS g b).w.emit (.pollBegin w)) = some (g', env', ret) ∧
      WfG g' ∧ GoodKeys g' ∧
      core (absS g' b) = core (Eng.poll group (absS g b) w) ∧
      env'.scripts = (Eng.poll group (absS g b) w).w.scripts ∧
      env'.handed = (Eng.poll group (absS g b) w).w.handed ∧
      (Eng.poll group (absS g b) w).w.trace = .pollEnd (outcomeOf b.s.keyed ret) :: env'.trace ∧
      HandedOk g'.roleCapacity env' := by
  have hd' : (absS g b).s.dead = false := hd
  by_cases hne : g.roleSlab.len = 0
  · have hl : (absS g b).s.len = 0 := hne
    rw [poll_model_empty _ _ hd' hl]
    refine ⟨g, (absS g b).w.emit (.pollBegin w), .ready none, ?_, hw, hk, rfl, rfl, rfl, rfl, hh⟩
    unfold StreamGroup.poll_next_inner
    simp only [StreamGroup.roleSlab] at hne
    simp [Slab.isEmpty, hne]
  · have hl : (absS g b).s.len ≠ 0 := hne
    have hw0 := hw
    obtain ⟨hrd, hnw, hsl, hsh⟩ := hw
    obtain ⟨r1, hs1, hs2, hs3⟩ := TieVec.set_waker_tie g.roleCapacity g.roleWakers.readiness
      ((absS g b).w.emit (.pollBegin w)) w hrd
    have hW : ((absS g b).w.emit (.pollBegin w)).setWaker w
        = TieVec.abs r1 ((absS g b).w.emit (.pollBegin w)) := by rw [hs3]; rfl
    have hany := TieVec.any_ready_tie r1 ((absS g b).w.emit (.pollBegin w))
    simp only [StreamGroup.roleSlab, StreamGroup.roleWakers] at hne hs1
    cases ha : (TieVec.abs r1 ((absS g b).w.emit (.pollBegin w))).anyReady
    · rw [poll_model_idle _ _ hd' hl (hW ▸ ha), hW]
      unfold StreamGroup.poll_next_inner
      simp [Slab.isEmpty, hne, hs1, hany, ha]
      exact ⟨_, _, _, ⟨rfl, rfl, rfl⟩, ⟨hs2, hnw, hsl, hsh⟩, ⟨hk.nodup, hk.occ, hk.emp, hk.cnt, hk.q⟩, rfl, rfl, rfl, ⟨rfl, rfl⟩, hh⟩
    · rw [poll_model_loop _ _ hd' hl (hW ▸ ha), hW]
      generalize hM : Eng.scan group _ _ = M
      unfold StreamGroup.poll_next_inner
      simp [Slab.isEmpty, hne, hs1, hany, ha]
      generalize hfb : Rs.forBreak g.roleKeys.elems _ _ = fb
      obtain ⟨s0, hs0⟩ : ∃ s0 : Grp, s0 = { b.s with doneCnt := 0, total := g.roleSlab.len } := ⟨_, rfl⟩
      have htot : s0.total = g.roleSlab.len := by rw [hs0]
      have H : ∃ s', fb = some s' ∧
          ((M.2 = none ∧ RelS s0 g.roleKeys.elems [] s' M.1) ∨
           (∃ o, M.2 = some o ∧ FinS s0 g.roleKeys.elems s' M.1 o)) := by
        rw [← hM]
        refine forBreak_scan group (RelS s0 g.roleKeys.elems) (FinS s0 g.roleKeys.elems) _ ?_ _ _ _ _ ?_ hfb
        rotate_left
        · have hq := hk.q
          refine ⟨rfl, ⟨hs2, hnw, hsl, hsh⟩, ?_, hh, hf, rfl, hk.nodup, ?_, ?_, ?_, ?_, ?_⟩
          · have := TieVec.abs_inj_parent hW.symm
            simp at this
            simp [this]
          · intro k hkk; refine ⟨hkk, ?_⟩
            show k ∉ g.roleQueue
            rw [hq]; simp
          · intro k hkk _; exact hk.occ k hkk
          · show g.roleSlab.len = (List.filter (fun y => !g.roleQueue.contains y) g.roleKeys.elems).length
            rw [hq, filter_true_eq]; exact hk.cnt
          · show 0 + g.roleKeys.elems.length ≤ s0.total
            rw [htot, hk.cnt]; omega
          · subst hs0; rfl
        have hKn := hk.nodup
        generalize g.roleKeys.elems = K at hKn
        clear hfb hM hany ha hW hs3 hs2 hs1 hsh hsl hnw hrd hw0 hl hne hd' hd hst hh hf hk htot
        rintro k rest ⟨g2, env2, ret2, dc⟩ e ⟨hret, hw2, hp2, hh2, hf2, hK, hnd, hin, hocc, hlen, hdc, he⟩
        simp only at hret hw2 hp2 hh2 hf2 hK hnd hin hocc hlen hdc he
        subst hret he
        obtain ⟨hrd2, hnw2, hsl2, hsh2⟩ := hw2
        obtain ⟨hkK, hkq⟩ := hin k (by simp)
        obtain ⟨hkc, hke, c, hkm⟩ := hocc k hkK hkq
        have hkl : k < g2.roleStates.len := by rw [hsl2]; exact hkc
        have hps := (TiePS.tie (g2.roleStates.get k)).2.1
        rw [List.nodup_cons] at hnd
        have hin' : ∀ k' ∈ rest, k' ∈ K ∧ k' ∉ g2.roleQueue := fun k' h => hin k' (List.mem_cons_of_mem _ h)
        have hdc' : dc + rest.length ≤ s0.total := by simp at hdc; omega
        by_cases hpend : TiePS.abs (g2.roleStates.get k) = .pending
        · obtain ⟨r', hc1, hc2, hc3⟩ := TieVec.clear_ready_tie g2.roleCapacity g2.roleWakers.readiness env2 k hrd2 hkc
          have hp' : r'.roleParent ≠ none := by rw [TieVec.abs_inj_parent hc3]; simpa using hp2
          cases hset : (TieVec.abs g2.roleWakers.readiness env2).isSet k
          · rw [hset] at hc1
            rw [visit_clear _ k hpend hset]
            simp only [StreamGroup.roleStates, StreamGroup.roleWakers] at hkl hps hpend hc1
            simp [PVec.idx, hkl, hps, hpend, hc1]
            refine ⟨rfl, ⟨hc2, hnw2, hsl2, hsh2⟩, hp', hh2, hf2, hK, hnd.2, hin', hocc, hlen, hdc', ?_⟩
            simp only [absS]
            rw [hc3]
          · rw [hset] at hc1
            obtain ⟨r'', env'', hpc, hwf'', hp'', hh'', hsc'', habs''⟩ :=
              TieVec.pollChild_tie g2.roleCapacity r' env2 c k hc2 hp' hh2 hkc
            have hf'' : StreamSteps env'' := by
              intro c' st hm; rw [hsc''] at hm; exact hf2 c' st (mem_upd_tail hm)
            have hmem : ((absS g2 ⟨env2, { s0 with doneCnt := dc }⟩).s.member k).getD 0 = c := by
              show (g2.roleSlab.member k).getD 0 = c
              rw [hkm]; rfl
            have hkn : k < g2.roleWakers.nwakers := by rw [hnw2]; exact hkc
            have hW2 : ((absS g2 ⟨env2, { s0 with doneCnt := dc }⟩).w.clearReady k).pollChild c k
                = TieVec.abs r'' env'' := by
              rw [habs'', hc3]; rfl
            rcases StreamSteps_res env2 hf2 c with hres | hres | ⟨v, hres⟩
            · rw [visit_go _ k hpend hset (by rw [hmem]; show env2.resOf c ≠ _; rw [hres]; simp)]
              rw [hmem]
              have hres' : (absS g2 ⟨env2, { s0 with doneCnt := dc }⟩).w.resOf c = .pend := hres
              rw [hres', hW2]
              simp only [StreamGroup.roleStates, StreamGroup.roleWakers, StreamGroup.roleSlab] at hkl hps hpend hc1 hkn hke hkm
              simp [PVec.idx, hkl, hps, hpend, hc1, WakerVec.get, expect, hkn, Slab.get, hke, hkm, pollStream, hpc, hres]
              refine ⟨by simp [group], rfl, ⟨hwf'', hnw2, hsl2, hsh2⟩, hp'', hh'', hf'', hK, hnd.2, hin', hocc, hlen, hdc', ?_⟩
              simp [Eng.applyH, group, World.kop]
              rfl
            · rw [visit_go _ k hpend hset (by rw [hmem]; show env2.resOf c ≠ _; rw [hres]; simp)]
              rw [hmem]
              have hres' : (absS g2 ⟨env2, { s0 with doneCnt := dc }⟩).w.resOf c = .fin := hres
              rw [hres', hW2]
              simp only [StreamGroup.roleStates, StreamGroup.roleWakers, StreamGroup.roleSlab] at hkl hps hpend hc1 hkn hke hkm
              simp [PVec.idx, PVec.set, Slab.remove, uadd, hkl, hps, hpend, hc1, WakerVec.get, expect, hkn, Slab.get, hke, hkm, pollStream, hpc, hres]
              have hsnoc := length_filter_snoc K g2.roleQueue k hKn hkK hkq
              refine ⟨by simp [group], rfl, ⟨hwf'', hnw2, hsl2, ?_⟩, hp'', hh'', hf'', hK, hnd.2, ?_, ?_, ?_, ?_, ?_⟩
              · intro j hj
                show (if j = k then PS.PollState.none_ else g2.roleStates.get j) = _
                split
                · rfl
                · exact hsh2 j hj
              · intro k' hk'
                obtain ⟨h1, h2⟩ := hin' k' hk'
                refine ⟨h1, ?_⟩
                show k' ∉ g2.roleQueue ++ [k]
                have : k' ≠ k := fun h => hnd.1 (h ▸ hk')
                simp [h2, this]
              · intro k' hk' hq'
                have hq'' : k' ∉ g2.roleQueue ++ [k] := hq'
                simp at hq''
                obtain ⟨a1, a2, c', a3⟩ := hocc k' hk' hq''.1
                refine ⟨a1, a2, c', ?_⟩
                show (if k' = k then none else g2.roleSlab.member k') = _
                rw [if_neg hq''.2]; exact a3
              · show g2.roleSlab.len - 1 = (List.filter (fun y => !(g2.roleQueue ++ [k]).contains y) K).length
                omega
              · show dc + 1 + rest.length ≤ s0.total
                simp at hdc; omega
              · simp [Eng.applyH, group, World.kop, Grp.slabRemove, World.emits, World.emit, absS, TieVec.abs,
                  World.withStd, hkm]
                refine ⟨?_, ?_, ?_⟩ <;> (funext j; by_cases hj : j = k <;> simp [upd, hj, TiePS.abs])
            · rw [visit_go _ k hpend hset (by rw [hmem]; show env2.resOf c ≠ _; rw [hres]; simp)]
              rw [hmem]
              have hres' : (absS g2 ⟨env2, { s0 with doneCnt := dc }⟩).w.resOf c = .item v := hres
              rw [hres', hW2]
              obtain ⟨r3, hr1, hr2, hr3⟩ := TieVec.set_ready_tie g2.roleCapacity r'' env'' k hwf'' hkc
              simp only [StreamGroup.roleStates, StreamGroup.roleWakers, StreamGroup.roleSlab] at hkl hps hpend hc1 hkn hke hkm
              simp [PVec.idx, PVec.set, hkl, hps, hpend, hc1, WakerVec.get, expect, hkn, Slab.get, hke, hkm, pollStream, hpc, hres, hr1]
              refine ⟨_, rfl, k, v, rfl, rfl, ⟨hr2, hnw2, hsl2, ?_⟩, hh'', hK, hocc, hlen, ?_, ?_⟩
              · intro j hj
                show (if j = k then PS.PollState.pending else g2.roleStates.get j) = _
                have hj' : g2.roleCapacity ≤ j := hj
                have : j ≠ k := by omega
                rw [if_neg this]; exact hsh2 j hj
              · show dc < s0.total
                simp at hdc; omega
              · simp [Eng.applyH, group, World.kop, World.emits, absS, Grp.flushQueue]
                refine ⟨hr3.symm, ?_⟩
                funext j
                by_cases hj : j = k
                · subst hj; simp [hpend]; simp [TiePS.abs]
                · simp [hj]
        · rw [visit_skip _ k hpend]
          simp only [StreamGroup.roleStates] at hkl hps hpend
          simp [PVec.idx, hkl, hps, hpend]
          exact ⟨rfl, ⟨hrd2, hnw2, hsl2, hsh2⟩, hp2, hh2, hf2, hK, hnd.2, hin', hocc, hlen, hdc', rfl⟩
      obtain ⟨⟨g3, env3, ret3, dc3⟩, rfl, hS⟩ := H
      clear hfb hM
      obtain ⟨M1, M2⟩ := M
      have hkeyed : s0.keyed = b.s.keyed := by rw [hs0]
      have hstream : s0.stream = true := by rw [hs0]; exact hst
      have hK3 : g3.roleKeys.elems = g.roleKeys.elems := by
        rcases hS with ⟨-, -, -, -, -, -, hK, -⟩ | ⟨o, -, k, v, -, -, -, -, hK, -⟩
        · exact hK
        · exact hK
      have key : ∀ g4 : StreamGroup,
          g4.roleKeys.elems = g.roleKeys.elems.filter (fun y => !g3.roleQueue.contains y) → g4.roleQueue = [] →
          g4.roleSlab = g3.roleSlab → g4.roleWakers = g3.roleWakers → g4.roleStates = g3.roleStates →
          g4.roleCapacity = g3.roleCapacity →
          WfG g4 ∧ GoodKeys g4 ∧ core (absS g4 b) = core (Eng.close group (M1, M2)) ∧
            env3.scripts = (Eng.close group (M1, M2)).w.scripts ∧
            env3.handed = (Eng.close group (M1, M2)).w.handed ∧
            (Eng.close group (M1, M2)).w.trace =
              .pollEnd (outcomeOf b.s.keyed (if dc3 = g.roleSlab.len then .ready none else ret3)) :: env3.trace ∧
            HandedOk g4.roleCapacity env3 := by
        intro g4 h1 h2 h3 h4 h5 h6
        have common : WfG g3 ∧ (∀ k ∈ g.roleKeys.elems, k ∉ g3.roleQueue → Occ g3 k) ∧
            g3.roleSlab.len = (g.roleKeys.elems.filter (fun y => !g3.roleQueue.contains y)).length ∧
            HandedOk g3.roleCapacity env3 := by
          rcases hS with ⟨-, -, hw3, -, hh3, -, -, -, -, hocc, hlen, -, -⟩ | ⟨o, -, k, v, -, -, hw3, hh3, -, hocc, hlen, -, -⟩
          · exact ⟨hw3, hocc, hlen, hh3⟩
          · exact ⟨hw3, hocc, hlen, hh3⟩
        obtain ⟨⟨a1, a2, a3, a4⟩, hocc, hlen, hh3⟩ := common
        have hcnt4 : g4.roleSlab.len = g4.roleKeys.elems.length := by rw [h3, h1]; exact hlen
        refine ⟨⟨by rw [h4, h6]; exact a1, by rw [h4, h6]; exact a2, by rw [h5, h6]; exact a3,
                 by rw [h5, h6]; exact a4⟩, ⟨by rw [h1]; exact hk.nodup.filter _, ?_, ?_, hcnt4, h2⟩, ?_⟩
        · intro k hk4
          rw [h1] at hk4
          obtain ⟨m1, m2⟩ := List.mem_filter.mp hk4
          have := hocc k m1 (by simpa using m2)
          unfold Occ at this
          rw [h3, h6]; exact this
        · rw [hcnt4]; exact List.length_eq_zero_iff
        · refine (and_assoc.mp (and_assoc.mp (and_assoc.mp ⟨?_, by rw [h6]; exact hh3⟩)))
          rcases hS with ⟨hM2, hret, -, -, -, -, hK, -, -, -, -, -, hM1⟩ | ⟨o, hM2, k, v, hret, ho, -, -, hK, -, -, hdc, hM1⟩
          · simp only at hM2 hret hK hM1
            subst hM2 hret hM1
            by_cases hdone : dc3 = g.roleSlab.len
            · simp [Eng.close, group, Eng.applyH, Eng.emit, World.kop, Grp.flushQueue, core, absS, h1, h2, h3, h4, h5, h6,
                hK, TieVec.abs, World.withStd, hstream, htot, outcomeOf, hdone]
            · simp [Eng.close, group, Eng.applyH, Eng.emit, World.kop, Grp.flushQueue, core, absS, h1, h2, h3, h4, h5, h6,
                hK, TieVec.abs, World.withStd, hstream, htot, outcomeOf, hdone]
          · simp only at hM2 hret ho hK hdc hM1
            subst hM2 hret hM1 ho
            have hdone : dc3 ≠ g.roleSlab.len := by rw [← htot]; omega
            simp [Eng.close, group, Eng.applyH, Eng.emit, World.kop, Grp.flushQueue, core, absS, h1, h2, h3, h4, h5, h6,
                hK, TieVec.abs, World.withStd, hstream, htot, outcomeOf, hdone, Grp.outKey, hkeyed]
      clear hS
      by_cases hq : g3.roleQueue = []
      · have hq' := hq
        simp only [StreamGroup.roleQueue] at hq'
        refine ⟨g3, env3, if dc3 = g.roleSlab.len then .ready none else ret3, ?_,
          key g3 (by rw [hq, filter_true_eq]; exact hK3) hq rfl rfl rfl rfl⟩
        simp [hq']
        split <;> rfl
      · have hq' := hq
        simp only [StreamGroup.roleQueue] at hq'
        simp [hq']
        generalize hfb2 : Rs.forBreak _ _ _ = fb2
        have H2 : ∃ s', fb2 = some s' ∧ ∃ pre, g3.roleQueue = pre ++ [] ∧
            s'.1.roleKeys.elems = g.roleKeys.elems.filter (fun y => !pre.contains y) ∧
            s'.1.roleSlab = g3.roleSlab ∧ s'.1.roleWakers = g3.roleWakers ∧ s'.1.roleStates = g3.roleStates ∧
            s'.1.roleCapacity = g3.roleCapacity ∧ s'.2 = (env3, ret3, dc3) := by
          refine forBreak_inv (fun rest (x : LoopS) => ∃ pre, g3.roleQueue = pre ++ rest ∧
            x.1.roleKeys.elems = g.roleKeys.elems.filter (fun y => !pre.contains y) ∧
            x.1.roleSlab = g3.roleSlab ∧ x.1.roleWakers = g3.roleWakers ∧ x.1.roleStates = g3.roleStates ∧
            x.1.roleCapacity = g3.roleCapacity ∧ x.2 = (env3, ret3, dc3)) _ ?_ _ _ _
            ⟨[], rfl, by rw [filter_true_eq]; exact hK3, rfl, rfl, rfl, rfl, rfl⟩ hfb2
          rintro k rest ⟨g5, x5⟩ ⟨pre, e1, e2, e3, e4, e5, e6, e7⟩
          simp only at e1 e2 e3 e4 e5 e6 e7
          subst e7
          refine ⟨_, rfl, pre ++ [k], by rw [e1]; simp, ?_, e3, e4, e5, e6, rfl⟩
          show List.filter (· ≠ k) g5.roleKeys.elems = _
          rw [e2, filter_filter_ne]
        obtain ⟨⟨g5, x5⟩, rfl, pre, e1, e2, e3, e4, e5, e6, e7⟩ := H2
        simp only at e1 e2 e3 e4 e5 e6 e7
        subst e7
        simp only [List.append_nil] at e1
        subst e1
        refine ⟨?g4, env3, if dc3 = g.roleSlab.len then .ready none else ret3, ?eq, ?rest⟩
        case eq => exact ite_some_triple (dc3 = g.roleSlab.len) _ _ _ _
        exact key _ e2 rfl e3 e4 e5 e6
end TieGrpS
end Fc
