/-
  FcLemmas/C09.lean — zip: the slot table mirrors which inputs have delivered their item for the
  current row; the outcome of every poll is the one C09 demands.

  Also: `bracketed` (child polls are properly bracketed in a trace) and the global reading of the
  monitor on bracketed traces: every input is between 0 and 1 items ahead of the rows yielded.
-/
import FcLemmas.Seg
set_option linter.unusedSimpArgs false
set_option linter.unusedVariables false

namespace Fc
namespace C09
open Mon Fix

/-! ### well-formed child polls -/

/-- the child whose poll is in progress (a `childBegin` not yet closed by a `childEnd`) -/
def openChild : List Ev → Option Nat
  | [] => none
  | .childBegin c _ _ :: _ => some c
  | .childEnd _ _ :: _ => none
  | _ :: t => openChild t

/-- child polls are properly bracketed: every `childEnd c _` closes a `childBegin c _ _`, and child
    polls do not nest.  (The monitors only look at what is in the trace; that a child's answer
    belongs to a poll of that child is a well-formedness property of the log.) -/
def bracketed : List Ev → Bool
  | [] => true
  | .childBegin _ _ _ :: t => bracketed t && openChild t == none
  | .childEnd c _ :: t => bracketed t && openChild t == some c
  | _ :: t => bracketed t

/-- wake-up and ownership events: invisible to everything C09 looks at -/
def isSkip : Ev → Bool
  | .fired _ _ _ | .woke _ | .wakePanic | .childDropped _ | .valDropped _ => true
  | _ => false

theorem isSkip_fire (e : Ev) (h : isFireEv e = true) : isSkip e = true := by
  cases e <;> simp_all [isFireEv, isSkip]

theorem isSkip_own (e : Ev) (h : isOwnEv e = true) : isSkip e = true := by
  cases e <;> simp_all [isOwnEv, isSkip]

theorem itemsOf_skip (c : Nat) (e : Ev) (t : List Ev) (h : isSkip e = true) :
    itemsOf (e :: t) c = itemsOf t c := by
  cases e <;> simp_all [isSkip, itemsOf]

theorem rows_skip (e : Ev) (t : List Ev) (h : isSkip e = true) : rows (e :: t) = rows t := by
  cases e <;> simp_all [isSkip, rows]

theorem anyFin_skip (e : Ev) (t : List Ev) (h : isSkip e = true) : anyFin (e :: t) = anyFin t := by
  cases e <;> simp_all [isSkip, anyFin]

theorem holds_skip (n : Nat) (e : Ev) (t : List Ev) (h : isSkip e = true) :
    holds_C09 n (e :: t) = holds_C09 n t := by
  cases e <;> simp_all [isSkip, holds_C09]

theorem openChild_skip (e : Ev) (t : List Ev) (h : isSkip e = true) :
    openChild (e :: t) = openChild t := by
  cases e <;> simp_all [isSkip, openChild]

theorem bracketed_skip (e : Ev) (t : List Ev) (h : isSkip e = true) :
    bracketed (e :: t) = bracketed t := by
  cases e <;> simp_all [isSkip, bracketed]

/-- an observation that ignores `isSkip` events does not see the handler's ownership events -/
theorem seg_evs {α : Type} (g : List Ev → α) (hg : ∀ e t, isSkip e = true → g (e :: t) = g t)
    (c slot : Nat) (wk : Wk) (l : List Ev) (r : Res) (evs t : List Ev)
    (he : ∀ e ∈ evs, isOwnEv e = true) :
    g (pollSeg c slot wk l r evs t) = g (.childEnd c r :: (l ++ .childBegin c slot wk :: t)) := by
  unfold pollSeg
  exact skip_seg g isSkip hg evs.reverse (fun e h => isSkip_own e (he e (List.mem_reverse.mp h))) _

/-- … nor the wake-ups during a child's poll -/
theorem seg_l {α : Type} (g : List Ev → α) (hg : ∀ e t, isSkip e = true → g (e :: t) = g t)
    (l t : List Ev) (hl : ∀ e ∈ l, isFireEv e = true) : g (l ++ t) = g t :=
  skip_seg g isSkip hg l (fun e h => isSkip_fire e (hl e h)) t

/-! ### one child poll, as the C09 observations see it -/

theorem rows_pollSeg (c slot : Nat) (wk : Wk) (l : List Ev) (r : Res) (evs t : List Ev)
    (hl : ∀ e ∈ l, isFireEv e = true) (he : ∀ e ∈ evs, isOwnEv e = true) :
    rows (pollSeg c slot wk l r evs t) = rows t := by
  rw [seg_evs rows rows_skip c slot wk l r evs t he]
  simp only [rows]
  rw [seg_l rows rows_skip l _ hl]
  simp only [rows]

theorem itemsOf_pollSeg_item (c slot : Nat) (wk : Wk) (l : List Ev) (v : Nat) (evs t : List Ev)
    (j : Nat) (hl : ∀ e ∈ l, isFireEv e = true) (he : ∀ e ∈ evs, isOwnEv e = true) :
    itemsOf (pollSeg c slot wk l (.item v) evs t) j
      = if c = j then v :: itemsOf t j else itemsOf t j := by
  rw [seg_evs (fun t => itemsOf t j) (itemsOf_skip j) c slot wk l _ evs t he]
  simp only [itemsOf]
  rw [seg_l (fun t => itemsOf t j) (itemsOf_skip j) l _ hl]
  simp only [itemsOf]

theorem itemsOf_pollSeg_other (c slot : Nat) (wk : Wk) (l : List Ev) (r : Res) (evs t : List Ev)
    (j : Nat) (hl : ∀ e ∈ l, isFireEv e = true) (he : ∀ e ∈ evs, isOwnEv e = true)
    (hr : ∀ v, r ≠ .item v) :
    itemsOf (pollSeg c slot wk l r evs t) j = itemsOf t j := by
  rw [seg_evs (fun t => itemsOf t j) (itemsOf_skip j) c slot wk l _ evs t he]
  have h1 : itemsOf (.childEnd c r :: (l ++ .childBegin c slot wk :: t)) j
      = itemsOf (l ++ .childBegin c slot wk :: t) j := by
    cases r <;> simp_all [itemsOf]
  rw [h1, seg_l (fun t => itemsOf t j) (itemsOf_skip j) l _ hl]
  simp only [itemsOf]

theorem anyFin_pollSeg (c slot : Nat) (wk : Wk) (l : List Ev) (r : Res) (evs t : List Ev)
    (hl : ∀ e ∈ l, isFireEv e = true) (he : ∀ e ∈ evs, isOwnEv e = true) (hr : r ≠ .fin) :
    anyFin (pollSeg c slot wk l r evs t) = anyFin t := by
  rw [seg_evs anyFin anyFin_skip c slot wk l _ evs t he]
  have h1 : anyFin (.childEnd c r :: (l ++ .childBegin c slot wk :: t))
      = anyFin (l ++ .childBegin c slot wk :: t) := by
    cases r <;> simp_all [anyFin]
  rw [h1, seg_l anyFin anyFin_skip l _ hl]
  simp only [anyFin]

/-- the `None` of an input is seen in the poll in which it is returned -/
theorem anyFin_since_fin (c slot : Nat) (wk : Wk) (l : List Ev) (evs t : List Ev)
    (he : ∀ e ∈ evs, isOwnEv e = true) :
    anyFin (sincePoll (pollSeg c slot wk l .fin evs t)) = true := by
  unfold pollSeg
  have key : ∀ es : List Ev, (∀ e ∈ es, isOwnEv e = true) →
      anyFin (sincePoll (es ++ .childEnd c .fin :: (l ++ .childBegin c slot wk :: t))) = true := by
    intro es hes
    induction es with
    | nil => simp [sincePoll, anyFin]
    | cons e es ih =>
      have h1 := hes e (List.mem_cons_self ..)
      have h2 := ih (fun e' he' => hes e' (List.mem_cons_of_mem _ he'))
      cases e <;> simp_all [isOwnEv, sincePoll, anyFin]
  exact key evs.reverse (fun e h => he e (List.mem_reverse.mp h))

theorem holds_pollSeg (n c slot : Nat) (wk : Wk) (l : List Ev) (r : Res) (evs t : List Ev)
    (hl : ∀ e ∈ l, isFireEv e = true) (he : ∀ e ∈ evs, isOwnEv e = true) :
    holds_C09 n (pollSeg c slot wk l r evs t)
      = (holds_C09 n t && !anyFin t && (itemsOf t c).length == rows t) := by
  rw [seg_evs (holds_C09 n) (holds_skip n) c slot wk l _ evs t he]
  simp only [holds_C09]
  rw [seg_l (holds_C09 n) (holds_skip n) l _ hl]
  simp only [holds_C09]

theorem openChild_pollSeg (c slot : Nat) (wk : Wk) (l : List Ev) (r : Res) (evs t : List Ev)
    (he : ∀ e ∈ evs, isOwnEv e = true) :
    openChild (pollSeg c slot wk l r evs t) = none := by
  rw [seg_evs openChild openChild_skip c slot wk l _ evs t he]
  simp only [openChild]

theorem bracketed_pollSeg (c slot : Nat) (wk : Wk) (l : List Ev) (r : Res) (evs t : List Ev)
    (hl : ∀ e ∈ l, isFireEv e = true) (he : ∀ e ∈ evs, isOwnEv e = true)
    (hb : bracketed t = true) (ho : openChild t = none) :
    bracketed (pollSeg c slot wk l r evs t) = true := by
  rw [seg_evs bracketed bracketed_skip c slot wk l _ evs t he]
  simp only [bracketed]
  rw [seg_l bracketed bracketed_skip l _ hl, seg_l openChild openChild_skip l _ hl]
  simp [bracketed, openChild, hb, ho]

/-! ### the global reading of the monitor -/

/-- on a bracketed trace the monitor accepts, every input `c < n` has produced `rows` or
    `rows + 1` items, and exactly `rows` while it is being polled -/
theorem rows_bound (n : Nat) (t : List Ev) (h : holds_C09 n t = true) (hb : bracketed t = true)
    (c : Nat) (hc : c < n) :
    rows t ≤ (itemsOf t c).length ∧ (itemsOf t c).length ≤ rows t + 1 ∧
      (openChild t = some c → (itemsOf t c).length = rows t) := by
  induction t with
  | nil => simp [rows, itemsOf, openChild]
  | cons e t ih =>
    cases e with
    | pollEnd o =>
      simp only [holds_C09, Bool.and_eq_true] at h
      simp only [bracketed] at hb
      obtain ⟨h1, h2, h3⟩ := ih h.1 hb
      cases o with
      | some k vs =>
        have hf : (itemsOf t c).length = rows t + 1 := by
          have := h.2
          simp only [c09At, rowFull, Bool.and_eq_true, List.all_eq_true, List.mem_range,
            beq_iff_eq] at this
          exact this.1.2 c hc
        simp only [rows, itemsOf, openChild]
        refine ⟨by omega, by omega, fun ho => ?_⟩
        have := h3 ho
        omega
      | pending => simpa [rows, itemsOf, openChild] using ⟨h1, h2, h3⟩
      | ready ok vs => simpa [rows, itemsOf, openChild] using ⟨h1, h2, h3⟩
      | none => simpa [rows, itemsOf, openChild] using ⟨h1, h2, h3⟩
      | panicked => simpa [rows, itemsOf, openChild] using ⟨h1, h2, h3⟩
      | misuse => simpa [rows, itemsOf, openChild] using ⟨h1, h2, h3⟩
    | childBegin c' slot wk =>
      simp only [holds_C09, Bool.and_eq_true, beq_iff_eq] at h
      simp only [bracketed, Bool.and_eq_true] at hb
      obtain ⟨h1, h2, h3⟩ := ih h.1.1 hb.1
      simp only [rows, itemsOf, openChild, Option.some.injEq]
      refine ⟨h1, h2, fun hcc => ?_⟩
      subst hcc
      exact h.2
    | childEnd c' r =>
      simp only [bracketed, Bool.and_eq_true, beq_iff_eq] at hb
      have h' : holds_C09 n t = true := by simpa [holds_C09] using h
      obtain ⟨h1, h2, h3⟩ := ih h' hb.1
      cases r with
      | item v =>
        simp only [rows, itemsOf, openChild]
        by_cases hcc : c' = c
        · subst hcc
          have := h3 hb.2
          simp only [if_true, List.length_cons]
          refine ⟨by omega, by omega, fun ho => by cases ho⟩
        · simp only [hcc, if_false]
          exact ⟨h1, h2, fun ho => by cases ho⟩
      | pend => simpa [rows, itemsOf, openChild] using ⟨h1, h2⟩
      | ready ok v => simpa [rows, itemsOf, openChild] using ⟨h1, h2⟩
      | fin => simpa [rows, itemsOf, openChild] using ⟨h1, h2⟩
      | panic => simpa [rows, itemsOf, openChild] using ⟨h1, h2⟩
    | pollBegin w =>
      simpa [rows, itemsOf, openChild] using ih (by simpa [holds_C09] using h) (by simpa [bracketed] using hb)
    | fired a b w =>
      simpa [rows, itemsOf, openChild] using ih (by simpa [holds_C09] using h) (by simpa [bracketed] using hb)
    | woke w =>
      simpa [rows, itemsOf, openChild] using ih (by simpa [holds_C09] using h) (by simpa [bracketed] using hb)
    | wakePanic =>
      simpa [rows, itemsOf, openChild] using ih (by simpa [holds_C09] using h) (by simpa [bracketed] using hb)
    | childDropped a =>
      simpa [rows, itemsOf, openChild] using ih (by simpa [holds_C09] using h) (by simpa [bracketed] using hb)
    | valDropped a =>
      simpa [rows, itemsOf, openChild] using ih (by simpa [holds_C09] using h) (by simpa [bracketed] using hb)
    | dropBegin =>
      simpa [rows, itemsOf, openChild] using ih (by simpa [holds_C09] using h) (by simpa [bracketed] using hb)
    | dropEnd =>
      simpa [rows, itemsOf, openChild] using ih (by simpa [holds_C09] using h) (by simpa [bracketed] using hb)
    | inserted a b =>
      simpa [rows, itemsOf, openChild] using ih (by simpa [holds_C09] using h) (by simpa [bracketed] using hb)
    | removed a b =>
      simpa [rows, itemsOf, openChild] using ih (by simpa [holds_C09] using h) (by simpa [bracketed] using hb)
    | answer a b =>
      simpa [rows, itemsOf, openChild] using ih (by simpa [holds_C09] using h) (by simpa [bracketed] using hb)

/-! ### the invariant -/

structure Inv (n : Nat) (s : Fix) (t : List Ev) : Prop where
  mon : holds_C09 n t = true
  hn : s.n = n
  pos : 0 < n
  br : bracketed t = true
  op : openChild t = none
  nofin : s.dead = false → anyFin t = false
  live : s.dead = false → ∀ i, i < n →
    (s.st i = .pending ∧ (itemsOf t i).length = rows t) ∨
    (s.st i = .ready ∧ (itemsOf t i).length = rows t + 1 ∧ s.out i = (itemsOf t i).head?)
  miss : s.dead = false → ∃ i, i < n ∧ s.st i = .pending
  dead : s.dead = true → spent false t = true

def J (n : Nat) (s : Fix) (t : List Ev) (l : List Nat) : Prop :=
  Inv n s t ∧ s.dead = false ∧ ∀ j ∈ l, j < n

/-- a wake-up event changes nothing -/
theorem inv_fireEv {n s t} (e : Ev) (he : isFireEv e = true) (h : Inv n s t) : Inv n s (e :: t) := by
  have hs := isSkip_fire e he
  have hl : ∀ e' ∈ [e], isFireEv e' = true := by simpa using he
  have e3 := spent_fires false [e] t hl
  simp only [List.singleton_append] at e3
  refine ⟨by rw [holds_skip n e t hs]; exact h.mon, h.hn, h.pos,
    by rw [bracketed_skip e t hs]; exact h.br, by rw [openChild_skip e t hs]; exact h.op,
    fun hd => by rw [anyFin_skip e t hs]; exact h.nofin hd, ?_, h.miss,
    fun hd => by rw [e3]; exact h.dead hd⟩
  intro hd i hi
  rw [itemsOf_skip i e t hs, rows_skip e t hs]
  exact h.live hd i hi

/-- an event that is neither a child answer, a child poll, nor a poll result -/
theorem inv_pb {n s t} (w : Nat) (h : Inv n s t) : Inv n s (.pollBegin w :: t) := by
  refine ⟨by simpa [holds_C09] using h.mon, h.hn, h.pos, by simpa [bracketed] using h.br,
    by simpa [openChild] using h.op, fun hd => by simpa [anyFin] using h.nofin hd, ?_, h.miss,
    fun hd => ?_⟩
  · intro hd i hi
    simpa [itemsOf, rows] using h.live hd i hi
  · have := h.dead hd
    simpa [spent, finalSeen, alive, panickedSeen] using this

theorem inv_misuse {n s t} (w : Nat) (h : Inv n s t) (hd : s.dead = true) :
    Inv n s (.pollEnd .misuse :: .pollBegin w :: t) := by
  have hb := inv_pb w h
  have hsp := hb.dead hd
  refine ⟨?_, h.hn, h.pos, by simpa [bracketed] using h.br, by simpa [openChild] using h.op,
    fun hd' => absurd hd' (by simp [hd]), fun hd' => absurd hd' (by simp [hd]),
    fun hd' => absurd hd' (by simp [hd]), fun _ => ?_⟩
  · simp only [holds_C09, c09At, Bool.and_eq_true]
    exact ⟨by simpa [holds_C09] using h.mon, hsp⟩
  · simpa [spent, finalSeen, alive, panickedSeen] using hsp

/-- some input has not delivered its item for the current row -/
theorem not_full {n s t} (h : Inv n s t) (hd : s.dead = false) : rowFull n t = false := by
  obtain ⟨i, hi, hp⟩ := h.miss hd
  cases hf : rowFull n t
  · rfl
  · simp only [rowFull, List.all_eq_true, List.mem_range, beq_iff_eq] at hf
    rcases h.live hd i hi with ⟨_, hl⟩ | ⟨hr, _⟩
    · have := hf i hi; omega
    · rw [hp] at hr; cases hr

/-- `Pending` is the right answer while the table is live -/
theorem pend_ok {n s t} (h : Inv n s t) (hd : s.dead = false) :
    Inv n s (.pollEnd .pending :: t) := by
  refine ⟨?_, h.hn, h.pos, by simpa [bracketed] using h.br, by simpa [openChild] using h.op,
    fun hd' => by simpa [anyFin] using h.nofin hd', ?_, h.miss,
    fun hd' => absurd hd' (by simp [hd])⟩
  · simp [holds_C09, c09At, h.mon, h.nofin hd, not_full h hd]
  · intro hd' j hj
    simpa [itemsOf, rows] using h.live hd' j hj

/-- the check the monitor makes when slot `i` is polled -/
theorem begin_ok {n s t} (h : Inv n s t) (hd : s.dead = false) (i : Nat) (hi : i < n)
    (hp : s.st i = .pending) (slot : Nat) (wk : Wk) (l : List Ev) (r : Res) (evs : List Ev)
    (hl : ∀ e ∈ l, isFireEv e = true) (he : ∀ e ∈ evs, isOwnEv e = true) :
    holds_C09 n (pollSeg i slot wk l r evs t) = true := by
  rw [holds_pollSeg n i slot wk l r evs t hl he]
  have hlen : (itemsOf t i).length = rows t := by
    rcases h.live hd i hi with ⟨_, hl'⟩ | ⟨hr, _⟩
    · exact hl'
    · rw [hp] at hr; cases hr
  simp [h.mon, h.nofin hd, hlen]

/-- an input that neither yields nor ends leaves the table as it is -/
theorem keep_ok {n s t} (h : Inv n s t) (hd : s.dead = false) (i slot : Nat) (hi : i < n)
    (wk : Wk) (l : List Ev) (r : Res) (hl : ∀ e ∈ l, isFireEv e = true)
    (hr : ∀ v, r ≠ .item v) (hf : r ≠ .fin) (hp : s.st i = .pending) :
    Inv n s (pollSeg i slot wk l r [] t) := by
  have he : ∀ e ∈ ([] : List Ev), isOwnEv e = true := by simp
  refine ⟨begin_ok h hd i hi hp slot wk l r [] hl he, h.hn, h.pos,
    bracketed_pollSeg i slot wk l r [] t hl he h.br h.op, openChild_pollSeg i slot wk l r [] t he,
    fun hd' => by rw [anyFin_pollSeg i slot wk l r [] t hl he hf]; exact h.nofin hd', ?_, h.miss,
    fun hd' => absurd hd' (by simp [hd])⟩
  intro _ j hj
  rw [itemsOf_pollSeg_other i slot wk l r [] t j hl he hr, rows_pollSeg i slot wk l r [] t hl he]
  exact h.live hd j hj

/-- slot `i` delivers its item while another slot is still missing: it is stored -/
theorem item_ok {n s t} (h : Inv n s t) (hd : s.dead = false) (i slot : Nat) (hi : i < n)
    (wk : Wk) (l : List Ev) (v : Nat) (hl : ∀ e ∈ l, isFireEv e = true)
    (hp : s.st i = .pending) (s' : Fix) (hn' : s'.n = s.n) (hst : s'.st = upd s.st i .ready)
    (hout : s'.out = upd s.out i (some v)) (hdead : s'.dead = false)
    (hmiss : ∃ j, j < n ∧ j ≠ i ∧ s.st j = .pending) :
    Inv n s' (pollSeg i slot wk l (.item v) [] t) := by
  have he : ∀ e ∈ ([] : List Ev), isOwnEv e = true := by simp
  refine ⟨begin_ok h hd i hi hp slot wk l _ [] hl he, by rw [hn', h.hn], h.pos,
    bracketed_pollSeg i slot wk l _ [] t hl he h.br h.op, openChild_pollSeg i slot wk l _ [] t he,
    fun _ => by rw [anyFin_pollSeg i slot wk l _ [] t hl he (by simp)]; exact h.nofin hd, ?_, ?_,
    fun hd' => absurd hd' (by simp [hdead])⟩
  · intro _ j hj
    rw [itemsOf_pollSeg_item i slot wk l v [] t j hl he, rows_pollSeg i slot wk l _ [] t hl he,
      hst, hout]
    by_cases hij : i = j
    · subst hij
      right
      have hlen : (itemsOf t i).length = rows t := by
        rcases h.live hd i hi with ⟨_, hl'⟩ | ⟨hr, _⟩
        · exact hl'
        · rw [hp] at hr; cases hr
      simp [hlen]
    · have hji : j ≠ i := fun h => hij h.symm
      simp only [hij, if_false, upd_other _ _ _ _ hji]
      exact h.live hd j hj
  · intro _
    obtain ⟨j, hj, hji, hpj⟩ := hmiss
    exact ⟨j, hj, by rw [hst, upd_other _ _ _ _ hji]; exact hpj⟩

/-- slot `i` delivers the last missing item of the row: the row is yielded, positionally, and
    the table starts over -/
theorem row_ok {n s t} (h : Inv n s t) (hd : s.dead = false) (i slot : Nat) (hi : i < n)
    (wk : Wk) (l : List Ev) (v : Nat) (hl : ∀ e ∈ l, isFireEv e = true)
    (hp : s.st i = .pending) (hall : ∀ j, j < n → j ≠ i → s.st j = .ready)
    (s' : Fix) (hn' : s'.n = s.n) (hst : s'.st = fun _ => .pending) (hdead : s'.dead = false) :
    Inv n s' (.pollEnd (.some 0 ({ s with out := upd s.out i (some v) }).outs) ::
      pollSeg i slot wk l (.item v) [] t) := by
  have he : ∀ e ∈ ([] : List Ev), isOwnEv e = true := by simp
  have hnf : anyFin (pollSeg i slot wk l (.item v) [] t) = false := by
    rw [anyFin_pollSeg i slot wk l _ [] t hl he (by simp)]; exact h.nofin hd
  have hrows := rows_pollSeg i slot wk l (.item v) [] t hl he
  -- every input has delivered, and the stored values are the newest items
  have hfull : ∀ j, j < n →
      (itemsOf (pollSeg i slot wk l (.item v) [] t) j).length = rows t + 1 ∧
      (upd s.out i (some v) j).getD 0 = (itemsOf (pollSeg i slot wk l (.item v) [] t) j).headD 0 := by
    intro j hj
    rw [itemsOf_pollSeg_item i slot wk l v [] t j hl he]
    by_cases hij : i = j
    · subst hij
      have hlen : (itemsOf t i).length = rows t := by
        rcases h.live hd i hi with ⟨_, hl'⟩ | ⟨hr, _⟩
        · exact hl'
        · rw [hp] at hr; cases hr
      simp [hlen]
    · have hji : j ≠ i := fun h => hij h.symm
      simp only [hij, if_false, upd_other _ _ _ _ hji]
      rcases h.live hd j hj with ⟨hpj, _⟩ | ⟨_, hlen, ho⟩
      · rw [hall j hj hji] at hpj; cases hpj
      · refine ⟨hlen, ?_⟩
        rw [ho]
        cases itemsOf t j <;> rfl
  refine ⟨?_, by rw [hn', h.hn], h.pos, ?_, ?_, fun _ => by simpa [anyFin] using hnf, ?_,
    fun _ => ⟨0, h.pos, by rw [hst]⟩, fun hd' => absurd hd' (by simp [hdead])⟩
  · simp only [holds_C09, c09At, Bool.and_eq_true, beq_iff_eq, Bool.not_eq_true']
    refine ⟨begin_ok h hd i hi hp slot wk l _ [] hl he, ⟨hnf, ?_⟩, ?_⟩
    · simp only [rowFull, List.all_eq_true, List.mem_range, beq_iff_eq, hrows]
      exact fun j hj => (hfull j hj).1
    · unfold Fix.outs
      simp only [h.hn]
      apply List.map_congr_left
      intro j hj
      exact (hfull j (List.mem_range.mp hj)).2
  · simp only [bracketed]
    exact bracketed_pollSeg i slot wk l _ [] t hl he h.br h.op
  · simp only [openChild]
    exact openChild_pollSeg i slot wk l _ [] t he
  · intro _ j hj
    left
    refine ⟨by rw [hst], ?_⟩
    simp only [itemsOf, rows, hrows]
    exact (hfull j hj).1

/-- an input has ended: `None`, in this very poll -/
theorem fin_ok {n s t} (h : Inv n s t) (hd : s.dead = false) (i slot : Nat) (hi : i < n)
    (wk : Wk) (l : List Ev) (hl : ∀ e ∈ l, isFireEv e = true) (hp : s.st i = .pending)
    (s' : Fix) (hn' : s'.n = s.n) (hdead : s'.dead = true) :
    Inv n s' (.pollEnd .none :: pollSeg i slot wk l .fin [] t) := by
  have he : ∀ e ∈ ([] : List Ev), isOwnEv e = true := by simp
  refine ⟨?_, by rw [hn', h.hn], h.pos, ?_, ?_, fun hd' => absurd hd' (by simp [hdead]),
    fun hd' => absurd hd' (by simp [hdead]), fun hd' => absurd hd' (by simp [hdead]),
    fun _ => by simp [spent, finalSeen]⟩
  · simp only [holds_C09, c09At, Bool.and_eq_true]
    exact ⟨begin_ok h hd i hi hp slot wk l _ [] hl he, anyFin_since_fin i slot wk l [] t he⟩
  · simp only [bracketed]
    exact bracketed_pollSeg i slot wk l _ [] t hl he h.br h.op
  · simp only [openChild]
    exact openChild_pollSeg i slot wk l _ [] t he

theorem inv_panic {n s t} (h : Inv n s t) (hd : s.dead = false) (i slot : Nat) (hi : i < n)
    (wk : Wk) (l : List Ev) (hl : ∀ e ∈ l, isFireEv e = true) (hp : s.st i = .pending)
    (s' : Fix) (hn' : s'.n = s.n) (hdead : s'.dead = true) :
    Inv n s' (.pollEnd .panicked :: pollSeg i slot wk l .panic [] t) := by
  have he : ∀ e ∈ ([] : List Ev), isOwnEv e = true := by simp
  refine ⟨?_, by rw [hn', h.hn], h.pos, ?_, ?_, fun hd' => absurd hd' (by simp [hdead]),
    fun hd' => absurd hd' (by simp [hdead]), fun hd' => absurd hd' (by simp [hdead]),
    fun _ => by simp [spent, panickedSeen]⟩
  · simp only [holds_C09, c09At, Bool.and_true]
    exact begin_ok h hd i hi hp slot wk l _ [] hl he
  · simp only [bracketed]
    exact bracketed_pollSeg i slot wk l _ [] t hl he h.br h.op
  · simp only [openChild]
    exact openChild_pollSeg i slot wk l _ [] t he

theorem inv_drop {n s t} (h : Inv n s t) (evs : List Ev) (he : ∀ e ∈ evs, isOwnEv e = true)
    (s' : Fix) (hn' : s'.n = s.n) (hdead : s'.dead = true) :
    Inv n s' (.dropEnd :: (evs.reverse ++ .dropBegin :: t)) := by
  have hs : ∀ e ∈ evs.reverse, isSkip e = true :=
    fun e h => isSkip_own e (he e (List.mem_reverse.mp h))
  refine ⟨?_, by rw [hn', h.hn], h.pos, ?_, ?_, fun hd' => absurd hd' (by simp [hdead]),
    fun hd' => absurd hd' (by simp [hdead]), fun hd' => absurd hd' (by simp [hdead]), fun _ => ?_⟩
  · simp only [holds_C09]
    rw [skip_seg (holds_C09 n) isSkip (holds_skip n) evs.reverse hs]
    simpa [holds_C09] using h.mon
  · simp only [bracketed]
    rw [skip_seg bracketed isSkip bracketed_skip evs.reverse hs]
    simpa [bracketed] using h.br
  · simp only [openChild]
    rw [skip_seg openChild isSkip openChild_skip evs.reverse hs]
    simpa [openChild] using h.op
  · have : alive (.dropEnd :: (evs.reverse ++ .dropBegin :: t)) = false := by
      simp only [alive]
      rw [skip_seg alive isOwnEv (fun e t h => alive_own e t h) evs.reverse
        (fun e h => he e (List.mem_reverse.mp h))]
      rfl
    simp [spent, this]

theorem allReady_iff (s : Fix) : s.allReady = true ↔ ∀ j, j < s.n → s.st j = .ready := by
  simp [Fix.allReady]

/-- the slot polled is one whose item is missing -/
theorem elig_pending {n s t} (h : Inv n s t) (hd : s.dead = false) (i : Nat) (hi : i < n)
    (hel : zip.eligible s i = true) : s.st i = .pending := by
  rcases h.live hd i hi with ⟨hp, _⟩ | ⟨hr', _⟩
  · exact hp
  · simp [zip, hr'] at hel

theorem sim_zip (n : Nat) (m : Mode) : Sim zip m Sim.anyRes (Inv n) (J n) where
  fireEv := fun s t e he h => inv_fireEv e he h
  pre := by
    intro s t w o hpre h
    simp only [zip, Fix.misuseIfDead] at hpre
    split at hpre
    · cases hpre; exact inv_misuse w h ‹_›
    · cases hpre
  start := by
    intro s t w hpre h
    have hd : s.dead = false := by
      simp only [zip, Fix.misuseIfDead] at hpre
      cases hdd : s.dead <;> simp_all
    refine ⟨inv_pb w h, hd, ?_⟩
    intro j hj
    simp only [zip] at hj
    rw [← h.hn]; exact List.mem_range.mp hj
  earlyPend := fun s t l _ _ hJ => pend_ok hJ.1 hJ.2.1
  skip := by
    intro s t i rest _ hJ
    exact ⟨hJ.1, hJ.2.1, fun j hj => hJ.2.2 j (List.mem_cons_of_mem _ hj)⟩
  goOn := by
    intro s t i rest wk l r hJ hel hr _ hl hex
    obtain ⟨h, hd, hlt⟩ := hJ
    have hi : i < n := hlt i (List.mem_cons_self ..)
    have hp := elig_pending h hd i hi hel
    have hrest : ∀ j ∈ rest, j < n := fun j hj => hlt j (List.mem_cons_of_mem _ hj)
    cases r with
    | item v =>
      by_cases hall : ({ s with st := upd s.st i .ready } : Fix).allReady = true
      · simp [zip, hall] at hex
      · have hmiss : ∃ j, j < n ∧ j ≠ i ∧ s.st j = .pending := by
          rw [allReady_iff] at hall
          simp only [Classical.not_forall, Classical.not_imp] at hall
          obtain ⟨j, hj, hnr⟩ := hall
          simp only [h.hn] at hj
          have hji : j ≠ i := by
            intro hji; subst hji; simp at hnr
          rw [upd_other _ _ _ _ hji] at hnr
          rcases h.live hd j hj with ⟨hpj, _⟩ | ⟨hrj, _⟩
          · exact ⟨j, hj, hji, hpj⟩
          · exact absurd hrj hnr
        have hmid := item_ok h hd i i hi wk l v hl hp
          { s with st := upd s.st i .ready, out := upd s.out i (some v) } rfl rfl rfl hd hmiss
        refine ⟨?_, ?_, hrest⟩
        · simpa [zip, hall] using hmid
        · simpa [zip, hall] using hd
    | pend => exact ⟨keep_ok h hd i i hi wk l _ hl (by simp) (by simp) hp, hd, hrest⟩
    | ready ok v => exact ⟨keep_ok h hd i i hi wk l _ hl (by simp) (by simp) hp, hd, hrest⟩
    | fin => simp [zip] at hex
    | panic => exact absurd rfl hr
  goExit := by
    intro s t i rest wk l r o hJ hel hr _ hl hex
    obtain ⟨h, hd, hlt⟩ := hJ
    have hi : i < n := hlt i (List.mem_cons_self ..)
    have hp := elig_pending h hd i hi hel
    cases r with
    | item v =>
      by_cases hall : ({ s with st := upd s.st i .ready } : Fix).allReady = true
      · simp only [zip, hall, if_true, Option.some.injEq] at hex
        subst hex
        have hall' : ∀ j, j < n → j ≠ i → s.st j = .ready := by
          intro j hj hji
          have := (allReady_iff _).mp hall j (by simpa [h.hn] using hj)
          simpa [upd_other _ _ _ _ hji] using this
        have := row_ok h hd i i hi wk l v hl hp hall'
          { s with st := fun _ => .pending, out := fun _ => none } rfl rfl hd
        simpa [zip, hall] using this
      · simp [zip, hall] at hex
    | fin =>
      simp only [zip, Option.some.injEq] at hex
      subst hex
      exact fin_ok h hd i i hi wk l hl hp _ rfl rfl
    | pend => simp [zip, Fix.keep] at hex
    | ready ok v => simp [zip, Fix.keep] at hex
    | panic => exact absurd rfl hr
  panic := by
    intro s t i rest wk l hJ hel hl
    obtain ⟨h, hd, hlt⟩ := hJ
    have hi : i < n := hlt i (List.mem_cons_self ..)
    exact inv_panic h hd i i hi wk l hl (elig_pending h hd i hi hel) _ rfl rfl
  finish := fun s t hJ => pend_ok hJ.1 hJ.2.1
  drop := by
    intro s t h
    refine inv_drop h _ ?_ _ rfl rfl
    intro e he
    simp only [zip, Fix.dropAll, List.mem_append, List.mem_map] at he
    rcases he with ⟨_, _, rfl⟩ | ⟨_, _, rfl⟩ <;> rfl

/-- the initial state -/
theorem inv_init (n : Nat) (hn : 0 < n) : Inv n (Fix.init n 0) [] := by
  refine ⟨rfl, rfl, hn, rfl, rfl, fun _ => rfl, fun _ i hi => Or.inl ⟨rfl, rfl⟩,
    fun _ => ⟨0, hn, rfl⟩, fun hd => by cases hd⟩

end C09
end Fc

