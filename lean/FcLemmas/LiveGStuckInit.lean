/-
  FcLemmas/LiveGStuckInit.lean — the state of a group built from the empty group by `insert` /
  `extend` / `reserve` operations only (pairwise distinct member ids, every script well-behaved OR
  never-completing: `okScript`) satisfies the weakened run invariant `LiveGStuck.LGAS`, and its
  `ExecG.stepsLeft` is the progress measure `LiveG.mu`.  `B0S` and its preservation lemmas are those of
  FcLemmas/LiveGInit.lean (`B0`) with `wbScript` replaced by `okScript`: the building operations never
  look at a script.
-/
import FcLemmas.LiveGStuckInst
set_option linter.unusedSimpArgs false
set_option linter.unusedVariables false

namespace Fc
namespace LiveGStuck
open Mon Live Live3 G Grp C01 LiveG LiveGAny

/-! ### the invariant of the building phase -/

structure B0S (stream keyed : Bool) (m : Mode) (n : Nat) (sc : Nat → List Step) (e : Eng Grp) :
    Prop where
  mode : e.w.mode = m
  std : m = .std → SB n e
  dir : m = .direct → DB n e
  g11 : ∃ U, G11.InvE stream keyed n U e ∧ ∀ c ∈ U, keyOf e.w.trace c ≠ none
  dead : e.s.dead = false
  noev : ∀ ev ∈ e.w.trace, ∃ c k, ev = Ev.inserted c k
  hand : ∀ c, e.w.handed c = []
  scr : e.w.scripts = sc
  ib : ∀ k c, e.s.member k = some c → e.w.isSet k = true
  bnd : ∀ c, keyOf e.w.trace c ≠ none → c < n ∧ okScript stream (sc c) = true
  sl : ExecG.stepsLeft e = mu n e

variable {stream keyed : Bool} {m : Mode} {n : Nat} {sc : Nat → List Step}

theorem b0s_cb (e : Eng Grp) (h : B0S stream keyed m n sc e) : CB n e := by
  cases m with
  | std => exact (h.std rfl).cb
  | direct => exact (h.dir rfl).cb

/-- the building phase ends in a state that satisfies the run invariant -/
theorem b0s_reserve (e : Eng Grp) (a : Nat) (h : B0S stream keyed m n sc e) :
    B0S stream keyed m n sc (GEng.reserve e a) := by
  obtain ⟨hh, hmem, hkeys, _, hset⟩ := reserve_facts e a
  have ht := GEng.reserve_trace e a
  obtain ⟨U, hU, hUk⟩ := h.g11
  refine ⟨by rw [GEng.reserve_mode]; exact h.mode, fun hm => sb_reserve e a (h.std hm),
    fun hm => db_reserve e a (h.dir hm), ⟨U, G11.reserve_inv e a hU, by rw [ht]; exact hUk⟩,
    by rw [reserve_dead]; exact h.dead, by rw [ht]; exact h.noev, by rw [hh]; exact h.hand,
    by rw [GEng.reserve_scripts]; exact h.scr, ?_, by rw [ht]; exact h.bnd, ?_⟩
  · intro k c hk
    rw [hmem] at hk
    exact hset k (h.ib k c hk)
  · rw [stepsLeft_congr e _ hkeys hmem (GEng.reserve_scripts e a), h.sl]
    unfold mu
    rw [ht, GEng.reserve_scripts]

/-! ### `insert` -/

theorem b0s_insert (e : Eng Grp) (c : Nat) (b : Bool) (h : B0S stream keyed m n sc e)
    (hcn : c < n) (hwb : okScript stream (sc c) = true) (hf : keyOf e.w.trace c = none) :
    B0S stream keyed m n sc (GEng.insertAt (GEng.grow e) c b) := by
  obtain ⟨hh, hmem, hkeys, hnext, hset⟩ := grow_facts e
  have hcb := b0s_cb e h
  obtain ⟨U, hU, hUk⟩ := h.g11
  have hcU : c ∉ U := fun hc => hUk c hc hf
  obtain ⟨hU', hd'⟩ := G11.insertAt_inv e c b hU h.dead hcU
  have ht : (GEng.insertAt (GEng.grow e) c b).w.trace = .inserted c e.s.next :: e.w.trace := by
    rw [GEng.insertAt_trace, grow_trace, hnext]
  have hkeyOf : ∀ j, keyOf (GEng.insertAt (GEng.grow e) c b).w.trace j
      = if c = j then some e.s.next else keyOf e.w.trace j := by
    intro j; rw [ht]; rfl
  have hscr : (GEng.insertAt (GEng.grow e) c b).w.scripts = e.w.scripts := by
    rw [GEng.insertAt_scripts, GEng.grow_scripts]
  have hm' : (GEng.insertAt (GEng.grow e) c b).s.member = upd e.s.member e.s.next (some c) := by
    rw [insertAt_s, insSt_member, hmem, hnext]
  have hk' : (GEng.insertAt (GEng.grow e) c b).s.keys = insertSorted e.s.next e.s.keys := by
    rw [insertAt_s, insSt_keys, hkeys, hnext]
  refine ⟨by rw [GEng.insertAt_mode, GEng.grow_mode]; exact h.mode,
    fun hm => sb_steps.ins e c b (h.std hm) h.dead hf,
    fun hm => db_steps.ins e c b (h.dir hm) h.dead hf, ⟨c :: U, hU', ?_⟩, hd', ?_, ?_,
    by rw [hscr]; exact h.scr, ?_, ?_, ?_⟩
  · intro j hj
    rw [hkeyOf]
    by_cases hcj : c = j
    · simp [hcj]
    · simp only [hcj, if_false]
      rcases List.mem_cons.mp hj with hj | hj
      · exact absurd hj.symm hcj
      · exact hUk j hj
  · intro ev hev
    rw [ht] at hev
    rcases List.mem_cons.mp hev with rfl | hev
    · exact ⟨_, _, rfl⟩
    · exact h.noev ev hev
  · intro j
    rw [insertAt_w]
    simp only [World.emit_handed, World.setReady_handed, hh]
    exact h.hand j
  · intro k j hk
    rw [hm'] at hk
    rw [insertAt_w, World.isSet_emit, hnext]
    by_cases hkn : k = e.s.next
    · subst hkn; exact isSet_arm_self _ _
    · rw [upd_other _ _ _ _ hkn] at hk
      exact World.isSet_setReady_mono _ _ _ (hset k (h.ib k j hk))
  · intro j hj
    rw [hkeyOf] at hj
    by_cases hcj : c = j
    · subst hcj; exact ⟨hcn, hwb⟩
    · simp only [hcj, if_false] at hj; exact h.bnd j hj
  · -- the measure
    have hvac : e.s.member e.s.next = none := hcb.slab.next_ok.1
    have hnk : e.s.next ∉ e.s.keys := by
      intro hin
      rcases hcb.slab.kq _ hin with h1 | h1
      · exact h1 hvac
      · rw [hcb.qe h.dead] at h1; cases h1
    have h1 : ExecG.stepsLeft (GEng.insertAt (GEng.grow e) c b)
        = (e.w.scripts c).length + ExecG.stepsLeft e := by
      unfold ExecG.stepsLeft
      rw [hm', hk', hscr]
      exact sum_insertSorted e.s.member (fun c => (e.w.scripts c).length) e.s.next c e.s.keys hnk
    have h2 : mu n (GEng.insertAt (GEng.grow e) c b) = mu n e + (e.w.scripts c).length := by
      unfold mu
      refine total_bump _ _ n c _ hcn ?_ ?_
      · rw [hkeyOf, hscr, hf]; simp
      · intro j hj
        have hcj : ¬ c = j := fun hh => hj hh.symm
        rw [hkeyOf, hscr]; simp [hcj]
    rw [h1, h2, h.sl]; omega

/-! ### whole building histories -/

theorem b0s_extend_fold : ∀ (cs : List Nat) (e : Eng Grp), B0S stream keyed m n sc e → cs.Nodup →
    (∀ c ∈ cs, c < n ∧ okScript stream (sc c) = true ∧ keyOf e.w.trace c = none) →
    B0S stream keyed m n sc (cs.foldl (fun e c => GEng.insertAt (GEng.grow e) c false) e) ∧
    (∀ x, x ∉ cs → keyOf (cs.foldl (fun e c => GEng.insertAt (GEng.grow e) c false) e).w.trace x
        = keyOf e.w.trace x) := by
  intro cs
  induction cs with
  | nil => intro e h _ _; exact ⟨h, fun _ _ => rfl⟩
  | cons c cs ih =>
    intro e h hnd hf
    simp only [List.foldl_cons]
    have hnd' := List.nodup_cons.mp hnd
    obtain ⟨h1, h2, h3⟩ := hf c (List.mem_cons_self ..)
    have hb := b0s_insert e c false h h1 h2 h3
    have := ih _ hb hnd'.2 (fun x hx => by
      have hxc : x ≠ c := by intro hh; subst hh; exact hnd'.1 hx
      obtain ⟨g1, g2, g3⟩ := hf x (List.mem_cons_of_mem _ hx)
      exact ⟨g1, g2, by rw [keyOf_insertAt _ _ _ _ hxc]; exact g3⟩)
    refine ⟨this.1, fun x hx => ?_⟩
    simp only [List.mem_cons, not_or] at hx
    rw [this.2 x hx.2, keyOf_insertAt _ _ _ _ hx.1]

theorem b0s_step (e : Eng Grp) (op : Op) (h : B0S stream keyed m n sc e)
    (hop : op.isInsertLike = true) (hnd : (insertedIds op).Nodup)
    (hf : ∀ c ∈ insertedIds op, c < n ∧ okScript stream (sc c) = true ∧ keyOf e.w.trace c = none) :
    B0S stream keyed m n sc (GEng.step e op) ∧
    (∀ x, x ∉ insertedIds op → keyOf (GEng.step e op).w.trace x = keyOf e.w.trace x) := by
  cases op with
  | insert c =>
    simp only [GEng.step, h.dead, Bool.false_eq_true, if_false, GEng.insert]
    obtain ⟨h1, h2, h3⟩ := hf c (by simp [insertedIds])
    exact ⟨b0s_insert e c true h h1 h2 h3,
      fun x hx => keyOf_insertAt e c true x (by simpa [insertedIds] using hx)⟩
  | reserve k =>
    simp only [GEng.step, h.dead, Bool.false_eq_true, if_false]
    exact ⟨b0s_reserve e k h, fun x _ => by rw [GEng.reserve_trace]⟩
  | extend cs =>
    simp only [GEng.step, h.dead, Bool.false_eq_true, if_false, GEng.extend]
    have := b0s_extend_fold cs (GEng.reserve e cs.length) (b0s_reserve e _ h)
      (by simpa [insertedIds] using hnd)
      (fun c hc => by
        rw [GEng.reserve_trace]; exact hf c (by simpa [insertedIds] using hc))
    refine ⟨this.1, fun x hx => ?_⟩
    rw [this.2 x (by simpa [insertedIds] using hx), GEng.reserve_trace]
  | _ => simp [Op.isInsertLike] at hop

theorem b0s_run : ∀ (ops : List Op) (e : Eng Grp), B0S stream keyed m n sc e →
    (∀ op ∈ ops, op.isInsertLike = true) → (ops.flatMap insertedIds).Nodup →
    (∀ c ∈ ops.flatMap insertedIds, c < n ∧ okScript stream (sc c) = true ∧
      keyOf e.w.trace c = none) →
    B0S stream keyed m n sc (ops.foldl GEng.step e) := by
  intro ops
  induction ops with
  | nil => intro e h _ _ _; exact h
  | cons op ops ih =>
    intro e h hop hnd hf
    simp only [List.foldl_cons]
    simp only [List.flatMap_cons] at hnd hf
    rw [List.nodup_append] at hnd
    obtain ⟨hn1, hn2, hdis⟩ := hnd
    have hs := b0s_step e op h (hop op (List.mem_cons_self ..)) hn1
      (fun c hc => hf c (List.mem_append_left _ hc))
    refine ih _ hs.1 (fun op' hop' => hop op' (List.mem_cons_of_mem _ hop')) hn2 (fun c hc => ?_)
    obtain ⟨g1, g2, g3⟩ := hf c (List.mem_append_right _ hc)
    refine ⟨g1, g2, ?_⟩
    rw [hs.2 c (fun hh => hdis c hh c hc rfl)]
    exact g3

/-! ### the empty group -/

theorem b0s_init (stream keyed : Bool) (m : Mode) (n : Nat) (sc : Nat → List Step)
    (hk : ∀ c st, st ∈ sc c → st.res.fits stream = true) :
    B0S stream keyed m n sc (GEng.init stream keyed m sc) := by
  have hok : ∀ m', ScriptsOk (fun _ r => r.fits stream = true) (World.init m' 0 sc) :=
    fun m' => ⟨fun _ => rfl, fun c st hm => hk c st hm⟩
  refine ⟨rfl, ?_, ?_, ⟨[], G11.inv_init stream keyed n, fun c hc => by cases hc⟩, rfl, ?_,
    fun _ => rfl, rfl, ?_, ?_, ?_⟩
  · intro hm; subst hm; exact sb_init n stream keyed sc (hok _)
  · intro hm; subst hm; exact db_init n stream keyed sc (hok _)
  · intro ev hev; cases hev
  · intro k c hk; cases hk
  · intro c hc; exact absurd rfl hc
  · have h1 : ExecG.stepsLeft (GEng.init stream keyed m sc) = 0 := rfl
    rw [h1]
    unfold mu
    exact (total_zero n).symm

/-! ### the hand-over -/

/-- the building phase ends in a state that satisfies the run invariant; the scripts at the
    hand-over are the reference scripts `sc0 = sc` of the delivery clauses -/
theorem lgas_of_b0s (e : Eng Grp) (h : B0S stream keyed m n sc e) : LGAS stream keyed m n sc e := by
  obtain ⟨hlo, hal, _, hobs⟩ := noev_obs e.w.trace h.noev
  have hcb := b0s_cb e h
  have hvals : ∀ c, valsOf c e.w.trace = [] := by
    intro c
    have : ∀ (t : List Ev), (∀ ev ∈ t, ∃ c k, ev = Ev.inserted c k) → valsOf c t = [] := by
      intro t
      induction t with
      | nil => intro _; rfl
      | cons ev t ih =>
        intro hh
        obtain ⟨c', k', rfl⟩ := hh ev (List.mem_cons_self ..)
        simpa [valsOf] using ih (fun ev' hev' => hh ev' (List.mem_cons_of_mem _ hev'))
    exact this _ h.noev
  refine ⟨⟨h.mode, h.std, h.dir, h.g11, h.dead, hal, fun c hc => (h.bnd c hc).1,
    ⟨?_, ?_, ?_, ?_, ?_, ?_⟩, fun k c hk _ => h.ib k c hk, ?_⟩, ?_, ?_, Or.inl hlo⟩
  · intro k c hk
    have hkey : keyOf e.w.trace c ≠ none := by rw [hcb.link.f1 k c hk]; simp
    rw [h.scr]
    refine ⟨?_, Or.inl (hobs c).1, (hobs c).2.2.1⟩
    have hok := (h.bnd c hkey).2
    cases hwb : wbScript stream (sc c) with
    | true => exact Or.inl ⟨rfl, rfl⟩
    | false =>
      simp only [okScript, hwb, Bool.false_or] at hok
      exact Or.inr ⟨hok, rfl⟩
  · intro c; rw [h.hand c, (hobs c).2.1]; rfl
  · intro c hc; exact absurd (hobs c).1 hc
  · intro c hc; rw [(hobs c).2.2.2] at hc; exact Bool.noConfusion hc
  · intro c hc; rw [(hobs c).2.2.1] at hc; exact Bool.noConfusion hc
  · intro c; rw [hvals c, h.scr]; rfl
  · intro c hc; rw [(hobs c).2.2.1] at hc; exact Bool.noConfusion hc
  · intro hp; rw [hlo] at hp; cases hp
  · intro hp; rw [hlo] at hp; cases hp

end LiveGStuck
end Fc
