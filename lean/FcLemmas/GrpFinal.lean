/-
  FcLemmas/GrpFinal.lean — C01 and C20 for every reachable state of a FutureGroup / StreamGroup,
  both waker strategies.
-/
import FcLemmas.GrpStdEng
import FcLemmas.GrpDir

set_option linter.unusedSimpArgs false
set_option linter.unusedVariables false

namespace Fc
namespace G
open Mon

theorem scriptsOk_group (c : Case) (hg : c.fam.isGroup = true) (hk : c.kindOk) (w : World)
    (hw : w.scripts = c.scripts) :
    ScriptsOk (fun _ r => r.fits (decide (c.fam = .strGroup)) = true) w := by
  refine ⟨fun _ => rfl, fun ch st hm => ?_⟩
  have := hk ch st (by rw [← hw]; exact hm)
  cases hf : c.fam <;> simp_all [Fam.isGroup, Fam.childIsStream]

/-- both properties at the end of every history of a group -/
theorem group_holds (c : Case) (hg : c.fam.isGroup = true) (hk : c.kindOk) (hw : Case.insertsFresh c)
    (n : Nat) : holds_C01 n c.trace = true ∧ holds_C20 false n c.trace = true := by
  unfold Case.trace
  rw [hg]
  simp only [if_true]
  unfold Case.finalGrp
  cases hm : c.mode with
  | std =>
    exact sb_holds _ (run_fresh sb_steps c.ops _
      (sb_init n _ c.keyed c.scripts (scriptsOk_group c hg hk _ rfl)) hw (fun _ _ => rfl))
  | direct =>
    exact db_holds _ (run_fresh db_steps c.ops _
      (db_init n _ c.keyed c.scripts (scriptsOk_group c hg hk _ rfl)) hw (fun _ _ => rfl))

end G
end Fc
