/-
  FcLemmas/C07.lean — race_ok: the slot table mirrors which children failed (and with what
  error), no child has succeeded while the race is on, and the outcome of every poll is the one
  C07 demands.  One `Sim` instance for `raceOk rotate early`, all four flag combinations.
-/
import FcLemmas.Seg
set_option linter.unusedSimpArgs false
set_option linter.unusedVariables false

namespace Fc
namespace C07
open Mon Fix

/-! ### how the C07 observations see the segments the engine appends -/

theorem holds_fires (n : Nat) (l t : List Ev) (hl : ∀ e ∈ l, isFireEv e = true) :
    holds_C07 n (l ++ t) = holds_C07 n t :=
  skip_seg (holds_C07 n) isFireEv (fun e t h => by cases e <;> simp_all [isFireEv, holds_C07]) l hl t

theorem holds_owns (n : Nat) (l t : List Ev) (hl : ∀ e ∈ l, isOwnEv e = true) :
    holds_C07 n (l ++ t) = holds_C07 n t :=
  skip_seg (holds_C07 n) isOwnEv (fun e t h => by cases e <;> simp_all [isOwnEv, holds_C07]) l hl t

theorem errs_owns (l t : List Ev) (hl : ∀ e ∈ l, isOwnEv e = true) : errs (l ++ t) = errs t :=
  skip_seg errs isOwnEv (fun e t h => by cases e <;> simp_all [isOwnEv, errs]) l hl t

theorem oks_owns (l t : List Ev) (hl : ∀ e ∈ l, isOwnEv e = true) : oks (l ++ t) = oks t :=
  skip_seg oks isOwnEv (fun e t h => by cases e <;> simp_all [isOwnEv, oks]) l hl t

theorem spent_owns (g : Bool) (l t : List Ev) (hl : ∀ e ∈ l, isOwnEv e = true) :
    spent g (l ++ t) = spent g t :=
  skip_seg (spent g) isOwnEv
    (fun e t h => by cases e <;> simp_all [isOwnEv, spent, finalSeen, alive, panickedSeen]) l hl t

theorem sincePoll_owns (l t : List Ev) (hl : ∀ e ∈ l, isOwnEv e = true) :
    sincePoll (l ++ t) = l ++ sincePoll t := by
  induction l with
  | nil => rfl
  | cons e l ih =>
    have he := hl e (List.mem_cons_self ..)
    have := ih (fun e' he' => hl e' (List.mem_cons_of_mem _ he'))
    cases e <;> simp_all [isOwnEv, sincePoll]

/-- the events since `pollBegin` after one child poll: the same child poll on top of what was
    there before -/
theorem sincePoll_pollSeg (c slot : Nat) (wk : Wk) (l : List Ev) (r : Res) (evs t : List Ev)
    (hl : ∀ e ∈ l, isFireEv e = true) (he : ∀ e ∈ evs, isOwnEv e = true) :
    sincePoll (pollSeg c slot wk l r evs t) = pollSeg c slot wk l r evs (sincePoll t) := by
  unfold pollSeg
  rw [sincePoll_owns _ _ (fun e h => he e (List.mem_reverse.mp h))]
  simp only [sincePoll]
  rw [sincePoll_fires _ _ hl]
  simp only [sincePoll]

theorem errs_pollSeg (c slot : Nat) (wk : Wk) (l : List Ev) (r : Res) (evs t : List Ev)
    (hl : ∀ e ∈ l, isFireEv e = true) (he : ∀ e ∈ evs, isOwnEv e = true) :
    errs (pollSeg c slot wk l r evs t)
      = (match r with | .ready false v => [v] | _ => []) ++ errs t := by
  unfold pollSeg
  rw [errs_owns _ _ (fun e h => he e (List.mem_reverse.mp h))]
  have h1 : errs (l ++ .childBegin c slot wk :: t) = errs t := by
    rw [errs_fires _ _ hl]; simp [errs]
  cases r with
  | ready ok v => cases ok <;> simp [errs, h1]
  | _ => simp [errs, h1]

theorem oks_pollSeg (c slot : Nat) (wk : Wk) (l : List Ev) (r : Res) (evs t : List Ev)
    (hl : ∀ e ∈ l, isFireEv e = true) (he : ∀ e ∈ evs, isOwnEv e = true) :
    oks (pollSeg c slot wk l r evs t)
      = (match r with | .ready true v => [v] | _ => []) ++ oks t := by
  unfold pollSeg
  rw [oks_owns _ _ (fun e h => he e (List.mem_reverse.mp h))]
  have h1 : oks (l ++ .childBegin c slot wk :: t) = oks t := by
    rw [oks_fires _ _ hl]; simp [oks]
  cases r with
  | ready ok v => cases ok <;> simp [oks, h1]
  | _ => simp [oks, h1]

theorem errVal_pollSeg (c slot : Nat) (wk : Wk) (l : List Ev) (r : Res) (evs t : List Ev) (j : Nat)
    (hl : ∀ e ∈ l, isFireEv e = true) (he : ∀ e ∈ evs, isOwnEv e = true) :
    errVal (pollSeg c slot wk l r evs t) j =
      if c = j then (match r with | .ready false v => some v | _ => none) else errVal t j := by
  unfold errVal
  rw [lastRes_pollSeg c slot wk l r evs t j hl he]
  by_cases hcj : c = j
  · simp only [hcj, if_true]
    cases r with
    | ready ok v => cases ok <;> rfl
    | _ => rfl
  · simp only [hcj, if_false]

/-- the monitor's check at a `childBegin`: nobody has succeeded, and this child has not failed -/
theorem holds_seg (n c slot : Nat) (wk : Wk) (l : List Ev) (r : Res) (evs t : List Ev)
    (hl : ∀ e ∈ l, isFireEv e = true) (he : ∀ e ∈ evs, isOwnEv e = true) :
    holds_C07 n (pollSeg c slot wk l r evs t)
      = (holds_C07 n t && oks t == [] && (errVal t c).isNone) := by
  unfold pollSeg
  rw [holds_owns _ _ _ (fun e h => he e (List.mem_reverse.mp h))]
  simp only [holds_C07]
  rw [holds_fires _ _ _ hl]
  simp only [holds_C07]

theorem oks_sincePoll_nil (t : List Ev) (h : oks t = []) : oks (sincePoll t) = [] := by
  induction t with
  | nil => rfl
  | cons e t ih =>
    cases e with
    | childEnd c r =>
      cases r with
      | ready ok v => cases ok <;> simp_all [oks, sincePoll]
      | _ => simp_all [oks, sincePoll]
    | _ => simp_all [oks, sincePoll]

theorem errVal_cons (e : Ev) (t : List Ev) (j : Nat) (h : ∀ c r, e ≠ .childEnd c r) :
    errVal (e :: t) j = errVal t j := by
  cases e <;> simp_all [errVal, lastRes]

/-! ### counting failed slots -/

theorem cnt_ready_upd (st : Nat → PS) (n i : Nat) (hi : i < n) (hp : st i = .pending) :
    cntP (fun j => decide (upd st i .ready j = .ready)) n
      = cntP (fun j => decide (st j = .ready)) n + 1 := by
  have h := cntP_upd (fun j => decide (st j = .ready)) n i true hi
  simp only [hp, if_true] at h
  have h0 : (if decide (PS.pending = PS.ready) = true then 1 else 0) = 0 := by decide
  rw [h0, Nat.add_zero] at h
  rw [← h]
  apply cntP_congr
  intro j _
  unfold upd
  split <;> simp_all

/-! ### the invariants -/

/-- what holds between polls and inside a poll alike -/
structure Core (n : Nat) (s : Fix) (t : List Ev) : Prop where
  mon : holds_C07 n t = true
  hn : s.n = n
  /-- `st i = ready` exactly for the children that failed, with their error in `out i` -/
  live : s.dead = false → ∀ i, i < n →
    (s.st i = .pending ∧ errVal t i = none) ∨
    (s.st i = .ready ∧ ∃ v, errVal t i = some v ∧ s.out i = some v)
  /-- nobody has succeeded yet -/
  noOk : s.dead = false → oks t = []
  cnt : s.dead = false → s.cnt = cntP (fun i => s.st i = .ready) n
  dead : s.dead = true → spent false t = true

/-- boundary invariant: between polls a running race still has a child that has not failed -/
def Inv (n : Nat) (s : Fix) (t : List Ev) : Prop :=
  Core n s t ∧ (s.dead = false → 0 < n → s.cnt < n)

/-- loop invariant: if every child has failed, one of them failed in this very poll -/
def J (n : Nat) (s : Fix) (t : List Ev) (l : List Nat) : Prop :=
  Core n s t ∧ s.dead = false ∧ (0 < n → s.cnt < n ∨ errs (sincePoll t) ≠ []) ∧ ∀ j ∈ l, j < n

theorem core_dead {n s t} (hm : holds_C07 n t = true) (hn : s.n = n) (hd : s.dead = true)
    (hs : spent false t = true) : Core n s t :=
  ⟨hm, hn, fun h => absurd h (by simp [hd]), fun h => absurd h (by simp [hd]),
    fun h => absurd h (by simp [hd]), fun _ => hs⟩

theorem inv_dead {n s t} (hm : holds_C07 n t = true) (hn : s.n = n) (hd : s.dead = true)
    (hs : spent false t = true) : Inv n s t :=
  ⟨core_dead hm hn hd hs, fun h => absurd h (by simp [hd])⟩

/-- events that are neither `childBegin`, `childEnd`, `pollEnd` nor `dropBegin` change nothing -/
theorem core_cons {n s t} (e : Ev) (h : Core n s t)
    (hm : holds_C07 n (e :: t) = holds_C07 n t) (ho : oks (e :: t) = oks t)
    (hl : ∀ j, lastRes (e :: t) j = lastRes t j) (hs : spent false (e :: t) = spent false t) :
    Core n s (e :: t) := by
  refine ⟨by rw [hm]; exact h.mon, h.hn, ?_, fun hd => by rw [ho]; exact h.noOk hd, h.cnt,
    fun hd => by rw [hs]; exact h.dead hd⟩
  intro hd i hi
  have : errVal (e :: t) i = errVal t i := by simp [errVal, hl]
  rw [this]; exact h.live hd i hi

theorem core_fireEv {n s t} (e : Ev) (he : isFireEv e = true) (h : Core n s t) :
    Core n s (e :: t) := by
  have hl : ∀ e' ∈ [e], isFireEv e' = true := by simpa using he
  have e1 := holds_fires n [e] t hl
  have e2 := oks_fires [e] t hl
  have e3 := spent_fires false [e] t hl
  simp only [List.singleton_append] at e1 e2 e3
  exact core_cons e h e1 e2 (fun j => lastRes_fireEv j e t he) e3

theorem inv_fireEv {n s t} (e : Ev) (he : isFireEv e = true) (h : Inv n s t) : Inv n s (e :: t) :=
  ⟨core_fireEv e he h.1, h.2⟩

theorem core_pb {n s t} (w : Nat) (h : Core n s t) : Core n s (.pollBegin w :: t) :=
  core_cons _ h (by simp [holds_C07]) (by simp [oks]) (fun j => by simp [lastRes])
    (by simp [spent, finalSeen, alive, panickedSeen])

theorem inv_misuse {n s t} (w : Nat) (h : Inv n s t) (hd : s.dead = true) :
    Inv n s (.pollEnd .misuse :: .pollBegin w :: t) := by
  have hb := core_pb w h.1
  have hsp := hb.dead hd
  refine inv_dead ?_ h.1.hn hd ?_
  · simp only [holds_C07, c07At, Bool.and_eq_true]
    exact ⟨by simpa [holds_C07] using h.1.mon, hsp⟩
  · simpa [spent, finalSeen, alive, panickedSeen] using hsp

/-- a slot that may be polled is a child that has not failed -/
theorem elig_pending {n s t} (h : Core n s t) (hd : s.dead = false) (i : Nat) (hi : i < n)
    (hel : s.st i ≠ .ready) : s.st i = .pending ∧ errVal t i = none := by
  rcases h.live hd i hi with hp | ⟨hr, _⟩
  · exact hp
  · exact absurd hr hel

/-- the monitor accepts polling slot `i` -/
theorem mon_seg {n s t} (h : Core n s t) (hd : s.dead = false) (i slot : Nat)
    (wk : Wk) (l : List Ev) (r : Res) (evs : List Ev) (hl : ∀ e ∈ l, isFireEv e = true)
    (he : ∀ e ∈ evs, isOwnEv e = true) (hnone : errVal t i = none) :
    holds_C07 n (pollSeg i slot wk l r evs t) = true := by
  rw [holds_seg n i slot wk l r evs t hl he]
  simp [h.mon, h.noOk hd, hnone]

/-- a child that neither failed nor succeeded leaves the table as it is -/
theorem keep_ok {n s t} (h : Core n s t) (hd : s.dead = false) (i slot : Nat)
    (wk : Wk) (l : List Ev) (r : Res) (hl : ∀ e ∈ l, isFireEv e = true)
    (hr : ∀ ok v, r ≠ .ready ok v) (hp : s.st i = .pending) (hnone : errVal t i = none) :
    Core n s (pollSeg i slot wk l r [] t) := by
  have he : ∀ e ∈ ([] : List Ev), isOwnEv e = true := by simp
  refine ⟨mon_seg h hd i slot wk l r [] hl he hnone, h.hn, ?_, ?_, h.cnt,
    fun hd' => absurd hd' (by simp [hd])⟩
  · intro _ j hj
    rw [errVal_pollSeg i slot wk l r [] t j hl he]
    by_cases hij : i = j
    · subst hij
      left
      refine ⟨hp, ?_⟩
      cases r <;> simp_all
    · simp only [hij, if_false]
      exact h.live hd j hj
  · intro _
    rw [oks_pollSeg i slot wk l r [] t hl he, h.noOk hd]
    cases r <;> simp_all

/-- errors seen since `pollBegin` stay seen -/
theorem since_mono {t} (i slot : Nat) (wk : Wk) (l : List Ev) (r : Res) (evs : List Ev)
    (hl : ∀ e ∈ l, isFireEv e = true) (he : ∀ e ∈ evs, isOwnEv e = true)
    (h : errs (sincePoll t) ≠ []) : errs (sincePoll (pollSeg i slot wk l r evs t)) ≠ [] := by
  rw [sincePoll_pollSeg i slot wk l r evs t hl he, errs_pollSeg i slot wk l r evs _ hl he]
  intro hc
  exact h (List.append_eq_nil_iff.mp hc).2

theorem since_err {t} (i slot : Nat) (wk : Wk) (l : List Ev) (v : Nat) (evs : List Ev)
    (hl : ∀ e ∈ l, isFireEv e = true) (he : ∀ e ∈ evs, isOwnEv e = true) :
    errs (sincePoll (pollSeg i slot wk l (.ready false v) evs t)) ≠ [] := by
  rw [sincePoll_pollSeg i slot wk l _ evs t hl he, errs_pollSeg i slot wk l _ evs _ hl he]
  simp

/-- slot `i` fails with `v` -/
theorem err_ok {n s t} (h : Core n s t) (hd : s.dead = false) (i slot : Nat) (hi : i < n)
    (wk : Wk) (l : List Ev) (v : Nat) (evs : List Ev) (hl : ∀ e ∈ l, isFireEv e = true)
    (he : ∀ e ∈ evs, isOwnEv e = true)
    (hp : s.st i = .pending) (hnone : errVal t i = none) (s' : Fix) (hn' : s'.n = s.n)
    (hst : s'.st = upd s.st i .ready) (hout : s'.out = upd s.out i (some v))
    (hdead : s'.dead = false) (hcnt : s'.cnt = s.cnt + 1) :
    Core n s' (pollSeg i slot wk l (.ready false v) evs t) := by
  refine ⟨mon_seg h hd i slot wk l _ evs hl he hnone, by rw [hn', h.hn], ?_, ?_, ?_,
    fun hd' => absurd hd' (by simp [hdead])⟩
  · intro _ j hj
    rw [errVal_pollSeg i slot wk l _ evs t j hl he, hst, hout]
    by_cases hij : i = j
    · subst hij
      right
      simp
    · have hji : j ≠ i := fun h => hij h.symm
      simp only [hij, if_false, upd_other _ _ _ _ hji]
      exact h.live hd j hj
  · intro _
    rw [oks_pollSeg i slot wk l _ evs t hl he, h.noOk hd]
    rfl
  · intro _
    rw [hcnt, hst, h.cnt hd]
    exact (cnt_ready_upd s.st n i hi hp).symm

/-- slot `i` succeeds with `v`: the race returns `Ok(v)` in this poll -/
theorem ok_exit {n s t} (h : Core n s t) (hd : s.dead = false) (i slot : Nat)
    (wk : Wk) (l : List Ev) (v : Nat) (evs : List Ev) (hl : ∀ e ∈ l, isFireEv e = true)
    (he : ∀ e ∈ evs, isOwnEv e = true) (hnone : errVal t i = none)
    (s' : Fix) (hn' : s'.n = s.n) (hdead : s'.dead = true) :
    Inv n s' (.pollEnd (.ready true [v]) :: pollSeg i slot wk l (.ready true v) evs t) := by
  refine inv_dead ?_ (by rw [hn', h.hn]) hdead (by simp [spent, finalSeen])
  simp only [holds_C07, c07At, Bool.and_eq_true, beq_iff_eq]
  refine ⟨mon_seg h hd i slot wk l _ evs hl he hnone, ⟨?_, by simp⟩, ?_⟩
  · rw [oks_pollSeg i slot wk l _ evs t hl he, h.noOk hd]
    rfl
  · rw [sincePoll_pollSeg i slot wk l _ evs t hl he, oks_pollSeg i slot wk l _ evs _ hl he,
      oks_sincePoll_nil t (h.noOk hd)]
    rfl

theorem inv_panic {n s t} (h : Core n s t) (hd : s.dead = false) (i slot : Nat) (wk : Wk)
    (l : List Ev) (hl : ∀ e ∈ l, isFireEv e = true) (hnone : errVal t i = none)
    (s' : Fix) (hn' : s'.n = s.n) (hdead : s'.dead = true) :
    Inv n s' (.pollEnd .panicked :: pollSeg i slot wk l .panic [] t) := by
  have he : ∀ e ∈ ([] : List Ev), isOwnEv e = true := by simp
  refine inv_dead ?_ (by rw [hn', h.hn]) hdead (by simp [spent, panickedSeen])
  simp only [holds_C07, c07At, Bool.and_true]
  exact mon_seg h hd i slot wk l _ [] hl he hnone

theorem inv_drop {n s t} (h : Inv n s t) (evs : List Ev)
    (he : ∀ e ∈ evs, isOwnEv e = true) (s' : Fix) (hn' : s'.n = s.n) (hdead : s'.dead = true) :
    Inv n s' (.dropEnd :: (evs.reverse ++ .dropBegin :: t)) := by
  have her : ∀ e ∈ evs.reverse, isOwnEv e = true := fun e h => he e (List.mem_reverse.mp h)
  refine inv_dead ?_ (by rw [hn', h.1.hn]) hdead ?_
  · simp only [holds_C07]
    rw [holds_owns _ _ _ her]
    simpa [holds_C07] using h.1.mon
  · have : alive (.dropEnd :: (evs.reverse ++ .dropBegin :: t)) = false := by
      simp only [alive]
      rw [skip_seg alive isOwnEv (fun e t h => alive_own e t h) evs.reverse her]
      rfl
    simp [spent, this]

/-- some child has not failed -/
theorem some_pending {n s t} (h : Core n s t) (hd : s.dead = false) (hlt : s.cnt < n) :
    ∃ i, i < n ∧ errVal t i = none := by
  rw [h.cnt hd] at hlt
  obtain ⟨i, hi, hp⟩ := cntP_lt _ _ hlt
  refine ⟨i, hi, ?_⟩
  rcases h.live hd i hi with ⟨_, hnone⟩ | ⟨hr, _⟩
  · exact hnone
  · simp [hr] at hp

/-- the scan is over and some child has not failed: `Pending` -/
theorem pend_ok {n s t} (h : Core n s t) (hd : s.dead = false) (hne : s.cnt ≠ s.n) :
    Inv n s (.pollEnd .pending :: t) := by
  have hle : s.cnt ≤ n := by rw [h.cnt hd]; exact cntP_le _ _
  have hlt : s.cnt < n := by have := h.hn; omega
  obtain ⟨i, hi, hnone⟩ := some_pending h hd hlt
  have hall : allErr n t = false := by
    cases hall : allErr n t
    · rfl
    · simp only [allErr, List.all_eq_true, List.mem_range] at hall
      have := hall i hi; simp [hnone] at this
  refine ⟨⟨?_, h.hn, ?_, ?_, h.cnt, fun hd' => absurd hd' (by simp [hd])⟩, fun _ _ => hlt⟩
  · simp [holds_C07, c07At, h.mon, h.noOk hd, hall]
  · intro _ j hj
    rw [errVal_cons _ _ _ (by simp)]
    exact h.live hd j hj
  · intro _
    simpa [oks] using h.noOk hd

/-- the scan is over and every child has failed, one of them in this poll: `Err(errors)` -/
theorem err_exit {n s t} (h : Core n s t) (hd : s.dead = false) (hc : s.cnt = s.n)
    (hs : 0 < n → errs (sincePoll t) ≠ []) (s' : Fix) (hn' : s'.n = s.n) (hdead : s'.dead = true) :
    Inv n s' (.pollEnd (.ready false s.outs) :: t) := by
  have hfull : cntP (fun i => decide (s.st i = .ready)) n = n := by
    rw [← h.cnt hd, hc, h.hn]
  have hall := cntP_full _ _ hfull
  have hlive : ∀ j, j < n → ∃ w, errVal t j = some w ∧ s.out j = some w := by
    intro j hj
    rcases h.live hd j hj with ⟨hp, _⟩ | ⟨_, w, hw, ho⟩
    · have := hall j hj; simp [hp] at this
    · exact ⟨w, hw, ho⟩
  refine inv_dead ?_ (by rw [hn', h.hn]) hdead (by simp [spent, finalSeen])
  simp only [holds_C07, c07At, Bool.and_eq_true, beq_iff_eq, Bool.or_eq_true, bne_iff_ne]
  refine ⟨h.mon, ⟨⟨h.noOk hd, ?_⟩, ?_⟩, ?_⟩
  · simp only [allErr, List.all_eq_true, List.mem_range]
    intro j hj
    obtain ⟨w, hw, _⟩ := hlive j hj
    simp [hw]
  · unfold Fix.outs
    rw [h.hn]
    apply List.map_congr_left
    intro j hj
    obtain ⟨w, hw, ho⟩ := hlive j (List.mem_range.mp hj)
    simp [hw, ho]
  · cases n with
    | zero => left; rfl
    | succ k => right; exact hs (by omega)

end C07
end Fc

namespace Fc
namespace C07
open Mon Fix

theorem mem_order_lt (rotate : Bool) (s : Fix) (j : Nat)
    (hj : j ∈ (if rotate = true then s.rot else List.range s.n)) : j < s.n := by
  cases rotate
  · simp only [Bool.false_eq_true, if_false] at hj
    exact List.mem_range.mp hj
  · simp only [if_true] at hj
    exact mem_rot_lt s j hj

theorem core_start (rotate : Bool) {n s t} (h : Core n s t) :
    Core n (if rotate = true then s.bump else s) t := by
  cases rotate
  · simpa using h
  · simp only [if_true]
    exact ⟨h.mon, h.hn, h.live, h.noOk, h.cnt, h.dead⟩

/-- race_ok in all its variants: `rotate` = Indexer scan order, `early` = finished children are
    dropped at once -/
theorem sim (rotate early : Bool) (n : Nat) (m : Mode) :
    Sim (raceOk rotate early) m Sim.anyRes (Inv n) (J n) where
  fireEv := fun s t e he h => inv_fireEv e he h
  pre := by
    intro s t w o hpre h
    simp only [raceOk, Fix.misuseIfDead] at hpre
    split at hpre
    · cases hpre; exact inv_misuse w h ‹_›
    · cases hpre
  start := by
    intro s t w hpre h
    have hd : s.dead = false := by
      simp only [raceOk, Fix.misuseIfDead] at hpre
      cases hdd : s.dead <;> simp_all
    have hd' : (if rotate = true then s.bump else s).dead = false := by
      cases rotate <;> simpa [Fix.bump] using hd
    have hc' : (if rotate = true then s.bump else s).cnt = s.cnt := by
      cases rotate <;> simp [Fix.bump]
    simp only [raceOk]
    refine ⟨core_start rotate (core_pb w h.1), hd', fun h0 => Or.inl ?_, ?_⟩
    · rw [hc']; exact h.2 hd h0
    · intro j hj
      rw [← h.1.hn]; exact mem_order_lt rotate s j hj
  earlyPend := by
    intro s t l _ hor hJ
    rcases hor with h1 | h1 <;> simp [raceOk] at h1
  skip := by
    intro s t i rest _ hJ
    exact ⟨hJ.1, hJ.2.1, hJ.2.2.1, fun j hj => hJ.2.2.2 j (List.mem_cons_of_mem _ hj)⟩
  goOn := by
    intro s t i rest wk l r hJ hel hr _ hl hex
    obtain ⟨h, hd, hs, hlt⟩ := hJ
    have hi : i < n := hlt i (List.mem_cons_self ..)
    obtain ⟨hp, hnone⟩ := elig_pending h hd i hi (by simpa [raceOk] using hel)
    have hrest : ∀ j ∈ rest, j < n := fun j hj => hlt j (List.mem_cons_of_mem _ hj)
    have keep : ∀ r : Res, (∀ ok v, r ≠ .ready ok v) →
        J n s (pollSeg i i wk l r [] t) rest := fun r hr' =>
      ⟨keep_ok h hd i i wk l r hl hr' hp hnone, hd, fun h0 => (hs h0).imp id
        (since_mono i i wk l r [] hl (by simp)), hrest⟩
    cases r with
    | ready ok v =>
      cases ok with
      | true => simp [raceOk] at hex
      | false =>
        have he : ∀ e ∈ (if early = true then [Ev.childDropped i] else []), isOwnEv e = true := by
          cases early <;> simp [isOwnEv]
        simp only [raceOk]
        exact ⟨err_ok h hd i i hi wk l v _ hl he hp hnone _ rfl rfl rfl hd rfl, hd,
          fun _ => Or.inr (since_err i i wk l v _ hl he), hrest⟩
    | pend => exact keep _ (by simp)
    | item v => exact keep _ (by simp)
    | fin => exact keep _ (by simp)
    | panic => exact absurd rfl hr
  goExit := by
    intro s t i rest wk l r o hJ hel hr _ hl hex
    obtain ⟨h, hd, hs, hlt⟩ := hJ
    have hi : i < n := hlt i (List.mem_cons_self ..)
    obtain ⟨hp, hnone⟩ := elig_pending h hd i hi (by simpa [raceOk] using hel)
    cases r with
    | ready ok v =>
      cases ok with
      | true =>
        have he : ∀ e ∈ (if early = true then [Ev.childDropped i] else []), isOwnEv e = true := by
          cases early <;> simp [isOwnEv]
        simp only [raceOk, Option.some.injEq] at hex
        subst hex
        simp only [raceOk]
        exact ok_exit h hd i i wk l v _ hl he hnone _ rfl rfl
      | false => simp [raceOk] at hex
    | pend => simp [raceOk, Fix.keep] at hex
    | item v => simp [raceOk, Fix.keep] at hex
    | fin => simp [raceOk, Fix.keep] at hex
    | panic => exact absurd rfl hr
  panic := by
    intro s t i rest wk l hJ hel hl
    obtain ⟨h, hd, hs, hlt⟩ := hJ
    have hi : i < n := hlt i (List.mem_cons_self ..)
    obtain ⟨hp, hnone⟩ := elig_pending h hd i hi (by simpa [raceOk] using hel)
    exact inv_panic h hd i i wk l hl hnone _ rfl rfl
  finish := by
    intro s t hJ
    obtain ⟨h, hd, hs, _⟩ := hJ
    simp only [raceOk]
    split
    · rename_i hc
      refine err_exit h hd hc (fun h0 => ?_) _ rfl rfl
      rcases hs h0 with h1 | h1
      · rw [hc, h.hn] at h1; omega
      · exact h1
    · rename_i hc
      exact pend_ok h hd hc
  drop := by
    intro s t h
    refine inv_drop h _ ?_ _ rfl rfl
    intro e he
    cases early <;>
      simp only [raceOk, Fix.dropAll, Bool.false_eq_true, if_false, if_true, List.mem_append,
        List.mem_map] at he <;>
      rcases he with ⟨_, _, rfl⟩ | ⟨_, _, rfl⟩ <;> rfl

/-- the initial state -/
theorem inv_init (n : Nat) : Inv n (Fix.init n 0) [] := by
  refine ⟨⟨rfl, rfl, fun _ i hi => Or.inl ⟨rfl, rfl⟩, fun _ => rfl, fun _ => ?_, fun hd => by cases hd⟩,
    fun _ h0 => h0⟩
  have : cntP (fun i => decide (PS.pending = PS.ready)) n = 0 := by
    rw [cntP_congr _ (fun _ => false) n (fun i _ => by simp)]
    exact cntP_none n
  exact this.symm

end C07
end Fc
