/-
  FcLemmas/LiveNPoll.lean — one top-level poll of a nest of future combinators: `lbn_poll`.

  The outer poll is analysed on the VIRTUAL outer instance `vo0`: the nested child `c` owns the
  one-step script `[step]` the model gives it (`Nest.stepE`, computed from the inner instance's
  speculative poll), extended by a final `Ready` when `step` is `Pending` — a well-behaved future
  script, so the flat lemmas (`Live2.lb_poll`, `Live2.pend_poll`, `Live2.poll_unresolved`) apply;
  `Nest.poll_ss` says that the model's poll (scripts `[step]`) is the same poll.
-/
import FcLemmas.LiveNInv
set_option linter.unusedSimpArgs false
set_option linter.unusedVariables false

namespace Fc
namespace LiveN
open Mon Live Nest

/-- virtual scripts at a top-level poll -/
def f0 (nc : NCase) (s : St) : Nat → List Step := fun c =>
  if (nc.inner c).isSome then
    (if resolvedVal s.out.w.trace c = none ∧ (stepE nc s c).res = .pend then
      [stepE nc s c, ⟨.ready true (9000 + c), []⟩] else [stepE nc s c])
  else s.out.w.scripts c

/-- the virtual outer instance -/
def vo0 (nc : NCase) (s : St) : Eng Fix := setScripts s.out (f0 nc s)

theorem vo0_eq (nc : NCase) (s : St) : vo0 nc s = setScripts (out0 nc s) (f0 nc s) := rfl

variable {nc : NCase} {F : FNest nc} {s : St}

theorem f0_plain {c : Nat} (h : nc.inner c = none) : f0 nc s c = s.out.w.scripts c := by
  simp [f0, h]

theorem out0_scripts_plain {c : Nat} (h : nc.inner c = none) :
    (out0 nc s).w.scripts c = s.out.w.scripts c := by
  simp [out0, h]

theorem out0_scripts_nested {c : Nat} (h : (nc.inner c).isSome = true) :
    (out0 nc s).w.scripts c = [stepE nc s c] := by
  simp [out0, h]

/-- every child of the virtual outer instance is a well-behaved future -/
theorem fut_f0 (h : LBN nc F s) (f : Nat → List Step)
    (hfp : ∀ c, nc.inner c = none → f c = s.out.w.scripts c)
    (hLB : Live2.LB nc.outer.policy F.Io (mo nc) F.fvo nc.n (setScripts s.out f)) :
    ∀ c, c < nc.n → Fut F.fvo (s.out.w.ss (f0 nc s)) c := by
  intro c hc
  have hold : Fut F.fvo (s.out.w.ss f) c := hLB.wi.fut c hc
  cases hin : nc.inner c with
  | none =>
    have : f0 nc s c = f c := by rw [f0_plain hin, hfp c hin]
    unfold Fut at hold ⊢
    simp only [World.ss_scripts, World.ss_trace] at hold ⊢
    rw [this]; exact hold
  | some fk =>
    obtain ⟨fam, k⟩ := fk
    have hs : (nc.inner c).isSome = true := by simp [hin]
    unfold Fut at hold ⊢
    simp only [World.ss_scripts, World.ss_trace] at hold ⊢
    rcases hold with ⟨_, hlr, hg, _⟩ | ⟨ok, hr⟩
    · left
      have hun : resolvedVal s.out.w.trace c = none := by
        rcases hlr with h1 | h1 <;> simp [resolvedVal, h1]
      rcases spec_cases h hc hin hun with hres | ⟨hres, _, _⟩
      · have hf : f0 nc s c = [stepE nc s c] := by simp [f0, hs, hres]
        rw [hf]
        refine ⟨by simp [Exec.futureScript, hres], hlr, hg, ?_⟩
        rw [finalVal_single _ true _ hres, F.fvn c hs]
      · have hf : f0 nc s c = [stepE nc s c, ⟨.ready true (9000 + c), []⟩] := by
          simp [f0, hs, hres, hun]
        rw [hf]
        refine ⟨by simp [Exec.futureScript, hres], hlr, hg, ?_⟩
        rw [finalVal_cons _ _ (by simp), finalVal_single _ true (9000 + c) rfl, F.fvn c hs]
    · right; exact ⟨ok, hr⟩

/-- what the analysis of the outer poll on the virtual instance yields -/
structure PollV (nc : NCase) (F : FNest nc) (s : St) (wid : Nat) (f' : Nat → List Step) : Prop where
  plain : ∀ c, nc.inner c = none → f' c = (out1 nc s wid).w.scripts c
  lb0 : Live2.LB nc.outer.policy F.Io (mo nc) F.fvo nc.n (vo0 nc s)
  pe : PEnd F.fvo nc.n (fun c => (f0 nc s c).length) s.out.w.trace ((out1 nc s wid).w.ss f')
  unres : ∀ c ok v, lastRes s.out.w.trace c = some (.ready ok v) →
    polledSince (out1 nc s wid).w.trace c = false ∧
      lastRes (out1 nc s wid).w.trace c = some (.ready ok v)
  res : (∃ ok vals, lastOut (out1 nc s wid).w.trace = some (.ready ok vals) ∧ F.Fino ok vals) ∨
    (Live2.LB nc.outer.policy F.Io (mo nc) F.fvo nc.n (setScripts (out1 nc s wid) f') ∧
      lastOut (out1 nc s wid).w.trace = some .pending ∧
      ∀ c, c < nc.n → lastRes s.out.w.trace c = some .pend → owes s.out.w.trace c = true →
        polledSince (out1 nc s wid).w.trace c = true)

theorem pollV (h : LBN nc F s) (wid : Nat) : ∃ f', PollV nc F s wid f' := by
  obtain ⟨f, hfp, hLB⟩ := h.vo
  have hLB0 : Live2.LB nc.outer.policy F.Io (mo nc) F.fvo nc.n (vo0 nc s) :=
    lb_rescript s.out f (f0 nc s) hLB (fut_f0 h f hfp hLB)
  have Lo := F.flo.conc.law
  -- the model's poll is the virtual poll
  have hag : ∀ c, ((out0 nc s).w.ss (f0 nc s)).stepOf c = (out0 nc s).w.stepOf c := by
    intro c
    unfold World.stepOf
    simp only [World.ss_scripts]
    cases hs : (nc.inner c).isSome with
    | false =>
      have hin : nc.inner c = none := by simpa using hs
      rw [f0_plain hin, out0_scripts_plain hin]
    | true =>
      rw [out0_scripts_nested hs]
      by_cases hcnd : resolvedVal s.out.w.trace c = none ∧ (stepE nc s c).res = .pend
      · simp [f0, hs, hcnd]
      · simp [f0, hs, hcnd]
  obtain ⟨f', hpoll, hplain⟩ := poll_ss Lo F.nd (fun c => nc.inner c = none) (out0 nc s) (f0 nc s) wid
    hag (fun c hc => by rw [f0_plain hc, out0_scripts_plain hc])
  have hpoll' : Eng.poll nc.outer.policy (vo0 nc s) wid = setScripts (out1 nc s wid) f' := hpoll
  have hP := Live2.pend_poll F.flo (vo0 nc s) wid hLB0.mode hLB0.fi hLB0.wi hLB0.sp
  rw [hpoll'] at hP
  have hun : ∀ c ok v, lastRes s.out.w.trace c = some (.ready ok v) →
      polledSince (out1 nc s wid).w.trace c = false ∧
        lastRes (out1 nc s wid).w.trace c = some (.ready ok v) := by
    intro c ok v hr
    have := Live2.poll_unresolved F.flo (vo0 nc s) wid hLB0.mode hLB0.fi c ok v hr
    rw [hpoll'] at this
    exact this
  refine ⟨f', hplain, hLB0, hP, hun, ?_⟩
  rcases Live2.lb_poll F.flo (vo0 nc s) wid hLB0 with ⟨ok, vals, hv, hF⟩ | ⟨h', hlo', _, _, _⟩
  · left
    rw [hpoll'] at hv
    exact ⟨ok, vals, hv, hF⟩
  · right
    rw [hpoll'] at h' hlo'
    refine ⟨h', hlo', fun c hc h1 h2 => ?_⟩
    obtain ⟨o, t, ht, _, _⟩ := hP.shape
    exact ((lb_c20 F.flo (vo0 nc s) _ s.out.w.trace h' hlo' hP.ab ⟨o, t, ht⟩) c hc).2 h1 h2

/-! ### the nested children across the poll -/

theorem poll_gone (nc : NCase) (s : St) (w c : Nat) :
    (poll nc s w).gone c = (s.gone c ||
      (((List.range nc.n).filter (fun c => (nc.inner c).isSome)).contains c && !s.gone c
        && droppedNow (out1 nc s w).w.trace c)) := rfl

/-- a nested child that has not resolved after the poll: it had not resolved before, it is not
    released, and either it was not polled (inner instance unchanged) or it was polled, answered
    `Pending`, and the speculative inner poll is committed -/
theorem nested_after (h : LBN nc F s) {wid : Nat} {f' : Nat → List Step} (hV : PollV nc F s wid f')
    (hLB1 : Live2.LB nc.outer.policy F.Io (mo nc) F.fvo nc.n (setScripts (out1 nc s wid) f'))
    {c : Nat} {fam : Fam} {k : Nat} (hc : c < nc.n) (hin : nc.inner c = some (fam, k))
    (hua : resolvedVal (out1 nc s wid).w.trace c = none) :
    resolvedVal s.out.w.trace c = none ∧ (poll nc s wid).gone c = false ∧
    ((polledSince (out1 nc s wid).w.trace c = false ∧ (poll nc s wid).inn c = s.inn c) ∨
     (polledSince (out1 nc s wid).w.trace c = true ∧ (poll nc s wid).inn c = specE nc s c ∧
        (stepE nc s c).res = .pend)) := by
  have hs : (nc.inner c).isSome = true := by simp [hin]
  have Lo := F.flo.conc.law
  -- unresolved before
  have hub : resolvedVal s.out.w.trace c = none := by
    cases hlr : lastRes s.out.w.trace c with
    | none => simp [resolvedVal, hlr]
    | some r =>
      cases r with
      | ready ok v =>
        have := (hV.unres c ok v hlr).2
        simp [resolvedVal, this] at hua
      | _ => simp [resolvedVal, hlr]
  have hgb := (h.inn c fam k hc hin hub).2
  -- not released
  have hga : gone (out1 nc s wid).w.trace c = false := by
    have hf : Fut F.fvo ((out1 nc s wid).w.ss f') c := hLB1.wi.fut c hc
    rcases hf with ⟨_, _, hg, _⟩ | ⟨ok, hr⟩
    · exact hg
    · simp only [World.ss_trace] at hr
      simp [resolvedVal, hr] at hua
  have hdn : droppedNow (out1 nc s wid).w.trace c = false := by
    cases hd : droppedNow (out1 nc s wid).w.trace c with
    | false => rfl
    | true => have := droppedNow_gone _ _ hd; rw [hga] at this; exact Bool.noConfusion this
  have hgone : (poll nc s wid).gone c = false := by
    rw [poll_gone, hgb, hdn]; simp
  refine ⟨hub, hgone, ?_⟩
  have hinn : (poll nc s wid).inn c =
      if polledSince (out1 nc s wid).w.trace c = true then specE nc s c else s.inn c := by
    rw [poll_inn]
    simp only [nested_contains nc c hc hs, Bool.true_and, polledNow_eq, hdn, Bool.and_false,
      Bool.false_eq_true, if_false]
  have hnp := poll_np Lo F.nd (out0 nc s) wid c (stepE nc s c) (out0_scripts_nested hs)
    (h.ninv.lk c hc hs).hw
  rcases hnp with np | np
  · left
    have hps : polledSince (out1 nc s wid).w.trace c = false := np.ps
    exact ⟨hps, by rw [hinn, hps]; simp⟩
  · right
    have hps : polledSince (out1 nc s wid).w.trace c = true := np.ps
    refine ⟨hps, by rw [hinn, hps]; simp, ?_⟩
    have hlr : lastRes (out1 nc s wid).w.trace c = some (stepE nc s c).res := np.lr
    rcases spec_cases h hc hin hub with hres | ⟨hres, _, _⟩
    · rw [hres] at hlr
      simp [resolvedVal, hlr] at hua
    · exact hres

/-! ### the progress measure across the poll -/

theorem mIn_poll_plain {wid c : Nat} (hin : nc.inner c = none) :
    mIn nc (poll nc s wid) c = ((out1 nc s wid).w.scripts c).length := by
  rw [mIn_plain hin, poll_out]
  simp [setScripts, hin]

theorem mIn_poll_le (h : LBN nc F s) {wid : Nat} {f' : Nat → List Step} (hV : PollV nc F s wid f')
    (hLB1 : Live2.LB nc.outer.policy F.Io (mo nc) F.fvo nc.n (setScripts (out1 nc s wid) f'))
    (c : Nat) (hc : c < nc.n) : mIn nc (poll nc s wid) c ≤ mIn nc s c := by
  cases hin : nc.inner c with
  | none =>
    rw [mIn_poll_plain hin, mIn_plain hin, ← out0_scripts_plain (s := s) hin]
    exact poll_scripts_le F.flo.conc.law (out0 nc s) wid c
  | some fk =>
    obtain ⟨fam, k⟩ := fk
    by_cases hua : resolvedVal (out1 nc s wid).w.trace c = none
    · obtain ⟨hub, _, hcase⟩ := nested_after h hV hLB1 hc hin hua
      rw [mIn_nested hin (by rw [poll_out_trace]; exact hua), mIn_nested hin hub]
      rcases hcase with ⟨_, hi⟩ | ⟨_, hi, _⟩
      · rw [hi]; exact Nat.le_refl _
      · rw [hi]; exact spec_le F hin
    · rw [mIn_resolved hin (by rw [poll_out_trace]; exact hua)]; exact Nat.zero_le _

/-- a nested child that was polled while its inner instance consumed a step -/
theorem mIn_poll_lt_nested (h : LBN nc F s) {wid : Nat} {f' : Nat → List Step}
    (hV : PollV nc F s wid f')
    (hLB1 : Live2.LB nc.outer.policy F.Io (mo nc) F.fvo nc.n (setScripts (out1 nc s wid) f'))
    {c : Nat} {fam : Fam} {k : Nat} (hc : c < nc.n) (hin : nc.inner c = some (fam, k))
    (hub : resolvedVal s.out.w.trace c = none)
    (hps : polledSince (out1 nc s wid).w.trace c = true)
    (hlt : Exec.stepsLeft k (specE nc s c) < Exec.stepsLeft k (s.inn c)) :
    mIn nc (poll nc s wid) c < mIn nc s c := by
  rw [mIn_nested hin hub]
  by_cases hua : resolvedVal (out1 nc s wid).w.trace c = none
  · obtain ⟨_, _, hcase⟩ := nested_after h hV hLB1 hc hin hua
    rw [mIn_nested hin (by rw [poll_out_trace]; exact hua)]
    rcases hcase with ⟨hn, _⟩ | ⟨_, hi, _⟩
    · rw [hps] at hn; exact Bool.noConfusion hn
    · rw [hi]; exact hlt
  · rw [mIn_resolved hin (by rw [poll_out_trace]; exact hua)]; omega

/-- a polled child unresolved before -/
theorem unresolved_of_polled {wid : Nat} {f' : Nat → List Step} (hV : PollV nc F s wid f') {c : Nat}
    (hps : polledSince (out1 nc s wid).w.trace c = true) : resolvedVal s.out.w.trace c = none := by
  cases hlr : lastRes s.out.w.trace c with
  | none => simp [resolvedVal, hlr]
  | some r =>
    cases r with
    | ready ok v =>
      have := (hV.unres c ok v hlr).1
      rw [hps] at this; exact Bool.noConfusion this
    | _ => simp [resolvedVal, hlr]

/-- a child polled by the outer poll whose script has in-poll wake-ups / which is plain: the
    measure of its slot decreased -/
theorem mIn_poll_lt_polled (h : LBN nc F s) {wid : Nat} {f' : Nat → List Step}
    (hV : PollV nc F s wid f')
    (hLB1 : Live2.LB nc.outer.policy F.Io (mo nc) F.fvo nc.n (setScripts (out1 nc s wid) f'))
    {c : Nat} (hps : polledSince (out1 nc s wid).w.trace c = true)
    (hx : ∀ fam k, nc.inner c = some (fam, k) →
      Exec.stepsLeft k (specE nc s c) < Exec.stepsLeft k (s.inn c)) :
    c < nc.n ∧ mIn nc (poll nc s wid) c < mIn nc s c := by
  have hpsv : polledSince ((out1 nc s wid).w.ss f').trace c = true := hps
  obtain ⟨hc, hlen⟩ := hV.pe.ps c hpsv
  refine ⟨hc, ?_⟩
  cases hin : nc.inner c with
  | none =>
    rw [mIn_poll_plain hin, mIn_plain hin]
    simp only [World.ss_scripts, f0_plain hin, hV.plain c hin] at hlen
    exact hlen
  | some fk =>
    obtain ⟨fam, k⟩ := fk
    exact mIn_poll_lt_nested h hV hLB1 hc hin (unresolved_of_polled hV hps) hps (hx fam k hin)

/-! ### the wake-ups owed when the poll begins -/

/-- a waiting child (plain, or a leaf of a waiting nested child) whose wake-up is owed -/
def Owed (nc : NCase) (s : St) : Prop :=
  (∃ c, c < nc.n ∧ nc.inner c = none ∧ lastRes s.out.w.trace c = some .pend ∧
      owes s.out.w.trace c = true) ∨
  (∃ c fam k g, c < nc.n ∧ nc.inner c = some (fam, k) ∧ g < k ∧
      lastRes s.out.w.trace c = some .pend ∧ lastRes (s.inn c).w.trace g = some .pend ∧
      owes (s.inn c).w.trace g = true ∧ (s.inn c).w.scripts g ≠ [])

/-- an owed leaf makes its nested child owe on the outer trace (both levels of C01) -/
theorem outer_owes_of_leaf (h : LBN nc F s) {c : Nat} {fam : Fam} {k : Nat} {g : Nat}
    (hc : c < nc.n) (hin : nc.inner c = some (fam, k))
    (hp : lastRes s.out.w.trace c = some .pend) (hpl : lastRes (s.inn c).w.trace g = some .pend)
    (hol : owes (s.inn c).w.trace g = true) : owes s.out.w.trace c = true := by
  have hs : (nc.inner c).isSome = true := by simp [hin]
  obtain ⟨f, _, hLB⟩ := h.vo
  have ha : alive s.out.w.trace = true := alive_of_sp hLB.sp
  have hg : gone s.out.w.trace c = false := by
    have hf : Fut F.fvo (s.out.w.ss f) c := hLB.wi.fut c hc
    rcases hf with ⟨_, _, hg, _⟩ | ⟨ok, hr⟩
    · exact hg
    · simp only [World.ss_trace] at hr; rw [hp] at hr; cases hr
  have lk := h.ninv.lk c hc hs
  have hai : alive (s.inn c).w.trace = true := by
    cases hh : alive (s.inn c).w.trace with
    | true => rfl
    | false => have := lk.l4 ha hh; rw [hg] at this; exact Bool.noConfusion this
  exact lk.l3 ((h.ninv.fi c hs).quiet_pt g hai (lk.l2 hp) hpl hol)

/-! ### one top-level poll -/

theorem lbn_poll (h : LBN nc F s) (wid : Nat) :
    (∃ ok vals, lastOut (poll nc s wid).out.w.trace = some (.ready ok vals) ∧ F.Fino ok vals) ∨
    (LBN nc F (poll nc s wid) ∧ lastOut (poll nc s wid).out.w.trace = some .pending ∧
      mu nc (poll nc s wid) ≤ mu nc s ∧
      (mu nc (poll nc s wid) < mu nc s ∨ wokeSince (poll nc s wid).out.w.trace = false) ∧
      (Owed nc s → mu nc (poll nc s wid) < mu nc s)) := by
  obtain ⟨f', hV⟩ := pollV h wid
  rcases hV.res with hdone | ⟨hLB1, hlo1, hc20⟩
  · left; exact hdone
  · right
    have hle := mIn_poll_le h hV hLB1
    refine ⟨⟨ninv_poll h.ninv F.nd wid, ⟨f', ?_, ?_⟩, ?_⟩, hlo1, total_le _ _ _ hle, ?_, ?_⟩
    · intro c hin
      rw [hV.plain c hin, poll_out]
      simp [setScripts, hin]
    · rw [poll_out]; exact hLB1
    · intro c fam k hc hin hua
      rw [poll_out_trace] at hua
      obtain ⟨hub, hgone, hcase⟩ := nested_after h hV hLB1 hc hin hua
      refine ⟨?_, hgone⟩
      rcases hcase with ⟨_, hi⟩ | ⟨_, hi, hres⟩
      · rw [hi]; exact (h.inn c fam k hc hin hub).1
      · rw [hi]
        rcases spec_cases h hc hin hub with hr | ⟨_, hl, _⟩
        · rw [hr] at hres; cases hres
        · exact hl
    · -- woken ⇒ a step was consumed
      cases hw : wokeSince (poll nc s wid).out.w.trace with
      | false => right; rfl
      | true =>
        left
        rw [poll_out_trace] at hw
        obtain ⟨c, hps, st, hst, hfires⟩ :=
          poll_woke_fires F.flo.conc.law (out0 nc s) wid (wokeSince_wokeAny _ hw)
        have hps' : polledSince (out1 nc s wid).w.trace c = true := hps
        obtain ⟨hc, hlt⟩ := mIn_poll_lt_polled h hV hLB1 hps' (by
          intro fam k hin
          have hs : (nc.inner c).isSome = true := by simp [hin]
          rw [out0_scripts_nested hs] at hst
          simp only [List.mem_singleton] at hst
          subst hst
          refine spec_woke h (c := c) ?_ hin (unresolved_of_polled hV hps') ?_
          · have hpsv : polledSince ((out1 nc s wid).w.ss f').trace c = true := hps'
            exact (hV.pe.ps c hpsv).1
          · -- the step's in-poll wake-ups are the inner instance's wake-ups
            simp only [stepE] at hfires
            cases hwk : wokes (sincePB (specE nc s c).w.trace) with
            | nil => rw [hwk] at hfires; simp at hfires
            | cons k0 rest =>
              exact ⟨k0, (mem_wokes k0 _).mp (by rw [hwk]; exact List.mem_cons_self ..)⟩)
        exact total_lt _ _ _ hle c hc hlt
    · -- an owed wake-up ⇒ that child is polled and consumes a step
      intro ho
      rcases ho with ⟨c, hc, hin, hp, ho⟩ | ⟨c, fam, k, g, hc, hin, hg, hp, hpl, hol, hne⟩
      · have hps := hc20 c hc hp ho
        obtain ⟨_, hlt⟩ := mIn_poll_lt_polled h hV hLB1 hps (by
          intro fam k hin'; rw [hin] at hin'; cases hin')
        exact total_lt _ _ _ hle c hc hlt
      · have hoc := outer_owes_of_leaf h hc hin hp hpl hol
        have hps := hc20 c hc hp hoc
        have hub : resolvedVal s.out.w.trace c = none := by simp [resolvedVal, hp]
        have hpos : 0 < Exec.stepsLeft k (s.inn c) := by
          have h3 := le_total (fun g => ((s.inn c).w.scripts g).length) k g hg
          have h4 := length_pos_of_ne_nil' _ hne
          rw [stepsLeft_eq]; omega
        refine total_lt _ _ _ hle c hc ?_
        rcases spec_cases h hc hin hub with hr | ⟨_, _, hEE⟩
        · -- the nested child resolves in this poll
          have hs : (nc.inner c).isSome = true := by simp [hin]
          have hnp := poll_np F.flo.conc.law F.nd (out0 nc s) wid c (stepE nc s c)
            (out0_scripts_nested hs) (h.ninv.lk c hc hs).hw
          rcases hnp with np | np
          · have : polledSince (out1 nc s wid).w.trace c = false := np.ps
            rw [hps] at this; exact Bool.noConfusion this
          · have hlr : lastRes (out1 nc s wid).w.trace c = some (stepE nc s c).res := np.lr
            rw [hr] at hlr
            rw [mIn_nested hin hub,
              mIn_resolved hin (by rw [poll_out_trace]; simp [resolvedVal, hlr])]
            exact hpos
        · exact mIn_poll_lt_nested h hV hLB1 hc hin hub hps (hEE g hg hpl hol)

end LiveN
end Fc
