/-
  FcLemmas/C16NestProj.lean — the PROJECTION of a nest run onto one instance.

  Every component of a nest state (the outer instance, the inner instance of every nested child)
  only ever undergoes the operations of the flat model:
      `Eng.poll P · w`,  `Eng.fire · c a`,  `Eng.drop P ·`
  plus, for the outer instance, the replacement of its script table (the speculative answers of
  the nested children are written into it before the poll and removed after it).  So a predicate
  on engine states that is closed under these operations (`Closed P Q`; `ScriptFree Q` for the outer
  instance) and holds initially holds of that component in every reachable state of the nest
  (`Nest.proj_foldl`).  In particular the state of an inner instance is the final state of a FLAT
  case — same family, mode, leaves and leaf scripts — under some history (`Nest.inner_flat`).

  Every flat invariant that does not look at the scripts (C16's `EInv`, C20's `B20` next to the
  C01 invariants, …) therefore transfers to every instance of a nest.
-/
import FcLemmas.NestInv
set_option linter.unusedSimpArgs false
set_option linter.unusedVariables false

namespace Fc

/-- `Q` is preserved by every operation an instance with policy `P` can undergo inside a nest -/
structure Closed (P : Policy Fix) (Q : Eng Fix → Prop) : Prop where
  poll : ∀ e w, Q e → Q (Eng.poll P e w)
  fire : ∀ e c a, Q e → Q (e.fire c a)
  drop : ∀ e, Q e → Q (Eng.drop P e)

/-- `Q` does not look at the script table (needed of the OUTER instance only: the inner instances
    keep their scripts) -/
def ScriptFree (Q : Eng Fix → Prop) : Prop :=
  ∀ e f, Q e → Q { e with w := { e.w with scripts := f } }

theorem ScriptFree.imp {Q : Eng Fix → Prop} (A : Prop) (h : ScriptFree Q) :
    ScriptFree (fun e => A → Q e) := fun e f hq a => h e f (hq a)

namespace Closed

theorem triv (P : Policy Fix) : Closed P (fun _ => True) :=
  ⟨fun _ _ _ => trivial, fun _ _ _ _ => trivial, fun _ _ => trivial⟩

/-- an invariant that is only claimed under a side condition on the case -/
theorem imp {P : Policy Fix} {Q : Eng Fix → Prop} (A : Prop) (h : A → Closed P Q) :
    Closed P (fun e => A → Q e) :=
  ⟨fun e w hq a => (h a).poll e w (hq a), fun e c x hq a => (h a).fire e c x (hq a),
   fun e hq a => (h a).drop e (hq a)⟩

theorem fires {P : Policy Fix} {Q : Eng Fix → Prop} (h : Closed P Q) (c p : Nat) (l : List Nat)
    (e : Eng Fix) (hq : Q e) : Q (l.foldl (fun o k => o.fire c (p - k)) e) := by
  induction l generalizing e with
  | nil => exact hq
  | cons k l ih => exact ih _ (h.fire e c (p - k) hq)

end Closed

namespace Nest

/-- the component invariant of a nest: `Qo` of the outer instance, `Qi c` of the inner instance
    in slot `c` -/
structure Proj (Qo : Eng Fix → Prop) (Qi : Nat → Eng Fix → Prop) (s : St) : Prop where
  o : Qo s.out
  i : ∀ c, Qi c (s.inn c)

variable {nc : NCase} {Qo : Eng Fix → Prop} {Qi : Nat → Eng Fix → Prop}

theorem proj_poll (ho : Closed nc.outer.policy Qo) (hs : ScriptFree Qo) (hi : ∀ c, Closed (innerPolicy nc c) (Qi c))
    {s : St} (h : Proj Qo Qi s) (w : Nat) : Proj Qo Qi (poll nc s w) := by
  refine ⟨?_, ?_⟩
  · rw [poll_out]
    exact hs _ _ (ho.poll _ w (hs _ _ h.o))
  · intro c
    rw [poll_inn]
    have hsp : Qi c (specE nc s c) := (hi c).poll _ _ (h.i c)
    have hin1 : Qi c
        (if (((List.range nc.n).filter (fun c => (nc.inner c).isSome)).contains c
            && polledNow (out1 nc s w).w.trace c) = true then specE nc s c else s.inn c) := by
      split
      · exact hsp
      · exact h.i c
    split
    · exact (hi c).drop _ hin1
    · exact hin1

theorem proj_fire (ho : Closed nc.outer.policy Qo) (hi : ∀ c, Closed (innerPolicy nc c) (Qi c))
    {s : St} (h : Proj Qo Qi s) (id age : Nat) : Proj Qo Qi (fire nc s id age) := by
  unfold fire
  split
  · exact ⟨ho.fire _ _ _ h.o, h.i⟩
  · simp only
    refine ⟨ho.fires _ _ _ _ h.o, ?_⟩
    intro c
    simp only
    split
    · rename_i hcc; subst hcc; exact (hi _).fire _ _ _ (h.i _)
    · exact h.i c

theorem proj_drop (ho : Closed nc.outer.policy Qo) (hi : ∀ c, Closed (innerPolicy nc c) (Qi c))
    {s : St} (h : Proj Qo Qi s) : Proj Qo Qi (drop nc s) := by
  unfold drop
  refine ⟨ho.drop _ h.o, ?_⟩
  intro c
  simp only
  split
  · exact (hi c).drop _ (h.i c)
  · exact h.i c

theorem proj_step (ho : Closed nc.outer.policy Qo) (hs : ScriptFree Qo) (hi : ∀ c, Closed (innerPolicy nc c) (Qi c))
    {s : St} (h : Proj Qo Qi s) (op : Op) : Proj Qo Qi (step nc s op) := by
  cases op <;> simp only [step]
  · exact proj_poll ho hs hi h _
  · exact proj_fire ho hi h _ _
  · exact proj_drop ho hi h
  all_goals exact h

/-- the projection lemma: a closed predicate that holds of every component initially holds of every
    component of every reachable state of the nest -/
theorem proj_foldl (ho : Closed nc.outer.policy Qo) (hs : ScriptFree Qo) (hi : ∀ c, Closed (innerPolicy nc c) (Qi c))
    (ops : List Op) (s : St) (h : Proj Qo Qi s) : Proj Qo Qi (ops.foldl (step nc) s) := by
  induction ops generalizing s with
  | nil => exact h
  | cons op ops ih => exact ih _ (proj_step ho hs hi h op)

/-! ### an inner instance is an instance of the flat model -/

/-- reachability in the flat model is closed -/
theorem closed_reach (P : Policy Fix) (e0 : Eng Fix) :
    Closed P (fun e => ∃ ops : List Op, e = ops.foldl (FEng.step P) e0) := by
  refine ⟨?_, ?_, ?_⟩
  · rintro e w ⟨ops, rfl⟩
    exact ⟨ops ++ [.poll w], by simp [List.foldl_append, FEng.step]⟩
  · rintro e c a ⟨ops, rfl⟩
    exact ⟨ops ++ [.fire c a], by simp [List.foldl_append, FEng.step]⟩
  · rintro e ⟨ops, rfl⟩
    exact ⟨ops ++ [.drop], by simp [List.foldl_append, FEng.step]⟩

/-- the leaf scripts of the inner instance of nested child `c` (in-poll wake-ups name leaves of
    the same instance by local index) -/
def leafScripts (nc : NCase) (c : Nat) : Nat → List Step := fun g =>
  (nc.scripts (leafId c g)).map
    (fun st => { st with fires := st.fires.map (fun p => (p.1 % 100, p.2)) })

/-- the flat case the inner instance of nested child `c` is a run of, for a history `ops` -/
def innerCase (nc : NCase) (c : Nat) (fam : Fam) (k : Nat) (ops : List Op) : Case :=
  { fam := fam, mode := nc.mode, keyed := false, n := k, scripts := leafScripts nc c, ops := ops }

/-- in every reachable state of a nest, the state of the inner instance of a nested child is the
    final state of the flat case with the same family, mode, leaves and leaf scripts under SOME
    history: the outer instance's polls of that child are its `poll` operations (with the number of
    the poll as task waker), wake-ups aimed at its leaves are its `fire`s, its release is its
    `drop`. -/
theorem inner_flat (nc : NCase) (c : Nat) (fam : Fam) (k : Nat) (hin : nc.inner c = some (fam, k))
    (ops : List Op) :
    ∃ ops', ((ops.foldl (step nc) (init nc)).inn c) = (innerCase nc c fam k ops').finalFix := by
  have h := proj_foldl (nc := nc) (Qo := fun _ => True)
    (Qi := fun c e => ∃ ops' : List Op, e = ops'.foldl (FEng.step (innerPolicy nc c)) (innerInit nc c))
    (Closed.triv _) (fun _ _ _ => trivial) (fun c => closed_reach _ _) ops (init nc)
    ⟨trivial, fun c => ⟨[], rfl⟩⟩
  obtain ⟨ops', h'⟩ := h.i c
  refine ⟨ops', ?_⟩
  rw [h']
  simp only [Case.finalFix, innerCase, innerPolicy, innerInit, hin]
  rfl

end Nest
end Fc
