/-
  Kernel tie, `(A, B, …).race()` / `FutureExt::race` (src/future/race/tuple.rs, `impl_race_tuple!`) — the invariant of
  the translated loop, over the TUPLE container's translated structure (`RaceT.Race`, FcGen/KSrcTup5.lean).  The port of
  FcLemmas/KTieRaceAInv.lean (itself the port of the second half of FcLemmas/KTieFamRace.lean): the same two predicates,
  stated through the `role…` abbreviations, so the different field order of the tuple's struct does not show.

  Everything else the Vec / array proofs use is container-independent and is IMPORTED, not copied:
    * FcLemmas/KTieFamEnv.lean   (`TieDirect.*`: the environment in the direct strategy, `pollFut_tie`, `FutSteps`);
    * FcLemmas/KTieFamLoop.lean  (`TieLoop.*`: `iter_collect`, `bind_spec`, `LoopPost`, `forCtl_scan`);
    * the model side of FcLemmas/KTieFamRace.lean (`TieRaceV.visit_race_pend`, `visit_race_ready`, `poll_race_live`,
      `close_race_some`, `close_race_none`: statements about `Eng.visit race` / `Eng.poll race` / `Eng.close race` only,
      no translated structure occurs in them).
-/
import FcLemmas.KTieFamEnv
import FcLemmas.KTieFamLoop
import FcLemmas.KTieFamRace
import FcGen.KSrcTup5
import Fc.Families

set_option linter.unusedSimpArgs false
set_option linter.unusedVariables false

namespace Fc
open Rs Src

namespace TieRaceT
open RaceT TieDirect TieLoop

/-! ### the loop invariant: the carried `(self, env)` is the model state -/

/-- between iterations: same world; the combinator's children, offset, maximum are fixed, `done` is still false -/
def Inv (n off cx : Nat) (s : Race × World) (e : Eng Fix) : Prop :=
  e.w = s.2 ∧ e.s.n = n ∧ e.s.off = off ∧ e.s.dead = false ∧
  s.1.roleKids.len = n ∧ s.1.roleIndexer.roleOffset = off ∧ s.1.roleIndexer.roleMax = n ∧ s.1.roleDone = false ∧
  s.2.mode = .direct ∧ s.2.parent = some cx ∧ FutSteps s.2

/-- after the iteration that returned: as `Inv`, but `done` / `dead` are set -/
def Fin (n off : Nat) (_v : Rs.Poll Nat) (s : Race × World) (e : Eng Fix) : Prop :=
  e.w = s.2 ∧ e.s.n = n ∧ e.s.off = off ∧ e.s.dead = true ∧
  s.1.roleKids.len = n ∧ s.1.roleIndexer.roleOffset = off ∧ s.1.roleIndexer.roleMax = n ∧ s.1.roleDone = true

end TieRaceT

end Fc
