/-
  FcLemmas/C15Inv.lean — the invariant relating the acceptor state `s = run c t` of Fc/CoSpec.lean
  to the observations of the trace `t`, and its preservation by the acceptor's bookkeeping
  functions (`push`, `resume`, `takeItem`, `setMember`, `complete`, ...).
-/
import FcLemmas.C15Obs

set_option linter.unusedSimpArgs false
set_option linter.unusedVariables false

namespace Fc
namespace CoC15
open Co

/-- what the trace says about a member of the bag: the stages before its own are done (called
    once, the future resolved), its own stage was called iff it has a running future (and that is
    the future the call returned), later stages were never called -/
structure MemOk (t : List CoEv) (m : Member) : Prop where
  before : ∀ st, st < m.stage → stageDone t st m.j = true
  idle : m.cur = none → calls t m.stage m.j = 0
  busy : ∀ k, m.cur = some k → calls t m.stage m.j = 1 ∧ futOf t m.stage m.j = some k
  after : ∀ st, m.stage < st → calls t st m.j = 0

theorem MemOk.cons {t : List CoEv} {m : Member} (h : MemOk t m) (ev : CoEv) (hn : NoCall ev m.j) :
    MemOk (ev :: t) m where
  before st hst := stageDone_cons (hn.at st) (h.before st hst)
  idle hc := by rw [calls_cons (hn.at _)]; exact h.idle hc
  busy k hk := by rw [calls_cons (hn.at _), futOf_cons (hn.at _)]; exact h.busy k hk
  after st hst := by rw [calls_cons (hn.at _)]; exact h.after st hst

def Collects (c : Cfg) : Prop := c.term = .collectVec ∨ c.term = .collectRes

structure InvA (c : Cfg) (s : St) (t : List CoEv) : Prop where
  taken : s.taken = takenItems t
  fin : s.srcFin = true → srcEnded t = true
  loop : s.ctrl = .loop → c.breakAt s.taken = false
  flush : s.ctrl = .flushing → s.srcFin = true ∨ c.breakAt s.taken = true
  top : s.inTop = true → s.dropped = false
  nodup : s.members.Pairwise (fun a b => a.j ≠ b.j)
  memB : ∀ m ∈ s.members, m.j < s.taken ∧ s.ctrl ≠ .sending m.j
  memOk : ∀ m ∈ s.members, MemOk t m
  send : ∀ j, s.ctrl = .sending j → j < s.taken
  fresh : ∀ j st, (s.taken ≤ j ∨ s.ctrl = .sending j) → calls t st j = 0
  outNodup : s.out.Pairwise (fun a b => a.1 ≠ b.1)
  outB : ∀ p ∈ s.out, p.2 = c.idxAt c.stages p.1 ∧ p.1 < s.taken ∧ s.ctrl ≠ .sending p.1 ∧
    ∀ m ∈ s.members, m.j ≠ p.1
  outOk : ∀ p ∈ s.out, ∀ st, st < c.stages → stageDone t st p.1 = true
  cover : running s.ctrl = true → s.dropped = false → Collects c →
    ∀ j, j < s.taken → (∃ m ∈ s.members, m.j = j) ∨ s.ctrl = .sending j ∨ (∃ p ∈ s.out, p.1 = j)

variable {c : Cfg} {s : St} {t : List CoEv}

/-- the invariant only reads seven fields of the state -/
theorem InvA.congr (h : InvA c s t) (s' : St) (e1 : s'.ctrl = s.ctrl) (e2 : s'.inTop = s.inTop)
    (e3 : s'.srcFin = s.srcFin) (e4 : s'.taken = s.taken) (e5 : s'.members = s.members)
    (e6 : s'.out = s.out) (e7 : s'.dropped = s.dropped) : InvA c s' t := by
  obtain ⟨a1, a2, a3, a4, a5, a6, a7, a8, a9⟩ := s
  obtain ⟨b1, b2, b3, b4, b5, b6, b7, b8, b9⟩ := s'
  simp only at e1 e2 e3 e4 e5 e6 e7
  subst e1 e2 e3 e4 e5 e6 e7
  exact ⟨h.taken, h.fin, h.loop, h.flush, h.top, h.nodup, h.memB, h.memOk, h.send, h.fresh,
    h.outNodup, h.outB, h.outOk, h.cover⟩

theorem inv_init (c : Cfg) : InvA c (init c) [] := by
  have hz : c.breakAt 0 = c.takeZero := by
    unfold Cfg.breakAt Cfg.takeZero
    congr 1; funext n; cases n <;> simp
  refine ⟨rfl, by simp [init], ?_, ?_, by simp [init], by simp [init], by simp [init],
    by simp [init], ?_, by simp [calls], by simp [init], by simp [init], by simp [init], ?_⟩
  · intro h
    cases hc : c.takeZero <;> simp [init, hc] at h
    simp [init, hz, hc]
  · intro h
    cases hc : c.takeZero <;> simp [init, hc] at h
    simp [init, hz, hc]
  · intro j h
    cases hc : c.takeZero <;> simp [init, hc] at h
  · intro _ _ _ j hj
    simp [init] at hj

/-- one more event, the members rewritten by a `j`-preserving function -/
theorem InvA.mapCons (h : InvA c s t) (ev : CoEv) (hs : ∀ v, ev ≠ .src (.item v))
    (f : Member → Member) (hj : ∀ y, (f y).j = y.j)
    (hok : ∀ y ∈ s.members, MemOk (ev :: t) (f y))
    (hfresh : ∀ j, (s.taken ≤ j ∨ s.ctrl = .sending j) → NoCall ev j)
    (hout : ∀ p ∈ s.out, NoCall ev p.1) :
    InvA c { s with members := s.members.map f } (ev :: t) where
  taken := by rw [takenItems_cons hs]; exact h.taken
  fin := fun hf => srcEnded_cons ev (h.fin hf)
  loop := h.loop
  flush := h.flush
  top := h.top
  nodup := by
    show (s.members.map f).Pairwise _
    rw [List.pairwise_map]
    exact h.nodup.imp (fun {a b} hab => by rw [hj, hj]; exact hab)
  memB := by
    intro m hm
    obtain ⟨y, hy, rfl⟩ := List.mem_map.1 hm
    rw [hj]; exact h.memB y hy
  memOk := by
    intro m hm
    obtain ⟨y, hy, rfl⟩ := List.mem_map.1 hm
    exact hok y hy
  send := h.send
  fresh := by
    intro j st hh
    rw [calls_cons ((hfresh j hh).at st)]
    exact h.fresh j st hh
  outNodup := h.outNodup
  outB := by
    intro p hp
    obtain ⟨a, b, d, e⟩ := h.outB p hp
    refine ⟨a, b, d, ?_⟩
    intro m hm
    obtain ⟨y, hy, rfl⟩ := List.mem_map.1 hm
    rw [hj]; exact e y hy
  outOk := fun p hp st hst => stageDone_cons ((hout p hp).at st) (h.outOk p hp st hst)
  cover := by
    intro hr hd hc j hjt
    rcases h.cover hr hd hc j hjt with ⟨m, hm, e⟩ | h2 | h3
    · exact Or.inl ⟨f m, List.mem_map.2 ⟨m, hm, rfl⟩, by rw [hj]; exact e⟩
    · exact Or.inr (Or.inl h2)
    · exact Or.inr (Or.inr h3)

/-- an event that is neither a closure call nor a source item -/
theorem InvA.cons (h : InvA c s t) (ev : CoEv) (hc : ∀ s' j' idx k, ev ≠ .call s' j' idx k)
    (hs : ∀ v, ev ≠ .src (.item v)) : InvA c s (ev :: t) :=
  (h.mapCons ev hs id (fun _ => rfl)
    (fun y hy => (h.memOk y hy).cons ev (noCall_of_notCall hc _))
    (fun j _ => noCall_of_notCall hc j) (fun p _ => noCall_of_notCall hc _)).congr s
    rfl rfl rfl rfl (by simp) rfl rfl

theorem InvA.setTop (h : InvA c s t) (b : Bool) (hb : b = true → s.dropped = false) :
    InvA c { s with inTop := b } t :=
  ⟨h.taken, h.fin, h.loop, h.flush, hb, h.nodup, h.memB, h.memOk, h.send, h.fresh,
    h.outNodup, h.outB, h.outOk, h.cover⟩

theorem InvA.setDropped (h : InvA c s t) (hi : s.inTop = false) :
    InvA c { s with dropped := true } t :=
  ⟨h.taken, h.fin, h.loop, h.flush, fun h' => by simp [hi] at h', h.nodup, h.memB, h.memOk, h.send,
    h.fresh, h.outNodup, h.outB, h.outOk, fun _ hd => by simp at hd⟩

/-- the operation stops driving (`failing`, `done`) -/
theorem InvA.ctrlStop (h : InvA c s t) (ctl : Ctrl) (hr : running ctl = false) :
    InvA c { s with ctrl := ctl } t where
  taken := h.taken
  fin := h.fin
  loop := fun e => by simp [show ctl = Ctrl.loop from e, running] at hr
  flush := fun e => by simp [show ctl = Ctrl.flushing from e, running] at hr
  top := h.top
  nodup := h.nodup
  memB := fun m hm => ⟨(h.memB m hm).1, fun e => by simp [show ctl = _ from e, running] at hr⟩
  memOk := h.memOk
  send := fun j e => by simp [show ctl = _ from e, running] at hr
  fresh := by
    intro j st hh
    rcases hh with hh | e
    · exact h.fresh j st (Or.inl hh)
    · simp [show ctl = _ from e, running] at hr
  outNodup := h.outNodup
  outB := fun p hp =>
    let ⟨a, b, _, e⟩ := h.outB p hp
    ⟨a, b, fun e => by simp [show ctl = _ from e, running] at hr, e⟩
  outOk := h.outOk
  cover := fun hr' => by simp [show running ctl = true from hr'] at hr

/-- members leave the bag (completion without collecting, cancellation) -/
theorem InvA.filter (h : InvA c s t) (p : Member → Bool)
    (hp : running s.ctrl = true → s.dropped = false → Collects c → ∀ m ∈ s.members, p m = true) :
    InvA c { s with members := s.members.filter p } t where
  taken := h.taken
  fin := h.fin
  loop := h.loop
  flush := h.flush
  top := h.top
  nodup := h.nodup.filter p
  memB := fun m hm => h.memB m (List.mem_filter.1 hm).1
  memOk := fun m hm => h.memOk m (List.mem_filter.1 hm).1
  send := h.send
  fresh := h.fresh
  outNodup := h.outNodup
  outB := fun q hq =>
    let ⟨a, b, d, e⟩ := h.outB q hq
    ⟨a, b, d, fun m hm => e m (List.mem_filter.1 hm).1⟩
  outOk := h.outOk
  cover := by
    intro hr hd hc j hjt
    rcases h.cover hr hd hc j hjt with ⟨m, hm, e⟩ | h2 | h3
    · exact Or.inl ⟨m, List.mem_filter.2 ⟨hm, hp hr hd hc m hm⟩, e⟩
    · exact Or.inr (Or.inl h2)
    · exact Or.inr (Or.inr h3)

theorem InvA.clear (h : InvA c s t) (hr : running s.ctrl = false) :
    InvA c { s with members := [] } t :=
  (h.filter (fun _ => false) (fun hr' => by simp [hr] at hr')).congr _
    rfl rfl rfl rfl (by simp) rfl rfl

/-- the source ended -/
theorem InvA.srcFin (h : InvA c s t) (hl : s.ctrl = .loop) (he : srcEnded t = true) :
    InvA c { s with srcFin := true, ctrl := .flushing } t where
  taken := h.taken
  fin := fun _ => he
  loop := fun e => by simp at e
  flush := fun _ => Or.inl rfl
  top := h.top
  nodup := h.nodup
  memB := fun m hm => ⟨(h.memB m hm).1, fun e => by simp at e⟩
  memOk := h.memOk
  send := fun j e => by simp at e
  fresh := by
    intro j st hh
    rcases hh with hh | e
    · exact h.fresh j st (Or.inl hh)
    · simp at e
  outNodup := h.outNodup
  outB := fun p hp =>
    let ⟨a, b, _, e⟩ := h.outB p hp
    ⟨a, b, fun e => by simp at e, e⟩
  outOk := h.outOk
  cover := by
    intro _ hd hc j hjt
    rcases h.cover (by simp [hl, running]) hd hc j hjt with h1 | h2 | h3
    · exact Or.inl h1
    · simp [hl] at h2
    · exact Or.inr (Or.inr h3)

/-- the source delivered item number `s.taken`; it is in the consumer's hands (`send`) -/
theorem InvA.take (h : InvA c s t) (hl : s.ctrl = .loop) (v : Nat) :
    InvA c { s with taken := s.taken + 1, ctrl := .sending s.taken } (.src (.item v) :: t) where
  taken := by
    show s.taken + 1 = takenItems t + 1
    rw [h.taken]
  fin := fun hf => srcEnded_cons _ (h.fin hf)
  loop := fun e => by simp at e
  flush := fun e => by simp at e
  top := h.top
  nodup := h.nodup
  memB := by
    intro m hm
    have := (h.memB m hm).1
    refine ⟨Nat.lt_succ_of_lt this, ?_⟩
    intro e
    simp only [Ctrl.sending.injEq] at e
    omega
  memOk := fun m hm => (h.memOk m hm).cons _ (fun _ _ _ _ e => by simp at e)
  send := by
    intro j e
    simp only [Ctrl.sending.injEq] at e
    show j < s.taken + 1
    omega
  fresh := by
    intro j st hh
    rw [calls_cons (fun _ _ _ _ e => by simp at e)]
    apply h.fresh j st
    left
    rcases hh with hh | e
    · exact Nat.le_of_succ_le hh
    · simp only [Ctrl.sending.injEq] at e
      omega
  outNodup := h.outNodup
  outB := by
    intro p hp
    obtain ⟨a, b, _, e⟩ := h.outB p hp
    refine ⟨a, Nat.lt_succ_of_lt b, ?_, e⟩
    intro e'
    simp only [Ctrl.sending.injEq] at e'
    omega
  outOk := fun p hp st hst => stageDone_cons (fun _ _ _ _ e => by simp at e) (h.outOk p hp st hst)
  cover := by
    intro _ hd hc j hjt
    by_cases hj : j = s.taken
    · exact Or.inr (Or.inl (by rw [hj]))
    · have hjt' : j < s.taken := by
        have : j < s.taken + 1 := hjt
        omega
      rcases h.cover (by simp [hl, running]) hd hc j hjt' with h1 | h2 | h3
      · exact Or.inl h1
      · simp [hl] at h2
      · exact Or.inr (Or.inr h3)

/-- `send` pushes the item it holds into the bag; `take` decides whether the loop goes on -/
theorem InvA.push (h : InvA c s t) (j : Nat) (hs : s.ctrl = .sending j) :
    InvA c (Co.push c s j) t := by
  have hctl : (Co.push c s j).ctrl = .loop ∧ c.breakAt s.taken = false ∨
      (Co.push c s j).ctrl = .flushing ∧ c.breakAt s.taken = true := by
    cases hb : c.breakAt s.taken <;> simp [Co.push, hb]
  have hns : ∀ j', (Co.push c s j).ctrl ≠ .sending j' := by
    intro j' e
    rcases hctl with ⟨e', _⟩ | ⟨e', _⟩ <;> rw [e'] at e <;> cases e
  have hmem : ∀ m, m ∈ (Co.push c s j).members ↔ m ∈ s.members ∨ m = ⟨j, 0, none⟩ := by
    intro m; simp [Co.push]
  refine ⟨h.taken, h.fin, ?_, ?_, h.top, ?_, ?_, ?_, ?_, ?_, h.outNodup, ?_, h.outOk, ?_⟩
  · intro e
    rcases hctl with ⟨_, hb⟩ | ⟨e', _⟩
    · exact hb
    · rw [e'] at e; cases e
  · intro e
    rcases hctl with ⟨e', _⟩ | ⟨_, hb⟩
    · rw [e'] at e; cases e
    · exact Or.inr hb
  · show (s.members ++ [(⟨j, 0, none⟩ : Member)]).Pairwise _
    rw [List.pairwise_append]
    refine ⟨h.nodup, by simp, ?_⟩
    intro a ha b hb
    simp only [List.mem_singleton] at hb
    subst hb
    intro e
    exact (h.memB a ha).2 (by rw [hs, e])
  · intro m hm
    rcases (hmem m).1 hm with hm | rfl
    · exact ⟨(h.memB m hm).1, hns _⟩
    · exact ⟨h.send j hs, hns _⟩
  · intro m hm
    rcases (hmem m).1 hm with hm | rfl
    · exact h.memOk m hm
    · exact ⟨fun st hst => by simp at hst, fun _ => h.fresh j 0 (Or.inr hs), fun k hk => by simp at hk,
        fun st _ => h.fresh j st (Or.inr hs)⟩
  · intro j' e
    exact absurd e (hns j')
  · intro j' st hh
    rcases hh with hh | e
    · exact h.fresh j' st (Or.inl hh)
    · exact absurd e (hns j')
  · intro p hp
    obtain ⟨a, b, d, e⟩ := h.outB p hp
    refine ⟨a, b, hns _, ?_⟩
    intro m hm
    rcases (hmem m).1 hm with hm | rfl
    · exact e m hm
    · intro e'
      exact d (by rw [hs, ← e'])
  · intro _ hd hc j' hjt
    rcases h.cover (by simp [hs, running]) hd hc j' hjt with ⟨m, hm, e⟩ | h2 | h3
    · exact Or.inl ⟨m, (hmem m).2 (Or.inl hm), e⟩
    · rw [hs] at h2
      simp only [Ctrl.sending.injEq] at h2
      exact Or.inl ⟨(⟨j, 0, none⟩ : Member), (hmem _).2 (Or.inr rfl), h2⟩
    · exact Or.inr (Or.inr h3)

theorem InvA.resume (h : InvA c s t) : InvA c (Co.resume c s) t := by
  unfold Co.resume
  split
  · rename_i j hj
    split
    · exact h.push j hj
    · exact h
  · exact h

theorem InvA.takeItem (h : InvA c s t) (hl : s.ctrl = .loop) (v : Nat) :
    InvA c (Co.takeItem c s) (.src (.item v) :: t) := by
  have h1 := h.take hl v
  unfold Co.takeItem
  dsimp only
  split
  · exact (h1.push s.taken rfl).congr _ rfl rfl rfl rfl rfl rfl rfl
  · exact h1

theorem setMember_eq (ms : List Member) (m m' : Member) :
    setMember ms m m' = ms.map (fun x => if x = m then m' else x) := rfl

theorem stageDone_work {t : List CoEv} {st j k : Nat} (ok : Bool) (v : Nat)
    (hc : calls t st j = 1) (hf : futOf t st j = some k) :
    stageDone (.work k (.ready ok v) :: t) st j = true := by
  unfold stageDone
  rw [calls_cons (fun _ _ _ _ e => by simp at e), futOf_cons (fun _ _ _ _ e => by simp at e), hc, hf]
  simp [resultOf]

/-- a member's future of its current stage resolved and it moves on to the next closure -/
theorem InvA.advance (h : InvA c s t) (m : Member) (hm : m ∈ s.members) (k : Nat)
    (hk : m.cur = some k) (ok : Bool) (v : Nat) :
    InvA c { s with members := setMember s.members m { m with stage := m.stage + 1, cur := none } }
      (.work k (.ready ok v) :: t) := by
  have hn : ∀ j, NoCall (.work k (.ready ok v)) j := fun j _ _ _ _ e => by simp at e
  rw [setMember_eq]
  apply h.mapCons _ (fun _ e => by simp at e) _ _ _ (fun j _ => hn j) (fun p _ => hn _)
  · intro y; split <;> simp_all
  · intro y hy
    have hmo := h.memOk m hm
    split
    · refine ⟨?_, ?_, fun k' hk' => by simp at hk', ?_⟩
      · intro st hst
        have hst' : st < m.stage + 1 := hst
        by_cases e : st = m.stage
        · subst e
          exact stageDone_work ok v (hmo.busy k hk).1 (hmo.busy k hk).2
        · exact stageDone_cons ((hn _).at st) (hmo.before st (by omega))
      · intro _
        show calls _ (m.stage + 1) m.j = 0
        rw [calls_cons ((hn _).at _)]
        exact hmo.after _ (by omega)
      · intro st hst
        have hst' : m.stage + 1 < st := hst
        show calls _ st m.j = 0
        rw [calls_cons ((hn _).at _)]
        exact hmo.after _ (by omega)
    · exact (h.memOk y hy).cons _ (hn _)

/-- closure `m.stage` is called for the idle member `m` and returns work future `k` -/
theorem InvA.call (h : InvA c s t) (m : Member) (hm : m ∈ s.members) (hcur : m.cur = none)
    (idx : List Nat) (k : Nat) (l : List Nat) :
    InvA c { s with members := setMember s.members m { m with cur := some k }, live := l }
      (.call m.stage m.j idx k :: t) := by
  have hn : ∀ j, j ≠ m.j → NoCall (.call m.stage m.j idx k) j := by
    intro j hj s' j' idx' k' e
    simp only [CoEv.call.injEq] at e
    omega
  have hn' : ∀ st, st ≠ m.stage → NoCallAt (.call m.stage m.j idx k) st m.j := by
    intro st hst s' j' idx' k' e
    simp only [CoEv.call.injEq] at e
    omega
  rw [setMember_eq]
  refine (h.mapCons (.call m.stage m.j idx k) (fun _ e => by simp at e)
    (fun x => if x = m then { m with cur := some k } else x) ?_ ?_ ?_ ?_).congr _
    rfl rfl rfl rfl rfl rfl rfl
  · intro y; split <;> simp_all
  · intro y hy
    have hmo := h.memOk m hm
    split
    · refine ⟨?_, fun e => by simp at e, ?_, ?_⟩
      · intro st hst
        have hst' : st < m.stage := hst
        exact stageDone_cons (hn' st (by omega)) (hmo.before st hst')
      · intro k' hk'
        simp only [Option.some.injEq] at hk'
        subst hk'
        show calls _ m.stage m.j = 1 ∧ futOf _ m.stage m.j = some k
        simp [calls, futOf, hmo.idle hcur]
      · intro st hst
        have hst' : m.stage < st := hst
        show calls _ st m.j = 0
        rw [calls_cons (hn' st (by omega))]
        exact hmo.after st hst'
    · rename_i hne
      have : y.j ≠ m.j := fun e => hne (inj_of_pairwise h.nodup hy hm e)
      exact (h.memOk y hy).cons _ (hn _ this)
  · intro j hh
    apply hn
    rcases hh with hh | hh
    · have := (h.memB m hm).1; omega
    · intro e; exact (h.memB m hm).2 (by rw [hh, e])
  · intro p hp
    apply hn
    exact fun e => (h.outB p hp).2.2.2 m hm e.symm

/-- a member that went through every stage is collected -/
theorem InvA.moveOut (h : InvA c s t) (m : Member) (hm : m ∈ s.members)
    (hd : ∀ st, st < c.stages → stageDone t st m.j = true) :
    InvA c { s with members := s.members.filter (· != m),
                    out := s.out ++ [(m.j, c.idxAt c.stages m.j)] } t := by
  have hmem : ∀ x, x ∈ s.members.filter (· != m) ↔ x ∈ s.members ∧ x ≠ m := by
    intro x; simp [List.mem_filter]
  have hout : ∀ p, p ∈ s.out ++ [(m.j, c.idxAt c.stages m.j)] ↔
      p ∈ s.out ∨ p = (m.j, c.idxAt c.stages m.j) := by
    intro p; simp
  refine ⟨h.taken, h.fin, h.loop, h.flush, h.top, h.nodup.filter _, ?_, ?_, h.send, h.fresh, ?_, ?_,
    ?_, ?_⟩
  · exact fun x hx => h.memB x ((hmem x).1 hx).1
  · exact fun x hx => h.memOk x ((hmem x).1 hx).1
  · show (s.out ++ [(m.j, c.idxAt c.stages m.j)]).Pairwise _
    rw [List.pairwise_append]
    refine ⟨h.outNodup, by simp, ?_⟩
    intro a ha b hb
    simp only [List.mem_singleton] at hb
    subst hb
    exact fun e => (h.outB a ha).2.2.2 m hm e.symm
  · intro p hp
    rcases (hout p).1 hp with hp | rfl
    · obtain ⟨a, b, d, e⟩ := h.outB p hp
      exact ⟨a, b, d, fun x hx => e x ((hmem x).1 hx).1⟩
    · refine ⟨rfl, (h.memB m hm).1, (h.memB m hm).2, ?_⟩
      intro x hx e
      exact ((hmem x).1 hx).2 (inj_of_pairwise h.nodup ((hmem x).1 hx).1 hm e)
  · intro p hp
    rcases (hout p).1 hp with hp | rfl
    · exact h.outOk p hp
    · exact hd
  · intro hr hdr hc j hjt
    rcases h.cover hr hdr hc j hjt with ⟨x, hx, e⟩ | h2 | ⟨p, hp, e⟩
    · by_cases hxm : x = m
      · subst hxm
        exact Or.inr (Or.inr ⟨_, (hout _).2 (Or.inr rfl), e⟩)
      · exact Or.inl ⟨x, (hmem x).2 ⟨hx, hxm⟩, e⟩
    · exact Or.inr (Or.inl h2)
    · exact Or.inr (Or.inr ⟨p, (hout p).2 (Or.inl hp), e⟩)

theorem InvA.misc (h : InvA c s t) (n : Nat) : InvA c { s with count := n } t :=
  h.congr _ rfl rfl rfl rfl rfl rfl rfl

/-- member `m` finished its last stage (`t` already contains the resolving poll) -/
theorem InvA.complete (h : InvA c s t) (m : Member) (hm : m ∈ s.members)
    (hd : ∀ st, st < c.stages → stageDone t st m.j = true) (ok : Bool) (v : Nat) :
    InvA c (Co.complete c s m ok v) t := by
  have hrm : ¬ Collects c → ∀ n, InvA c { s with members := s.members.filter (· != m), count := n } t :=
    fun hc n => ((h.filter (· != m) (fun _ _ hc' => absurd hc' hc)).misc n).congr _
      rfl rfl rfl rfl rfl rfl rfl
  have hfail : ∀ n,
      InvA c { s with members := s.members.filter (· != m), count := n, ctrl := .failing v } t :=
    fun n => ((h.ctrlStop (.failing v) rfl).filter (· != m) (fun hr => by simp [running] at hr)).congr _
      rfl rfl rfl rfl rfl rfl rfl
  unfold Co.complete
  dsimp only
  cases hterm : c.term
  · have hc : ¬ Collects c := by simp [Collects, hterm]
    exact (hrm hc _).resume
  · have hc : ¬ Collects c := by simp [Collects, hterm]
    cases ok
    · exact (hfail _).congr _ rfl rfl rfl rfl rfl rfl rfl
    · exact (hrm hc _).resume
  · exact h.moveOut m hm hd
  · cases ok
    · exact (hfail s.count).congr _ rfl rfl rfl rfl rfl rfl rfl
    · exact h.moveOut m hm hd

end CoC15
end Fc
