/-
  FcLemmas/C11.lean — C11 / C12: the invariant of FcLemmas/C11Inv.lean is preserved by every group
  operation (`insert`, `remove`, `reserve`, `extend`, the queries), by polls (a `Sim` instance for
  the `group` policy), wake-ups and the drop; hence the monitor holds on every history in which
  each inserted member is a new object.
-/
import FcLemmas.C11Inv
set_option linter.unusedSimpArgs false
set_option linter.unusedVariables false

namespace Fc
namespace G11
open Mon Grp

/-- `insertsFresh` is decidable (used by the concrete examples in FcProps) -/
instance decInsertsFresh (c : Case) : Decidable c.insertsFresh := by
  unfold Case.insertsFresh; infer_instance

variable {stream keyed : Bool} {nch : Nat}

/-! ### the group's own operations -/

theorem Inv.capGrow {U s t} (h : Inv stream keyed nch U s t) (n : Nat) (hn : s.capacity ≤ n) :
    Inv stream keyed nch U { s with capacity := n } t :=
  ⟨h.tr, h.yp, h.np, h.dead, fun hd => ⟨(h.live hd).1.capGrow n hn, (h.live hd).2⟩⟩

theorem slabInsert_dead (s : Grp) (c : Nat) : (s.slabInsert c).dead = s.dead := by
  unfold slabInsert; split <;> rfl
theorem slabInsert_queue (s : Grp) (c : Nat) : (s.slabInsert c).queue = s.queue := by
  unfold slabInsert; split <;> rfl

/-- `insert` after the capacity check -/
theorem Inv.insert {U s t} (h : Inv stream keyed nch U s t) (hd : s.dead = false)
    (hcap : s.len < s.capacity) (c : Nat) (hc : c ∉ U) (r : List Nat) :
    Inv stream keyed nch (c :: U)
      { (s.slabInsert c) with st := upd s.st s.next .pending,
                              keys := insertSorted s.next s.keys, ret := r }
      (.inserted c s.next :: t) := by
  obtain ⟨hcore, hq⟩ := h.live hd
  refine ⟨h.tr.step _ ?_ (fun c' => by simp [lastRes]), by simpa [yielded, producedVals] using h.yp,
    by simpa [inPoll] using h.np, ?_, fun _ => ⟨hcore.insertAt hq c hc hcap r, ?_⟩⟩
  · have h1 : memberAt t s.next = none := by rw [hcore.abs]; exact hcore.slab.next_vacant
    simp [holds_G, h.tr.mon, h1, hcore.fresh c hc, h.np]
  · intro hd'
    have : (s.slabInsert c).dead = true := hd'
    rw [slabInsert_dead, hd] at this; cases this
  · show (s.slabInsert c).queue = []
    rw [slabInsert_queue]; exact hq

/-- `remove(key)` of a key that is present -/
theorem Inv.remove {U s t} (h : Inv stream keyed nch U s t) (hd : s.dead = false) (k : Nat)
    (hk : k ∈ s.keys) :
    Inv stream keyed nch U
      { (s.slabRemove k) with st := upd s.st k .none, keys := s.keys.filter (· ≠ k) }
      (.removed k true :: .childDropped ((s.member k).getD 0) :: t) := by
  obtain ⟨hcore, hq⟩ := h.live hd
  have hne : s.member k ≠ none := by
    rcases (hcore.keys k).mp hk with h1 | h1
    · exact h1
    · rw [hq] at h1; cases h1
  have hm : s.member k = some ((s.member k).getD 0) := by
    cases hmm : s.member k with
    | none => exact absurd hmm hne
    | some c => rfl
  obtain ⟨hc', _⟩ := hcore.removeAt k _ hm
    { (s.slabRemove k) with st := upd s.st k .none, keys := s.keys.filter (· ≠ k) }
    (.removed k true :: .childDropped ((s.member k).getD 0) :: t)
    rfl rfl rfl rfl rfl rfl rfl rfl rfl
    (by
      intro j
      simp only [slabRemove, List.mem_filter, decide_eq_true_eq, hq, List.not_mem_nil, or_false]
      rw [hcore.keys j, hq]
      by_cases hji : j = k
      · subst hji; simp
      · simp only [hji, upd_other _ _ _ _ hji, List.not_mem_nil, or_false, ne_eq, not_false_eq_true,
          and_true])
    (by
      intro j hj
      simp only [slabRemove, hq] at hj
      cases hj)
    (by
      intro j
      simp only [memberAt]
      by_cases hji : j = k
      · subst hji; simp
      · have : ¬ k = j := fun hh => hji hh.symm
        simp [this, hji])
    (by simp [lenOf])
    (fun c' => by simp [keyOf])
  have hmt : memberAt (.childDropped ((s.member k).getD 0) :: t) k = some ((s.member k).getD 0) := by
    simp only [memberAt]; rw [hcore.abs]; exact hm
  refine ⟨(h.tr.quiet _ rfl).step _ ?_ (fun c' => by simp [lastRes]),
    by simpa [yielded, producedVals] using h.yp, by simpa [inPoll] using h.np,
    fun hd' => by simp [slabRemove, hd] at hd', fun _ => ⟨hc', by simp [slabRemove, hq]⟩⟩
  simp only [holds_G, hmt]
  simp [gone, h.tr.mon]

/-- `remove(key)` of a key that is not present -/
theorem Inv.removeStale {U s t} (h : Inv stream keyed nch U s t) (hd : s.dead = false) (k : Nat)
    (hk : k ∉ s.keys) : Inv stream keyed nch U s (.removed k false :: t) := by
  obtain ⟨hcore, hq⟩ := h.live hd
  have hm : memberAt t k = none := by
    rw [hcore.abs]
    cases hmm : s.member k with
    | none => rfl
    | some c => exact absurd ((hcore.keys k).mpr (Or.inl (by simp [hmm]))) hk
  refine ⟨h.tr.step _ ?_ (fun c' => by simp [lastRes]),
    by simpa [yielded, producedVals] using h.yp, by simpa [inPoll] using h.np, ?_,
    fun _ => ⟨hcore.trace_eq _ (fun j => by simp [memberAt]) (by simp [lenOf])
      (fun c' => by simp [keyOf]), hq⟩⟩
  · simp [holds_G, h.tr.mon, hm]
  · intro hd'; simpa [alive, panickedSeen] using h.dead hd'

/-- a query whose answer the monitor accepts -/
theorem Inv.answer {U s t} (h : Inv stream keyed nch U s t) (q a : Nat)
    (hm : holds_G stream keyed nch (.answer q a :: t) = true) :
    Inv stream keyed nch U s (.answer q a :: t) :=
  ⟨h.tr.step _ hm (fun c' => by simp [lastRes]), by simpa [yielded, producedVals] using h.yp,
    by simpa [inPoll] using h.np, fun hd' => by simpa [alive, panickedSeen] using h.dead hd',
    fun hd => ⟨(h.live hd).1.neutral _ rfl, (h.live hd).2⟩⟩

/-! ### the same, on the engine -/

/-- the invariant at an engine state -/
def InvE (stream keyed : Bool) (nch : Nat) (U : List Nat) (e : Eng Grp) : Prop :=
  Inv stream keyed nch U e.s e.w.trace

theorem reserve_s (e : Eng Grp) (k : Nat) :
    ∃ n, e.s.capacity ≤ n ∧ (GEng.reserve e k).s = { e.s with capacity := n } := by
  unfold GEng.reserve
  split
  · exact ⟨e.s.capacity, Nat.le_refl _, rfl⟩
  · exact ⟨e.s.capacity + k, by omega, rfl⟩

theorem grow_s (e : Eng Grp) (hcap : e.s.len ≤ e.s.capacity) :
    ∃ n, e.s.capacity ≤ n ∧ e.s.len < n ∧ (GEng.grow e).s = { e.s with capacity := n } := by
  unfold GEng.grow
  split
  · unfold GEng.reserve
    split
    · omega
    · exact ⟨e.s.capacity + (e.s.capacity * 2 + 1), by omega, by omega, rfl⟩
  · exact ⟨e.s.capacity, Nat.le_refl _, by omega, rfl⟩

theorem reserve_inv {U} (e : Eng Grp) (k : Nat) (h : InvE stream keyed nch U e) :
    InvE stream keyed nch U (GEng.reserve e k) := by
  obtain ⟨n, hn, hs⟩ := reserve_s e k
  unfold InvE
  rw [GEng.reserve_trace, hs]
  exact Inv.capGrow h n hn

theorem insertAt_inv {U} (e : Eng Grp) (c : Nat) (keep : Bool) (h : InvE stream keyed nch U e)
    (hd : e.s.dead = false) (hc : c ∉ U) :
    InvE stream keyed nch (c :: U) (GEng.insertAt (GEng.grow e) c keep) ∧
      (GEng.insertAt (GEng.grow e) c keep).s.dead = false := by
  obtain ⟨n, hn1, hn2, hs⟩ := grow_s e (h.live hd).1.cap
  have h1 : Inv stream keyed nch U { e.s with capacity := n } e.w.trace := Inv.capGrow h n hn1
  have h2 := h1.insert hd hn2 c hc
    (if keep then ({ e.s with capacity := n } : Grp).ret ++ [({ e.s with capacity := n } : Grp).next]
     else ({ e.s with capacity := n } : Grp).ret)
  unfold InvE
  rw [GEng.insertAt_trace, GEng.grow_trace]
  simp only [GEng.insertAt, hs]
  refine ⟨h2, ?_⟩
  show (({ e.s with capacity := n } : Grp).slabInsert c).dead = false
  rw [slabInsert_dead]; exact hd

theorem extend_fold_inv (cs : List Nat) (U : List Nat) (e : Eng Grp)
    (h : InvE stream keyed nch U e) (hd : e.s.dead = false) (hf : ∀ c ∈ cs, c ∉ U)
    (hnd : cs.Nodup) :
    InvE stream keyed nch (cs.reverse ++ U)
      (cs.foldl (fun e c => GEng.insertAt (GEng.grow e) c false) e) := by
  induction cs generalizing U e with
  | nil => simpa using h
  | cons c cs ih =>
    simp only [List.foldl_cons]
    have hnd' := List.nodup_cons.mp hnd
    obtain ⟨h1, hd1⟩ := insertAt_inv e c false h hd (hf c (List.mem_cons_self ..))
    have := ih (c :: U) _ h1 hd1 (by
      intro c' hc' hm
      rcases List.mem_cons.mp hm with rfl | hm
      · exact hnd'.1 hc'
      · exact hf c' (List.mem_cons_of_mem _ hc') hm) hnd'.2
    simpa [List.reverse_cons, List.append_assoc] using this

theorem remove_inv {U} (e : Eng Grp) (j : Nat) (h : InvE stream keyed nch U e)
    (hd : e.s.dead = false) : InvE stream keyed nch U (GEng.remove e j) := by
  unfold GEng.remove
  split
  · exact h
  · rename_i k _
    split
    · rename_i hk
      exact Inv.remove h hd k (by simpa using hk)
    · rename_i hk
      exact Inv.removeStale h hd k (by simpa using hk)

/-- every group operation keeps the invariant; the ids it inserts become used -/
theorem step_inv {U} (e : Eng Grp) (op : Op) (hg : op.isGroupOp = true)
    (h : InvE stream keyed nch U e) (hf : ∀ c ∈ insertedIds op, c ∉ U)
    (hnd : (insertedIds op).Nodup) :
    InvE stream keyed nch (insertedIds op ++ U) (GEng.step e op) := by
  have hmono : InvE stream keyed nch (insertedIds op ++ U) e :=
    Inv.mono h (fun c hc => List.mem_append_right _ hc)
  cases hd : e.s.dead with
  | true =>
    cases op <;> simp only [GEng.step, hd, if_true] <;> first | exact hmono | simp [Op.isGroupOp] at hg
  | false =>
    have hcore := (h.live hd).1
    have hq := (h.live hd).2
    cases op with
    | poll w => simp [Op.isGroupOp] at hg
    | fire c a => simp [Op.isGroupOp] at hg
    | drop => simp [Op.isGroupOp] at hg
    | insert c =>
      simp only [GEng.step, hd, Bool.false_eq_true, if_false, GEng.insert, insertedIds,
        List.singleton_append]
      exact (insertAt_inv e c true h hd (hf c (by simp [insertedIds]))).1
    | remove j =>
      simp only [GEng.step, hd, Bool.false_eq_true, if_false, insertedIds, List.nil_append]
      exact remove_inv e j h hd
    | reserve k =>
      simp only [GEng.step, hd, Bool.false_eq_true, if_false, insertedIds, List.nil_append]
      exact reserve_inv e k h
    | extend cs =>
      simp only [GEng.step, hd, Bool.false_eq_true, if_false, insertedIds, GEng.extend]
      have h0 := reserve_inv (stream := stream) (keyed := keyed) (nch := nch) e cs.length h
      have hd0 : (GEng.reserve e cs.length).s.dead = false := by
        obtain ⟨n, _, hs⟩ := reserve_s e cs.length
        rw [hs]; exact hd
      have := extend_fold_inv cs U _ h0 hd0 hf hnd
      exact Inv.mono this (fun c hc => by
        rcases List.mem_append.mp hc with hc | hc
        · exact List.mem_append_left _ (List.mem_reverse.mp hc)
        · exact List.mem_append_right _ hc)
    | qLen =>
      simp only [GEng.step, hd, Bool.false_eq_true, if_false, insertedIds, List.nil_append,
        GEng.query]
      exact Inv.answer h _ _ (by simp [holds_G, h.tr.mon, hcore.len])
    | qIsEmpty =>
      simp only [GEng.step, hd, Bool.false_eq_true, if_false, insertedIds, List.nil_append,
        GEng.query]
      refine Inv.answer h _ _ ?_
      simp only [holds_G, h.tr.mon, hcore.len]
      by_cases hl : e.s.len = 0 <;> simp [hl]
    | qContains j =>
      simp only [GEng.step, hd, Bool.false_eq_true, if_false, insertedIds, List.nil_append]
      split
      · exact h
      · rename_i k _
        simp only [GEng.query]
        refine Inv.answer h _ _ ?_
        have h1 : ¬ (100 + k = 99) := by omega
        have h2 : ¬ (100 + k = 0) := by omega
        have h3 : ¬ (100 + k = 1) := by omega
        have h4 : ¬ (100 + k = 3) := by omega
        have h5 : 100 ≤ 100 + k := by omega
        have h6 : 100 + k - 100 = k := by omega
        simp only [holds_G, h.tr.mon, h1, h2, h3, h4, h5, h6, if_false, if_true, Bool.true_and,
          hcore.abs]
        have hiff := hcore.keys k
        rw [hq] at hiff
        by_cases hk : k ∈ e.s.keys
        · have := hiff.mp hk
          cases hm : e.s.member k with
          | none => simp [hm] at this
          | some c => simp [hk]
        · have : e.s.member k = none := by
            cases hm : e.s.member k with
            | none => rfl
            | some c => exact absurd (hiff.mpr (Or.inl (by simp [hm]))) hk
          simp [hk, this]
    | qCapacity =>
      simp only [GEng.step, hd, Bool.false_eq_true, if_false, insertedIds, List.nil_append,
        GEng.query]
      exact Inv.answer h _ _ (by simp [holds_G, h.tr.mon, hcore.len, hcore.cap])

/-! ### polls: a `Sim` instance -/

/-- the `group` policy without the `!any_ready → Pending` shortcut in front of the loop (which is
    dealt with separately: it is only sound at the start of a poll, not at every loop state) -/
def groupQ : Policy Grp := { group with preAny := fun _ => false }

/-- what a member of a group of this kind can answer -/
def kindG (stream : Bool) : Nat → Res → Prop := fun _ r => r.fits stream = true

theorem JInv.finish {U s t} (h : JInv stream keyed nch U s t) :
    Inv stream keyed nch U s.flushQueue
      (.pollEnd (if (s.stream && decide (s.doneCnt = s.total)) = true then Outcome.none else .pending)
        :: t) := by
  have hc := h.cnt
  have ht := h.tot
  by_cases hx : (s.stream && decide (s.doneCnt = s.total)) = true
  · rw [if_pos hx]
    simp only [Bool.and_eq_true, decide_eq_true_eq] at hx
    exact h.leave s.flushQueue _ h.core.flush rfl h.hd (Or.inr ⟨rfl, by omega⟩)
  · rw [if_neg hx]
    refine h.leave s.flushQueue _ h.core.flush rfl h.hd (Or.inl ⟨rfl, ?_⟩)
    cases hstr : stream with
    | false =>
      have := (h.fut hstr).1
      omega
    | true =>
      rw [h.core.hs, hstr] at hx
      simp only [Bool.true_and, decide_eq_true_eq] at hx
      omega

theorem sim_group (stream keyed : Bool) (nch : Nat) (U : List Nat) (m : Mode) :
    Sim groupQ m (kindG stream) (Inv stream keyed nch U)
      (fun s t _ => JInv stream keyed nch U s t) where
  fireEv := fun s t e he h => h.fireEv e he
  pre := by
    intro s t w o hpre h
    simp only [groupQ, group] at hpre
    split at hpre
    · rename_i hd
      cases hpre; exact h.misuse w hd
    · rename_i hd
      split at hpre
      · rename_i hl
        cases hpre; exact h.empty w (by simpa using hd) hl
      · cases hpre
  start := by
    intro s t w hpre h
    simp only [groupQ, group] at hpre
    have hd : s.dead = false := by
      cases hdd : s.dead <;> simp_all
    have hl : s.len ≠ 0 := by
      intro hl; simp [hd, hl] at hpre
    exact h.start w hd hl
  earlyPend := by
    intro s t l _ hor _
    rcases hor with h1 | h1 <;> simp [groupQ, group] at h1
  skip := fun _ _ _ _ _ h => h
  goOn := by
    intro s t i rest wk l r hJ hel hr hK hl hex
    have hp : s.st i = .pending := by simpa [groupQ, group] using hel
    cases r with
    | pend => exact hJ.keep i wk l .pend hp hl rfl rfl
    | ready ok v => simp [groupQ, group] at hex
    | item v => simp [groupQ, group] at hex
    | fin =>
      have hstr : stream = true := by simpa [kindG, Res.fits] using hK
      exact hJ.fin i wk l hp hl hstr
    | panic => exact absurd rfl hr
  goExit := by
    intro s t i rest wk l r o hJ hel hr hK hl hex
    have hp : s.st i = .pending := by simpa [groupQ, group] using hel
    cases r with
    | pend => simp [groupQ, group] at hex
    | ready ok v =>
      have hstr : stream = false := by simpa [kindG, Res.fits] using hK
      simp only [groupQ, group, Option.some.injEq] at hex
      subst hex
      exact hJ.ready i wk l ok v hp hl hstr
    | item v =>
      have hstr : stream = true := by simpa [kindG, Res.fits] using hK
      simp only [groupQ, group, Option.some.injEq] at hex
      subst hex
      exact hJ.item i wk l v hp hl hstr
    | fin => simp [groupQ, group] at hex
    | panic => exact absurd rfl hr
  panic := by
    intro s t i rest wk l hJ hel hl
    have hp : s.st i = .pending := by simpa [groupQ, group] using hel
    exact hJ.panic i wk l hp hl _ rfl
  finish := by
    intro s t hJ
    exact hJ.finish
  drop := by
    intro s t h
    refine h.drop _ ?_ _ rfl
    intro e he
    simp only [groupQ, group, List.mem_map] at he
    obtain ⟨_, _, rfl⟩ := he
    rfl

/-! ### lifting to `Eng.poll group` -/

theorem scan_eq (l : List Nat) (e : Eng Grp) : Eng.scan group l e = Eng.scan groupQ l e := by
  induction l generalizing e with
  | nil => rfl
  | cons i rest ih =>
    have hv : Eng.visit group e i = Eng.visit groupQ e i := rfl
    simp only [Eng.scan, hv]
    cases (Eng.visit groupQ e i).2 <;> simp [ih]

/-- `Sim.pollT` for `group`: the early `Pending` is justified at the start of the poll -/
theorem pollG {m : Mode} {K : Nat → Res → Prop} {I : Grp → List Ev → Prop}
    {J : Grp → List Ev → List Nat → Prop} (S : Sim groupQ m K I J)
    (hearly : ∀ s t w, group.pre s = none → I s t →
      I (group.start s) (.pollEnd .pending :: .pollBegin w :: t))
    (e : Eng Grp) (w : Nat) (hm : e.w.mode = m) (hk : ScriptsOk K e.w) (h : I e.s e.w.trace) :
    (Eng.poll group e w).w.mode = m ∧ ScriptsOk K (Eng.poll group e w).w ∧
      I (Eng.poll group e w).s (Eng.poll group e w).w.trace := by
  unfold Eng.poll
  split
  · rename_i o ho
    exact ⟨hm, hk.of_scripts rfl, S.pre _ _ w o ho h⟩
  · rename_i hpre
    unfold Eng.body
    simp only
    split
    · exact ⟨hm, hk.of_scripts rfl, hearly _ _ w hpre h⟩
    · rw [scan_eq]
      have hs := Sim.scanT S (group.order e.s)
        { w := (e.w.emit (.pollBegin w)).setWaker w, s := group.start e.s } hm (hk.of_scripts rfl)
        (S.start _ _ w hpre h)
      unfold Eng.close
      split
      · rename_i o ho
        exact ⟨hs.1, hs.2.1.of_scripts rfl, hs.2.2.2 o ho⟩
      · rename_i ho
        refine ⟨by simpa using hs.1, hs.2.1.of_scripts (by simp [kop_scripts, emits_scripts]), ?_⟩
        simp only [Eng.emit_s, Eng.emit_w, Eng.applyH_s, Eng.applyH_w, World.emit_trace,
          World.kop_trace, World.emits_trace]
        exact S.finish _ _ (hs.2.2.1 ho)

/-- `!any_ready → Pending` before the loop: the group is not empty and nothing was polled -/
theorem early_ok {U} (s : Grp) (t : List Ev) (w : Nat) (hpre : group.pre s = none)
    (h : Inv stream keyed nch U s t) :
    Inv stream keyed nch U (group.start s) (.pollEnd .pending :: .pollBegin w :: t) := by
  simp only [group] at hpre
  have hd : s.dead = false := by
    cases hdd : s.dead <;> simp_all
  have hl : s.len ≠ 0 := by
    intro hl; simp [hd, hl] at hpre
  have hJ := h.start w hd hl
  exact hJ.leave _ _ hJ.core (h.live hd).2 hd (Or.inl ⟨rfl, hl⟩)

/-! ### whole histories -/

theorem run (m : Mode) (ops : List Op) (U : List Nat) (e : Eng Grp) (hm : e.w.mode = m)
    (hk : ScriptsOk (kindG stream) e.w) (h : InvE stream keyed nch U e)
    (hf : ∀ c ∈ ops.flatMap insertedIds, c ∉ U) (hnd : (ops.flatMap insertedIds).Nodup) :
    ∃ U', InvE stream keyed nch U' (ops.foldl GEng.step e) := by
  induction ops generalizing U e with
  | nil => exact ⟨U, h⟩
  | cons op ops ih =>
    simp only [List.foldl_cons]
    rw [List.flatMap_cons] at hf hnd
    obtain ⟨hnd1, hnd2, hdis⟩ := List.nodup_append.mp hnd
    have hf2 : ∀ c ∈ ops.flatMap insertedIds, c ∉ U :=
      fun c hc => hf c (List.mem_append_right _ hc)
    by_cases hg : op.isGroupOp = true
    · have hms := GEng.step_ms e op hg
      refine ih (insertedIds op ++ U) _ (by rw [hms.1]; exact hm) (hk.of_scripts hms.2)
        (step_inv e op hg h (fun c hc => hf c (List.mem_append_left _ hc)) hnd1) ?_ hnd2
      intro c hc hmem
      rcases List.mem_append.mp hmem with hmem | hmem
      · exact hdis c hmem c hc rfl
      · exact hf2 c hc hmem
    · have S := sim_group stream keyed nch U m
      cases op with
      | poll w =>
        have hp := pollG S (fun s t w hpre hI => early_ok s t w hpre hI) e w hm hk h
        exact ih U _ hp.1 hp.2.1 hp.2.2 hf2 hnd2
      | fire c a =>
        have hp := Sim.fireT S e c a hm hk h
        exact ih U _ hp.1 hp.2.1 hp.2.2 hf2 hnd2
      | drop =>
        have hp : (Eng.drop group e).w.mode = m ∧ ScriptsOk (kindG stream) (Eng.drop group e).w ∧
            Inv stream keyed nch U (Eng.drop group e).s (Eng.drop group e).w.trace :=
          Sim.dropT S e hm hk h
        exact ih U _ hp.1 hp.2.1 hp.2.2 hf2 hnd2
      | _ => simp [Op.isGroupOp] at hg

/-- the initial state -/
theorem inv_init (stream keyed : Bool) (nch : Nat) :
    Inv stream keyed nch [] (Grp.init stream keyed) [] := by
  refine ⟨⟨rfl, fun c hc => by simp [finished, lastRes] at hc⟩, rfl, rfl, (fun hd => by cases hd),
    fun _ => ⟨⟨rfl, rfl, fun k => rfl, rfl, ⟨fun k _ => rfl, rfl, ⟨[], List.nodup_nil, by simp, rfl⟩⟩,
      fun k hk => by simp [Grp.init] at hk, Nat.le_refl _, fun k c hk => by simp [Grp.init] at hk,
      fun c _ => rfl, fun k => by simp [Grp.init], fun k hk => by simp [Grp.init] at hk⟩, rfl⟩⟩

/-- C11 / C12 for every history of a group whose members are of the right kind and pairwise
    distinct objects -/
theorem main (stream keyed : Bool) (nch : Nat) (m : Mode) (scripts : Nat → List Step)
    (ops : List Op) (hk : ∀ ch st, st ∈ scripts ch → st.res.fits stream = true)
    (hw : (ops.flatMap insertedIds).Nodup) :
    holds_G stream keyed nch (ops.foldl GEng.step (GEng.init stream keyed m scripts)).w.trace
      = true := by
  obtain ⟨U', h⟩ := run (stream := stream) (keyed := keyed) (nch := nch) m ops []
    (GEng.init stream keyed m scripts) rfl
    ⟨fun _ => rfl, fun ch st hm => hk ch st hm⟩ (inv_init stream keyed nch)
    (fun c _ hc => by cases hc) hw
  exact h.tr.mon

end G11
end Fc
