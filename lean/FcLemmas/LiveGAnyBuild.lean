/-
  FcLemmas/LiveGAnyBuild.lean — `insert` / `extend` / `reserve` on a group that has been polled
  before (in particular: a drained group that is refilled).  `BW` is `LiveG.B0` without the
  assumption that nothing has happened yet: the "may be polled" invariant `LGW`, the scripts, and the
  equation between `ExecG.stepsLeft` (scripted steps of the current members) and the progress
  measure `LiveG.mu`.  A fresh id (never inserted: `keyOf = none`) was never polled (`Link.fr`),
  holds no waker (`Link.fw`) and was never released (`LGW.nk`), so it enters — possibly in a REUSED
  slot — exactly like a member of a new group: its slot is armed, its whole script is ahead of it.
-/
import FcLemmas.LiveGAnyInst
set_option linter.unusedSimpArgs false
set_option linter.unusedVariables false

namespace Fc
namespace LiveGAny
open Mon Live Live3 G Grp C01 LiveG

structure BW (stream keyed : Bool) (m : Mode) (n : Nat) (sc : Nat → List Step) (e : Eng Grp) :
    Prop where
  w : LGW stream keyed m n e
  scr : e.w.scripts = sc
  sl : ExecG.stepsLeft e = mu n e

variable {stream keyed : Bool} {m : Mode} {n : Nat} {sc : Nat → List Step}

/-! ### `reserve` -/

theorem bw_reserve (e : Eng Grp) (a : Nat) (h : BW stream keyed m n sc e) :
    BW stream keyed m n sc (GEng.reserve e a) := by
  obtain ⟨hh, hmem, hkeys, _, hset⟩ := reserve_facts e a
  have ht := GEng.reserve_trace e a
  obtain ⟨U, hU, hUk⟩ := h.w.g11
  refine ⟨⟨by rw [GEng.reserve_mode]; exact h.w.mode, fun hm => sb_reserve e a (h.w.std hm),
    fun hm => db_reserve e a (h.w.dir hm), ⟨U, G11.reserve_inv e a hU, by rw [ht]; exact hUk⟩,
    by rw [reserve_dead]; exact h.w.dead, by rw [ht]; exact h.w.al, by rw [ht]; exact h.w.bnd, ?_, ?_,
    by rw [ht]; exact h.w.nk⟩, by rw [GEng.reserve_scripts]; exact h.scr, ?_⟩
  · rw [hmem]
    exact wg_congr (GEng.reserve_scripts e a) hh ht h.w.wg
  · intro k c hk hn
    rw [hmem] at hk
    rw [ht] at hn
    exact hset k (h.w.ib k c hk hn)
  · rw [stepsLeft_congr e _ hkeys hmem (GEng.reserve_scripts e a), h.sl]
    unfold mu
    rw [ht, GEng.reserve_scripts]

/-! ### `insert` -/

theorem bw_insert (e : Eng Grp) (c : Nat) (b : Bool) (h : BW stream keyed m n sc e)
    (hcn : c < n) (hwb : wbScript stream (sc c) = true) (hf : keyOf e.w.trace c = none) :
    BW stream keyed m n sc (GEng.insertAt (GEng.grow e) c b) := by
  obtain ⟨hh, hmem, hkeys, hnext, hset⟩ := grow_facts e
  have hcb := lgw_cb e h.w
  obtain ⟨U, hU, hUk⟩ := h.w.g11
  have hcU : c ∉ U := fun hc => hUk c hc hf
  obtain ⟨hU', hd'⟩ := G11.insertAt_inv e c b hU h.w.dead hcU
  have ht : (GEng.insertAt (GEng.grow e) c b).w.trace = .inserted c e.s.next :: e.w.trace := by
    rw [GEng.insertAt_trace, grow_trace, hnext]
  have hkeyOf : ∀ j, keyOf (GEng.insertAt (GEng.grow e) c b).w.trace j
      = if c = j then some e.s.next else keyOf e.w.trace j := by
    intro j; rw [ht]; rfl
  have hscr : (GEng.insertAt (GEng.grow e) c b).w.scripts = e.w.scripts := by
    rw [GEng.insertAt_scripts, GEng.grow_scripts]
  have hm' : (GEng.insertAt (GEng.grow e) c b).s.member = upd e.s.member e.s.next (some c) := by
    rw [insertAt_s, insSt_member, hmem, hnext]
  have hk' : (GEng.insertAt (GEng.grow e) c b).s.keys = insertSorted e.s.next e.s.keys := by
    rw [insertAt_s, insSt_keys, hkeys, hnext]
  have hhand : (GEng.insertAt (GEng.grow e) c b).w.handed = e.w.handed := by
    rw [insertAt_w]
    simp only [World.emit_handed, World.setReady_handed, hh]
  -- the fresh id was never polled and never released
  have hlr0 : lastRes e.w.trace c = none := by
    cases hl : lastRes e.w.trace c with
    | none => rfl
    | some r => exact absurd hf (hcb.link.fr c (by rw [hl]; simp))
  have hg0 : gone e.w.trace c = false := by
    cases hg : gone e.w.trace c with
    | false => rfl
    | true => exact absurd hf (h.w.nk c hg)
  have hLR : ∀ j, lastRes (GEng.insertAt (GEng.grow e) c b).w.trace j = lastRes e.w.trace j := by
    intro j; rw [ht]; rfl
  have hG : ∀ j, gone (GEng.insertAt (GEng.grow e) c b).w.trace j = gone e.w.trace j := by
    intro j; rw [ht]; rfl
  have hwg0 : WG stream e.s.member (GEng.insertAt (GEng.grow e) c b).w := by
    have h1 : WG stream e.s.member (e.w.emit (.inserted c e.s.next)) := wg_emit _ rfl h.w.wg
    exact wg_congr (w := e.w.emit (.inserted c e.s.next)) hscr hhand ht h1
  refine ⟨⟨by rw [GEng.insertAt_mode, GEng.grow_mode]; exact h.w.mode,
    fun hm => sb_steps.ins e c b (h.w.std hm) h.w.dead hf,
    fun hm => db_steps.ins e c b (h.w.dir hm) h.w.dead hf, ⟨c :: U, hU', ?_⟩, hd', ?_, ?_, ?_, ?_, ?_⟩,
    by rw [hscr]; exact h.scr, ?_⟩
  · intro j hj
    rw [hkeyOf]
    by_cases hcj : c = j
    · simp [hcj]
    · simp only [hcj, if_false]
      rcases List.mem_cons.mp hj with hj | hj
      · exact absurd hj.symm hcj
      · exact hUk j hj
  · rw [ht]; simpa [alive] using h.w.al
  · intro j hj
    rw [hkeyOf] at hj
    by_cases hcj : c = j
    · subst hcj; exact hcn
    · simp only [hcj, if_false] at hj; exact h.w.bnd j hj
  · -- the members
    rw [hm']
    refine ⟨?_, hwg0.hw, hwg0.lw, hwg0.ep⟩
    intro k j hk
    by_cases hkn : k = e.s.next
    · subst hkn
      rw [upd_same] at hk
      cases hk
      rw [hscr, h.scr, hLR, hG, hlr0]
      exact ⟨hwb, Or.inl rfl, hg0⟩
    · rw [upd_other _ _ _ _ hkn] at hk
      exact hwg0.mem k j hk
  · intro k j hk hn
    rw [hm'] at hk
    rw [hLR] at hn
    rw [insertAt_w, World.isSet_emit, hnext]
    by_cases hkn : k = e.s.next
    · subst hkn; exact isSet_arm_self _ _
    · rw [upd_other _ _ _ _ hkn] at hk
      exact World.isSet_setReady_mono _ _ _ (hset k (h.w.ib k j hk hn))
  · intro j hj
    rw [hG] at hj
    rw [hkeyOf]
    by_cases hcj : c = j
    · simp [hcj]
    · simp only [hcj, if_false]; exact h.w.nk j hj
  · -- the measure
    have hvac : e.s.member e.s.next = none := hcb.slab.next_ok.1
    have hnk : e.s.next ∉ e.s.keys := by
      intro hin
      rcases hcb.slab.kq _ hin with h1 | h1
      · exact h1 hvac
      · rw [hcb.qe h.w.dead] at h1; cases h1
    have h1 : ExecG.stepsLeft (GEng.insertAt (GEng.grow e) c b)
        = (e.w.scripts c).length + ExecG.stepsLeft e := by
      unfold ExecG.stepsLeft
      rw [hm', hk', hscr]
      exact sum_insertSorted e.s.member (fun c => (e.w.scripts c).length) e.s.next c e.s.keys hnk
    have h2 : mu n (GEng.insertAt (GEng.grow e) c b) = mu n e + (e.w.scripts c).length := by
      unfold mu
      refine total_bump _ _ n c _ hcn ?_ ?_
      · rw [hkeyOf, hscr, hf]; simp
      · intro j hj
        have hcj : ¬ c = j := fun hh => hj hh.symm
        rw [hkeyOf, hscr]; simp [hcj]
    rw [h1, h2, h.sl]; omega

/-- the members after an insert: the old ones and the new one -/
theorem insertAt_member_frame (e : Eng Grp) (c : Nat) (b : Bool) (k x : Nat)
    (hk : (GEng.insertAt (GEng.grow e) c b).s.member k = some x) :
    e.s.member k = some x ∨ x = c := by
  obtain ⟨_, hmem, _, hnext, _⟩ := grow_facts e
  have hm' : (GEng.insertAt (GEng.grow e) c b).s.member = upd e.s.member e.s.next (some c) := by
    rw [insertAt_s, insSt_member, hmem, hnext]
  rw [hm'] at hk
  by_cases hkn : k = e.s.next
  · subst hkn
    rw [upd_same] at hk
    cases hk
    exact Or.inr rfl
  · rw [upd_other _ _ _ _ hkn] at hk
    exact Or.inl hk

/-! ### whole building histories -/

theorem bw_extend_fold : ∀ (cs : List Nat) (e : Eng Grp), BW stream keyed m n sc e → cs.Nodup →
    (∀ c ∈ cs, c < n ∧ wbScript stream (sc c) = true ∧ keyOf e.w.trace c = none) →
    BW stream keyed m n sc (cs.foldl (fun e c => GEng.insertAt (GEng.grow e) c false) e) ∧
    (∀ x, x ∉ cs → keyOf (cs.foldl (fun e c => GEng.insertAt (GEng.grow e) c false) e).w.trace x
        = keyOf e.w.trace x) ∧
    (∀ k x, (cs.foldl (fun e c => GEng.insertAt (GEng.grow e) c false) e).s.member k = some x →
        e.s.member k = some x ∨ x ∈ cs) := by
  intro cs
  induction cs with
  | nil => intro e h _ _; exact ⟨h, fun _ _ => rfl, fun _ _ hk => Or.inl hk⟩
  | cons c cs ih =>
    intro e h hnd hf
    simp only [List.foldl_cons]
    have hnd' := List.nodup_cons.mp hnd
    obtain ⟨h1, h2, h3⟩ := hf c (List.mem_cons_self ..)
    have hb := bw_insert e c false h h1 h2 h3
    have := ih _ hb hnd'.2 (fun x hx => by
      have hxc : x ≠ c := by intro hh; subst hh; exact hnd'.1 hx
      obtain ⟨g1, g2, g3⟩ := hf x (List.mem_cons_of_mem _ hx)
      exact ⟨g1, g2, by rw [keyOf_insertAt _ _ _ _ hxc]; exact g3⟩)
    refine ⟨this.1, fun x hx => ?_, fun k x hk => ?_⟩
    · simp only [List.mem_cons, not_or] at hx
      rw [this.2.1 x hx.2, keyOf_insertAt _ _ _ _ hx.1]
    · rcases this.2.2 k x hk with hk' | hk'
      · rcases insertAt_member_frame e c false k x hk' with h4 | h4
        · exact Or.inl h4
        · exact Or.inr (by rw [h4]; exact List.mem_cons_self ..)
      · exact Or.inr (List.mem_cons_of_mem _ hk')

theorem bw_step (e : Eng Grp) (op : Op) (h : BW stream keyed m n sc e)
    (hop : op.isInsertLike = true) (hnd : (insertedIds op).Nodup)
    (hf : ∀ c ∈ insertedIds op, c < n ∧ wbScript stream (sc c) = true ∧ keyOf e.w.trace c = none) :
    BW stream keyed m n sc (GEng.step e op) ∧
    (∀ x, x ∉ insertedIds op → keyOf (GEng.step e op).w.trace x = keyOf e.w.trace x) ∧
    (∀ k x, (GEng.step e op).s.member k = some x → e.s.member k = some x ∨ x ∈ insertedIds op) := by
  cases op with
  | insert c =>
    simp only [GEng.step, h.w.dead, Bool.false_eq_true, if_false, GEng.insert]
    obtain ⟨h1, h2, h3⟩ := hf c (by simp [insertedIds])
    refine ⟨bw_insert e c true h h1 h2 h3,
      fun x hx => keyOf_insertAt e c true x (by simpa [insertedIds] using hx), fun k x hk => ?_⟩
    rcases insertAt_member_frame e c true k x hk with h4 | h4
    · exact Or.inl h4
    · exact Or.inr (by simp [insertedIds, h4])
  | reserve k =>
    simp only [GEng.step, h.w.dead, Bool.false_eq_true, if_false]
    exact ⟨bw_reserve e k h, fun x _ => by rw [GEng.reserve_trace],
      fun k' x hk => Or.inl (by rw [(reserve_facts e k).2.1] at hk; exact hk)⟩
  | extend cs =>
    simp only [GEng.step, h.w.dead, Bool.false_eq_true, if_false, GEng.extend]
    have := bw_extend_fold cs (GEng.reserve e cs.length) (bw_reserve e _ h)
      (by simpa [insertedIds] using hnd)
      (fun c hc => by
        rw [GEng.reserve_trace]; exact hf c (by simpa [insertedIds] using hc))
    refine ⟨this.1, fun x hx => ?_, fun k x hk => ?_⟩
    · rw [this.2.1 x (by simpa [insertedIds] using hx), GEng.reserve_trace]
    · rcases this.2.2 k x hk with h4 | h4
      · exact Or.inl (by rw [(reserve_facts e cs.length).2.1] at h4; exact h4)
      · exact Or.inr (by simpa [insertedIds] using h4)
  | _ => simp [Op.isInsertLike] at hop

/-- a building history keeps `BW`; afterwards exactly its ids are newly inserted -/
theorem bw_run : ∀ (ops : List Op) (e : Eng Grp), BW stream keyed m n sc e →
    (∀ op ∈ ops, op.isInsertLike = true) → (ops.flatMap insertedIds).Nodup →
    (∀ c ∈ ops.flatMap insertedIds, c < n ∧ wbScript stream (sc c) = true ∧
      keyOf e.w.trace c = none) →
    BW stream keyed m n sc (ops.foldl GEng.step e) ∧
    (∀ x, x ∉ ops.flatMap insertedIds → keyOf (ops.foldl GEng.step e).w.trace x = keyOf e.w.trace x) ∧
    (∀ k x, (ops.foldl GEng.step e).s.member k = some x →
      e.s.member k = some x ∨ x ∈ ops.flatMap insertedIds) := by
  intro ops
  induction ops with
  | nil => intro e h _ _ _; exact ⟨h, fun _ _ => rfl, fun _ _ hk => Or.inl hk⟩
  | cons op ops ih =>
    intro e h hop hnd hf
    simp only [List.foldl_cons]
    simp only [List.flatMap_cons] at hnd hf ⊢
    rw [List.nodup_append] at hnd
    obtain ⟨hn1, hn2, hdis⟩ := hnd
    have hs := bw_step e op h (hop op (List.mem_cons_self ..)) hn1
      (fun c hc => hf c (List.mem_append_left _ hc))
    have := ih _ hs.1 (fun op' hop' => hop op' (List.mem_cons_of_mem _ hop')) hn2 (fun c hc => by
      obtain ⟨g1, g2, g3⟩ := hf c (List.mem_append_right _ hc)
      refine ⟨g1, g2, ?_⟩
      rw [hs.2.1 c (fun hh => hdis c hh c hc rfl)]
      exact g3)
    refine ⟨this.1, fun x hx => ?_, fun k x hk => ?_⟩
    · simp only [List.mem_append, not_or] at hx
      rw [this.2.1 x hx.2, hs.2.1 x hx.1]
    · rcases this.2.2 k x hk with h4 | h4
      · rcases hs.2.2 k x h4 with h5 | h5
        · exact Or.inl h5
        · exact Or.inr (List.mem_append_left _ h5)
      · exact Or.inr (List.mem_append_right _ h4)

end LiveGAny
end Fc
