/-
  FcLemmas/KTieTryJoinVDMain.lean — no_std / alloc-only flavour of `Vec<Fut>::try_join()`, the counterpart of
  FcLemmas/KTieTryJoinMain.lean: re-establishing `Rel`, the post-condition `Post` of one call of the translated `poll`,
  and the code after the loop.  The flavour-independent lemmas (`tj_ite_ite`, `tj_abs_*`, the list facts) are taken from
  the std files.
-/
import FcLemmas.KTieTryJoinVDLoop
import FcLemmas.KTieTryJoinAux
import FcLemmas.KTieTryJoinMain

set_option linter.unusedSimpArgs false
set_option linter.unusedVariables false

namespace Fc
open Rs Src

namespace TieTryJoinVD
open TryJoinVD
open TieTryJoinV (tj_ite_ite tj_abs_pending tj_abs_ready tj_abs_none jcoreDone tj_filter_zero tj_mapM_some)

local macro "unroles" : tactic =>
  `(tactic| try simp only [TryJoin.roleKids, TryJoin.roleCount, TryJoin.roleWakers, TryJoin.roleStates,
      TryJoin.roleDone, TryJoin.roleItems] at *)

/-- re-establishing `Rel` after a step that leaves the children and the table sizes alone -/
theorem Rel.update {n o : Nat} {b0 : World} {e : Eng Fix} {g : TryJoin} {env : World} (hR : Rel n o b0 e g env)
    (e' : Eng Fix) (g' : TryJoin) (env' : World)
    (hw : e'.w = TieDir.absV g'.roleWakers.readiness env')
    (hn : e'.s.n = e.s.n) (hk : g'.roleKids = g.roleKids)
    (hst : e'.s.st = fun i => TiePS.abs (g'.roleStates.get i))
    (hout : e'.s.out = g'.roleItems.get)
    (hcnt : e'.s.cnt = g'.roleCount)
    (hoff : e'.s.off = e.s.off)
    (hdead : e'.s.dead = g'.roleDone)
    (hsl : g'.roleStates.len = g.roleStates.len)
    (hic : g'.roleItems.cap = g.roleItems.cap)
    (hpar : g'.roleWakers.readiness.roleParent ≠ none) (hfr : Fr env' b0)
    (hin : HandedIn n env') (hsok : FutStepsF env') : Rel n o b0 e' g' env' where
  ew := hw
  en := by rw [hn, hR.en]
  kids := by rw [hk, hR.kids]
  st := hst
  out := hout
  cnt := hcnt
  off := by rw [hoff, hR.off]
  dead := hdead
  sl := by rw [hsl, hR.sl]
  ic := by rw [hic, hR.ic]
  par := hpar
  fr := hfr
  hin := hin
  sok := hsok

/-- what the statement says about the returned combinator and environment, `M` being the model after the poll -/
def Post (n : Nat) (b M : Eng Fix) (g' : TryJoin) (env' : World) (ret : Ret) : Prop :=
  (ret = .pending → WfT g') ∧
  ((∀ vs, ret ≠ .ready (.ok vs)) → jcore (absT g' b) = jcore M) ∧
  ((∃ vs, ret = .ready (.ok vs)) → jcoreDone n (absT g' b) M) ∧
  env'.scripts = M.w.scripts ∧ env'.handed = M.w.handed ∧
  M.w.trace = .pollEnd (outcomeOfTryJoin ret) :: env'.trace ∧
  -- what the next call needs again
  (g'.roleKids.len = n ∧ HandedIn n env' ∧ FutStepsF env' ∧ (ret = .pending → g'.roleDone = false))

theorem tjd_wf_of_rel {n o : Nat} {b0 : World} {X : Eng Fix} {g' : TryJoin} {env' : World} (hR : Rel n o b0 X g' env')
    (hI : Inv n g') : WfT g' := by
  obtain ⟨hw, hen, hk, hst, hout, hcnt, hoff, hdead, hsl, hic, hpar, hfr, hhin, hsok⟩ := hR
  obtain ⟨hpc, hrs⟩ := hI
  exact ⟨by rw [hk]; exact hsl, by rw [hk]; exact hic,
    by rw [hk]; exact hpc, by rw [hk]; exact hrs⟩

/-- `Pending` / `Ready(Err)`: the returned combinator is the one `Rel` speaks about -/
theorem tjd_post_of_rel {n : Nat} {X : Eng Fix} {g' : TryJoin} {env' : World} (b : Eng Fix)
    (hR : Rel n b.s.off b.w X g' env') (ret : Ret) (hI : ret = .pending → Inv n g')
    (hD : ret = .pending → g'.roleDone = false) (hno : ∀ vs, ret ≠ .ready (.ok vs)) :
    Post n b (X.emit (.pollEnd (outcomeOfTryJoin ret))) g' env' ret := by
  refine ⟨fun h => tjd_wf_of_rel hR (hI h), ?_, fun ⟨vs, h⟩ => absurd h (hno vs), ?_, ?_, ?_,
    hR.kids, hR.hin, hR.sok, hD⟩
  all_goals obtain ⟨hw, hen, hk, hst, hout, hcnt, hoff, hdead, hsl, hic, hpar, hfr, hhin, hsok⟩ := hR
  · intro _
    obtain ⟨f1, f2, f3⟩ := hfr
    simp only [jcore, fcore, absT, Eng.emit, World.emit, hw, hen, hk, hst, hcnt, hoff, hout, hdead, TieDir.absV, f1, f2,
      f3]
  · simp only [Eng.emit, World.emit, hw]; rfl
  · simp only [Eng.emit, World.emit, hw]; rfl
  · simp only [Eng.emit, World.emit, hw]; rfl

/-- `Ready(Ok)`: the code after the loop on a combinator whose `pending` counter reached zero — the assertion holds,
    every state becomes `None`, the outputs are taken in order; they are the model's `outs` -/
theorem tjd_post_done {n : Nat} {X : Eng Fix} {g1 : TryJoin} {env' : World} (b : Eng Fix)
    (hR : Rel n b.s.off b.w X g1 env') (hI : Inv n g1) (hz : g1.roleCount = 0) :
    Rs.PVec.assertAll g1.roleStates (fun s => PS.PollState.is_ready s) = some () ∧
    ∃ sts its, Rs.PVec.mapAll g1.roleStates (fun s => (PS.PollState.set_none s).map (·.1)) = some sts ∧
      Rs.OutVec.take g1.roleItems = some (its, X.s.outs) ∧
      ∀ g' : TryJoin, g'.roleKids = g1.roleKids → g'.roleWakers = g1.roleWakers → g'.roleCount = g1.roleCount →
        g'.roleDone = true → g'.roleStates = sts → g'.roleItems = its →
        Post n b (({ w := X.w, s := { X.s with dead := true, st := fun _ => .none } } : Eng Fix).emit
          (.pollEnd (.ready true X.s.outs))) g' env' (.ready (.ok X.s.outs)) := by
  obtain ⟨hw, hen, hk, hst, hout, hcnt, hoff, hdead, hsl, hic, hpar, hfr, hhin, hsok⟩ := hR
  obtain ⟨hpc, hrs⟩ := hI
  have hnp := tj_filter_zero _ n (by rw [← hpc]; exact hz)
  have hready : ∀ i, i < n → g1.roleStates.get i = PS.PollState.ready := by
    intro i hi
    rcases hrs i hi with h | ⟨h, _⟩
    · have := hnp i hi
      simp [h] at this
    · exact h
  refine ⟨?_, ?_⟩
  · unfold Rs.PVec.assertAll
    rw [if_pos]
    rw [List.all_eq_true]
    intro i hi
    have hi' : i < n := by rw [← hsl]; exact List.mem_range.mp hi
    rw [hready i hi']
    rfl
  · refine ⟨⟨g1.roleStates.len, fun i => if i < g1.roleStates.len then PS.PollState.none_ else g1.roleStates.get i⟩,
      ⟨g1.roleItems.cap, fun _ => none⟩, ?_, ?_, ?_⟩
    · unfold Rs.PVec.mapAll
      rw [if_pos]
      · rfl
      · rw [List.all_eq_true]
        intro i _
        rfl
    · unfold Rs.OutVec.take
      rw [tj_mapM_some]
      · simp only [Option.map_some, Fix.outs, hen, hic, hout]
      · intro i hi
        have hi' : i < n := by rw [← hic]; exact List.mem_range.mp hi
        rcases hrs i hi' with h | ⟨_, h⟩
        · rw [hready i hi'] at h; cases h
        · exact h
    · intro g' e1 e2 e3 e4 e5 e6
      refine ⟨fun h => (by cases h), fun h => absurd rfl (h _), fun _ => ?_, ?_, ?_, ?_,
        by rw [e1]; exact hk, hhin, hsok, fun h => (by cases h)⟩
      · obtain ⟨f1, f2, f3⟩ := hfr
        refine ⟨?_, ?_, ?_, ?_, ?_, ?_, ?_, ?_, ?_, ?_⟩ <;>
          simp only [absT, Eng.emit, World.emit, hw, hen, hk, hcnt, hoff, e1, e2, e3, e4, e5, TieDir.absV, f1, f2,
            f3] <;> try rfl
        · intro i hi
          simp only [hsl, hi, ↓reduceIte]
          rfl
      · simp only [Eng.emit, World.emit, hw]; rfl
      · simp only [Eng.emit, World.emit, hw]; rfl
      · simp only [Eng.emit, World.emit, hw]; rfl

end TieTryJoinVD
end Fc
