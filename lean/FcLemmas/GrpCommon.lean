/-
  FcLemmas/GrpCommon.lean — the mode-independent part of the group invariants (slab, link to the
  trace, monitors' bookkeeping) across the poll skeleton and the group operations.
-/
import FcLemmas.GrpLink
import FcLemmas.Seg

set_option linter.unusedSimpArgs false
set_option linter.unusedVariables false

namespace Fc
namespace G
open Mon C01 Grp

/-- the kind of result a member of this group can produce -/
abbrev KOk (e : Eng Grp) : Prop := ScriptsOk (fun _ r => r.fits e.s.stream = true) e.w

/-! ### the `group` policy, unfolded -/

theorem gateW_eq (e : Eng Grp) (k : Nat) :
    Eng.gateW group e k = if e.s.st k = .pending then e.w.clearReady k else e.w := by
  unfold Eng.gateW; simp [group]

theorem gateGo_eq (e : Eng Grp) (k : Nat) :
    Eng.gateGo group e k = (decide (e.s.st k = .pending) && e.w.isSet k) := by
  unfold Eng.gateGo; simp [group]

@[simp] theorem gateW_trace (e : Eng Grp) (k : Nat) : (Eng.gateW group e k).trace = e.w.trace := by
  rw [gateW_eq]; split <;> simp
@[simp] theorem gateW_mode (e : Eng Grp) (k : Nat) : (Eng.gateW group e k).mode = e.w.mode := by
  rw [gateW_eq]; split <;> simp
@[simp] theorem gateW_cap (e : Eng Grp) (k : Nat) : (Eng.gateW group e k).cap = e.w.cap := by
  rw [gateW_eq]; split <;> simp
@[simp] theorem gateW_parent (e : Eng Grp) (k : Nat) : (Eng.gateW group e k).parent = e.w.parent := by
  rw [gateW_eq]; split <;> simp
@[simp] theorem gateW_scripts (e : Eng Grp) (k : Nat) : (Eng.gateW group e k).scripts = e.w.scripts := by
  rw [gateW_eq]; split <;> simp
theorem gateW_resOf (e : Eng Grp) (k c : Nat) : (Eng.gateW group e k).resOf c = e.w.resOf c := by
  simp [World.resOf, World.stepOf]

theorem handle_pend (s : Grp) (k : Nat) :
    group.handle s k .pend = { s := s, evs := [], kop := .nop, exit := none } := rfl
theorem handle_ready (s : Grp) (k : Nat) (ok : Bool) (v : Nat) :
    group.handle s k (.ready ok v) =
      { s := remSt s k, evs := [.childDropped ((s.member k).getD 0)], kop := .nop,
        exit := some (.some (s.outKey k) [v]) } := rfl
theorem handle_item (s : Grp) (k : Nat) (v : Nat) :
    group.handle s k (.item v) =
      { s := s.flushQueue, evs := [], kop := .arm k, exit := some (.some (s.outKey k) [v]) } := rfl
theorem handle_fin (s : Grp) (k : Nat) :
    group.handle s k .fin =
      { s := finSt s k, evs := [.childDropped ((s.member k).getD 0)], kop := .nop, exit := none } := rfl
theorem group_child (s : Grp) (k : Nat) : group.child s k = (s.member k).getD 0 := rfl
theorem group_onPanic (s : Grp) : group.onPanic s = { s with dead := true } := rfl
theorem group_panicEvs (s : Grp) : group.panicEvs s = [] := rfl
theorem group_loopAny : group.loopAny = false := rfl

@[simp] theorem remSt_capacity (s : Grp) (k : Nat) : (remSt s k).capacity = s.capacity := rfl
@[simp] theorem remSt_stream (s : Grp) (k : Nat) : (remSt s k).stream = s.stream := rfl
@[simp] theorem remSt_dead (s : Grp) (k : Nat) : (remSt s k).dead = s.dead := rfl
@[simp] theorem remSt_member (s : Grp) (k : Nat) : (remSt s k).member = upd s.member k none := rfl
@[simp] theorem remSt_queue (s : Grp) (k : Nat) : (remSt s k).queue = s.queue := rfl
@[simp] theorem finSt_capacity (s : Grp) (k : Nat) : (finSt s k).capacity = s.capacity := rfl
@[simp] theorem finSt_stream (s : Grp) (k : Nat) : (finSt s k).stream = s.stream := rfl
@[simp] theorem finSt_dead (s : Grp) (k : Nat) : (finSt s k).dead = s.dead := rfl
@[simp] theorem finSt_member (s : Grp) (k : Nat) : (finSt s k).member = upd s.member k none := rfl
@[simp] theorem flush_capacity (s : Grp) : s.flushQueue.capacity = s.capacity := rfl
@[simp] theorem flush_stream (s : Grp) : s.flushQueue.stream = s.stream := rfl
@[simp] theorem flush_dead (s : Grp) : s.flushQueue.dead = s.dead := rfl
@[simp] theorem flush_member (s : Grp) : s.flushQueue.member = s.member := rfl
@[simp] theorem flush_queue (s : Grp) : s.flushQueue.queue = [] := rfl

/-- inside a poll; `ord` = the keys this poll scans -/
structure CI (n : Nat) (e : Eng Grp) (ord : List Nat) : Prop where
  slab : Slab e.s
  link : Link e.s e.w.trace
  cap  : e.s.capacity = e.w.cap
  ok   : KOk e
  inp  : inPoll e.w.trace = true
  mb   : c01Boundaries n e.w.trace = true
  m20  : holds_C20 false n e.w.trace = true
  cov  : ∀ k, e.s.member k ≠ none → k ∈ ord

/-- leaving the loop -/
structure CX (n : Nat) (e : Eng Grp) : Prop where
  slab : Slab e.s
  link : Link e.s e.w.trace
  cap  : e.s.capacity = e.w.cap
  ok   : KOk e
  inp  : inPoll e.w.trace = true
  mb   : c01Boundaries n e.w.trace = true
  m20  : holds_C20 false n e.w.trace = true
  qe   : e.s.dead = false → e.s.queue = []

/-- between operations (`c01Boundaries` is kept by the mode-specific invariants) -/
structure CB (n : Nat) (e : Eng Grp) : Prop where
  slab : Slab e.s
  link : Link e.s e.w.trace
  cap  : e.s.capacity = e.w.cap
  ok   : KOk e
  out  : inPoll e.w.trace = false
  m20  : holds_C20 false n e.w.trace = true
  qe   : e.s.dead = false → e.s.queue = []

variable {n : Nat}

/-- the member in an eligible slot -/
theorem member_of_elig {e : Eng Grp} (h : Slab e.s) (k : Nat) (hel : e.s.st k = .pending) :
    ∃ c, e.s.member k = some c := by
  have := (h.stm k).mp hel
  cases hm : e.s.member k with
  | none => exact absurd hm this
  | some c => exact ⟨c, rfl⟩

theorem elig_of_go {e : Eng Grp} {k : Nat} (hg : Eng.gateGo group e k = true) :
    e.s.st k = .pending := by
  rw [gateGo_eq] at hg
  simp only [Bool.and_eq_true, decide_eq_true_eq] at hg
  exact hg.1

/-- the trace part of one member poll followed by the handler's events -/
theorem poll_trace_facts (n : Nat) (w : World) (c k : Nat) (evs : List Ev)
    (hevs : ∀ e ∈ evs, isOwnEv e = true) (hin : inPoll w.trace = true)
    (hmb : c01Boundaries n w.trace = true) (hm : holds_C20 false n w.trace = true) :
    inPoll ((w.pollChild c k).emits evs).trace = true ∧
    c01Boundaries n ((w.pollChild c k).emits evs).trace = true ∧
    holds_C20 false n ((w.pollChild c k).emits evs).trace = true := by
  have him := pollChild_inp_mb n w c k hin hmb
  have him2 := emits_own_inp_mb n _ _ hevs him.2 him.1
  refine ⟨him2.2, him2.1, ?_⟩
  rw [c20_emits_own _ _ _ _ hevs, c20_pollChild]; exact hm

theorem kok_after {e e' : Eng Grp} (h : KOk e) (c k : Nat) (evs : List Ev) (kop : KOp)
    (hw : e'.w = (((Eng.gateW group e k).pollChild c k).emits evs).kop kop)
    (hs : e'.s.stream = e.s.stream) : KOk e' := by
  have h1 : ScriptsOk (fun _ r => r.fits e.s.stream = true) (Eng.gateW group e k) :=
    h.of_scripts (gateW_scripts e k)
  have h2 := h1.pollChild c k
  have h3 : ScriptsOk (fun _ r => r.fits e.s.stream = true) e'.w :=
    h2.of_scripts (by rw [hw, kop_scripts, emits_scripts])
  show ScriptsOk (fun _ r => r.fits e'.s.stream = true) e'.w
  rw [hs]; exact h3

/-- one loop iteration -/
theorem ci_visit (e : Eng Grp) (k : Nat) (ord : List Nat) (h : CI n e ord) (hd : e.s.dead = false) :
    ((Eng.visit group e k).2 = none →
        CI n (Eng.visit group e k).1 ord ∧ (Eng.visit group e k).1.s.dead = false) ∧
    (∀ o, (Eng.visit group e k).2 = some o → CX n (Eng.visit group e k).1) := by
  refine Eng.visit_ind group e k
    (fun r => (r.2 = none → CI n r.1 ord ∧ r.1.s.dead = false) ∧ (∀ o, r.2 = some o → CX n r.1))
    ?_ ?_ ?_ ?_
  · intro hl _; rw [group_loopAny] at hl; exact Bool.noConfusion hl
  · intro _ _
    refine ⟨fun _ => ⟨⟨h.slab, by simpa using h.link, by simpa using h.cap,
      h.ok.of_scripts (gateW_scripts e k), by simpa using h.inp, by simpa using h.mb,
      by simpa using h.m20, h.cov⟩, hd⟩, fun o ho => by simp at ho⟩
  · -- the member's poll panicked
    intro _ hg hp
    obtain ⟨c, hmk⟩ := member_of_elig h.slab k (elig_of_go hg)
    have hc : group.child e.s k = c := by rw [group_child, hmk]; rfl
    rw [hc] at hp ⊢
    refine ⟨fun hn => by simp at hn, ?_⟩
    intro o _
    rw [group_panicEvs, group_onPanic]
    have tf := poll_trace_facts n (Eng.gateW group e k) c k [] (by simp) (by simpa using h.inp)
      (by simpa using h.mb) (by simpa using h.m20)
    refine ⟨slab_congr h.slab ⟨rfl, rfl, rfl, rfl, rfl, Nat.le_refl _, rfl, rfl, rfl, rfl⟩,
      link_congr (s := e.s) rfl (link_pollChild (s := e.s) c k hmk (by simpa using h.link)),
      by simpa using h.cap, ?_, tf.1, tf.2.1, tf.2.2, fun hh => by simp at hh⟩
    exact kok_after (e' := ⟨_, { e.s with dead := true }⟩) h.ok c k [] .nop rfl rfl
  · -- the member was polled and its result handled
    intro _ hg hp
    obtain ⟨c, hmk⟩ := member_of_elig h.slab k (elig_of_go hg)
    have hc : group.child e.s k = c := by rw [group_child, hmk]; rfl
    rw [hc] at hp ⊢
    have hfit := h.ok.resOf c
    generalize hr : e.w.resOf c = r at hp hfit ⊢
    have hlk := link_pollChild (w := Eng.gateW group e k) c k hmk (by simpa using h.link)
    have hmne : e.s.member k ≠ none := by rw [hmk]; simp
    have hgd : (e.s.member k).getD 0 = c := by rw [hmk]; rfl
    cases r with
    | panic => exact absurd rfl hp
    | pend =>
      rw [handle_pend]
      have tf := poll_trace_facts n (Eng.gateW group e k) c k [] (by simp) (by simpa using h.inp)
        (by simpa using h.mb) (by simpa using h.m20)
      refine ⟨fun _ => ⟨⟨h.slab, hlk, by simpa [World.kop] using h.cap, ?_, tf.1, tf.2.1, tf.2.2, h.cov⟩,
        hd⟩, fun o ho => by simp at ho⟩
      exact kok_after (e' := Eng.applyH _ _) h.ok c k [] .nop rfl rfl
    | ready ok v =>
      rw [handle_ready, hgd]
      have hstr : e.s.stream = false := by simpa [Res.fits] using hfit
      have hevs : ∀ ev ∈ [Ev.childDropped c], isOwnEv ev = true := by simp [isOwnEv]
      have tf := poll_trace_facts n (Eng.gateW group e k) c k _ hevs (by simpa using h.inp)
        (by simpa using h.mb) (by simpa using h.m20)
      refine ⟨fun hn => by simp at hn, fun o _ => ?_⟩
      have hsl : Slab (remSt e.s k) := slab_rem k h.slab hmne
      refine ⟨hsl, ?_, by simpa [World.kop] using h.cap, ?_, by simpa [World.kop] using tf.1,
        by simpa [World.kop] using tf.2.1, by simpa [World.kop] using tf.2.2, fun _ => ?_⟩
      · have := link_leave (s' := remSt e.s k) k c hmk rfl hlk
        simpa [World.kop, World.emits] using this
      · exact kok_after (e' := Eng.applyH _ _) h.ok c k _ .nop rfl rfl
      · exact h.slab.fq hstr
    | item v =>
      rw [handle_item]
      have tf := poll_trace_facts n (Eng.gateW group e k) c k [] (by simp) (by simpa using h.inp)
        (by simpa using h.mb) (by simpa using h.m20)
      refine ⟨fun hn => by simp at hn, fun o _ => ?_⟩
      refine ⟨slab_flush h.slab, ?_, by simpa [World.kop] using h.cap, ?_,
        by simpa [World.kop] using tf.1, by simpa [World.kop] using tf.2.1,
        by simpa [World.kop] using tf.2.2, fun _ => rfl⟩
      · have := link_congr (s := e.s) (s' := e.s.flushQueue) rfl hlk
        simpa [World.kop] using this
      · exact kok_after (e' := Eng.applyH _ _) h.ok c k [] (.arm k) rfl rfl
    | fin =>
      rw [handle_fin, hgd]
      have hstr : e.s.stream = true := by simpa [Res.fits] using hfit
      have hevs : ∀ ev ∈ [Ev.childDropped c], isOwnEv ev = true := by simp [isOwnEv]
      have tf := poll_trace_facts n (Eng.gateW group e k) c k _ hevs (by simpa using h.inp)
        (by simpa using h.mb) (by simpa using h.m20)
      have hsl : Slab (finSt e.s k) := slab_fin k h.slab hmne hstr
      refine ⟨fun _ => ⟨⟨hsl, ?_, by simpa [World.kop] using h.cap, ?_, by simpa [World.kop] using tf.1,
        by simpa [World.kop] using tf.2.1, by simpa [World.kop] using tf.2.2, ?_⟩, hd⟩,
        fun o ho => by simp at ho⟩
      · have := link_leave (s' := finSt e.s k) k c hmk rfl hlk
        simpa [World.kop, World.emits] using this
      · exact kok_after (e' := Eng.applyH _ _) h.ok c k _ .nop rfl rfl
      · intro j hj
        simp only [Eng.applyH_s, finSt_member] at hj
        refine h.cov j ?_
        intro hh
        apply hj
        by_cases hjk : j = k
        · subst hjk; simp
        · rw [upd_other _ _ _ _ hjk]; exact hh

theorem ci_scan (ord : List Nat) (l : List Nat) (e : Eng Grp) (h : CI n e ord)
    (hd : e.s.dead = false) :
    ((Eng.scan group l e).2 = none →
        CI n (Eng.scan group l e).1 ord ∧ (Eng.scan group l e).1.s.dead = false) ∧
    (∀ o, (Eng.scan group l e).2 = some o → CX n (Eng.scan group l e).1) :=
  Eng.scan_ind group (fun e => CI n e ord ∧ e.s.dead = false) (fun e => CX n e)
    (fun e i hq => ci_visit e i ord hq.1 hq.2) l e ⟨h, hd⟩

theorem finish_eq (s : Grp) :
    group.finish s = { s := s.flushQueue, evs := [], kop := .nop,
                       exit := some (if s.stream && s.doneCnt = s.total then .none else .pending) } := rfl

theorem cx_finish {e : Eng Grp} {ord : List Nat} (h : CI n e ord) :
    CX n (e.applyH (group.finish e.s)) := by
  rw [finish_eq]
  refine ⟨slab_flush h.slab, link_congr (s := e.s) rfl (by simpa [World.kop] using h.link),
    by simpa [World.kop] using h.cap, ?_, by simpa [World.kop] using h.inp,
    by simpa [World.kop] using h.mb, by simpa [World.kop] using h.m20, fun _ => rfl⟩
  exact h.ok.of_scripts rfl

theorem cb_of_cx (o : Outcome) {e : Eng Grp} (h : CX n e)
    (hp : o = .pending → c20At false n e.w.trace = true) : CB n (e.emit (.pollEnd o)) := by
  refine ⟨h.slab, link_emit _ rfl h.link, h.cap, h.ok.of_scripts rfl, by simp [inPoll], ?_, h.qe⟩
  simp only [Eng.emit_w, World.emit_trace]
  by_cases ho : o = .pending
  · subst ho; simp [holds_C20, h.m20, hp rfl]
  · rw [c20_skip _ _ _ _ (by simpa using ho)]; exact h.m20

theorem start_eq (s : Grp) : group.start s = { s with doneCnt := 0, total := s.len } := rfl
theorem order_eq (s : Grp) : group.order s = s.keys := rfl
theorem pre_eq (s : Grp) :
    group.pre s = if s.dead then some .misuse else if s.len = 0 then some .none else none := rfl

theorem pre_none_live {s : Grp} (h : group.pre s = none) : s.dead = false := by
  rw [pre_eq] at h
  cases hd : s.dead with
  | false => rfl
  | true => simp [hd] at h

/-- the state right after `pollBegin` + `set_waker` + the per-poll bookkeeping -/
theorem ci_begin (e : Eng Grp) (wid : Nat) (h : CB n e)
    (hmb : c01Boundaries n (Ev.pollBegin wid :: e.w.trace) = true) :
    CI n { w := (e.w.emit (.pollBegin wid)).setWaker wid, s := group.start e.s } (group.order e.s) := by
  rw [start_eq, order_eq]
  refine ⟨slab_congr h.slab ⟨rfl, rfl, rfl, rfl, rfl, Nat.le_refl _, rfl, rfl, rfl, rfl⟩,
    link_congr (s := e.s) rfl (link_emit _ rfl h.link), h.cap, h.ok.of_scripts rfl, by simp [inPoll],
    by simpa using hmb, ?_, h.slab.kmem⟩
  simp only [World.setWaker_trace, World.emit_trace]
  rw [c20_skip _ _ _ _ (by simp)]; exact h.m20

/-- a poll answered before `set_waker` (`o` is `misuse` or `none`) -/
theorem cb_pre (e : Eng Grp) (wid : Nat) (o : Outcome) (ho : o ≠ .pending) (h : CB n e) :
    CB n ((e.emit (.pollBegin wid)).emit (.pollEnd o)) := by
  refine ⟨h.slab, link_emit _ rfl (link_emit _ rfl h.link), h.cap, h.ok.of_scripts rfl,
    by simp [inPoll], ?_, h.qe⟩
  simp only [Eng.emit_w, World.emit_trace]
  rw [c20_skip _ _ _ _ (by simpa using ho), c20_skip _ _ _ _ (by simp)]; exact h.m20

/-! ### operations between polls -/

/-- events of the group operations that neither insert nor poll -/
def opNeutral : Ev → Bool
  | .answer _ _ | .removed _ _ | .childDropped _ | .dropBegin | .dropEnd | .valDropped _ => true
  | _ => false

theorem inPoll_opNeutral (ev : Ev) (t : List Ev) (h : opNeutral ev = true) :
    inPoll (ev :: t) = inPoll t := by
  cases ev <;> simp_all [opNeutral, inPoll]

theorem cb_emit (e : Eng Grp) (ev : Ev) (hn : opNeutral ev = true) (h : CB n e) :
    CB n { e with w := e.w.emit ev } := by
  refine ⟨h.slab, link_emit ev (by cases ev <;> simp_all [opNeutral, lkNeutral]) h.link, h.cap,
    h.ok.of_scripts rfl, ?_, ?_, h.qe⟩
  · simp only [World.emit_trace, inPoll_opNeutral ev _ hn]; exact h.out
  · simp only [World.emit_trace]
    rw [c20_skip _ _ _ _ (by cases ev <;> simp_all [opNeutral])]; exact h.m20

theorem cb_fire (e : Eng Grp) (c a : Nat) (h : CB n e) : CB n (e.fire c a) := by
  obtain ⟨l, hl, hp⟩ := World.fire_seg e.w c a
  refine ⟨h.slab, link_fire c a h.link, by simpa using h.cap, h.ok.of_scripts (by simp), ?_, ?_, h.qe⟩
  · simp only [Eng.fire_w, hl]; rw [inPoll_fires l _ hp]; exact h.out
  · simp only [Eng.fire_w, c20_fire]; exact h.m20

theorem dropEvs_own (s : Grp) : ∀ ev ∈ group.dropEvs s, isOwnEv ev = true := by
  intro ev hev
  have : group.dropEvs s = (s.keys.filter (fun k => (s.member k).isSome)).map
      (fun k => .childDropped ((s.member k).getD 0)) := rfl
  rw [this] at hev
  simp only [List.mem_map] at hev
  obtain ⟨_, _, rfl⟩ := hev
  rfl

theorem cb_drop (e : Eng Grp) (h : CB n e) : CB n (Eng.drop group e) := by
  unfold Eng.drop
  have hevs := dropEvs_own e.s
  have hsa : group.afterDrop e.s = { e.s with dead := true } := rfl
  rw [hsa]
  refine ⟨slab_congr h.slab ⟨rfl, rfl, rfl, rfl, rfl, Nat.le_refl _, rfl, rfl, rfl, rfl⟩, ?_,
    by simpa using h.cap, h.ok.of_scripts rfl, ?_, ?_, fun hh => by simp at hh⟩
  · refine link_congr (s := e.s) rfl ?_
    simp only [World.emit_trace, World.emits_trace]
    exact link_emit _ rfl (link_seg _ (fun ev he => ownEv_lk ev (hevs ev (List.mem_reverse.mp he)))
      (link_emit _ rfl h.link))
  · simp only [World.emit_trace, World.emits_trace, inPoll]
    rw [inPoll_own_seg _ _ (fun e' he' => hevs e' (List.mem_reverse.mp he'))]
    simpa [inPoll] using h.out
  · simp only [World.emit_trace, World.emits_trace]
    rw [c20_skip _ _ _ _ (by simp),
      c20_seg _ _ _ _ (fun e' he' => ownEv_ne_pe e' (hevs e' (List.mem_reverse.mp he'))),
      c20_skip _ _ _ _ (by simp)]
    exact h.m20

theorem cb_reserve (e : Eng Grp) (a : Nat) (h : CB n e) : CB n (GEng.reserve e a) := by
  unfold GEng.reserve
  split
  · exact h
  · have ht := GEng.resize_trace e.w (e.s.capacity + a)
    refine ⟨slab_congr h.slab ⟨rfl, rfl, rfl, rfl, rfl, Nat.le_add_right _ _, rfl, rfl, rfl, rfl⟩,
      link_congr (s := e.s) rfl (by rw [ht]; exact h.link), ?_,
      h.ok.of_scripts (GEng.resize_scripts _ _), by rw [ht]; exact h.out, by rw [ht]; exact h.m20, h.qe⟩
    simp only
    rw [resize_cap _ _ (by rw [← h.cap]; omega)]

theorem reserve_dead (e : Eng Grp) (a : Nat) : (GEng.reserve e a).s.dead = e.s.dead := by
  unfold GEng.reserve; split <;> rfl

theorem cb_grow (e : Eng Grp) (h : CB n e) :
    CB n (GEng.grow e) ∧ (GEng.grow e).s.len < (GEng.grow e).s.capacity ∧
      (GEng.grow e).s.dead = e.s.dead := by
  unfold GEng.grow
  split
  · rename_i hc
    refine ⟨cb_reserve e _ h, ?_, reserve_dead _ _⟩
    have := h.slab.lcap
    unfold GEng.reserve
    split
    · rename_i hh; omega
    · simp only; omega
  · rename_i hc
    exact ⟨h, by omega, rfl⟩

theorem grow_trace (e : Eng Grp) : (GEng.grow e).w.trace = e.w.trace := GEng.grow_trace e

theorem insertAt_s (e : Eng Grp) (c : Nat) (b : Bool) : (GEng.insertAt e c b).s = insSt e.s c b := rfl
theorem insertAt_w (e : Eng Grp) (c : Nat) (b : Bool) :
    (GEng.insertAt e c b).w = (e.w.setReady e.s.next).emit (.inserted c e.s.next) := rfl

theorem cb_insertAt (e : Eng Grp) (c : Nat) (b : Bool) (h : CB n e) (hd : e.s.dead = false)
    (hl : e.s.len < e.s.capacity) (hf : keyOf e.w.trace c = none) : CB n (GEng.insertAt e c b) := by
  have hq := h.qe hd
  refine ⟨by rw [insertAt_s]; exact slab_insert c b h.slab hq hl, ?_, ?_, ?_, ?_, ?_, ?_⟩
  · rw [insertAt_s, insertAt_w]
    simp only [World.emit_trace, World.setReady_trace]
    exact link_insert (s := e.s) e.s.next c h.slab.next_ok.1 hf (insSt_member _ _ _) h.link
  · rw [insertAt_s, insertAt_w]; simpa using h.cap
  · have : ScriptsOk (fun _ r => r.fits e.s.stream = true) (GEng.insertAt e c b).w :=
      h.ok.of_scripts (by rw [insertAt_w]; simp)
    show ScriptsOk (fun _ r => r.fits (GEng.insertAt e c b).s.stream = true) _
    rw [insertAt_s, insSt_stream]; exact this
  · rw [insertAt_w]; simpa [inPoll] using h.out
  · rw [insertAt_w]
    simp only [World.emit_trace, World.setReady_trace]
    rw [c20_skip _ _ _ _ (by simp)]; exact h.m20
  · intro _; rw [insertAt_s, insSt_queue]; exact hq

/-- what `remove` does -/
theorem remove_cases (e : Eng Grp) (j : Nat) (hs : Slab e.s) (hq : e.s.queue = []) :
    GEng.remove e j = e ∨
    (∃ k, GEng.remove e j = { e with w := e.w.emit (.removed k false) }) ∨
    (∃ k c, e.s.member k = some c ∧
      GEng.remove e j = { w := (e.w.emit (.childDropped c)).emit (.removed k true), s := remSt e.s k }) := by
  unfold GEng.remove
  cases hr : e.s.ret[j]? with
  | none => exact Or.inl rfl
  | some k =>
    simp only
    by_cases hk : e.s.keys.contains k = true
    · simp only [hk, if_true]
      right; right
      have hkm : k ∈ e.s.keys := by simpa using hk
      rcases hs.kq k hkm with h1 | h1
      · cases hm : e.s.member k with
        | none => exact absurd hm h1
        | some c => exact ⟨k, c, hm, by simp [remSt, hm]⟩
      · rw [hq] at h1; simp at h1
    · simp only [hk]
      right; left
      exact ⟨k, rfl⟩

theorem cb_removed (e : Eng Grp) (k c : Nat) (hm : e.s.member k = some c) (h : CB n e) :
    CB n { w := (e.w.emit (.childDropped c)).emit (.removed k true), s := remSt e.s k } := by
  have hmne : e.s.member k ≠ none := by rw [hm]; simp
  refine ⟨slab_rem k h.slab hmne, ?_, by simpa using h.cap, h.ok.of_scripts rfl,
    by simpa [inPoll] using h.out, ?_, fun hd => by rw [remSt_queue]; exact h.qe hd⟩
  · simp only [World.emit_trace]
    exact link_emit _ rfl (link_leave (s' := remSt e.s k) k c hm rfl h.link)
  · simp only [World.emit_trace]
    rw [c20_skip _ _ _ _ (by simp), c20_skip _ _ _ _ (by simp)]; exact h.m20

theorem alive_opNeutral (ev : Ev) (t : List Ev) (h : opNeutral ev = true) (hd : ev ≠ .dropBegin) :
    alive (ev :: t) = alive t := by
  cases ev <;> simp_all [opNeutral, alive]

theorem lastOut_opNeutral (ev : Ev) (t : List Ev) (h : opNeutral ev = true) :
    lastOut (ev :: t) = lastOut t := by
  cases ev <;> simp_all [opNeutral, lastOut]

theorem quiet_childDropped (n c : Nat) (t : List Ev) (h : quiet n t = true) :
    quiet n (.childDropped c :: t) = true := by
  unfold quiet at h ⊢
  simp only [alive, lastOut, lastRes, owes, wokeSince, gone] at h ⊢
  rcases Bool.or_eq_true _ _ |>.mp h with h1 | h1
  · simp [h1]
  · simp only [List.all_eq_true, List.mem_range] at h1
    simp only [Bool.or_eq_true, List.all_eq_true, List.mem_range]
    right
    intro x hx
    have := h1 x hx
    revert this
    cases lastRes t x == some Res.pend <;> cases gone t x <;> cases owes t x <;>
      cases wokeSince t <;> simp

end G
end Fc
