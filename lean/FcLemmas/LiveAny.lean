/-
  FcLemmas/LiveAny.lean — liveness under the wake-only executor with an ARBITRARY environment
  schedule (Fc/ExecAny.lean): the induction on the round budget, stated once for an abstract run
  invariant and an abstract goal.

  `ProgG P n Inv Goal` is `Live3.Prog` with (a) the final answer abstracted to `Goal` (so that it
  covers the futures — `Ready …` — and the streams — `None`), and (b) `fire` for EVERY waker
  `(child, age)`, not only the newest one.  Nothing in it mentions `Exec.firstWaiting`: the facts
  about the prodded child (`woke`) are stated for ANY waiting child `c < n`.  The run lemma
  `ends_aux` is the one of FcLemmas/Live3Run.lean for `ExecAny.runForB`: whichever waiting child the
  schedule picks, and whatever further wakers (stale ones, of other children) the environment fires
  before and after the prod, afterwards that child's wake-up is owed, the task has been woken, and
  the next poll consumes one of its steps.
-/
import FcLemmas.Live3Run
import Fc.ExecAny
set_option linter.unusedSimpArgs false
set_option linter.unusedVariables false

namespace Fc
namespace LiveAny
open Mon Live Live3

/-- what the induction needs from a run invariant `Inv` (states that are not final) -/
structure ProgG (P : Policy Fix) (n : Nat) (Inv : Eng Fix → Prop) (Goal : Option Outcome → Prop) :
    Prop where
  lo : ∀ e, Inv e → lastOut e.w.trace = none ∨ lastOut e.w.trace = some .pending ∨
    ∃ k vs, lastOut e.w.trace = some (.some k vs)
  poll : ∀ e wid, Inv e →
    Goal (lastOut (Eng.poll P e wid).w.trace) ∨
    (Inv (Eng.poll P e wid) ∧ Exec.stepsLeft n (Eng.poll P e wid) ≤ Exec.stepsLeft n e ∧
      ((lastOut (Eng.poll P e wid).w.trace ≠ some .pending ∧
          Exec.stepsLeft n (Eng.poll P e wid) < Exec.stepsLeft n e) ∨
       (lastOut (Eng.poll P e wid).w.trace = some .pending ∧
          (Exec.stepsLeft n (Eng.poll P e wid) < Exec.stepsLeft n e ∨
            wokeSince (Eng.poll P e wid).w.trace = false) ∧
          (∀ c, c < n → lastRes e.w.trace c = some .pend → owes e.w.trace c = true →
            Exec.stepsLeft n (Eng.poll P e wid) < Exec.stepsLeft n e))))
  fire : ∀ e c a, Inv e → Inv (e.fire c a)
  waiting : ∀ e, Inv e → lastOut e.w.trace = some .pending →
    ∃ c, c < n ∧ lastRes e.w.trace c = some .pend ∧ e.w.scripts c ≠ []
  woke : ∀ e c, Inv e → lastOut e.w.trace = some .pending → c < n →
    lastRes e.w.trace c = some .pend →
    owes (e.fire c 0).w.trace c = true ∧ wokeSince (e.fire c 0).w.trace = true

variable {P : Policy Fix} {n : Nat} {Inv : Eng Fix → Prop} {Goal : Option Outcome → Prop}

/-- a `Live3.Prog` whose invariant survives every wake-up is a `ProgG` with goal `None` -/
theorem progG_of_prog (G : Prog P n Inv) (hf : ∀ e c a, Inv e → Inv (e.fire c a)) :
    ProgG P n Inv (fun o => o = some .none) where
  lo := G.lo
  poll := G.poll
  fire := hf
  waiting := G.waiting
  woke := G.woke

/-! ### a list of wake-ups -/

theorem wokeSince_fireSeg_mono (l t : List Ev) (hl : ∀ e ∈ l, isFireEv e = true)
    (h : wokeSince t = true) : wokeSince (l ++ t) = true := by
  induction l with
  | nil => exact h
  | cons e l ih =>
    have ih' := ih (fun e' he' => hl e' (List.mem_cons_of_mem _ he'))
    have he := hl e (List.mem_cons_self ..)
    rw [List.cons_append]
    cases e <;> simp_all [isFireEv, wokeSince]

theorem fires_inv (hf : ∀ e c a, Inv e → Inv (e.fire c a)) :
    ∀ (l : List (Nat × Nat)) (e : Eng Fix), Inv e → Inv (ExecAny.fires e l) := by
  intro l
  induction l with
  | nil => intro e h; exact h
  | cons p l ih => intro e h; exact ih _ (hf e p.1 p.2 h)

theorem fires_lastOut : ∀ (l : List (Nat × Nat)) (e : Eng Fix),
    lastOut (ExecAny.fires e l).w.trace = lastOut e.w.trace := by
  intro l
  induction l with
  | nil => intro e; rfl
  | cons p l ih =>
    intro e
    simp only [ExecAny.fires]
    rw [ih]; exact C01.lastOut_fire e.w p.1 p.2

theorem fires_lastRes : ∀ (l : List (Nat × Nat)) (e : Eng Fix) (j : Nat),
    lastRes (ExecAny.fires e l).w.trace j = lastRes e.w.trace j := by
  intro l
  induction l with
  | nil => intro e j; rfl
  | cons p l ih =>
    intro e j
    simp only [ExecAny.fires]
    rw [ih]; exact C16.lastRes_fire e.w p.1 p.2 j

theorem fires_scripts : ∀ (l : List (Nat × Nat)) (e : Eng Fix),
    (ExecAny.fires e l).w.scripts = e.w.scripts := by
  intro l
  induction l with
  | nil => intro e; rfl
  | cons p l ih =>
    intro e
    simp only [ExecAny.fires]
    rw [ih]; simp

theorem fires_stepsLeft (l : List (Nat × Nat)) (e : Eng Fix) :
    Exec.stepsLeft n (ExecAny.fires e l) = Exec.stepsLeft n e := by
  simp only [Exec.stepsLeft, fires_scripts]

theorem fires_owes_mono : ∀ (l : List (Nat × Nat)) (e : Eng Fix) (c : Nat),
    owes e.w.trace c = true → owes (ExecAny.fires e l).w.trace c = true := by
  intro l
  induction l with
  | nil => intro e c h; exact h
  | cons p l ih =>
    intro e c h
    simp only [ExecAny.fires]
    apply ih
    obtain ⟨s, hs, hp⟩ := World.fire_seg e.w p.1 p.2
    simp only [Eng.fire_w, hs]
    exact owes_fires_mono c s _ hp h

theorem fires_wokeSince_mono : ∀ (l : List (Nat × Nat)) (e : Eng Fix),
    wokeSince e.w.trace = true → wokeSince (ExecAny.fires e l).w.trace = true := by
  intro l
  induction l with
  | nil => intro e h; exact h
  | cons p l ih =>
    intro e h
    simp only [ExecAny.fires]
    apply ih
    obtain ⟨s, hs, hp⟩ := World.fire_seg e.w p.1 p.2
    simp only [Eng.fire_w, hs]
    exact wokeSince_fireSeg_mono s _ hp h

/-! ### the choice of the child to prod -/

theorem isWaiting_iff (e : Eng Fix) (c : Nat) :
    ExecAny.isWaiting e c = true ↔ lastRes e.w.trace c = some .pend ∧ e.w.scripts c ≠ [] := by
  simp [ExecAny.isWaiting]

/-- `Exec.firstWaiting` answers a waiting child -/
theorem firstWaiting_spec {e : Eng Fix} {c : Nat} (h : Exec.firstWaiting n e = some c) :
    c < n ∧ ExecAny.isWaiting e c = true := by
  unfold Exec.firstWaiting at h
  exact ⟨List.mem_range.mp (List.mem_of_find?_eq_some h), List.find?_some h⟩

/-- … and it answers one whenever some child is waiting -/
theorem firstWaiting_isSome {e : Eng Fix} {c : Nat} (hc : c < n) (hw : ExecAny.isWaiting e c = true) :
    ∃ c0, Exec.firstWaiting n e = some c0 := by
  have hsome : (Exec.firstWaiting n e).isSome = true := by
    unfold Exec.firstWaiting
    rw [List.find?_isSome]
    exact ⟨c, List.mem_range.mpr hc, hw⟩
  cases hfw : Exec.firstWaiting n e with
  | none => rw [hfw] at hsome; exact Bool.noConfusion hsome
  | some c0 => exact ⟨c0, rfl⟩

/-- whatever the schedule says, the child that is prodded is a waiting child -/
theorem choose_spec {pick : Nat → Eng Fix → Nat} {r : Nat} {e : Eng Fix} {c : Nat}
    (h : ExecAny.choose n pick r e = some c) : c < n ∧ ExecAny.isWaiting e c = true := by
  unfold ExecAny.choose at h
  split at h
  · rename_i hp
    cases h; exact hp
  · exact firstWaiting_spec h

/-- … and some child is prodded whenever some child is waiting -/
theorem choose_isSome (pick : Nat → Eng Fix → Nat) (r : Nat) {e : Eng Fix} {c : Nat} (hc : c < n)
    (hw : ExecAny.isWaiting e c = true) : ∃ c0, ExecAny.choose n pick r e = some c0 := by
  unfold ExecAny.choose
  split
  · exact ⟨_, rfl⟩
  · exact firstWaiting_isSome hc hw

/-- after a `Pending` poll some child is waiting, and the schedule prods a waiting child -/
theorem choose_some (G : ProgG P n Inv Goal) (pick : Nat → Eng Fix → Nat) (r : Nat) (e : Eng Fix)
    (h : Inv e) (hlo : lastOut e.w.trace = some .pending) :
    ∃ c, ExecAny.choose n pick r e = some c ∧ c < n ∧ lastRes e.w.trace c = some .pend ∧
      e.w.scripts c ≠ [] := by
  obtain ⟨c, hc, hlr, hne⟩ := G.waiting e h hlo
  obtain ⟨c0, h0⟩ := choose_isSome pick r hc ((isWaiting_iff e c).mpr ⟨hlr, hne⟩)
  obtain ⟨h1, h2⟩ := choose_spec h0
  obtain ⟨h3, h4⟩ := (isWaiting_iff e c0).mp h2
  exact ⟨c0, h0, h1, h3, h4⟩

/-! ### executor rounds -/

variable {pick : Nat → Eng Fix → Nat} {pre post : Nat → Eng Fix → List (Nat × Nat)}

theorem round_poll (G : ProgG P n Inv Goal) (r : Nat) (e : Eng Fix) (h : Inv e)
    (hsp : Exec.shouldPoll e.w.trace = true) :
    ExecAny.roundB P n pick pre post r e = some (Eng.poll P e (Exec.pollCount e.w.trace + 1)) := by
  unfold ExecAny.roundB; rw [finalOut_lo3 (G.lo e h), hsp]; simp

theorem round_fire (G : ProgG P n Inv Goal) (r : Nat) (e : Eng Fix) (h : Inv e)
    (hsp : Exec.shouldPoll e.w.trace = false)
    (c : Nat) (hch : ExecAny.choose n pick r e = some c) :
    ExecAny.roundB P n pick pre post r e
      = some (ExecAny.fires ((ExecAny.fires e (pre r e)).fire c 0) (post r e)) := by
  unfold ExecAny.roundB; rw [finalOut_lo3 (G.lo e h), hsp, hch]; simp

theorem poll_round (G : ProgG P n Inv Goal) {N : Nat}
    (ih : ∀ r e, Inv e → Cond n e N →
      ∃ k, k ≤ N ∧ Goal (lastOut (ExecAny.runForB P n pick pre post k r e).w.trace))
    (r : Nat) (e : Eng Fix) (h : Inv e) (hsp : Exec.shouldPoll e.w.trace = true)
    (hE : ((∃ c, c < n ∧ lastRes e.w.trace c = some .pend ∧ owes e.w.trace c = true) ∧
            3 * Exec.stepsLeft n e ≤ N + 2) ∨ 3 * Exec.stepsLeft n e ≤ N) :
    ∃ k, k ≤ N + 1 ∧ Goal (lastOut (ExecAny.runForB P n pick pre post k r e).w.trace) := by
  have hr := round_poll (pick := pick) (pre := pre) (post := post) G r e h hsp
  rcases G.poll e (Exec.pollCount e.w.trace + 1) h with hv | ⟨h', hle, hcase⟩
  · exact ⟨1, by omega, by simp only [ExecAny.runForB, hr]; exact hv⟩
  · have hcond : Cond n (Eng.poll P e (Exec.pollCount e.w.trace + 1)) N := by
      rcases hcase with ⟨hnp, hlt⟩ | ⟨hlo', hD, hEE⟩
      · left
        refine ⟨shouldPoll_not_pending (G.lo _ h') hnp, ?_⟩
        rcases hE with ⟨_, hb⟩ | hb <;> omega
      · have hsp' := shouldPoll_pending hlo'
        cases hw : wokeSince (Eng.poll P e (Exec.pollCount e.w.trace + 1)).w.trace with
        | true =>
          left
          refine ⟨by rw [hsp', hw], ?_⟩
          rcases hE with ⟨⟨c, hc, h1, h2⟩, hb⟩ | hb
          · have := hEE c hc h1 h2; omega
          · rcases hD with hD | hD
            · omega
            · rw [hw] at hD; exact Bool.noConfusion hD
        | false =>
          right; left
          refine ⟨by rw [hsp', hw], ?_⟩
          rcases hE with ⟨⟨c, hc, h1, h2⟩, hb⟩ | hb
          · have := hEE c hc h1 h2; omega
          · omega
    obtain ⟨k, hk, hv⟩ := ih (r + 1) _ h' hcond
    exact ⟨k + 1, by omega, by simp only [ExecAny.runForB, hr]; exact hv⟩

/-- the induction on the number of rounds allowed; `r` = current round number -/
theorem ends_aux (G : ProgG P n Inv Goal) : ∀ (N r : Nat) (e : Eng Fix), Inv e → Cond n e N →
    ∃ k, k ≤ N ∧ Goal (lastOut (ExecAny.runForB P n pick pre post k r e).w.trace) := by
  intro N
  induction N with
  | zero =>
    intro r e h hc
    rcases hc with ⟨_, h1⟩ | ⟨hsp, h1⟩ | ⟨_, _, h1, h2⟩
    · omega
    · obtain ⟨hlo, _⟩ := shouldPoll_false_pending3 (G.lo e h) hsp
      obtain ⟨c, hc, _, hne⟩ := G.waiting e h hlo
      have h3 := le_total (fun c => (e.w.scripts c).length) n c hc
      have h4 := length_pos_of_ne_nil' _ hne
      rw [stepsLeft_eq] at h1
      omega
    · omega
  | succ N ih =>
    intro r e h hc
    rcases hc with ⟨hsp, h1⟩ | ⟨hsp, h1⟩ | ⟨hsp, hwit, h1, h2⟩
    · exact poll_round G ih r e h hsp (Or.inr (by omega))
    · obtain ⟨hlo, _⟩ := shouldPoll_false_pending3 (G.lo e h) hsp
      obtain ⟨c, hch, hc, hlr, hne⟩ := choose_some G pick r e h hlo
      have hr := round_fire (pre := pre) (post := post) G r e h hsp c hch
      -- the wake-ups before the prod
      have h1' : Inv (ExecAny.fires e (pre r e)) := fires_inv G.fire _ e h
      have hlo1 : lastOut (ExecAny.fires e (pre r e)).w.trace = some .pending := by
        rw [fires_lastOut]; exact hlo
      have hlr1 : lastRes (ExecAny.fires e (pre r e)).w.trace c = some .pend := by
        rw [fires_lastRes]; exact hlr
      -- the prod
      obtain ⟨ho, hw⟩ := G.woke _ c h1' hlo1 hc hlr1
      have h2' : Inv ((ExecAny.fires e (pre r e)).fire c 0) := G.fire _ c 0 h1'
      -- the wake-ups after the prod
      have h' := fires_inv G.fire (post r e) _ h2'
      have ho' := fires_owes_mono (post r e) _ c ho
      have hw' := fires_wokeSince_mono (post r e) _ hw
      have hlr' : lastRes (ExecAny.fires ((ExecAny.fires e (pre r e)).fire c 0) (post r e)).w.trace c
          = some .pend := by
        rw [fires_lastRes]; simp only [Eng.fire_w, C16.lastRes_fire]; exact hlr1
      have hlo' : lastOut (ExecAny.fires ((ExecAny.fires e (pre r e)).fire c 0) (post r e)).w.trace
          = some .pending := by
        rw [fires_lastOut,
          show lastOut ((ExecAny.fires e (pre r e)).fire c 0).w.trace
            = lastOut (ExecAny.fires e (pre r e)).w.trace from C01.lastOut_fire _ c 0]
        exact hlo1
      have hsl : Exec.stepsLeft n (ExecAny.fires ((ExecAny.fires e (pre r e)).fire c 0) (post r e))
          = Exec.stepsLeft n e := by
        rw [fires_stepsLeft, stepsLeft_fire, fires_stepsLeft]
      have h3 := le_total (fun c => (e.w.scripts c).length) n c hc
      have h4 := length_pos_of_ne_nil' _ hne
      have hcond : Cond n (ExecAny.fires ((ExecAny.fires e (pre r e)).fire c 0) (post r e)) N := by
        right; right
        refine ⟨by rw [shouldPoll_pending hlo', hw'], ⟨c, hc, hlr', ho'⟩, ?_, ?_⟩
        · rw [hsl, stepsLeft_eq]; omega
        · rw [hsl]; omega
      obtain ⟨k, hk, hv⟩ := ih (r + 1) _ h' hcond
      exact ⟨k + 1, by omega, by simp only [ExecAny.runForB, hr]; exact hv⟩
    · exact poll_round G ih r e h hsp (Or.inl ⟨hwit, by omega⟩)

/-- every run from a state satisfying the invariant — whatever the schedule and the extra wake-ups —
    reaches the goal within `3 * stepsLeft + 1` rounds -/
theorem endsB_of_prog (G : ProgG P n Inv Goal) (pick : Nat → Eng Fix → Nat)
    (pre post : Nat → Eng Fix → List (Nat × Nat)) (r : Nat) (e : Eng Fix) (h : Inv e)
    (hsp : Exec.shouldPoll e.w.trace = true) :
    ∃ k, k ≤ 3 * Exec.stepsLeft n e + 1 ∧
      Goal (lastOut (ExecAny.runForB P n pick pre post k r e).w.trace) :=
  ends_aux G _ r e h (Or.inl ⟨hsp, Nat.le_refl _⟩)

/-! ### the plain executor is the busy one without extra wake-ups -/

theorem round_eq_roundB (P : Policy Fix) (n : Nat) (pick : Nat → Eng Fix → Nat) (r : Nat)
    (e : Eng Fix) :
    ExecAny.round P n pick r e = ExecAny.roundB P n pick (fun _ _ => []) (fun _ _ => []) r e := by
  unfold ExecAny.round ExecAny.roundB
  rfl

theorem runFor_eq_runForB (P : Policy Fix) (n : Nat) (pick : Nat → Eng Fix → Nat) :
    ∀ (k r : Nat) (e : Eng Fix),
      ExecAny.runFor P n pick k r e = ExecAny.runForB P n pick (fun _ _ => []) (fun _ _ => []) k r e := by
  intro k
  induction k with
  | zero => intro r e; rfl
  | succ k ih =>
    intro r e
    simp only [ExecAny.runFor, ExecAny.runForB, round_eq_roundB]
    cases ExecAny.roundB P n pick (fun _ _ => []) (fun _ _ => []) r e with
    | none => rfl
    | some e' => exact ih (r + 1) e'

theorem ends_of_prog (G : ProgG P n Inv Goal) (pick : Nat → Eng Fix → Nat) (r : Nat) (e : Eng Fix)
    (h : Inv e) (hsp : Exec.shouldPoll e.w.trace = true) :
    ∃ k, k ≤ 3 * Exec.stepsLeft n e + 1 ∧
      Goal (lastOut (ExecAny.runFor P n pick k r e).w.trace) := by
  obtain ⟨k, hk, hv⟩ := endsB_of_prog G pick (fun _ _ => []) (fun _ _ => []) r e h hsp
  exact ⟨k, hk, by rw [runFor_eq_runForB]; exact hv⟩

/-! ### with the schedule "first waiting child" it is the executor of Fc/Exec.lean -/

/-- the schedule of Fc/Exec.lean: the first waiting child (`n` = nobody, if none is waiting) -/
def firstPick (n : Nat) : Nat → Eng Fix → Nat := fun _ e => (Exec.firstWaiting n e).getD n

theorem choose_firstPick (n r : Nat) (e : Eng Fix) :
    ExecAny.choose n (firstPick n) r e = Exec.firstWaiting n e := by
  unfold ExecAny.choose
  split
  · rename_i hp
    cases hfw : Exec.firstWaiting n e with
    | none =>
      simp only [firstPick, hfw, Option.getD_none] at hp
      exact absurd hp.1 (Nat.lt_irrefl n)
    | some c => simp [firstPick, hfw]
  · rfl

theorem round_firstPick (P : Policy Fix) (n r : Nat) (e : Eng Fix) :
    ExecAny.round P n (firstPick n) r e = Exec.round P n e := by
  unfold ExecAny.round Exec.round
  rw [choose_firstPick]
  rfl

theorem runFor_firstPick (P : Policy Fix) (n : Nat) : ∀ (k r : Nat) (e : Eng Fix),
    ExecAny.runFor P n (firstPick n) k r e = Exec.runFor P n k e := by
  intro k
  induction k with
  | zero => intro r e; rfl
  | succ k ih =>
    intro r e
    simp only [ExecAny.runFor, Exec.runFor, round_firstPick]
    cases Exec.round P n e with
    | none => rfl
    | some e' => exact ih (r + 1) e'

end LiveAny
end Fc
