/-
  FcLemmas/KTieMergeTMain.lean — tuple merge (port of FcLemmas/KTieMergeAMain.lean): the translated `Merge::poll_next` of
  `(A, B, …).merge()` (FcGen/KSrcTup3.lean) refines `Eng.poll merge`, for every arity `0 < N`.  The container-independent
  lemmas about the model (`visit_*`, `poll_unfold`, `close_none`, `close_some` of the namespace `TieMergeV`,
  `TieIdx.iter_collect`) and the environment lemmas of the readiness array (`TieMergeA.ma_pollChild_tieM`) are imported,
  not copied.  What differs from the array: no `N == 0` early return (`WfM.cn` gives `0 < N`), the end test is
  `N == completed`, and the child poll sits under `if index < N` (true of every index the loop sees).
  The loop body is taken from the generated definition by unification (`refine loop_bind …`); the proofs use the
  role abbreviations only (`unroles`) and let `simp` compute through the translated code.
-/
import FcLemmas.KTieMergeTLoop
import FcLemmas.KTieMergeMain
import FcLemmas.KTieSteps

set_option linter.unusedSimpArgs false
set_option linter.unusedVariables false

namespace Fc
open Rs Src

namespace TieMergeT
open MergeT
open TieMergeA (ma_pollChild_tieM ma_wakeA)
open TieMergeV (visit_noReady visit_skip visit_pend visit_item visit_fin_last visit_fin_more poll_unfold close_none close_some)

local macro "unroles" : tactic =>
  `(tactic| try simp only [Merge.roleKids, Merge.roleIndexer, Merge.roleCount, Merge.roleWakers, Merge.roleStates] at *)

/-- re-establishing `Rel` after a step that leaves the children, the indexer and the table sizes alone -/
theorem Rel.update {n : Nat} {e : Eng Fix} {g : Merge} {env : World} (hR : Rel n e g env)
    (e' : Eng Fix) (g' : Merge) (env' : World)
    (hw : e'.w = TieArr.abs g'.roleWakers.readiness env')
    (hn : e'.s.n = e.s.n) (hk : g'.roleKids = g.roleKids)
    (hst : e'.s.st = fun i => TiePS.abs (g'.roleStates.get i))
    (hcnt : e'.s.cnt = g'.roleCount)
    (hoff : e'.s.off = e.s.off) (hix : g'.roleIndexer = g.roleIndexer)
    (hrd : TieArr.Wf n g'.roleWakers.readiness)
    (hsl : g'.roleStates.len = g.roleStates.len)
    (hpar : g'.roleWakers.readiness.roleParent ≠ none)
    (hin : HandedIn n env') (hsok : StreamStepsF env') : Rel n e' g' env' where
  ew := hw
  en := by rw [hn, hR.en]
  kids := by rw [hk, hR.kids]
  st := hst
  cnt := hcnt
  off := by rw [hoff, hR.off, hix]
  rd := hrd
  sl := by rw [hsl, hR.sl]
  mx := by rw [hix, hR.mx]
  par := hpar
  hin := hin
  sok := hsok

/-- what `Rel` at the end of the scan says about the model state after the closing `pollEnd` -/
theorem post_of_rel {n : Nat} {X : Eng Fix} {g' : Merge} {env' : World} (hR : Rel n X g' env') (b : Eng Fix)
    (o : Outcome) :
    fcore (absM g' b) = fcore (X.emit (.pollEnd o)) ∧ env'.scripts = (X.emit (.pollEnd o)).w.scripts ∧
      env'.handed = (X.emit (.pollEnd o)).w.handed ∧ (X.emit (.pollEnd o)).w.trace = .pollEnd o :: env'.trace := by
  obtain ⟨hw, hen, hk, hst, hcnt, hoff, hrd, hsl, hmx, hpar, hhin, hsok⟩ := hR
  refine ⟨?_, ?_, ?_, ?_⟩
  · simp only [fcore, absM, Eng.emit, World.emit, hw, hen, hk, hst, hcnt, hoff]
    rfl
  · simp only [Eng.emit, World.emit, hw]; rfl
  · simp only [Eng.emit, World.emit, hw]; rfl
  · simp only [Eng.emit, World.emit, hw]; rfl


/-- the refinement, together with the two facts about the environment that the next poll needs again -/
theorem poll_tie_core (N : Nat) (g : Merge) (b : Eng Fix) (w : Nat) (hW : WfM N g) (hS : StreamStepsF b.w)
    (hH : HandedIn N b.w) (hd : b.s.dead = false) :
    ∃ g' env' ret,
      Merge.poll_next N g w ((absM g b).w.emit (.pollBegin w)) = some (g', env', ret) ∧
      (ret ≠ .ready none → WfM N g') ∧
      (fcore (absM g' b) = fcore (Eng.poll merge (absM g b) w) ∧
       env'.scripts = (Eng.poll merge (absM g b) w).w.scripts ∧
       env'.handed = (Eng.poll merge (absM g b) w).w.handed ∧
       (Eng.poll merge (absM g b) w).w.trace = .pollEnd (outcomeOfStream ret) :: env'.trace) ∧
      g'.roleKids.len = g.roleKids.len ∧ HandedIn N env' ∧ StreamStepsF env' := by
  have hkn := hW.kn
  have hn : N ≠ 0 := by have := hW.cn; omega
  suffices h : ∃ g' env' ret, Merge.poll_next N g w ((absM g b).w.emit (.pollBegin w)) = some (g', env', ret) ∧
      ∃ X, Rel N X g' env' ∧ (ret ≠ .ready none → g'.roleCount < N) ∧
        Eng.poll merge (absM g b) w = X.emit (.pollEnd (outcomeOfStream ret)) by
    obtain ⟨g', env', ret, h1, X, hR, hc, hp⟩ := h
    refine ⟨g', env', ret, h1, ?_, ?_, by rw [hR.kids, hkn], hR.hin, hR.sok⟩
    · intro hh
      exact ⟨hR.kids, hR.rd, hR.sl, hR.mx, hc hh⟩
    · rw [hp]; exact post_of_rel hR b _
  have hpoll := poll_unfold (absM g b) w (show (absM g b).s.n ≠ 0 by show g.roleKids.len ≠ 0; rw [hkn]; exact hn) hd
  obtain ⟨-, hrd, hsl, hmx, hcn⟩ := hW
  have hcn' : g.roleCount < N := hcn
  have hrot : (absM g b).s.rot = (List.range N).map (fun k => (k + g.roleIndexer.roleOffset) % N) := by
    show (List.range g.roleKids.len).map (fun k => (k + g.roleIndexer.roleOffset) % g.roleKids.len) = _
    rw [hkn]
  obtain ⟨r1, hs1, hs2, hs3⟩ := TieArr.set_waker_tie N g.roleWakers.readiness
    ((absM g b).w.emit (.pollBegin w)) w hrd
  have hparent : r1.roleParent ≠ none := by
    have := congrArg World.parent hs3
    simp at this
    rw [this]; simp
  have hfuel : g.roleIndexer.roleMax ≤ Idx.Indexer.fuel g.roleIndexer := by
    unfold Idx.Indexer.fuel
    simp only [Idx.Indexer.roleMax]
    omega
  obtain ⟨ix, it, hi1, hi2, hi3, hi4⟩ := TieIdx.iter_collect g.roleIndexer (Idx.Indexer.fuel g.roleIndexer)
    (by omega) hfuel
  rw [hmx] at hi2 hi3 hi4
  have hl : ∀ i ∈ (List.range N).map (fun k => (k + g.roleIndexer.roleOffset) % N),
      i < N := by
    intro i hi
    simp only [List.mem_map] at hi
    obtain ⟨k, _, rfl⟩ := hi
    exact Nat.mod_lt _ (by omega)
  rw [hrot] at hpoll
  unfold Merge.poll_next
  unroles
  simp only [hs1, hi1, hi4, beq_iff_eq, hn, Option.bind_eq_bind, Option.bind_some, Option.pure_def, ↓reduceIte]
  refine loop_bind N _ ?hF _
    { w := ((absM g b).w.emit (.pollBegin w)).setWaker w, s := (absM g b).s.bump } _ _ ?hR ?hc hl _ _ ?hK
  case hF =>
    clear hs1 hs2 hs3 hi1 hi2 hi3 hi4 hrd hsl hmx hcn hcn' hH hS hd hpoll hl hparent hfuel hrot hkn
    clear hn g
    intro e g env i hR hc hi
    dsimp only
    have hR0 := hR
    obtain ⟨hw, hen, hk, hst, hcnt, hoff, hrd, hsl, hmx, hpar, hhin, hsok⟩ := hR
    have ha := TieArr.any_ready_tie N g.roleWakers.readiness env
    obtain ⟨r2, hc1, hc2, hc3⟩ := TieArr.clear_ready_tie N g.roleWakers.readiness env i hrd hi
    have hpar2 : r2.roleParent ≠ none := by
      have := congrArg World.parent hc3
      simp at this
      rw [this]; exact hpar
    have hidx : Rs.PVec.idx g.roleStates i = some (g.roleStates.get i) := by
      simp [Rs.PVec.idx, hsl, hi]
    have hisn := (TiePS.tie (g.roleStates.get i)).1
    have hkid : Rs.Kids.get g.roleKids i = some i := by simp [Rs.Kids.get, hk, hi]
    obtain ⟨r3, env3, hp1, hp2, hp3, hp4, hp5, hp6⟩ := ma_pollChild_tieM N r2 env i i hc2 hpar2 hhin hi
    obtain ⟨r4, hr1, hr2, hr3⟩ := TieArr.set_ready_tie N r3 env3 i hp2 hi
    have hsok3 := hsok.tail i hp6
    try simp only [ma_wakeA] at hp1
    cases hany : (TieArr.abs g.roleWakers.readiness env).anyReady
    · -- nothing is ready
      have hv := visit_noReady e i (by rw [hw]; exact hany)
      unroles
      simp only [ha, hany, Option.bind_some, Bool.not_false, ↓reduceIte]
      refine ⟨_, _, _, rfl, ?_, Or.inr ⟨_, rfl, ?_, ?_⟩⟩
      · rw [hv]; exact hR0
      · rw [hv]; rfl
      · intro _; exact hc
    · have hany' : e.w.anyReady = true := by rw [hw]; exact hany
      cases hset : (TieArr.abs g.roleWakers.readiness env).isSet i
      · -- the flag of the slot is clear
        have hv := visit_skip e i hany' (Or.inl (by rw [hw]; exact hset))
        rw [hset] at hc1
        unroles
        simp only [ha, hany, hc1, Option.bind_some, Bool.not_false, Bool.not_true, ↓reduceIte]
        refine ⟨_, _, _, rfl, ?_, Or.inl ⟨rfl, ?_, ?_⟩⟩
        · rw [hv]
          refine hR0.update _ _ _ ?_ rfl rfl hst hcnt rfl rfl hc2 rfl hpar2 hhin hsok
          unroles
          rw [hc3, hw]
        · rw [hv]
        · exact hc
      · have hset' : e.w.isSet i = true := by rw [hw]; exact hset
        rw [hset] at hc1
        by_cases hsn : TiePS.abs (g.roleStates.get i) = .none
        · -- the slot's stream has ended
          have hv := visit_skip e i hany' (Or.inr (by rw [hst]; exact hsn))
          unroles
          simp only [ha, hany, hc1, hidx, hisn, hsn, decide_true, Option.bind_some, Bool.not_false, Bool.not_true,
            Bool.false_eq_true, ↓reduceIte]
          refine ⟨_, _, _, rfl, ?_, Or.inl ⟨rfl, ?_, ?_⟩⟩
          · rw [hv]
            refine hR0.update _ _ _ ?_ rfl rfl hst hcnt rfl rfl hc2 rfl hpar2 hhin hsok
            unroles
            rw [hc3, hw]
          · rw [hv]
          · exact hc
        · -- the child is polled
          have hsn' : e.s.st i ≠ .none := by rw [hst]; exact hsn
          have hres' : e.w.resOf i = env.resOf i := by rw [hw]; rfl
          have hwk : e.w = TieArr.abs g.roleWakers.readiness env := hw
          unroles
          simp only [ha, hany, hc1, hidx, hisn, hsn, decide_false, Option.bind_some, Bool.not_false, Bool.not_true,
            Bool.false_eq_true, ↓reduceIte, WakerArray.get, hi, hkid, Rs.expect, Rs.pollStream, hp1]
          rcases hsok.resOf i with hres | hres | ⟨v, hres⟩
          · -- Pending
            have hv := visit_pend e i hany' hset' hsn' (by rw [hres', hres])
            simp only [hres, Option.bind_some]
            refine ⟨_, _, _, rfl, ?_, Or.inl ⟨rfl, ?_, ?_⟩⟩
            · rw [hv]
              refine hR0.update _ _ _ ?_ rfl rfl hst hcnt rfl rfl hp2 rfl hp3 hp5 hsok3
              unroles
              rw [hp4, hc3, hw]
            · rw [hv]
            · exact hc
          · -- the stream ended
            obtain ⟨q, hq1, hq2⟩ := (TiePS.tie (g.roleStates.get i)).2.2.2.1
            have hset2 : Rs.PVec.set g.roleStates i q
                = some ⟨g.roleStates.len, fun j => if j = i then q else g.roleStates.get j⟩ := by
              simp [Rs.PVec.set, hsl, hi]
            unroles
            simp only [hres, Option.bind_some, Rs.uadd, hq1, hset2]
            by_cases hlast : N = g.roleCount + 1 <;> unroles
            · have hv := visit_fin_last e i hany' hset' hsn' (by rw [hres', hres]) (by rw [hcnt, hen]; exact hlast.symm)
              simp only [decide_true, ↓reduceIte, if_pos hlast]
              refine ⟨_, _, _, rfl, ?_, Or.inr ⟨_, rfl, ?_, ?_⟩⟩
              · rw [hv]
                refine hR0.update _ _ _ ?_ rfl rfl ?_ ?_ rfl rfl hp2 rfl hp3 hp5 hsok3
                · unroles
                  rw [hp4, hc3, hw]
                · unroles
                  funext j
                  by_cases hj : j = i <;> simp [upd, hj, hq2, hst]
                · unroles
                  simp only [hcnt]
              · rw [hv]; rfl
              · intro hne; exact absurd rfl hne
            · have hv := visit_fin_more e i hany' hset' hsn' (by rw [hres', hres])
                (by rw [hcnt, hen]; exact fun h => hlast h.symm)
              simp only [decide_true, ↓reduceIte, if_neg hlast]
              refine ⟨_, _, _, rfl, ?_, Or.inl ⟨rfl, ?_, ?_⟩⟩
              · rw [hv]
                refine hR0.update _ _ _ ?_ rfl rfl ?_ ?_ rfl rfl hp2 rfl hp3 hp5 hsok3
                · unroles
                  rw [hp4, hc3, hw]
                · unroles
                  funext j
                  by_cases hj : j = i <;> simp [upd, hj, hq2, hst]
                · unroles
                  simp only [hcnt]
              · rw [hv]
              · unroles; omega
          · -- an item
            have hv := visit_item e i v hany' hset' hsn' (by rw [hres', hres])
            simp only [hres, Option.bind_some, hr1]
            refine ⟨_, _, _, rfl, ?_, Or.inr ⟨_, rfl, ?_, ?_⟩⟩
            · rw [hv]
              have hpar4 : r4.roleParent ≠ none := by
                have := congrArg World.parent hr3
                simp at this
                rw [this]; exact hp3
              refine hR0.update _ _ _ ?_ rfl rfl hst hcnt rfl rfl hr2 rfl hpar4 hp5 hsok3
              unroles
              rw [hr3, hp4, hc3, hw]
            · rw [hv]; rfl
            · intro _; exact hc
  case hc => exact hcn'
  case hR =>
    refine ⟨?_, hkn, hkn, rfl, rfl, ?_, hs2, hsl, hi2, hparent, ?_, hS⟩
    · unroles
      rw [hs3]; rfl
    · unroles
      simp only [Fix.bump, absM, hi3, hkn]
    · intro c i hm; exact hH c i hm
  case hK =>
    intro g' env' r hR' hcase
    rcases hcase with ⟨rfl, hx, hc'⟩ | ⟨v, rfl, hx, hc'⟩
    · refine ⟨_, _, _, rfl, _, hR', fun _ => hc', ?_⟩
      rw [hpoll]
      exact close_none _ hx
    · refine ⟨_, _, _, rfl, _, hR', hc', ?_⟩
      rw [hpoll]
      exact close_some _ _ hx

theorem poll_tie_main : poll_tie_statement := by
  intro N g b w hW hS hH hd
  obtain ⟨g', env', ret, h1, h2, ⟨h3, h4, h5, h6⟩, _⟩ := poll_tie_core N g b w hW hS hH hd
  exact ⟨g', env', ret, h1, h2, h3, h4, h5, h6⟩

end TieMergeT
end Fc
