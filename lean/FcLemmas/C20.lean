/-
  FcLemmas/C20.lean — concurrent evaluation: the mode-independent part of the invariant and its
  preservation by the poll skeleton.  It is carried inside the C01 invariants (std and direct),
  which supply the two mode-specific facts it needs:
    * when `any_ready` is false no slot passes the readiness test,
    * at a boundary, an owed wake-up of a waiting child means its slot passes the test.
-/
import FcLemmas.Frame
import FcLemmas.C16

namespace Fc

/-- extra laws of the concurrently evaluating families -/
structure Conc (P : Policy Fix) : Prop where
  law : Lawful P
  /-- every child is in the scan order of a live combinator -/
  order_all : ∀ s c, P.pre s = none → c < s.n → c ∈ P.order s
  /-- `Pending` is only returned by the readiness checks or after a complete scan -/
  no_pend_exit : ∀ s i r, (P.handle s i r).exit ≠ some .pending ∧ (P.handle s i r).exit ≠ some .panicked
  pre_ok : ∀ s, P.pre s ≠ some .pending ∧ P.pre s ≠ some .panicked
  fin_ok : ∀ s, (P.finish s).exit ≠ some .panicked ∧ (P.finish s).exit ≠ none
  /-- a fresh combinator may poll every child -/
  elig_init : ∀ n k c, P.eligible (Fix.init n k) c = true

namespace C20
open Mon

def R1 (P : Policy Fix) (e : Eng Fix) : Prop :=
  P.pre e.s = none → ∀ j, lastRes e.w.trace j = some .pend → P.eligible e.s j = true

/-- never-polled children can be polled -/
def LA (P : Policy Fix) (e : Eng Fix) : Prop :=
  P.pre e.s = none → ∀ c, c < e.s.n → everPolled e.w.trace c = false →
    P.eligible e.s c = true ∧ e.w.isSet c = true

def LP (e : Eng Fix) : Prop := ∀ c, lastRes e.w.trace c ≠ none → c < e.w.cap

/-- inside a poll, `V` = slots already scanned -/
structure P20 (P : Policy Fix) (e : Eng Fix) (V : Nat → Prop) : Prop where
  la : LA P e
  lp : LP e
  av : ∀ c, V c → c < e.s.n → everPolled e.w.trace c = true
  bv : ∀ c, lastRes (atPollBegin e.w.trace) c = some .pend → owes (atPollBegin e.w.trace) c = true →
         polledSince e.w.trace c = true ∨
         (¬ V c ∧ e.w.isSet c = true ∧ lastRes e.w.trace c = some .pend)
  m20 : holds_C20 true e.s.n e.w.trace = true

/-- leaving the loop with outcome `o` -/
structure X20 (P : Policy Fix) (o : Outcome) (e : Eng Fix) : Prop where
  la : LA P e
  lp : LP e
  m20 : holds_C20 true e.s.n e.w.trace = true
  pend : o = .pending → c20At true e.s.n e.w.trace = true

/-- between operations -/
structure B20 (P : Policy Fix) (e : Eng Fix) : Prop where
  la : LA P e
  lp : LP e
  m20 : holds_C20 true e.s.n e.w.trace = true

variable {P : Policy Fix}

theorem p20_mono {e : Eng Fix} {V V' : Nat → Prop} (hv : ∀ c, V' c → V c) (h : P20 P e V) :
    P20 P e V' :=
  ⟨h.la, h.lp, fun c hc => h.av c (hv c hc), fun c h1 h2 => by
    rcases h.bv c h1 h2 with hb | hb
    · exact Or.inl hb
    · exact Or.inr ⟨fun hc => hb.1 (hv c hc), hb.2⟩, h.m20⟩

/-- when nothing passes the readiness test, everything owned has been polled -/
theorem c20At_of_none_set {e : Eng Fix} {V : Nat → Prop} (h : P20 P e V) (hl : P.pre e.s = none)
    (hns : ∀ c, e.w.isSet c = false) : c20At true e.s.n e.w.trace = true := by
  unfold c20At
  simp only [List.all_eq_true, List.mem_range]
  intro c hc
  have hep : everPolled e.w.trace c = true := by
    cases hh : everPolled e.w.trace c with
    | true => rfl
    | false =>
      have := (h.la hl c hc hh).2
      rw [hns c] at this; exact Bool.noConfusion this
  simp only [owned, hc, decide_true, if_true, Bool.not_true, Bool.false_or, hep, Bool.true_and]
  cases hps : polledSince e.w.trace c with
  | true => simp
  | false =>
    simp only [Bool.or_false, Bool.not_eq_true', Bool.and_eq_false_imp, beq_iff_eq]
    intro hp
    cases ho : owes (atPollBegin e.w.trace) c with
    | false => rfl
    | true =>
      rcases h.bv c hp ho with hb | hb
      · rw [hps] at hb; exact Bool.noConfusion hb
      · rw [hns c] at hb; exact Bool.noConfusion hb.2.1

/-- after a complete scan, everything owned has been polled -/
theorem c20At_of_complete {e : Eng Fix} {V : Nat → Prop} (h : P20 P e V)
    (hall : ∀ c, c < e.s.n → V c) (hcap : e.w.cap = e.s.n)
    (hlt : ∀ c, e.w.isSet c = true → lastRes e.w.trace c = some .pend → c < e.s.n) :
    c20At true e.s.n e.w.trace = true := by
  unfold c20At
  simp only [List.all_eq_true, List.mem_range]
  intro c hc
  have hep := h.av c (hall c hc) hc
  simp only [owned, hc, decide_true, if_true, Bool.not_true, Bool.false_or, hep, Bool.true_and]
  cases hps : polledSince e.w.trace c with
  | true => simp
  | false =>
    simp only [Bool.or_false, Bool.not_eq_true', Bool.and_eq_false_imp, beq_iff_eq]
    intro hp
    cases ho : owes (atPollBegin e.w.trace) c with
    | false => rfl
    | true =>
      rcases h.bv c hp ho with hb | hb
      · rw [hps] at hb; exact Bool.noConfusion hb
      · exact absurd (hall c (hlt c hb.2.1 hb.2.2)) hb.1

theorem lp_pollChild (w : World) (i : Nat) (hi : i < w.cap)
    (h : ∀ c, lastRes w.trace c ≠ none → c < w.cap) :
    ∀ c, lastRes (w.pollChild i i).trace c ≠ none → c < (w.pollChild i i).cap := by
  intro c hc
  rw [C16.lastRes_pollChild] at hc
  simp only [World.pollChild_cap]
  by_cases hic : i = c
  · subst hic; exact hi
  · simp only [hic, if_false] at hc; exact h c hc

/-- one loop iteration -/
theorem p20_visit (C : Conc P) (e : Eng Fix) (i : Nat) (V : Nat → Prop) (hi : i < e.s.n)
    (hcap : e.w.cap = e.s.n) (h : P20 P e V) (hl : P.pre e.s = none) (hr1 : R1 P e)
    (hnr : e.w.anyReady = false → ∀ c, e.w.isSet c = false)
    (hhi : e.w.mode = .std → ∀ c, e.w.isSet c = true → c < e.w.cap) :
    ((Eng.visit P e i).2 = none → P20 P (Eng.visit P e i).1 (fun c => V c ∨ c = i)) ∧
    (∀ o, (Eng.visit P e i).2 = some o → X20 P o (Eng.visit P e i).1) := by
  have L := C.law
  refine Eng.visit_ind P e i
    (fun r => (r.2 = none → P20 P r.1 (fun c => V c ∨ c = i)) ∧ (∀ o, r.2 = some o → X20 P o r.1))
    ?_ ?_ ?_ ?_
  · intro _ hany
    refine ⟨fun hn => by simp at hn, ?_⟩
    intro o ho
    simp only [Option.some.injEq] at ho
    subst ho
    exact ⟨h.la, h.lp, h.m20, fun _ => c20At_of_none_set h hl (hnr hany)⟩
  · -- skipped
    intro _ hg
    refine ⟨fun _ => ?_, fun o ho => by simp at ho⟩
    have hgs : ∀ c, c ≠ i → (Eng.gateW P e i).isSet c = e.w.isSet c := by
      intro c hci
      unfold Eng.gateW
      split
      · exact World.isSet_clearReady_other _ _ _ hci
      · rfl
    -- slot `i` itself has been polled before
    have hepi : i < e.s.n → everPolled e.w.trace i = true := by
      intro hi'
      cases hh : everPolled e.w.trace i with
      | true => rfl
      | false =>
        have := h.la hl i hi' hh
        unfold Eng.gateGo at hg
        rw [this.1, this.2] at hg
        exact Bool.noConfusion hg
    refine ⟨?_, fun c hc => by simpa using h.lp c (by simpa using hc), ?_, ?_, by simpa using h.m20⟩
    · intro hp c hc hep
      simp only [C16.gateW_trace] at hep
      have := h.la hp c hc hep
      by_cases hci : c = i
      · subst hci; rw [hepi hc] at hep; exact Bool.noConfusion hep
      · exact ⟨this.1, by rw [hgs c hci]; exact this.2⟩
    · intro c hv hc
      simp only [C16.gateW_trace]
      rcases hv with hv | hv
      · exact h.av c hv hc
      · subst hv; exact hepi hc
    · intro c h1 h2
      simp only [C16.gateW_trace] at h1 h2 ⊢
      rcases h.bv c h1 h2 with hb | hb
      · exact Or.inl hb
      · right
        by_cases hci : c = i
        · subst hci
          -- waiting and set: then the gate would have let it through
          have hel := hr1 hl c hb.2.2
          unfold Eng.gateGo at hg
          rw [hel, hb.2.1] at hg
          exact Bool.noConfusion hg
        · exact ⟨fun hh => by rcases hh with hh | hh; exact hb.1 hh; exact hci hh,
            by rw [hgs c hci]; exact hb.2.1, hb.2.2⟩
  · -- panicked
    intro _ hg hp
    rw [L.child_id] at hp ⊢
    refine ⟨fun hn => by simp at hn, ?_⟩
    intro o ho
    simp only [Option.some.injEq] at ho
    subst ho
    refine ⟨fun hpre => absurd hpre (L.panic_dead _), ?_, ?_, fun hh => by simp at hh⟩
    · intro c hc
      simp only [World.emits_cap, World.pollChild_cap, C16.gateW_cap]
      rw [C16.lastRes_emits_own _ _ (L.evs_panic e.s)] at hc
      have := lp_pollChild (Eng.gateW P e i) i (by simpa [hcap] using hi)
        (fun c hc => by simpa using h.lp c (by simpa using hc)) c hc
      simpa using this
    · rw [L.n_panic, c20_emits_own _ _ _ _ (L.evs_panic e.s), c20_pollChild]
      simpa using h.m20
  · -- polled
    intro _ hg hp
    rw [L.child_id] at hp ⊢
    have hel : P.eligible e.s i = true := by
      unfold Eng.gateGo at hg; simp only [Bool.and_eq_true] at hg; exact hg.1
    generalize hr : e.w.resOf i = r at hp ⊢
    have hevs := L.evs_handle e.s i r
    -- facts about the new trace
    have hT_ep : ∀ c, everPolled (((Eng.gateW P e i).pollChild i i).emits (P.handle e.s i r).evs).trace c
        = (decide (i = c) || everPolled e.w.trace c) := by
      intro c; rw [everPolled_emits_own _ _ hevs, everPolled_pollChild]; simp
    have hT_ps : ∀ c, polledSince (((Eng.gateW P e i).pollChild i i).emits (P.handle e.s i r).evs).trace c
        = (decide (i = c) || polledSince e.w.trace c) := by
      intro c; rw [polledSince_emits_own _ _ hevs, polledSince_pollChild]; simp
    have hT_lr : ∀ c, lastRes (((Eng.gateW P e i).pollChild i i).emits (P.handle e.s i r).evs).trace c
        = if i = c then some r else lastRes e.w.trace c := by
      intro c; rw [C16.lastRes_emits_own _ _ hevs, C16.lastRes_pollChild, C16.gateW_resOf, hr]; simp
    have hT_ab : atPollBegin (((Eng.gateW P e i).pollChild i i).emits (P.handle e.s i r).evs).trace
        = atPollBegin e.w.trace := by
      rw [atPollBegin_emits_own _ _ hevs, atPollBegin_pollChild]; simp
    have hT_m : holds_C20 true e.s.n (((Eng.gateW P e i).pollChild i i).emits (P.handle e.s i r).evs).trace
        = true := by
      rw [c20_emits_own _ _ _ _ hevs, c20_pollChild]; simpa using h.m20
    -- the readiness test of other slots only gets better
    have hS : ∀ c, c ≠ i → e.w.isSet c = true →
        ((((Eng.gateW P e i).pollChild i i).emits (P.handle e.s i r).evs).kop (P.handle e.s i r).kop).isSet c
          = true := by
      intro c hci hs
      have h1 : (Eng.gateW P e i).isSet c = true := by
        unfold Eng.gateW
        split
        · rw [World.isSet_clearReady_other _ _ _ hci]; exact hs
        · exact hs
      have h2 := World.isSet_pollChild_mono (Eng.gateW P e i) i i c h1
      have h3 : (((Eng.gateW P e i).pollChild i i).emits (P.handle e.s i r).evs).isSet c = true := h2
      cases hk : (P.handle e.s i r).kop with
      | nop => simpa [World.kop] using h3
      | arm j => simp only [World.kop]; exact World.isSet_setReady_mono _ _ _ h3
      | armAll =>
        simp only [World.kop]
        cases hm : e.w.mode with
        | direct => exact World.isSet_direct _ _ (by simp [hm])
        | std =>
          -- a set bit is below cap
          exact World.isSet_setAllReady_mono _ _ (by simpa using hhi hm c hs)
    have hLP : LP (Eng.applyH { e with w := (Eng.gateW P e i).pollChild i i } (P.handle e.s i r)) := by
      intro c hc
      simp only [Eng.applyH_w, World.kop_trace, World.kop_cap, World.emits_cap, World.pollChild_cap,
        C16.gateW_cap] at hc ⊢
      rw [hT_lr] at hc
      by_cases hic : i = c
      · subst hic; rw [hcap]; exact hi
      · simp only [hic, if_false] at hc; exact h.lp c hc
    have hLA : LA P (Eng.applyH { e with w := (Eng.gateW P e i).pollChild i i } (P.handle e.s i r)) := by
      intro hpre c hc hep
      simp only [Eng.applyH_w, World.kop_trace, Eng.applyH_s, L.n_handle] at hpre hc hep ⊢
      rw [hT_ep] at hep
      simp only [Bool.or_eq_false_iff, decide_eq_false_iff_not] at hep
      have hci : c ≠ i := fun hh => hep.1 hh.symm
      have := h.la hl c hc hep.2
      exact ⟨L.mono _ _ _ _ hci hpre this.1, hS c hci this.2⟩
    constructor
    · intro _
      refine ⟨hLA, hLP, ?_, ?_, by simpa [L.n_handle] using hT_m⟩
      · intro c hv hc
        simp only [Eng.applyH_w, World.kop_trace, Eng.applyH_s, L.n_handle] at hc ⊢
        rw [hT_ep]
        rcases hv with hv | hv
        · simp [h.av c hv hc]
        · subst hv; simp
      · intro c h1 h2
        simp only [Eng.applyH_w, World.kop_trace] at h1 h2 ⊢
        rw [hT_ab] at h1 h2
        rw [hT_ps, hT_lr]
        by_cases hic : i = c
        · subst hic; left; simp
        · rcases h.bv c h1 h2 with hb | hb
          · left; simp [hb]
          · right
            simp only [hic, if_false]
            exact ⟨fun hh => by rcases hh with hh | hh; exact hb.1 hh; exact hic hh.symm,
              hS c (fun hh => hic hh.symm) hb.2.1, hb.2.2⟩
    · intro o ho
      refine ⟨hLA, hLP, by simpa [L.n_handle] using hT_m, fun hh => ?_⟩
      subst hh; exact absurd ho (C.no_pend_exit _ _ _).1

end C20
end Fc

namespace Fc
namespace C20
open Mon

variable {P : Policy Fix}

theorem b20_of_x20 (o : Outcome) (e : Eng Fix) (h : X20 P o e) : B20 P (e.emit (.pollEnd o)) := by
  refine ⟨?_, ?_, ?_⟩
  · intro hp c hc hep
    exact h.la hp c hc (by simpa [everPolled] using hep)
  · intro c hc; exact h.lp c (by simpa [lastRes] using hc)
  · simp only [Eng.emit_w, World.emit_trace, Eng.emit_s]
    by_cases ho : o = .pending
    · subst ho; simp [holds_C20, h.m20, h.pend rfl]
    · rw [c20_skip _ _ _ _ (by simpa using ho)]; exact h.m20

/-- after the loop: the code after it decides -/
theorem x20_finish (C : Conc P) (ord : List Nat) (e : Eng Fix) (o : Outcome)
    (h : P20 P e (fun c => c ∈ ord)) (hlive : P.pre e.s = none)
    (hord : ∀ c, c < e.s.n → c ∈ ord) (hcap : e.w.cap = e.s.n)
    (hlt : ∀ c, e.w.isSet c = true → lastRes e.w.trace c = some .pend → c < e.s.n) :
    X20 P o (e.applyH (P.finish e.s)) := by
  have L := C.law
  have hevs := L.evs_finish e.s
  refine ⟨?_, ?_, ?_, ?_⟩
  · intro hpre c hc hep
    simp only [Eng.applyH_s, Eng.applyH_w, World.kop_trace, L.n_finish] at hpre hc hep ⊢
    rw [everPolled_emits_own _ _ hevs] at hep
    have := h.la hlive c hc hep
    rw [L.finish_elig _ _ hpre, L.finish_kop]
    exact ⟨this.1, this.2⟩
  · intro c hc
    simp only [Eng.applyH_w, World.kop_trace, World.kop_cap, World.emits_cap] at hc ⊢
    rw [C16.lastRes_emits_own _ _ hevs] at hc
    exact h.lp c hc
  · simp only [Eng.applyH_s, Eng.applyH_w, World.kop_trace, L.n_finish]
    rw [c20_emits_own _ _ _ _ hevs]; exact h.m20
  · intro _
    have hc := c20At_of_complete h hord hcap hlt
    simp only [Eng.applyH_s, Eng.applyH_w, World.kop_trace, L.n_finish]
    -- the observations are unchanged by the ownership events of `finish`
    unfold c20At at hc ⊢
    simp only [List.all_eq_true, List.mem_range] at hc ⊢
    intro c hcn
    have := hc c hcn
    rw [everPolled_emits_own _ _ hevs, polledSince_emits_own _ _ hevs, atPollBegin_emits_own _ _ hevs]
    simpa [owned] using this

theorem p20_start (L : Lawful P) (e : Eng Fix) (V : Nat → Prop) (h : P20 P e V)
    (hl : P.pre e.s = none) : P20 P { e with s := P.start e.s } V := by
  refine ⟨?_, h.lp, ?_, h.bv, by simpa [L.n_start] using h.m20⟩
  · intro _ c hc hep
    simp only [L.n_start] at hc
    simp only [L.start_elig]
    exact h.la hl c hc hep
  · intro c hv hc
    simp only [L.n_start] at hc
    exact h.av c hv hc

/-- the state right after `pollBegin` + `set_waker` -/
theorem p20_begin (e : Eng Fix) (wid : Nat) (h : B20 P e)
    (hinit : ∀ c, lastRes e.w.trace c = some .pend → owes e.w.trace c = true → e.w.isSet c = true) :
    P20 P { e with w := (e.w.emit (.pollBegin wid)).setWaker wid } (fun _ => False) := by
  refine ⟨?_, ?_, fun c hv => absurd hv (by simp), ?_, ?_⟩
  · intro hp c hc hep
    exact h.la hp c hc (by simpa [everPolled] using hep)
  · intro c hc; exact h.lp c (by simpa [lastRes] using hc)
  · intro c h1 h2
    simp only [World.setWaker_trace, World.emit_trace, atPollBegin] at h1 h2
    right
    exact ⟨by simp, hinit c h1 h2, by simpa [lastRes] using h1⟩
  · simp only [World.setWaker_trace, World.emit_trace]
    rw [c20_skip _ _ _ _ (by simp)]; exact h.m20

theorem b20_pre (e : Eng Fix) (wid : Nat) (o : Outcome) (ho : o ≠ .pending) (h : B20 P e) :
    B20 P ((e.emit (.pollBegin wid)).emit (.pollEnd o)) := by
  refine ⟨?_, ?_, ?_⟩
  · intro hp c hc hep
    exact h.la hp c hc (by simpa [everPolled] using hep)
  · intro c hc; exact h.lp c (by simpa [lastRes] using hc)
  · simp only [Eng.emit_w, World.emit_trace, Eng.emit_s]
    rw [c20_skip _ _ _ _ (by simpa using ho), c20_skip _ _ _ _ (by simp)]; exact h.m20

theorem b20_fire (e : Eng Fix) (c a : Nat) (h : B20 P e) : B20 P (e.fire c a) := by
  refine ⟨?_, ?_, ?_⟩
  · intro hp j hj hep
    simp only [Eng.fire_w, Eng.fire_s, everPolled_fire] at hp hj hep ⊢
    have := h.la hp j hj hep
    exact ⟨this.1, World.isSet_fire_mono _ _ _ _ this.2⟩
  · intro j hj
    simp only [Eng.fire_w, C16.lastRes_fire, World.fire_cap] at hj ⊢
    exact h.lp j hj
  · simp only [Eng.fire_w, Eng.fire_s, c20_fire]; exact h.m20

theorem b20_drop (L : Lawful P) (e : Eng Fix) (h : B20 P e) : B20 P (Eng.drop P e) := by
  unfold Eng.drop
  have hevs := L.evs_drop e.s
  refine ⟨fun hp => absurd hp (L.drop_dead _), ?_, ?_⟩
  · intro c hc
    simp only [World.emit_trace, World.emits_trace, World.emit_cap, World.emits_cap] at hc ⊢
    have h1 : lastRes (Ev.dropEnd :: ((P.dropEvs e.s).reverse ++ Ev.dropBegin :: e.w.trace)) c
        = lastRes e.w.trace c := by
      simp only [lastRes]
      rw [skip_seg (fun t => lastRes t c) isOwnEv (fun e t h => lastRes_own c e t h) _
        (fun e' he' => hevs e' (List.mem_reverse.mp he'))]
      simp [lastRes]
    rw [h1] at hc
    exact h.lp c hc
  · simp only [World.emit_trace, World.emits_trace, L.n_drop]
    rw [c20_skip _ _ _ _ (by simp),
      c20_seg _ _ _ _ (fun e' he' => ownEv_ne_pe e' (hevs e' (List.mem_reverse.mp he'))),
      c20_skip _ _ _ _ (by simp)]
    exact h.m20

theorem b20_init (f : Fam) (C : Conc f.policy) (k : Nat) (scripts : Nat → List Step) (m : Mode) :
    B20 f.policy (FEng.init f m k scripts) := by
  refine ⟨?_, ?_, rfl⟩
  · intro _ c hc _
    refine ⟨C.elig_init _ _ _, ?_⟩
    simp only [FEng.init, World.init, World.isSet]
    cases f.modeOf m <;> simp
    exact hc
  · intro c hc; simp [FEng.init, World.init, lastRes] at hc

end C20
end Fc
