/-
  FcLemmas/KTieRaceOkAMain.lean — `[Fut; N]::race_ok()`: what the statement says about the returned combinator and
  environment (`Post`), and how it follows from the relation the loop maintains: for `Pending` / `Ready(Ok)` the returned
  combinator is the one the loop left (`rk_post_of_rel`); for the aggregate the code after the loop moves the stored errors
  out (`vec_assume_init` of a full row = the model's `outs`) and resets the tables (`rk_post_done`).
-/
import FcLemmas.KTieRaceOkAModel

set_option linter.unusedSimpArgs false
set_option linter.unusedVariables false

namespace Fc
open Rs Src

namespace TieRaceOkA
open RaceOkA TieDirect TieLoop

local macro "unroles" : tactic =>
  `(tactic| try simp only [RaceOk.roleKids, RaceOk.roleItems, RaceOk.roleStates, RaceOk.roleCount] at *)

/-- the conclusion of `poll_tie_statement` (`M` = the model after the poll), plus what the next poll needs again -/
def Post (N : Nat) (b M : Eng Fix) (g' : RaceOk) (env' : World) (ret : Ret) : Prop :=
  ((∀ es, ret ≠ .ready (.err es)) → WfK N g') ∧
  (absK g' b).s.n = M.s.n ∧
  (absK g' b).s.cnt = M.s.cnt ∧
  (∀ i, i < N → (absK g' b).s.st i = M.s.st i) ∧
  ((∀ es, ret ≠ .ready (.err es)) → (absK g' b).s.out = M.s.out) ∧
  ((∃ es, ret = .ready (.err es)) → ∀ i, (absK g' b).s.out i = none) ∧
  (M.s.dead = true ↔ ret ≠ .pending) ∧
  env'.scripts = M.w.scripts ∧
  env'.handed = M.w.handed ∧
  M.w.trace = .pollEnd (outcomeOfRaceOk ret) :: env'.trace ∧
  -- what the next call needs again
  (FutStepsF env' ∧ FutStepsF M.w ∧ g'.roleKids.len = N) ∧
  -- the aggregate leaves the combinator in the state `drop_failed_tie_statement` is about
  ((∃ es, ret = .ready (.err es)) → WfFailed N g')

/-- `Pending` / `Ready(Ok)`: the returned combinator is the one the loop left -/
theorem rk_post_of_rel {N : Nat} (b X : Eng Fix) (g' : RaceOk) (env' : World) (ret : Ret)
    (hw : X.w = env') (hn : X.s.n = N) (hst : X.s.st = fun i => TiePS.abs (g'.roleStates.get i))
    (hout : X.s.out = g'.roleItems.get) (hcnt : X.s.cnt = g'.roleCount) (hwf : WfK N g') (hf : FutSteps env')
    (hno : ∀ es, ret ≠ .ready (.err es)) (hdead : X.s.dead = true ↔ ret ≠ .pending) :
    Post N b (X.emit (.pollEnd (outcomeOfRaceOk ret))) g' env' ret := by
  subst hw
  refine ⟨fun _ => hwf, ?_, ?_, ?_, ?_, fun ⟨es, h⟩ => absurd h (hno es), hdead, rfl, rfl, rfl, ⟨hf, hf, hwf.kn⟩,
    fun ⟨es, h⟩ => absurd h (hno es)⟩
  · simp only [absK, Eng.emit, hn, hwf.kn]
  · simp only [absK, Eng.emit, hcnt]
  · intro i _
    simp only [absK, Eng.emit, hst]
  · intro _
    simp only [absK, Eng.emit, hout]

/-- the aggregate: the code after the loop on a combinator whose `completed` counter reached `N` — every slot holds an
    error, `vec_assume_init` reads them in order (the model's `outs`), the tables are reset -/
theorem rk_post_done {N : Nat} (b X : Eng Fix) (g1 : RaceOk) (env' : World)
    (hw : X.w = env') (hn : X.s.n = N) (hout : X.s.out = g1.roleItems.get) (hcnt : X.s.cnt = g1.roleCount)
    (hwf : WfK N g1) (hf : FutSteps env') (hz : g1.roleCount = N) :
    Rs.OutVec.assumeInit g1.roleItems = some X.s.outs ∧
    ∀ g' : RaceOk, g'.roleKids = g1.roleKids → g'.roleCount = g1.roleCount →
      g'.roleStates = Rs.PVec.replicate g1.roleStates.len PS.PollState.none_ → g'.roleItems = Rs.OutVec.uninit N →
      Post N b (({ w := X.w, s := { X.s with dead := true, st := fun _ => .none } } : Eng Fix).emit
        (.pollEnd (.ready false X.s.outs))) g' env' (.ready (.err X.s.outs)) := by
  subst hw
  obtain ⟨hkn, hsl, hic, hpc, hrs⟩ := hwf
  have hall := rk_filter_full _ N (by rw [← hpc]; exact hz)
  have hready : ∀ i, i < N → g1.roleStates.get i = PS.PollState.ready := by
    intro i hi
    simpa using hall i hi
  refine ⟨?_, ?_⟩
  · unfold Rs.OutVec.assumeInit
    rw [TieTryJoinV.tj_mapM_some]
    · simp only [Fix.outs, hn, hic, hout]
    · intro i hi
      have hi' : i < N := by rw [← hic]; exact List.mem_range.mp hi
      rcases hrs i hi' with ⟨h, _⟩ | ⟨_, h⟩
      · rw [hready i hi'] at h; cases h
      · exact h
  · intro g' e1 e2 e3 e4
    refine ⟨fun h => absurd rfl (h _), ?_, ?_, ?_, fun h => absurd rfl (h _), ?_, ?_, rfl, rfl, rfl,
      ⟨hf, hf, (congrArg Rs.Kids.len e1).trans hkn⟩, fun _ => ⟨(congrArg Rs.Kids.len e1).trans hkn, ?_, ?_, ?_⟩⟩
    · simp only [absK, Eng.emit, hn, e1, hkn]
    · simp only [absK, Eng.emit, hcnt, e2]
    · intro i _
      simp only [absK, Eng.emit, e3, Rs.PVec.replicate, TiePS.abs]
    · intro _ i
      simp only [absK, e4, Rs.OutVec.uninit]
    · simp [Eng.emit]
    · rw [e3]; exact hsl
    · rw [e4]; rfl
    · intro i _; rw [e3]; rfl

end TieRaceOkA
end Fc
