/-
  FcLemmas/NestC02Virt.lean — a boundary invariant carried by ANY `Sim` instance, packaged for one
  engine instance (`SI`), and its version for a World whose scripts are of the right kind only for
  the children `c < n` the instance owns (`VSI`, see FcLemmas/NestC03Virt.lean); instantiated with
  the C02 invariants of the 13 fixed-children families (`VSI.init2`).
-/
import FcLemmas.NestC03Virt
import FcLemmas.C02aSim
import FcLemmas.C02bSim
set_option linter.unusedSimpArgs false
set_option linter.unusedVariables false

namespace Fc
open Mon

/-- some `Sim`-carried boundary invariant `I` with the property `R I` holds of the instance -/
def SI (P : Policy Fix) (m : Mode) (K : Nat → Res → Prop) (R : (Fix → List Ev → Prop) → Prop)
    (e : Eng Fix) : Prop :=
  ∃ (I : Fix → List Ev → Prop) (J : Fix → List Ev → List Nat → Prop),
    Sim P m K I J ∧ R I ∧ e.w.mode = m ∧ ScriptsOk K e.w ∧ I e.s e.w.trace

namespace SI
variable {P : Policy Fix} {m : Mode} {K : Nat → Res → Prop} {R : (Fix → List Ev → Prop) → Prop}

theorem read {e : Eng Fix} (h : SI P m K R e) : ∃ I, R I ∧ I e.s e.w.trace := by
  obtain ⟨I, J, _, hR, _, _, hI⟩ := h; exact ⟨I, hR, hI⟩

theorem scriptsOk {e : Eng Fix} (h : SI P m K R e) : ScriptsOk K e.w := by
  obtain ⟨I, J, _, _, _, hk, _⟩ := h; exact hk

theorem poll {e : Eng Fix} (h : SI P m K R e) (wid : Nat) : SI P m K R (Eng.poll P e wid) := by
  obtain ⟨I, J, S, hR, hm, hk, hI⟩ := h
  have := Sim.pollT S e wid hm hk hI
  exact ⟨I, J, S, hR, this.1, this.2.1, this.2.2⟩

theorem fire {e : Eng Fix} (h : SI P m K R e) (c a : Nat) : SI P m K R (e.fire c a) := by
  obtain ⟨I, J, S, hR, hm, hk, hI⟩ := h
  have := Sim.fireT S e c a hm hk hI
  exact ⟨I, J, S, hR, this.1, this.2.1, this.2.2⟩

theorem drop {e : Eng Fix} (h : SI P m K R e) : SI P m K R (Eng.drop P e) := by
  obtain ⟨I, J, S, hR, hm, hk, hI⟩ := h
  have := Sim.dropT S e hm hk hI
  exact ⟨I, J, S, hR, this.1, this.2.1, this.2.2⟩

theorem scripts {e : Eng Fix} (h : SI P m K R e) (f : Nat → List Step)
    (hf : ∀ c st, st ∈ f c → K c st.res) : SI P m K R (Nest.setScripts e f) := by
  obtain ⟨I, J, S, hR, hm, hk, hI⟩ := h
  exact ⟨I, J, S, hR, hm, ⟨hk.pend, hf⟩, hI⟩

end SI

structure VSI (P : Policy Fix) (m : Mode) (K : Nat → Res → Prop)
    (R : (Fix → List Ev → Prop) → Prop) (n : Nat) (e : Eng Fix) : Prop where
  sn : e.s.n = n
  vi : ∃ f, (∀ c, c < n → f c = e.w.scripts c) ∧ SI P m K R (Nest.setScripts e f)

namespace VSI
variable {P : Policy Fix} {m : Mode} {K : Nat → Res → Prop} {R : (Fix → List Ev → Prop) → Prop}
  {n : Nat}

theorem read {e : Eng Fix} (h : VSI P m K R n e) : ∃ I, R I ∧ I e.s e.w.trace := by
  obtain ⟨f, _, hd⟩ := h.vi; exact hd.read

theorem scriptsOk {e : Eng Fix} (h : VSI P m K R n e) (c : Nat) (hc : c < n) (st : Step)
    (hm : st ∈ e.w.scripts c) : K c st.res := by
  obtain ⟨f, hf, hd⟩ := h.vi
  exact hd.scriptsOk.mem c st (by rw [Nest.setScripts_scripts, hf c hc]; exact hm)

theorem poll {e : Eng Fix} (h : VSI P m K R n e) (L : Lawful P) (hnd : ∀ s, (P.order s).Nodup)
    (wid : Nat) : VSI P m K R n (Eng.poll P e wid) := by
  obtain ⟨f, hf, hd⟩ := h.vi
  have hsn := h.sn
  obtain ⟨f', he, hf'⟩ := Nest.poll_ss_lt L hnd e f wid (by rw [hsn]; exact hf)
  refine ⟨by rw [Eng.poll_n L, hsn], f', by rw [← hsn]; exact hf', ?_⟩
  rw [← he]; exact hd.poll wid

theorem fire {e : Eng Fix} (h : VSI P m K R n e) (c a : Nat) : VSI P m K R n (e.fire c a) := by
  obtain ⟨f, hf, hd⟩ := h.vi
  refine ⟨h.sn, f, by simpa using hf, ?_⟩
  rw [← Nest.setScripts_fire]; exact hd.fire c a

theorem wfires {e : Eng Fix} (h : VSI P m K R n e) (fs : List (Nat × Nat)) :
    VSI P m K R n { e with w := e.w.fires fs } := by
  induction fs generalizing e with
  | nil => exact h
  | cons p fs ih => exact ih (h.fire p.1 p.2)

theorem drop {e : Eng Fix} (h : VSI P m K R n e) (L : Lawful P) : VSI P m K R n (Eng.drop P e) := by
  obtain ⟨f, hf, hd⟩ := h.vi
  refine ⟨by rw [← h.sn]; exact L.n_drop e.s, f, hf, ?_⟩
  rw [← Nest.setScripts_drop]; exact hd.drop

theorem scripts {e : Eng Fix} (h : VSI P m K R n e) (g : Nat → List Step)
    (hg : ∀ c, c < n → ∀ st, st ∈ g c → K c st.res) : VSI P m K R n (Nest.setScripts e g) := by
  obtain ⟨f, hf, hd⟩ := h.vi
  refine ⟨h.sn, fun c => if c < n then g c else [], fun c hc => by simp [hc], ?_⟩
  have := hd.scripts (fun c => if c < n then g c else []) (by
    intro c st hm
    by_cases hc : c < n
    · simp only [hc, if_true] at hm; exact hg c hc st hm
    · simp [hc] at hm)
  exact this

end VSI

/-! ### the C02 invariants of the families -/

/-- what the C02 invariants are good for: the monitor, for a history with at most one drop -/
def R2 (n : Nat) (I : Fix → List Ev → Prop) : Prop :=
  ∀ s t, I s t → C02.cntDB t ≤ 1 → C02b.nd t ≤ 1 → holds_C02 true n t = true

theorem r2_a (own : Bool) (cm : Option Bool) (n : Nat) : R2 n (C02.Inv own cm n) :=
  fun _ _ h h1 _ => C02.holds_of_inv h (fun _ => h1)

theorem r2_b (ws : Bool) (n : Nat) : R2 n (C02b.Inv ws n) :=
  fun _ _ h _ h1 => C02b.holds_of_inv h h1

theorem VSI.init2 (f : Fam) (hg : f.isGroup = false) (md : Mode) (n : Nat)
    (scripts : Nat → List Step)
    (hk : ∀ ch, ch < n → ∀ st, st ∈ scripts ch → st.res.fits (f.childIsStream ch) = true)
    (hw : (f = .waitF ∨ f = .waitS) → n = 2) :
    VSI f.policy (f.modeOf md) (Sim.kindRes f) (R2 n) n (FEng.init f md n scripts) := by
  refine ⟨rfl, fun c => if c < n then scripts c else [],
    fun c hc => by simp [hc, FEng.init, World.init], ?_⟩
  have hs : ScriptsOk (Sim.kindRes f) (Nest.setScripts (FEng.init f md n scripts)
      (fun c => if c < n then scripts c else [])).w := by
    refine ⟨fun _ => rfl, fun ch st hm => ?_⟩
    by_cases hc : ch < n
    · simp only [Nest.setScripts_scripts, hc, if_true] at hm; exact hk ch hc st hm
    · simp [hc] at hm
  have ia : ∀ (own : Bool) (cm : Option Bool),
      (∀ b, cm = some b → f.initCnt n = if b = true then n else 0) →
      C02.Inv own cm n (FEng.init f md n scripts).s [] :=
    fun own cm hc => Or.inl (C02.pre_init own cm n _ hc)
  cases f <;> simp only [Fam.policy]
  · exact ⟨_, _, C02.sim_joinSlice n _ _ (fun _ _ h => h), r2_a _ _ n, rfl, hs,
      ia false (some true) (by intro b hb; cases hb; rfl)⟩
  · exact ⟨_, _, C02.sim_joinTuple n _ _ (fun _ _ h => h), r2_a _ _ n, rfl, hs,
      ia false (some false) (by intro b hb; cases hb; rfl)⟩
  · exact ⟨_, _, C02.sim_tryJoinSlice n _ _ (fun _ _ h => h), r2_a _ _ n, rfl, hs,
      ia false (some true) (by intro b hb; cases hb; rfl)⟩
  · exact ⟨_, _, C02.sim_tryJoinTuple n _ _ (fun _ _ h => h), r2_a _ _ n, rfl, hs,
      ia false (some false) (by intro b hb; cases hb; rfl)⟩
  · exact ⟨_, _, C02b.sim_race n _, r2_b _ n, rfl, hs, C02b.inv_init false n _⟩
  · exact ⟨_, _, C02.sim_raceOk false n _ _ (fun _ _ h => h), r2_a _ _ n, rfl, hs,
      ia true (some false) (by intro b hb; cases hb; rfl)⟩
  · exact ⟨_, _, C02.sim_raceOkVec n _ _ (fun _ _ h => h), r2_a _ _ n, rfl, hs,
      ia false (some false) (by intro b hb; cases hb; rfl)⟩
  · exact ⟨_, _, C02.sim_raceOk true n _ _ (fun _ _ h => h), r2_a _ _ n, rfl, hs,
      ia true (some false) (by intro b hb; cases hb; rfl)⟩
  · exact ⟨_, _, C02b.sim_merge n _, r2_b _ n, rfl, hs, C02b.inv_init false n _⟩
  · exact ⟨_, _, C02.sim_zip n _ _ (fun _ _ h => h), r2_a _ _ n, rfl, hs,
      ia true none (by intro b hb; cases hb)⟩
  · exact ⟨_, _, C02b.sim_chain n _, r2_b _ n, rfl, hs, C02b.inv_init false n _⟩
  · have h2 := hw (Or.inl rfl); subst h2
    exact ⟨_, _, C02b.sim_waitF _, r2_b _ 2, rfl, hs, C02b.inv_init false 2 _⟩
  · have h2 := hw (Or.inr rfl); subst h2
    exact ⟨_, _, C02b.sim_waitS, r2_b _ 2, rfl, hs, C02b.inv_init true 2 _⟩
  · simp [Fam.isGroup] at hg
  · simp [Fam.isGroup] at hg

end Fc
