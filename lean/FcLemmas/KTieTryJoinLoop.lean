/-
  FcLemmas/KTieTryJoinLoop.lean — `Vec<Fut>::try_join()`: the model side (`Eng.visit tryJoinSlice` in the cases the
  translated loop body distinguishes, `Eng.poll` / `Eng.close` unfolded), the relation `Rel` between a translated
  `TryJoin` + environment and a model state that the loop of `poll` maintains, the bookkeeping invariant `Inv`
  (`pending` counts the `Pending` slots, a `Ready` slot holds a value), what one iteration has to do (`StepSpec`: it is
  one `Eng.visit tryJoinSlice`), and the loop (`Rs.forCtl` over the slots = `Eng.scan tryJoinSlice`).
-/
import FcProps.KTieTryJoin
import FcLemmas.KTieMergeEnv

set_option linter.unusedSimpArgs false
set_option linter.unusedVariables false

namespace Fc
open Rs Src

theorem FutStepsF.tj_resOf {w : World} (h : FutStepsF w) (c : Nat) :
    w.resOf c = .pend ∨ ∃ ok v, w.resOf c = .ready ok v := by
  unfold World.resOf World.stepOf
  cases hs : w.scripts c with
  | nil => exact Or.inl rfl
  | cons s l => exact h c s (by rw [hs]; exact List.mem_cons_self ..)

theorem FutStepsF.tj_tail {w w' : World} (h : FutStepsF w) (c : Nat)
    (hs : w'.scripts = upd w.scripts c (w.scripts c).tail) : FutStepsF w' := by
  intro c' st hm
  rw [hs] at hm
  by_cases hc : c' = c
  · subst hc
    simp at hm
    exact h c' st (List.mem_of_mem_tail hm)
  · simp [upd, hc] at hm
    exact h c' st hm

namespace TieTryJoinV
open TryJoinV

/-! ### the model: one `Eng.visit tryJoinSlice` -/

theorem tj_visit_notPending (e : Eng Fix) (i : Nat) (h : e.s.st i ≠ .pending) :
    Eng.visit tryJoinSlice e i = (e, none) := by
  simp [Eng.visit, tryJoinSlice, h, Eng.gateGo, Eng.gateW]

theorem tj_visit_clear (e : Eng Fix) (i : Nat) (h : e.s.st i = .pending) (h2 : e.w.isSet i = false) :
    Eng.visit tryJoinSlice e i = ({ e with w := e.w.clearReady i }, none) := by
  simp [Eng.visit, tryJoinSlice, h, h2, Eng.gateGo, Eng.gateW]

theorem tj_visit_pend (e : Eng Fix) (i : Nat) (h : e.s.st i = .pending) (h2 : e.w.isSet i = true)
    (h4 : e.w.resOf i = .pend) :
    Eng.visit tryJoinSlice e i = ({ e with w := (e.w.clearReady i).pollChild i i }, none) := by
  simp [Eng.visit, tryJoinSlice, h, h2, h4, Eng.gateGo, Eng.gateW, Eng.applyH, Fix.keep, World.kop]

theorem tj_visit_ok (e : Eng Fix) (i v : Nat) (h : e.s.st i = .pending) (h2 : e.w.isSet i = true)
    (h4 : e.w.resOf i = .ready true v) :
    Eng.visit tryJoinSlice e i =
      ({ w := ((e.w.clearReady i).pollChild i i).emit (.childDropped i),
         s := { e.s with st := upd e.s.st i .ready, out := upd e.s.out i (some v), cnt := e.s.cnt - 1 } }, none) := by
  simp [Eng.visit, tryJoinSlice, h, h2, h4, Eng.gateGo, Eng.gateW, Eng.applyH, Fix.keep, World.kop, World.emits,
    World.emit]

theorem tj_visit_err (e : Eng Fix) (i v : Nat) (h : e.s.st i = .pending) (h2 : e.w.isSet i = true)
    (h4 : e.w.resOf i = .ready false v) :
    Eng.visit tryJoinSlice e i =
      ({ w := ((e.w.clearReady i).pollChild i i).emit (.childDropped i),
         s := { e.s with st := upd e.s.st i .none, cnt := e.s.cnt - 1, dead := true } },
       some (.ready false [v])) := by
  simp [Eng.visit, tryJoinSlice, h, h2, h4, Eng.gateGo, Eng.gateW, Eng.applyH, Fix.keep, World.kop, World.emits,
    World.emit]

/-- `Eng.poll tryJoinSlice` on a live combinator when the scan is entered -/
theorem tj_poll_scan (e : Eng Fix) (w : Nat) (hd : e.s.dead = false)
    (h : e.s.cnt = 0 ∨ ((e.w.emit (.pollBegin w)).setWaker w).anyReady = true) :
    Eng.poll tryJoinSlice e w = Eng.close tryJoinSlice (Eng.scan tryJoinSlice (List.range e.s.n)
      { e with w := (e.w.emit (.pollBegin w)).setWaker w }) := by
  rcases h with h | h <;> simp [Eng.poll, Eng.body, tryJoinSlice, hd, h, Fix.misuseIfDead]

/-- … and when the pre-check returns `Pending` at once -/
theorem tj_poll_early (e : Eng Fix) (w : Nat) (hd : e.s.dead = false)
    (h : e.s.cnt ≠ 0) (h2 : ((e.w.emit (.pollBegin w)).setWaker w).anyReady = false) :
    Eng.poll tryJoinSlice e w =
      ({ e with w := (e.w.emit (.pollBegin w)).setWaker w } : Eng Fix).emit (.pollEnd .pending) := by
  simp [Eng.poll, Eng.body, tryJoinSlice, hd, h, h2, Fix.misuseIfDead]

theorem tj_close_some (X : Eng Fix × Option Outcome) (o : Outcome) (h : X.2 = some o) :
    Eng.close tryJoinSlice X = X.1.emit (.pollEnd o) := by
  simp [Eng.close, h]

theorem tj_close_pending (X : Eng Fix × Option Outcome) (h : X.2 = none) (hc : X.1.s.cnt ≠ 0) :
    Eng.close tryJoinSlice X = X.1.emit (.pollEnd .pending) := by
  simp [Eng.close, h, tryJoinSlice, hc, Eng.applyH, World.kop]

theorem tj_close_done (X : Eng Fix × Option Outcome) (h : X.2 = none) (hc : X.1.s.cnt = 0) :
    Eng.close tryJoinSlice X =
      ({ w := X.1.w, s := { X.1.s with dead := true, st := fun _ => .none } } : Eng Fix).emit
        (.pollEnd (.ready true X.1.s.outs)) := by
  simp [Eng.close, h, tryJoinSlice, hc, Eng.applyH, World.kop]

/-! ### the relation the loop maintains -/

/-- the translated combinator `g` with the environment `env` is read as the model state `e` -/
structure Rel (n o : Nat) (e : Eng Fix) (g : TryJoin) (env : World) : Prop where
  ew : e.w = TieVec.abs g.roleWakers.readiness env
  en : e.s.n = n
  kids : g.roleKids.len = n
  st : e.s.st = fun i => TiePS.abs (g.roleStates.get i)
  out : e.s.out = g.roleItems.get
  cnt : e.s.cnt = g.roleCount
  off : e.s.off = o
  dead : e.s.dead = g.roleDone
  rd : TieVec.Wf n g.roleWakers.readiness
  nw : g.roleWakers.nwakers = n
  sl : g.roleStates.len = n
  ic : g.roleItems.cap = n
  par : g.roleWakers.readiness.roleParent ≠ none
  hin : HandedIn n env
  sok : FutStepsF env

/-- the bookkeeping of a live try_join (the last two clauses of `WfT`) -/
structure Inv (n : Nat) (g : TryJoin) : Prop where
  pc : g.roleCount = ((List.range n).filter (fun i => g.roleStates.get i = PS.PollState.pending)).length
  rs : ∀ i, i < n → (g.roleStates.get i = PS.PollState.pending ∨
        (g.roleStates.get i = PS.PollState.ready ∧ ∃ v, g.roleItems.get i = some v))

abbrev Ret := Rs.Poll (Rs.Result (List Nat))
abbrev Body := TryJoin × World → Nat → Option ((TryJoin × World) × Rs.Ctl Ret)

/-- one iteration of the loop body is one `Eng.visit tryJoinSlice`; it either goes on (bookkeeping intact) or returns
    the error of the child it polled -/
def StepSpec (n o : Nat) (F : Body) : Prop :=
  ∀ (e : Eng Fix) (g : TryJoin) (env : World) (i : Nat), Rel n o e g env → Inv n g → i < n →
    ∃ g' env' c, F (g, env) i = some ((g', env'), c) ∧ Rel n o (Eng.visit tryJoinSlice e i).1 g' env' ∧
      ((c = .next ∧ (Eng.visit tryJoinSlice e i).2 = none ∧ Inv n g' ∧ g'.roleDone = g.roleDone) ∨
       (∃ v, c = .ret (.ready (.err v)) ∧ (Eng.visit tryJoinSlice e i).2 = some (.ready false [v])))

/-- the loop over a list of slots is `Eng.scan tryJoinSlice` -/
theorem tj_loop (n o : Nat) (F : Body) (hF : StepSpec n o F) (l : List Nat) :
    ∀ (e : Eng Fix) (g : TryJoin) (env : World), Rel n o e g env → Inv n g → (∀ i ∈ l, i < n) →
    ∃ g' env' r, Rs.forCtl l (g, env) F = some ((g', env'), r) ∧ Rel n o (Eng.scan tryJoinSlice l e).1 g' env' ∧
      ((r = none ∧ (Eng.scan tryJoinSlice l e).2 = none ∧ Inv n g' ∧ g'.roleDone = g.roleDone) ∨
       (∃ v, r = some (.ready (.err v)) ∧ (Eng.scan tryJoinSlice l e).2 = some (.ready false [v]))) := by
  induction l with
  | nil =>
    intro e g env hR hI _
    exact ⟨g, env, none, rfl, hR, Or.inl ⟨rfl, rfl, hI, rfl⟩⟩
  | cons i l ih =>
    intro e g env hR hI hl
    obtain ⟨g1, env1, c, h1, hR1, hcase⟩ := hF e g env i hR hI (hl i (List.mem_cons_self ..))
    rcases hcase with ⟨rfl, hv, hI1, hd1⟩ | ⟨v, rfl, hv⟩
    · obtain ⟨g2, env2, r, h2, hR2, hcase2⟩ := ih (Eng.visit tryJoinSlice e i).1 g1 env1 hR1 hI1
        (fun j hj => hl j (List.mem_cons_of_mem _ hj))
      refine ⟨g2, env2, r, ?_, ?_, ?_⟩
      · simp only [Rs.forCtl, h1, h2]
      · simp only [Eng.scan, hv]; exact hR2
      · simp only [Eng.scan, hv]
        rcases hcase2 with ⟨a, b, c, d⟩ | h
        · exact Or.inl ⟨a, b, c, d.trans hd1⟩
        · exact Or.inr h
    · refine ⟨g1, env1, some (.ready (.err v)), ?_, ?_, Or.inr ⟨v, rfl, ?_⟩⟩
      · simp only [Rs.forCtl, h1]
      · simp only [Eng.scan, hv]; exact hR1
      · simp only [Eng.scan, hv]

/-- the loop followed by the code after it (`K`): it is enough to run `K` on what `Eng.scan tryJoinSlice` describes -/
theorem tj_loop_bind (n o : Nat) (F : Body) (hF : StepSpec n o F) (l : List Nat) (e : Eng Fix) (g : TryJoin)
    (env : World) (hR : Rel n o e g env) (hI : Inv n g) (hl : ∀ i ∈ l, i < n)
    (K : (TryJoin × World) × Option Ret → Option (TryJoin × World × Ret))
    (Ψ : TryJoin → World → Ret → Prop)
    (hK : ∀ g' env' r, Rel n o (Eng.scan tryJoinSlice l e).1 g' env' →
      ((r = none ∧ (Eng.scan tryJoinSlice l e).2 = none ∧ Inv n g' ∧ g'.roleDone = g.roleDone) ∨
       (∃ v, r = some (.ready (.err v)) ∧ (Eng.scan tryJoinSlice l e).2 = some (.ready false [v]))) →
      ∃ a b c, K ((g', env'), r) = some (a, b, c) ∧ Ψ a b c) :
    ∃ a b c, (Rs.forCtl l (g, env) F).bind K = some (a, b, c) ∧ Ψ a b c := by
  obtain ⟨g', env', r, h1, hR', hcase⟩ := tj_loop n o F hF l e g env hR hI hl
  rw [h1, Option.bind_some]
  exact hK g' env' r hR' hcase

end TieTryJoinV
end Fc
