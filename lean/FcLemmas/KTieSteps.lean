/-
  FcLemmas/KTieSteps.lean — facts about well-behaved scripted children (`StreamStepsF`) used by several tie proofs.
-/
import FcProps.KTieCore
import FcLemmas.World

set_option linter.unusedSimpArgs false
set_option linter.unusedVariables false

namespace Fc
open Rs

theorem StreamStepsF.resOf {w : World} (h : StreamStepsF w) (c : Nat) :
    w.resOf c = .pend ∨ w.resOf c = .fin ∨ ∃ v, w.resOf c = .item v := by
  unfold World.resOf World.stepOf
  cases hs : w.scripts c with
  | nil => exact Or.inl rfl
  | cons s l => exact h c s (by rw [hs]; exact List.mem_cons_self ..)

theorem StreamStepsF.tail {w w' : World} (h : StreamStepsF w) (c : Nat)
    (hs : w'.scripts = upd w.scripts c (w.scripts c).tail) : StreamStepsF w' := by
  intro c' st hm
  rw [hs] at hm
  by_cases hc : c' = c
  · subst hc
    simp at hm
    exact h c' st (List.mem_of_mem_tail hm)
  · simp [upd, hc] at hm
    exact h c' st hm

end Fc
