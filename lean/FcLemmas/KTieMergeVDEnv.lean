/-
  FcLemmas/KTieMergeVDEnv.lean — no_std / alloc-only flavour, the environment side.  The translated family source of this
  flavour polls its children with the wake function `fun _ r => some (r, [], ())` (no sub-wakers exist) on a flag-less
  readiness set `r`, and hands them the stored parent waker `Wk.par p`.  Read through `TieDir.absV` (mode `direct`, the
  parent waker of the translated struct) the environment's `Rs.fires` / `Rs.pollChild` compute `World.fires` /
  `World.pollChild` of the model; the readiness set is returned unchanged.  No hypothesis on the handed-out wakers is
  needed: a stale sub-waker does nothing on either side.
-/
import FcProps.KTieDir
import Fc.RustEnv
import FcLemmas.World

set_option linter.unusedSimpArgs false
set_option linter.unusedVariables false

namespace Fc
open Rs Src

namespace TieMergeVD

/-- what `TieDir.absV` / `absA` do to an environment: `direct` mode and the stored parent waker -/
def dw (p : Option Nat) (b : World) : World := { b with mode := .direct, parent := p }

theorem absV_eq (r : DirVec.ReadinessVec) (b : World) : TieDir.absV r b = dw r.roleParent b := rfl

@[simp] theorem dw_scripts (p : Option Nat) (b : World) : (dw p b).scripts = b.scripts := rfl
@[simp] theorem dw_handed (p : Option Nat) (b : World) : (dw p b).handed = b.handed := rfl
@[simp] theorem dw_trace (p : Option Nat) (b : World) : (dw p b).trace = b.trace := rfl
@[simp] theorem dw_mode (p : Option Nat) (b : World) : (dw p b).mode = .direct := rfl
@[simp] theorem dw_parent (p : Option Nat) (b : World) : (dw p b).parent = p := rfl
theorem dw_emit (p : Option Nat) (b : World) (e : Ev) : dw p (b.emit e) = (dw p b).emit e := rfl
@[simp] theorem dw_stepOf (p : Option Nat) (b : World) (c : Nat) : (dw p b).stepOf c = b.stepOf c := rfl
@[simp] theorem dw_resOf (p : Option Nat) (b : World) (c : Nat) : (dw p b).resOf c = b.resOf c := rfl
theorem dw_wakerFor (q : Nat) (b : World) (i : Nat) : (dw (some q) b).wakerFor i = .par q := rfl
theorem dw_anyReady (p : Option Nat) (b : World) : (dw p b).anyReady = true := rfl
theorem dw_isSet (p : Option Nat) (b : World) (i : Nat) : (dw p b).isSet i = true := rfl
theorem dw_clearReady (p : Option Nat) (b : World) (i : Nat) : (dw p b).clearReady i = dw p b := rfl
theorem dw_setReady (p : Option Nat) (b : World) (i : Nat) : (dw p b).setReady i = dw p b := rfl

/-- the (unused) flag fields of the environment are left alone -/
def SameRd (a b : World) : Prop := b.cap = a.cap ∧ b.bits = a.bits ∧ b.count = a.count

theorem SameRd.refl (a : World) : SameRd a a := ⟨rfl, rfl, rfl⟩
theorem SameRd.trans {a b c : World} (h1 : SameRd a b) (h2 : SameRd b c) : SameRd a c :=
  ⟨h2.1.trans h1.1, h2.2.1.trans h1.2.1, h2.2.2.trans h1.2.2⟩

/-- the wake function the translated source of this flavour passes to its children's polls -/
abbrev wakeD {R : Type} : Nat → R → Option (R × List Nat × Unit) := fun _ r => some (r, [], ())

theorem fireWk_tieD {R : Type} (r : R) (p : Option Nat) (env : World) (wk : Wk) :
    ∃ env', Rs.fireWk wakeD r env wk = some (r, env') ∧ dw p env' = (dw p env).fireWk wk ∧ SameRd env env' := by
  cases wk with
  | par q => exact ⟨_, rfl, rfl, rfl, rfl, rfl⟩
  | sub i => exact ⟨env, rfl, rfl, rfl, rfl, rfl⟩

theorem fire_tieD {R : Type} (r : R) (p : Option Nat) (env : World) (c age : Nat) :
    ∃ env', Rs.fire wakeD r env c age = some (r, env') ∧ dw p env' = (dw p env).fire c age ∧ SameRd env env' := by
  unfold Rs.fire World.fire
  simp only [dw_handed]
  cases hg : (env.handed c)[age]? with
  | none => exact ⟨_, rfl, rfl, rfl, rfl, rfl⟩
  | some wk =>
    obtain ⟨env', h1, h2, h3⟩ := fireWk_tieD r p (env.emit (.fired c age (some wk))) wk
    exact ⟨env', h1, h2, h3⟩

theorem fires_tieD {R : Type} (r : R) (p : Option Nat) (l : List (Nat × Nat)) : ∀ env : World,
    ∃ env', Rs.fires wakeD r env l = some (r, env') ∧ dw p env' = (dw p env).fires l ∧ SameRd env env' := by
  induction l with
  | nil => intro env; exact ⟨env, rfl, rfl, SameRd.refl _⟩
  | cons x l ih =>
    intro env
    obtain ⟨env1, e1, a1, s1⟩ := fire_tieD r p env x.1 x.2
    obtain ⟨env2, e2, a2, s2⟩ := ih env1
    refine ⟨env2, ?_, ?_, s1.trans s2⟩
    · simp only [Rs.fires, e1, e2]
    · rw [a2, a1, World.fires_cons]

/-- one poll of child `c` (in the slot of its position) with the caller's own waker, the stored parent waker -/
theorem pollChild_tieD {R : Type} (r : R) (q : Nat) (env : World) (c : Nat) :
    ∃ env', Rs.pollChild wakeD r env c (.par q) = some (r, env', env.resOf c) ∧
      dw (some q) env' = (dw (some q) env).pollChild c c ∧
      env'.scripts = upd env.scripts c (env.scripts c).tail ∧ SameRd env env' ∧
      (∀ n, (∀ c i, Wk.sub i ∈ env.handed c → i < n) → ∀ c i, Wk.sub i ∈ env'.handed c → i < n) := by
  obtain ⟨env', e1, a1, s1⟩ := fires_tieD r (some q) (env.stepOf c).fires
    { env with
      scripts := upd env.scripts c (env.scripts c).tail,
      handed := upd env.handed c (Wk.par q :: env.handed c),
      trace := .childBegin c c (.par q) :: env.trace }
  refine ⟨env'.emit (.childEnd c (env.resOf c)), ?_, ?_, ?_, s1, ?_⟩
  · simp only [Rs.pollChild, Rs.slotOf, e1]
  · rw [dw_emit, a1]; rfl
  · have := congrArg World.scripts a1
    simp at this
    simp only [World.emit_scripts]; rw [this]
  · intro n hh c' j hm
    have := congrArg World.handed a1
    simp at this
    simp only [World.emit_handed] at hm
    rw [this] at hm
    by_cases hc : c' = c
    · subst hc
      simp at hm
      exact hh _ _ hm
    · simp [upd, hc] at hm
      exact hh _ _ hm

end TieMergeVD
end Fc
