/-
  FcLemmas/C14Obs.lean — how the observations of Fc/CoMon.lean see one more event
  (traces are NEWEST FIRST), and elementary facts about the acceptor's helper functions.
-/
import Fc.CoMon

set_option linter.unusedSimpArgs false
set_option linter.unusedVariables false

namespace Fc
namespace CoC14
open Co

/-- events that neither call a closure nor resolve a work future -/
def quiet : CoEv → Bool
  | .call _ _ _ _ => false
  | .work _ (.ready _ _) => false
  | _ => true

theorem calls_quiet {ev : CoEv} (h : quiet ev = true) (t : List CoEv) :
    calls (ev :: t) = calls t := by
  funext s j
  cases ev <;> first | rfl | (simp [quiet] at h)

theorem futOf_quiet {ev : CoEv} (h : quiet ev = true) (t : List CoEv) :
    futOf (ev :: t) = futOf t := by
  funext s j
  cases ev <;> first | rfl | (simp [quiet] at h)

theorem resultOf_quiet {ev : CoEv} (h : quiet ev = true) (t : List CoEv) :
    resultOf (ev :: t) = resultOf t := by
  funext k
  cases ev with
  | work k' r => cases r <;> first | rfl | (simp [quiet] at h)
  | _ => first | rfl | (simp [quiet] at h)

theorem calls_work (k : Nat) (r : Res) (t : List CoEv) : calls (.work k r :: t) = calls t := by
  funext s j; rfl

theorem futOf_work (k : Nat) (r : Res) (t : List CoEv) : futOf (.work k r :: t) = futOf t := by
  funext s j; rfl

theorem resultOf_work_isSome (k : Nat) (r : Res) (t : List CoEv) (k0 : Nat)
    (h : (resultOf t k0).isSome = true) : (resultOf (.work k r :: t) k0).isSome = true := by
  cases r <;> first | exact h | skip
  simp only [resultOf]
  split <;> simp_all

theorem resultOf_ready_self (k : Nat) (ok : Bool) (v : Nat) (t : List CoEv) :
    resultOf (.work k (.ready ok v) :: t) k = some (ok, v) := by
  simp [resultOf]

theorem resultOf_call (s j : Nat) (i : List Nat) (k : Nat) (t : List CoEv) :
    resultOf (.call s j i k :: t) = resultOf t := by
  funext k0; rfl

theorem stageDone_eq (t : List CoEv) (s j : Nat) :
    stageDone t s j = true ↔
      calls t s j = 1 ∧ ∃ k, futOf t s j = some k ∧ (resultOf t k).isSome = true := by
  unfold stageDone
  cases h : futOf t s j <;> simp [h]

theorem stageDone_quiet {ev : CoEv} (h : quiet ev = true) (t : List CoEv) :
    stageDone (ev :: t) = stageDone t := by
  funext s j
  unfold stageDone
  rw [calls_quiet h, futOf_quiet h, resultOf_quiet h]

theorem stageDone_work (k : Nat) (r : Res) (t : List CoEv) (s j : Nat)
    (h : stageDone t s j = true) : stageDone (.work k r :: t) s j = true := by
  rw [stageDone_eq] at h ⊢
  rw [calls_work, futOf_work]
  obtain ⟨h1, k0, h2, h3⟩ := h
  exact ⟨h1, k0, h2, resultOf_work_isSome k r t k0 h3⟩

theorem stageDone_ready (k : Nat) (ok : Bool) (v : Nat) (t : List CoEv) (s j : Nat)
    (h1 : calls t s j = 1) (h2 : futOf t s j = some k) :
    stageDone (.work k (.ready ok v) :: t) s j = true := by
  rw [stageDone_eq, calls_work, futOf_work]
  exact ⟨h1, k, h2, by simp [resultOf_ready_self]⟩

theorem calls_call (s' j' : Nat) (i : List Nat) (k : Nat) (t : List CoEv) (s j : Nat) :
    calls (.call s' j' i k :: t) s j = calls t s j + (if s' = s ∧ j' = j then 1 else 0) := rfl

theorem futOf_call (s' j' : Nat) (i : List Nat) (k : Nat) (t : List CoEv) (s j : Nat) :
    futOf (.call s' j' i k :: t) s j = if s' = s ∧ j' = j then some k else futOf t s j := rfl

theorem stageDone_call_other (s' j' : Nat) (i : List Nat) (k : Nat) (t : List CoEv) (s j : Nat)
    (hne : ¬ (s' = s ∧ j' = j)) : stageDone (.call s' j' i k :: t) s j = stageDone t s j := by
  unfold stageDone
  rw [calls_call, futOf_call, resultOf_call]
  simp [hne]

/-! ### the other observations -/

theorem errsW_quiet {ev : CoEv} (h : ∀ k v, ev ≠ .work k (.ready false v)) (t : List CoEv) :
    errsW (ev :: t) = errsW t := by
  cases ev with
  | work k' r =>
    cases r with
    | ready ok v => cases ok <;> first | rfl | exact absurd rfl (h _ _)
    | _ => rfl
  | _ => rfl

theorem errsW_err (k v : Nat) (t : List CoEv) :
    errsW (.work k (.ready false v) :: t) = v :: errsW t := rfl

theorem takenItems_other {ev : CoEv} (h : ∀ v, ev ≠ .src (.item v)) (t : List CoEv) :
    takenItems (ev :: t) = takenItems t := by
  cases ev with
  | src r => cases r <;> first | rfl | exact absurd rfl (h _)
  | _ => rfl

theorem takenItems_item (v : Nat) (t : List CoEv) :
    takenItems (.src (.item v) :: t) = takenItems t + 1 := rfl

theorem srcEnded_mono (ev : CoEv) (t : List CoEv) (h : srcEnded t = true) :
    srcEnded (ev :: t) = true := by
  cases ev with
  | src r => cases r <;> first | exact h | rfl
  | _ => exact h

theorem drained_other {ev : CoEv} (hne : ∀ v, ev ≠ .src (.item v)) (c : Cfg) (t : List CoEv)
    (h : drained c t = true) : drained c (ev :: t) = true := by
  unfold drained at h ⊢
  rw [takenItems_other hne]
  rw [Bool.or_eq_true] at h ⊢
  rcases h with h | h
  · exact Or.inl (srcEnded_mono ev t h)
  · exact Or.inr h

theorem created_other {ev : CoEv} (h : ∀ s j i k, ev ≠ .call s j i k) (t : List CoEv) :
    created (ev :: t) = created t := by
  cases ev <;> first | rfl | exact absurd rfl (h _ _ _ _)

theorem droppedW_mono (ev : CoEv) (t : List CoEv) (k : Nat) (h : droppedW t k = true) :
    droppedW (ev :: t) k = true := by
  cases ev <;> first | exact h | (simp [droppedW, h])

theorem droppedW_drop (k : Nat) (t : List CoEv) : droppedW (.workDrop k :: t) k = true := by
  simp [droppedW]

/-! ### `setMember` -/

theorem mem_setMember {ms : List Member} {m m' x : Member} (h : x ∈ setMember ms m m') :
    (x = m' ∧ m ∈ ms) ∨ (x ∈ ms ∧ x ≠ m) := by
  unfold setMember at h
  rw [List.mem_map] at h
  obtain ⟨y, hy, hxy⟩ := h
  by_cases hym : y = m
  · simp [hym] at hxy; subst hym; exact Or.inl ⟨hxy.symm, hy⟩
  · simp [hym] at hxy; subst hxy; exact Or.inr ⟨hy, hym⟩

theorem setMember_mem_self {ms : List Member} {m m' : Member} (h : m ∈ ms) :
    m' ∈ setMember ms m m' := by
  unfold setMember
  rw [List.mem_map]
  exact ⟨m, h, by simp⟩

theorem setMember_mem_other {ms : List Member} {m m' x : Member} (h : x ∈ ms) (hne : x ≠ m) :
    x ∈ setMember ms m m' := by
  unfold setMember
  rw [List.mem_map]
  exact ⟨x, h, by simp [hne]⟩

end CoC14
end Fc
