/-
  FcLemmas/KTieJoinADEnv.lean — array join, no_std / alloc-only flavour: the environment of a translated poll function
  (Fc/RustEnv.lean) with the wake function of that flavour (`fun _ r => some (r, [], ())`: no sub-wakers exist, the
  flag-less readiness set `r` is never touched by a wake-up) refines the hand-written kernel in `direct` mode:
  `Rs.fire` = `World.fire`, `Rs.fires` = `World.fires`, `Rs.pollChild` with the caller's own waker = `World.pollChild`.
  The combined world of a readiness set `r` and an environment `env` is `TieDir.absA r env` (mode `direct`, the parent
  waker is the one `r` stores).  Nothing is assumed of the wakers handed out before: in `direct` mode a (stale) sub-waker
  does nothing on either side.  Everything lives in the namespace `TieJoinAD.Env`.
-/
import FcProps.KTieJoinDir
import FcLemmas.KTieMergeEnv

set_option linter.unusedSimpArgs false
set_option linter.unusedVariables false

namespace Fc
open Rs Src

namespace TieJoinAD
namespace Env
open DirArr TieDir

@[simp] theorem abs_scripts (r : ReadinessArray) (b : World) : (absA r b).scripts = b.scripts := rfl
@[simp] theorem abs_handed (r : ReadinessArray) (b : World) : (absA r b).handed = b.handed := rfl
@[simp] theorem abs_trace (r : ReadinessArray) (b : World) : (absA r b).trace = b.trace := rfl
@[simp] theorem abs_mode (r : ReadinessArray) (b : World) : (absA r b).mode = .direct := rfl
@[simp] theorem abs_parent (r : ReadinessArray) (b : World) : (absA r b).parent = r.roleParent := rfl
theorem abs_emitM (r : ReadinessArray) (b : World) (e : Ev) : absA r (b.emit e) = (absA r b).emit e := rfl
theorem abs_emitsM (r : ReadinessArray) (b : World) (l : List Ev) : absA r (b.emits l) = (absA r b).emits l := rfl
@[simp] theorem abs_stepOf (r : ReadinessArray) (b : World) (c : Nat) : (absA r b).stepOf c = b.stepOf c := rfl
@[simp] theorem abs_resOf (r : ReadinessArray) (b : World) (c : Nat) : (absA r b).resOf c = b.resOf c := rfl
@[simp] theorem abs_wakerFor (r : ReadinessArray) (b : World) (i : Nat) :
    (absA r b).wakerFor i = .par (r.roleParent.getD 0) := rfl
@[simp] theorem abs_isSet (r : ReadinessArray) (b : World) (i : Nat) : (absA r b).isSet i = true := rfl
@[simp] theorem abs_anyReady (r : ReadinessArray) (b : World) : (absA r b).anyReady = true := rfl
@[simp] theorem abs_cap (r : ReadinessArray) (b : World) : (absA r b).cap = b.cap := rfl
@[simp] theorem abs_bits (r : ReadinessArray) (b : World) : (absA r b).bits = b.bits := rfl
@[simp] theorem abs_count (r : ReadinessArray) (b : World) : (absA r b).count = b.count := rfl
@[simp] theorem abs_clearReady (r : ReadinessArray) (b : World) (i : Nat) : (absA r b).clearReady i = absA r b := rfl

/-- the wake function the translated code of this flavour passes to a child's poll -/
abbrev wakeD : Nat → ReadinessArray → Option (ReadinessArray × List Nat × Unit) :=
  fun _ r => some (r, [], ())

/-- wakers handed out: nothing new that is a sub-waker -/
def SubsFrom (env env' : World) : Prop := ∀ c i, Wk.sub i ∈ env'.handed c → Wk.sub i ∈ env.handed c

/-- the readiness fields of the environment (not used by the translated code: the readiness set lives in the translated
    struct; in `direct` mode the model never changes them either) are those of `b` -/
def SameRd (b env : World) : Prop := env.cap = b.cap ∧ env.bits = b.bits ∧ env.count = b.count

theorem SameRd.refl (b : World) : SameRd b b := ⟨rfl, rfl, rfl⟩

theorem SameRd.trans {a b c : World} (h1 : SameRd a b) (h2 : SameRd b c) : SameRd a c :=
  ⟨h2.1.trans h1.1, h2.2.1.trans h1.2.1, h2.2.2.trans h1.2.2⟩

theorem fire_tieD (r : ReadinessArray) (env : World) (c age : Nat) :
    ∃ env', Rs.fire wakeD r env c age = some (r, env') ∧ absA r env' = (absA r env).fire c age ∧
      env'.handed = env.handed ∧ env'.scripts = env.scripts ∧ SameRd env env' := by
  unfold Rs.fire World.fire
  simp only [abs_handed]
  cases hg : (env.handed c)[age]? with
  | none => exact ⟨_, rfl, rfl, rfl, rfl, rfl, rfl, rfl⟩
  | some wk =>
    cases wk with
    | par p => exact ⟨_, rfl, rfl, rfl, rfl, rfl, rfl, rfl⟩
    | sub i => exact ⟨_, rfl, rfl, rfl, rfl, rfl, rfl, rfl⟩

theorem fires_tieD (l : List (Nat × Nat)) : ∀ (r : ReadinessArray) (env : World),
    ∃ env', Rs.fires wakeD r env l = some (r, env') ∧ absA r env' = (absA r env).fires l ∧
      env'.handed = env.handed ∧ env'.scripts = env.scripts ∧ SameRd env env' := by
  induction l with
  | nil => intro r env; exact ⟨env, rfl, rfl, rfl, rfl, SameRd.refl _⟩
  | cons p l ih =>
    intro r env
    obtain ⟨env1, e1, a1, h1, s1, f1⟩ := fire_tieD r env p.1 p.2
    obtain ⟨env2, e2, a2, h2, s2, f2⟩ := ih r env1
    refine ⟨env2, ?_, ?_, h2.trans h1, s2.trans s1, f1.trans f2⟩
    · simp only [Rs.fires, e1, e2]
    · rw [a2, a1, World.fires_cons]

/-- one poll of child `c` (in the slot of its position) with the caller's own waker, the one the readiness set stores -/
theorem pollChild_tieD (r : ReadinessArray) (env : World) (c p : Nat) (hp : r.roleParent = some p) :
    ∃ env', Rs.pollChild wakeD r env c (.par p) = some (r, env', env.resOf c) ∧
      absA r env' = (absA r env).pollChild c c ∧ SubsFrom env env' ∧
      env'.scripts = upd env.scripts c (env.scripts c).tail ∧ SameRd env env' := by
  obtain ⟨env', e1, a1, h1, s1, f1⟩ := fires_tieD (env.stepOf c).fires r
      { env with
        scripts := upd env.scripts c (env.scripts c).tail,
        handed := upd env.handed c (Wk.par p :: env.handed c),
        trace := .childBegin c c (.par p) :: env.trace }
  refine ⟨env'.emit (.childEnd c (env.resOf c)), ?_, ?_, ?_, ?_, f1⟩
  · simp only [Rs.pollChild, Rs.slotOf, e1]
  · rw [abs_emitM, a1]
    simp only [World.pollChild, abs_wakerFor, hp, Option.getD_some]
    rfl
  · intro c' j hm
    simp only [World.emit_handed] at hm
    rw [h1] at hm
    by_cases hc : c' = c
    · subst hc
      simp at hm
      exact hm
    · simpa [upd, hc] using hm
  · simp only [World.emit_scripts]; rw [s1]

end Env
end TieJoinAD
end Fc
