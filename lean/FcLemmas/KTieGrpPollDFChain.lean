/-
  FcLemmas/KTieGrpPollDFChain.lean — the model's poll does not read the trace: `Eng.poll P` on a state whose world carries
  another trace (`retr`) is the same poll with another trace, and traces that agree up to the slot annotation of
  `childBegin` (`TrEq`) still do afterwards.  This is what lets `TieGrpFD.poll_tie` be chained over a sequence of polls
  although the environment's trace and the model's trace differ in that annotation.
-/
import FcLemmas.KTieGrpPollDFEnv

set_option linter.unusedSimpArgs false
set_option linter.unusedVariables false

namespace Fc
namespace TieGrpFD

theorem TrEq.app {a b : List Ev} (l : List Ev) (h : TrEq a b) : TrEq (l ++ a) (l ++ b) := by
  unfold TrEq at *; simp only [List.map_append, h]

/-- a state whose world carries another trace -/
def rtE {σ : Type} (e : Eng σ) (tr : List Ev) : Eng σ := { e with w := retr e.w tr }

/-- `w'` is `w` with another trace, equal up to the slot annotation if the old ones were -/
def Par (tr : List Ev) (w w' : World) : Prop :=
  ∃ tr', w' = retr w tr' ∧ (TrEq tr w.trace → TrEq tr' w.trace)

theorem retr_clearReady (w : World) (tr : List Ev) (i : Nat) : (retr w tr).clearReady i = retr (w.clearReady i) tr := by
  obtain ⟨mode, cap, bits, count, parent, scripts, handed, trace⟩ := w
  cases mode
  · by_cases hb : bits i <;> simp [World.clearReady, retr, hb]
  · rfl

theorem retr_setReady (w : World) (tr : List Ev) (i : Nat) : (retr w tr).setReady i = retr (w.setReady i) tr := by
  obtain ⟨mode, cap, bits, count, parent, scripts, handed, trace⟩ := w
  cases mode
  · by_cases hb : bits i <;> simp [World.setReady, retr, hb]
  · rfl

theorem retr_setAllReady (w : World) (tr : List Ev) : (retr w tr).setAllReady = retr w.setAllReady tr := by
  obtain ⟨mode, cap, bits, count, parent, scripts, handed, trace⟩ := w
  cases mode <;> rfl

theorem retr_kop (w : World) (tr : List Ev) (k : KOp) : (retr w tr).kop k = retr (w.kop k) tr := by
  cases k
  · rfl
  · exact retr_setReady w tr _
  · exact retr_setAllReady w tr

theorem kop_trace (w : World) (k : KOp) : (w.kop k).trace = w.trace := by
  cases k <;> simp [World.kop]

theorem retr_fireWk (w : World) (tr : List Ev) (wk : Wk) :
    ∃ tr', (retr w tr).fireWk wk = retr (w.fireWk wk) tr' ∧ (TrEq tr w.trace → TrEq tr' (w.fireWk wk).trace) := by
  cases wk with
  | par p => exact ⟨.woke p :: tr, rfl, fun h => h.cons _⟩
  | sub i =>
    obtain ⟨mode, cap, bits, count, parent, scripts, handed, trace⟩ := w
    cases mode with
    | direct => exact ⟨tr, rfl, fun h => h⟩
    | std =>
      by_cases hb : bits i
      · refine ⟨tr, ?_, ?_⟩
        · simp [World.fireWk, retr, hb]
        · intro h; simpa [World.fireWk, hb] using h
      · cases parent with
        | some p =>
          refine ⟨.woke p :: tr, ?_, ?_⟩
          · simp [World.fireWk, retr, hb, World.setReady, World.emit]
          · intro h; simpa [World.fireWk, hb, World.setReady, World.emit] using h.cons (.woke p)
        | none =>
          refine ⟨.wakePanic :: tr, ?_, ?_⟩
          · simp [World.fireWk, retr, hb, World.setReady, World.emit]
          · intro h; simpa [World.fireWk, hb, World.setReady, World.emit] using h.cons .wakePanic

theorem retr_fire (w : World) (tr : List Ev) (c age : Nat) :
    ∃ tr', (retr w tr).fire c age = retr (w.fire c age) tr' ∧ (TrEq tr w.trace → TrEq tr' (w.fire c age).trace) := by
  unfold World.fire
  simp only [retr_handed]
  cases hg : (w.handed c)[age]? with
  | none => exact ⟨.fired c age none :: tr, rfl, fun h => h.cons _⟩
  | some wk =>
    obtain ⟨tr', h1, h2⟩ := retr_fireWk (w.emit (.fired c age (some wk))) (.fired c age (some wk) :: tr) wk
    exact ⟨tr', h1, fun h => h2 (h.cons _)⟩

theorem retr_fires (l : List (Nat × Nat)) : ∀ (w : World) (tr : List Ev),
    ∃ tr', (retr w tr).fires l = retr (w.fires l) tr' ∧ (TrEq tr w.trace → TrEq tr' (w.fires l).trace) := by
  induction l with
  | nil => intro w tr; exact ⟨tr, rfl, fun h => h⟩
  | cons x l ih =>
    intro w tr
    obtain ⟨tr1, a1, t1⟩ := retr_fire w tr x.1 x.2
    obtain ⟨tr2, a2, t2⟩ := ih (w.fire x.1 x.2) tr1
    refine ⟨tr2, ?_, fun h => t2 (t1 h)⟩
    rw [World.fires_cons, World.fires_cons, a1, a2]

theorem retr_pollChild (w : World) (tr : List Ev) (c k : Nat) :
    ∃ tr', (retr w tr).pollChild c k = retr (w.pollChild c k) tr' ∧
      (TrEq tr w.trace → TrEq tr' (w.pollChild c k).trace) := by
  obtain ⟨tr', a1, t1⟩ := retr_fires (w.stepOf c).fires
    { w with scripts := upd w.scripts c (w.scripts c).tail,
             handed := upd w.handed c (w.wakerFor k :: w.handed c),
             trace := .childBegin c k (w.wakerFor k) :: w.trace }
    (.childBegin c k (w.wakerFor k) :: tr)
  refine ⟨.childEnd c (w.resOf c) :: tr', ?_, fun h => (t1 (h.cons _)).cons _⟩
  have h0 : (retr w tr).pollChild c k =
      ((retr { w with scripts := upd w.scripts c (w.scripts c).tail,
                      handed := upd w.handed c (w.wakerFor k :: w.handed c),
                      trace := .childBegin c k (w.wakerFor k) :: w.trace }
          (.childBegin c k (w.wakerFor k) :: tr)).fires (w.stepOf c).fires).emit (.childEnd c (w.resOf c)) := rfl
  rw [h0, a1]; rfl

/-! ### the engine -/

variable {σ : Type}

theorem rtE_applyH (e : Eng σ) (tr : List Ev) (h : HRes σ) :
    ∃ tr', (rtE e tr).applyH h = rtE (e.applyH h) tr' ∧ (TrEq tr e.w.trace → TrEq tr' (e.applyH h).w.trace) := by
  refine ⟨h.evs.reverse ++ tr, ?_, ?_⟩
  · simp only [Eng.applyH, rtE]
    rw [show (retr e.w tr).emits h.evs = retr (e.w.emits h.evs) (h.evs.reverse ++ tr) from rfl, retr_kop]
  · intro ht
    simp only [Eng.applyH, kop_trace, World.emits_trace]
    exact ht.app _

theorem rtE_gateW (P : Policy σ) (e : Eng σ) (tr : List Ev) (i : Nat) :
    Eng.gateW P (rtE e tr) i = retr (Eng.gateW P e i) tr := by
  have hs : (rtE e tr).s = e.s := rfl
  unfold Eng.gateW
  rw [hs]
  by_cases hc : (P.clearFirst || P.eligible e.s i) = true
  · rw [if_pos hc, if_pos hc]; exact retr_clearReady _ _ _
  · rw [if_neg hc, if_neg hc]; rfl

theorem gateW_trace (P : Policy σ) (e : Eng σ) (i : Nat) : (Eng.gateW P e i).trace = e.w.trace := by
  unfold Eng.gateW; split <;> simp

theorem rtE_visit (P : Policy σ) (e : Eng σ) (tr : List Ev) (i : Nat) :
    ∃ tr', Eng.visit P (rtE e tr) i = (rtE (Eng.visit P e i).1 tr', (Eng.visit P e i).2) ∧
      (TrEq tr e.w.trace → TrEq tr' (Eng.visit P e i).1.w.trace) := by
  unfold Eng.visit
  have hgo : Eng.gateGo P (rtE e tr) i = Eng.gateGo P e i := rfl
  have hany : (rtE e tr).w.anyReady = e.w.anyReady := rfl
  have hres : ∀ c, (rtE e tr).w.resOf c = e.w.resOf c := fun _ => rfl
  have hs : (rtE e tr).s = e.s := rfl
  rw [hgo, hany, hres, hs, rtE_gateW]
  obtain ⟨tr1, a1, t1⟩ := retr_pollChild (Eng.gateW P e i) tr (P.child e.s i) i
  rw [a1]
  split
  · exact ⟨tr, rfl, fun h => h⟩
  · split
    · exact ⟨tr, rfl, fun h => by simpa [gateW_trace] using h⟩
    · split
      · refine ⟨(P.panicEvs e.s).reverse ++ tr1, rfl, fun h => ?_⟩
        simp only [World.emits_trace]
        exact (t1 (by simpa [gateW_trace] using h)).app _
      · obtain ⟨tr2, a2, t2⟩ := rtE_applyH { e with w := (Eng.gateW P e i).pollChild (P.child e.s i) i } tr1
          (P.handle e.s i (e.w.resOf (P.child e.s i)))
        refine ⟨tr2, ?_, fun h => t2 (t1 (by simpa [gateW_trace] using h))⟩
        simp only
        rw [← a2]; rfl

theorem rtE_scan (P : Policy σ) (l : List Nat) : ∀ (e : Eng σ) (tr : List Ev),
    ∃ tr', Eng.scan P l (rtE e tr) = (rtE (Eng.scan P l e).1 tr', (Eng.scan P l e).2) ∧
      (TrEq tr e.w.trace → TrEq tr' (Eng.scan P l e).1.w.trace) := by
  induction l with
  | nil => intro e tr; exact ⟨tr, rfl, fun h => h⟩
  | cons i rest ih =>
    intro e tr
    obtain ⟨tr1, a1, t1⟩ := rtE_visit P e tr i
    simp only [Eng.scan, a1]
    cases hv : (Eng.visit P e i).2 with
    | some o => exact ⟨tr1, rfl, t1⟩
    | none =>
      obtain ⟨tr2, a2, t2⟩ := ih (Eng.visit P e i).1 tr1
      exact ⟨tr2, a2, fun h => t2 (t1 h)⟩

theorem rtE_close (P : Policy σ) (r : Eng σ × Option Outcome) (tr : List Ev) :
    ∃ tr', Eng.close P (rtE r.1 tr, r.2) = rtE (Eng.close P r) tr' ∧
      (TrEq tr r.1.w.trace → TrEq tr' (Eng.close P r).w.trace) := by
  obtain ⟨e, o⟩ := r
  cases o with
  | some o => exact ⟨.pollEnd o :: tr, rfl, fun h => h.cons _⟩
  | none =>
    obtain ⟨tr1, a1, t1⟩ := rtE_applyH e tr (P.finish e.s)
    refine ⟨.pollEnd ((P.finish e.s).exit.getD .pending) :: tr1, ?_, fun h => (t1 h).cons _⟩
    show ((rtE e tr).applyH (P.finish e.s)).emit _ = _
    rw [a1]; rfl

/-- `Eng.poll P` does not read the trace -/
theorem rtE_poll (P : Policy σ) (e : Eng σ) (tr : List Ev) (wid : Nat) :
    ∃ tr', Eng.poll P (rtE e tr) wid = rtE (Eng.poll P e wid) tr' ∧
      (TrEq tr e.w.trace → TrEq tr' (Eng.poll P e wid).w.trace) := by
  unfold Eng.poll
  have hs : (rtE e tr).s = e.s := rfl
  rw [hs]
  cases hp : P.pre e.s with
  | some o => exact ⟨.pollEnd o :: .pollBegin wid :: tr, rfl, fun h => (h.cons _).cons _⟩
  | none =>
    simp only
    unfold Eng.body
    have hany : (((rtE e tr).w.emit (.pollBegin wid)).setWaker wid).anyReady
        = (((e.w.emit (.pollBegin wid)).setWaker wid).anyReady) := rfl
    simp only [hs, hany]
    split
    · exact ⟨.pollEnd .pending :: .pollBegin wid :: tr, rfl, fun h => (h.cons _).cons _⟩
    · obtain ⟨tr1, a1, t1⟩ := rtE_scan P (P.order e.s)
        { w := (e.w.emit (.pollBegin wid)).setWaker wid, s := P.start e.s } (.pollBegin wid :: tr)
      obtain ⟨tr2, a2, t2⟩ := rtE_close P (Eng.scan P (P.order e.s)
        { w := (e.w.emit (.pollBegin wid)).setWaker wid, s := P.start e.s }) tr1
      refine ⟨tr2, ?_, fun h => t2 (t1 (h.cons _))⟩
      rw [← a2, ← a1]; rfl

end TieGrpFD
end Fc
