/-
  FcLemmas/LiveLoop.lean — the World-aware part of the liveness invariant and its preservation by
  one child poll.

  `Fut w c`: child `c` is a well-behaved future that has not resolved (its remaining script is
  `Pending … Pending Ready`, non-empty; its latest answer, if any, was `Pending`; it has not been
  released), or it has resolved.
  `WInv`: `Fut` for every child, and the link between the waker list `handed` and the ghost `lastWk`.
  `PInvL`: `WInv` plus the progress bookkeeping of the poll in progress, relative to the script
  lengths `len0` and the trace `t0` at its start: no script has grown, every child polled in this
  poll has consumed a step, and the task waker was only invoked after some child was polled.
-/
import FcLemmas.LiveObs
set_option linter.unusedSimpArgs false
set_option linter.unusedVariables false

namespace Fc
namespace Live
open Mon

def Fut (fv : Nat → Nat) (w : World) (c : Nat) : Prop :=
  (Exec.futureScript (w.scripts c) = true ∧
      (lastRes w.trace c = none ∨ lastRes w.trace c = some .pend) ∧ gone w.trace c = false ∧
      finalVal (w.scripts c) = fv c)
  ∨ (∃ ok, lastRes w.trace c = some (.ready ok (fv c)))

structure WInv (fv : Nat → Nat) (n : Nat) (w : World) : Prop where
  fut : ∀ c, c < n → Fut fv w c
  hw  : ∀ c, (w.handed c).head? = lastWk w.trace c
  lw  : ∀ c, lastRes w.trace c ≠ none → lastWk w.trace c ≠ none
  ep  : ∀ c, everPolled w.trace c = true → lastRes w.trace c ≠ none

structure PInvL (fv : Nat → Nat) (n : Nat) (len0 : Nat → Nat) (t0 : List Ev) (w : World) : Prop where
  wi : WInv fv n w
  le : ∀ c, (w.scripts c).length ≤ len0 c
  ps : ∀ c, polledSince w.trace c = true → c < n ∧ (w.scripts c).length < len0 c
  wk : wokeSince w.trace = true → ∃ c, polledSince w.trace c = true
  ab : atPollBegin w.trace = t0
  sp : spent false w.trace = false
  pn : panicSince w.trace = false

/-- an unresolved well-behaved future answers `Pending` or resolves, never panics -/
theorem fut_resOf (w : World) (i : Nat) (h : Exec.futureScript (w.scripts i) = true) :
    ((w.scripts i).tail = [] ∧ ∃ ok, w.resOf i = .ready ok (finalVal (w.scripts i))) ∨
    ((w.scripts i).tail ≠ [] ∧ w.resOf i = .pend ∧ Exec.futureScript (w.scripts i).tail = true ∧
      finalVal (w.scripts i).tail = finalVal (w.scripts i)) := by
  unfold World.resOf World.stepOf
  cases hs : w.scripts i with
  | nil => rw [hs] at h; exact Bool.noConfusion h
  | cons s rest =>
    rw [hs] at h
    rcases fs_cons s rest h with ⟨h1, ok, v, h2⟩ | ⟨h1, h2, h3⟩
    · left
      subst h1
      exact ⟨rfl, ok, by rw [finalVal_single s ok v h2]; exact h2⟩
    · right
      exact ⟨h1, h2, h3, (finalVal_cons s rest h1).symm⟩

/-- one child poll (with the ownership events of its handler) -/
theorem pinvl_pollChild {fv : Nat → Nat} {n : Nat} {len0 : Nat → Nat} {t0 : List Ev} (w : World) (i : Nat)
    (hi : i < n) (h : PInvL fv n len0 t0 w)
    (hun : ∀ ok v, lastRes w.trace i ≠ some (.ready ok v))
    (evs : List Ev) (hevs : ∀ e ∈ evs, isOwnEv e = true)
    (hdrop : ∀ c, Ev.childDropped c ∈ evs → c = i ∧ ∃ ok v, w.resOf i = .ready ok v) :
    w.resOf i ≠ .panic ∧ PInvL fv n len0 t0 ((w.pollChild i i).emits evs) := by
  -- child `i` is an unresolved future
  have hfi : Exec.futureScript (w.scripts i) = true ∧ gone w.trace i = false ∧
      finalVal (w.scripts i) = fv i := by
    rcases h.wi.fut i hi with ⟨h1, _, h3, h4⟩ | ⟨ok, h1⟩
    · exact ⟨h1, h3, h4⟩
    · exact absurd h1 (hun ok _)
  have hres := fut_resOf w i hfi.1
  have hnp : w.resOf i ≠ .panic := by
    rcases hres with ⟨_, ok, hr⟩ | ⟨_, hr, _⟩ <;> rw [hr] <;> simp
  have hne : w.scripts i ≠ [] := fs_ne_nil _ hfi.1
  have hlen : (w.scripts i).tail.length < (w.scripts i).length := by
    cases hs : w.scripts i with
    | nil => exact absurd hs hne
    | cons s rest => simp
  -- observations of the new world
  have hS : ∀ c, ((w.pollChild i i).emits evs).scripts c
      = if c = i then (w.scripts i).tail else w.scripts c := by
    intro c
    rw [emits_scripts, pollChild_scripts]
    by_cases hci : c = i
    · subst hci; simp
    · simp [upd_other _ _ _ _ hci, hci]
  have hLR : ∀ c, lastRes ((w.pollChild i i).emits evs).trace c
      = if i = c then some (w.resOf i) else lastRes w.trace c := by
    intro c; rw [C16.lastRes_emits_own _ _ hevs, C16.lastRes_pollChild]
  have hLW : ∀ c, lastWk ((w.pollChild i i).emits evs).trace c
      = if i = c then some (w.wakerFor i) else lastWk w.trace c := by
    intro c; rw [lastWk_emits_own _ _ hevs, lastWk_pollChild]
  have hEP : ∀ c, everPolled ((w.pollChild i i).emits evs).trace c
      = (decide (i = c) || everPolled w.trace c) := by
    intro c; rw [everPolled_emits_own _ _ hevs, everPolled_pollChild]
  have hPS : ∀ c, polledSince ((w.pollChild i i).emits evs).trace c
      = (decide (i = c) || polledSince w.trace c) := by
    intro c; rw [polledSince_emits_own _ _ hevs, polledSince_pollChild]
  have hG : ∀ c, Ev.childDropped c ∉ evs →
      gone ((w.pollChild i i).emits evs).trace c = gone w.trace c := by
    intro c hc; rw [gone_emits_not_mem _ _ _ hc, gone_pollChild]
  refine ⟨hnp, ⟨⟨?_, ?_, ?_, ?_⟩, ?_, ?_, ?_, ?_, ?_, ?_⟩⟩
  · -- Fut
    intro c hc
    by_cases hci : c = i
    · subst hci
      rcases hres with ⟨_, ok, hr⟩ | ⟨_, hr, hf, hfv⟩
      · right; exact ⟨ok, by rw [hLR, hr, hfi.2.2]; simp⟩
      · left
        refine ⟨by rw [hS]; simpa using hf, Or.inr (by rw [hLR, hr]; simp), ?_,
          by rw [hS]; simpa [hfv] using hfi.2.2⟩
        rw [hG c ?_]
        · exact hfi.2.1
        · intro hm
          obtain ⟨_, ok, v, hrr⟩ := hdrop c hm
          rw [hr] at hrr; cases hrr
    · have hic : ¬ i = c := fun hh => hci hh.symm
      have hg : gone ((w.pollChild i i).emits evs).trace c = gone w.trace c :=
        hG c (fun hm => hci (hdrop c hm).1)
      unfold Fut
      rw [hS, hLR, hg]
      simp only [hci, hic, if_false]
      exact h.wi.fut c hc
  · -- handed / lastWk
    intro c
    rw [hLW]
    have : ((w.pollChild i i).emits evs).handed = upd w.handed i (w.wakerFor i :: w.handed i) := by
      rw [← pollChild_handed]; rfl
    rw [this]
    by_cases hic : i = c
    · subst hic; simp
    · have hci : c ≠ i := fun hh => hic hh.symm
      simp only [hic, if_false, upd_other _ _ _ _ hci]
      exact h.wi.hw c
  · intro c hc
    rw [hLR] at hc
    rw [hLW]
    by_cases hic : i = c
    · simp [hic]
    · simp only [hic, if_false] at hc ⊢
      exact h.wi.lw c hc
  · intro c hc
    rw [hEP] at hc
    rw [hLR]
    by_cases hic : i = c
    · simp [hic]
    · simp only [hic, decide_false, Bool.false_or, if_false] at hc ⊢
      exact h.wi.ep c hc
  · -- no script grows
    intro c
    rw [hS]
    by_cases hci : c = i
    · subst hci; simp only [if_true]; have := h.le c; omega
    · simp only [hci, if_false]; exact h.le c
  · -- a polled child has consumed a step
    intro c hc
    rw [hPS] at hc
    rw [hS]
    by_cases hci : c = i
    · subst hci; simp only [if_true]; have := h.le c; exact ⟨hi, by omega⟩
    · have hic : ¬ i = c := fun hh => hci hh.symm
      simp only [hic, decide_false, Bool.false_or] at hc
      simp only [hci, if_false]
      exact h.ps c hc
  · intro _
    exact ⟨i, by rw [hPS]; simp⟩
  · rw [atPollBegin_emits_own _ _ hevs, atPollBegin_pollChild]; exact h.ab
  · rw [spent_pollChild_emits _ _ _ _ hevs]; exact h.sp
  · rw [panicSince_emits_own _ _ hevs, panicSince_pollChild _ _ _ hnp]; exact h.pn

/-- `PInvL` only looks at the scripts, the waker lists and the trace -/
theorem pinvl_congr {fv : Nat → Nat} {n : Nat} {len0 : Nat → Nat} {t0 : List Ev} {w w' : World}
    (hs : w'.scripts = w.scripts) (hh : w'.handed = w.handed) (ht : w'.trace = w.trace)
    (h : PInvL fv n len0 t0 w) : PInvL fv n len0 t0 w' := by
  refine ⟨⟨?_, ?_, ?_, ?_⟩, ?_, ?_, ?_, ?_, ?_, ?_⟩
  · intro c hc; unfold Fut; rw [hs, ht]; exact h.wi.fut c hc
  · intro c; rw [hh, ht]; exact h.wi.hw c
  · intro c; rw [ht]; exact h.wi.lw c
  · intro c; rw [ht]; exact h.wi.ep c
  · intro c; rw [hs]; exact h.le c
  · intro c; rw [hs, ht]; exact h.ps c
  · rw [ht]; exact h.wk
  · rw [ht]; exact h.ab
  · rw [ht]; exact h.sp
  · rw [ht]; exact h.pn


/-! ### through the poll skeleton -/

@[simp] theorem setWaker_scripts (w : World) (p : Nat) : (w.setWaker p).scripts = w.scripts := rfl
@[simp] theorem setWaker_handed (w : World) (p : Nat) : (w.setWaker p).handed = w.handed := rfl
@[simp] theorem emits_handed (w : World) (l : List Ev) : (w.emits l).handed = w.handed := rfl

variable {P : Policy Fix}

/-- one loop iteration -/
theorem pinvl_visit (L : Lawful P)
    (hdrop : ∀ s i r c, Ev.childDropped c ∈ (P.handle s i r).evs → c = i ∧ ∃ ok v, r = .ready ok v)
    {fv : Nat → Nat} {n : Nat} {len0 : Nat → Nat} {t0 : List Ev} (e : Eng Fix) (i : Nat) (hi : i < n)
    (h : PInvL fv n len0 t0 e.w)
    (hun : P.eligible e.s i = true → ∀ ok v, lastRes e.w.trace i ≠ some (.ready ok v)) :
    PInvL fv n len0 t0 (Eng.visit P e i).1.w := by
  have hg' : PInvL fv n len0 t0 (Eng.gateW P e i) :=
    pinvl_congr (Sim.gateW_scripts' e i) (gateW_handed e i) (Sim.gateW_trace e i) h
  refine Eng.visit_ind P e i (fun r => PInvL fv n len0 t0 r.1.w) ?_ ?_ ?_ ?_
  · intro _ _; exact h
  · intro _ _; exact hg'
  · intro _ hg hp
    rw [L.child_id] at hp
    have hel : P.eligible e.s i = true := by
      unfold Eng.gateGo at hg; simp only [Bool.and_eq_true] at hg; exact hg.1
    have := (pinvl_pollChild (Eng.gateW P e i) i hi hg'
      (by rw [Sim.gateW_trace]; exact hun hel) [] (by simp) (by simp)).1
    rw [Sim.gateW_resOf'] at this
    exact absurd hp this
  · intro _ hg hp
    rw [L.child_id] at hp ⊢
    have hel : P.eligible e.s i = true := by
      unfold Eng.gateGo at hg; simp only [Bool.and_eq_true] at hg; exact hg.1
    have := (pinvl_pollChild (Eng.gateW P e i) i hi hg'
      (by rw [Sim.gateW_trace]; exact hun hel) (P.handle e.s i (e.w.resOf i)).evs
      (L.evs_handle _ _ _) (by
        intro c hc
        rw [Sim.gateW_resOf']
        exact hdrop _ _ _ c hc)).2
    exact pinvl_congr (by simp [kop_scripts]) (by simp [kop_handed]) (by simp) this

/-- the loop, next to the C04 loop invariant (which says that eligible slots have not resolved) -/
theorem pinvl_scan (L : Lawful P)
    (hdrop : ∀ s i r c, Ev.childDropped c ∈ (P.handle s i r).evs → c = i ∧ ∃ ok v, r = .ready ok v)
    {slice : Bool} {m : Mode} {n : Nat}
    (S : Sim P m Sim.anyRes (C04.Inv slice n) (C04.J slice n))
    (helig : ∀ s i, P.eligible s i = true → s.st i ≠ .ready)
    {len0 : Nat → Nat} {t0 : List Ev} :
    ∀ (l : List Nat) (e : Eng Fix), e.w.mode = m → C04.J slice n e.s e.w.trace l →
      PInvL fv n len0 t0 e.w → PInvL fv n len0 t0 (Eng.scan P l e).1.w := by
  intro l
  induction l with
  | nil => intro e _ _ h; exact h
  | cons i rest ih =>
    intro e hm hJ h
    have hJ' := hJ
    obtain ⟨hI, hd, _, hlt⟩ := hJ'
    have hi : i < n := hlt i (List.mem_cons_self ..)
    have hun : P.eligible e.s i = true → ∀ ok v, lastRes e.w.trace i ≠ some (.ready ok v) := by
      intro hel ok v hlr
      rcases hI.live hd i hi with ⟨_, hrv⟩ | ⟨hr, _⟩
      · simp [resolvedVal, hlr] at hrv
      · exact helig _ _ hel hr
    have hv := pinvl_visit L hdrop e i hi h hun
    have hT := Sim.visitT S e i rest hm (Sim.scriptsOk_any _) hJ
    unfold Eng.scan
    cases hvis : (Eng.visit P e i).2 with
    | some o => exact hv
    | none => exact ih _ hT.1 (hT.2.2.1 hvis) hv

/-- what is known right after a top-level poll -/
structure PEnd (fv : Nat → Nat) (n : Nat) (len0 : Nat → Nat) (t0 : List Ev) (w : World) : Prop where
  wi : WInv fv n w
  le : ∀ c, (w.scripts c).length ≤ len0 c
  ps : ∀ c, polledSince w.trace c = true → c < n ∧ (w.scripts c).length < len0 c
  wk : wokeSince w.trace = true → ∃ c, polledSince w.trace c = true
  ab : atPollBegin w.trace = t0
  shape : ∃ o t, w.trace = .pollEnd o :: t ∧ spent false t = false ∧ panicSince t = false

theorem pend_of_pinvl {fv : Nat → Nat} {n : Nat} {len0 : Nat → Nat} {t0 : List Ev} {w : World}
    (h : PInvL fv n len0 t0 w) (o : Outcome) : PEnd fv n len0 t0 (w.emit (.pollEnd o)) := by
  refine ⟨⟨?_, ?_, ?_, ?_⟩, h.le, ?_, ?_, ?_, ⟨o, w.trace, rfl, h.sp, h.pn⟩⟩
  · intro c hc
    have := h.wi.fut c hc
    unfold Fut at this ⊢
    simpa [lastRes, gone] using this
  · intro c; simpa [lastWk] using h.wi.hw c
  · intro c; simpa [lastRes, lastWk] using h.wi.lw c
  · intro c; simpa [lastRes, everPolled] using h.wi.ep c
  · intro c; simpa [polledSince] using h.ps c
  · simpa [wokeSince, polledSince] using h.wk
  · simpa [atPollBegin] using h.ab

theorem pinvl_begin {n : Nat} {w : World} (wid : Nat) (hw : WInv fv n w)
    (hsp : spent false w.trace = false) :
    PInvL fv n (fun c => (w.scripts c).length) w.trace ((w.emit (.pollBegin wid)).setWaker wid) := by
  refine ⟨⟨?_, ?_, ?_, ?_⟩, fun c => Nat.le_refl _, ?_, ?_, rfl, ?_, rfl⟩
  · intro c hc
    have := hw.fut c hc
    unfold Fut at this ⊢
    simpa [lastRes, gone] using this
  · intro c; simpa [lastWk] using hw.hw c
  · intro c; simpa [lastRes, lastWk] using hw.lw c
  · intro c; simpa [lastRes, everPolled] using hw.ep c
  · intro c hc; simp [polledSince] at hc
  · intro hc; simp [wokeSince] at hc
  · simpa [spent, finalSeen, alive, panickedSeen] using hsp

/-- one top-level poll -/
theorem pend_poll (L : Lawful P)
    (hdrop : ∀ s i r c, Ev.childDropped c ∈ (P.handle s i r).evs → c = i ∧ ∃ ok v, r = .ready ok v)
    (hfin : ∀ s, (P.finish s).evs = [])
    {slice : Bool} {m : Mode} {n : Nat}
    (S : Sim P m Sim.anyRes (C04.Inv slice n) (C04.J slice n))
    (helig : ∀ s i, P.eligible s i = true → s.st i ≠ .ready)
    (e : Eng Fix) (wid : Nat) (hm : e.w.mode = m) (hI : C04.Inv slice n e.s e.w.trace)
    (hw : WInv fv n e.w) (hsp : spent false e.w.trace = false) :
    PEnd fv n (fun c => (e.w.scripts c).length) e.w.trace (Eng.poll P e wid).w := by
  have hb := pinvl_begin wid hw hsp
  unfold Eng.poll
  split
  · rename_i o _
    have hb' : PInvL fv n (fun c => (e.w.scripts c).length) e.w.trace (e.w.emit (.pollBegin wid)) :=
      pinvl_congr (w := (e.w.emit (.pollBegin wid)).setWaker wid) rfl rfl rfl hb
    exact pend_of_pinvl hb' o
  · rename_i hpre
    unfold Eng.body
    simp only
    split
    · exact pend_of_pinvl hb _
    · have hJ := S.start _ _ wid hpre hI
      have hs := pinvl_scan L hdrop S helig (P.order e.s)
        { w := (e.w.emit (.pollBegin wid)).setWaker wid, s := P.start e.s } hm hJ hb
      unfold Eng.close
      split
      · exact pend_of_pinvl hs _
      · refine pend_of_pinvl (pinvl_congr ?_ ?_ ?_ hs) _
        · simp [kop_scripts, emits_scripts]
        · simp [kop_handed]
        · simp [hfin]

end Live
end Fc
