/-
  FcLemmas/KTieTryJoinTPoll.lean — tuple try_join (`(A, B, …).try_join()`): the translated `TryJoin::poll`
  (FcGen/KSrcTup2.lean) refines `Eng.poll tryJoinTuple`.  Unlike the array / Vec try_join the loop can be left by `return`
  in three ways: an iteration is one `Eng.visit tryJoinTuple` (`any_ready` tested first — `Pending` from inside the loop;
  the flag of the slot cleared before the state is looked at; the child that fails makes the poll return its `Err`; the
  `Ok` of the LAST outstanding child moves the outputs out and returns them), the loop is `Eng.scan tryJoinTuple` by the
  shared loop rule `TieLoop.forCtl_scan` (FcLemmas/KTieLoopCore.lean), and the code after the loop is
  `Eng.close tryJoinTuple`.  The loop body is taken from the generated definition by unification, the proofs use the role
  abbreviations only (`unroles`) and let `simp` compute through the translated code.
-/
import FcLemmas.KTieTryJoinTDefs

set_option linter.unusedSimpArgs false
set_option linter.unusedVariables false

namespace Fc
open Rs Src

namespace TieTryJoinT
open TryJoinT
open TieTryJoinA (tja_pollChild_tieM tja_abs_emitM tja_wakeA)

local macro "unroles" : tactic =>
  `(tactic| try simp only [TryJoin.roleKids, TryJoin.roleCount, TryJoin.roleWakers, TryJoin.roleStates,
      TryJoin.roleDone, TryJoin.roleItems] at *)

/-- what is shown of a call that returned `a = (g', env', ret)` -/
def PostT (N : Nat) (g : TryJoin) (b : Eng Fix) (w : Nat) (a : TryJoin × World × Ret) : Prop :=
  ∃ X : Eng Fix, Eng.poll tryJoinTuple (absT g b) w = X.emit (.pollEnd (outcomeOfTryJoin a.2.2)) ∧
    ExitT N b a.2.2 X a.1 a.2.1

/-- the call does not panic; the loop is the model's scan, the code after it the model's `close` -/
theorem ttj_poll_core (N : Nat) (g : TryJoin) (b : Eng Fix) (w : Nat) (hW : WfT N g) (hS : FutStepsF b.w)
    (hH : HandedIn N b.w) (hd : g.roleDone = false) :
    ∃ a, TryJoin.poll N g w ((absT g b).w.emit (.pollBegin w)) = some a ∧ PostT N g b w a := by
  obtain ⟨hpos, hkn, hrd, hsl, hic, hpc, hlt, hrs⟩ := hW
  obtain ⟨r1, hs1, hs2, hs3⟩ := TieArr.set_waker_tie N g.roleWakers.readiness
    ((absT g b).w.emit (.pollBegin w)) w hrd
  have hparent : r1.roleParent ≠ none := by
    have := congrArg World.parent hs3
    simp at this
    rw [this]; simp
  have hdead : (absT g b).s.dead = false := hd
  have hd' : (!g.roleDone) = true := by rw [hd]; rfl
  have hw1 : TieArr.abs r1 ((absT g b).w.emit (.pollBegin w)) = ((absT g b).w.emit (.pollBegin w)).setWaker w := by
    rw [hs3]; rfl
  have hl : ∀ i ∈ List.range N, i < N := fun i hi => List.mem_range.mp hi
  have hpoll : Eng.poll tryJoinTuple (absT g b) w
      = Eng.close tryJoinTuple (Eng.scan tryJoinTuple (List.range N)
          { w := ((absT g b).w.emit (.pollBegin w)).setWaker w, s := (absT g b).s }) := by
    have := ttj_poll_loop (absT g b) w (by simp only [absT]; omega) hdead
    rw [this]
    simp only [absT, hkn]
  unfold TryJoin.poll
  unroles
  simp only [hd', hs1, ↓reduceIte, Option.bind_eq_bind, Option.bind_some, Option.pure_def]
  refine TieLoop.bind_spec _ _
    (TieLoop.LoopPost tryJoinTuple outcomeOfTryJoin (fun (s : TryJoin × World) e => RelT N b.s.off e s.1 s.2)
      (fun v (s : TryJoin × World) e => ExitT N b v e s.1 s.2)
      (List.range N) { w := ((absT g b).w.emit (.pollBegin w)).setWaker w, s := (absT g b).s }) _
    (TieLoop.forCtl_scan tryJoinTuple outcomeOfTryJoin _ _ (fun i => i < N) _ ?hF (List.range N) hl _ _ ?hR) ?hK
  case hR =>
    exact ⟨hw1.symm, hkn, hkn, rfl, rfl, rfl, rfl, hdead, hd, hlt, hs2, hsl, hic, hpc, hrs, hparent,
      fun c i hm => hH c i hm, hS⟩
  case hK =>
    rintro ⟨⟨g', env'⟩, r⟩ hpost
    rcases hpost with ⟨hr, hx, hR'⟩ | ⟨v, hr, hx, hex⟩
    · dsimp only at hr hR' ⊢
      subst hr
      refine ⟨_, rfl, _, ?_, hR'.ew, hR'.kids, hR'.hin, hR'.sok, fun _ => hR', fun x h => (by cases h),
        fun vs h => (by cases h), fun h => absurd rfl h⟩
      rw [hpoll, ttj_close_pend _ hx]
      rfl
    · dsimp only at hr hex ⊢
      subst hr
      refine ⟨_, rfl, _, ?_, hex⟩
      rw [hpoll, ttj_close_ret _ _ hx]
  case hF =>
    clear hs1 hs2 hs3 hkn hrd hsl hic hpc hrs hH hS hlt hpoll hl hparent hdead hw1 hd hd'
    clear g
    rintro ⟨g, env⟩ e i hi hR
    dsimp only at hi hR ⊢
    have hR0 := hR
    obtain ⟨hw, hen, hk, hst, hout, hcnt, hoff, hdead, hdone, hlt, hrd, hsl, hic, hpc, hrs, hpar, hhin, hsok⟩ := hR
    have hany := TieArr.any_ready_tie N g.roleWakers.readiness env
    obtain ⟨r2, hc1, hc2, hc3⟩ := TieArr.clear_ready_tie N g.roleWakers.readiness env i hrd hi
    have hpar2 : r2.roleParent ≠ none := by
      have := congrArg World.parent hc3
      simp at this
      rw [this]; exact hpar
    have hidx : Rs.PVec.idx g.roleStates i = some (g.roleStates.get i) := by
      simp [Rs.PVec.idx, hsl, hi]
    have hisr := (TiePS.tie (g.roleStates.get i)).2.2.1
    have hkid : Rs.Kids.get g.roleKids i = some i := by simp [Rs.Kids.get, hk, hi]
    obtain ⟨r3, env3, hp1, hp2, hp3, hp4, hp5, hp6⟩ := tja_pollChild_tieM N r2 env i i hc2 hpar2 hhin hi
    have hsok3 : FutStepsF env3 := hsok.tj_tail i hp6
    try simp only [tja_wakeA] at hp1
    cases ha : (TieArr.abs g.roleWakers.readiness env).anyReady
    · -- nothing is ready: `Pending` from inside the loop
      have hv := ttj_visit_idle e i (by rw [hw]; exact ha)
      rw [ha] at hany
      unroles
      simp only [hany, Option.bind_some, Bool.not_false, ↓reduceIte]
      refine ⟨_, _, rfl, Or.inr ⟨.pending, rfl, ?_, ?_⟩⟩
      · rw [hv]; rfl
      · rw [hv]
        exact ⟨hw, hk, hhin, hsok, fun _ => hR0, fun x h => (by cases h), fun vs h => (by cases h),
          fun h => absurd rfl h⟩
    · have ha' : e.w.anyReady = true := by rw [hw]; exact ha
      rw [ha] at hany
      cases hset : (TieArr.abs g.roleWakers.readiness env).isSet i
      · -- the flag of the slot is clear
        have hv := ttj_visit_skip e i ha' (Or.inl (by rw [hw]; exact hset))
        rw [hset] at hc1
        unroles
        simp only [hany, hc1, Option.bind_some, Bool.not_true, Bool.not_false, Bool.false_eq_true, ↓reduceIte]
        refine ⟨_, _, rfl, Or.inl ⟨rfl, ?_, ?_⟩⟩
        · rw [hv]
        · rw [hv]
          refine ⟨?_, hen, hk, hst, hout, hcnt, hoff, hdead, hdone, hlt, hc2, hsl, hic, hpc, hrs, hpar2, hhin, hsok⟩
          unroles
          rw [hc3, hw]
      · have hset' : e.w.isSet i = true := by rw [hw]; exact hset
        have hres' : e.w.resOf i = env.resOf i := by rw [hw]; rfl
        rw [hset] at hc1
        by_cases hsp : TiePS.abs (g.roleStates.get i) = .ready
        · -- the slot's child has completed already: the stale flag is cleared
          have hv := ttj_visit_skip e i ha' (Or.inr (by rw [hst]; exact hsp))
          unroles
          simp only [hany, hc1, hidx, hisr, hsp, decide_true, Option.bind_some, Bool.not_true, Bool.false_eq_true,
            ↓reduceIte]
          refine ⟨_, _, rfl, Or.inl ⟨rfl, ?_, ?_⟩⟩
          · rw [hv]
          · rw [hv]
            refine ⟨?_, hen, hk, hst, hout, hcnt, hoff, hdead, hdone, hlt, hc2, hsl, hic, hpc, hrs, hpar2, hhin, hsok⟩
            unroles
            rw [hc3, hw]
        · have hsp' : e.s.st i ≠ .ready := by rw [hst]; exact hsp
          have hgp : g.roleStates.get i ≠ PS.PollState.ready := fun h => hsp (TieTryJoinV.tj_abs_ready.mpr h)
          have hne : (N == g.roleCount) = false := by rw [beq_eq_false_iff_ne]; omega
          unroles
          simp only [hany, hc1, hidx, hisr, hsp, decide_false, Option.bind_some, Bool.not_true, Bool.false_eq_true,
            ↓reduceIte, WakerArray.get, hi, Rs.expect, hkid, decide_true, Rs.pollResFut, hp1]
          rcases hsok.tj_resOf i with hres | ⟨ok, v, hres⟩
          · -- Pending
            have hv := ttj_visit_pend e i ha' hsp' hset' (by rw [hres', hres])
            simp only [hres, Option.bind_some, hne, Bool.false_eq_true, ↓reduceIte]
            refine ⟨_, _, rfl, Or.inl ⟨rfl, ?_, ?_⟩⟩
            · rw [hv]
            · rw [hv]
              refine ⟨?_, hen, hk, hst, hout, hcnt, hoff, hdead, hdone, hlt, hp2, hsl, hic, hpc, hrs, hp3, hp5, hsok3⟩
              unroles
              rw [hp4, hc3, hw]
          · have hW3 : (((TieArr.abs g.roleWakers.readiness env).clearReady i).pollChild i i).emit
                (.childDropped i) = TieArr.abs r3 (env3.emit (.childDropped i)) := by
              rw [tja_abs_emitM, hp4, hc3]
            cases ok
            · -- Ready(Err(v)): the counter is incremented, `consumed` set, the state becomes `None`, the child is
              -- released, the poll returns the error from inside the loop
              have hv := ttj_visit_err e i v ha' hsp' hset' (by rw [hres', hres])
              obtain ⟨q, hq1, hq2⟩ := (TiePS.tie (g.roleStates.get i)).2.2.2.1
              have hset2 : Rs.PVec.set g.roleStates i q
                  = some ⟨g.roleStates.len, fun j => if j = i then q else g.roleStates.get j⟩ := by
                simp [Rs.PVec.set, hsl, hi]
              unroles
              simp only [hres, Option.bind_some, hidx, hq1, hset2, Rs.uadd]
              refine ⟨_, _, rfl, Or.inr ⟨_, rfl, ?_, ?_⟩⟩
              · rw [hv]; rfl
              · rw [hv]
                refine ⟨?_, hk, hp5, hsok3, fun h => (by cases h), fun x _ => ?_, fun vs h => (by cases h), fun _ => rfl⟩
                · unroles
                  rw [hw, hW3]
                · simp only [jcore, fcore, absT, hw, hW3, hen, hcnt, hoff, hout]
                  simp only [TieArr.abs, World.withStd]
                  unroles
                  simp only [hk, JCore.mk.injEq, FCore.mk.injEq, true_and, and_true]
                  funext j
                  by_cases hj : j = i <;> simp [upd, hj, hq2, hst]
            · -- Ready(Ok(v)): the counter is incremented, the output stored, the state set, the child released
              obtain ⟨q, hq1, hq2⟩ := (TiePS.tie (g.roleStates.get i)).2.2.2.2.2
              have hqr : q = PS.PollState.ready := TieTryJoinV.tj_abs_ready.mp hq2
              subst hqr
              have hwrite : Rs.OutVec.write g.roleItems i v
                  = some ⟨g.roleItems.cap, fun j => if j = i then some v else g.roleItems.get j⟩ := by
                simp [Rs.OutVec.write, hic, hi]
              have hset2 : Rs.PVec.set g.roleStates i PS.PollState.ready
                  = some ⟨g.roleStates.len, fun j => if j = i then PS.PollState.ready else g.roleStates.get j⟩ := by
                simp [Rs.PVec.set, hsl, hi]
              have hflip := ttj_count_set g.roleStates.get i N hi hgp
              unroles
              simp only [hres, Option.bind_some, hwrite, hidx, hq1, hset2, Rs.uadd]
              by_cases hlast : g.roleCount + 1 = N
              · -- the LAST child: the outputs are moved out, the poll returns from inside the loop
                have hv := ttj_visit_last e i v ha' hsp' hset' (by rw [hres', hres]) (by rw [hcnt, hen]; exact hlast)
                have hall : ∀ j, j < N → ∃ x, (if j = i then some v else g.roleItems.get j) = some x := by
                  intro j hj
                  by_cases hji : j = i
                  · exact ⟨v, by simp [hji]⟩
                  · have := ttj_filter_full
                      (fun j => decide ((if j = i then PS.PollState.ready else g.roleStates.get j) = PS.PollState.ready))
                      N (by unroles; omega) j hj
                    simp only [hji, if_false, decide_eq_true_eq] at this ⊢
                    rcases hrs j hj with h | h
                    · unroles
                      rw [h] at this; cases this
                    · exact h.2
                have htake := ttj_take_all ⟨g.roleItems.cap, fun j => if j = i then some v else g.roleItems.get j⟩
                  (fun j hj => hall j (by rw [← hic]; exact hj))
                have heq2 : (N == g.roleCount + 1) = true := by rw [beq_iff_eq]; omega
                unroles
                simp only [heq2, ↓reduceIte, htake, Option.bind_some]
                refine ⟨_, _, rfl, Or.inr ⟨_, rfl, ?_, ?_⟩⟩
                · rw [hv]
                  simp only [outcomeOfTryJoin, hen, hic, hout, upd]
                · rw [hv]
                  refine ⟨?_, hk, hp5, hsok3, fun h => (by cases h), fun x h => (by cases h), fun vs _ => ?_, fun _ => rfl⟩
                  · unroles
                    rw [hw, hW3]
                  · simp only [TieTryJoinV.jcoreDone, absT, hw, hW3, hen, hcnt, hoff]
                    simp only [TieArr.abs, World.withStd]
                    unroles
                    simp only [hk, true_and, and_true]
                    intro j _
                    rfl
              · have hv := ttj_visit_ok e i v ha' hsp' hset' (by rw [hres', hres]) (by rw [hcnt, hen]; exact hlast)
                have hne2 : (N == g.roleCount + 1) = false := by rw [beq_eq_false_iff_ne]; omega
                unroles
                simp only [hne2, Bool.false_eq_true, ↓reduceIte]
                refine ⟨_, _, rfl, Or.inl ⟨rfl, ?_, ?_⟩⟩
                · rw [hv]
                · rw [hv]
                  refine ⟨?_, hen, hk, ?_, ?_, ?_, hoff, hdead, hdone, ?_, hp2, hsl, hic, ?_, ?_, hp3, hp5, hsok3⟩
                  · unroles
                    rw [hw, hW3]
                  · unroles
                    funext j
                    by_cases hj : j = i <;> simp [upd, hj, hq2, hst, TiePS.abs]
                  · unroles
                    funext j
                    by_cases hj : j = i <;> simp [upd, hj, hout]
                  · unroles
                    simp only [hcnt]
                  · unroles
                    omega
                  · unroles
                    omega
                  · intro j hj
                    unroles
                    by_cases hji : j = i
                    · subst hji
                      right
                      simp
                    · simp only [hji, if_false]
                      exact hrs j hj

end TieTryJoinT
end Fc
