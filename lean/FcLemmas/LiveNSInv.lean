/-
  FcLemmas/LiveNSInv.lean — the run invariant `SBN` of a nest of STREAM combinators under the
  wake-only executor, and the facts about the inner instances' speculative polls.  Same plan as
  FcLemmas/LiveNInv.lean (futures), stated against the interface `SLive` (FcLemmas/LiveNStr.lean) so
  that merge / zip (`Live3.LBS`) and chain (`Live3.LBC`) can sit at either level.
-/
import FcLemmas.LiveNStr
import FcLemmas.LiveNInv
set_option linter.unusedSimpArgs false
set_option linter.unusedVariables false

namespace Fc
namespace LiveN
open Mon Live Live3 Nest

/-- the run invariants of the instances of a nest of streams -/
structure SNest (nc : NCase) where
  InvO : Eng Fix → Prop
  InvI : Nat → Eng Fix → Prop
  so : SLive nc.outer.policy nc.n InvO
  si : ∀ c fam k, nc.inner c = some (fam, k) → SLive fam.policy k (InvI c)

structure SBN (nc : NCase) (F : SNest nc) (s : St) : Prop where
  ninv : NInv nc s
  vo : ∃ f, (∀ c, nc.inner c = none → f c = s.out.w.scripts c) ∧ F.InvO (setScripts s.out f)
  inn : ∀ c fam k, c < nc.n → nc.inner c = some (fam, k) → lastRes s.out.w.trace c ≠ some .fin →
        F.InvI c (s.inn c) ∧ s.gone c = false

/-- scripted steps left in outer slot `c` that still matter -/
def mInS (nc : NCase) (s : St) (c : Nat) : Nat :=
  match nc.inner c with
  | none => (s.out.w.scripts c).length
  | some (_, k) => if lastRes s.out.w.trace c = some .fin then 0 else Exec.stepsLeft k (s.inn c)

def muS (nc : NCase) (s : St) : Nat := total (mInS nc s) nc.n

theorem mInS_plain {nc : NCase} {s : St} {c : Nat} (h : nc.inner c = none) :
    mInS nc s c = (s.out.w.scripts c).length := by simp [mInS, h]

theorem mInS_nested {nc : NCase} {s : St} {c : Nat} {fam : Fam} {k : Nat}
    (h : nc.inner c = some (fam, k)) (hu : lastRes s.out.w.trace c ≠ some .fin) :
    mInS nc s c = Exec.stepsLeft k (s.inn c) := by
  simp [mInS, h, hu]

theorem mInS_ended {nc : NCase} {s : St} {c : Nat} {fam : Fam} {k : Nat}
    (h : nc.inner c = some (fam, k)) (hu : lastRes s.out.w.trace c = some .fin) :
    mInS nc s c = 0 := by
  simp [mInS, h, hu]

/-! ### one poll of a stream instance, from `SLive` -/

section flat
variable {P : Policy Fix} {n : Nat} {Inv : Eng Fix → Prop}

theorem lastOut_poll_some (P : Policy Fix) (e : Eng Fix) (wid : Nat) :
    ∃ o, lastOut (Eng.poll P e wid).w.trace = some o := by
  obtain ⟨o, t, ht⟩ := Eng.poll_head P e wid
  exact ⟨o, by rw [ht]; rfl⟩

/-- a polled input consumed a step -/
theorem sl_polled_lt (S : SLive P n Inv) (e : Eng Fix) (wid : Nat) (h : Inv e) (c : Nat)
    (hc : polledSince (Eng.poll P e wid).w.trace c = true) :
    Exec.stepsLeft n (Eng.poll P e wid) < Exec.stepsLeft n e := by
  have hP := S.pe e wid h
  have := hP.ps c hc
  exact total_lt _ _ n (fun c _ => hP.le c) c this.1 this.2

/-- what one poll of an instance with invariant `Inv` does -/
theorem sl_poll_cases (S : SLive P n Inv) (e : Eng Fix) (wid : Nat) (h : Inv e) :
    lastOut (Eng.poll P e wid).w.trace = some .none ∨
    (Inv (Eng.poll P e wid) ∧ lastOut (Eng.poll P e wid).w.trace = some .pending ∧
      (∀ g, g < n → lastRes e.w.trace g = some .pend → owes e.w.trace g = true →
        Exec.stepsLeft n (Eng.poll P e wid) < Exec.stepsLeft n e)) ∨
    (Inv (Eng.poll P e wid) ∧ (∃ k vs, lastOut (Eng.poll P e wid).w.trace = some (.some k vs)) ∧
      Exec.stepsLeft n (Eng.poll P e wid) < Exec.stepsLeft n e) := by
  rcases S.poll e wid h with hv | h'
  · exact Or.inl hv
  · obtain ⟨o, ho⟩ := lastOut_poll_some P e wid
    rcases S.lo _ h' with h1 | h1 | ⟨k, vs, h1⟩
    · rw [ho] at h1; cases h1
    · right; left
      refine ⟨h', h1, fun g hg hp ho' => ?_⟩
      exact sl_polled_lt S e wid h g (S.c20 e wid h h1 g hg hp ho')
    · right; right
      obtain ⟨c, v, hc, _⟩ := S.item e wid h k vs h1
      exact ⟨h', ⟨k, vs, h1⟩, sl_polled_lt S e wid h c hc⟩

end flat

/-! ### the speculative poll of an inner instance -/

variable {nc : NCase} {F : SNest nc} {s : St}

/-- the answer a nested stream that has not ended would give now -/
theorem sspec_cases (h : SBN nc F s) {c : Nat} {fam : Fam} {k : Nat} (hc : c < nc.n)
    (hin : nc.inner c = some (fam, k)) (hun : lastRes s.out.w.trace c ≠ some .fin) :
    (stepE nc s c).res = .fin ∨
    ((stepE nc s c).res = .pend ∧ F.InvI c (specE nc s c) ∧
      (∀ g, g < k → lastRes (s.inn c).w.trace g = some .pend → owes (s.inn c).w.trace g = true →
        Exec.stepsLeft k (specE nc s c) < Exec.stepsLeft k (s.inn c))) ∨
    ((∃ v, (stepE nc s c).res = .item v) ∧ F.InvI c (specE nc s c) ∧
      Exec.stepsLeft k (specE nc s c) < Exec.stepsLeft k (s.inn c)) := by
  have hi := (h.inn c fam k hc hin hun).1
  rw [specE_eq hin]
  rcases sl_poll_cases (F.si c fam k hin) (s.inn c) (s.polls c + 1) hi with
    hv | ⟨h', hlo', hEE⟩ | ⟨h', ⟨k', vs, hlo'⟩, hlt⟩
  · left
    rw [← specE_eq hin] at hv
    rw [stepE_res_of_lastOut hv]; rfl
  · right; left
    refine ⟨?_, h', hEE⟩
    rw [← specE_eq hin] at hlo'
    rw [stepE_res_of_lastOut hlo']; rfl
  · right; right
    refine ⟨?_, h', hlt⟩
    rw [← specE_eq hin] at hlo'
    rw [stepE_res_of_lastOut hlo']
    exact ⟨_, rfl⟩

theorem sspec_le (F : SNest nc) {c : Nat} {fam : Fam} {k : Nat} (hin : nc.inner c = some (fam, k)) :
    Exec.stepsLeft k (specE nc s c) ≤ Exec.stepsLeft k (s.inn c) := by
  rw [specE_eq hin]
  exact stepsLeft_le_of_poll (F.si c fam k hin).law k _ _

/-- a speculative poll in which the inner instance invoked ANY waker consumed a leaf's step -/
theorem sspec_woke (h : SBN nc F s) {c : Nat} {fam : Fam} {k : Nat} (hc : c < nc.n)
    (hin : nc.inner c = some (fam, k)) (hun : lastRes s.out.w.trace c ≠ some .fin)
    (hw : wokeAny (specE nc s c).w.trace) :
    Exec.stepsLeft k (specE nc s c) < Exec.stepsLeft k (s.inn c) := by
  have hi := (h.inn c fam k hc hin hun).1
  have S := F.si c fam k hin
  rw [specE_eq hin] at hw ⊢
  obtain ⟨g, hg⟩ := poll_woke_polled S.law _ _ hw
  exact sl_polled_lt S (s.inn c) (s.polls c + 1) hi g hg

end LiveN
end Fc
