/-
  FcLemmas/GOwnRun.lean — the group's own operations (`insert`, `remove`, `reserve`, `extend`,
  queries) preserve the invariant `GI`; the number of completed drops of a group history; the
  invariant along every history whose inserted ids are pairwise distinct.
-/
import FcLemmas.GOwnInst
set_option linter.unusedSimpArgs false
set_option linter.unusedVariables false

namespace Fc
namespace GOwn
open Mon Grp

/-! ### the number of completed drops -/

section nd
variable {σ : Type} {P : Policy σ}

/-- handlers only emit ownership events -/
structure OwnEvs (P : Policy σ) : Prop where
  handle : ∀ s i r e, e ∈ (P.handle s i r).evs → isOwnEv e = true
  finish : ∀ s e, e ∈ (P.finish s).evs → isOwnEv e = true
  panic : ∀ s e, e ∈ P.panicEvs s → isOwnEv e = true
  drop : ∀ s e, e ∈ P.dropEvs s → isOwnEv e = true

theorem nd_visit (L : OwnEvs P) (e : Eng σ) (i : Nat) :
    C02b.nd (Eng.visit P e i).1.w.trace = C02b.nd e.w.trace := by
  refine Eng.visit_ind P e i (fun r => C02b.nd r.1.w.trace = C02b.nd e.w.trace) ?_ ?_ ?_ ?_
  · intro _ _; rfl
  · intro _ _; simp only [Sim.gateW_trace]
  · intro _ _ _
    simp only
    rw [C02b.nd_emits _ _ (L.panic _), C02b.nd_pollChild, Sim.gateW_trace]
  · intro _ _ _
    simp only [Eng.applyH_w, World.kop_trace]
    rw [C02b.nd_emits _ _ (L.handle _ _ _), C02b.nd_pollChild, Sim.gateW_trace]

theorem nd_scan (L : OwnEvs P) (l : List Nat) (e : Eng σ) :
    C02b.nd (Eng.scan P l e).1.w.trace = C02b.nd e.w.trace := by
  induction l generalizing e with
  | nil => rfl
  | cons i rest ih =>
    unfold Eng.scan
    cases hv : (Eng.visit P e i).2 with
    | some o => simp only; exact nd_visit L e i
    | none => simp only; rw [ih]; exact nd_visit L e i

theorem nd_poll (L : OwnEvs P) (e : Eng σ) (w : Nat) :
    C02b.nd (Eng.poll P e w).w.trace = C02b.nd e.w.trace := by
  unfold Eng.poll
  split
  · simp [C02b.nd]
  · unfold Eng.body
    simp only
    split
    · simp [C02b.nd]
    · unfold Eng.close
      split
      · simp only [Eng.emit_w, World.emit_trace, C02b.nd]
        rw [nd_scan L]
        simp [C02b.nd]
      · simp only [Eng.emit_w, Eng.applyH_w, World.emit_trace, World.kop_trace, C02b.nd]
        rw [C02b.nd_emits _ _ (L.finish _), nd_scan L]
        simp [C02b.nd]

theorem nd_fire (e : Eng σ) (c a : Nat) : C02b.nd (e.fire c a).w.trace = C02b.nd e.w.trace := by
  obtain ⟨l, hl, hf⟩ := World.fire_seg e.w c a
  simp only [Eng.fire_w, hl]
  exact C02b.nd_fires _ _ hf

end nd

theorem ownEvs_group : OwnEvs group where
  handle := by
    intro s i r e he
    cases r <;> simp [group] at he <;> subst he <;> rfl
  finish := by intro s e he; simp [group] at he
  panic := by intro s e he; simp [group] at he
  drop := by intro s e he; rw [dropEvs_eq] at he; exact own_mapDropped _ e he

/-! ### group operations: what they leave alone -/

/-- `s'` differs from `s` only in bookkeeping the invariant does not look at -/
structure SameCore (s' s : Grp) : Prop where
  member : s'.member = s.member
  vac : s'.vac = s.vac
  entries : s'.entries = s.entries
  next : s'.next = s.next
  st : s'.st = s.st
  keys : s'.keys = s.keys
  queue : s'.queue = s.queue
  dead : s'.dead = s.dead

theorem SameCore.refl (s : Grp) : SameCore s s := ⟨rfl, rfl, rfl, rfl, rfl, rfl, rfl, rfl⟩

theorem reserve_core (e : Eng Grp) (k : Nat) : SameCore (GEng.reserve e k).s e.s := by
  unfold GEng.reserve; split <;> exact ⟨rfl, rfl, rfl, rfl, rfl, rfl, rfl, rfl⟩

theorem grow_core (e : Eng Grp) : SameCore (GEng.grow e).s e.s := by
  unfold GEng.grow; split
  · exact reserve_core e _
  · exact SameCore.refl _

theorem GI.core {F : Nat → Prop} {s s' : Grp} {t : List Ev} (h : GI F s t) (c : SameCore s' s) :
    GI F s' t :=
  ⟨h.1, h.2.same c.member c.vac c.entries c.next c.st c.keys c.queue c.dead⟩

theorem GI.weaken {F F' : Nat → Prop} {s : Grp} {t : List Ev} (h : GI F s t)
    (hF : ∀ c, F' c → F c) : GI F' s t := ⟨h.1, h.2.weaken hF⟩

/-- an event outside a poll that the observations ignore (`answer`, `removed _ false`) -/
theorem GI.quiet {F : Nat → Prop} {s : Grp} {t : List Ev} (h : GI F s t) (e : Ev)
    (hq : quietEv e = true) (hr : evRet e = []) (hip : inPoll (e :: t) = inPoll t) :
    GI F s (e :: t) := ⟨by rw [hip]; exact h.1, h.2.quiet e hq hr⟩

/-! ### `remove` -/

theorem gi_remove {F : Nat → Prop} (e : Eng Grp) (j : Nat) (h : GI F e.s e.w.trace)
    (hd : e.s.dead = false) :
    GI F (GEng.remove e j).s (GEng.remove e j).w.trace := by
  unfold GEng.remove
  split
  · exact h
  · rename_i k _
    split
    · rename_i hin
      have hin' : k ∈ e.s.keys := by simpa using hin
      have nd0 := h.2.nd0 hd
      have p := h.2.pre nd0
      obtain ⟨c, hc⟩ : ∃ c, e.s.member k = some c := by
        rcases p.sa.kq k hin' with h1 | h1
        · cases hm : e.s.member k with
          | none => exact absurd hm h1
          | some c => exact ⟨c, rfl⟩
        · rw [p.q hd] at h1; cases h1
      simp only [World.emit_trace, hc, Option.getD_some]
      refine ⟨by simpa [inPoll] using h.1, GC.ofPre ?_ ?_ ?_ ?_ ⟨?_, ?_, ?_, ?_⟩⟩
      · rw [C03.holds_notCB _ _ _ rfl, C03.holds_notCB _ _ _ rfl]; exact h.2.c03
      · simpa [finalSeen] using h.2.fs
      · intro x hx; rw [keyOf_notIns x _ _ rfl, keyOf_notIns x _ _ rfl]; exact h.2.fresh x hx
      · simpa [C02b.nd] using nd0
      · simpa [alive] using p.al
      · refine p.sa.release hc rfl rfl rfl rfl rfl (Or.inl ⟨rfl, rfl⟩) ?_ ?_ ?_
        · intro x; rw [keyOf_notIns x _ _ rfl, keyOf_notIns x _ _ rfl]
        · intro x
          simp only [dcnt, droppedChildren, List.count_cons]
          by_cases hxc : x = c
          · subst hxc; simp
          · have : ¬ c = x := fun h' => hxc h'.symm
            simp [hxc, this]
        · intro x _ hx
          rw [C03.finished_skip _ _ _ (by simp), C03.finished_skip _ _ _ (by simp)]
          exact hx
      · intro _; exact p.q hd
      · intro v
        simpa [returnedVals, droppedVals, producedVals] using p.acc v
    · exact h.quiet (.removed k false) rfl rfl rfl

/-! ### `insert` -/

theorem slabInsert_member (s : Grp) (c : Nat) :
    (s.slabInsert c).member = upd s.member s.next (some c) := by
  unfold slabInsert; split <;> rfl

theorem slabInsert_vac (s : Grp) (c : Nat) : (s.slabInsert c).vac = s.vac := by
  unfold slabInsert; split <;> rfl

theorem slabInsert_queue (s : Grp) (c : Nat) : (s.slabInsert c).queue = s.queue := by
  unfold slabInsert; split <;> rfl

theorem slabInsert_dead (s : Grp) (c : Nat) : (s.slabInsert c).dead = s.dead := by
  unfold slabInsert; split <;> rfl

theorem slabInsert_ne (s : Grp) (c : Nat) :
    (s.next = s.entries ∧ (s.slabInsert c).entries = s.entries + 1 ∧
      (s.slabInsert c).next = s.next + 1) ∨
    (s.next ≠ s.entries ∧ (s.slabInsert c).entries = s.entries ∧
      (s.slabInsert c).next = s.vac s.next) := by
  unfold slabInsert
  by_cases h : s.next = s.entries
  · left; simp [h]
  · right; simp [h]

theorem insertAt_dead (e : Eng Grp) (c : Nat) (keep : Bool) :
    (GEng.insertAt e c keep).s.dead = e.s.dead := slabInsert_dead _ _

/-- `insert_at` proper, for a new member id -/
theorem gi_insertAt {F F' : Nat → Prop} (e : Eng Grp) (c : Nat) (keep : Bool)
    (h : GI F e.s e.w.trace) (hd : e.s.dead = false) (hc : F c)
    (hF : ∀ x, F' x → F x ∧ x ≠ c) :
    GI F' (GEng.insertAt e c keep).s (GEng.insertAt e c keep).w.trace := by
  rw [GEng.insertAt_trace]
  have nd0 := h.2.nd0 hd
  have p := h.2.pre nd0
  have hfresh := h.2.fresh c hc
  refine ⟨by simpa [inPoll] using h.1, GC.ofPre ?_ ?_ ?_ ?_ ⟨?_, ?_, ?_, ?_⟩⟩
  · rw [C03.holds_notCB _ _ _ rfl]; exact h.2.c03
  · simpa [finalSeen] using h.2.fs
  · intro x hx
    obtain ⟨hx1, hx2⟩ := hF x hx
    have : ¬ c = x := fun h' => hx2 h'.symm
    simp only [keyOf, this, if_false]
    exact h.2.fresh x hx1
  · simpa [C02b.nd] using nd0
  · simpa [alive] using p.al
  · refine p.sa.insert (p.q hd) hfresh (slabInsert_member _ _) (slabInsert_vac _ _)
      (slabInsert_ne _ _) rfl rfl (slabInsert_queue _ _) ?_ ?_ ?_
    · intro x
      simp only [keyOf]
      by_cases hxc : x = c
      · subst hxc; simp
      · have : ¬ c = x := fun h' => hxc h'.symm
        simp [hxc, this]
    · intro x; simp [dcnt, droppedChildren]
    · intro x; exact C03.finished_skip _ _ _ (by simp)
  · intro _
    show (e.s.slabInsert c).queue = []
    rw [slabInsert_queue]; exact p.q hd
  · intro v
    simpa [returnedVals, droppedVals, producedVals] using p.acc v

/-- the capacity check in front of `insert_at` -/
theorem gi_grow {F : Nat → Prop} (e : Eng Grp) (h : GI F e.s e.w.trace) :
    GI F (GEng.grow e).s (GEng.grow e).w.trace := by
  rw [GEng.grow_trace]; exact h.core (grow_core e)

theorem gi_reserve {F : Nat → Prop} (e : Eng Grp) (k : Nat) (h : GI F e.s e.w.trace) :
    GI F (GEng.reserve e k).s (GEng.reserve e k).w.trace := by
  rw [GEng.reserve_trace]; exact h.core (reserve_core e k)

theorem gi_extend_fold {F : Nat → Prop} (cs : List Nat) : ∀ (e : Eng Grp) (F : Nat → Prop),
    GI F e.s e.w.trace → e.s.dead = false → cs.Nodup → (∀ c ∈ cs, F c) →
    GI (fun x => F x ∧ x ∉ cs)
      (cs.foldl (fun e c => GEng.insertAt (GEng.grow e) c false) e).s
      (cs.foldl (fun e c => GEng.insertAt (GEng.grow e) c false) e).w.trace := by
  induction cs with
  | nil => intro e F h _ _ _; exact h.weaken (fun x hx => hx.1)
  | cons c cs ih =>
    intro e F h hd hn hF
    simp only [List.foldl_cons]
    have hn' := List.nodup_cons.mp hn
    have hdg : (GEng.grow e).s.dead = false := by rw [(grow_core e).dead]; exact hd
    have h1 : GI (fun x => F x ∧ x ≠ c) (GEng.insertAt (GEng.grow e) c false).s
        (GEng.insertAt (GEng.grow e) c false).w.trace :=
      gi_insertAt (GEng.grow e) c false (gi_grow e h) hdg (hF c (List.mem_cons_self ..))
        (fun x hx => hx)
    have h2 := ih _ _ h1 (by rw [insertAt_dead]; exact hdg) hn'.2
      (fun x hx => ⟨hF x (List.mem_cons_of_mem _ hx), fun hxc => hn'.1 (hxc ▸ hx)⟩)
    refine h2.weaken (fun x hx => ⟨⟨hx.1, fun hxc => hx.2 (hxc ▸ List.mem_cons_self ..)⟩,
      fun hxm => hx.2 (List.mem_cons_of_mem _ hxm)⟩)

/-- every group operation other than poll / fire / drop; `F` shrinks by the ids it inserts -/
theorem gi_groupOp {F : Nat → Prop} (e : Eng Grp) (op : Op) (hg : op.isGroupOp = true)
    (h : GI F e.s e.w.trace) (hn : (insertedIds op).Nodup) (hF : ∀ c ∈ insertedIds op, F c) :
    GI (fun x => F x ∧ x ∉ insertedIds op) (GEng.step e op).s (GEng.step e op).w.trace := by
  have hw : GI (fun x => F x ∧ x ∉ insertedIds op) e.s e.w.trace := h.weaken (fun x hx => hx.1)
  cases hd : e.s.dead with
  | true =>
    cases op <;> simp only [GEng.step, hd, if_true] <;> first | exact hw | simp [Op.isGroupOp] at hg
  | false =>
    cases op with
    | poll w => simp [Op.isGroupOp] at hg
    | fire c a => simp [Op.isGroupOp] at hg
    | drop => simp [Op.isGroupOp] at hg
    | insert c =>
      simp only [GEng.step, hd, Bool.false_eq_true, if_false, GEng.insert]
      have hdg : (GEng.grow e).s.dead = false := by rw [(grow_core e).dead]; exact hd
      exact gi_insertAt (GEng.grow e) c true (gi_grow e h) hdg (hF c (by simp [insertedIds]))
        (fun x hx => ⟨hx.1, by simpa [insertedIds] using hx.2⟩)
    | remove j =>
      simp only [GEng.step, hd, Bool.false_eq_true, if_false]
      exact (gi_remove e j h hd).weaken (fun x hx => hx.1)
    | reserve k =>
      simp only [GEng.step, hd, Bool.false_eq_true, if_false]
      exact (gi_reserve e k h).weaken (fun x hx => hx.1)
    | extend cs =>
      simp only [GEng.step, hd, Bool.false_eq_true, if_false, GEng.extend]
      have hdr : (GEng.reserve e cs.length).s.dead = false := by
        rw [(reserve_core e _).dead]; exact hd
      exact gi_extend_fold (F := F) cs _ F (gi_reserve e cs.length h) hdr hn hF
    | qLen =>
      simp only [GEng.step, hd, Bool.false_eq_true, if_false, GEng.query, World.emit_trace]
      exact hw.quiet _ rfl rfl rfl
    | qIsEmpty =>
      simp only [GEng.step, hd, Bool.false_eq_true, if_false, GEng.query, World.emit_trace]
      exact hw.quiet _ rfl rfl rfl
    | qContains j =>
      simp only [GEng.step, hd, Bool.false_eq_true, if_false]
      split
      · exact hw
      · simp only [GEng.query, World.emit_trace]
        exact hw.quiet _ rfl rfl rfl
    | qCapacity =>
      simp only [GEng.step, hd, Bool.false_eq_true, if_false, GEng.query, World.emit_trace]
      exact hw.quiet _ rfl rfl rfl

/-! ### the number of completed drops along a group history -/

theorem nd_insertAt (e : Eng Grp) (c : Nat) (keep : Bool) :
    C02b.nd (GEng.insertAt e c keep).w.trace = C02b.nd e.w.trace := by
  rw [GEng.insertAt_trace]; rfl

theorem nd_extend_fold (cs : List Nat) (e : Eng Grp) :
    C02b.nd (cs.foldl (fun e c => GEng.insertAt (GEng.grow e) c false) e).w.trace
      = C02b.nd e.w.trace := by
  induction cs generalizing e with
  | nil => rfl
  | cons c cs ih =>
    simp only [List.foldl_cons]
    rw [ih, nd_insertAt, GEng.grow_trace]

theorem nd_step (e : Eng Grp) (op : Op) :
    C02b.nd (GEng.step e op).w.trace
      = C02b.nd e.w.trace + (if C02b.isDrop op = true then 1 else 0) := by
  cases op with
  | poll w => simp only [GEng.step, C02b.isDrop]; rw [nd_poll ownEvs_group]; simp
  | fire c a => simp only [GEng.step, C02b.isDrop]; rw [nd_fire]; simp
  | drop =>
    simp only [GEng.step, C02b.isDrop, Eng.drop, World.emit_trace, World.emits_trace, if_true]
    exact C02b.nd_drop _ _ (ownEvs_group.drop _)
  | insert c =>
    simp only [GEng.step, C02b.isDrop]
    split
    · simp
    · simp [GEng.insert, nd_insertAt, GEng.grow_trace]
  | remove j =>
    simp only [GEng.step, C02b.isDrop]
    split
    · simp
    · unfold GEng.remove
      split
      · simp
      · split <;> simp [C02b.nd]
  | reserve k =>
    simp only [GEng.step, C02b.isDrop]
    split
    · simp
    · simp [GEng.reserve_trace]
  | extend cs =>
    simp only [GEng.step, C02b.isDrop]
    split
    · simp
    · simp [GEng.extend, nd_extend_fold, GEng.reserve_trace]
  | qLen => simp only [GEng.step, C02b.isDrop]; split <;> simp [GEng.query, C02b.nd]
  | qIsEmpty => simp only [GEng.step, C02b.isDrop]; split <;> simp [GEng.query, C02b.nd]
  | qContains j =>
    simp only [GEng.step, C02b.isDrop]
    split
    · simp
    · split <;> simp [GEng.query, C02b.nd]
  | qCapacity => simp only [GEng.step, C02b.isDrop]; split <;> simp [GEng.query, C02b.nd]

/-! ### every history with pairwise distinct inserted ids -/

theorem run (str : Bool) (m : Mode) (ops : List Op) : ∀ (e : Eng Grp), e.w.mode = m →
    ScriptsOk (KG str) e.w → (ops.flatMap insertedIds).Nodup →
    GI (fun x => x ∈ ops.flatMap insertedIds) e.s e.w.trace →
    (∃ F, GI F (ops.foldl GEng.step e).s (ops.foldl GEng.step e).w.trace) ∧
    C02b.nd (ops.foldl GEng.step e).w.trace
      = C02b.nd e.w.trace + (ops.filter C02b.isDrop).length := by
  induction ops with
  | nil => intro e _ _ _ h; exact ⟨⟨_, h⟩, rfl⟩
  | cons op ops ih =>
    intro e hm hk hn h
    simp only [List.foldl_cons, List.flatMap_cons] at hn h ⊢
    have hnd := List.nodup_append.mp hn
    have hcount : C02b.nd (GEng.step e op).w.trace + (ops.filter C02b.isDrop).length
        = C02b.nd e.w.trace + ((op :: ops).filter C02b.isDrop).length := by
      rw [nd_step, List.filter_cons]
      split <;> simp <;> omega
    by_cases hg : op.isGroupOp = true
    · have h1 := gi_groupOp e op hg h hnd.1 (fun c hc => List.mem_append_left _ hc)
      have h2 : GI (fun x => x ∈ ops.flatMap insertedIds) (GEng.step e op).s
          (GEng.step e op).w.trace :=
        h1.weaken (fun x hx => ⟨List.mem_append_right _ hx, fun hin => hnd.2.2 x hin x hx rfl⟩)
      have hms := GEng.step_ms e op hg
      obtain ⟨r1, r2⟩ := ih _ (by rw [hms.1]; exact hm) (hk.of_scripts hms.2) hnd.2.1 h2
      exact ⟨r1, by rw [r2, hcount]⟩
    · cases op with
      | poll w =>
        simp only [insertedIds, List.nil_append] at h
        have hp := SimL.pollT (sim_group str _ m) e w hm hk h
        obtain ⟨r1, r2⟩ := ih _ hp.1 hp.2.1 hnd.2.1 hp.2.2
        exact ⟨r1, r2.trans hcount⟩
      | fire c a =>
        simp only [insertedIds, List.nil_append] at h
        have hp := SimL.fireT (sim_group str _ m) e c a hm hk h
        obtain ⟨r1, r2⟩ := ih _ hp.1 hp.2.1 hnd.2.1 hp.2.2
        exact ⟨r1, r2.trans hcount⟩
      | drop =>
        simp only [insertedIds, List.nil_append] at h
        have hp := SimL.dropT (sim_group str _ m) e hm hk h
        obtain ⟨r1, r2⟩ := ih _ hp.1 hp.2.1 hnd.2.1 hp.2.2
        exact ⟨r1, r2.trans hcount⟩
      | _ => simp [Op.isGroupOp] at hg

/-- the empty group -/
theorem gi_init (F : Nat → Prop) (stream keyed : Bool) : GI F (Grp.init stream keyed) [] := by
  refine ⟨rfl, GC.ofPre rfl rfl (fun _ _ => rfl) rfl ⟨rfl, ?_, fun _ => rfl, fun v => rfl⟩⟩
  exact
    { chain := ⟨[], rfl, List.nodup_nil⟩
      hi := fun _ _ => rfl
      sorted := List.Pairwise.nil
      live := fun k hk => absurd rfl hk
      kq := fun k hk => by cases hk
      pend := fun k => by simp [Grp.init]
      qv := fun k hk => by cases hk
      mem := fun k c hk => by simp [Grp.init] at hk
      unk := fun c _ => ⟨rfl, rfl⟩
      rel := fun c hc _ => absurd rfl hc }

/-- the invariant at the end of a group case -/
theorem run_case (c : Case) (hg : c.fam.isGroup = true) (hk : c.kindOk)
    (hw : Case.insertsFresh c) :
    (∃ F, GI F c.finalGrp.s c.finalGrp.w.trace) ∧
    C02b.nd c.finalGrp.w.trace = (c.ops.filter C02b.isDrop).length := by
  have hstr : ∃ str : Bool, ∀ ch, c.fam.childIsStream ch = str := by
    cases hf : c.fam <;> simp [Fam.isGroup, hf] at hg
    · exact ⟨false, fun _ => rfl⟩
    · exact ⟨true, fun _ => rfl⟩
  obtain ⟨str, hs⟩ := hstr
  have hsk : ScriptsOk (KG str) (GEng.init (c.fam = .strGroup) c.keyed c.mode c.scripts).w :=
    ⟨fun _ => rfl, fun ch st hm => by have := hk ch st hm; rw [hs] at this; exact this⟩
  have := run str c.mode c.ops (GEng.init (c.fam = .strGroup) c.keyed c.mode c.scripts) rfl hsk hw
    (gi_init _ _ _)
  refine ⟨this.1, ?_⟩
  rw [Case.finalGrp, this.2]
  simp [GEng.init, World.init, C02b.nd]

/-! ### from the invariant to the monitors -/

theorem holds_C02_of_gi {F : Nat → Prop} {s : Grp} {t : List Ev} (h : GI F s t)
    (h1 : C02b.nd t ≤ 1) (n : Nat) : holds_C02 false n t = true := by
  unfold holds_C02
  rw [C02b.dropCompleted_nd]
  by_cases h0 : C02b.nd t = 0
  · simp [h0]
  · have hp := h.2.post (by omega)
    have hmem : ∀ v, 0 < (producedVals t).count v → (producedVals t).contains v = true := by
      intro v hv
      rw [List.contains_iff_mem]
      exact List.count_pos_iff.mp hv
    simp only [Bool.or_eq_true, Bool.and_eq_true, List.all_eq_true, decide_eq_true_eq,
      Bool.false_or, List.mem_range]
    right
    refine ⟨⟨⟨⟨hp.quiet, fun c _ => hp.dc c⟩, fun v _ => hp.acc v⟩, fun v hv => hmem v ?_⟩,
      fun v hv => hmem v ?_⟩
    · have := List.count_pos_iff.mpr hv
      have := hp.acc v
      omega
    · have := List.count_pos_iff.mpr hv
      have := hp.acc v
      omega

end GOwn
end Fc
