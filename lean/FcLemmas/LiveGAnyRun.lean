/-
  FcLemmas/LiveGAnyRun.lean — liveness of FutureGroup / StreamGroup under the wake-only executor
  with an ARBITRARY environment schedule (Fc/ExecGAny.lean): the induction on the round budget, stated
  once for abstract invariants.

  `ProgA InvW Inv D M W` is `LiveG.ProgG` with
    (a) two invariants: `InvW` ("the group may be polled": all that `poll` needs; it also holds in
        the drained state, latest outcome `None`, together with `D`) and `Inv` (`InvW` plus: the latest outcome is
        nothing / `Pending` / an item — the states of a run that has not ended);
    (b) `fire` for EVERY waker `(id, age)`, not only the newest one of a member;
    (c) nothing about `ExecG.firstWaiting`: the facts about the prodded member (`woke`) are stated
        for ANY current member that is waiting.
  The run lemma `ends_aux` is the one of FcLemmas/LiveGRun.lean for `ExecGAny.runForB`: whichever
  waiting member the schedule picks, and whatever further wakers (stale ones, of ids that are not
  members) the environment fires before and after the prod, afterwards that member's wake-up is owed,
  the task has been woken, and the next poll consumes a step.  `ends_refill` starts from an `InvW`
  state with an unconditional poll (`ExecGAny.runRefillB`); `run_inv` says that a run stays inside
  `Inv ∨ (InvW ∧ drained)`.
-/
import FcLemmas.LiveGRun
import FcLemmas.LiveAny
import Fc.ExecGAny
set_option linter.unusedSimpArgs false
set_option linter.unusedVariables false

namespace Fc
namespace LiveGAny
open Mon Live LiveG

/-- the latest outcome is nothing / `Pending` / an item -/
def Lo3 (e : Eng Grp) : Prop :=
  lastOut e.w.trace = none ∨ lastOut e.w.trace = some .pending ∨
    ∃ k vs, lastOut e.w.trace = some (.some k vs)

/-- what the induction needs from the invariants -/
structure ProgA (InvW Inv D : Eng Grp → Prop) (M : Eng Grp → Nat) (W : Eng Grp → Prop) : Prop where
  weak : ∀ e, Inv e → InvW e
  lo : ∀ e, Inv e → Lo3 e
  poll : ∀ e wid, InvW e →
    (lastOut (Eng.poll group e wid).w.trace = some .none ∧ InvW (Eng.poll group e wid) ∧
      D (Eng.poll group e wid)) ∨
    (Inv (Eng.poll group e wid) ∧ M (Eng.poll group e wid) ≤ M e ∧
      ((lastOut (Eng.poll group e wid).w.trace ≠ some .pending ∧ M (Eng.poll group e wid) < M e) ∨
       (lastOut (Eng.poll group e wid).w.trace = some .pending ∧
          (M (Eng.poll group e wid) < M e ∨ wokeSince (Eng.poll group e wid).w.trace = false) ∧
          (W e → M (Eng.poll group e wid) < M e))))
  fire : ∀ e c a, Inv e → Inv (e.fire c a)
  mfire : ∀ e c a, M (e.fire c a) = M e
  wfire : ∀ e c a, W e → W (e.fire c a)
  /-- a pending group: some member is waiting -/
  waiting : ∀ e, Inv e → lastOut e.w.trace = some .pending →
    ∃ c, c ∈ ExecGAny.members e ∧ ExecGAny.isWaiting e c = true
  /-- prodding ANY waiting member: afterwards it is owed a poll and the task has been woken -/
  woke : ∀ e c, Inv e → lastOut e.w.trace = some .pending → c ∈ ExecGAny.members e →
    ExecGAny.isWaiting e c = true →
    W (e.fire c 0) ∧ wokeSince (e.fire c 0).w.trace = true ∧ 1 ≤ M e

variable {InvW Inv D : Eng Grp → Prop} {M : Eng Grp → Nat} {W : Eng Grp → Prop}

/-! ### a list of wake-ups -/

theorem fires_s : ∀ (l : List (Nat × Nat)) (e : Eng Grp), (ExecGAny.fires e l).s = e.s := by
  intro l
  induction l with
  | nil => intro e; rfl
  | cons p l ih => intro e; simp only [ExecGAny.fires]; rw [ih]; rfl

theorem fires_lastOut : ∀ (l : List (Nat × Nat)) (e : Eng Grp),
    lastOut (ExecGAny.fires e l).w.trace = lastOut e.w.trace := by
  intro l
  induction l with
  | nil => intro e; rfl
  | cons p l ih =>
    intro e
    simp only [ExecGAny.fires]
    rw [ih]; exact C01.lastOut_fire e.w p.1 p.2

theorem fires_lastRes : ∀ (l : List (Nat × Nat)) (e : Eng Grp) (j : Nat),
    lastRes (ExecGAny.fires e l).w.trace j = lastRes e.w.trace j := by
  intro l
  induction l with
  | nil => intro e j; rfl
  | cons p l ih =>
    intro e j
    simp only [ExecGAny.fires]
    rw [ih]; exact C16.lastRes_fire e.w p.1 p.2 j

theorem fires_scripts : ∀ (l : List (Nat × Nat)) (e : Eng Grp),
    (ExecGAny.fires e l).w.scripts = e.w.scripts := by
  intro l
  induction l with
  | nil => intro e; rfl
  | cons p l ih =>
    intro e
    simp only [ExecGAny.fires]
    rw [ih]; simp

theorem fires_wokeSince_mono : ∀ (l : List (Nat × Nat)) (e : Eng Grp),
    wokeSince e.w.trace = true → wokeSince (ExecGAny.fires e l).w.trace = true := by
  intro l
  induction l with
  | nil => intro e h; exact h
  | cons p l ih =>
    intro e h
    simp only [ExecGAny.fires]
    apply ih
    obtain ⟨s, hs, hp⟩ := World.fire_seg e.w p.1 p.2
    simp only [Eng.fire_w, hs]
    exact LiveAny.wokeSince_fireSeg_mono s _ hp h

theorem fires_members (l : List (Nat × Nat)) (e : Eng Grp) :
    ExecGAny.members (ExecGAny.fires e l) = ExecGAny.members e := by
  unfold ExecGAny.members; rw [fires_s]

theorem fires_isWaiting (l : List (Nat × Nat)) (e : Eng Grp) (c : Nat) :
    ExecGAny.isWaiting (ExecGAny.fires e l) c = ExecGAny.isWaiting e c := by
  unfold ExecGAny.isWaiting; rw [fires_lastRes, fires_scripts]

theorem fires_inv (G : ProgA InvW Inv D M W) :
    ∀ (l : List (Nat × Nat)) (e : Eng Grp), Inv e → Inv (ExecGAny.fires e l) := by
  intro l
  induction l with
  | nil => intro e h; exact h
  | cons p l ih => intro e h; exact ih _ (G.fire e p.1 p.2 h)

theorem fires_M (G : ProgA InvW Inv D M W) :
    ∀ (l : List (Nat × Nat)) (e : Eng Grp), M (ExecGAny.fires e l) = M e := by
  intro l
  induction l with
  | nil => intro e; rfl
  | cons p l ih => intro e; simp only [ExecGAny.fires]; rw [ih, G.mfire]

theorem fires_W (G : ProgA InvW Inv D M W) :
    ∀ (l : List (Nat × Nat)) (e : Eng Grp), W e → W (ExecGAny.fires e l) := by
  intro l
  induction l with
  | nil => intro e h; exact h
  | cons p l ih => intro e h; exact ih _ (G.wfire e p.1 p.2 h)

/-! ### the choice of the member to prod -/

/-- `ExecG.firstWaiting` answers a waiting member -/
theorem firstWaiting_spec {e : Eng Grp} {c : Nat} (h : ExecG.firstWaiting e = some c) :
    c ∈ ExecGAny.members e ∧ ExecGAny.isWaiting e c = true := by
  unfold ExecG.firstWaiting at h
  exact ⟨List.mem_of_find?_eq_some h, List.find?_some h⟩

/-- … and it answers one whenever some member is waiting -/
theorem firstWaiting_isSome {e : Eng Grp} {c : Nat} (hc : c ∈ ExecGAny.members e)
    (hw : ExecGAny.isWaiting e c = true) : ∃ c0, ExecG.firstWaiting e = some c0 := by
  have hsome : (ExecG.firstWaiting e).isSome = true := by
    unfold ExecG.firstWaiting
    rw [List.find?_isSome]
    exact ⟨c, hc, hw⟩
  cases hfw : ExecG.firstWaiting e with
  | none => rw [hfw] at hsome; exact Bool.noConfusion hsome
  | some c0 => exact ⟨c0, rfl⟩

/-- whatever the schedule says, the id that is prodded is a waiting member -/
theorem choose_spec {pick : Nat → Eng Grp → Nat} {r : Nat} {e : Eng Grp} {c : Nat}
    (h : ExecGAny.choose pick r e = some c) :
    c ∈ ExecGAny.members e ∧ ExecGAny.isWaiting e c = true := by
  unfold ExecGAny.choose at h
  split at h
  · rename_i hp
    cases h
    exact ⟨by simpa using hp.1, hp.2⟩
  · exact firstWaiting_spec h

/-- … and some member is prodded whenever some member is waiting -/
theorem choose_isSome (pick : Nat → Eng Grp → Nat) (r : Nat) {e : Eng Grp} {c : Nat}
    (hc : c ∈ ExecGAny.members e) (hw : ExecGAny.isWaiting e c = true) :
    ∃ c0, ExecGAny.choose pick r e = some c0 := by
  unfold ExecGAny.choose
  split
  · exact ⟨_, rfl⟩
  · exact firstWaiting_isSome hc hw

theorem choose_some (G : ProgA InvW Inv D M W) (pick : Nat → Eng Grp → Nat) (r : Nat) (e : Eng Grp)
    (h : Inv e) (hlo : lastOut e.w.trace = some .pending) :
    ∃ c, ExecGAny.choose pick r e = some c ∧ c ∈ ExecGAny.members e ∧
      ExecGAny.isWaiting e c = true := by
  obtain ⟨c, hc, hw⟩ := G.waiting e h hlo
  obtain ⟨c0, h0⟩ := choose_isSome pick r hc hw
  obtain ⟨h1, h2⟩ := choose_spec h0
  exact ⟨c0, h0, h1, h2⟩

/-! ### executor rounds -/

variable {pick : Nat → Eng Grp → Nat} {pre post : Nat → Eng Grp → List (Nat × Nat)}

theorem round_poll (G : ProgA InvW Inv D M W) (r : Nat) (e : Eng Grp) (h : Inv e)
    (hsp : Exec.shouldPoll e.w.trace = true) :
    ExecGAny.roundB pick pre post r e = some (Eng.poll group e (Exec.pollCount e.w.trace + 1)) := by
  unfold ExecGAny.roundB; rw [finalOut_lo3 (G.lo e h), hsp]; simp

theorem round_fire (G : ProgA InvW Inv D M W) (r : Nat) (e : Eng Grp) (h : Inv e)
    (hsp : Exec.shouldPoll e.w.trace = false)
    (c : Nat) (hch : ExecGAny.choose pick r e = some c) :
    ExecGAny.roundB pick pre post r e
      = some (ExecGAny.fires ((ExecGAny.fires e (pre r e)).fire c 0) (post r e)) := by
  unfold ExecGAny.roundB; rw [finalOut_lo3 (G.lo e h), hsp, hch]; simp

theorem round_final (r : Nat) (e : Eng Grp) (h : lastOut e.w.trace = some .none) :
    ExecGAny.roundB pick pre post r e = none := by
  unfold ExecGAny.roundB; rw [h]; rfl

/-- after one poll of an `InvW` state: what the remaining budget `N` has to cover -/
theorem after_poll (G : ProgA InvW Inv D M W) {N : Nat}
    (ih : ∀ r e, Inv e → CondG M W e N →
      ∃ k, k ≤ N ∧ lastOut (ExecGAny.runForB pick pre post k r e).w.trace = some .none)
    (r : Nat) (e : Eng Grp) (h : InvW e)
    (hE : (W e ∧ 3 * M e ≤ N + 2) ∨ 3 * M e ≤ N) :
    ∃ k, k ≤ N ∧ lastOut (ExecGAny.runForB pick pre post k r
      (Eng.poll group e (Exec.pollCount e.w.trace + 1))).w.trace = some .none := by
  rcases G.poll e (Exec.pollCount e.w.trace + 1) h with ⟨hv, _⟩ | ⟨h', hle, hcase⟩
  · refine ⟨0, by omega, ?_⟩
    simp only [ExecGAny.runForB]; exact hv
  · have hcond : CondG M W (Eng.poll group e (Exec.pollCount e.w.trace + 1)) N := by
      rcases hcase with ⟨hnp, hlt⟩ | ⟨hlo', hD, hEE⟩
      · left
        refine ⟨shouldPoll_not_pending (G.lo _ h') hnp, ?_⟩
        rcases hE with ⟨_, hb⟩ | hb <;> omega
      · have hsp' := shouldPoll_pending hlo'
        cases hw : wokeSince (Eng.poll group e (Exec.pollCount e.w.trace + 1)).w.trace with
        | true =>
          left
          refine ⟨by rw [hsp', hw], ?_⟩
          rcases hE with ⟨hW, hb⟩ | hb
          · have := hEE hW; omega
          · rcases hD with hD | hD
            · omega
            · rw [hw] at hD; exact Bool.noConfusion hD
        | false =>
          right; left
          refine ⟨by rw [hsp', hw], ?_⟩
          rcases hE with ⟨hW, hb⟩ | hb
          · have := hEE hW; omega
          · omega
    exact ih r _ h' hcond

theorem poll_round (G : ProgA InvW Inv D M W) {N : Nat}
    (ih : ∀ r e, Inv e → CondG M W e N →
      ∃ k, k ≤ N ∧ lastOut (ExecGAny.runForB pick pre post k r e).w.trace = some .none)
    (r : Nat) (e : Eng Grp) (h : Inv e) (hsp : Exec.shouldPoll e.w.trace = true)
    (hE : (W e ∧ 3 * M e ≤ N + 2) ∨ 3 * M e ≤ N) :
    ∃ k, k ≤ N + 1 ∧ lastOut (ExecGAny.runForB pick pre post k r e).w.trace = some .none := by
  have hr := round_poll (pick := pick) (pre := pre) (post := post) G r e h hsp
  obtain ⟨k, hk, hv⟩ := after_poll G ih (r + 1) e (G.weak e h) hE
  exact ⟨k + 1, by omega, by simp only [ExecGAny.runForB, hr]; exact hv⟩

/-- the induction on the number of rounds allowed; `r` = current round number -/
theorem ends_aux (G : ProgA InvW Inv D M W) : ∀ (N r : Nat) (e : Eng Grp), Inv e → CondG M W e N →
    ∃ k, k ≤ N ∧ lastOut (ExecGAny.runForB pick pre post k r e).w.trace = some .none := by
  intro N
  induction N with
  | zero =>
    intro r e h hc
    rcases hc with ⟨_, h1⟩ | ⟨hsp, h1⟩ | ⟨_, _, h1, h2⟩
    · omega
    · obtain ⟨hlo, _⟩ := shouldPoll_false_pending3 (G.lo e h) hsp
      obtain ⟨c, hc, hw⟩ := G.waiting e h hlo
      obtain ⟨_, _, h4⟩ := G.woke e c h hlo hc hw
      omega
    · omega
  | succ N ih =>
    intro r e h hc
    rcases hc with ⟨hsp, h1⟩ | ⟨hsp, h1⟩ | ⟨hsp, hwit, h1, h2⟩
    · exact poll_round G ih r e h hsp (Or.inr (by omega))
    · obtain ⟨hlo, _⟩ := shouldPoll_false_pending3 (G.lo e h) hsp
      obtain ⟨c, hch, hc, hwt⟩ := choose_some G pick r e h hlo
      have hr := round_fire (pre := pre) (post := post) G r e h hsp c hch
      -- the wake-ups before the prod
      have h1' : Inv (ExecGAny.fires e (pre r e)) := fires_inv G _ e h
      have hlo1 : lastOut (ExecGAny.fires e (pre r e)).w.trace = some .pending := by
        rw [fires_lastOut]; exact hlo
      have hc1 : c ∈ ExecGAny.members (ExecGAny.fires e (pre r e)) := by
        rw [fires_members]; exact hc
      have hwt1 : ExecGAny.isWaiting (ExecGAny.fires e (pre r e)) c = true := by
        rw [fires_isWaiting]; exact hwt
      -- the prod
      obtain ⟨hW, hw, hM1⟩ := G.woke _ c h1' hlo1 hc1 hwt1
      have h2' : Inv ((ExecGAny.fires e (pre r e)).fire c 0) := G.fire _ c 0 h1'
      -- the wake-ups after the prod
      have h' := fires_inv G (post r e) _ h2'
      have hW' := fires_W G (post r e) _ hW
      have hw' := fires_wokeSince_mono (post r e) _ hw
      have hlo' : lastOut (ExecGAny.fires ((ExecGAny.fires e (pre r e)).fire c 0) (post r e)).w.trace
          = some .pending := by
        rw [fires_lastOut,
          show lastOut ((ExecGAny.fires e (pre r e)).fire c 0).w.trace
            = lastOut (ExecGAny.fires e (pre r e)).w.trace from C01.lastOut_fire _ c 0]
        exact hlo1
      have hsl : M (ExecGAny.fires ((ExecGAny.fires e (pre r e)).fire c 0) (post r e)) = M e := by
        rw [fires_M G, G.mfire, fires_M G]
      rw [fires_M G] at hM1
      have hcond : CondG M W (ExecGAny.fires ((ExecGAny.fires e (pre r e)).fire c 0) (post r e)) N := by
        right; right
        refine ⟨by rw [shouldPoll_pending hlo', hw'], hW', ?_, ?_⟩
        · rw [hsl]; exact hM1
        · rw [hsl]; omega
      obtain ⟨k, hk, hv⟩ := ih (r + 1) _ h' hcond
      exact ⟨k + 1, by omega, by simp only [ExecGAny.runForB, hr]; exact hv⟩
    · exact poll_round G ih r e h hsp (Or.inl ⟨hwit, by omega⟩)

/-- every run from a state satisfying the invariant — whatever the schedule and the extra wake-ups —
    ends within `3 * M + 1` rounds -/
theorem endsB_of_prog (G : ProgA InvW Inv D M W) (pick : Nat → Eng Grp → Nat)
    (pre post : Nat → Eng Grp → List (Nat × Nat)) (r : Nat) (e : Eng Grp) (h : Inv e)
    (hsp : Exec.shouldPoll e.w.trace = true) :
    ∃ k, k ≤ 3 * M e + 1 ∧
      lastOut (ExecGAny.runForB pick pre post k r e).w.trace = some .none :=
  ends_aux G _ r e h (Or.inl ⟨hsp, Nat.le_refl _⟩)

/-- the same for a run that starts with an unconditional poll, from an `InvW` state -/
theorem ends_refill (G : ProgA InvW Inv D M W) (pick : Nat → Eng Grp → Nat)
    (pre post : Nat → Eng Grp → List (Nat × Nat)) (r : Nat) (e : Eng Grp) (h : InvW e) :
    ∃ k, k ≤ 3 * M e + 1 ∧
      lastOut (ExecGAny.runRefillB pick pre post k r e).w.trace = some .none := by
  obtain ⟨k, hk, hv⟩ := after_poll (pick := pick) (pre := pre) (post := post) (N := 3 * M e) G
    (fun r e h hc => ends_aux G _ r e h hc) (r + 1) e h (Or.inr (Nat.le_refl _))
  exact ⟨k + 1, by omega, by simp only [ExecGAny.runRefillB, ExecGAny.restart]; exact hv⟩

/-! ### a run stays inside the invariants -/

/-- the states of a run: not ended (`Inv`), or drained -/
def RunInv (InvW Inv D : Eng Grp → Prop) (e : Eng Grp) : Prop :=
  Inv e ∨ (InvW e ∧ D e ∧ lastOut e.w.trace = some .none)

theorem round_inv (G : ProgA InvW Inv D M W) (r : Nat) (e e' : Eng Grp) (h : RunInv InvW Inv D e)
    (hr : ExecGAny.roundB pick pre post r e = some e') : RunInv InvW Inv D e' := by
  rcases h with h | ⟨_, _, hn⟩
  · cases hsp : Exec.shouldPoll e.w.trace with
    | true =>
      rw [round_poll G r e h hsp] at hr
      cases hr
      rcases G.poll e (Exec.pollCount e.w.trace + 1) (G.weak e h) with ⟨hv, hw, hd⟩ | ⟨h', _⟩
      · exact Or.inr ⟨hw, hd, hv⟩
      · exact Or.inl h'
    | false =>
      obtain ⟨hlo, _⟩ := shouldPoll_false_pending3 (G.lo e h) hsp
      obtain ⟨c, hch, _, _⟩ := choose_some G pick r e h hlo
      rw [round_fire G r e h hsp c hch] at hr
      cases hr
      exact Or.inl (fires_inv G _ _ (G.fire _ c 0 (fires_inv G _ e h)))
  · rw [round_final r e hn] at hr; cases hr

theorem run_inv (G : ProgA InvW Inv D M W) : ∀ (k r : Nat) (e : Eng Grp), RunInv InvW Inv D e →
    RunInv InvW Inv D (ExecGAny.runForB pick pre post k r e) := by
  intro k
  induction k with
  | zero => intro r e h; exact h
  | succ k ih =>
    intro r e h
    simp only [ExecGAny.runForB]
    cases hr : ExecGAny.roundB pick pre post r e with
    | none => exact h
    | some e' => exact ih (r + 1) e' (round_inv G r e e' h hr)

/-- a run that has reached `None` is in a drained (`D`) `InvW` state -/
theorem run_drained (G : ProgA InvW Inv D M W) (k r : Nat) (e : Eng Grp) (h : RunInv InvW Inv D e)
    (hn : lastOut (ExecGAny.runForB pick pre post k r e).w.trace = some .none) :
    InvW (ExecGAny.runForB pick pre post k r e) ∧ D (ExecGAny.runForB pick pre post k r e) := by
  rcases run_inv (pick := pick) (pre := pre) (post := post) G k r e h with h' | ⟨h', hd, _⟩
  · have := G.lo _ h'
    rw [Lo3, hn] at this
    rcases this with h1 | h1 | ⟨_, _, h1⟩ <;> cases h1
  · exact ⟨h', hd⟩

/-! ### the plain executor is the busy one without extra wake-ups -/

theorem round_eq_roundB (pick : Nat → Eng Grp → Nat) (r : Nat) (e : Eng Grp) :
    ExecGAny.round pick r e = ExecGAny.roundB pick (fun _ _ => []) (fun _ _ => []) r e := by
  unfold ExecGAny.round ExecGAny.roundB
  rfl

theorem runFor_eq_runForB (pick : Nat → Eng Grp → Nat) : ∀ (k r : Nat) (e : Eng Grp),
    ExecGAny.runFor pick k r e = ExecGAny.runForB pick (fun _ _ => []) (fun _ _ => []) k r e := by
  intro k
  induction k with
  | zero => intro r e; rfl
  | succ k ih =>
    intro r e
    simp only [ExecGAny.runFor, ExecGAny.runForB, round_eq_roundB]
    cases ExecGAny.roundB pick (fun _ _ => []) (fun _ _ => []) r e with
    | none => rfl
    | some e' => exact ih (r + 1) e'

theorem runRefill_eq_runRefillB (pick : Nat → Eng Grp → Nat) (k r : Nat) (e : Eng Grp) :
    ExecGAny.runRefill pick k r e
      = ExecGAny.runRefillB pick (fun _ _ => []) (fun _ _ => []) k r e := by
  cases k with
  | zero => rfl
  | succ k => simp only [ExecGAny.runRefill, ExecGAny.runRefillB, runFor_eq_runForB]

/-! ### with the schedule "first waiting member" it is the executor of Fc/ExecG.lean -/

/-- the schedule of Fc/ExecG.lean: the first waiting member (if there is none, any id will do) -/
def firstPick : Nat → Eng Grp → Nat := fun _ e => (ExecG.firstWaiting e).getD 0

theorem choose_firstPick (r : Nat) (e : Eng Grp) :
    ExecGAny.choose firstPick r e = ExecG.firstWaiting e := by
  unfold ExecGAny.choose
  split
  · rename_i hp
    cases hfw : ExecG.firstWaiting e with
    | none =>
      -- no member is waiting, so the pick is not a waiting member either
      obtain ⟨c0, h0⟩ := firstWaiting_isSome (by simpa using hp.1) hp.2
      rw [hfw] at h0; cases h0
    | some c => simp [firstPick, hfw]
  · rfl

theorem round_firstPick (r : Nat) (e : Eng Grp) :
    ExecGAny.round firstPick r e = ExecG.round e := by
  unfold ExecGAny.round ExecG.round
  rw [choose_firstPick]
  rfl

theorem runFor_firstPick : ∀ (k r : Nat) (e : Eng Grp),
    ExecGAny.runFor firstPick k r e = ExecG.runFor k e := by
  intro k
  induction k with
  | zero => intro r e; rfl
  | succ k ih =>
    intro r e
    simp only [ExecGAny.runFor, ExecG.runFor, round_firstPick]
    cases ExecG.round e with
    | none => rfl
    | some e' => exact ih (r + 1) e'

end LiveGAny
end Fc
