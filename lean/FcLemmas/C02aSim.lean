/-
  FcLemmas/C02aSim.lean — the `Sim` instances of the C02 invariant (FcLemmas/C02a.lean) for
  join, try_join (array/Vec and tuple models), race_ok (array, Vec, tuple) and zip.

  `K` restricts what children answer; all that is needed is that a future never yields an item
  (join, try_join, race_ok) and a stream never resolves (zip): such a value would be counted as
  produced by the monitor while the combinator (type-correctly) has no place to put it.
-/
import FcLemmas.C02a
set_option linter.unusedSimpArgs false
set_option linter.unusedVariables false

namespace Fc
namespace C02
open Mon Fix

theorem J.tail {own cm n s t i rest} (h : J own cm n s t (i :: rest)) : J own cm n s t rest :=
  ⟨h.1, h.2.1, fun j hj => h.2.2 j (List.mem_cons_of_mem _ hj)⟩

/-- a child's poll unwinds: the slot table stays as it is -/
theorem panic_ok {own cm n s t} (h : Pre own cm n s t) (c slot : Nat) (wk : Wk) (l : List Ev)
    (hl : ∀ e ∈ l, isFireEv e = true) :
    Inv own cm n s.kill (.pollEnd .panicked :: pollSeg c slot wk l .panic [] t) :=
  ((h.frame s.kill rfl rfl rfl (fun hd => by simp [Fix.kill] at hd)).same
    (same_keep c slot wk l .panic t hl rfl)).pollEnd _ rfl

/-- no pending slot is left (counter of pending slots) -/
theorem all_ready_of_pend {own n s t} (h : Pre own (some true) n s t) (hd : s.dead = false)
    (hc : s.cnt = 0) : ∀ i, i < n → s.st i = .ready := by
  obtain ⟨h1, h2⟩ := h.live hd
  have hcnt := h2 true rfl
  simp only [if_true] at hcnt
  rw [hc] at hcnt
  have hz := cntP_zero _ _ hcnt.symm
  intro i hi
  rcases h1 i hi with hp | hr
  · have := hz i hi; simp [hp] at this
  · exact hr

/-- every slot is ready (counter of ready slots) -/
theorem all_ready_of_rdy {own n s t} (h : Pre own (some false) n s t) (hd : s.dead = false)
    (hc : s.cnt = n) : ∀ i, i < n → s.st i = .ready := by
  obtain ⟨h1, h2⟩ := h.live hd
  have hcnt := h2 false rfl
  simp only [Bool.false_eq_true, if_false] at hcnt
  rw [hc] at hcnt
  have hz := cntP_full _ _ hcnt.symm
  intro i hi
  simpa using hz i hi

theorem pending_of_not_ready {own cm n s t} (h : Pre own cm n s t) (hd : s.dead = false) (i : Nat)
    (hi : i < n) (hne : s.st i ≠ .ready) : s.st i = .pending := by
  rcases (h.live hd).1 i hi with hp | hr
  · exact hp
  · exact absurd hr hne

/-! ### join -/

theorem sim_joinSlice (n : Nat) (m : Mode) (K : Nat → Res → Prop)
    (hK : ∀ c r, K c r → r.fits false = true) :
    Sim joinSlice m K (Inv false (some true) n) (J false (some true) n) where
  fireEv := fun s t e he h => h.fireEv e he
  pre := by
    intro s t w o hpre h
    simp only [joinSlice, Fix.misuseIfDead] at hpre
    split at hpre
    · cases hpre; exact h.pre w _ rfl
    · cases hpre
  start := by
    intro s t w hpre h
    have hd : s.dead = false := by
      simp only [joinSlice, Fix.misuseIfDead] at hpre
      cases hdd : s.dead <;> simp_all
    have hp := h.pre_of_live hd
    refine ⟨hp.same (same_pollBegin w t), hd, ?_⟩
    intro j hj
    simp only [joinSlice] at hj
    rw [← hp.hn]; exact List.mem_range.mp hj
  earlyPend := by
    intro s t l _ _ hJ
    exact hJ.1.pollEnd _ rfl
  skip := fun s t i rest _ hJ => hJ.tail
  goOn := by
    intro s t i rest wk l r hJ hel hr hk hl hex
    obtain ⟨h, hd, hlt⟩ := hJ
    have hi : i < n := hlt i (List.mem_cons_self ..)
    have hp : s.st i = .pending := by simpa [joinSlice] using hel
    have hrest : ∀ j ∈ rest, j < n := fun j hj => hlt j (List.mem_cons_of_mem _ hj)
    have hfit := hK _ _ hk
    cases r with
    | ready ok v =>
      exact ⟨store_ok h hd i i i hi wk l _ v hl hp rfl _ rfl _ rfl rfl rfl hd
        (by intro b hb; cases hb; rfl), hd, hrest⟩
    | pend => exact ⟨h.same (same_keep i i wk l _ t hl rfl), hd, hrest⟩
    | item v => simp [Res.fits] at hfit
    | fin => simp [Res.fits] at hfit
    | panic => exact absurd rfl hr
  goExit := by
    intro s t i rest wk l r o hJ hel hr _ hl hex
    cases r <;> simp [joinSlice, Fix.keep] at hex
  panic := by
    intro s t i rest wk l hJ hel hl
    exact panic_ok hJ.1 i i wk l hl
  finish := by
    intro s t hJ
    obtain ⟨h, hd, _⟩ := hJ
    simp only [joinSlice]
    split
    · rename_i hc
      simp only [Option.getD_some, List.reverse_nil, List.nil_append]
      exact Or.inl (return_all h (all_ready_of_pend h hd hc)
        { s with dead := true, st := fun _ => .none } rfl (by simp) (by simp)
        (fun hd' => by simp at hd') _ rfl)
    · simp only [Option.getD_some, List.reverse_nil, List.nil_append]
      exact h.pollEnd _ rfl
  drop := fun s t h => drop_states h

theorem sim_joinTuple (n : Nat) (m : Mode) (K : Nat → Res → Prop)
    (hK : ∀ c r, K c r → r.fits false = true) :
    Sim joinTuple m K (Inv false (some false) n) (J false (some false) n) where
  fireEv := fun s t e he h => h.fireEv e he
  pre := by
    intro s t w o hpre h
    simp only [joinTuple, Fix.misuseIfDead] at hpre
    split at hpre
    · cases hpre; exact h.pre w _ rfl
    · split at hpre
      · cases hpre; exact h.pre w _ rfl
      · cases hpre
  start := by
    intro s t w hpre h
    simp only [joinTuple, Fix.misuseIfDead] at hpre
    have hd : s.dead = false := by
      cases hdd : s.dead
      · rfl
      · simp only [hdd, if_true] at hpre; split at hpre <;> cases hpre
    have hp := h.pre_of_live hd
    refine ⟨hp.same (same_pollBegin w t), hd, ?_⟩
    intro j hj
    simp only [joinTuple] at hj
    rw [← hp.hn]; exact List.mem_range.mp hj
  earlyPend := by
    intro s t l _ _ hJ
    exact hJ.1.pollEnd _ rfl
  skip := fun s t i rest _ hJ => hJ.tail
  goOn := by
    intro s t i rest wk l r hJ hel hr hk hl hex
    obtain ⟨h, hd, hlt⟩ := hJ
    have hi : i < n := hlt i (List.mem_cons_self ..)
    have hp : s.st i = .pending :=
      pending_of_not_ready h hd i hi (by simpa [joinTuple] using hel)
    have hrest : ∀ j ∈ rest, j < n := fun j hj => hlt j (List.mem_cons_of_mem _ hj)
    have hfit := hK _ _ hk
    cases r with
    | ready ok v =>
      have hne : ¬ s.cnt + 1 = s.n := by
        intro hc; simp [joinTuple, hc] at hex
      have hmid := store_ok h hd i i i hi wk l (.ready ok v) v hl hp rfl [.childDropped i] rfl
        { s with st := upd s.st i .ready, out := upd s.out i (some v), cnt := s.cnt + 1 }
        rfl rfl rfl hd (by intro b hb; cases hb; rfl)
      refine ⟨?_, ?_, hrest⟩
      · simpa [joinTuple, hne] using hmid
      · simpa [joinTuple, hne] using hd
    | pend => exact ⟨h.same (same_keep i i wk l _ t hl rfl), hd, hrest⟩
    | item v => simp [Res.fits] at hfit
    | fin => simp [Res.fits] at hfit
    | panic => exact absurd rfl hr
  goExit := by
    intro s t i rest wk l r o hJ hel hr _ hl hex
    obtain ⟨h, hd, hlt⟩ := hJ
    have hi : i < n := hlt i (List.mem_cons_self ..)
    have hp : s.st i = .pending :=
      pending_of_not_ready h hd i hi (by simpa [joinTuple] using hel)
    cases r with
    | ready ok v =>
      by_cases hc : s.cnt + 1 = s.n
      · simp only [joinTuple, hc, if_true, Option.some.injEq] at hex
        subst hex
        have hmid := store_ok h hd i i i hi wk l (.ready ok v) v hl hp rfl [.childDropped i] rfl
          { s with st := upd s.st i .ready, out := upd s.out i (some v), cnt := s.cnt + 1 }
          rfl rfl rfl hd (by intro b hb; cases hb; rfl)
        have hall := all_ready_of_rdy hmid hd (by show s.cnt + 1 = n; rw [hc, h.hn])
        have := return_all hmid hall
          { s with st := fun _ => .none, out := upd s.out i (some v), cnt := s.cnt + 1, dead := true }
          rfl (by simp) (by simp) (fun hd' => by simp at hd')
          (.ready true ({ s with out := upd s.out i (some v) }).outs) rfl
        exact Or.inl (by simpa [joinTuple, hc] using this)
      · simp [joinTuple, hc] at hex
    | pend => simp [joinTuple, Fix.keep] at hex
    | item v => simp [joinTuple, Fix.keep] at hex
    | fin => simp [joinTuple, Fix.keep] at hex
    | panic => exact absurd rfl hr
  panic := by
    intro s t i rest wk l hJ hel hl
    exact panic_ok hJ.1 i i wk l hl
  finish := by
    intro s t hJ
    exact hJ.1.pollEnd _ rfl
  drop := fun s t h => drop_states h


/-! ### try_join -/

theorem sim_tryJoinSlice (n : Nat) (m : Mode) (K : Nat → Res → Prop)
    (hK : ∀ c r, K c r → r.fits false = true) :
    Sim tryJoinSlice m K (Inv false (some true) n) (J false (some true) n) where
  fireEv := fun s t e he h => h.fireEv e he
  pre := by
    intro s t w o hpre h
    simp only [tryJoinSlice, Fix.misuseIfDead] at hpre
    split at hpre
    · cases hpre; exact h.pre w _ rfl
    · cases hpre
  start := by
    intro s t w hpre h
    have hd : s.dead = false := by
      simp only [tryJoinSlice, Fix.misuseIfDead] at hpre
      cases hdd : s.dead <;> simp_all
    have hp := h.pre_of_live hd
    refine ⟨hp.same (same_pollBegin w t), hd, ?_⟩
    intro j hj
    simp only [tryJoinSlice] at hj
    rw [← hp.hn]; exact List.mem_range.mp hj
  earlyPend := by
    intro s t l _ _ hJ
    exact hJ.1.pollEnd _ rfl
  skip := fun s t i rest _ hJ => hJ.tail
  goOn := by
    intro s t i rest wk l r hJ hel hr hk hl hex
    obtain ⟨h, hd, hlt⟩ := hJ
    have hi : i < n := hlt i (List.mem_cons_self ..)
    have hp : s.st i = .pending := by simpa [tryJoinSlice] using hel
    have hrest : ∀ j ∈ rest, j < n := fun j hj => hlt j (List.mem_cons_of_mem _ hj)
    have hfit := hK _ _ hk
    cases r with
    | ready ok v =>
      cases ok
      · simp [tryJoinSlice] at hex
      · exact ⟨store_ok h hd i i i hi wk l _ v hl hp rfl _ rfl _ rfl rfl rfl hd
          (by intro b hb; cases hb; rfl), hd, hrest⟩
    | pend => exact ⟨h.same (same_keep i i wk l _ t hl rfl), hd, hrest⟩
    | item v => simp [Res.fits] at hfit
    | fin => simp [Res.fits] at hfit
    | panic => exact absurd rfl hr
  goExit := by
    intro s t i rest wk l r o hJ hel hr _ hl hex
    obtain ⟨h, hd, hlt⟩ := hJ
    have hi : i < n := hlt i (List.mem_cons_self ..)
    have hp : s.st i = .pending := by simpa [tryJoinSlice] using hel
    cases r with
    | ready ok v =>
      cases ok
      · simp only [tryJoinSlice, Option.some.injEq] at hex
        subst hex
        exact Or.inl (fresh_ok h i i i hi wk l _ v hl (fun _ => hp) rfl [.childDropped i] rfl
          { s with st := upd s.st i .none, cnt := s.cnt - 1, dead := true } rfl rfl rfl rfl _ rfl)
      · simp [tryJoinSlice] at hex
    | pend => simp [tryJoinSlice, Fix.keep] at hex
    | item v => simp [tryJoinSlice, Fix.keep] at hex
    | fin => simp [tryJoinSlice, Fix.keep] at hex
    | panic => exact absurd rfl hr
  panic := by
    intro s t i rest wk l hJ hel hl
    exact panic_ok hJ.1 i i wk l hl
  finish := by
    intro s t hJ
    obtain ⟨h, hd, _⟩ := hJ
    simp only [tryJoinSlice]
    split
    · rename_i hc
      simp only [Option.getD_some, List.reverse_nil, List.nil_append]
      exact Or.inl (return_all h (all_ready_of_pend h hd hc)
        { s with dead := true, st := fun _ => .none } rfl (by simp) (by simp)
        (fun hd' => by simp at hd') _ rfl)
    · simp only [Option.getD_some, List.reverse_nil, List.nil_append]
      exact h.pollEnd _ rfl
  drop := fun s t h => drop_states h

theorem sim_tryJoinTuple (n : Nat) (m : Mode) (K : Nat → Res → Prop)
    (hK : ∀ c r, K c r → r.fits false = true) :
    Sim tryJoinTuple m K (Inv false (some false) n) (J false (some false) n) where
  fireEv := fun s t e he h => h.fireEv e he
  pre := by
    intro s t w o hpre h
    simp only [tryJoinTuple, Fix.misuseIfDead] at hpre
    split at hpre
    · cases hpre; exact h.pre w _ rfl
    · split at hpre
      · cases hpre; exact h.pre w _ rfl
      · cases hpre
  start := by
    intro s t w hpre h
    simp only [tryJoinTuple, Fix.misuseIfDead] at hpre
    have hd : s.dead = false := by
      cases hdd : s.dead
      · rfl
      · simp only [hdd, if_true] at hpre; split at hpre <;> cases hpre
    have hp := h.pre_of_live hd
    refine ⟨hp.same (same_pollBegin w t), hd, ?_⟩
    intro j hj
    simp only [tryJoinTuple] at hj
    rw [← hp.hn]; exact List.mem_range.mp hj
  earlyPend := by
    intro s t l _ _ hJ
    exact hJ.1.pollEnd _ rfl
  skip := fun s t i rest _ hJ => hJ.tail
  goOn := by
    intro s t i rest wk l r hJ hel hr hk hl hex
    obtain ⟨h, hd, hlt⟩ := hJ
    have hi : i < n := hlt i (List.mem_cons_self ..)
    have hp : s.st i = .pending :=
      pending_of_not_ready h hd i hi (by simpa [tryJoinTuple] using hel)
    have hrest : ∀ j ∈ rest, j < n := fun j hj => hlt j (List.mem_cons_of_mem _ hj)
    have hfit := hK _ _ hk
    cases r with
    | ready ok v =>
      cases ok
      · simp [tryJoinTuple] at hex
      · have hne : ¬ s.cnt + 1 = s.n := by
          intro hc; simp [tryJoinTuple, hc] at hex
        have hmid := store_ok h hd i i i hi wk l (.ready true v) v hl hp rfl [.childDropped i] rfl
          { s with st := upd s.st i .ready, out := upd s.out i (some v), cnt := s.cnt + 1 }
          rfl rfl rfl hd (by intro b hb; cases hb; rfl)
        refine ⟨?_, ?_, hrest⟩
        · simpa [tryJoinTuple, hne] using hmid
        · simpa [tryJoinTuple, hne] using hd
    | pend => exact ⟨h.same (same_keep i i wk l _ t hl rfl), hd, hrest⟩
    | item v => simp [Res.fits] at hfit
    | fin => simp [Res.fits] at hfit
    | panic => exact absurd rfl hr
  goExit := by
    intro s t i rest wk l r o hJ hel hr _ hl hex
    obtain ⟨h, hd, hlt⟩ := hJ
    have hi : i < n := hlt i (List.mem_cons_self ..)
    have hp : s.st i = .pending :=
      pending_of_not_ready h hd i hi (by simpa [tryJoinTuple] using hel)
    cases r with
    | ready ok v =>
      cases ok
      · simp only [tryJoinTuple, Option.some.injEq] at hex
        subst hex
        exact Or.inl (fresh_ok h i i i hi wk l _ v hl (fun _ => hp) rfl [.childDropped i] rfl
          { s with st := upd s.st i .none, cnt := s.cnt + 1, dead := true } rfl rfl rfl rfl _ rfl)
      · by_cases hc : s.cnt + 1 = s.n
        · simp only [tryJoinTuple, hc, if_true, Option.some.injEq] at hex
          subst hex
          have hmid := store_ok h hd i i i hi wk l (.ready true v) v hl hp rfl [.childDropped i] rfl
            { s with st := upd s.st i .ready, out := upd s.out i (some v), cnt := s.cnt + 1 }
            rfl rfl rfl hd (by intro b hb; cases hb; rfl)
          have hall := all_ready_of_rdy hmid hd (by show s.cnt + 1 = n; rw [hc, h.hn])
          have := return_all hmid hall
            { s with st := fun _ => .none, out := upd s.out i (some v), cnt := s.cnt + 1, dead := true }
            rfl (by simp) (by simp) (fun hd' => by simp at hd')
            (.ready true ({ s with out := upd s.out i (some v) }).outs) rfl
          exact Or.inl (by simpa [tryJoinTuple, hc] using this)
        · simp [tryJoinTuple, hc] at hex
    | pend => simp [tryJoinTuple, Fix.keep] at hex
    | item v => simp [tryJoinTuple, Fix.keep] at hex
    | fin => simp [tryJoinTuple, Fix.keep] at hex
    | panic => exact absurd rfl hr
  panic := by
    intro s t i rest wk l hJ hel hl
    exact panic_ok hJ.1 i i wk l hl
  finish := by
    intro s t hJ
    exact hJ.1.pollEnd _ rfl
  drop := fun s t h => drop_states h

/-! ### race_ok -/

/-- array (`rotate = false`) and tuple (`rotate = true`): the children are plain fields -/
theorem sim_raceOk (rotate : Bool) (n : Nat) (m : Mode) (K : Nat → Res → Prop)
    (hK : ∀ c r, K c r → r.fits false = true) :
    Sim (raceOk rotate false) m K (Inv true (some false) n) (J true (some false) n) where
  fireEv := fun s t e he h => h.fireEv e he
  pre := by
    intro s t w o hpre h
    simp only [raceOk, Fix.misuseIfDead] at hpre
    split at hpre
    · cases hpre; exact h.pre w _ rfl
    · cases hpre
  start := by
    intro s t w hpre h
    have hd : s.dead = false := by
      simp only [raceOk, Fix.misuseIfDead] at hpre
      cases hdd : s.dead <;> simp_all
    have hp := h.pre_of_live hd
    have hp' : Pre true (some false) n ((raceOk rotate false).start s) t := by
      cases rotate
      · exact hp
      · exact hp.frame s.bump rfl rfl rfl (fun _ => ⟨hd, rfl⟩)
    refine ⟨hp'.same (same_pollBegin w t), by cases rotate <;> exact hd, ?_⟩
    intro j hj
    rw [← hp.hn]
    cases rotate
    · simpa [raceOk] using hj
    · exact mem_rot_lt s j (by simpa [raceOk] using hj)
  earlyPend := by
    intro s t l _ _ hJ
    exact hJ.1.pollEnd _ rfl
  skip := fun s t i rest _ hJ => hJ.tail
  goOn := by
    intro s t i rest wk l r hJ hel hr hk hl hex
    obtain ⟨h, hd, hlt⟩ := hJ
    have hi : i < n := hlt i (List.mem_cons_self ..)
    have hp : s.st i = .pending :=
      pending_of_not_ready h hd i hi (by simpa [raceOk] using hel)
    have hrest : ∀ j ∈ rest, j < n := fun j hj => hlt j (List.mem_cons_of_mem _ hj)
    have hfit := hK _ _ hk
    cases r with
    | ready ok v =>
      cases ok
      · exact ⟨store_ok h hd i i i hi wk l _ v hl hp rfl _ rfl _ rfl rfl rfl hd
          (by intro b hb; cases hb; rfl), hd, hrest⟩
      · simp [raceOk] at hex
    | pend => exact ⟨h.same (same_keep i i wk l _ t hl rfl), hd, hrest⟩
    | item v => simp [Res.fits] at hfit
    | fin => simp [Res.fits] at hfit
    | panic => exact absurd rfl hr
  goExit := by
    intro s t i rest wk l r o hJ hel hr _ hl hex
    obtain ⟨h, hd, hlt⟩ := hJ
    have hi : i < n := hlt i (List.mem_cons_self ..)
    cases r with
    | ready ok v =>
      cases ok
      · simp [raceOk] at hex
      · simp only [raceOk, Option.some.injEq] at hex
        subst hex
        exact Or.inl (fresh_ok h i i i hi wk l _ v hl (fun h => by cases h) rfl [] rfl
          { s with dead := true } rfl rfl rfl rfl _ rfl)
    | pend => simp [raceOk, Fix.keep] at hex
    | item v => simp [raceOk, Fix.keep] at hex
    | fin => simp [raceOk, Fix.keep] at hex
    | panic => exact absurd rfl hr
  panic := by
    intro s t i rest wk l hJ hel hl
    exact panic_ok hJ.1 i i wk l hl
  finish := by
    intro s t hJ
    obtain ⟨h, hd, _⟩ := hJ
    simp only [raceOk]
    split
    · rename_i hc
      simp only [Option.getD_some, List.reverse_nil, List.nil_append]
      exact Or.inl (return_all h (all_ready_of_rdy h hd (by rw [hc, h.hn]))
        { s with dead := true, st := fun _ => .none } rfl (by simp) (by simp)
        (fun hd' => by simp at hd') _ rfl)
    · simp only [Option.getD_some, List.reverse_nil, List.nil_append]
      exact h.pollEnd _ rfl
  drop := fun s t h => drop_all h

/-- Vec: `MaybeDone` drops a finished child at once -/
theorem sim_raceOkVec (n : Nat) (m : Mode) (K : Nat → Res → Prop)
    (hK : ∀ c r, K c r → r.fits false = true) :
    Sim (raceOk false true) m K (Inv false (some false) n) (J false (some false) n) where
  fireEv := fun s t e he h => h.fireEv e he
  pre := by
    intro s t w o hpre h
    simp only [raceOk, Fix.misuseIfDead] at hpre
    split at hpre
    · cases hpre; exact h.pre w _ rfl
    · cases hpre
  start := by
    intro s t w hpre h
    have hd : s.dead = false := by
      simp only [raceOk, Fix.misuseIfDead] at hpre
      cases hdd : s.dead <;> simp_all
    have hp := h.pre_of_live hd
    refine ⟨hp.same (same_pollBegin w t), hd, ?_⟩
    intro j hj
    rw [← hp.hn]
    simpa [raceOk] using hj
  earlyPend := by
    intro s t l _ _ hJ
    exact hJ.1.pollEnd _ rfl
  skip := fun s t i rest _ hJ => hJ.tail
  goOn := by
    intro s t i rest wk l r hJ hel hr hk hl hex
    obtain ⟨h, hd, hlt⟩ := hJ
    have hi : i < n := hlt i (List.mem_cons_self ..)
    have hp : s.st i = .pending :=
      pending_of_not_ready h hd i hi (by simpa [raceOk] using hel)
    have hrest : ∀ j ∈ rest, j < n := fun j hj => hlt j (List.mem_cons_of_mem _ hj)
    have hfit := hK _ _ hk
    cases r with
    | ready ok v =>
      cases ok
      · exact ⟨store_ok h hd i i i hi wk l _ v hl hp rfl _ rfl _ rfl rfl rfl hd
          (by intro b hb; cases hb; rfl), hd, hrest⟩
      · simp [raceOk] at hex
    | pend => exact ⟨h.same (same_keep i i wk l _ t hl rfl), hd, hrest⟩
    | item v => simp [Res.fits] at hfit
    | fin => simp [Res.fits] at hfit
    | panic => exact absurd rfl hr
  goExit := by
    intro s t i rest wk l r o hJ hel hr _ hl hex
    obtain ⟨h, hd, hlt⟩ := hJ
    have hi : i < n := hlt i (List.mem_cons_self ..)
    have hp : s.st i = .pending :=
      pending_of_not_ready h hd i hi (by simpa [raceOk] using hel)
    cases r with
    | ready ok v =>
      cases ok
      · simp [raceOk] at hex
      · simp only [raceOk, Option.some.injEq] at hex
        subst hex
        exact Or.inl (fresh_ok h i i i hi wk l _ v hl (fun _ => hp) rfl [.childDropped i] rfl
          { s with dead := true, st := upd s.st i .none } rfl rfl rfl rfl _ rfl)
    | pend => simp [raceOk, Fix.keep] at hex
    | item v => simp [raceOk, Fix.keep] at hex
    | fin => simp [raceOk, Fix.keep] at hex
    | panic => exact absurd rfl hr
  panic := by
    intro s t i rest wk l hJ hel hl
    exact panic_ok hJ.1 i i wk l hl
  finish := by
    intro s t hJ
    obtain ⟨h, hd, _⟩ := hJ
    simp only [raceOk]
    split
    · rename_i hc
      simp only [Option.getD_some, List.reverse_nil, List.nil_append]
      exact Or.inl (return_all h (all_ready_of_rdy h hd (by rw [hc, h.hn]))
        { s with dead := true, st := fun _ => .none } rfl (by simp) (by simp)
        (fun hd' => by simp at hd') _ rfl)
    · simp only [Option.getD_some, List.reverse_nil, List.nil_append]
      exact h.pollEnd _ rfl
  drop := fun s t h => drop_states h

/-! ### zip -/

theorem sim_zip (n : Nat) (m : Mode) (K : Nat → Res → Prop)
    (hK : ∀ c r, K c r → r.fits true = true) :
    Sim zip m K (Inv true none n) (J true none n) where
  fireEv := fun s t e he h => h.fireEv e he
  pre := by
    intro s t w o hpre h
    simp only [zip, Fix.misuseIfDead] at hpre
    split at hpre
    · cases hpre; exact h.pre w _ rfl
    · cases hpre
  start := by
    intro s t w hpre h
    have hd : s.dead = false := by
      simp only [zip, Fix.misuseIfDead] at hpre
      cases hdd : s.dead <;> simp_all
    have hp := h.pre_of_live hd
    refine ⟨hp.same (same_pollBegin w t), hd, ?_⟩
    intro j hj
    simp only [zip] at hj
    rw [← hp.hn]; exact List.mem_range.mp hj
  earlyPend := by
    intro s t l _ _ hJ
    exact hJ.1.pollEnd _ rfl
  skip := fun s t i rest _ hJ => hJ.tail
  goOn := by
    intro s t i rest wk l r hJ hel hr hk hl hex
    obtain ⟨h, hd, hlt⟩ := hJ
    have hi : i < n := hlt i (List.mem_cons_self ..)
    have hp : s.st i = .pending :=
      pending_of_not_ready h hd i hi (by simpa [zip] using hel)
    have hrest : ∀ j ∈ rest, j < n := fun j hj => hlt j (List.mem_cons_of_mem _ hj)
    have hfit := hK _ _ hk
    cases r with
    | item v =>
      have hne : ¬ ({ s with st := upd s.st i .ready } : Fix).allReady = true := by
        intro hc; simp [zip, hc] at hex
      have hmid := store_ok h hd i i i hi wk l (.item v) v hl hp rfl [] rfl
        { s with st := upd s.st i .ready, out := upd s.out i (some v) }
        rfl rfl rfl hd (by intro b hb; cases hb)
      refine ⟨?_, ?_, hrest⟩
      · simpa [zip, hne] using hmid
      · simpa [zip, hne] using hd
    | pend => exact ⟨h.same (same_keep i i wk l _ t hl rfl), hd, hrest⟩
    | ready ok v => simp [Res.fits] at hfit
    | fin => simp [zip] at hex
    | panic => exact absurd rfl hr
  goExit := by
    intro s t i rest wk l r o hJ hel hr _ hl hex
    obtain ⟨h, hd, hlt⟩ := hJ
    have hi : i < n := hlt i (List.mem_cons_self ..)
    have hp : s.st i = .pending :=
      pending_of_not_ready h hd i hi (by simpa [zip] using hel)
    cases r with
    | item v =>
      by_cases hc : ({ s with st := upd s.st i .ready } : Fix).allReady = true
      · simp only [zip, hc, if_true, Option.some.injEq] at hex
        subst hex
        have hmid := store_ok h hd i i i hi wk l (.item v) v hl hp rfl [] rfl
          { s with st := upd s.st i .ready, out := upd s.out i (some v) }
          rfl rfl rfl hd (by intro b hb; cases hb)
        have hall : ∀ j, j < n → upd s.st i .ready j = .ready := by
          intro j hj
          simp only [Fix.allReady, List.all_eq_true, List.mem_range, decide_eq_true_eq] at hc
          exact hc j (by rw [h.hn]; exact hj)
        have := return_all hmid hall
          { s with st := fun _ => .pending, out := fun _ => none }
          rfl (by simp) (fun h => by cases h)
          (fun _ => ⟨fun _ _ => Or.inl rfl, fun b hb => by cases hb⟩)
          (.some 0 ({ s with out := upd s.out i (some v) }).outs) rfl
        exact Or.inl (by simpa [zip, hc] using this)
      · simp [zip, hc] at hex
    | fin =>
      simp only [zip, Option.some.injEq] at hex
      subst hex
      exact ((h.frame s.kill rfl rfl rfl (fun hd => by simp [Fix.kill] at hd)).same
        (same_keep i i wk l .fin t hl rfl)).pollEnd _ rfl
    | pend => simp [zip, Fix.keep] at hex
    | ready ok v => simp [zip, Fix.keep] at hex
    | panic => exact absurd rfl hr
  panic := by
    intro s t i rest wk l hJ hel hl
    exact panic_ok hJ.1 i i wk l hl
  finish := by
    intro s t hJ
    exact hJ.1.pollEnd _ rfl
  drop := fun s t h => drop_all h


/-! ### from the invariant to the property -/

theorem pre_init (own : Bool) (cm : Option Bool) (n c0 : Nat)
    (hc : ∀ b, cm = some b → c0 = if b = true then n else 0) : Pre own cm n (Fix.init n c0) [] := by
  refine ⟨rfl, rfl, fun i => by simp [Fix.init, droppedChildren], fun v => ?_, fun _ => ⟨fun _ _ => Or.inl rfl, ?_⟩⟩
  · have : held (Fix.init n c0) = [] := by
      rw [held_fm]
      exact fm_none _ _ _ (fun j _ => by simp [Fix.init])
    rw [this]; rfl
  · intro b hb
    rw [show (Fix.init n c0).cnt = c0 from rfl, hc b hb]
    cases b
    · simp only [Fix.init, Bool.false_eq_true, if_false]
      have : cntP (fun i => decide (PS.pending = PS.ready)) n = 0 := by
        rw [cntP_congr _ (fun _ => false) n (fun i _ => by simp)]
        exact cntP_none n
      exact this.symm
    · simp only [Fix.init, if_true]
      exact (cntP_all _ _ (fun i _ => by simp)).symm

/-- C02 for a fixed-children case from a `Sim` instance of the invariant -/
theorem main (c : Case) (own : Bool) (cm : Option Bool) (hg : c.fam.isGroup = false)
    (S : Sim c.fam.policy (c.fam.modeOf c.mode) (Sim.kindRes c.fam) (Inv own cm c.n) (J own cm c.n))
    (hinit : ∀ b, cm = some b → c.fam.initCnt c.n = if b = true then c.n else 0) (hk : c.kindOk)
    (hb : own = true → c.ops.countP isDrop ≤ 1) : holds_C02 true c.n c.trace = true := by
  unfold Case.trace
  simp only [hg, Bool.false_eq_true, if_false, Case.finalFix]
  have hI := Sim.runFix S c.ops (FEng.init c.fam c.mode c.n c.scripts) rfl
    (Sim.scriptsOk_kind c hk _ rfl) (Or.inl (pre_init own cm c.n _ hinit))
  refine holds_of_inv hI (fun ho => ?_)
  rw [run_cntDB _ (lawful_policy _ hg)]
  have : cntDB (FEng.init c.fam c.mode c.n c.scripts).w.trace = 0 := rfl
  rw [this]
  have := hb ho
  omega

theorem isDrop_eq : isDrop = (fun o => o matches .drop) := by
  funext o; cases o <;> rfl

end C02
end Fc
