/-
  FcLemmas/Live3Run.lean — liveness of stream combinators under the wake-only executor:
  the induction on the round budget, stated once for an abstract run invariant (`Prog`), and its
  instance for the concurrently evaluating streams (`LBS`: merge and zip).

  Progress measure as for join (`3 * stepsLeft` minus the phase); a poll that yields an item has
  polled a child, so `stepsLeft` decreases with it too, and the executor polls again at once.
-/
import FcLemmas.Live3Loop
import FcLemmas.LiveRun
set_option linter.unusedSimpArgs false
set_option linter.unusedVariables false

namespace Fc
namespace Live3
open Mon Live

/-! ### the abstract argument -/

/-- what the induction needs from a run invariant `Inv` (states that are not final) -/
structure Prog (P : Policy Fix) (n : Nat) (Inv : Eng Fix → Prop) : Prop where
  lo : ∀ e, Inv e → lastOut e.w.trace = none ∨ lastOut e.w.trace = some .pending ∨
    ∃ k vs, lastOut e.w.trace = some (.some k vs)
  poll : ∀ e wid, Inv e →
    lastOut (Eng.poll P e wid).w.trace = some .none ∨
    (Inv (Eng.poll P e wid) ∧ Exec.stepsLeft n (Eng.poll P e wid) ≤ Exec.stepsLeft n e ∧
      ((lastOut (Eng.poll P e wid).w.trace ≠ some .pending ∧
          Exec.stepsLeft n (Eng.poll P e wid) < Exec.stepsLeft n e) ∨
       (lastOut (Eng.poll P e wid).w.trace = some .pending ∧
          (Exec.stepsLeft n (Eng.poll P e wid) < Exec.stepsLeft n e ∨
            wokeSince (Eng.poll P e wid).w.trace = false) ∧
          (∀ c, c < n → lastRes e.w.trace c = some .pend → owes e.w.trace c = true →
            Exec.stepsLeft n (Eng.poll P e wid) < Exec.stepsLeft n e))))
  fire : ∀ e c, Inv e → Inv (e.fire c 0)
  waiting : ∀ e, Inv e → lastOut e.w.trace = some .pending →
    ∃ c, c < n ∧ lastRes e.w.trace c = some .pend ∧ e.w.scripts c ≠ []
  woke : ∀ e c, Inv e → lastOut e.w.trace = some .pending → c < n →
    lastRes e.w.trace c = some .pend →
    owes (e.fire c 0).w.trace c = true ∧ wokeSince (e.fire c 0).w.trace = true

variable {P : Policy Fix} {n : Nat} {Inv : Eng Fix → Prop}

theorem finalOut_lo3 {t : List Ev} (h : lastOut t = none ∨ lastOut t = some .pending ∨
    ∃ k vs, lastOut t = some (.some k vs)) : Exec.finalOut (lastOut t) = false := by
  rcases h with h | h | ⟨k, vs, h⟩ <;> rw [h] <;> rfl

theorem shouldPoll_not_pending {t : List Ev} (h : lastOut t = none ∨ lastOut t = some .pending ∨
    ∃ k vs, lastOut t = some (.some k vs)) (hp : lastOut t ≠ some .pending) :
    Exec.shouldPoll t = true := by
  unfold Exec.shouldPoll
  rcases h with h | h | ⟨k, vs, h⟩
  · rw [h]
  · exact absurd h hp
  · rw [h]

theorem shouldPoll_false_pending3 {t : List Ev} (hlo : lastOut t = none ∨ lastOut t = some .pending ∨
    ∃ k vs, lastOut t = some (.some k vs)) (h : Exec.shouldPoll t = false) :
    lastOut t = some .pending ∧ wokeSince t = false := by
  rcases hlo with h1 | h1 | ⟨k, vs, h1⟩
  · unfold Exec.shouldPoll at h; rw [h1] at h; exact Bool.noConfusion h
  · exact ⟨h1, by rw [shouldPoll_pending h1] at h; exact h⟩
  · unfold Exec.shouldPoll at h; rw [h1] at h; exact Bool.noConfusion h

theorem round_poll3 (G : Prog P n Inv) (e : Eng Fix) (h : Inv e)
    (hsp : Exec.shouldPoll e.w.trace = true) :
    Exec.round P n e = some (Eng.poll P e (Exec.pollCount e.w.trace + 1)) := by
  unfold Exec.round; rw [finalOut_lo3 (G.lo e h), hsp]; simp

theorem round_fire3 (G : Prog P n Inv) (e : Eng Fix) (h : Inv e)
    (hsp : Exec.shouldPoll e.w.trace = false)
    (c : Nat) (hfw : Exec.firstWaiting n e = some c) : Exec.round P n e = some (e.fire c 0) := by
  unfold Exec.round; rw [finalOut_lo3 (G.lo e h), hsp, hfw]; simp

/-- after a `Pending` poll some child is waiting and can be prodded -/
theorem firstWaiting_some3 (G : Prog P n Inv) (e : Eng Fix) (h : Inv e)
    (hlo : lastOut e.w.trace = some .pending) :
    ∃ c, Exec.firstWaiting n e = some c ∧ c < n ∧ lastRes e.w.trace c = some .pend ∧
      e.w.scripts c ≠ [] := by
  obtain ⟨c, hc, hlr, hne⟩ := G.waiting e h hlo
  have hsome : (Exec.firstWaiting n e).isSome = true := by
    unfold Exec.firstWaiting
    rw [List.find?_isSome]
    refine ⟨c, List.mem_range.mpr hc, ?_⟩
    simp [hlr, hne]
  cases hfw : Exec.firstWaiting n e with
  | none => rw [hfw] at hsome; exact Bool.noConfusion hsome
  | some c0 =>
    unfold Exec.firstWaiting at hfw
    have hp := List.find?_some hfw
    have hm := List.mem_range.mp (List.mem_of_find?_eq_some hfw)
    simp only [Bool.and_eq_true, beq_iff_eq, Bool.not_eq_true', List.isEmpty_eq_false_iff] at hp
    exact ⟨c0, rfl, hm, hp.1, hp.2⟩

theorem poll_round3 (G : Prog P n Inv) {N : Nat}
    (ih : ∀ e, Inv e → Cond n e N →
      ∃ k, k ≤ N ∧ lastOut (Exec.runFor P n k e).w.trace = some .none)
    (e : Eng Fix) (h : Inv e) (hsp : Exec.shouldPoll e.w.trace = true)
    (hE : ((∃ c, c < n ∧ lastRes e.w.trace c = some .pend ∧ owes e.w.trace c = true) ∧
            3 * Exec.stepsLeft n e ≤ N + 2) ∨ 3 * Exec.stepsLeft n e ≤ N) :
    ∃ k, k ≤ N + 1 ∧ lastOut (Exec.runFor P n k e).w.trace = some .none := by
  have hr := round_poll3 G e h hsp
  rcases G.poll e (Exec.pollCount e.w.trace + 1) h with hv | ⟨h', hle, hcase⟩
  · exact ⟨1, by omega, by simp only [Exec.runFor, hr]; exact hv⟩
  · have hcond : Cond n (Eng.poll P e (Exec.pollCount e.w.trace + 1)) N := by
      rcases hcase with ⟨hnp, hlt⟩ | ⟨hlo', hD, hEE⟩
      · left
        refine ⟨shouldPoll_not_pending (G.lo _ h') hnp, ?_⟩
        rcases hE with ⟨_, hb⟩ | hb <;> omega
      · have hsp' := shouldPoll_pending hlo'
        cases hw : wokeSince (Eng.poll P e (Exec.pollCount e.w.trace + 1)).w.trace with
        | true =>
          left
          refine ⟨by rw [hsp', hw], ?_⟩
          rcases hE with ⟨⟨c, hc, h1, h2⟩, hb⟩ | hb
          · have := hEE c hc h1 h2; omega
          · rcases hD with hD | hD
            · omega
            · rw [hw] at hD; exact Bool.noConfusion hD
        | false =>
          right; left
          refine ⟨by rw [hsp', hw], ?_⟩
          rcases hE with ⟨⟨c, hc, h1, h2⟩, hb⟩ | hb
          · have := hEE c hc h1 h2; omega
          · omega
    obtain ⟨k, hk, hv⟩ := ih _ h' hcond
    exact ⟨k + 1, by omega, by simp only [Exec.runFor, hr]; exact hv⟩

/-- the induction on the number of rounds allowed -/
theorem ends_aux (G : Prog P n Inv) : ∀ (N : Nat) (e : Eng Fix), Inv e → Cond n e N →
    ∃ k, k ≤ N ∧ lastOut (Exec.runFor P n k e).w.trace = some .none := by
  intro N
  induction N with
  | zero =>
    intro e h hc
    rcases hc with ⟨_, h1⟩ | ⟨hsp, h1⟩ | ⟨_, _, h1, h2⟩
    · omega
    · obtain ⟨hlo, _⟩ := shouldPoll_false_pending3 (G.lo e h) hsp
      obtain ⟨c, _, hc, _, hne⟩ := firstWaiting_some3 G e h hlo
      have h3 := le_total (fun c => (e.w.scripts c).length) n c hc
      have h4 := length_pos_of_ne_nil' _ hne
      rw [stepsLeft_eq] at h1
      omega
    · omega
  | succ N ih =>
    intro e h hc
    rcases hc with ⟨hsp, h1⟩ | ⟨hsp, h1⟩ | ⟨hsp, hwit, h1, h2⟩
    · exact poll_round3 G ih e h hsp (Or.inr (by omega))
    · obtain ⟨hlo, _⟩ := shouldPoll_false_pending3 (G.lo e h) hsp
      obtain ⟨c, hfw, hc, hlr, hne⟩ := firstWaiting_some3 G e h hlo
      have hr := round_fire3 G e h hsp c hfw
      have h' := G.fire e c h
      obtain ⟨ho, hw⟩ := G.woke e c h hlo hc hlr
      have hlr' : lastRes (e.fire c 0).w.trace c = some .pend := by
        simp only [Eng.fire_w, C16.lastRes_fire]; exact hlr
      have hlo' : lastOut (e.fire c 0).w.trace = some .pending := by
        rw [show lastOut (e.fire c 0).w.trace = lastOut e.w.trace from C01.lastOut_fire e.w c 0]
        exact hlo
      have h3 := le_total (fun c => (e.w.scripts c).length) n c hc
      have h4 := length_pos_of_ne_nil' _ hne
      have hcond : Cond n (e.fire c 0) N := by
        right; right
        refine ⟨by rw [shouldPoll_pending hlo', hw], ⟨c, hc, hlr', ho⟩, ?_, ?_⟩
        · rw [stepsLeft_fire, stepsLeft_eq]; omega
        · rw [stepsLeft_fire]; omega
      obtain ⟨k, hk, hv⟩ := ih _ h' hcond
      exact ⟨k + 1, by omega, by simp only [Exec.runFor, hr]; exact hv⟩
    · exact poll_round3 G ih e h hsp (Or.inl ⟨hwit, by omega⟩)

/-- every run from a state satisfying the invariant ends within `3 * stepsLeft + 1` rounds -/
theorem ends_of_prog (G : Prog P n Inv) (e : Eng Fix) (h : Inv e)
    (hsp : Exec.shouldPoll e.w.trace = true) :
    ∃ k, k ≤ 3 * Exec.stepsLeft n e + 1 ∧
      lastOut (Exec.runFor P n k e).w.trace = some .none :=
  ends_aux G _ e h (Or.inl ⟨hsp, Nat.le_refl _⟩)

/-! ### the run invariant of merge and zip -/

structure LBS (P : Policy Fix) (I : Nat → Fix → List Ev → Prop) (m : Mode) (n : Nat) (e : Eng Fix) :
    Prop where
  pos : 0 < n
  mode : e.w.mode = m
  std : m = .std → C01.BInv P n e
  dir : m = .direct → C01D.BInv P n e
  b20 : C20.B20 P e
  fi : I n e.s e.w.trace
  sn : e.s.n = n
  wi : WInvS n e.w
  sp : spent false e.w.trace = false
  bib : BIB P n e
  lo : lastOut e.w.trace = none ∨ lastOut e.w.trace = some .pending ∨
    ∃ k vs, lastOut e.w.trace = some (.some k vs)

variable {I : Nat → Fix → List Ev → Prop} {J : Nat → Fix → List Ev → List Nat → Prop} {m : Mode}

theorem lbs_quiet (e : Eng Fix) (h : LBS P I m n e) : quiet n e.w.trace = true := by
  cases m with
  | std => exact C01.quiet_of_binv e (h.std rfl)
  | direct => exact C01D.quiet_of_binv e (h.dir rfl)

theorem lbs_fire (SL : StreamLike P I J) (e : Eng Fix) (c a : Nat) (h : LBS P I m n e) :
    LBS P I m n (e.fire c a) := by
  obtain ⟨l, hl, hp⟩ := World.fire_seg e.w c a
  have hlo : lastOut (e.fire c a).w.trace = lastOut e.w.trace := C01.lastOut_fire e.w c a
  refine ⟨h.pos, by simpa using h.mode, fun hm => C01.binv_fire e c a (h.std hm),
    fun hm => C01D.binv_fire e c a (h.dir hm), C20.b20_fire e c a h.b20,
    (Sim.fireT (SL.sim n m) e c a h.mode (Sim.scriptsOk_any _) h.fi).2.2, h.sn,
    winvs_fire e.w c a h.wi, ?_, bib_fire e c a h.bib, by rw [hlo]; exact h.lo⟩
  simp only [Eng.fire_w, hl]
  rw [spent_fires false l _ hp]; exact h.sp

theorem lbs_poll (SL : StreamLike P I J) (e : Eng Fix) (wid : Nat) (h : LBS P I m n e) :
    lastOut (Eng.poll P e wid).w.trace = some .none ∨
    (LBS P I m n (Eng.poll P e wid) ∧ Exec.stepsLeft n (Eng.poll P e wid) ≤ Exec.stepsLeft n e ∧
      ((lastOut (Eng.poll P e wid).w.trace ≠ some .pending ∧
          Exec.stepsLeft n (Eng.poll P e wid) < Exec.stepsLeft n e) ∨
       (lastOut (Eng.poll P e wid).w.trace = some .pending ∧
          (Exec.stepsLeft n (Eng.poll P e wid) < Exec.stepsLeft n e ∨
            wokeSince (Eng.poll P e wid).w.trace = false) ∧
          (∀ c, c < n → lastRes e.w.trace c = some .pend → owes e.w.trace c = true →
            Exec.stepsLeft n (Eng.poll P e wid) < Exec.stepsLeft n e)))) := by
  obtain ⟨hP, hbib⟩ := pends_poll SL e wid h.mode h.fi h.wi h.sp h.bib h.std
  have hT := Sim.pollT (SL.sim n m) e wid h.mode (Sim.scriptsOk_any _) h.fi
  have hstd : m = .std → C01.BInv P n (Eng.poll P e wid) :=
    fun hm => C01.binv_poll SL.conc e wid (h.std hm)
  have hdir : m = .direct → C01D.BInv P n (Eng.poll P e wid) :=
    fun hm => C01D.binv_poll SL.conc e wid (h.dir hm)
  have hb20 : C20.B20 P (Eng.poll P e wid) := by
    cases m with
    | std => exact C20S.poll20 (n := n) SL.conc e wid (h.std rfl) h.b20
    | direct => exact C20D.poll20 (n := n) SL.conc e wid (h.dir rfl) h.b20
  have hnowp : c01NoPanic (Eng.poll P e wid).w.trace = true := by
    cases m with
    | std => exact (hstd rfl).ks.nowp
    | direct => exact (hdir rfl).kd.nowp
  have hsn : (Eng.poll P e wid).s.n = n := by
    cases m with
    | std => rw [← (hstd rfl).cap, hbib.cap]
    | direct => rw [← (hdir rfl).cap, hbib.cap]
  have hm20 := hb20.m20
  rw [hsn] at hm20
  have hfi := hT.2.2
  have hab := hP.ab
  obtain ⟨o, t, ht, hspt, hpnt⟩ := hP.shape
  rw [ht] at hnowp hm20 hab hfi
  simp only [atPollBegin] at hab
  have hLe : ∀ c, c < n → ((Eng.poll P e wid).w.scripts c).length ≤ (e.w.scripts c).length :=
    fun c _ => hP.le c
  have hle : Exec.stepsLeft n (Eng.poll P e wid) ≤ Exec.stepsLeft n e := total_le _ _ n hLe
  have hspo : ∀ (o' : Outcome), o = o' → (∀ ok vals, o' ≠ .ready ok vals) → o' ≠ .none → o' ≠ .panicked →
      spent false (.pollEnd o' :: t) = false := by
    intro o' _ h1 h2 h3
    cases o' with
    | ready ok vals => exact absurd rfl (h1 ok vals)
    | none => exact absurd rfl h2
    | panicked => exact absurd rfl h3
    | pending => simpa [spent, finalSeen, alive, panickedSeen] using hspt
    | some k vs => simpa [spent, finalSeen, alive, panickedSeen] using hspt
    | misuse => simpa [spent, finalSeen, alive, panickedSeen] using hspt
  cases o with
  | pending =>
    right
    -- C20: an owed waiting child was polled in this poll
    have hc20 : ∀ c, c < n →
        (lastRes e.w.trace c = some .pend → owes e.w.trace c = true → polledSince t c = true) := by
      simp only [holds_C20, Bool.and_eq_true] at hm20
      have := hm20.2
      simp only [c20At, List.all_eq_true, List.mem_range] at this
      intro c hc
      have hcc := this c hc
      rw [hab] at hcc
      simp only [owned, hc, decide_true, if_true, Bool.not_true, Bool.false_or, Bool.and_eq_true,
        Bool.or_eq_true, Bool.not_eq_true', Bool.and_eq_false_imp, beq_iff_eq] at hcc
      intro h1 h2
      rcases hcc.2 with h3 | h3
      · have := h3 h1; rw [h2] at this; exact Bool.noConfusion this
      · exact h3
    have hps : ∀ c, polledSince (Eng.poll P e wid).w.trace c = polledSince t c := by
      intro c; rw [ht]; simp [polledSince]
    refine ⟨⟨h.pos, hT.1, hstd, hdir, hb20, hT.2.2, hsn, hP.wi, ?_, hbib,
      Or.inr (Or.inl (by rw [ht]; rfl))⟩, hle, Or.inr ⟨by rw [ht]; rfl, ?_, ?_⟩⟩
    · rw [ht]; exact hspo .pending rfl (by simp) (by simp) (by simp)
    · cases hw : wokeSince (Eng.poll P e wid).w.trace with
      | false => right; rfl
      | true =>
        left
        obtain ⟨c, hc⟩ := hP.wk hw
        have := hP.ps c hc
        exact total_lt _ _ n hLe c this.1 this.2
    · intro c hc h1 h2
      have h3 := hc20 c hc h1 h2
      rw [← hps] at h3
      exact total_lt _ _ n hLe c hc (hP.ps c h3).2
  | ready ok vals => exact (SL.no_ready n _ t ok vals hfi).elim
  | some k vals =>
    right
    refine ⟨⟨h.pos, hT.1, hstd, hdir, hb20, hT.2.2, hsn, hP.wi, ?_, hbib,
      Or.inr (Or.inr ⟨k, vals, by rw [ht]; rfl⟩)⟩, hle, Or.inl ⟨by rw [ht]; simp [lastOut], ?_⟩⟩
    · rw [ht]; exact hspo (.some k vals) rfl (by simp) (by simp) (by simp)
    · obtain ⟨c, hc⟩ := hP.sm k vals (by rw [ht]; rfl)
      have := hP.ps c hc
      exact total_lt _ _ n hLe c this.1 this.2
  | none => left; rw [ht]; rfl
  | panicked =>
    simp only [c01NoPanic, Bool.and_eq_true] at hnowp
    rw [hpnt] at hnowp; exact absurd hnowp.2 (by simp)
  | misuse =>
    have := SL.misuse_spent n _ t hfi
    rw [hspt] at this; exact Bool.noConfusion this

theorem prog_lbs (SL : StreamLike P I J) : Prog P n (LBS P I m n) where
  lo := fun e h => h.lo
  poll := fun e wid h => lbs_poll SL e wid h
  fire := fun e c h => lbs_fire SL e c 0 h
  waiting := by
    intro e h hlo
    obtain ⟨c, hc, hel⟩ := SL.waiting n _ _ h.pos h.fi h.sp
    have hlr := h.bib.pa hlo c hc hel
    refine ⟨c, hc, hlr, ?_⟩
    rcases h.wi.str c hc with hs | hs
    · exact ss_ne_nil _ hs.1
    · rw [hlr] at hs; cases hs
  woke := by
    intro e c h hlo hc hlr
    have h' := lbs_fire SL e c 0 h
    have := fire_woke e.w c h.wi (lbs_quiet _ h') h.sp hlo hc hlr
    exact ⟨this.1, this.2.2⟩

end Live3
end Fc
