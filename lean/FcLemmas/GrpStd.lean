/-
  FcLemmas/GrpStd.lean — no lost wake-ups for the groups, std mode: kernel-level invariants for a
  container whose slots are occupied by changing members (`mem : slot → member`), and their
  preservation by every kernel step (including `resize`).
-/
import FcLemmas.GrpLink

set_option linter.unusedSimpArgs false
set_option linter.unusedVariables false

namespace Fc
namespace G
open Mon C01

/-! ### the readiness set: exact count -/

structure BC (w : World) : Prop where
  std : w.mode = .std
  cnt : w.count = nset w
  hi  : ∀ i, w.cap ≤ i → w.bits i = false

theorem bc_trace {w : World} (t : List Ev) (h : BC w) : BC { w with trace := t } :=
  ⟨h.std, by simpa [nset] using h.cnt, h.hi⟩

theorem bc_emit {w : World} (e : Ev) (h : BC w) : BC (w.emit e) := bc_trace _ h
theorem bc_emits {w : World} (l : List Ev) (h : BC w) : BC (w.emits l) := bc_trace _ h
theorem bc_setWaker {w : World} (p : Nat) (h : BC w) : BC (w.setWaker p) :=
  ⟨h.std, by simpa [nset] using h.cnt, h.hi⟩

theorem bc_setReady {w : World} (i : Nat) (hi : i < w.cap) (h : BC w) : BC (w.setReady i) := by
  have hb := World.setReady_bits_std w i h.std
  refine ⟨by simpa using h.std, ?_, ?_⟩
  · rw [setReady_count w i h.std]
    simp only [nset, World.setReady_cap, hb]
    cases hbi : w.bits i with
    | true =>
      simp only [if_true]
      have : upd w.bits i true = w.bits := by
        funext j; unfold upd; split
        · rename_i hj; rw [hj, hbi]
        · rfl
      rw [this]; exact h.cnt
    | false =>
      simp only [Bool.false_eq_true, if_false]
      rw [filter_upd_true w.bits i w.cap hi hbi]
      have := h.cnt; unfold nset at this; omega
  · intro j hj
    rw [hb, upd_other _ _ _ _ (by simp only [World.setReady_cap] at hj; omega)]
    exact h.hi j (by simpa using hj)

theorem bc_clearReady {w : World} (i : Nat) (h : BC w) : BC (w.clearReady i) := by
  have hb := World.clearReady_bits_std w i h.std
  refine ⟨by simpa using h.std, ?_, ?_⟩
  · rw [clearReady_count w i h.std]
    simp only [nset, World.clearReady_cap, hb]
    cases hbi : w.bits i with
    | true =>
      simp only [if_true]
      have hic : i < w.cap := by
        by_cases hh : w.cap ≤ i
        · have := h.hi i hh; rw [this] at hbi; exact Bool.noConfusion hbi
        · omega
      have := filter_upd_false w.bits i w.cap hic hbi
      have hc := h.cnt; unfold nset at hc; omega
    | false =>
      simp only [Bool.false_eq_true, if_false]
      have : upd w.bits i false = w.bits := by
        funext j; unfold upd; split
        · rename_i hj; rw [hj, hbi]
        · rfl
      rw [this]; exact h.cnt
  · intro j hj
    rw [hb]
    by_cases hji : j = i
    · subst hji; simp
    · rw [upd_other _ _ _ _ hji]; exact h.hi j (by simpa using hj)

theorem filter_range_add (f : Nat → Bool) (a b : Nat) :
    ((List.range (a + b)).filter f).length
      = ((List.range a).filter f).length + ((List.range b).filter (fun j => f (a + j))).length := by
  induction b with
  | zero => simp
  | succ b ih =>
    rw [← Nat.add_assoc, List.range_succ, List.filter_append, List.length_append, ih,
      List.range_succ, List.filter_append, List.length_append]
    simp only [List.filter_cons, List.filter_nil]
    cases f (a + b) <;> simp <;> omega

/-- `resize` arms the new slots and keeps the count exact -/
theorem bc_resize {w : World} (len : Nat) (h : BC w) : BC (w.resize len) := by
  unfold World.resize
  split
  · rename_i hlt
    rw [h.std]; simp only
    refine ⟨rfl, ?_, ?_⟩
    · simp only [nset]
      obtain ⟨d, rfl⟩ : ∃ d, len = w.cap + d := ⟨len - w.cap, by omega⟩
      rw [filter_range_add]
      have h1 : (List.range w.cap).filter (fun j => if w.cap ≤ j ∧ j < w.cap + d then true else w.bits j)
          = (List.range w.cap).filter (fun j => w.bits j) := by
        apply List.filter_congr
        intro j hj
        simp only [List.mem_range] at hj
        have : ¬ (w.cap ≤ j ∧ j < w.cap + d) := by omega
        simp [this]
      have h2 : (List.range d).filter
          (fun j => if w.cap ≤ w.cap + j ∧ w.cap + j < w.cap + d then true else w.bits (w.cap + j))
          = List.range d := by
        rw [List.filter_eq_self]
        intro j hj
        simp only [List.mem_range] at hj
        have : w.cap ≤ w.cap + j ∧ w.cap + j < w.cap + d := by omega
        simp [this]
      rw [h1, h2, List.length_range]
      have := h.cnt; unfold nset at this; omega
    · intro j hj
      simp only at hj
      have : ¬ (w.cap ≤ j ∧ j < len) := by omega
      simp only [this, if_false]
      exact h.hi j (by omega)
  · exact h

theorem resize_bits_mono (w : World) (len j : Nat) (h : w.bits j = true) :
    (w.resize len).bits j = true := by
  unfold World.resize
  split
  · cases w.mode <;> simp only
    · split <;> simp [h]
    · exact h
  · exact h

theorem resize_bits_lt (w : World) (len j : Nat) (hj : j < w.cap) :
    (w.resize len).bits j = w.bits j := by
  unfold World.resize
  split
  · cases w.mode <;> simp only
    have : ¬ (w.cap ≤ j ∧ j < len) := by omega
    simp [this]
  · rfl

/-! ### kernel invariant (std mode) -/

/-- `mem k = some c`: member `c` lives in slot `k`; `ip` = the member whose poll is in progress -/
structure GK (w : World) (mem : Nat → Option Nat) (ip : Option Nat) : Prop where
  bc   : BC w
  hand : ∀ c wk, wk ∈ w.handed c → ∃ k, wk = .sub k ∧ k < w.cap
  par  : (∃ c, w.handed c ≠ []) → w.parent ≠ none
  /-- a member holds the sub-waker of its slot -/
  lwk  : ∀ k c, mem k = some c → ∀ wk, lastWk w.trace c = some wk → wk = .sub k
  /-- an owed wake-up of a waiting member: the bit of its slot is set -/
  i2   : ∀ k c, mem k = some c → owes w.trace c = true →
           (lastRes w.trace c = some .pend ∨ ip = some c) → w.bits k = true
  /-- a member that was never polled: the bit of its slot is set -/
  nv   : ∀ k c, mem k = some c → everPolled w.trace c = false → w.bits k = true
  nowp : c01NoPanic w.trace = true

theorem gk_mono {w : World} {mem mem' : Nat → Option Nat} {ip : Option Nat}
    (hm : ∀ k c, mem' k = some c → mem k = some c) (h : GK w mem ip) : GK w mem' ip :=
  ⟨h.bc, h.hand, h.par, fun k c hk => h.lwk k c (hm k c hk), fun k c hk => h.i2 k c (hm k c hk),
    fun k c hk => h.nv k c (hm k c hk), h.nowp⟩

theorem everPolled_ksNeutral (e : Ev) (t : List Ev) (c : Nat) (hn : ksNeutral e = true) :
    everPolled (e :: t) c = everPolled t c := by
  cases e <;> simp_all [ksNeutral, everPolled]

theorem gk_emit {w : World} {mem : Nat → Option Nat} {ip : Option Nat} (e : Ev)
    (hn : ksNeutral e = true) (h : GK w mem ip) : GK (w.emit e) mem ip := by
  have h0 : ∀ c, lastWk (e :: w.trace) c = lastWk w.trace c := by
    intro c; cases e <;> simp_all [ksNeutral, lastWk]
  have h1 : ∀ c, owes (e :: w.trace) c = owes w.trace c := by
    intro c; cases e <;> simp_all [ksNeutral, owes]
  have h2 : ∀ c, lastRes (e :: w.trace) c = lastRes w.trace c := by
    intro c; cases e <;> simp_all [ksNeutral, lastRes]
  refine ⟨bc_emit e h.bc, h.hand, h.par, ?_, ?_, ?_, ?_⟩
  · intro k c hk wk hw; exact h.lwk k c hk wk (by simpa [h0] using hw)
  · intro k c hk ho hl
    exact h.i2 k c hk (by simpa [h1] using ho) (by simpa [h2] using hl)
  · intro k c hk hep
    exact h.nv k c hk (by simpa [everPolled_ksNeutral e _ c hn] using hep)
  · have := h.nowp
    cases e <;> simp_all [ksNeutral, c01NoPanic]
    rename_i o
    cases o <;> simp_all [ksNeutral, c01NoPanic]

theorem gk_emits_own {w : World} {mem : Nat → Option Nat} {ip : Option Nat} (l : List Ev)
    (hl : ∀ e ∈ l, isOwnEv e = true) (h : GK w mem ip) : GK (w.emits l) mem ip := by
  induction l generalizing w with
  | nil => simpa using h
  | cons e l ih =>
    rw [World.emits_cons]
    refine ih (fun e' he' => hl e' (List.mem_cons_of_mem _ he')) (gk_emit e ?_ h)
    have := hl e (List.mem_cons_self ..)
    cases e <;> simp_all [isOwnEv, ksNeutral]

theorem gk_setWaker {w : World} {mem : Nat → Option Nat} {ip : Option Nat} (p : Nat)
    (h : GK w mem ip) : GK (w.setWaker p) mem ip :=
  ⟨bc_setWaker p h.bc, h.hand, fun _ => by simp, h.lwk, h.i2, h.nv, h.nowp⟩

theorem gk_setReady {w : World} {mem : Nat → Option Nat} {ip : Option Nat} (i : Nat)
    (hi : i < w.cap) (h : GK w mem ip) : GK (w.setReady i) mem ip := by
  have hb := World.setReady_bits_std w i h.bc.std
  have hmono : ∀ k, w.bits k = true → (w.setReady i).bits k = true := by
    intro k hk; rw [hb]
    by_cases hki : k = i
    · subst hki; simp
    · rw [upd_other _ _ _ _ hki]; exact hk
  refine ⟨bc_setReady i hi h.bc, by simpa using h.hand, by simpa using h.par,
    by simpa using h.lwk, ?_, ?_, by simpa using h.nowp⟩
  · intro k c hk ho hl
    exact hmono k (h.i2 k c hk (by simpa using ho) (by simpa using hl))
  · intro k c hk hep
    exact hmono k (h.nv k c hk (by simpa using hep))

theorem gk_resize {w : World} {mem : Nat → Option Nat} {ip : Option Nat} (len : Nat)
    (h : GK w mem ip) : GK (w.resize len) mem ip := by
  have ht := GEng.resize_trace w len
  refine ⟨bc_resize len h.bc, ?_, by simpa using h.par, by rw [ht]; exact h.lwk, ?_, ?_,
    by rw [ht]; exact h.nowp⟩
  · intro c wk hw
    rw [resize_handed] at hw
    obtain ⟨k, hk, hlt⟩ := h.hand c wk hw
    exact ⟨k, hk, Nat.lt_of_lt_of_le hlt (resize_cap_le w len)⟩
  · intro k c hk ho hl
    rw [ht] at ho hl
    exact resize_bits_mono w len k (h.i2 k c hk ho hl)
  · intro k c hk hep
    rw [ht] at hep
    exact resize_bits_mono w len k (h.nv k c hk hep)

/-- a never-polled child is put into a slot whose bit is set -/
theorem gk_add {w : World} {mem : Nat → Option Nat} (k c : Nat) (hb : w.bits k = true)
    (hw : lastWk w.trace c = none) (hnm : ∀ k', mem k' ≠ some c) (h : GK w mem none) :
    GK w (upd mem k (some c)) none := by
  refine ⟨h.bc, h.hand, h.par, ?_, ?_, ?_, h.nowp⟩
  · intro k' c' hk' wk hwk
    by_cases hkk : k' = k
    · subst hkk; rw [upd_same] at hk'
      have := Option.some.inj hk'; subst this
      rw [hw] at hwk; simp at hwk
    · rw [upd_other _ _ _ _ hkk] at hk'; exact h.lwk k' c' hk' wk hwk
  · intro k' c' hk' ho hl
    by_cases hkk : k' = k
    · subst hkk; exact hb
    · rw [upd_other _ _ _ _ hkk] at hk'; exact h.i2 k' c' hk' ho hl
  · intro k' c' hk' hep
    by_cases hkk : k' = k
    · subst hkk; exact hb
    · rw [upd_other _ _ _ _ hkk] at hk'; exact h.nv k' c' hk' hep

theorem gk_fired_none {w : World} {mem : Nat → Option Nat} {ip : Option Nat} (c a : Nat)
    (h : GK w mem ip) : GK (w.emit (.fired c a none)) mem ip := by
  refine ⟨bc_emit _ h.bc, h.hand, h.par, ?_, ?_, ?_, ?_⟩
  · intro k c' hk wk hw; exact h.lwk k c' hk wk (by simpa [lastWk] using hw)
  · intro k c' hk ho hl
    exact h.i2 k c' hk (by simpa [owes] using ho) (by simpa [lastRes] using hl)
  · intro k c' hk hep; exact h.nv k c' hk (by simpa [everPolled] using hep)
  · simpa [c01NoPanic] using h.nowp

theorem gk_fire {w : World} {mem : Nat → Option Nat} {ip : Option Nat} (c a : Nat)
    (h : GK w mem ip) : GK (w.fire c a) mem ip := by
  unfold World.fire
  split
  · exact gk_fired_none c a h
  · rename_i wk hwk
    have hmem : wk ∈ w.handed c := List.mem_of_getElem? hwk
    obtain ⟨s, rfl, hs⟩ := h.hand c wk hmem
    have hpar : w.parent ≠ none := h.par ⟨c, by intro hh; rw [hh] at hmem; simp at hmem⟩
    have hstd := h.bc.std
    -- after the `fired` event, bits unchanged
    have hF : ∀ (bits' : Nat → Bool), (∀ j, w.bits j = true → bits' j = true) → bits' s = true →
        (∀ k c', mem k = some c' → owes (Ev.fired c a (some (Wk.sub s)) :: w.trace) c' = true →
          (lastRes (Ev.fired c a (some (Wk.sub s)) :: w.trace) c' = some .pend ∨ ip = some c') →
          bits' k = true) := by
      intro bits' hmono hbs k c' hk ho hl
      simp only [owes, Bool.or_eq_true, beq_iff_eq, lastRes] at ho hl
      rcases ho with ho | ho
      · exact hmono k (h.i2 k c' hk ho hl)
      · have := h.lwk k c' hk _ ho
        simp only [Wk.sub.injEq] at this
        subst this; exact hbs
    cases hb : w.bits s with
    | true =>
      have : (w.emit (.fired c a (some (.sub s)))).fireWk (.sub s) = w.emit (.fired c a (some (.sub s))) := by
        simp [World.fireWk, hstd, hb]
      rw [this]
      refine ⟨bc_emit _ h.bc, h.hand, h.par, ?_, hF w.bits (fun _ hj => hj) hb, ?_, ?_⟩
      · intro k c' hk wk hw; exact h.lwk k c' hk wk (by simpa [lastWk] using hw)
      · intro k c' hk hep; exact h.nv k c' hk (by simpa [everPolled] using hep)
      · simpa [c01NoPanic] using h.nowp
    | false =>
      cases hp : w.parent with
      | none => exact absurd hp hpar
      | some p =>
        have : (w.emit (.fired c a (some (.sub s)))).fireWk (.sub s)
            = ((w.emit (.fired c a (some (.sub s)))).setReady s).emit (.woke p) := by
          simp [World.fireWk, hstd, hb, hp]
        rw [this]
        have hb' := World.setReady_bits_std (w.emit (.fired c a (some (.sub s)))) s hstd
        have hmono : ∀ j, w.bits j = true →
            ((w.emit (.fired c a (some (.sub s)))).setReady s).bits j = true := by
          intro j hj; rw [hb']
          by_cases hjs : j = s
          · subst hjs; simp
          · rw [upd_other _ _ _ _ hjs]; exact hj
        refine ⟨bc_emit _ (bc_setReady s (by simpa using hs) (bc_emit _ h.bc)), by simpa using h.hand,
          by simpa using h.par, ?_, ?_, ?_, ?_⟩
        · intro k c' hk wk hw; exact h.lwk k c' hk wk (by simpa [lastWk] using hw)
        · intro k c' hk ho hl
          simp only [World.emit_trace, World.setReady_trace, World.emit_bits] at ho hl ⊢
          refine hF _ hmono (by rw [hb']; simp) k c' hk (by simpa [owes] using ho) ?_
          simpa [lastRes] using hl
        · intro k c' hk hep
          simp only [World.emit_bits]
          exact hmono k (h.nv k c' hk (by simpa [everPolled] using hep))
        · simpa [c01NoPanic] using h.nowp

theorem gk_fires {w : World} {mem : Nat → Option Nat} {ip : Option Nat} (l : List (Nat × Nat))
    (h : GK w mem ip) : GK (w.fires l) mem ip := by
  induction l generalizing w with
  | nil => exact h
  | cons p l ih => rw [World.fires_cons]; exact ih (gk_fire p.1 p.2 h)

/-- `GK` with the bit/owes link suspended for slot `k` (between clearing its bit and the
    `childBegin` of its member that follows at once) -/
structure GKw (w : World) (mem : Nat → Option Nat) (k : Nat) : Prop where
  bc   : BC w
  hand : ∀ c wk, wk ∈ w.handed c → ∃ k, wk = .sub k ∧ k < w.cap
  par  : (∃ c, w.handed c ≠ []) → w.parent ≠ none
  lwk  : ∀ k c, mem k = some c → ∀ wk, lastWk w.trace c = some wk → wk = .sub k
  i2   : ∀ k' c, k' ≠ k → mem k' = some c → owes w.trace c = true →
           lastRes w.trace c = some .pend → w.bits k' = true
  nv   : ∀ k' c, k' ≠ k → mem k' = some c → everPolled w.trace c = false → w.bits k' = true
  nowp : c01NoPanic w.trace = true

theorem gkw_clearReady {w : World} {mem : Nat → Option Nat} (k : Nat) (h : GK w mem none) :
    GKw (w.clearReady k) mem k := by
  have hb := World.clearReady_bits_std w k h.bc.std
  refine ⟨bc_clearReady k h.bc, by simpa using h.hand, by simpa using h.par, by simpa using h.lwk,
    ?_, ?_, by simpa using h.nowp⟩
  · intro k' c hk' hm ho hl
    rw [hb, upd_other _ _ _ _ hk']
    exact h.i2 k' c hm (by simpa using ho) (Or.inl (by simpa using hl))
  · intro k' c hk' hm hep
    rw [hb, upd_other _ _ _ _ hk']
    exact h.nv k' c hm (by simpa using hep)

/-- the state right after `childBegin c k` -/
theorem gk_childBegin {w : World} {mem : Nat → Option Nat} (c k : Nat) (hk : k < w.cap)
    (hm : mem k = some c) (inj : ∀ k', mem k' = some c → k' = k) (h : GKw w mem k)
    (hpar : w.parent ≠ none) :
    GK { w with scripts := upd w.scripts c (w.scripts c).tail,
                handed := upd w.handed c (w.wakerFor k :: w.handed c),
                trace := .childBegin c k (w.wakerFor k) :: w.trace } mem (some c) := by
  have hwk : w.wakerFor k = .sub k := by simp [World.wakerFor, h.bc.std]
  refine ⟨⟨h.bc.std, by simpa [nset] using h.bc.cnt, h.bc.hi⟩, ?_, fun _ => hpar, ?_, ?_, ?_, ?_⟩
  · intro c' wk hw
    simp only at hw
    by_cases hci : c' = c
    · subst hci
      rw [upd_same] at hw
      simp only [List.mem_cons] at hw
      rcases hw with rfl | hw
      · exact ⟨k, hwk, hk⟩
      · exact h.hand c' wk hw
    · rw [upd_other _ _ _ _ hci] at hw; exact h.hand c' wk hw
  · intro k' c' hm' wk hw
    simp only [lastWk] at hw
    split at hw
    · rename_i hcc; subst hcc
      have := inj k' hm'; subst this
      simp only [Option.some.injEq] at hw
      rw [← hw, hwk]
    · exact h.lwk k' c' hm' wk hw
  · intro k' c' hm' ho hl
    simp only [owes] at ho
    split at ho
    · exact Bool.noConfusion ho
    · rename_i hcc
      have hkk : k' ≠ k := by
        intro hh; subst hh; rw [hm] at hm'; exact hcc (Option.some.inj hm')
      simp only [lastRes] at hl
      rcases hl with hl | hl
      · exact h.i2 k' c' hkk hm' ho hl
      · simp only [Option.some.injEq] at hl; exact absurd hl hcc
  · intro k' c' hm' hep
    simp only [everPolled, Bool.or_eq_false_iff, decide_eq_false_iff_not] at hep
    have hkk : k' ≠ k := by
      intro hh; subst hh; rw [hm] at hm'; exact hep.1 (Option.some.inj hm')
    exact h.nv k' c' hkk hm' hep.2
  · simpa [c01NoPanic] using h.nowp

/-- polling member `c` of slot `k` (bit just cleared) -/
theorem gk_pollChild {w : World} {mem : Nat → Option Nat} (c k : Nat) (hk : k < w.cap)
    (hm : mem k = some c) (inj : ∀ k', mem k' = some c → k' = k) (h : GKw w mem k)
    (hpar : w.parent ≠ none) : GK (w.pollChild c k) mem none := by
  unfold World.pollChild
  have h2 := gk_fires (w.stepOf c).fires (gk_childBegin c k hk hm inj h hpar)
  refine ⟨bc_emit _ h2.bc, by simpa using h2.hand, by simpa using h2.par, ?_, ?_, ?_, ?_⟩
  · intro k' c' hm' wk hw; exact h2.lwk k' c' hm' wk (by simpa [lastWk] using hw)
  · intro k' c' hm' ho hl
    simp only [World.emit_trace, owes, lastRes] at ho hl
    simp only [World.emit_bits]
    by_cases hcc : c = c'
    · subst hcc; exact h2.i2 k' c hm' ho (Or.inr rfl)
    · simp only [hcc, if_false] at hl
      rcases hl with hl | hl
      · exact h2.i2 k' c' hm' ho (Or.inl hl)
      · simp at hl
  · intro k' c' hm' hep
    exact h2.nv k' c' hm' (by simpa [everPolled] using hep)
  · have := h2.nowp
    simp only [World.emit_trace, c01NoPanic]
    exact this

theorem gk_pollEnd {w : World} {mem : Nat → Option Nat} (o : Outcome) (h : GK w mem none)
    (hp : o = .panicked → panicSince w.trace = true) : GK (w.emit (.pollEnd o)) mem none := by
  by_cases ho : o = .panicked
  · subst ho
    refine ⟨bc_emit _ h.bc, h.hand, h.par, ?_, ?_, ?_, ?_⟩
    · intro k c hk wk hw; exact h.lwk k c hk wk (by simpa [lastWk] using hw)
    · intro k c hk ho' hl
      exact h.i2 k c hk (by simpa [owes] using ho') (by simpa [lastRes] using hl)
    · intro k c hk hep; exact h.nv k c hk (by simpa [everPolled] using hep)
    · simp [c01NoPanic, h.nowp, hp rfl]
  · refine gk_emit _ ?_ h
    cases o <;> simp_all [ksNeutral]

/-! ### wake forwarding -/

/-- the stored parent waker is the current task waker, and a set bit of a visited slot whose
    member is waiting means the task has been woken.  `V` = slots already scanned. -/
structure GJ (w : World) (mem : Nat → Option Nat) (ip : Option Nat) (V : Nat → Prop) : Prop where
  pw : ∃ p, w.parent = some p ∧ cur w.trace = some p
  j  : ∀ k c, V k → mem k = some c → w.bits k = true →
         (lastRes w.trace c = some .pend ∨ ip = some c) → wokeSince w.trace = true

theorem gj_mono {w : World} {mem mem' : Nat → Option Nat} {ip : Option Nat} {V V' : Nat → Prop}
    (hv : ∀ k, V' k → V k) (hm : ∀ k c, mem' k = some c → mem k = some c) (h : GJ w mem ip V) :
    GJ w mem' ip V' :=
  ⟨h.pw, fun k c hk hmk => h.j k c (hv k hk) (hm k c hmk)⟩

theorem gj_emit {w : World} {mem : Nat → Option Nat} {ip : Option Nat} {V : Nat → Prop} (e : Ev)
    (hn : jsNeutral e = true) (h : GJ w mem ip V) : GJ (w.emit e) mem ip V := by
  have h1 : cur (e :: w.trace) = cur w.trace := by cases e <;> simp_all [jsNeutral, cur]
  have h2 : wokeSince (e :: w.trace) = wokeSince w.trace := by
    cases e <;> simp_all [jsNeutral, wokeSince]
  have h3 : ∀ c, lastRes (e :: w.trace) c = lastRes w.trace c := by
    intro c; cases e <;> simp_all [jsNeutral, lastRes]
  refine ⟨by simpa [h1] using h.pw, ?_⟩
  intro k c hv hm hb hl
  simp only [World.emit_trace, h2, h3] at hl ⊢
  exact h.j k c hv hm (by simpa using hb) hl

theorem gj_emits_own {w : World} {mem : Nat → Option Nat} {ip : Option Nat} {V : Nat → Prop}
    (l : List Ev) (hl : ∀ e ∈ l, isOwnEv e = true) (h : GJ w mem ip V) : GJ (w.emits l) mem ip V := by
  induction l generalizing w with
  | nil => simpa using h
  | cons e l ih =>
    rw [World.emits_cons]
    refine ih (fun e' he' => hl e' (List.mem_cons_of_mem _ he')) (gj_emit e ?_ h)
    have := hl e (List.mem_cons_self ..)
    cases e <;> simp_all [isOwnEv, jsNeutral]

theorem gj_clearReady {w : World} {mem : Nat → Option Nat} {ip : Option Nat} {V : Nat → Prop}
    (i : Nat) (hm : w.mode = .std) (h : GJ w mem ip V) : GJ (w.clearReady i) mem ip V := by
  refine ⟨by simpa using h.pw, ?_⟩
  intro k c hv hmk hb hl
  rw [World.clearReady_bits_std w i hm] at hb
  simp only [World.clearReady_trace] at hl ⊢
  by_cases hki : k = i
  · subst hki; simp at hb
  · rw [upd_other _ _ _ _ hki] at hb; exact h.j k c hv hmk hb hl

/-- setting bit `i` is fine when the member of slot `i` is not waiting, or the task was woken -/
theorem gj_setReady {w : World} {mem : Nat → Option Nat} {ip : Option Nat} {V : Nat → Prop}
    (i : Nat) (hm : w.mode = .std) (h : GJ w mem ip V)
    (hi : (∀ c, mem i = some c → lastRes w.trace c ≠ some .pend ∧ ip ≠ some c) ∨
          wokeSince w.trace = true) :
    GJ (w.setReady i) mem ip V := by
  refine ⟨by simpa using h.pw, ?_⟩
  intro k c hv hmk hb hl
  rw [World.setReady_bits_std w i hm] at hb
  simp only [World.setReady_trace] at hl ⊢
  by_cases hki : k = i
  · subst hki
    rcases hi with hi | hi
    · rcases hl with hl | hl
      · exact absurd hl (hi c hmk).1
      · exact absurd hl (hi c hmk).2
    · exact hi
  · rw [upd_other _ _ _ _ hki] at hb; exact h.j k c hv hmk hb hl

theorem gj_resize {w : World} {mem : Nat → Option Nat} {ip : Option Nat} {V : Nat → Prop}
    (len : Nat) (hlt : ∀ k c, mem k = some c → k < w.cap) (h : GJ w mem ip V) :
    GJ (w.resize len) mem ip V := by
  have ht := GEng.resize_trace w len
  refine ⟨by simpa [ht] using h.pw, ?_⟩
  intro k c hv hmk hb hl
  rw [ht] at hl ⊢
  rw [resize_bits_lt w len k (hlt k c hmk)] at hb
  exact h.j k c hv hmk hb hl

theorem gj_add {w : World} {mem : Nat → Option Nat} {V : Nat → Prop} (k c : Nat)
    (hr : lastRes w.trace c = none) (h : GJ w mem none V) : GJ w (upd mem k (some c)) none V := by
  refine ⟨h.pw, ?_⟩
  intro k' c' hv hmk hb hl
  by_cases hkk : k' = k
  · subst hkk; rw [upd_same] at hmk
    have := Option.some.inj hmk; subst this
    rcases hl with hl | hl
    · rw [hr] at hl; simp at hl
    · simp at hl
  · rw [upd_other _ _ _ _ hkk] at hmk; exact h.j k' c' hv hmk hb hl

theorem gj_fire {w : World} {mem : Nat → Option Nat} {ip : Option Nat} {V : Nat → Prop}
    (c a : Nat) (hk : GK w mem ip) (h : GJ w mem ip V) : GJ (w.fire c a) mem ip V := by
  unfold World.fire
  split
  · exact gj_emit _ rfl h
  · rename_i wk hwk
    have hmem : wk ∈ w.handed c := List.mem_of_getElem? hwk
    obtain ⟨s, rfl, _⟩ := hk.hand c wk hmem
    obtain ⟨p, hp, hc⟩ := h.pw
    cases hb : w.bits s with
    | true =>
      have : (w.emit (.fired c a (some (.sub s)))).fireWk (.sub s) = w.emit (.fired c a (some (.sub s))) := by
        simp [World.fireWk, hk.bc.std, hb]
      rw [this]; exact gj_emit _ rfl h
    | false =>
      have : (w.emit (.fired c a (some (.sub s)))).fireWk (.sub s)
          = ((w.emit (.fired c a (some (.sub s)))).setReady s).emit (.woke p) := by
        simp [World.fireWk, hk.bc.std, hb, hp]
      rw [this]
      refine ⟨⟨p, by simpa using hp, by simpa [cur] using hc⟩, ?_⟩
      intro k' c' _ _ _ _
      simp [wokeSince, cur, hc]

theorem gj_fires {w : World} {mem : Nat → Option Nat} {ip : Option Nat} {V : Nat → Prop}
    (l : List (Nat × Nat)) (hk : GK w mem ip) (h : GJ w mem ip V) : GJ (w.fires l) mem ip V := by
  induction l generalizing w with
  | nil => exact h
  | cons p l ih => rw [World.fires_cons]; exact ih (gk_fire p.1 p.2 hk) (gj_fire p.1 p.2 hk h)

/-- polling member `c` of slot `k`: `GJ` for the visited set extended by `k` -/
theorem gj_pollChild {w : World} {mem : Nat → Option Nat} {V : Nat → Prop} (c k : Nat)
    (hk : k < w.cap) (hm : mem k = some c) (inj : ∀ k', mem k' = some c → k' = k)
    (hkw : GKw w mem k) (h : GJ w mem none V) (hclr : w.bits k = false) :
    GJ (w.pollChild c k) mem none (fun j => V j ∨ j = k) := by
  unfold World.pollChild
  obtain ⟨p, hp, hc⟩ := h.pw
  have hk1 := gk_childBegin c k hk hm inj hkw (by simp [hp])
  have h1 : GJ { w with scripts := upd w.scripts c (w.scripts c).tail,
                        handed := upd w.handed c (w.wakerFor k :: w.handed c),
                        trace := .childBegin c k (w.wakerFor k) :: w.trace } mem (some c)
               (fun j => V j ∨ j = k) := by
    refine ⟨⟨p, hp, by simpa [cur] using hc⟩, ?_⟩
    intro k' c' hv hm' hb hl
    simp only [lastRes, wokeSince] at hl ⊢
    simp only at hb
    by_cases hkk : k' = k
    · subst hkk; rw [hclr] at hb; exact Bool.noConfusion hb
    · rcases hv with hv | hv
      · rcases hl with hl | hl
        · exact h.j k' c' hv hm' hb (Or.inl hl)
        · simp only [Option.some.injEq] at hl
          subst hl; exact absurd (inj k' hm') hkk
      · exact absurd hv hkk
  have h2 := gj_fires (w.stepOf c).fires hk1 h1
  refine ⟨by simpa [cur] using h2.pw, ?_⟩
  intro k' c' hv hm' hb hl
  simp only [World.emit_trace, lastRes, wokeSince, World.emit_bits] at hb hl ⊢
  by_cases hcc : c = c'
  · subst hcc; exact h2.j k' c hv hm' hb (Or.inr rfl)
  · simp only [hcc, if_false] at hl
    rcases hl with hl | hl
    · exact h2.j k' c' hv hm' hb (Or.inl hl)
    · simp at hl

theorem gj_all_of_count_zero {w : World} {mem : Nat → Option Nat} {V : Nat → Prop} (hk : BC w)
    (h : GJ w mem none V) (h0 : w.count = 0) : GJ w mem none (fun _ => True) := by
  refine ⟨h.pw, fun k c _ _ hb _ => ?_⟩
  have hz : ∀ i, w.bits i = false := by
    intro i
    by_cases hi : w.cap ≤ i
    · exact hk.hi i hi
    · cases hbi : w.bits i with
      | false => rfl
      | true =>
        have hmem : i ∈ (List.range w.cap).filter (fun i => w.bits i) := by
          simp only [List.mem_filter, List.mem_range]
          exact ⟨by omega, hbi⟩
        have hlen : ((List.range w.cap).filter (fun i => w.bits i)).length = 0 := by
          have := hk.cnt; unfold nset at this; omega
        rw [List.length_eq_zero_iff] at hlen
        rw [hlen] at hmem
        simp at hmem
  rw [hz k] at hb; exact Bool.noConfusion hb

theorem bc_count_zero {w : World} (hk : BC w) (h0 : w.count = 0) : ∀ i, w.bits i = false := by
  intro i
  by_cases hi : w.cap ≤ i
  · exact hk.hi i hi
  · cases hbi : w.bits i with
    | false => rfl
    | true =>
      have hmem : i ∈ (List.range w.cap).filter (fun i => w.bits i) := by
        simp only [List.mem_filter, List.mem_range]
        exact ⟨by omega, hbi⟩
      have hlen : ((List.range w.cap).filter (fun i => w.bits i)).length = 0 := by
        have := hk.cnt; unfold nset at this; omega
      rw [List.length_eq_zero_iff] at hlen
      rw [hlen] at hmem
      simp at hmem

end G
end Fc
