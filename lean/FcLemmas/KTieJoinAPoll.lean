/-
  FcLemmas/KTieJoinAPoll.lean — array join (`[Fut; N]::join()`): the translated `Join::poll` (FcGen/KSrcArr1.lean) refines
  `Eng.poll joinSlice`.  Port of FcLemmas/KTieJoinPoll.lean (Vec): the number of slots is the const generic `N` (the
  well-formedness predicate ties it to the number of children), the readiness set is `ReadinessArray<N>` (`TieArr.*`), the
  sub-wakers come from `WakerArray.get N`.  The model side of the code around the loop (`poll_idleJ`, `poll_loopJ`,
  `close_pendJ`, `close_doneJ`) and of one iteration (`visit_*J`) does not depend on the container and is imported from the
  Vec files.  As there, the two copies of the scan in the generated definition are generalised once, the loop body is taken
  from the generated definition by unification, and the proofs use the role abbreviations only (`unroles`).
-/
import FcLemmas.KTieJoinADefs
import FcLemmas.KTieJoinPoll

set_option linter.unusedSimpArgs false
set_option linter.unusedVariables false

namespace Fc
open Rs Src

namespace TieJoinA
open JoinA
open TieJoinV (doneAgree poll_idleJ poll_loopJ close_pendJ close_doneJ visit_skipJ visit_clearJ visit_pendJ visit_readyJ)

local macro "unroles" : tactic =>
  `(tactic| try simp only [Join.roleKids, Join.roleCount, Join.roleWakers, Join.roleStates,
      Join.roleDone, Join.roleItems] at *)

/-- the model side of the completion: the scan ended in a state that `g'` reads with no child pending -/
theorem post_doneJ {n : Nat} {S : Eng Fix × Option Outcome} {g' : Join} {env' : World} (b : Eng Fix)
    (hR : RelJ n b.s.off S.1 g' env') (hx : S.2 = none) (hz : g'.roleCount = 0) :
    ∃ X : Eng Fix,
      Eng.close joinSlice S = X.emit (.pollEnd (.ready true
        ((List.range g'.roleItems.cap).map (fun i => (g'.roleItems.get i).getD 0)))) ∧
      X.w = TieArr.abs g'.roleWakers.readiness env' ∧
      ∀ g'' : Join, g''.roleWakers = g'.roleWakers → g''.roleKids = g'.roleKids → g''.roleCount = g'.roleCount →
        g''.roleDone = true → (∀ i, g''.roleItems.get i = none) →
        (∀ i, i < n → g''.roleStates.get i = PS.PollState.none_) → doneAgree (absJ g'' b) X := by
  obtain ⟨hw, hen, hk, hst, hout, hcnt, hoff, hdead', hdone, hrd', hsl', hic', hpc', hrs', hpar, hhin, hsok⟩ := hR
  refine ⟨{ w := S.1.w, s := { S.1.s with dead := true, st := fun _ => .none } }, ?_, hw, ?_⟩
  · rw [close_doneJ S hx (by rw [hcnt]; exact hz)]
    simp only [Fix.outs, hen, hout, hic']
  · intro g'' h1 h2 h3 h4 h5 h6
    refine ⟨?_, ?_, h4, rfl, h5⟩
    · simp only [fcore, absJ, hw, hen, hcnt, hoff, h1, h2, h3, hk]
      rfl
    · intro i hi
      simp only [absJ]
      rw [h6 i (by rw [← hen]; exact hi)]
      rfl

/-- what is shown of a call that returned `a = (g', env', ret)` -/
def PostJ (N : Nat) (g : Join) (b : Eng Fix) (w : Nat) (a : Join × World × Rs.Poll (List Nat)) : Prop :=
  ∃ X : Eng Fix, Eng.poll joinSlice (absJ g b) w = X.emit (.pollEnd (outcomeOfJoin a.2.2)) ∧
    X.w = TieArr.abs a.1.roleWakers.readiness a.2.1 ∧
    (a.2.2 = .pending → RelJ N b.s.off X a.1 a.2.1) ∧
    (a.2.2 ≠ .pending → doneAgree (absJ a.1 b) X ∧ a.1.roleKids.len = N ∧
      HandedIn N a.2.1 ∧ FutStepsF a.2.1)

/-- one iteration of the translated loop body is one `Eng.visit joinSlice` -/
theorem poll_coreJ (N : Nat) (g : Join) (b : Eng Fix) (w : Nat) (hW : WfJ N g) (hS : FutStepsF b.w)
    (hH : HandedIn N b.w) (hd : g.roleDone = false) :
    ∃ a, Join.poll N g w ((absJ g b).w.emit (.pollBegin w)) = some a ∧ PostJ N g b w a := by
  obtain ⟨hkn, hrd, hsl, hic, hpc, hrs⟩ := hW
  obtain ⟨r1, hs1, hs2, hs3⟩ := TieArr.set_waker_tie N g.roleWakers.readiness
    ((absJ g b).w.emit (.pollBegin w)) w hrd
  have hparent : r1.roleParent ≠ none := by
    have := congrArg World.parent hs3
    simp at this
    rw [this]; simp
  have hany := TieArr.any_ready_tie N r1 ((absJ g b).w.emit (.pollBegin w))
  have hdead : (absJ g b).s.dead = false := hd
  have hw1 : TieArr.abs r1 ((absJ g b).w.emit (.pollBegin w)) = ((absJ g b).w.emit (.pollBegin w)).setWaker w := by
    rw [hs3]; rfl
  have hl : ∀ i ∈ List.range g.roleKids.len, i < N := fun i hi => hkn ▸ List.mem_range.mp hi
  unfold Join.poll
  unroles
  simp only [hd, hs1, hany, Bool.not_false, ↓reduceIte, Option.bind_eq_bind, Option.bind_some, Option.pure_def]
  generalize hB : Option.bind (Rs.forBreak _ _ _) _ = B
  -- the scan and what follows it
  have hBspec : (g.roleCount = 0 ∨ (((absJ g b).w.emit (.pollBegin w)).setWaker w).anyReady = true) →
      ∃ a, B = some a ∧ PostJ N g b w a := by
    intro hgo
    have hpoll : Eng.poll joinSlice (absJ g b) w
        = Eng.close joinSlice (Eng.scan joinSlice (List.range g.roleKids.len)
            { w := ((absJ g b).w.emit (.pollBegin w)).setWaker w, s := (absJ g b).s }) :=
      poll_loopJ (absJ g b) w hdead hgo
    subst hB
    refine loop_bindJ N b.s.off _ ?hF _
      { w := ((absJ g b).w.emit (.pollBegin w)).setWaker w, s := (absJ g b).s } _ _ ?hR hl _ _ ?hK
    case hR =>
      exact ⟨hw1.symm, hkn, hkn, rfl, rfl, rfl, rfl, hd, rfl, hs2, hsl, hic, hpc, hrs, hparent,
        fun c i hm => hH c i hm, hS⟩
    case hF =>
      clear hs1 hs2 hs3 hkn hrd hsl hic hpc hrs hH hS hd hpoll hl hparent hany hdead hw1 hgo
      generalize b.s.off = o at *
      clear g
      intro e g env i hR hi
      dsimp only
      have hR0 := hR
      obtain ⟨hw, hen, hk, hst, hout, hcnt, hoff, hdead, hdone, hrd, hsl, hic, hpc, hrs, hpar, hhin, hsok⟩ := hR
      obtain ⟨r2, hc1, hc2, hc3⟩ := TieArr.clear_ready_tie N g.roleWakers.readiness env i hrd hi
      have hpar2 : r2.roleParent ≠ none := by
        have := congrArg World.parent hc3
        simp at this
        rw [this]; exact hpar
      have hidx : Rs.PVec.idx g.roleStates i = some (g.roleStates.get i) := by
        simp [Rs.PVec.idx, hsl, hi]
      have hisp := (TiePS.tie (g.roleStates.get i)).2.1
      have hkid : Rs.Kids.get g.roleKids i = some i := by simp [Rs.Kids.get, hk, hi]
      obtain ⟨r3, env3, hp1, hp2, hp3, hp4, hp5, hp6⟩ := Env.pollChild_tieM N r2 env i i hc2 hpar2 hhin hi
      have hsok3 : FutStepsF env3 := hsok.tailJ i hp6
      try simp only [Env.wakeA] at hp1
      by_cases hsp : TiePS.abs (g.roleStates.get i) = .pending
      · have hsp' : e.s.st i = .pending := by rw [hst]; exact hsp
        have hgp : g.roleStates.get i = PS.PollState.pending := (TiePS.abs_pendingJ _).mp hsp
        cases hset : (TieArr.abs g.roleWakers.readiness env).isSet i
        · -- the flag of the slot is clear
          have hv := visit_clearJ e i hsp' (by rw [hw]; exact hset)
          rw [hset] at hc1
          unroles
          simp only [hkid, hidx, hisp, hsp, hc1, decide_true, Option.bind_some, Bool.false_eq_true, ↓reduceIte]
          refine ⟨_, _, rfl, ?_, ?_⟩
          · rw [hv]
            refine ⟨?_, hen, hk, hst, hout, hcnt, hoff, hdead, hdone, hc2, hsl, hic, hpc, hrs, hpar2, hhin, hsok⟩
            unroles
            rw [hc3, hw]
          · rw [hv]
        · have hset' : e.w.isSet i = true := by rw [hw]; exact hset
          have hres' : e.w.resOf i = env.resOf i := by rw [hw]; rfl
          rw [hset] at hc1
          unroles
          simp only [hkid, hidx, hisp, hsp, hc1, decide_true, Option.bind_some, Bool.false_eq_true, ↓reduceIte,
            WakerArray.get, hi, Rs.expect, Rs.pollFut, hp1]
          rcases hsok.resOfJ i with hres | ⟨ok, v, hres⟩
          · -- Pending
            have hv := visit_pendJ e i hsp' hset' (by rw [hres', hres])
            simp only [hres, Option.bind_some]
            refine ⟨_, _, rfl, ?_, ?_⟩
            · rw [hv]
              refine ⟨?_, hen, hk, hst, hout, hcnt, hoff, hdead, hdone, hp2, hsl, hic, hpc, hrs, hp3, hp5, hsok3⟩
              unroles
              rw [hp4, hc3, hw]
            · rw [hv]
          · -- Ready: the output is stored, the state set, the counter decremented, the child released
            have hv := visit_readyJ e i ok v hsp' hset' (by rw [hres', hres])
            obtain ⟨q, hq1, hq2⟩ := (TiePS.tie (g.roleStates.get i)).2.2.2.2.2
            have hqr : q = PS.PollState.ready := (TiePS.abs_readyJ _).mp hq2
            have hwrite : Rs.OutVec.write g.roleItems i v
                = some ⟨g.roleItems.cap, fun j => if j = i then some v else g.roleItems.get j⟩ := by
              simp [Rs.OutVec.write, hic, hi]
            have hset2 : Rs.PVec.set g.roleStates i q
                = some ⟨g.roleStates.len, fun j => if j = i then q else g.roleStates.get j⟩ := by
              simp [Rs.PVec.set, hsl, hi]
            have hflip := filter_flip_lengthJ (fun j => decide (g.roleStates.get j = PS.PollState.pending))
              (fun j => decide ((if j = i then q else g.roleStates.get j) = PS.PollState.pending)) i
              (List.range N) List.nodup_range (List.mem_range.mpr hi) (by simp [hgp]) (by simp [hqr])
              (fun j hj => by simp [hj])
            have hge : 1 ≤ g.roleCount := by unroles; omega
            have hsub : Rs.usub g.roleCount 1 = some (g.roleCount - 1) := by simp [Rs.usub, hge]
            unroles
            simp only [hres, Option.bind_some, hwrite, hidx, hq1, hset2, hsub]
            refine ⟨_, _, rfl, ?_, ?_⟩
            · rw [hv]
              refine ⟨?_, hen, hk, ?_, ?_, ?_, hoff, hdead, hdone, hp2, hsl, hic, ?_, ?_, hp3, hp5, hsok3⟩
              · unroles
                rw [Env.abs_emitM, hp4, hc3, hw]
              · unroles
                funext j
                by_cases hj : j = i <;> simp [upd, hj, hq2, hst]
              · unroles
                funext j
                by_cases hj : j = i <;> simp [upd, hj, hout]
              · unroles
                simp only [hcnt]
              · unroles
                omega
              · intro j hj
                unroles
                by_cases hji : j = i
                · subst hji
                  right
                  simp [hqr]
                · simp only [hji, if_false]
                  exact hrs j hj
            · rw [hv]
      · -- the slot's child has completed already
        have hv := visit_skipJ e i (by rw [hst]; exact hsp)
        unroles
        simp only [hkid, hidx, hisp, hsp, decide_false, Option.bind_some, Bool.false_eq_true, ↓reduceIte]
        refine ⟨_, _, rfl, ?_, ?_⟩
        · rw [hv]; exact hR0
        · rw [hv]
    case hK =>
      intro g' env' hR' hx
      dsimp only
      have hR0 := hR'
      obtain ⟨hw, hen, hk, hst, hout, hcnt, hoff, hdead', hdone, hrd', hsl', hic', hpc', hrs', hpar, hhin, hsok⟩ := hR'
      by_cases hz : g'.roleCount = 0
      · -- every child has completed: the outputs are moved out
        have hnp : ∀ i, i < g'.roleKids.len → g'.roleStates.get i = PS.PollState.ready ∧
            ∃ v, g'.roleItems.get i = some v := by
          intro i hi
          rw [hk] at hi
          have := filter_len_zeroJ _ _ (by rw [← hpc']; exact hz) i (List.mem_range.mpr hi)
          rcases hrs' i hi with h | h
          · simp [h] at this
          · exact h
        have hass := assertAll_readyJ g'.roleStates (fun i hi => (hnp i (by rw [hk, ← hsl']; exact hi)).1)
        have hmap := mapAll_noneJ g'.roleStates
        have htake := take_allJ g'.roleItems (fun i hi => (hnp i (by rw [hk, ← hic']; exact hi)).2)
        obtain ⟨X, hX1, hX2, hX3⟩ := post_doneJ b hR0 hx hz
        have hnone : ∀ i, i < N →
            (if i < g'.roleStates.len then PS.PollState.none_ else g'.roleStates.get i) = PS.PollState.none_ := by
          intro i hi
          rw [if_pos (by rw [hsl']; exact hi)]
        unroles
        simp only [hz, beq_self_eq_true, ↓reduceIte, hass, hmap, htake, Option.bind_some]
        refine ⟨_, rfl, X, ?_, hX2, ?_, ?_⟩
        · rw [hpoll, hX1]
          rfl
        · intro h; cases h
        · intro _
          exact ⟨hX3 _ rfl rfl hz.symm rfl (fun _ => rfl) hnone, hk, hhin, hsok⟩
      · -- some child is still pending
        have hcl := close_pendJ _ hx (by rw [hcnt]; exact hz)
        unroles
        simp only [hz, beq_iff_eq, ↓reduceIte]
        refine ⟨_, rfl, _, ?_, hw, fun _ => hR0, fun h => absurd rfl h⟩
        rw [hpoll, hcl]
        rfl
  by_cases hc0 : g.roleCount = 0
  · obtain ⟨a, ha1, ha2⟩ := hBspec (Or.inl hc0)
    unroles
    first
      | simp only [hc0, bne_self_eq_false, Bool.false_eq_true, ↓reduceIte]
      | simp [hc0]
    exact ⟨a, ha1, ha2⟩
  · cases ha : (TieArr.abs r1 ((absJ g b).w.emit (.pollBegin w))).anyReady
    · -- nothing is ready: the early return
      have hidle := poll_idleJ (absJ g b) w hdead hc0 (by rw [← hw1]; exact ha)
      unroles
      have hpos : 0 < g.roleCount := Nat.pos_of_ne_zero hc0
      have hpos1 : 1 ≤ g.roleCount := hpos
      unroles
      first
        | simp only [bne_iff_ne, ne_eq, hc0, not_false_eq_true, ↓reduceIte, Bool.not_false]
        | simp [hc0, hpos, hpos1]
      refine ⟨_, rfl, { w := ((absJ g b).w.emit (.pollBegin w)).setWaker w, s := (absJ g b).s }, hidle, hw1.symm,
        fun _ => ?_, fun h => absurd rfl h⟩
      exact ⟨hw1.symm, hkn, hkn, rfl, rfl, rfl, rfl, hd, rfl, hs2, hsl, hic, hpc, hrs, hparent,
        fun c i hm => hH c i hm, hS⟩
    · obtain ⟨a, ha1, ha2⟩ := hBspec (Or.inr (by rw [← hw1]; exact ha))
      unroles
      have hpos : 0 < g.roleCount := Nat.pos_of_ne_zero hc0
      have hpos1 : 1 ≤ g.roleCount := hpos
      unroles
      first
        | simp only [bne_iff_ne, ne_eq, hc0, not_false_eq_true, ↓reduceIte, Bool.not_true, Bool.false_eq_true]
        | simp [hc0, hpos, hpos1]
      exact ⟨a, ha1, ha2⟩

/-- the refinement, together with the facts about the environment that the next poll (or the drop) needs again -/
theorem poll_tie_strongJ (N : Nat) (g : Join) (b : Eng Fix) (w : Nat) (hW : WfJ N g) (hS : FutStepsF b.w)
    (hH : HandedIn N b.w) (hd : g.roleDone = false) :
    ∃ g' env' ret,
      Join.poll N g w ((absJ g b).w.emit (.pollBegin w)) = some (g', env', ret) ∧
      (ret = .pending → WfJ N g') ∧
      (ret = .pending → jcore (absJ g' b) = jcore (Eng.poll joinSlice (absJ g b) w)) ∧
      (ret ≠ .pending → doneAgree (absJ g' b) (Eng.poll joinSlice (absJ g b) w)) ∧
      (env'.scripts = (Eng.poll joinSlice (absJ g b) w).w.scripts ∧
       env'.handed = (Eng.poll joinSlice (absJ g b) w).w.handed ∧
       (Eng.poll joinSlice (absJ g b) w).w.trace = .pollEnd (outcomeOfJoin ret) :: env'.trace) ∧
      g'.roleKids.len = N ∧ HandedIn N env' ∧ FutStepsF env' ∧
      (g'.roleDone = false ↔ ret = .pending) := by
  obtain ⟨⟨g', env', ret⟩, h1, X, hp, hXw, hpend, hdone⟩ := poll_coreJ N g b w hW hS hH hd
  dsimp only at hp hXw hpend hdone
  refine ⟨g', env', ret, h1, ?_, ?_, ?_, ?_, ?_⟩
  · intro hr
    have hR := hpend hr
    exact ⟨hR.kids, hR.rd, hR.sl, hR.ic, hR.pc, hR.rs⟩
  · intro hr
    obtain ⟨hw, hen, hk, hst, hout, hcnt, hoff, hdead', hdn, hrd', hsl', hic', hpc', hrs', hpar, hhin, hsok⟩ :=
      hpend hr
    rw [hp]
    simp only [jcore, fcore, absJ, Eng.emit, World.emit, hw, hen, hk, hst, hout, hcnt, hoff, hdead', hdn,
      TieArr.abs, World.withStd]
  · intro hr
    rw [hp]
    exact (hdone hr).1
  · rw [hp]
    simp only [Eng.emit, World.emit, hXw]
    exact ⟨rfl, rfl, rfl⟩
  · cases ret with
    | pending =>
      have hR := hpend rfl
      exact ⟨hR.kids, hR.hin, hR.sok, fun _ => rfl, fun _ => hR.done⟩
    | ready vs =>
      obtain ⟨hda, hk, hhin, hsok⟩ := hdone (by simp)
      refine ⟨hk, hhin, hsok, fun h => ?_, fun h => by cases h⟩
      have : g'.roleDone = true := hda.2.2.1
      rw [this] at h
      cases h

theorem poll_tie_mainJ : poll_tie_statement := by
  intro N g b w hW hS hH hd
  obtain ⟨g', env', ret, h1, h2, h3, h4, ⟨h5, h6, h7⟩, _⟩ := poll_tie_strongJ N g b w hW hS hH hd
  exact ⟨g', env', ret, h1, h2, h3, h4, h5, h6, h7⟩

end TieJoinA
end Fc
