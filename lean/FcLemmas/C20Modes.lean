/-
  FcLemmas/C20Modes.lean — C20 carried next to the C01 invariants, in std and in direct mode.
-/
import FcLemmas.C01Dir

namespace Fc
open Mon

/-! ### std mode -/
namespace C20S
open C01 C20

variable {P : Policy Fix} {n : Nat}

theorem hnr_std {e : Eng Fix} {V : Nat → Prop} (h : C01.PInv P n e V) :
    e.w.anyReady = false → ∀ c, e.w.isSet c = false := by
  intro ha c
  rw [World.isSet_std _ _ h.ks.std]
  exact count_zero_bits h.ks (anyReady_false_count h.ks.std ha) c

theorem hhi_std {e : Eng Fix} {V : Nat → Prop} (h : C01.PInv P n e V) :
    e.w.mode = .std → ∀ c, e.w.isSet c = true → c < e.w.cap := by
  intro _ c hs
  rw [World.isSet_std _ _ h.ks.std] at hs
  by_cases hh : e.w.cap ≤ c
  · rw [h.ks.hi c hh] at hs; exact Bool.noConfusion hs
  · omega

theorem scan2 (C : Conc P) : ∀ (l : List Nat) (e : Eng Fix) (V : Nat → Prop),
    (∀ i ∈ l, i < e.s.n) → C01.PInv P n e V → P20 P e V → P.pre e.s = none →
    ((Eng.scan P l e).2 = none → P20 P (Eng.scan P l e).1 (fun c => V c ∨ c ∈ l)) ∧
    (∀ o, (Eng.scan P l e).2 = some o → X20 P o (Eng.scan P l e).1) := by
  intro l
  induction l with
  | nil =>
    intro e V _ _ h2 _
    exact ⟨fun _ => p20_mono (fun c hc => by simpa using hc) h2, fun o ho => by simp [Eng.scan] at ho⟩
  | cons i rest ih =>
    intro e V hlt h1 h2 hl
    have hi := hlt i (List.mem_cons_self ..)
    have hv1 := C01.pinv_visit C e i V hi h1 hl
    have hv2 := p20_visit C e i V hi h1.cap h2 hl h1.r1 (hnr_std h1) (hhi_std h1)
    unfold Eng.scan
    cases hvis : (Eng.visit P e i).2 with
    | some o =>
      simp only
      exact ⟨fun hn => by simp at hn, fun o' ho' => by
        simp only [Option.some.injEq] at ho'; subst ho'; exact hv2.2 o hvis⟩
    | none =>
      simp only
      have hn := visit_n C.law e i
      have := ih (Eng.visit P e i).1 (fun c => V c ∨ c = i)
        (fun j hj => by rw [hn]; exact hlt j (List.mem_cons_of_mem _ hj))
        (hv1.1 hvis).1 (hv2.1 hvis) (hv1.1 hvis).2
      refine ⟨fun hs => p20_mono ?_ (this.1 hs), this.2⟩
      intro c hc
      simp only [List.mem_cons] at hc
      rcases hc with hc | hc | hc
      · exact Or.inl (Or.inl hc)
      · exact Or.inl (Or.inr hc)
      · exact Or.inr hc

theorem body20 (C : Conc P) (e : Eng Fix) (h1 : C01.PInv P n e (fun _ => False))
    (h2 : P20 P e (fun _ => False)) (hl : P.pre e.s = none) : B20 P (Eng.body P e) := by
  have L := C.law
  have hstart1 : C01.PInv P n { e with s := P.start e.s } (fun _ => False) := by
    refine ⟨h1.ks, h1.js, h1.inp, h1.mb, by simp [h1.cap, L.n_start], ?_⟩
    intro _ j hj
    simp only [L.start_elig]
    exact h1.r1 hl j hj
  have hstart2 := p20_start L e _ h2 hl
  have hlive := L.start_live _ hl
  unfold Eng.body
  split
  · rename_i hc
    simp only [Bool.and_eq_true, Bool.not_eq_true'] at hc
    refine b20_of_x20 .pending _ ⟨hstart2.la, hstart2.lp, hstart2.m20, fun _ => ?_⟩
    exact c20At_of_none_set hstart2 hlive (hnr_std hstart1 hc.2)
  · have hlt : ∀ i ∈ P.order e.s, i < ({ e with s := P.start e.s } : Eng Fix).s.n := by
      intro i hi; simp only [L.n_start]; exact L.order_lt _ _ hi
    have hs1 := C01.pinv_scan (n := n) C (P.order e.s) _ (fun _ => False) hlt hstart1 hlive
    have hs2 := scan2 (n := n) C (P.order e.s) _ (fun _ => False) hlt hstart1 hstart2 hlive
    unfold Eng.close
    split
    · rename_i o ho; exact b20_of_x20 o _ (hs2.2 o ho)
    · rename_i hn
      obtain ⟨o, ho⟩ : ∃ o, (P.finish (Eng.scan P (P.order e.s) { e with s := P.start e.s }).1.s).exit
          = some o := by
        cases hf : (P.finish (Eng.scan P (P.order e.s) { e with s := P.start e.s }).1.s).exit with
        | none => exact absurd hf (C.fin_ok _).2
        | some o => exact ⟨o, rfl⟩
      rw [ho]
      simp only [Option.getD_some]
      refine b20_of_x20 o _ ?_
      have hp1 := (hs1.1 hn).1
      have hp2 := p20_mono (V' := fun c => c ∈ P.order e.s) (fun c hc => Or.inr hc) (hs2.1 hn)
      refine x20_finish C (P.order e.s) _ o hp2 (hs1.1 hn).2 ?_ hp1.cap ?_
      · intro c hc
        rw [scan_n L] at hc
        simp only [L.n_start] at hc
        exact C.order_all _ _ hl hc
      · intro c hs _
        rw [← hp1.cap]
        exact hhi_std hp1 hp1.ks.std c hs

theorem poll20 (C : Conc P) (e : Eng Fix) (wid : Nat) (h1 : C01.BInv P n e) (h2 : B20 P e) :
    B20 P (Eng.poll P e wid) := by
  have hq := C01.quiet_of_binv e h1
  have hmb1 : c01Boundaries n (Ev.pollBegin wid :: e.w.trace) = true :=
    mb_startsOp n _ _ h1.mb hq
  unfold Eng.poll
  split
  · rename_i o ho
    have hne := C.pre_ok e.s
    rw [ho] at hne
    exact b20_pre e wid o (fun hh => hne.1 (by rw [hh])) h2
  · rename_i hp
    refine body20 (n := n) C _ ?_ ?_ hp
    · refine ⟨ks_setWaker wid (ks_emit _ rfl h1.ks), ⟨⟨wid, by simp, by simp [cur]⟩, ?_⟩,
        by simp [inPoll], by simpa using hmb1, by simpa using h1.cap, ?_⟩
      · intro c hv; exact absurd hv (by simp)
      · intro hp' j hj; exact h1.r1 hp' j (by simpa [lastRes] using hj)
    · refine p20_begin e wid h2 ?_
      intro c hp ho
      rw [World.isSet_std _ _ h1.ks.std]
      exact h1.ks.i2 c ho (Or.inl hp)

theorem step20 (C : Conc P) (e : Eng Fix) (op : Op) (h1 : C01.BInv P n e) (h2 : B20 P e) :
    B20 P (FEng.step P e op) := by
  cases op <;> simp only [FEng.step]
  · exact poll20 C _ _ h1 h2
  · exact b20_fire _ _ _ h2
  · exact b20_drop C.law _ h2
  all_goals exact h2

theorem run20 (C : Conc P) (ops : List Op) (e : Eng Fix) (h1 : C01.BInv P n e) (h2 : B20 P e) :
    B20 P (ops.foldl (FEng.step P) e) := by
  induction ops generalizing e with
  | nil => exact h2
  | cons op ops ih => exact ih _ (C01.binv_step C e op h1) (step20 C e op h1 h2)

end C20S

/-! ### direct mode -/
namespace C20D
open C01 C20

variable {P : Policy Fix} {n : Nat}

theorem hnr_dir {e : Eng Fix} {V : Nat → Prop} (h : C01D.PInv P n e V) :
    e.w.anyReady = false → ∀ c, e.w.isSet c = false := by
  intro ha; simp [World.anyReady, h.kd.dir] at ha

theorem hhi_dir {e : Eng Fix} {V : Nat → Prop} (h : C01D.PInv P n e V) :
    e.w.mode = .std → ∀ c, e.w.isSet c = true → c < e.w.cap := by
  intro hm; rw [h.kd.dir] at hm; exact Mode.noConfusion hm

theorem scan2 (C : Conc P) : ∀ (l : List Nat) (e : Eng Fix) (V : Nat → Prop),
    (∀ i ∈ l, i < e.s.n) → C01D.PInv P n e V → P20 P e V → P.pre e.s = none →
    ((Eng.scan P l e).2 = none → P20 P (Eng.scan P l e).1 (fun c => V c ∨ c ∈ l)) ∧
    (∀ o, (Eng.scan P l e).2 = some o → X20 P o (Eng.scan P l e).1) := by
  intro l
  induction l with
  | nil =>
    intro e V _ _ h2 _
    exact ⟨fun _ => p20_mono (fun c hc => by simpa using hc) h2, fun o ho => by simp [Eng.scan] at ho⟩
  | cons i rest ih =>
    intro e V hlt h1 h2 hl
    have hi := hlt i (List.mem_cons_self ..)
    have hv1 := C01D.pinv_visit C e i V hi h1 hl
    have hv2 := p20_visit C e i V hi h1.cap h2 hl h1.r1 (hnr_dir h1) (hhi_dir h1)
    unfold Eng.scan
    cases hvis : (Eng.visit P e i).2 with
    | some o =>
      simp only
      exact ⟨fun hn => by simp at hn, fun o' ho' => by
        simp only [Option.some.injEq] at ho'; subst ho'; exact hv2.2 o hvis⟩
    | none =>
      simp only
      have hn := visit_n C.law e i
      have := ih (Eng.visit P e i).1 (fun c => V c ∨ c = i)
        (fun j hj => by rw [hn]; exact hlt j (List.mem_cons_of_mem _ hj))
        (hv1.1 hvis).1 (hv2.1 hvis) (hv1.1 hvis).2
      refine ⟨fun hs => p20_mono ?_ (this.1 hs), this.2⟩
      intro c hc
      simp only [List.mem_cons] at hc
      rcases hc with hc | hc | hc
      · exact Or.inl (Or.inl hc)
      · exact Or.inl (Or.inr hc)
      · exact Or.inr hc

theorem body20 (C : Conc P) (e : Eng Fix) (h1 : C01D.PInv P n e (fun _ => False))
    (h2 : P20 P e (fun _ => False)) (hl : P.pre e.s = none) : B20 P (Eng.body P e) := by
  have L := C.law
  have hstart1 : C01D.PInv P n { e with s := P.start e.s } (fun _ => False) := by
    refine ⟨h1.kd, h1.jd, h1.inp, h1.mb, by simp [h1.cap, L.n_start], ?_⟩
    intro _ j hj
    simp only [L.start_elig]
    exact h1.r1 hl j hj
  have hstart2 := p20_start L e _ h2 hl
  have hlive := L.start_live _ hl
  unfold Eng.body
  split
  · rename_i hc
    simp [World.anyReady, h1.kd.dir] at hc
  · have hlt : ∀ i ∈ P.order e.s, i < ({ e with s := P.start e.s } : Eng Fix).s.n := by
      intro i hi; simp only [L.n_start]; exact L.order_lt _ _ hi
    have hs1 := C01D.pinv_scan (n := n) C (P.order e.s) _ (fun _ => False) hlt hstart1 hlive
    have hs2 := scan2 (n := n) C (P.order e.s) _ (fun _ => False) hlt hstart1 hstart2 hlive
    unfold Eng.close
    split
    · rename_i o ho; exact b20_of_x20 o _ (hs2.2 o ho)
    · rename_i hn
      obtain ⟨o, ho⟩ : ∃ o, (P.finish (Eng.scan P (P.order e.s) { e with s := P.start e.s }).1.s).exit
          = some o := by
        cases hf : (P.finish (Eng.scan P (P.order e.s) { e with s := P.start e.s }).1.s).exit with
        | none => exact absurd hf (C.fin_ok _).2
        | some o => exact ⟨o, rfl⟩
      rw [ho]
      simp only [Option.getD_some]
      refine b20_of_x20 o _ ?_
      have hp1 := (hs1.1 hn).1
      have hp2 := p20_mono (V' := fun c => c ∈ P.order e.s) (fun c hc => Or.inr hc) (hs2.1 hn)
      refine x20_finish C (P.order e.s) _ o hp2 (hs1.1 hn).2 ?_ hp1.cap ?_
      · intro c hc
        rw [scan_n L] at hc
        simp only [L.n_start] at hc
        exact C.order_all _ _ hl hc
      · intro c _ hp
        rw [← hp1.cap]
        exact hp1.kd.lp c (by rw [hp]; simp)

theorem poll20 (C : Conc P) (e : Eng Fix) (wid : Nat) (h1 : C01D.BInv P n e) (h2 : B20 P e) :
    B20 P (Eng.poll P e wid) := by
  have hq := C01D.quiet_of_binv e h1
  have hmb1 : c01Boundaries n (Ev.pollBegin wid :: e.w.trace) = true :=
    mb_startsOp n _ _ h1.mb hq
  unfold Eng.poll
  split
  · rename_i o ho
    have hne := C.pre_ok e.s
    rw [ho] at hne
    exact b20_pre e wid o (fun hh => hne.1 (by rw [hh])) h2
  · rename_i hp
    refine body20 (n := n) C _ ?_ ?_ hp
    · refine ⟨⟨h1.kd.dir, h1.kd.hand, fun c hc => h1.kd.lp c (by simpa [lastRes] using hc),
          by simpa [c01NoPanic] using h1.kd.nowp⟩,
        ⟨⟨wid, by simp, by simp [cur]⟩, ?_, ?_, ?_⟩,
        by simp [inPoll], by simpa using hmb1, by simpa using h1.cap, ?_⟩
      · intro c hps; simp [polledSince] at hps
      · intro c hps; simp [polledSince] at hps
      · intro c hv; exact absurd hv (by simp)
      · intro hp' j hj; exact h1.r1 hp' j (by simpa [lastRes] using hj)
    · refine p20_begin e wid h2 ?_
      intro c _ _
      exact World.isSet_direct _ _ h1.kd.dir

theorem step20 (C : Conc P) (e : Eng Fix) (op : Op) (h1 : C01D.BInv P n e) (h2 : B20 P e) :
    B20 P (FEng.step P e op) := by
  cases op <;> simp only [FEng.step]
  · exact poll20 C _ _ h1 h2
  · exact b20_fire _ _ _ h2
  · exact b20_drop C.law _ h2
  all_goals exact h2

theorem run20 (C : Conc P) (ops : List Op) (e : Eng Fix) (h1 : C01D.BInv P n e) (h2 : B20 P e) :
    B20 P (ops.foldl (FEng.step P) e) := by
  induction ops generalizing e with
  | nil => exact h2
  | cons op ops ih => exact ih _ (C01D.binv_step C e op h1) (step20 C e op h1 h2)

end C20D
end Fc
