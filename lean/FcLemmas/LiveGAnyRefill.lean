/-
  FcLemmas/LiveGAnyRefill.lean — membership changes between drains: a drained group (the run has
  reached `None`, no member is left) is refilled by a second building history with fresh ids and
  driven again.

  `refill_lrw` (one generation change): from the run invariant of a drained state for the
  generation `ids₁` to the run invariant of the refilled state for the generation `ids₂`:
    * the drained group has no member, so its invariant does not depend on the scripts
      (`lgw_setS`): the restriction to `ids₁` is exchanged for the restriction to `ids₂`, in which
      whatever is left of the scripts of the ids inserted so far does not count;
    * the scripts of the ids that were never inserted are still the initial ones (`LRW.scr`), hence
      well-behaved;
    * the refill (`bw_run`) puts the new members into vacant — possibly REUSED — slots, armed.
  The lemma can be iterated (its conclusion is its hypothesis for the next generation, once that one
  is drained).  `group_refill_ends_busy` is the statement for two generations.
-/
import FcLemmas.LiveGAnyMain
import FcLemmas.LiveGAnyBuild
import FcLemmas.LiveGAnySwap
set_option linter.unusedSimpArgs false
set_option linter.unusedVariables false

namespace Fc
namespace LiveGAny
open Mon Live Live3 G Grp C01 LiveG

variable {stream keyed : Bool} {m : Mode} {n : Nat}

theorem stepsLeft_no_member (e : Eng Grp) (h : ∀ k, e.s.member k = none) : ExecG.stepsLeft e = 0 := by
  unfold ExecG.stepsLeft
  have : e.s.keys.filterMap e.s.member = [] := by
    rw [List.filterMap_eq_nil_iff]
    intro k _
    exact h k
  rw [this]; rfl

/-- one generation change -/
theorem refill_lrw (scripts : Nat → List Step) (ids₁ ins : List Nat) (e₁ : Eng Grp)
    (h : LRW stream keyed m n ids₁ ins scripts e₁) (hnm : ∀ k, e₁.s.member k = none)
    (pre₂ : List Op) (hpre₂ : ∀ op ∈ pre₂, op.isInsertLike = true)
    (hnd : (pre₂.flatMap insertedIds).Nodup)
    (hdis : ∀ c ∈ pre₂.flatMap insertedIds, c ∉ ins)
    (hs : ∀ c ∈ pre₂.flatMap insertedIds, wbScript stream (scripts c) = true)
    (hn : ∀ c ∈ pre₂.flatMap insertedIds, c < n) :
    LRW stream keyed m n (pre₂.flatMap insertedIds) (ins ++ pre₂.flatMap insertedIds) scripts
      (pre₂.foldl GEng.step e₁) ∧
    mu n (rE (pre₂.flatMap insertedIds) (pre₂.foldl GEng.step e₁))
      = ExecG.stepsLeft (pre₂.foldl GEng.step e₁) := by
  let ids₂ := pre₂.flatMap insertedIds
  let sc₂ := restrS ids₂ e₁.w.scripts
  have hsc₂ : ∀ c, c ∈ ids₂ → sc₂ c = scripts c := by
    intro c hc
    simp only [sc₂, restrS, hc, if_true]
    exact h.scr c (hdis c hc)
  -- the drained group does not depend on the scripts
  have hfit : ∀ c st, st ∈ sc₂ c → st.res.fits stream = true := by
    intro c st hst
    by_cases hc : c ∈ ids₂
    · rw [hsc₂ c hc] at hst
      exact wb_fits _ (hs c hc) st hst
    · simp [sc₂, restrS, hc] at hst
  have hw₂ : LGW stream keyed m n (rE ids₂ e₁) := by
    rw [← rE_swap ids₁ ids₂ e₁]
    exact lgw_setS (rE ids₁ e₁) sc₂ h.w hnm hfit
  have hkey₁ : ∀ c, c ∈ ids₂ → keyOf e₁.w.trace c = none := by
    intro c hc
    cases hk : keyOf e₁.w.trace c with
    | none => rfl
    | some k => exact absurd (h.kin c (by rw [hk]; simp)) (hdis c hc)
  have hbw₁ : BW stream keyed m n sc₂ (rE ids₂ e₁) := by
    refine ⟨hw₂, rfl, ?_⟩
    rw [stepsLeft_no_member (rE ids₂ e₁) hnm]
    unfold mu
    rw [total_congr _ (fun _ => 0) n, total_zero]
    intro c _
    split
    · rename_i hk
      have hci : c ∈ ins := h.kin c (by
        intro hh
        rw [show keyOf (rE ids₂ e₁).w.trace c = keyOf e₁.w.trace c from rfl, hh] at hk
        cases hk)
      have hc2 : c ∉ ids₂ := fun hh => hdis c hh hci
      simp [rE, rW, restrS, hc2]
    · rfl
  -- the refill
  obtain ⟨hbw₂, hkf, hmf⟩ := bw_run pre₂ (rE ids₂ e₁) hbw₁ hpre₂ hnd
    (fun c hc => ⟨hn c hc, by rw [hsc₂ c hc]; exact hs c hc, hkey₁ c hc⟩)
  rw [rE_run pre₂ e₁ hpre₂] at hbw₂ hkf hmf
  have hmem : ∀ k c, (pre₂.foldl GEng.step e₁).s.member k = some c → c ∈ ids₂ := by
    intro k c hk
    rcases hmf k c hk with h1 | h1
    · rw [show (rE ids₂ e₁).s.member k = e₁.s.member k from rfl, hnm k] at h1; cases h1
    · exact h1
  refine ⟨⟨hbw₂.w, hmem, ?_, fun c hc => List.mem_append_right _ hc, ?_⟩, ?_⟩
  · intro c hc
    by_cases hc2 : c ∈ ids₂
    · exact List.mem_append_right _ hc2
    · have := hkf c hc2
      rw [show keyOf (rE ids₂ (pre₂.foldl GEng.step e₁)).w.trace c
        = keyOf (pre₂.foldl GEng.step e₁).w.trace c from rfl,
        show keyOf (rE ids₂ e₁).w.trace c = keyOf e₁.w.trace c from rfl] at this
      rw [this] at hc
      exact List.mem_append_left _ (h.kin c hc)
  · intro c hc
    rw [run_scripts pre₂ e₁ hpre₂]
    exact h.scr c (fun hh => hc (List.mem_append_left _ hh))
  · rw [← hbw₂.sl, stepsLeft_rE _ hmem]

/-- two generations, every schedule and every busy environment in both drains -/
theorem group_refill_ends_busy (stream keyed : Bool) (m : Mode) (scripts : Nat → List Step)
    (pre₁ pre₂ : List Op)
    (hpre₁ : ∀ op ∈ pre₁, op.isInsertLike = true) (hpre₂ : ∀ op ∈ pre₂, op.isInsertLike = true)
    (hfresh : ((pre₁ ++ pre₂).flatMap insertedIds).Nodup)
    (hs : ∀ c ∈ (pre₁ ++ pre₂).flatMap insertedIds, wbScript stream (scripts c) = true)
    (pick₁ : Nat → Eng Grp → Nat) (bef₁ aft₁ : Nat → Eng Grp → List (Nat × Nat)) (k₁ r₁ : Nat)
    (hdrained : lastOut (ExecGAny.runForB pick₁ bef₁ aft₁ k₁ r₁
      (pre₁.foldl GEng.step (GEng.init stream keyed m scripts))).w.trace = some .none)
    (pick₂ : Nat → Eng Grp → Nat) (bef₂ aft₂ : Nat → Eng Grp → List (Nat × Nat)) (r₂ : Nat) :
    ∃ k, k ≤ 3 * ExecG.stepsLeft (pre₂.foldl GEng.step (ExecGAny.runForB pick₁ bef₁ aft₁ k₁ r₁
        (pre₁.foldl GEng.step (GEng.init stream keyed m scripts)))) + 1 ∧
      lastOut (ExecGAny.runRefillB pick₂ bef₂ aft₂ k r₂
        (pre₂.foldl GEng.step (ExecGAny.runForB pick₁ bef₁ aft₁ k₁ r₁
          (pre₁.foldl GEng.step (GEng.init stream keyed m scripts))))).w.trace = some .none := by
  rw [List.flatMap_append] at hfresh hs
  rw [List.nodup_append] at hfresh
  obtain ⟨hnd₁, hnd₂, hdis⟩ := hfresh
  have hle : ∀ c ∈ pre₁.flatMap insertedIds ++ pre₂.flatMap insertedIds,
      c < (pre₁.flatMap insertedIds ++ pre₂.flatMap insertedIds).sum + 1 := by
    intro c hc
    have := le_sum_of_mem _ c hc
    omega
  -- the first generation
  obtain ⟨hlra, _, _⟩ := start_lra stream keyed m scripts pre₁
    ((pre₁.flatMap insertedIds ++ pre₂.flatMap insertedIds).sum + 1) hpre₁ hnd₁
    (fun c hc => hs c (List.mem_append_left _ hc)) (fun c hc => hle c (List.mem_append_left _ hc))
  obtain ⟨hlrw₁, hnm⟩ := run_drained (pick := pick₁) (pre := bef₁) (post := aft₁) prog_lra k₁ r₁ _
    (Or.inl hlra) hdrained
  -- the second generation
  obtain ⟨hlrw₂, hM⟩ := refill_lrw scripts _ _ _ hlrw₁ hnm pre₂ hpre₂ hnd₂
    (fun c hc hc1 => hdis c hc1 c hc rfl) (fun c hc => hs c (List.mem_append_right _ hc))
    (fun c hc => hle c (List.mem_append_right _ hc))
  obtain ⟨k, hk, hv⟩ := ends_refill prog_lra pick₂ bef₂ aft₂ r₂ _ hlrw₂
  refine ⟨k, ?_, hv⟩
  simp only [hM] at hk
  exact hk

end LiveGAny
end Fc
