/-
  FcLemmas/LiveGAnyInst.lean — the run invariants of a group driven by the wake-only executor with
  an arbitrary schedule, and the instance of the abstract argument (`LiveGAny.ProgA`).

  `LGW` is `LiveG.LG` without the three facts about the latest outcome (so that it also holds in the
  drained state and while a drained group is refilled), with two additions that inserts after a
  drain need: the ids in the C11 / C12 "used" set were inserted (`keyOf ≠ none`), and only inserted
  ids were ever released.  `LGA` adds the three facts back (`lg_of_lga`: it implies `LiveG.LG`).

  * `pj_poll'` — what `LiveG.pj_poll` says about a poll, for EVERY outcome (also `None`);
  * `lgw_poll` — `LiveG.lg_poll` from `LGW` (the proof does not use the facts about the latest
    outcome), with the invariant also in the `None` case, where the group has no member left;
  * `lga_fire` — every wake-up `(id, age)` keeps the invariant: members, ids that left the group,
    ids that were never inserted, stale wakers (the safety invariants C01g / C11 / C12 and `WG` are
    all stated for arbitrary `(c, a)`);
  * `prog_lga` — the instance; the prodded id only has to be SOME current member that is waiting.
-/
import FcLemmas.LiveGAnyRun
import FcLemmas.LiveGMain
set_option linter.unusedSimpArgs false
set_option linter.unusedVariables false

namespace Fc
namespace LiveGAny
open Mon Live Live3 G Grp C01 LiveG

/-- the group may be polled -/
structure LGW (stream keyed : Bool) (m : Mode) (n : Nat) (e : Eng Grp) : Prop where
  mode : e.w.mode = m
  std : m = .std → SB n e
  dir : m = .direct → DB n e
  g11 : ∃ U, G11.InvE stream keyed n U e ∧ ∀ c ∈ U, keyOf e.w.trace c ≠ none
  dead : e.s.dead = false
  al : alive e.w.trace = true
  bnd : ∀ c, keyOf e.w.trace c ≠ none → c < n
  wg : WG stream e.s.member e.w
  ib : ∀ k c, e.s.member k = some c → Needy (lastRes e.w.trace c) → e.w.isSet k = true
  nk : ∀ c, gone e.w.trace c = true → keyOf e.w.trace c ≠ none

/-- … and the run has not ended -/
structure LGA (stream keyed : Bool) (m : Mode) (n : Nat) (e : Eng Grp) : Prop where
  w : LGW stream keyed m n e
  pa : lastOut e.w.trace = some .pending →
    ∀ k c, e.s.member k = some c → lastRes e.w.trace c = some .pend
  ne : lastOut e.w.trace = some .pending → ∃ k c, e.s.member k = some c
  lo : Lo3 e

variable {stream keyed : Bool} {m : Mode} {n : Nat}

theorem lg_of_lga (e : Eng Grp) (h : LGA stream keyed m n e) : LG stream keyed m n e := by
  obtain ⟨U, hU, _⟩ := h.w.g11
  exact ⟨h.w.mode, h.w.std, h.w.dir, ⟨U, hU⟩, h.w.dead, h.w.al, h.w.bnd, h.w.wg, h.w.ib, h.pa, h.ne,
    h.lo⟩

theorem lgw_cb (e : Eng Grp) (h : LGW stream keyed m n e) : CB n e := by
  cases m with
  | std => exact (h.std rfl).cb
  | direct => exact (h.dir rfl).cb

theorem lgw_quiet (e : Eng Grp) (h : LGW stream keyed m n e) : quiet n e.w.trace = true := by
  cases m with
  | std => exact quiet_of_sb e (h.std rfl)
  | direct => exact quiet_of_db e (h.dir rfl)

theorem lgw_mb (e : Eng Grp) (h : LGW stream keyed m n e) : c01Boundaries n e.w.trace = true := by
  cases m with
  | std => exact (h.std rfl).mb
  | direct => exact (h.dir rfl).mb

theorem lgw_noneSet (e : Eng Grp) (h : LGW stream keyed m n e) :
    e.w.anyReady = false → ∀ k, e.w.isSet k = false := by
  intro ha k
  cases m with
  | std =>
    have hbc := (h.std rfl).gk.bc
    rw [World.isSet_std _ _ hbc.std]
    exact bc_count_zero hbc (anyReady_false_count hbc.std ha) k
  | direct =>
    simp [World.anyReady, h.mode] at ha

theorem lgw_kind (e : Eng Grp) (h : LGW stream keyed m n e) : ScriptsOk (G11.kindG stream) e.w := by
  obtain ⟨U, hU, _⟩ := h.g11
  have hs : e.s.stream = stream := (hU.live h.dead).1.hs
  have := (lgw_cb e h).ok
  unfold KOk at this
  rw [hs] at this
  exact this

/-- members sit in slots of the key set -/
theorem mem_members (e : Eng Grp) (h : LGW stream keyed m n e) (k c : Nat)
    (hk : e.s.member k = some c) : c ∈ ExecGAny.members e := by
  unfold ExecGAny.members
  rw [List.mem_filterMap]
  exact ⟨k, (lgw_cb e h).slab.kmem k (by rw [hk]; simp), hk⟩

theorem members_mem (e : Eng Grp) (c : Nat) (hc : c ∈ ExecGAny.members e) :
    ∃ k, e.s.member k = some c := by
  unfold ExecGAny.members at hc
  rw [List.mem_filterMap] at hc
  obtain ⟨k, _, hk⟩ := hc
  exact ⟨k, hk⟩

/-! ### one top-level poll, every outcome -/

/-- what is known right after a top-level poll, whatever it returned -/
structure PE' (stream : Bool) (len0 : Nat → Nat) (t0 : List Ev) (e : Eng Grp) : Prop where
  wg : WG stream e.s.member e.w
  a : ∀ k c, e.s.member k = some c → Needy (lastRes e.w.trace c) → e.w.isSet k = true
  dead : e.s.dead = false
  ps : ∀ c, polledSince e.w.trace c = true → keyOf e.w.trace c ≠ none
  gp : ∀ c, gone e.w.trace c = true → gone t0 c = true ∨ polledSince e.w.trace c = true
  al : alive e.w.trace = true
  shape : ∃ o t, e.w.trace = .pollEnd o :: t

variable {len0 : Nat → Nat} {t0 : List Ev}

theorem pe'_of_pj {e : Eng Grp} {V : Nat → Prop} (h : PJ stream len0 t0 e V) (o : Outcome) :
    PE' stream len0 t0 (e.emit (.pollEnd o)) := by
  refine ⟨wg_emit _ rfl h.wg, ?_, h.dead, ?_, ?_, ?_, ⟨o, e.w.trace, rfl⟩⟩
  · intro k c hk hn
    exact h.ib.a k c hk (by simpa [lastRes] using hn)
  · intro c hc
    simpa [polledSince, keyOf] using (h.pb.ps c (by simpa [polledSince] using hc)).1
  · intro c hc
    simpa [polledSince] using h.pb.gp c (by simpa [gone] using hc)
  · simpa [alive] using h.pb.al

theorem pj_poll' (e : Eng Grp) (wid : Nat)
    (hci : CI n { w := (e.w.emit (.pollBegin wid)).setWaker wid, s := group.start e.s }
      (group.order e.s))
    (hwg : WG stream e.s.member e.w)
    (hib : ∀ k c, e.s.member k = some c → Needy (lastRes e.w.trace c) → e.w.isSet k = true)
    (hd : e.s.dead = false) (hal : alive e.w.trace = true) :
    PE' stream (fun c => (e.w.scripts c).length) e.w.trace (Eng.poll group e wid) := by
  -- the state right after `pollBegin` + `set_waker`
  have h0 : PJ stream (fun c => (e.w.scripts c).length) e.w.trace
      { w := (e.w.emit (.pollBegin wid)).setWaker wid, s := group.start e.s } (fun _ => False) := by
    refine ⟨wg_congr (w := e.w.emit (.pollBegin wid)) rfl rfl rfl (wg_emit _ rfl hwg),
      pb_begin e.w wid hal, ⟨?_, fun _ _ hv => hv.elim⟩, hd⟩
    intro k c hk hn
    exact hib k c hk (by simpa [lastRes] using hn)
  unfold Eng.poll
  split
  · rename_i o ho
    -- decided before `set_waker`
    have h0' : PJ stream (fun c => (e.w.scripts c).length) e.w.trace (e.emit (.pollBegin wid))
        (fun _ => False) :=
      ⟨wg_congr (w := (e.w.emit (.pollBegin wid)).setWaker wid) rfl rfl rfl h0.wg,
        pb_congr (w := (e.w.emit (.pollBegin wid)).setWaker wid) rfl rfl h0.pb,
        ⟨fun k c hk hn => h0.ib.a k c hk hn, fun _ _ hv => hv.elim⟩, hd⟩
    exact pe'_of_pj h0' o
  · rename_i hpre
    unfold Eng.body
    split
    · exact pe'_of_pj h0 .pending
    · have hs1 := ci_scan (group.order e.s) (group.order e.s) _ hci hd
      have hs2 := pj_scan (stream := stream) (len0 := fun c => (e.w.scripts c).length)
        (t0 := e.w.trace) (group.order e.s) (group.order e.s)
        { w := (e.w.emit (.pollBegin wid)).setWaker wid, s := group.start e.s } (fun _ => False) hci h0
      unfold Eng.close
      split
      · rename_i o ho
        obtain ⟨hpj, _, _⟩ := hs2.2 o ho
        exact pe'_of_pj hpj _
      · rename_i hn
        have hpj := hs2.1 hn
        rw [finish_eq]
        have hpj' : PJ stream (fun c => (e.w.scripts c).length) e.w.trace
            ((Eng.scan group (group.order e.s)
              { w := (e.w.emit (.pollBegin wid)).setWaker wid, s := group.start e.s }).1.applyH
              { s := (Eng.scan group (group.order e.s)
                  { w := (e.w.emit (.pollBegin wid)).setWaker wid,
                    s := group.start e.s }).1.s.flushQueue,
                evs := [], kop := .nop,
                exit := some (if (Eng.scan group (group.order e.s)
                    { w := (e.w.emit (.pollBegin wid)).setWaker wid,
                      s := group.start e.s }).1.s.stream &&
                  (Eng.scan group (group.order e.s)
                    { w := (e.w.emit (.pollBegin wid)).setWaker wid,
                      s := group.start e.s }).1.s.doneCnt =
                  (Eng.scan group (group.order e.s)
                    { w := (e.w.emit (.pollBegin wid)).setWaker wid,
                      s := group.start e.s }).1.s.total then Outcome.none else Outcome.pending) })
            (fun j => False ∨ j ∈ group.order e.s) := by
          refine ⟨?_, ?_, ?_, by simpa using hpj.dead⟩
          · simpa [World.kop] using hpj.wg
          · simpa [World.kop] using hpj.pb
          · simpa [World.kop] using hpj.ib
        exact pe'_of_pj hpj' _

/-- a poll that returned `None` leaves no member (C11 / C12) -/
theorem no_member_of_none {U : List Nat} (e : Eng Grp) (t : List Ev)
    (hU : G11.InvE stream keyed n U e) (hd : e.s.dead = false)
    (ht : e.w.trace = .pollEnd .none :: t) : ∀ k, e.s.member k = none := by
  have hmon := hU.tr.mon
  have hcore := (hU.live hd).1
  have hlen := hcore.len
  rw [ht] at hmon hlen
  rw [lenOf_pollEnd] at hlen
  simp only [holds_G, grpAt, Bool.and_eq_true, beq_iff_eq] at hmon
  have hl : lenOf t = 0 := hmon.1.1.2.1
  have hcnt := hcore.slab.cnt
  intro k
  by_cases hlt : k < e.s.entries
  · have := cntP_zero (fun k => (e.s.member k).isSome) e.s.entries (by omega) k hlt
    cases hk : e.s.member k with
    | none => rfl
    | some c => simp [hk] at this
  · exact hcore.slab.hi k (by omega)

/-! ### one top-level poll -/

/-- the progress measure of `LiveG.lg_poll`, from `LGW`; in the `None` case the invariant holds
    afterwards and the group has no member -/
theorem lgw_poll (e : Eng Grp) (wid : Nat) (h : LGW stream keyed m n e) :
    (lastOut (Eng.poll group e wid).w.trace = some .none ∧ LGW stream keyed m n (Eng.poll group e wid) ∧
      ∀ k, (Eng.poll group e wid).s.member k = none) ∨
    (LGA stream keyed m n (Eng.poll group e wid) ∧ mu n (Eng.poll group e wid) ≤ mu n e ∧
      ((lastOut (Eng.poll group e wid).w.trace ≠ some .pending ∧
          mu n (Eng.poll group e wid) < mu n e) ∨
       (lastOut (Eng.poll group e wid).w.trace = some .pending ∧
          (mu n (Eng.poll group e wid) < mu n e ∨ wokeSince (Eng.poll group e wid).w.trace = false) ∧
          (Owed e → mu n (Eng.poll group e wid) < mu n e)))) := by
  have hcb := lgw_cb e h
  have hmb1 : c01Boundaries n (Ev.pollBegin wid :: e.w.trace) = true :=
    mb_startsOp n _ _ (lgw_mb e h) (lgw_quiet e h)
  have hci := ci_begin e wid hcb hmb1
  have hstd : m = .std → SB n (Eng.poll group e wid) := fun hm => sb_poll e wid (h.std hm)
  have hdir : m = .direct → DB n (Eng.poll group e wid) := fun hm => db_poll e wid (h.dir hm)
  obtain ⟨U, hU, hUk⟩ := h.g11
  have hU' : G11.InvE stream keyed n U (Eng.poll group e wid) :=
    (G11.pollG (G11.sim_group stream keyed n U m)
      (fun s t w hpre hI => G11.early_ok s t w hpre hI) e wid h.mode (lgw_kind e h) hU).2.2
  have hkey : ∀ c, keyOf (Eng.poll group e wid).w.trace c = keyOf e.w.trace c :=
    fun c => keyOf_poll e wid c
  have hpe' := pj_poll' (stream := stream) e wid hci h.wg h.ib h.dead h.al
  have hmode : (Eng.poll group e wid).w.mode = m := by
    cases m with
    | std => exact (hstd rfl).gk.bc.std
    | direct => exact (hdir rfl).gd.dir
  have hlgw : LGW stream keyed m n (Eng.poll group e wid) := by
    refine ⟨hmode, hstd, hdir, ⟨U, hU', fun c hc => by rw [hkey]; exact hUk c hc⟩, hpe'.dead, hpe'.al,
      fun c hc => h.bnd c (by rwa [hkey] at hc), hpe'.wg, hpe'.a, ?_⟩
    intro c hc
    rw [hkey]
    rcases hpe'.gp c hc with h1 | h1
    · exact h.nk c h1
    · have := hpe'.ps c h1; rwa [hkey] at this
  rcases pj_poll (stream := stream) e wid hci h.wg h.ib h.dead h.al (lgw_noneSet e h) with hnone | hpe
  · left
    refine ⟨hnone, hlgw, ?_⟩
    obtain ⟨o, t, ht⟩ := hpe'.shape
    have ho : o = .none := by
      rw [ht] at hnone
      simpa [lastOut] using hnone
    subst ho
    exact no_member_of_none _ t hU' hpe'.dead ht
  · right
    obtain ⟨o, t, ht, ho⟩ := hpe.shape
    have hlo : lastOut (Eng.poll group e wid).w.trace = some o := by rw [ht]; rfl
    have hlga : LGA stream keyed m n (Eng.poll group e wid) := by
      refine ⟨hlgw, hpe.pa, ?_, ?_⟩
      · intro hp
        rw [hlo] at hp
        simp only [Option.some.injEq] at hp
        subst hp
        exact member_of_pending _ t hU' hpe.dead ht
      · unfold Lo3
        rw [hlo]
        rcases ho with ho | ⟨key, vs, ho⟩
        · exact Or.inr (Or.inl (by rw [ho]))
        · exact Or.inr (Or.inr ⟨key, vs, by rw [ho]⟩)
    -- the measure
    have hLe : ∀ c, c < n →
        (if (keyOf (Eng.poll group e wid).w.trace c).isSome then
          ((Eng.poll group e wid).w.scripts c).length else 0)
        ≤ (if (keyOf e.w.trace c).isSome then (e.w.scripts c).length else 0) := by
      intro c _
      rw [hkey]
      split
      · exact hpe.le c
      · exact Nat.le_refl _
    have hle : mu n (Eng.poll group e wid) ≤ mu n e := total_le _ _ n hLe
    have hlt : ∀ c, polledSince (Eng.poll group e wid).w.trace c = true →
        mu n (Eng.poll group e wid) < mu n e := by
      intro c hc
      obtain ⟨hk, hl⟩ := hpe.ps c hc
      have hcn : c < n := h.bnd c (by rwa [hkey] at hk)
      refine total_lt _ _ n hLe c hcn ?_
      rw [hkey] at hk ⊢
      have : (keyOf e.w.trace c).isSome = true := by
        cases hh : keyOf e.w.trace c with
        | none => exact absurd hh hk
        | some x => rfl
      simp only [this, if_true]
      exact hl
    refine ⟨hlga, hle, ?_⟩
    rcases ho with ho | ⟨key, vs, ho⟩
    · -- `Pending`
      subst ho
      right
      refine ⟨hlo, ?_, ?_⟩
      · cases hw : wokeSince (Eng.poll group e wid).w.trace with
        | false => exact Or.inr rfl
        | true =>
          obtain ⟨c, hc⟩ := hpe.wk hw
          exact Or.inl (hlt c hc)
      · -- C20: the owed waiting member was polled in this poll
        rintro ⟨k, c, hkc, hlr, how⟩
        refine hlt c ?_
        have hcn : c < n := h.bnd c (by rw [hcb.link.f1 k c hkc]; simp)
        have hab : atPollBegin t = e.w.trace := by
          have := hpe.ab; rw [ht] at this; simpa [atPollBegin] using this
        have hps : polledSince (Eng.poll group e wid).w.trace c = polledSince t c := by
          rw [ht]; simp [polledSince]
        rw [hps]
        cases hg : gone t c with
        | true =>
          rcases hpe.gp c (by rw [ht]; simpa [gone] using hg) with h1 | h1
          · rw [(h.wg.mem k c hkc).2.2] at h1; exact Bool.noConfusion h1
          · rw [← hps]; exact h1
        | false =>
          have hm20 := (lgw_cb _ hlgw).m20
          rw [ht] at hm20
          simp only [holds_C20, Bool.and_eq_true] at hm20
          have h20 := hm20.2
          simp only [c20At, List.all_eq_true, List.mem_range] at h20
          have hcc := h20 c hcn
          have hkt : keyOf t c = some k := by
            have := hkey c; rw [ht] at this
            simp only [keyOf] at this
            rw [this]; exact hcb.link.f1 k c hkc
          rw [hab] at hcc
          simp only [owned, Bool.false_eq_true, if_false, hkt, Option.isSome_some, hg, Bool.not_false,
            Bool.and_self, Bool.not_true, Bool.false_or, hlr, how, beq_self_eq_true,
            Bool.and_eq_true] at hcc
          exact hcc.2
    · -- an item / an output
      subst ho
      left
      refine ⟨by rw [hlo]; simp, ?_⟩
      obtain ⟨c, hc⟩ := hpe.sm key vs hlo
      exact hlt c hc

/-! ### one wake-up between polls: any id, any age -/

theorem lgw_fire (e : Eng Grp) (c a : Nat) (h : LGW stream keyed m n e) :
    LGW stream keyed m n (e.fire c a) := by
  obtain ⟨U, hU, hUk⟩ := h.g11
  refine ⟨by simpa using h.mode, fun hm => sb_fire e c a (h.std hm), fun hm => db_fire e c a (h.dir hm),
    ⟨U, (Sim.fireT (G11.sim_group stream keyed n U m) e c a h.mode (lgw_kind e h) hU).2.2, ?_⟩,
    h.dead, ?_, ?_, wg_fire e.w c a h.wg, ?_, ?_⟩
  · intro j hj
    simp only [Eng.fire_w, keyOf_fire]
    exact hUk j hj
  · simp only [Eng.fire_w, C01.alive_fire]; exact h.al
  · intro j hj
    simp only [Eng.fire_w, keyOf_fire] at hj
    exact h.bnd j hj
  · intro k j hk hn
    simp only [Eng.fire_w, Eng.fire_s, C16.lastRes_fire] at hk hn ⊢
    exact World.isSet_fire_mono _ _ _ _ (h.ib k j hk hn)
  · intro j hj
    obtain ⟨l, hl, hp⟩ := World.fire_seg e.w c a
    simp only [Eng.fire_w, keyOf_fire]
    simp only [Eng.fire_w, hl, gone_fires l _ j hp] at hj
    exact h.nk j hj

theorem lga_fire (e : Eng Grp) (c a : Nat) (h : LGA stream keyed m n e) :
    LGA stream keyed m n (e.fire c a) := by
  have hlo : lastOut (e.fire c a).w.trace = lastOut e.w.trace := C01.lastOut_fire e.w c a
  refine ⟨lgw_fire e c a h.w, ?_, ?_, ?_⟩
  · intro hp k j hk
    rw [hlo] at hp
    simp only [Eng.fire_w, Eng.fire_s, C16.lastRes_fire] at hk ⊢
    exact h.pa hp k j hk
  · intro hp
    rw [hlo] at hp
    exact h.ne hp
  · unfold Lo3; rw [hlo]; exact h.lo

theorem owed_fire (e : Eng Grp) (c a : Nat) (h : Owed e) : Owed (e.fire c a) := by
  obtain ⟨k, j, hk, hlr, how⟩ := h
  refine ⟨k, j, hk, ?_, ?_⟩
  · simp only [Eng.fire_w, C16.lastRes_fire]; exact hlr
  · obtain ⟨l, hl, hp⟩ := World.fire_seg e.w c a
    simp only [Eng.fire_w, hl]
    exact owes_fires_mono j l _ hp how

/-- after a `Pending` poll some member is waiting -/
theorem waiting_some (e : Eng Grp) (h : LGA stream keyed m n e)
    (hlo : lastOut e.w.trace = some .pending) :
    ∃ c, c ∈ ExecGAny.members e ∧ ExecGAny.isWaiting e c = true := by
  obtain ⟨k, c, hkc⟩ := h.ne hlo
  have hlr := h.pa hlo k c hkc
  have hne := wb_ne_nil _ (h.w.wg.mem k c hkc).1
  exact ⟨c, mem_members e h.w k c hkc, by simp [ExecGAny.isWaiting, hlr, hne]⟩

/-- the instance of the abstract argument -/
theorem prog_lga : ProgA (LGW stream keyed m n) (LGA stream keyed m n)
    (fun e => ∀ k, e.s.member k = none) (mu n) Owed where
  weak := fun e h => h.w
  lo := fun e h => h.lo
  poll := by
    intro e wid h
    rcases lgw_poll e wid h with h1 | h1
    · exact Or.inl h1
    · exact Or.inr h1
  fire := fun e c a h => lga_fire e c a h
  mfire := fun e c a => mu_fire e c a
  wfire := fun e c a h => owed_fire e c a h
  waiting := fun e h hlo => waiting_some e h hlo
  woke := by
    intro e c h hlo hc hw
    obtain ⟨k, hkc⟩ := members_mem e c hc
    simp only [ExecGAny.isWaiting, Bool.and_eq_true, beq_iff_eq, Bool.not_eq_true',
      List.isEmpty_eq_false_iff] at hw
    obtain ⟨hO, hW⟩ := fire_woke e k c (lg_of_lga e h) hlo hkc hw.1
    refine ⟨hO, hW, ?_⟩
    have hkey : keyOf e.w.trace c = some k := (lgw_cb e h.w).link.f1 k c hkc
    have hcn : c < n := h.w.bnd c (by rw [hkey]; simp)
    have h3 := le_total (fun c => if (keyOf e.w.trace c).isSome then (e.w.scripts c).length else 0)
      n c hcn
    have h4 := length_pos_of_ne_nil'' _ hw.2
    simp only [hkey, Option.isSome_some, if_true] at h3
    unfold mu
    omega

end LiveGAny
end Fc
