/-
  FcLemmas/LiveNGen.lean — facts about ONE `Eng.poll` that the liveness proof for nests needs on top
  of the flat liveness lemmas:

    * `poll_scripts_le`   a poll never makes a script longer (every lawful policy);
    * `poll_woke_fires`   if ANY waker was invoked inside the poll (`woke k` for any `k`, also a stale
                          one) then some child was polled whose script contains a step with in-poll
                          wake-ups — a poll that polls no child wakes nobody;
    * `poll_unresolved`   a future combinator (`Live2.FutLike`) does not poll a child that has
                          resolved;
    * `futLike_of_joinLike` both join models are `Live2.FutLike`.
-/
import FcLemmas.LiveNRel
import FcLemmas.Live2Inst
set_option linter.unusedSimpArgs false
set_option linter.unusedVariables false

namespace Fc
open Mon

namespace Nest

/-! ### `sincePB` -/

def notPB : Ev → Bool
  | .pollBegin _ => false
  | _ => true

theorem sincePB_append (l t : List Ev) (hl : ∀ e ∈ l, notPB e = true) :
    sincePB (l ++ t) = l ++ sincePB t := by
  induction l with
  | nil => rfl
  | cons e l ih =>
    have he := hl e (List.mem_cons_self ..)
    have := ih (fun e' he' => hl e' (List.mem_cons_of_mem _ he'))
    cases e <;> simp_all [notPB, sincePB]

theorem notPB_of_neutral (e : Ev) (h : neutralEv e = true) : notPB e = true := by
  cases e <;> simp_all [neutralEv, notPB]

theorem notPB_of_fire (e : Ev) (h : isFireEv e = true) : notPB e = true := by
  cases e <;> simp_all [isFireEv, notPB]

/-- some waker was invoked since the latest `pollBegin` -/
def wokeAny (t : List Ev) : Prop := ∃ k, Ev.woke k ∈ sincePB t

theorem wokeAny_neutral (l t : List Ev) (hl : ∀ e ∈ l, neutralEv e = true) (h : wokeAny (l ++ t)) :
    wokeAny t := by
  obtain ⟨k, hk⟩ := h
  rw [sincePB_append l t (fun e he => notPB_of_neutral e (hl e he))] at hk
  rcases List.mem_append.mp hk with hk | hk
  · have := hl _ hk; simp [neutralEv] at this
  · exact ⟨k, hk⟩

theorem wokeSince_wokeAny (t : List Ev) (h : wokeSince t = true) : wokeAny t := by
  obtain ⟨w, _, hw⟩ := wokeSince_mem t h
  exact ⟨w, hw⟩

theorem polledSince_mono_neutral (l t : List Ev) (c : Nat) (hl : ∀ e ∈ l, neutralEv e = true) :
    polledSince (l ++ t) c = polledSince t c := polledSince_neutral l t c hl

variable {P : Policy Fix}

/-! ### a poll never makes a script longer -/

theorem poll_scripts_le (L : Lawful P) (e : Eng Fix) (wid c : Nat) :
    ((Eng.poll P e wid).w.scripts c).length ≤ (e.w.scripts c).length := by
  have := Eng.poll_ind L (fun w _ => ∀ c, (w.scripts c).length ≤ (e.w.scripts c).length)
    ?_ ?_ ?_ e wid (fun c => Nat.le_refl _)
  · obtain ⟨_, h⟩ := this; exact h c
  · intro w w' _ hn h c; rw [hn.sc]; exact h c
  · intro w i rest h; exact h
  · intro w i rest h c
    rw [Live.pollChild_scripts]
    by_cases hci : c = i
    · subst hci
      simp only [upd_same, List.length_tail]
      have := h c; omega
    · rw [upd_other _ _ _ _ hci]; exact h c

/-! ### a poll that wakes somebody polled a child with in-poll wake-ups -/

/-- the script of `c` contains a step with in-poll wake-ups -/
def hasFires (l : List Step) : Prop := ∃ st ∈ l, st.fires ≠ []

theorem poll_woke_fires (L : Lawful P) (e : Eng Fix) (wid : Nat)
    (h : wokeAny (Eng.poll P e wid).w.trace) :
    ∃ c, polledSince (Eng.poll P e wid).w.trace c = true ∧ hasFires (e.w.scripts c) := by
  have := Eng.poll_ind L
    (fun w _ => (∀ c, ∃ pre, e.w.scripts c = pre ++ w.scripts c) ∧
      (wokeAny w.trace → ∃ c, polledSince w.trace c = true ∧ hasFires (e.w.scripts c)))
    ?_ ?_ ?_ e wid ?_
  · obtain ⟨_, _, h2⟩ := this; exact h2 h
  · intro w w' _ hn ⟨h1, h2⟩
    obtain ⟨l, hl, hp⟩ := hn.tr
    refine ⟨fun c => by rw [hn.sc]; exact h1 c, fun hw => ?_⟩
    rw [hl] at hw
    obtain ⟨c, hc, hf⟩ := h2 (wokeAny_neutral l _ hp hw)
    exact ⟨c, by rw [hl, polledSince_neutral l _ c hp]; exact hc, hf⟩
  · intro w i rest h; exact h
  · intro w i rest ⟨h1, h2⟩
    refine ⟨fun c => ?_, fun hw => ?_⟩
    · rw [Live.pollChild_scripts]
      obtain ⟨pre, hpre⟩ := h1 c
      by_cases hci : c = i
      · subst hci
        simp only [upd_same]
        cases hs : w.scripts c with
        | nil => exact ⟨pre, by rw [hpre, hs]; rfl⟩
        | cons st tl => exact ⟨pre ++ [st], by rw [hpre, hs]; simp⟩
      · rw [upd_other _ _ _ _ hci]; exact ⟨pre, hpre⟩
    · by_cases hf : (w.stepOf i).fires = []
      · -- no in-poll wake-up: only `childBegin`, `childEnd` are appended
        have ht : (w.pollChild i i).trace
            = .childEnd i (w.resOf i) :: .childBegin i i (w.wakerFor i) :: w.trace := by
          unfold World.pollChild
          rw [hf]; rfl
        have hw' : wokeAny w.trace := by
          obtain ⟨k, hk⟩ := hw
          rw [ht] at hk
          simp only [sincePB, List.mem_cons] at hk
          rcases hk with hk | hk | hk
          · cases hk
          · cases hk
          · exact ⟨k, hk⟩
        obtain ⟨c, hc, hfc⟩ := h2 hw'
        exact ⟨c, by rw [polledSince_pollChild, hc]; simp, hfc⟩
      · refine ⟨i, by rw [polledSince_pollChild]; simp, ?_⟩
        obtain ⟨pre, hpre⟩ := h1 i
        cases hs : w.scripts i with
        | nil => simp [World.stepOf, hs] at hf
        | cons st tl =>
          refine ⟨st, by rw [hpre, hs]; simp, ?_⟩
          simpa [World.stepOf, hs] using hf
  · refine ⟨fun c => ⟨[], rfl⟩, fun hw => ?_⟩
    obtain ⟨k, hk⟩ := hw
    simp [sincePB] at hk

/-- … in particular it polled a child -/
theorem poll_woke_polled (L : Lawful P) (e : Eng Fix) (wid : Nat)
    (h : wokeAny (Eng.poll P e wid).w.trace) :
    ∃ c, polledSince (Eng.poll P e wid).w.trace c = true := by
  obtain ⟨c, hc, _⟩ := poll_woke_fires L e wid h
  exact ⟨c, hc⟩

end Nest

/-! ### a future combinator does not poll a resolved child -/

namespace Live2
open Live

variable {P : Policy Fix} {n : Nat} {I : Fix → List Ev → Prop} {J : Fix → List Ev → List Nat → Prop}
  {Fin : Bool → List Nat → Prop} {m : Mode}

/-- child `c` resolved before this poll and has not been polled in it -/
def Unres (c : Nat) (r : Res) (w : World) : Prop :=
  polledSince w.trace c = false ∧ lastRes w.trace c = some r

theorem unres_visit (FL : FutLike P n I J Fin) {c : Nat} {ok : Bool} {v : Nat} (e : Eng Fix)
    (i : Nat) (rest : List Nat) (hJ : J e.s e.w.trace (i :: rest))
    (h : Unres c (.ready ok v) e.w) : Unres c (.ready ok v) (Eng.visit P e i).1.w := by
  have L := FL.conc.law
  have hstep : ∀ (evs : List Ev), (∀ ev ∈ evs, isOwnEv ev = true) → Eng.gateGo P e i = true →
      Unres c (.ready ok v) (((Eng.gateW P e i).pollChild i i).emits evs) := by
    intro evs hevs hg
    have hel : P.eligible e.s i = true := by
      unfold Eng.gateGo at hg; simp only [Bool.and_eq_true] at hg; exact hg.1
    have hne : i ≠ c := by
      intro hic
      subst hic
      exact FL.jun _ _ _ _ hJ hel ok v h.2
    have hne' : ¬ i = c := hne
    refine ⟨?_, ?_⟩
    · rw [polledSince_emits_own _ _ hevs, polledSince_pollChild, Sim.gateW_trace]
      simp [hne', h.1]
    · rw [C16.lastRes_emits_own _ _ hevs, C16.lastRes_pollChild, Sim.gateW_trace]
      simp [hne', h.2]
  refine Eng.visit_ind P e i (fun r => Unres c (.ready ok v) r.1.w) ?_ ?_ ?_ ?_
  · intro _ _; exact h
  · intro _ _
    unfold Unres
    simp only [Sim.gateW_trace]; exact h
  · intro _ hg _
    rw [L.child_id]
    exact hstep _ (L.evs_panic e.s) hg
  · intro _ hg _
    rw [L.child_id]
    have := hstep _ (L.evs_handle e.s i (e.w.resOf i)) hg
    unfold Unres at this ⊢
    simpa using this

theorem unres_scan (FL : FutLike P n I J Fin) {c : Nat} {ok : Bool} {v : Nat} :
    ∀ (l : List Nat) (e : Eng Fix), e.w.mode = m → J e.s e.w.trace l →
      Unres c (.ready ok v) e.w → Unres c (.ready ok v) (Eng.scan P l e).1.w := by
  intro l
  induction l with
  | nil => intro e _ _ h; exact h
  | cons i rest ih =>
    intro e hm hJ h
    have hv := unres_visit FL e i rest hJ h
    have hT := Sim.visitT (FL.sim m) e i rest hm (Sim.scriptsOk_any _) hJ
    unfold Eng.scan
    cases hvis : (Eng.visit P e i).2 with
    | some o => exact hv
    | none => exact ih _ hT.1 (hT.2.2.1 hvis) hv

theorem unres_emit_end {c : Nat} {r : Res} {w : World} (h : Unres c r w) (o : Outcome) :
    Unres c r (w.emit (.pollEnd o)) := by
  unfold Unres at h ⊢
  simpa [polledSince, lastRes] using h

/-- a child that resolved before the poll is not polled by it, and keeps its answer -/
theorem poll_unresolved (FL : FutLike P n I J Fin) (e : Eng Fix) (wid : Nat) (hm : e.w.mode = m)
    (hI : I e.s e.w.trace) (c : Nat) (ok : Bool) (v : Nat)
    (hr : lastRes e.w.trace c = some (.ready ok v)) :
    polledSince (Eng.poll P e wid).w.trace c = false ∧
      lastRes (Eng.poll P e wid).w.trace c = some (.ready ok v) := by
  have hb : Unres c (.ready ok v) ((e.w.emit (.pollBegin wid)).setWaker wid) :=
    ⟨by simp [polledSince], by simpa [lastRes] using hr⟩
  show Unres c (.ready ok v) (Eng.poll P e wid).w
  unfold Eng.poll
  split
  · exact unres_emit_end (w := e.w.emit (.pollBegin wid)) hb _
  · rename_i hpre
    unfold Eng.body
    simp only
    split
    · exact unres_emit_end hb _
    · have hJ := (FL.sim m).start _ _ wid hpre hI
      have hs := unres_scan (m := m) FL (P.order e.s)
        { w := (e.w.emit (.pollBegin wid)).setWaker wid, s := P.start e.s } hm hJ hb
      unfold Eng.close
      split
      · exact unres_emit_end hs _
      · refine unres_emit_end ?_ _
        unfold Unres at hs ⊢
        have hown := FL.conc.law.evs_finish
          (Eng.scan P (P.order e.s) { w := (e.w.emit (.pollBegin wid)).setWaker wid, s := P.start e.s }).1.s
        simp only [Eng.applyH_w, World.kop_trace]
        rw [polledSince_emits_own _ _ hown, C16.lastRes_emits_own _ _ hown]
        exact hs

/-! ### join is `FutLike` -/

/-- join resolves to `Ready` with every output -/
def FinTrue (ok : Bool) (_ : List Nat) : Prop := ok = true

theorem futLike_of_joinLike {slice : Bool} (JL : JoinLike P slice) (n : Nat) :
    FutLike P n (C04.Inv slice n) (C04.J slice n) FinTrue where
  conc := JL.conc
  hdrop := JL.hdrop
  hfin := JL.hfin
  sim := fun m => JL.sim n m
  hn := fun s t h => h.hn
  jlt := fun s t i rest h => h.2.2.2 i (List.mem_cons_self ..)
  jun := by
    intro s t i rest h hel ok v hlr
    obtain ⟨hI, hd, _, hlt⟩ := h
    have hi : i < n := hlt i (List.mem_cons_self ..)
    rcases hI.live hd i hi with ⟨_, hrv⟩ | ⟨hr, _⟩
    · simp [resolvedVal, hlr] at hrv
    · exact JL.helig _ _ hel hr
  pend := by
    intro s t h
    have hmon := h.mon
    simp only [holds_C04, Bool.and_eq_true, c04At, allResolved, Bool.not_eq_true',
      List.all_eq_false, List.mem_range] at hmon
    obtain ⟨c, hc, hn⟩ := hmon.2
    refine ⟨c, hc, ?_⟩
    cases hrv : resolvedVal t c with
    | none => rfl
    | some v => simp [hrv] at hn
  nsome := by
    intro s t k vals h
    have hmon := h.mon
    simp [holds_C04, c04At] at hmon
  nnone := by
    intro s t h
    have hmon := h.mon
    simp [holds_C04, c04At] at hmon
  misuse := by
    intro s t h
    have hmon := h.mon
    simp only [holds_C04, Bool.and_eq_true, c04At] at hmon
    exact hmon.2
  fin := by
    intro s t ok vals h
    have hmon := h.mon
    simp only [holds_C04, Bool.and_eq_true, c04At] at hmon
    exact hmon.2.1.1

end Live2
end Fc
