/-
  FcLemmas/LiveGStuckRun.lean — FutureGroup / StreamGroup under the wake-only executor with an
  arbitrary schedule and a busy environment (`ExecGAny.runForB`) when some members NEVER complete:
  the induction on the round budget, stated once for abstract invariants.

  `ProgGS` is `LiveGAny.ProgA` with one change (the one `LiveStuck.ProgS` makes to `LiveAny.ProgG`):
  after a `Pending` poll EITHER some member is waiting (latest answer `Pending`, a scripted step
  left) OR the measure is zero — with never-completing members the group may stay `Pending` with
  nobody left to wake it.  `ends_aux`: within `3 * M + 1` rounds the run is DRAINED (latest outcome
  `None`, `InvW` and `D` hold) or QUIESCENT (`QuietG`: `Inv` holds, the latest outcome is `Pending`,
  the task has not been woken since, the measure is zero).
-/
import FcLemmas.LiveGAnyRun
import FcLemmas.LiveGMain
import Fc.ExecGStuck
set_option linter.unusedSimpArgs false
set_option linter.unusedVariables false

namespace Fc
namespace LiveGStuck
open Mon Live LiveG LiveGAny

/-- what the induction needs from the invariants -/
structure ProgGS (InvW Inv D : Eng Grp → Prop) (M : Eng Grp → Nat) (W : Eng Grp → Prop) : Prop where
  weak : ∀ e, Inv e → InvW e
  lo : ∀ e, Inv e → Lo3 e
  poll : ∀ e wid, InvW e →
    (lastOut (Eng.poll group e wid).w.trace = some .none ∧ InvW (Eng.poll group e wid) ∧
      D (Eng.poll group e wid)) ∨
    (Inv (Eng.poll group e wid) ∧ M (Eng.poll group e wid) ≤ M e ∧
      ((lastOut (Eng.poll group e wid).w.trace ≠ some .pending ∧ M (Eng.poll group e wid) < M e) ∨
       (lastOut (Eng.poll group e wid).w.trace = some .pending ∧
          (M (Eng.poll group e wid) < M e ∨ wokeSince (Eng.poll group e wid).w.trace = false) ∧
          (W e → M (Eng.poll group e wid) < M e))))
  fire : ∀ e c a, Inv e → Inv (e.fire c a)
  mfire : ∀ e c a, M (e.fire c a) = M e
  wfire : ∀ e c a, W e → W (e.fire c a)
  /-- a pending group: some member is waiting, or no step is left -/
  waiting : ∀ e, Inv e → lastOut e.w.trace = some .pending →
    (∃ c, c ∈ ExecGAny.members e ∧ ExecGAny.isWaiting e c = true) ∨ M e = 0
  /-- prodding ANY waiting member: afterwards it is owed a poll and the task has been woken -/
  woke : ∀ e c, Inv e → lastOut e.w.trace = some .pending → c ∈ ExecGAny.members e →
    ExecGAny.isWaiting e c = true →
    W (e.fire c 0) ∧ wokeSince (e.fire c 0).w.trace = true ∧ 1 ≤ M e

/-- drained: the stream of the group has ended -/
def DoneG (InvW D : Eng Grp → Prop) (e : Eng Grp) : Prop :=
  lastOut e.w.trace = some .none ∧ InvW e ∧ D e

/-- quiescent: `Pending`, not woken, nothing left to consume -/
def QuietG (Inv : Eng Grp → Prop) (M : Eng Grp → Nat) (e : Eng Grp) : Prop :=
  Inv e ∧ lastOut e.w.trace = some .pending ∧ wokeSince e.w.trace = false ∧ M e = 0

variable {InvW Inv D : Eng Grp → Prop} {M : Eng Grp → Nat} {W : Eng Grp → Prop}
variable {pick : Nat → Eng Grp → Nat} {pre post : Nat → Eng Grp → List (Nat × Nat)}

theorem fires_inv' (hf : ∀ e c a, Inv e → Inv (e.fire c a)) :
    ∀ (l : List (Nat × Nat)) (e : Eng Grp), Inv e → Inv (ExecGAny.fires e l) := by
  intro l
  induction l with
  | nil => intro e h; exact h
  | cons p l ih => intro e h; exact ih _ (hf e p.1 p.2 h)

theorem fires_M' (hf : ∀ e c a, M (e.fire c a) = M e) :
    ∀ (l : List (Nat × Nat)) (e : Eng Grp), M (ExecGAny.fires e l) = M e := by
  intro l
  induction l with
  | nil => intro e; rfl
  | cons p l ih => intro e; simp only [ExecGAny.fires]; rw [ih, hf]

theorem round_pollS (G : ProgGS InvW Inv D M W) (r : Nat) (e : Eng Grp) (h : Inv e)
    (hsp : Exec.shouldPoll e.w.trace = true) :
    ExecGAny.roundB pick pre post r e = some (Eng.poll group e (Exec.pollCount e.w.trace + 1)) := by
  unfold ExecGAny.roundB; rw [finalOut_lo3 (G.lo e h), hsp]; simp

theorem round_fireS (G : ProgGS InvW Inv D M W) (r : Nat) (e : Eng Grp) (h : Inv e)
    (hsp : Exec.shouldPoll e.w.trace = false)
    (c : Nat) (hch : ExecGAny.choose pick r e = some c) :
    ExecGAny.roundB pick pre post r e
      = some (ExecGAny.fires ((ExecGAny.fires e (pre r e)).fire c 0) (post r e)) := by
  unfold ExecGAny.roundB; rw [finalOut_lo3 (G.lo e h), hsp, hch]; simp

/-- after one poll of an `InvW` state: what the remaining budget `N` has to cover -/
theorem after_pollS (G : ProgGS InvW Inv D M W) {N : Nat}
    (ih : ∀ r e, Inv e → CondG M W e N →
      ∃ k, k ≤ N ∧ (DoneG InvW D (ExecGAny.runForB pick pre post k r e) ∨
        QuietG Inv M (ExecGAny.runForB pick pre post k r e)))
    (r : Nat) (e : Eng Grp) (h : InvW e)
    (hE : (W e ∧ 3 * M e ≤ N + 2) ∨ 3 * M e ≤ N) :
    ∃ k, k ≤ N ∧ (DoneG InvW D (ExecGAny.runForB pick pre post k r
        (Eng.poll group e (Exec.pollCount e.w.trace + 1))) ∨
      QuietG Inv M (ExecGAny.runForB pick pre post k r
        (Eng.poll group e (Exec.pollCount e.w.trace + 1)))) := by
  rcases G.poll e (Exec.pollCount e.w.trace + 1) h with hv | ⟨h', hle, hcase⟩
  · refine ⟨0, by omega, Or.inl ?_⟩
    simp only [ExecGAny.runForB]; exact hv
  · have hcond : CondG M W (Eng.poll group e (Exec.pollCount e.w.trace + 1)) N := by
      rcases hcase with ⟨hnp, hlt⟩ | ⟨hlo', hD, hEE⟩
      · left
        refine ⟨shouldPoll_not_pending (G.lo _ h') hnp, ?_⟩
        rcases hE with ⟨_, hb⟩ | hb <;> omega
      · have hsp' := shouldPoll_pending hlo'
        cases hw : wokeSince (Eng.poll group e (Exec.pollCount e.w.trace + 1)).w.trace with
        | true =>
          left
          refine ⟨by rw [hsp', hw], ?_⟩
          rcases hE with ⟨hW, hb⟩ | hb
          · have := hEE hW; omega
          · rcases hD with hD | hD
            · omega
            · rw [hw] at hD; exact Bool.noConfusion hD
        | false =>
          right; left
          refine ⟨by rw [hsp', hw], ?_⟩
          rcases hE with ⟨hW, hb⟩ | hb
          · have := hEE hW; omega
          · omega
    exact ih r _ h' hcond

theorem poll_roundS (G : ProgGS InvW Inv D M W) {N : Nat}
    (ih : ∀ r e, Inv e → CondG M W e N →
      ∃ k, k ≤ N ∧ (DoneG InvW D (ExecGAny.runForB pick pre post k r e) ∨
        QuietG Inv M (ExecGAny.runForB pick pre post k r e)))
    (r : Nat) (e : Eng Grp) (h : Inv e) (hsp : Exec.shouldPoll e.w.trace = true)
    (hE : (W e ∧ 3 * M e ≤ N + 2) ∨ 3 * M e ≤ N) :
    ∃ k, k ≤ N + 1 ∧ (DoneG InvW D (ExecGAny.runForB pick pre post k r e) ∨
        QuietG Inv M (ExecGAny.runForB pick pre post k r e)) := by
  have hr := round_pollS (pick := pick) (pre := pre) (post := post) G r e h hsp
  obtain ⟨k, hk, hv⟩ := after_pollS G ih (r + 1) e (G.weak e h) hE
  exact ⟨k + 1, by omega, by simp only [ExecGAny.runForB, hr]; exact hv⟩

/-- the induction on the number of rounds allowed; `r` = current round number -/
theorem ends_auxS (G : ProgGS InvW Inv D M W) : ∀ (N r : Nat) (e : Eng Grp), Inv e → CondG M W e N →
    ∃ k, k ≤ N ∧ (DoneG InvW D (ExecGAny.runForB pick pre post k r e) ∨
        QuietG Inv M (ExecGAny.runForB pick pre post k r e)) := by
  intro N
  induction N with
  | zero =>
    intro r e h hc
    rcases hc with ⟨_, h1⟩ | ⟨hsp, h1⟩ | ⟨_, _, h1, h2⟩
    · omega
    · obtain ⟨hlo, hw⟩ := shouldPoll_false_pending3 (G.lo e h) hsp
      exact ⟨0, Nat.le_refl _, Or.inr ⟨h, hlo, hw, by simp only [ExecGAny.runForB]; omega⟩⟩
    · omega
  | succ N ih =>
    intro r e h hc
    rcases hc with ⟨hsp, h1⟩ | ⟨hsp, h1⟩ | ⟨hsp, hwit, h1, h2⟩
    · exact poll_roundS G ih r e h hsp (Or.inr (by omega))
    · obtain ⟨hlo, hwk⟩ := shouldPoll_false_pending3 (G.lo e h) hsp
      rcases G.waiting e h hlo with ⟨c1, hc1m, hc1w⟩ | hzero
      · obtain ⟨c0, h0⟩ := choose_isSome pick r hc1m hc1w
        obtain ⟨hc, hwt⟩ := choose_spec h0
        have hr := round_fireS (pre := pre) (post := post) G r e h hsp c0 h0
        -- the wake-ups before the prod
        have h1' : Inv (ExecGAny.fires e (pre r e)) := fires_inv' G.fire _ e h
        have hlo1 : lastOut (ExecGAny.fires e (pre r e)).w.trace = some .pending := by
          rw [fires_lastOut]; exact hlo
        have hc1 : c0 ∈ ExecGAny.members (ExecGAny.fires e (pre r e)) := by
          rw [fires_members]; exact hc
        have hwt1 : ExecGAny.isWaiting (ExecGAny.fires e (pre r e)) c0 = true := by
          rw [fires_isWaiting]; exact hwt
        -- the prod
        obtain ⟨hW, hw, hM1⟩ := G.woke _ c0 h1' hlo1 hc1 hwt1
        have h2' : Inv ((ExecGAny.fires e (pre r e)).fire c0 0) := G.fire _ c0 0 h1'
        -- the wake-ups after the prod
        have h' := fires_inv' G.fire (post r e) _ h2'
        have hW' : W (ExecGAny.fires ((ExecGAny.fires e (pre r e)).fire c0 0) (post r e)) :=
          fires_inv' (Inv := W) G.wfire (post r e) _ hW
        have hw' := fires_wokeSince_mono (post r e) _ hw
        have hlo' : lastOut (ExecGAny.fires ((ExecGAny.fires e (pre r e)).fire c0 0) (post r e)).w.trace
            = some .pending := by
          rw [fires_lastOut,
            show lastOut ((ExecGAny.fires e (pre r e)).fire c0 0).w.trace
              = lastOut (ExecGAny.fires e (pre r e)).w.trace from C01.lastOut_fire _ c0 0]
          exact hlo1
        have hsl : M (ExecGAny.fires ((ExecGAny.fires e (pre r e)).fire c0 0) (post r e)) = M e := by
          rw [fires_M' G.mfire, G.mfire, fires_M' G.mfire]
        rw [fires_M' G.mfire] at hM1
        have hcond : CondG M W (ExecGAny.fires ((ExecGAny.fires e (pre r e)).fire c0 0) (post r e)) N := by
          right; right
          refine ⟨by rw [shouldPoll_pending hlo', hw'], hW', ?_, ?_⟩
          · rw [hsl]; exact hM1
          · rw [hsl]; omega
        obtain ⟨k, hk, hv⟩ := ih (r + 1) _ h' hcond
        exact ⟨k + 1, by omega, by simp only [ExecGAny.runForB, hr]; exact hv⟩
      · exact ⟨0, Nat.zero_le _, Or.inr ⟨h, hlo, hwk, hzero⟩⟩
    · exact poll_roundS G ih r e h hsp (Or.inl ⟨hwit, by omega⟩)

/-- every run from a state satisfying the invariant — whatever the schedule and the extra wake-ups —
    is drained or quiescent within `3 * M + 1` rounds -/
theorem endsB_of_progS (G : ProgGS InvW Inv D M W) (pick : Nat → Eng Grp → Nat)
    (pre post : Nat → Eng Grp → List (Nat × Nat)) (r : Nat) (e : Eng Grp) (h : Inv e)
    (hsp : Exec.shouldPoll e.w.trace = true) :
    ∃ k, k ≤ 3 * M e + 1 ∧ (DoneG InvW D (ExecGAny.runForB pick pre post k r e) ∨
        QuietG Inv M (ExecGAny.runForB pick pre post k r e)) :=
  ends_auxS G _ r e h (Or.inl ⟨hsp, Nat.le_refl _⟩)

/-! ### a run at rest stays at rest -/

theorem firstWaiting_none_of_stepsLeft {e : Eng Grp} (h : ExecG.stepsLeft e = 0) :
    ExecG.firstWaiting e = none := by
  unfold ExecG.firstWaiting
  rw [List.find?_eq_none]
  intro c hc
  have hlen : (e.w.scripts c).length ≤ ExecG.stepsLeft e := by
    unfold ExecG.stepsLeft
    exact le_sum_of_mem _ _ (List.mem_map.mpr ⟨c, hc, rfl⟩)
  have : e.w.scripts c = [] := List.eq_nil_of_length_eq_zero (by omega)
  simp [this]

theorem choose_none_of_stepsLeft {e : Eng Grp} (r : Nat) (h : ExecG.stepsLeft e = 0) :
    ExecGAny.choose pick r e = none := by
  cases hch : ExecGAny.choose pick r e with
  | none => rfl
  | some c =>
    obtain ⟨hc, hw⟩ := choose_spec hch
    obtain ⟨c0, h0⟩ := firstWaiting_isSome hc hw
    rw [firstWaiting_none_of_stepsLeft h] at h0; cases h0

/-- at rest nothing is left to do: nothing to poll for, nobody to prod — whatever the schedule and
    whatever wakers the busy environment would fire -/
theorem atRest_roundB {e : Eng Grp} (h : ExecG.atRest e = true) (r : Nat) :
    ExecGAny.roundB pick pre post r e = none := by
  simp only [ExecG.atRest, Bool.and_eq_true, beq_iff_eq, Bool.not_eq_true'] at h
  obtain ⟨⟨hlo, hw⟩, hs⟩ := h
  unfold ExecGAny.roundB
  have hsp : Exec.shouldPoll e.w.trace = false := by rw [shouldPoll_pending hlo]; exact hw
  rw [hlo, hsp, choose_none_of_stepsLeft r hs]
  simp [Exec.finalOut]

theorem atRest_runB {e : Eng Grp} (h : ExecG.atRest e = true) (k r : Nat) :
    ExecGAny.runForB pick pre post k r e = e := by
  cases k with
  | zero => rfl
  | succ k => simp only [ExecGAny.runForB, atRest_roundB h r]

theorem atRest_round {e : Eng Grp} (h : ExecG.atRest e = true) (r : Nat) :
    ExecGAny.round pick r e = none := by
  rw [round_eq_roundB]; exact atRest_roundB h r

theorem atRest_run {e : Eng Grp} (h : ExecG.atRest e = true) (k r : Nat) :
    ExecGAny.runFor pick k r e = e := by
  rw [runFor_eq_runForB]; exact atRest_runB h k r

end LiveGStuck
end Fc
