/-
  FcLemmas/KTieMergeADMain.lean — array merge, no_std / alloc-only flavour (port of FcLemmas/KTieMergeAMain.lean): the
  translated `Merge::poll_next` of `[S; N]::merge()` compiled against utils/wakers/array/no_std.rs (FcGen/KSrcArr3D.lean,
  namespace `MergeAD`) refines `Eng.poll merge` on a world in `direct` mode.  The container- and flavour-independent
  lemmas about the model (`visit_*`, `poll_unfold`, `close_none`, `close_some` of the namespace `TieMergeV`,
  `TieIdx.iter_collect`) are imported, not copied.  The loop body is taken from the generated definition by unification
  (`refine loop_bind …`); the proofs use the role abbreviations only (`unroles`).
  Simpler than the std proof: `any_ready` and `clear_ready` answer `true`, so only "the slot's stream has ended" and the
  three answers of a polled child remain; the readiness set changes in `set_waker` only.
-/
import FcLemmas.KTieMergeADLoop
import FcLemmas.KTieMergeMain
import FcLemmas.KTieSteps

set_option linter.unusedSimpArgs false
set_option linter.unusedVariables false

namespace Fc
open Rs Src

namespace TieMergeAD
open MergeAD
open TieMergeV (visit_noReady visit_skip visit_pend visit_item visit_fin_last visit_fin_more poll_unfold close_none close_some)

local macro "unroles" : tactic =>
  `(tactic| try simp only [Merge.roleKids, Merge.roleIndexer, Merge.roleCount, Merge.roleWakers, Merge.roleStates,
      Merge.roleDone] at *)

/-- re-establishing `Rel` after a step that leaves the children, the indexer and the table sizes alone -/
theorem Rel.update {n : Nat} {b0 : World} {e : Eng Fix} {g : Merge} {env : World} (hR : Rel n b0 e g env)
    (e' : Eng Fix) (g' : Merge) (env' : World)
    (hw : e'.w = TieDir.absA g'.roleWakers.readiness env')
    (hn : e'.s.n = e.s.n) (hk : g'.roleKids = g.roleKids)
    (hst : e'.s.st = fun i => TiePS.abs (g'.roleStates.get i))
    (hcnt : e'.s.cnt = g'.roleCount)
    (hoff : e'.s.off = e.s.off) (hix : g'.roleIndexer = g.roleIndexer)
    (hsl : g'.roleStates.len = g.roleStates.len)
    (hpar : g'.roleWakers.readiness.roleParent ≠ none)
    (hin : HandedIn n b0 → HandedIn n env') (hsok : StreamStepsF env') (hfl : SameFlags b0 env') : Rel n b0 e' g' env' where
  ew := hw
  en := by rw [hn, hR.en]
  kids := by rw [hk, hR.kids]
  st := hst
  cnt := hcnt
  off := by rw [hoff, hR.off, hix]
  sl := by rw [hsl, hR.sl]
  mx := by rw [hix, hR.mx]
  par := hpar
  hin := hin
  sok := hsok
  fl := hfl

/-- what `Rel` at the end of the scan says about the model state after the closing `pollEnd` -/
theorem post_of_rel {n : Nat} {X : Eng Fix} {g' : Merge} {env' : World} (b : Eng Fix) (hR : Rel n b.w X g' env')
    (o : Outcome) :
    fcore (absM g' b) = fcore (X.emit (.pollEnd o)) ∧ env'.scripts = (X.emit (.pollEnd o)).w.scripts ∧
      env'.handed = (X.emit (.pollEnd o)).w.handed ∧ (X.emit (.pollEnd o)).w.trace = .pollEnd o :: env'.trace := by
  obtain ⟨hw, hen, hk, hst, hcnt, hoff, hsl, hmx, hpar, hhin, hsok, hc1, hc2, hc3⟩ := hR
  refine ⟨?_, ?_, ?_, ?_⟩
  · simp only [fcore, absM, Eng.emit, World.emit, hw, hen, hk, hst, hcnt, hoff, TieDir.absA, hc1, hc2, hc3]
  · simp only [Eng.emit, World.emit, hw]; rfl
  · simp only [Eng.emit, World.emit, hw]; rfl
  · simp only [Eng.emit, World.emit, hw]; rfl

/-- the refinement, together with the facts about the environment that the next poll needs again; NO hypothesis on the
    handed-out wakers (a stale sub-waker does nothing in this flavour, in the translated code and in the model) -/
theorem poll_tie_core (N : Nat) (g : Merge) (b : Eng Fix) (w : Nat) (hW : WfM N g) (hS : StreamStepsF b.w)
    (hd : b.s.dead = false) :
    ∃ g' env' ret,
      Merge.poll_next N g w ((absM g b).w.emit (.pollBegin w)) = some (g', env', ret) ∧
      (ret ≠ .ready none ∨ N = 0 → WfM N g') ∧
      (fcore (absM g' b) = fcore (Eng.poll merge (absM g b) w) ∧
       env'.scripts = (Eng.poll merge (absM g b) w).w.scripts ∧
       env'.handed = (Eng.poll merge (absM g b) w).w.handed ∧
       (Eng.poll merge (absM g b) w).w.trace = .pollEnd (outcomeOfStream ret) :: env'.trace) ∧
      g'.roleKids.len = g.roleKids.len ∧ (HandedIn N b.w → HandedIn N env') ∧ StreamStepsF env' := by
  have hkn := hW.kn
  by_cases hn : N = 0
  · -- no children: the early return
    refine ⟨g, (absM g b).w.emit (.pollBegin w), .ready none, ?_, fun _ => hW, ?_, rfl,
      fun hH c i hm => hH c i hm, hS⟩
    · unfold Merge.poll_next
      unroles
      simp [hn]
    · have hn0 : g.roleKids.len = 0 := by rw [hkn]; exact hn
      have hp : Eng.poll merge (absM g b) w = ((absM g b).emit (.pollBegin w)).emit (.pollEnd .none) := by
        simp [Eng.poll, merge, absM, hn0]
      rw [hp]
      exact ⟨rfl, rfl, rfl, rfl⟩
  · suffices h : ∃ g' env' ret, Merge.poll_next N g w ((absM g b).w.emit (.pollBegin w)) = some (g', env', ret) ∧
        ∃ X, Rel N b.w X g' env' ∧ (ret ≠ .ready none → g'.roleCount < N) ∧
          Eng.poll merge (absM g b) w = X.emit (.pollEnd (outcomeOfStream ret)) by
      obtain ⟨g', env', ret, h1, X, hR, hc, hp⟩ := h
      refine ⟨g', env', ret, h1, ?_, ?_, by rw [hR.kids, hkn], hR.hin, hR.sok⟩
      · intro hh
        rcases hh with hh | hh
        · exact ⟨hR.kids, hR.sl, hR.mx, Or.inl (hc hh)⟩
        · exact absurd hh hn
      · rw [hp]; exact post_of_rel b hR _
    have hpoll := poll_unfold (absM g b) w (show (absM g b).s.n ≠ 0 by show g.roleKids.len ≠ 0; rw [hkn]; exact hn) hd
    obtain ⟨-, hsl, hmx, hcn⟩ := hW
    have hcn' : g.roleCount < N := by omega
    have hrot : (absM g b).s.rot = (List.range N).map (fun k => (k + g.roleIndexer.roleOffset) % N) := by
      show (List.range g.roleKids.len).map (fun k => (k + g.roleIndexer.roleOffset) % g.roleKids.len) = _
      rw [hkn]
    obtain ⟨r1, hs1, hs3⟩ := (TieDir.arr_tie N g.roleWakers.readiness
      ((absM g b).w.emit (.pollBegin w)) 0 w).2.2.2.2.2.2.2.2.1
    have hparent : r1.roleParent ≠ none := by
      have := congrArg World.parent hs3
      simp at this
      rw [this]; simp
    have hfuel : g.roleIndexer.roleMax ≤ Idx.Indexer.fuel g.roleIndexer := by
      unfold Idx.Indexer.fuel
      simp only [Idx.Indexer.roleMax]
      omega
    obtain ⟨ix, it, hi1, hi2, hi3, hi4⟩ := TieIdx.iter_collect g.roleIndexer (Idx.Indexer.fuel g.roleIndexer)
      (by omega) hfuel
    rw [hmx] at hi2 hi3 hi4
    have hl : ∀ i ∈ (List.range N).map (fun k => (k + g.roleIndexer.roleOffset) % N),
        i < N := by
      intro i hi
      simp only [List.mem_map] at hi
      obtain ⟨k, _, rfl⟩ := hi
      exact Nat.mod_lt _ (by omega)
    rw [hrot] at hpoll
    unfold Merge.poll_next
    unroles
    simp only [hs1, hi1, hi4, beq_iff_eq, hn, Option.bind_eq_bind, Option.bind_some, Option.pure_def, ↓reduceIte]
    refine loop_bind N _ ?hF _ b.w
      { w := ((absM g b).w.emit (.pollBegin w)).setWaker w, s := (absM g b).s.bump } _ _ ?hR ?hc hl _ _ ?hK
    case hF =>
      clear hs1 hs3 hi1 hi2 hi3 hi4 hsl hmx hcn hcn' hS hd hpoll hl hparent hfuel hrot hkn
      clear hn g
      intro b0 e g env i hR hc hi
      dsimp only
      have hR0 := hR
      obtain ⟨hw, hen, hk, hst, hcnt, hoff, hsl, hmx, hpar, hhin, hsok, hfl⟩ := hR
      obtain ⟨-, hc1, -, hr1, -, -, -, ha, -, hpw⟩ := TieDir.arr_tie N g.roleWakers.readiness env i 0
      obtain ⟨p, hp⟩ := Option.ne_none_iff_exists'.mp hpar
      have hidx : Rs.PVec.idx g.roleStates i = some (g.roleStates.get i) := by
        simp [Rs.PVec.idx, hsl, hi]
      have hisn := (TiePS.tie (g.roleStates.get i)).1
      have hkid : Rs.Kids.get g.roleKids i = some i := by simp [Rs.Kids.get, hk, hi]
      obtain ⟨env3, hp1, hp4, hp5, hp6, hp7⟩ := mad_pollChild_tie N g.roleWakers.readiness env i p hp
      have hsok3 := hsok.tail i hp6
      try simp only [mad_wake] at hp1
      have hany' : e.w.anyReady = true := by rw [hw]; rfl
      have hset' : e.w.isSet i = true := by rw [hw]; rfl
      have hclr : e.w.clearReady i = e.w := by rw [hw]; rfl
      simp only [mad_abs_anyReady, mad_abs_isSet, mad_abs_parent] at ha hc1 hpw
      by_cases hsn : TiePS.abs (g.roleStates.get i) = .none
      · -- the slot's stream has ended
        have hv := visit_skip e i hany' (Or.inr (by rw [hst]; exact hsn))
        unroles
        simp only [ha, hc1, hidx, hisn, hsn, decide_true, Option.bind_some, Bool.not_false, Bool.not_true,
          Bool.false_eq_true, ↓reduceIte]
        refine ⟨_, _, _, rfl, ?_, Or.inl ⟨rfl, ?_, ?_⟩⟩
        · rw [hv]
          refine hR0.update _ _ _ ?_ rfl rfl hst hcnt rfl rfl rfl hpar hhin hsok hfl
          unroles
          rw [hclr, hw]
        · rw [hv]
        · exact hc
      · -- the child is polled
        have hsn' : e.s.st i ≠ .none := by rw [hst]; exact hsn
        have hres' : e.w.resOf i = env.resOf i := by rw [hw]; rfl
        have hget : WakerArrayD.get N g.roleWakers i = some (Wk.par p) := by
          simp only [WakerArrayD.get]
          unroles
          simp [hpw, hp]
        unroles
        simp only [ha, hc1, hidx, hisn, hsn, decide_false, Option.bind_some, Bool.not_false, Bool.not_true,
          Bool.false_eq_true, ↓reduceIte, hget, hi, hkid, Rs.expect, Rs.pollStream, hp1]
        rcases hsok.resOf i with hres | hres | ⟨v, hres⟩
        · -- Pending
          have hv := visit_pend e i hany' hset' hsn' (by rw [hres', hres])
          simp only [hres, Option.bind_some]
          refine ⟨_, _, _, rfl, ?_, Or.inl ⟨rfl, ?_, ?_⟩⟩
          · rw [hv]
            refine hR0.update _ _ _ ?_ rfl rfl hst hcnt rfl rfl rfl hpar (fun h => hp5 (hhin h)) hsok3 (hfl.trans hp7)
            unroles
            rw [hp4, hclr, hw]
          · rw [hv]
          · exact hc
        · -- the stream ended
          obtain ⟨q, hq1, hq2⟩ := (TiePS.tie (g.roleStates.get i)).2.2.2.1
          have hset2 : Rs.PVec.set g.roleStates i q
              = some ⟨g.roleStates.len, fun j => if j = i then q else g.roleStates.get j⟩ := by
            simp [Rs.PVec.set, hsl, hi]
          unroles
          simp only [hres, Option.bind_some, Rs.uadd, hq1, hset2]
          by_cases hlast : g.roleCount + 1 = g.roleKids.len <;> unroles
          · have hv := visit_fin_last e i hany' hset' hsn' (by rw [hres', hres]) (by rw [hcnt, hen, ← hk]; exact hlast)
            simp only [hlast, ↓reduceIte]
            refine ⟨_, _, _, rfl, ?_, Or.inr ⟨_, rfl, ?_, ?_⟩⟩
            · rw [hv]
              refine hR0.update _ _ _ ?_ rfl rfl ?_ ?_ rfl rfl rfl hpar (fun h => hp5 (hhin h)) hsok3 (hfl.trans hp7)
              · unroles
                rw [hp4, hclr, hw]
              · unroles
                funext j
                by_cases hj : j = i <;> simp [upd, hj, hq2, hst]
              · unroles
                simp only [hcnt]
                exact hlast
            · rw [hv]; rfl
            · intro hne; exact absurd rfl hne
          · have hv := visit_fin_more e i hany' hset' hsn' (by rw [hres', hres]) (by rw [hcnt, hen, ← hk]; exact hlast)
            simp only [hlast, ↓reduceIte]
            refine ⟨_, _, _, rfl, ?_, Or.inl ⟨rfl, ?_, ?_⟩⟩
            · rw [hv]
              refine hR0.update _ _ _ ?_ rfl rfl ?_ ?_ rfl rfl rfl hpar (fun h => hp5 (hhin h)) hsok3 (hfl.trans hp7)
              · unroles
                rw [hp4, hclr, hw]
              · unroles
                funext j
                by_cases hj : j = i <;> simp [upd, hj, hq2, hst]
              · unroles
                simp only [hcnt]
            · rw [hv]
            · unroles; omega
        · -- an item
          have hv := visit_item e i v hany' hset' hsn' (by rw [hres', hres])
          simp only [hres, Option.bind_some, hr1]
          refine ⟨_, _, _, rfl, ?_, Or.inr ⟨_, rfl, ?_, ?_⟩⟩
          · rw [hv]
            refine hR0.update _ _ _ ?_ rfl rfl hst hcnt rfl rfl rfl hpar (fun h => hp5 (hhin h)) hsok3 (hfl.trans hp7)
            unroles
            rw [hclr, hw, ← hp4]; rfl
          · rw [hv]; rfl
          · intro _; exact hc
    case hc => exact hcn'
    case hR =>
      refine ⟨?_, hkn, hkn, rfl, rfl, ?_, hsl, hi2, hparent, ?_, hS, rfl, rfl, rfl⟩
      · unroles
        rw [hs3]; rfl
      · unroles
        simp only [Fix.bump, absM, hi3, hkn]
      · intro hH c i hm; exact hH c i hm
    case hK =>
      intro g' env' r hR' hcase
      rcases hcase with ⟨rfl, hx, hc'⟩ | ⟨v, rfl, hx, hc'⟩
      · refine ⟨_, _, _, rfl, _, hR', fun _ => hc', ?_⟩
        rw [hpoll]
        exact close_none _ hx
      · refine ⟨_, _, _, rfl, _, hR', hc', ?_⟩
        rw [hpoll]
        exact close_some _ _ hx

theorem poll_tie_main : poll_tie_statement := by
  intro N g b w hW hS _ hd
  obtain ⟨g', env', ret, h1, h2, ⟨h3, h4, h5, h6⟩, _⟩ := poll_tie_core N g b w hW hS hd
  exact ⟨g', env', ret, h1, h2, h3, h4, h5, h6⟩

end TieMergeAD
end Fc
